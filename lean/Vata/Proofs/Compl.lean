import Vata.Compl
import Vata.Proofs.InclUpInv
import Vata.Proofs.TrimModel
/-!
# Complementation over a ranked alphabet (property C06): the reference and the model are right

* `complRef_spec` : every automaton `complRef A Sg fuel` returns accepts exactly the trees over `Sg` that `A` rejects.
  Key lemma `det_reach`: in the complete deterministic automaton on a closed list of profiles, `reach` of a tree over
  `Sg` is the singleton of the number of the tree's profile, and empty for a tree that is not over `Sg`.
* `complTD_spec`  : the same for the model `complTD` of `ExplicitDownwardComplementation::Compute` followed by
  `RemoveUselessStates`.  Key lemma `td_reach`: the state numbered for the macro-state `P` reaches `t` iff `t` is over
  `Sg` and no state of `P` reaches `t` in `A` (the choice-function argument, by induction on `t`).
* `tdRun_cert`, `complTD_eq` : the exploration is right by itself – a finished run of the work-list always passes the
  final certificate check, so `complTD` is `none` only when the fuel is exhausted.
-/
namespace Vata
namespace Compl
open InclUp (normS mem_normS)

/-! ### general lemmas -/

mutual
theorem tree_ind_aux {P : Tree → Prop} (h : ∀ f ts, (∀ t, t ∈ ts → P t) → P (.node f ts)) : ∀ t, P t
  | .node f ts => h f ts (tree_ind_auxL h ts)
theorem tree_ind_auxL {P : Tree → Prop} (h : ∀ f ts, (∀ t, t ∈ ts → P t) → P (.node f ts)) :
    ∀ ts : List Tree, ∀ t, t ∈ ts → P t
  | [], _, ht => by cases ht
  | t :: ts, t', ht => by
    rcases List.mem_cons.mp ht with e | ht
    · rw [e]; exact tree_ind_aux h t
    · exact tree_ind_auxL h ts t' ht
end

theorem overSigL_iff (Sg : List (Nat × Nat)) : ∀ ts : List Tree,
    overSigL Sg ts = true ↔ ∀ t, t ∈ ts → overSig Sg t = true
  | [] => by simp [overSigL]
  | t :: ts => by
    simp only [overSigL, Bool.and_eq_true, overSigL_iff Sg ts, List.mem_cons, forall_eq_or_imp]

theorem overSig_node (Sg : List (Nat × Nat)) (f : Nat) (ts : List Tree) :
    overSig Sg (.node f ts) = true ↔ (f, ts.length) ∈ Sg ∧ ∀ t, t ∈ ts → overSig Sg t = true := by
  rw [overSig, Bool.and_eq_true, overSigL_iff, lenT_eq, List.contains_iff_mem]

theorem matchKids_iff : ∀ {ks : List Nat} {ss : List (List Nat)},
    matchKids ks ss = true ↔ ks.length = ss.length ∧ ∀ i, i < ks.length → ks.getD i 0 ∈ ss.getD i []
  | [], [] => by simp [matchKids]
  | [], _ :: _ => by simp [matchKids]
  | _ :: _, [] => by simp [matchKids]
  | k :: ks, s :: ss => by
    simp only [matchKids, Bool.and_eq_true, List.contains_iff_mem, matchKids_iff (ks := ks) (ss := ss),
      List.length_cons]
    constructor
    · rintro ⟨h1, h2, h3⟩
      refine ⟨by omega, ?_⟩
      intro i hi
      cases i with
      | zero => simpa using h1
      | succ i => simpa using h3 i (by omega)
    · rintro ⟨h1, h2⟩
      refine ⟨by simpa using h2 0 (by omega), by omega, ?_⟩
      intro i hi
      simpa using h2 (i+1) (by omega)

theorem getD_map_reach (g : Tree → List Nat) (ts : List Tree) (i : Nat) (h : i < ts.length) :
    (ts.map g).getD i [] = g ts[i] := by
  simp [List.getD_eq_getElem?_getD, h]

theorem getD_map_range (g : Nat → Nat) (n i : Nat) (h : i < n) : ((List.range n).map g).getD i 0 = g i := by
  simp [List.getD_eq_getElem?_getD, h]

theorem getD_map_idx {α : Type} (g : α → Nat) (ps : List α) (i : Nat) (h : i < ps.length) :
    (ps.map g).getD i 0 = g ps[i] := by
  simp [List.getD_eq_getElem?_getD, h]

theorem reach_node (A : TA) (f : Nat) (ts : List Tree) : reach A (.node f ts) = post A f (ts.map (reach A)) := by
  rw [reach, reachL_eq_map]

theorem idxOf_get {l : List (List Nat)} {p : List Nat} (hp : p ∈ l) {q : List Nat} (hq : q ∈ l)
    (h : l.idxOf p = l.idxOf q) : p = q := by
  have h1 : l.idxOf p < l.length := List.idxOf_lt_length_iff.mpr hp
  have h2 : l.idxOf q < l.length := List.idxOf_lt_length_iff.mpr hq
  have e1 := List.getElem_idxOf h1
  have e2 := List.getElem_idxOf h2
  rw [← e1, ← e2]
  simp only [h]

theorem mem_tuplesM {P : List (List Nat)} {n : Nat} {ps : List (List Nat)} :
    ps ∈ tuplesM P n ↔ ps.length = n ∧ ∀ p, p ∈ ps → p ∈ P := by
  induction n generalizing ps with
  | zero =>
    simp only [tuplesM, List.mem_singleton]
    constructor
    · rintro rfl; simp
    · rintro ⟨h, _⟩; exact List.length_eq_zero_iff.mp h
  | succ n ih =>
    simp only [tuplesM, List.mem_flatMap, List.mem_map]
    constructor
    · rintro ⟨p, hp, qs, hqs, rfl⟩
      obtain ⟨hl, hm⟩ := ih.mp hqs
      refine ⟨by simp [hl], ?_⟩
      intro x hx
      rcases List.mem_cons.mp hx with rfl | hx
      · exact hp
      · exact hm x hx
    · rintro ⟨hl, hm⟩
      cases ps with
      | nil => simp at hl
      | cons p qs =>
        refine ⟨p, hm p (List.mem_cons_self), qs, ih.mpr ⟨by simpa using hl, fun x hx => hm x (List.mem_cons_of_mem _ hx)⟩, rfl⟩

theorem mem_detRules {A : TA} {Sg : List (Nat × Nat)} {Ps : List (List Nat)} {r : Rule} :
    r ∈ detRules A Sg Ps ↔ ∃ f ps, (f, ps.length) ∈ Sg ∧ (∀ p, p ∈ ps → p ∈ Ps) ∧
      r = ⟨f, ps.map (fun p => Ps.idxOf p), Ps.idxOf (normS (post A f ps))⟩ := by
  simp only [detRules, List.mem_flatMap, List.mem_map, mem_tuplesM]
  constructor
  · rintro ⟨⟨f, n⟩, hfa, ps, ⟨hl, hm⟩, rfl⟩
    simp only at hl
    subst hl
    exact ⟨f, ps, hfa, hm, rfl⟩
  · rintro ⟨f, ps, hfa, hm, rfl⟩
    exact ⟨(f, ps.length), hfa, ps, ⟨rfl, hm⟩, rfl⟩

theorem detClosedB_iff {A : TA} {Sg : List (Nat × Nat)} {Ps : List (List Nat)} :
    detClosedB A Sg Ps = true ↔
      ∀ f ps, (f, ps.length) ∈ Sg → (∀ p, p ∈ ps → p ∈ Ps) → normS (post A f ps) ∈ Ps := by
  simp only [detClosedB, detStep, List.all_eq_true, List.mem_flatMap, List.mem_map, mem_tuplesM,
    List.contains_iff_mem]
  constructor
  · intro h f ps hfa hm
    exact h _ ⟨(f, ps.length), hfa, ps, ⟨rfl, hm⟩, rfl⟩
  · rintro h p ⟨⟨f, n⟩, hfa, ps, ⟨hl, hm⟩, rfl⟩
    simp only at hl
    subst hl
    exact h f ps hfa hm

theorem detSat_closed {A : TA} {Sg : List (Nat × Nat)} : ∀ {fuel : Nat} {Ps₀ Ps : List (List Nat)},
    detSat A Sg fuel Ps₀ = some Ps → detClosedB A Sg Ps = true
  | 0, Ps₀, Ps, h => by
    unfold detSat at h
    split at h
    · next hc => cases h; exact hc
    · cases h
  | n+1, Ps₀, Ps, h => by
    unfold detSat at h
    split at h
    · next hc => cases h; exact hc
    · exact detSat_closed h

/-- the profile of a tree: its `reach`-set as a sorted duplicate-free list -/
def prof (A : TA) (t : Tree) : List Nat := normS (reach A t)

theorem all2_map {α β γ : Type} {R : β → γ → Prop} (g : α → β) (h : α → γ) :
    ∀ l : List α, (∀ a, a ∈ l → R (g a) (h a)) → All2 R (l.map g) (l.map h)
  | [], _ => All2.nil
  | a :: l, H => All2.cons (H a List.mem_cons_self) (all2_map g h l (fun b hb => H b (List.mem_cons_of_mem _ hb)))

theorem prof_node (A : TA) (f : Nat) (ts : List Tree) :
    prof A (.node f ts) = normS (post A f (ts.map (prof A))) := by
  rw [prof, reach_node]
  congr 1
  apply post_congr
  apply all2_map
  intro t _ x
  exact mem_normS.symm

theorem det_reach {A : TA} {Sg : List (Nat × Nat)} {Ps : List (List Nat)} (hcl : detClosedB A Sg Ps = true) :
    ∀ t, (overSig Sg t = true →
            prof A t ∈ Ps ∧ ∀ q, q ∈ reach (detAut A Sg Ps) t ↔ q = Ps.idxOf (prof A t)) ∧
         (overSig Sg t = false → ∀ q, q ∉ reach (detAut A Sg Ps) t) := by
  have hcl' := detClosedB_iff.mp hcl
  apply tree_ind_aux
  intro f ts ih
  have hrule : ∀ q, q ∈ reach (detAut A Sg Ps) (.node f ts) ↔
      ∃ ps : List (List Nat), (f, ps.length) ∈ Sg ∧ (∀ p, p ∈ ps → p ∈ Ps) ∧ ps.length = ts.length ∧
        (∀ i (h : i < ts.length), Ps.idxOf (ps.getD i []) ∈ reach (detAut A Sg Ps) ts[i]) ∧
        q = Ps.idxOf (normS (post A f ps)) := by
    intro q
    rw [reach_node, mem_post']
    constructor
    · rintro ⟨r, hr, hs, hm, hp⟩
      obtain ⟨f', ps, hfa, hps, rfl⟩ := mem_detRules.mp hr
      simp only at hs hm hp
      subst hs
      obtain ⟨hl, hk⟩ := matchKids_iff.mp hm
      simp only [List.length_map] at hl hk
      refine ⟨ps, hfa, hps, hl, ?_, hp.symm⟩
      intro i hi
      have := hk i (by omega)
      rw [getD_map_reach _ _ _ hi, getD_map_idx _ _ _ (by omega)] at this
      simpa [List.getD_eq_getElem?_getD, show i < ps.length by omega] using this
    · rintro ⟨ps, hfa, hps, hl, hk, rfl⟩
      refine ⟨⟨f, ps.map (fun p => Ps.idxOf p), Ps.idxOf (normS (post A f ps))⟩,
        mem_detRules.mpr ⟨f, ps, hfa, hps, rfl⟩, rfl, ?_, rfl⟩
      apply matchKids_iff.mpr
      simp only [List.length_map]
      refine ⟨hl, ?_⟩
      intro i hi
      have := hk i (by omega)
      rw [getD_map_reach _ _ _ (by omega), getD_map_idx _ _ _ hi]
      simpa [List.getD_eq_getElem?_getD, hi] using this
  constructor
  · intro hov
    obtain ⟨hfa, hts⟩ := (overSig_node Sg f ts).mp hov
    have hps : ∀ p, p ∈ ts.map (prof A) → p ∈ Ps := by
      intro p hp
      obtain ⟨t, ht, rfl⟩ := List.mem_map.mp hp
      exact ((ih t ht).1 (hts t ht)).1
    have hfa' : (f, (ts.map (prof A)).length) ∈ Sg := by simpa using hfa
    refine ⟨by rw [prof_node]; exact hcl' f _ hfa' hps, ?_⟩
    intro q
    rw [hrule, prof_node]
    constructor
    · rintro ⟨ps, _, hpsm, hl, hk, rfl⟩
      have : ps = ts.map (prof A) := by
        apply List.ext_getElem (by simpa using hl)
        intro i h1 h2
        have hi : i < ts.length := by omega
        have hk' := hk i hi
        rw [((ih ts[i] (List.getElem_mem hi)).1 (hts _ (List.getElem_mem hi))).2] at hk'
        have hget : ps.getD i [] = ps[i] := by simp [List.getD_eq_getElem?_getD, h1]
        rw [hget] at hk'
        rw [List.getElem_map]
        exact idxOf_get (hpsm _ (List.getElem_mem h1))
          ((ih ts[i] (List.getElem_mem hi)).1 (hts _ (List.getElem_mem hi))).1 hk'
      rw [this]
    · rintro rfl
      refine ⟨ts.map (prof A), hfa', hps, by simp, ?_, rfl⟩
      intro i hi
      rw [((ih ts[i] (List.getElem_mem hi)).1 (hts _ (List.getElem_mem hi))).2]
      simp [List.getD_eq_getElem?_getD, hi]
  · intro hov q hq
    obtain ⟨ps, hfa, _, hl, hk, _⟩ := (hrule q).mp hq
    have : ¬ ∀ t, t ∈ ts → overSig Sg t = true := by
      intro hall
      have := (overSig_node Sg f ts).mpr ⟨hl ▸ hfa, hall⟩
      rw [hov] at this; cases this
    apply this
    intro t ht
    obtain ⟨i, hi, rfl⟩ := List.getElem_of_mem ht
    cases ho : overSig Sg ts[i] with
    | true => rfl
    | false => exact absurd (hk i hi) ((ih _ ht).2 ho _)

theorem accepts_iff (A : TA) (t : Tree) : accepts A t = true ↔ ∃ q, q ∈ reach A t ∧ q ∈ A.final := by
  simp only [accepts, accepting, List.any_eq_true, List.contains_iff_mem]

theorem accepting_prof (A : TA) (t : Tree) : accepting A (prof A t) = accepts A t :=
  accepting_congr A (fun _ => mem_normS)

theorem detAut_spec {A : TA} {Sg : List (Nat × Nat)} {Ps : List (List Nat)} (hcl : detClosedB A Sg Ps = true)
    (t : Tree) :
    (overSig Sg t = true → accepts (detAut A Sg Ps) t = !accepts A t) ∧
    (overSig Sg t = false → accepts (detAut A Sg Ps) t = false) := by
  obtain ⟨h1, h2⟩ := det_reach hcl t
  constructor
  · intro hov
    obtain ⟨hp, hq⟩ := h1 hov
    have hfin : ∀ q, q ∈ (detAut A Sg Ps).final ↔ ∃ p, (p ∈ Ps ∧ (!accepting A p) = true) ∧ Ps.idxOf p = q := by
      intro q
      simp only [detAut, detFinal, List.mem_map, List.mem_filter]
    rw [Bool.eq_iff_iff, accepts_iff]
    constructor
    · rintro ⟨q, hq1, hq2⟩
      obtain ⟨p, ⟨hpm, hacc⟩, he⟩ := (hfin q).mp hq2
      rw [(hq q).mp hq1] at he
      have : p = prof A t := idxOf_get hpm hp he
      subst this
      rw [accepting_prof] at hacc
      exact hacc
    · intro h
      refine ⟨Ps.idxOf (prof A t), (hq _).mpr rfl, (hfin _).mpr ⟨prof A t, ⟨hp, ?_⟩, rfl⟩⟩
      rw [accepting_prof]; exact h
  · intro hov
    cases hacc : accepts (detAut A Sg Ps) t with
    | false => rfl
    | true =>
      obtain ⟨q, hq, _⟩ := (accepts_iff _ _).mp hacc
      exact absurd hq (h2 hov q)

theorem complRef_spec {A : TA} {Sg : List (Nat × Nat)} {fuel : Nat} {C : TA} :
    complRef A Sg fuel = some C →
      ∀ t, (overSig Sg t = true → accepts C t = !accepts A t) ∧ (overSig Sg t = false → accepts C t = false) := by
  intro h
  unfold complRef at h
  cases hs : detSat A Sg fuel [] with
  | none => rw [hs] at h; cases h
  | some Ps =>
    rw [hs] at h
    simp only [Option.map_some, Option.some.injEq] at h
    subst h
    exact detAut_spec (detSat_closed hs)

/-- non-vacuity: the reference returns an automaton on a nondeterministic input with an alphabet symbol unused by it -/
example : ∃ C, complRef Ex.aND Ex.sg3 20 = some C ∧
    ∀ t, (overSig Ex.sg3 t = true → accepts C t = !accepts Ex.aND t) ∧ (overSig Ex.sg3 t = false → accepts C t = false) := by
  have hs : (complRef Ex.aND Ex.sg3 20).isSome = true := by decide
  obtain ⟨C, hC⟩ := Option.isSome_iff_exists.mp hs
  exact ⟨C, hC, complRef_spec hC⟩

/-- non-vacuity of the hypothesis of `det_reach` / `detAut_spec`: a closed non-empty list of profiles -/
example : detClosedB Ex.aLeft Ex.sg [[0, 1], [1, 2], [1]] = true ∧ detClosedB Ex.aLeft Ex.sg [[0, 1]] = false := by decide

/-! ## 2. the top-down construction -/

theorem mem_insM {x y : List Nat} {l : List (List Nat)} : y ∈ insM x l ↔ y ∈ l ∨ y = x := by
  unfold insM
  split
  · next h =>
    have hx : x ∈ l := List.contains_iff_mem.mp h
    constructor
    · exact Or.inl
    · rintro (h | rfl)
      · exact h
      · exact hx
  · simp

theorem mem_unionM {S l : List (List Nat)} {y : List Nat} : y ∈ unionM S l ↔ y ∈ S ∨ y ∈ l := by
  unfold unionM
  induction l generalizing S with
  | nil => simp
  | cons x l ih =>
    rw [List.foldl_cons, ih, mem_insM, List.mem_cons]
    constructor
    · rintro ((h | h) | h)
      · exact Or.inl h
      · exact Or.inr (Or.inl h)
      · exact Or.inr (Or.inr h)
    · rintro (h | h | h)
      · exact Or.inl (Or.inl h)
      · exact Or.inl (Or.inr h)
      · exact Or.inr h

theorem mem_dedupM {l : List (List Nat)} {y : List Nat} : y ∈ dedupM l ↔ y ∈ l := by
  unfold dedupM
  rw [mem_unionM]
  simp

theorem mem_tdW {A : TA} {P : List Nat} {f n : Nat} {w : List Nat} :
    w ∈ tdW A P f n ↔ ∃ r, r ∈ A.rules ∧ r.parent ∈ P ∧ r.sym = f ∧ r.kids.length = n ∧ r.kids = w := by
  unfold tdW
  rw [mem_dedupM]
  simp only [List.mem_flatMap, List.mem_map, List.mem_filter, Bool.and_eq_true, beq_iff_eq]
  constructor
  · rintro ⟨q, hq, r, ⟨hr, ⟨h1, h2⟩, h3⟩, h4⟩
    exact ⟨r, hr, h1 ▸ hq, h2, h3, h4⟩
  · rintro ⟨r, hr, h1, h2, h3, h4⟩
    exact ⟨r.parent, h1, r, ⟨hr, ⟨rfl, h2⟩, h3⟩, h4⟩

theorem mem_choices {k n : Nat} {c : List Nat} : c ∈ choices k n ↔ c.length = k ∧ ∀ i, i ∈ c → i < n := by
  induction k generalizing c with
  | zero =>
    simp only [choices, List.mem_singleton]
    constructor
    · rintro rfl; simp
    · rintro ⟨h, _⟩; exact List.length_eq_zero_iff.mp h
  | succ k ih =>
    simp only [choices, List.mem_flatMap, List.mem_map, List.mem_range]
    constructor
    · rintro ⟨rest, hrest, i, hi, rfl⟩
      obtain ⟨hl, hm⟩ := ih.mp hrest
      refine ⟨by simp [hl], ?_⟩
      intro x hx
      rcases List.mem_cons.mp hx with rfl | hx
      · exact hi
      · exact hm x hx
    · rintro ⟨hl, hm⟩
      cases c with
      | nil => simp at hl
      | cons i rest =>
        exact ⟨rest, ih.mpr ⟨by simpa using hl, fun x hx => hm x (List.mem_cons_of_mem _ hx)⟩, i,
          hm i List.mem_cons_self, rfl⟩

theorem mem_macroAt {W : List (List Nat)} {c : List Nat} {i q : Nat} :
    q ∈ macroAt W c i ↔ ∃ w, (w, i) ∈ W.zip c ∧ q = w.getD i 0 := by
  unfold macroAt
  rw [mem_normS]
  simp only [List.mem_map, List.mem_filter, beq_iff_eq]
  constructor
  · rintro ⟨⟨w, ci⟩, ⟨h1, h2⟩, h3⟩
    simp only at h2 h3
    subst h2
    exact ⟨w, h1, h3.symm⟩
  · rintro ⟨w, h1, h2⟩
    exact ⟨(w, i), ⟨h1, rfl⟩, h2.symm⟩

theorem exists_zip_of_mem {w : List Nat} : ∀ {W : List (List Nat)} {c : List Nat}, w ∈ W → c.length = W.length →
    ∃ ci, (w, ci) ∈ W.zip c
  | [], _, h, _ => by cases h
  | _ :: _, [], _, hl => by simp at hl
  | w' :: W, ci :: c, h, hl => by
    rcases List.mem_cons.mp h with rfl | h
    · exact ⟨ci, by simp⟩
    · obtain ⟨cj, hcj⟩ := exists_zip_of_mem (W := W) (c := c) h (by simpa using hl)
      exact ⟨cj, by simp [hcj]⟩

theorem mem_zip_map (g : List Nat → Nat) {w : List Nat} {ci : Nat} : ∀ {W : List (List Nat)},
    (w, ci) ∈ W.zip (W.map g) ↔ w ∈ W ∧ ci = g w
  | [] => by simp
  | w' :: W => by
    simp only [List.map_cons, List.zip_cons_cons, List.mem_cons, Prod.mk.injEq, mem_zip_map g (W := W)]
    constructor
    · rintro (⟨rfl, rfl⟩ | ⟨h1, h2⟩)
      · exact ⟨Or.inl rfl, rfl⟩
      · exact ⟨Or.inr h1, h2⟩
    · rintro ⟨rfl | h1, h2⟩
      · exact Or.inl ⟨rfl, h2⟩
      · exact Or.inr ⟨h1, h2⟩

theorem mem_tdExpected {A : TA} {Sg : List (Nat × Nat)} {cache : List (List Nat)} {r : Rule} :
    r ∈ tdExpected A Sg cache ↔ ∃ P f n c, P ∈ cache ∧ (f, n) ∈ Sg ∧ c ∈ choices (tdW A P f n).length n ∧
      r = ⟨f, (macros (tdW A P f n) c n).map (fun Q => cache.idxOf Q), cache.idxOf P⟩ := by
  simp only [tdExpected, List.mem_flatMap, List.mem_map]
  constructor
  · rintro ⟨P, hP, ⟨f, n⟩, hfa, c, hc, rfl⟩
    exact ⟨P, f, n, c, hP, hfa, hc, rfl⟩
  · rintro ⟨P, f, n, c, hP, hfa, hc, rfl⟩
    exact ⟨P, hP, (f, n), hfa, c, hc, rfl⟩

theorem tdClosedB_iff {A : TA} {Sg : List (Nat × Nat)} {cache : List (List Nat)} :
    tdClosedB A Sg cache = true ↔ ∀ P f n c, P ∈ cache → (f, n) ∈ Sg → c ∈ choices (tdW A P f n).length n →
      ∀ i, i < n → macroAt (tdW A P f n) c i ∈ cache := by
  simp only [tdClosedB, macros, List.all_eq_true, List.contains_iff_mem, List.mem_map, List.mem_range]
  constructor
  · intro h P f n c hP hfa hc i hi
    exact h P hP (f, n) hfa c hc _ ⟨i, hi, rfl⟩
  · rintro h P hP ⟨f, n⟩ hfa c hc Q ⟨i, hi, rfl⟩
    exact h P f n c hP hfa hc i hi

theorem rulesSub_iff {R₁ R₂ : List Rule} : rulesSub R₁ R₂ = true ↔ ∀ r, r ∈ R₁ → r ∈ R₂ := by
  simp [rulesSub, List.all_eq_true]

theorem rulesEq_iff {R₁ R₂ : List Rule} : rulesEq R₁ R₂ = true ↔ ∀ r, r ∈ R₁ ↔ r ∈ R₂ := by
  simp only [rulesEq, Bool.and_eq_true, rulesSub_iff]
  constructor
  · rintro ⟨h1, h2⟩ r; exact ⟨h1 r, h2 r⟩
  · intro h; exact ⟨fun r => (h r).1, fun r => (h r).2⟩

/-- the position a choice function picks for the tuple `w`: the first `i` with `w[i] ∉ ss[i]` -/
def pick (ss : List (List Nat)) (n : Nat) (w : List Nat) : Nat :=
  ((List.range n).find? (fun i => !(ss.getD i []).contains (w.getD i 0))).getD 0

theorem pick_spec {ss : List (List Nat)} {n : Nat} {w : List Nat}
    (h : ∃ i, i < n ∧ w.getD i 0 ∉ ss.getD i []) :
    pick ss n w < n ∧ w.getD (pick ss n w) 0 ∉ ss.getD (pick ss n w) [] := by
  unfold pick
  cases hf : (List.range n).find? (fun i => !(ss.getD i []).contains (w.getD i 0)) with
  | none =>
    exfalso
    obtain ⟨i, hi, hni⟩ := h
    have := List.find?_eq_none.mp hf i (List.mem_range.mpr hi)
    simp only [Bool.not_eq_true, Bool.not_eq_false', List.contains_iff_mem] at this
    exact hni this
  | some i =>
    have h1 := List.mem_of_find?_eq_some hf
    have h2 := List.find?_some hf
    simp only [Bool.not_eq_true', ← Bool.not_eq_true, List.contains_iff_mem] at h2
    exact ⟨List.mem_range.mp h1, h2⟩

theorem macros_map_idx (cache : List (List Nat)) (W : List (List Nat)) (c : List Nat) (n : Nat) :
    (macros W c n).map (fun Q => cache.idxOf Q) = (List.range n).map (fun i => cache.idxOf (macroAt W c i)) := by
  simp [macros, List.map_map, Function.comp_def]

theorem td_reach {A : TA} {Sg : List (Nat × Nat)} {cache : List (List Nat)} {rules : List Rule} {fin : List Nat}
    (hcl : tdClosedB A Sg cache = true) (hr : ∀ r, r ∈ rules ↔ r ∈ tdExpected A Sg cache) :
    ∀ t P, P ∈ cache →
      (cache.idxOf P ∈ reach ⟨rules, fin⟩ t ↔ overSig Sg t = true ∧ ∀ q, q ∈ P → q ∉ reach A t) := by
  have hcl' := tdClosedB_iff.mp hcl
  apply tree_ind_aux
  intro f ts ih P hP
  rw [reach_node, mem_post']
  constructor
  · rintro ⟨r, hrm, hs, hm, hp⟩
    obtain ⟨P', f', n, c, hP', hfa, hc, rfl⟩ := mem_tdExpected.mp ((hr r).mp hrm)
    simp only at hs hm hp
    subst hs
    have hPP : P' = P := idxOf_get hP' hP hp
    subst hPP
    rw [macros_map_idx] at hm
    obtain ⟨hl, hk⟩ := matchKids_iff.mp hm
    simp only [List.length_map, List.length_range] at hl hk
    subst hl
    have hkid : ∀ i (hi : i < ts.length), overSig Sg ts[i] = true ∧
        ∀ q, q ∈ macroAt (tdW A P' f' ts.length) c i → q ∉ reach A ts[i] := by
      intro i hi
      have := hk i hi
      rw [getD_map_range _ _ _ hi, getD_map_reach _ _ _ hi] at this
      exact (ih ts[i] (List.getElem_mem hi) _ (hcl' P' f' _ c hP' hfa hc i hi)).mp this
    refine ⟨(overSig_node Sg f' ts).mpr ⟨hfa, ?_⟩, ?_⟩
    · intro t ht
      obtain ⟨i, hi, rfl⟩ := List.getElem_of_mem ht
      exact (hkid i hi).1
    · intro q hq hreach
      rw [reach_node, mem_post'] at hreach
      obtain ⟨r', hr'm, hs', hm', hp'⟩ := hreach
      obtain ⟨hl', hk'⟩ := matchKids_iff.mp hm'
      simp only [List.length_map] at hl'
      have hw : r'.kids ∈ tdW A P' f' ts.length := mem_tdW.mpr ⟨r', hr'm, hp' ▸ hq, hs', hl', rfl⟩
      obtain ⟨ci, hci⟩ := exists_zip_of_mem hw (mem_choices.mp hc).1
      have hcin : ci < ts.length := (mem_choices.mp hc).2 ci (List.of_mem_zip hci).2
      have h1 : r'.kids.getD ci 0 ∈ macroAt (tdW A P' f' ts.length) c ci := mem_macroAt.mpr ⟨_, hci, rfl⟩
      have h2 := hk' ci (by omega)
      rw [getD_map_reach _ _ _ hcin] at h2
      exact (hkid ci hcin).2 _ h1 h2
  · rintro ⟨hov, hno⟩
    obtain ⟨hfa, hts⟩ := (overSig_node Sg f ts).mp hov
    have hpick : ∀ w, w ∈ tdW A P f ts.length →
        pick (ts.map (reach A)) ts.length w < ts.length ∧
        w.getD (pick (ts.map (reach A)) ts.length w) 0 ∉
          (ts.map (reach A)).getD (pick (ts.map (reach A)) ts.length w) [] := by
      intro w hw
      apply pick_spec
      obtain ⟨r', hr'm, hpar, hs', hl', rfl⟩ := mem_tdW.mp hw
      apply Classical.byContradiction
      intro hne
      apply hno r'.parent hpar
      rw [reach_node, mem_post']
      refine ⟨r', hr'm, hs', matchKids_iff.mpr ⟨by simpa using hl', ?_⟩, rfl⟩
      intro i hi
      apply Classical.byContradiction
      intro hni
      exact hne ⟨i, by omega, hni⟩
    have hc : (tdW A P f ts.length).map (pick (ts.map (reach A)) ts.length) ∈
        choices (tdW A P f ts.length).length ts.length := by
      apply mem_choices.mpr
      refine ⟨by simp, ?_⟩
      intro i hi
      obtain ⟨w, hw, rfl⟩ := List.mem_map.mp hi
      exact (hpick w hw).1
    refine ⟨_, (hr _).mpr (mem_tdExpected.mpr ⟨P, f, ts.length, _, hP, hfa, hc, rfl⟩), rfl, ?_, rfl⟩
    simp only
    rw [macros_map_idx]
    apply matchKids_iff.mpr
    simp only [List.length_map, List.length_range]
    refine ⟨trivial, ?_⟩
    intro i hi
    rw [getD_map_range _ _ _ hi, getD_map_reach _ _ _ hi]
    apply (ih ts[i] (List.getElem_mem hi) _ (hcl' P f _ _ hP hfa hc i hi)).mpr
    refine ⟨hts _ (List.getElem_mem hi), ?_⟩
    intro q hq hreach
    obtain ⟨w, hz, rfl⟩ := mem_macroAt.mp hq
    obtain ⟨hw, hi'⟩ := (mem_zip_map _).mp hz
    have := (hpick w hw).2
    rw [← hi', getD_map_reach _ _ _ hi] at this
    exact this hreach

theorem tdCertB_iff {A : TA} {Sg : List (Nat × Nat)} {st : St} :
    tdCertB A Sg st = true ↔ st.cache.head? = some (normS A.final) ∧ tdClosedB A Sg st.cache = true ∧
      ∀ r, r ∈ st.rules ↔ r ∈ tdExpected A Sg st.cache := by
  simp only [tdCertB, Bool.and_eq_true, beq_iff_eq, rulesEq_iff, and_assoc]

/-- the untrimmed result of a certified run is the complement -/
theorem tdCert_spec {A : TA} {Sg : List (Nat × Nat)} {st : St} (h : tdCertB A Sg st = true) (t : Tree) :
    (overSig Sg t = true → accepts ⟨st.rules, [0]⟩ t = !accepts A t) ∧
    (overSig Sg t = false → accepts ⟨st.rules, [0]⟩ t = false) := by
  obtain ⟨hhead, hcl, hr⟩ := tdCertB_iff.mp h
  obtain ⟨rest, hcache⟩ : ∃ rest, st.cache = normS A.final :: rest := by
    cases hc : st.cache with
    | nil => rw [hc] at hhead; cases hhead
    | cons P rest =>
      rw [hc] at hhead
      simp only [List.head?_cons, Option.some.injEq] at hhead
      exact ⟨rest, by rw [hhead]⟩
  have hF : normS A.final ∈ st.cache := by rw [hcache]; exact List.mem_cons_self
  have h0 : st.cache.idxOf (normS A.final) = 0 := by rw [hcache]; exact List.idxOf_cons_self
  have key := td_reach (fin := [0]) hcl hr t _ hF
  rw [h0] at key
  have hacc : accepts ⟨st.rules, [0]⟩ t = true ↔ overSig Sg t = true ∧ accepts A t = false := by
    rw [accepts_iff]
    simp only [List.mem_singleton]
    constructor
    · rintro ⟨q, hq, rfl⟩
      obtain ⟨h1, h2⟩ := key.mp hq
      refine ⟨h1, ?_⟩
      cases ha : accepts A t with
      | false => rfl
      | true =>
        obtain ⟨q, hq1, hq2⟩ := (accepts_iff _ _).mp ha
        exact absurd hq1 (h2 q (mem_normS.mpr hq2))
    · rintro ⟨h1, h2⟩
      refine ⟨0, key.mpr ⟨h1, ?_⟩, rfl⟩
      intro q hq hreach
      have : accepts A t = true := (accepts_iff _ _).mpr ⟨q, hreach, mem_normS.mp hq⟩
      rw [h2] at this; cases this
  constructor
  · intro hov
    rw [Bool.eq_iff_iff, hacc]
    simp [hov]
  · intro hov
    cases hc : accepts ⟨st.rules, [0]⟩ t with
    | false => rfl
    | true => rw [(hacc.mp hc).1] at hov; cases hov

theorem complTD_spec {A : TA} {Sg : List (Nat × Nat)} {fuel : Nat} {C : TA} :
    complTD A Sg fuel = some C →
      ∀ t, (overSig Sg t = true → accepts C t = !accepts A t) ∧ (overSig Sg t = false → accepts C t = false) := by
  intro h t
  unfold complTD at h
  split at h
  · cases h
  · next st _ =>
    split at h
    · next hcert =>
      simp only [Option.some.injEq] at h
      subst h
      rw [removeUseless_lang]
      exact tdCert_spec hcert t
    · cases h

/-- non-vacuity: the model returns an automaton on a nondeterministic input -/
example : ∃ C, complTD Ex.aLeft Ex.sg 20 = some C ∧
    ∀ t, (overSig Ex.sg t = true → accepts C t = !accepts Ex.aLeft t) ∧ (overSig Ex.sg t = false → accepts C t = false) := by
  have hs : (complTD Ex.aLeft Ex.sg 20).isSome = true := by decide
  obtain ⟨C, hC⟩ := Option.isSome_iff_exists.mp hs
  exact ⟨C, hC, complTD_spec hC⟩

/-! ### the exploration itself: a finished run always passes the certificate -/

/-- a rule of the model is one the cache prescribes, with all its macro-states in the cache -/
def RuleOK (A : TA) (Sg : List (Nat × Nat)) (cache : List (List Nat)) (r : Rule) : Prop :=
  ∃ P f n c, P ∈ cache ∧ (f, n) ∈ Sg ∧ c ∈ choices (tdW A P f n).length n ∧
    (∀ i, i < n → macroAt (tdW A P f n) c i ∈ cache) ∧
    r = ⟨f, (macros (tdW A P f n) c n).map (fun Q => cache.idxOf Q), cache.idxOf P⟩

/-- the rule of the choice function `c` for `P`, `f/n` has been emitted -/
def Done (A : TA) (st : St) (P : List Nat) (f n : Nat) (c : List Nat) : Prop :=
  (∀ i, i < n → macroAt (tdW A P f n) c i ∈ st.cache) ∧
    (⟨f, (macros (tdW A P f n) c n).map (fun Q => st.cache.idxOf Q), st.cache.idxOf P⟩ : Rule) ∈ st.rules

def Good (A : TA) (Sg : List (Nat × Nat)) (st : St) : Prop :=
  st.cache.Nodup ∧ ∀ r, r ∈ st.rules → RuleOK A Sg st.cache r

/-- the state only grows: the cache by appending, the rules as a set -/
def Le (st st' : St) : Prop := st.cache <+: st'.cache ∧ ∀ r, r ∈ st.rules → r ∈ st'.rules

theorem Le.refl (st : St) : Le st st := ⟨List.prefix_rfl, fun _ h => h⟩
theorem Le.trans {a b c : St} (h1 : Le a b) (h2 : Le b c) : Le a c :=
  ⟨h1.1.trans h2.1, fun r h => h2.2 r (h1.2 r h)⟩

theorem idxOf_prefix {c c' : List (List Nat)} {Q : List Nat} (hQ : Q ∈ c) (h : c <+: c') :
    c'.idxOf Q = c.idxOf Q := by
  obtain ⟨l, rfl⟩ := h
  rw [List.idxOf_append, if_pos hQ]

theorem macros_idx_prefix {c c' : List (List Nat)} {W : List (List Nat)} {ch : List Nat} {n : Nat}
    (hm : ∀ i, i < n → macroAt W ch i ∈ c) (h : c <+: c') :
    (macros W ch n).map (fun Q => c'.idxOf Q) = (macros W ch n).map (fun Q => c.idxOf Q) := by
  apply List.map_congr_left
  intro Q hQ
  simp only [macros, List.mem_map, List.mem_range] at hQ
  obtain ⟨i, hi, rfl⟩ := hQ
  exact idxOf_prefix (hm i hi) h

theorem RuleOK.mono {A : TA} {Sg : List (Nat × Nat)} {c c' : List (List Nat)} {r : Rule}
    (h : RuleOK A Sg c r) (hp : c <+: c') : RuleOK A Sg c' r := by
  obtain ⟨P, f, n, ch, hP, hfa, hch, hm, rfl⟩ := h
  refine ⟨P, f, n, ch, List.IsPrefix.mem hP hp, hfa, hch,
    fun i hi => List.IsPrefix.mem (hm i hi) hp, ?_⟩
  rw [macros_idx_prefix hm hp, idxOf_prefix hP hp]

theorem Done.mono {A : TA} {st st' : St} {P : List Nat} {f n : Nat} {c : List Nat} (hP : P ∈ st.cache)
    (h : Done A st P f n c) (hle : Le st st') : Done A st' P f n c := by
  refine ⟨fun i hi => List.IsPrefix.mem (h.1 i hi) hle.1, ?_⟩
  rw [macros_idx_prefix h.1 hle.1, idxOf_prefix hP hle.1]
  exact hle.2 _ h.2

theorem getElem?_prefix {c c' : List (List Nat)} {k : Nat} {P : List Nat} (h : c[k]? = some P) (hp : c <+: c') :
    c'[k]? = some P := by
  obtain ⟨l, rfl⟩ := hp
  have hk : k < c.length := by
    apply Classical.byContradiction
    intro hn
    rw [List.getElem?_eq_none (by omega)] at h
    cases h
  rw [List.getElem?_append_left hk, h]

theorem mem_of_getElem? {c : List (List Nat)} {k : Nat} {P : List Nat} (h : c[k]? = some P) : P ∈ c :=
  List.mem_of_getElem? h

theorem idxOf_of_getElem? {c : List (List Nat)} {k : Nat} {P : List Nat} (hn : c.Nodup) (h : c[k]? = some P) :
    c.idxOf P = k := by
  obtain ⟨hk, rfl⟩ := List.getElem?_eq_some_iff.mp h
  exact hn.idxOf_getElem k hk

/-! #### `addMacro`, `addMacros` -/

theorem addMacro_spec (cache : List (List Nat)) (P : List Nat) (hn : cache.Nodup) :
    cache <+: (addMacro cache P).1 ∧ (addMacro cache P).1.Nodup ∧ P ∈ (addMacro cache P).1 ∧
      (addMacro cache P).2 = (addMacro cache P).1.idxOf P := by
  unfold addMacro
  split
  · next h =>
    exact ⟨List.prefix_rfl, hn, List.contains_iff_mem.mp h, rfl⟩
  · next h =>
    have hP : P ∉ cache := fun hm => h (List.contains_iff_mem.mpr hm)
    refine ⟨List.prefix_append _ _, ?_, by simp, ?_⟩
    · rw [List.nodup_append]
      refine ⟨hn, by simp, ?_⟩
      intro a ha b hb
      rw [List.mem_singleton.mp hb]
      rintro rfl
      exact hP ha
    · simp only
      rw [List.idxOf_append, if_neg hP, List.idxOf_cons_self]
      omega

theorem addMacros_spec : ∀ (Ps : List (List Nat)) (cache : List (List Nat)), cache.Nodup →
    cache <+: (addMacros cache Ps).1 ∧ (addMacros cache Ps).1.Nodup ∧ (∀ P, P ∈ Ps → P ∈ (addMacros cache Ps).1) ∧
      (addMacros cache Ps).2 = Ps.map (fun Q => (addMacros cache Ps).1.idxOf Q)
  | [], cache, hn => by
    refine ⟨List.prefix_rfl, hn, ?_, rfl⟩
    intro P hP
    cases hP
  | P :: Ps, cache, hn => by
    obtain ⟨h1, h2, h3, h4⟩ := addMacro_spec cache P hn
    obtain ⟨g1, g2, g3, g4⟩ := addMacros_spec Ps (addMacro cache P).1 h2
    simp only [addMacros]
    refine ⟨h1.trans g1, g2, ?_, ?_⟩
    · intro Q hQ
      rcases List.mem_cons.mp hQ with rfl | hQ
      · exact List.IsPrefix.mem h3 g1
      · exact g3 Q hQ
    · rw [List.map_cons, ← g4, h4, idxOf_prefix h3 g1]

theorem mem_insRule {r r' : Rule} {rs : List Rule} : r' ∈ insRule r rs ↔ r' ∈ rs ∨ r' = r := by
  unfold insRule
  split
  · next h =>
    have hx : r ∈ rs := List.contains_iff_mem.mp h
    constructor
    · exact Or.inl
    · rintro (h | rfl)
      · exact h
      · exact hx
  · simp

/-- the invariant while the macro-state `P` with number `k` is being processed -/
def GoodAt (A : TA) (Sg : List (Nat × Nat)) (k : Nat) (P : List Nat) (st : St) : Prop :=
  Good A Sg st ∧ st.cache[k]? = some P

/-- emitting the rule of one choice function after its macro-states have been entered into the cache -/
theorem emit_spec {A : TA} {Sg : List (Nat × Nat)} {k : Nat} {P : List Nat} {st : St} {f n : Nat} {c : List Nat}
    (hg : GoodAt A Sg k P st) (hfa : (f, n) ∈ Sg) (hc : c ∈ choices (tdW A P f n).length n)
    {cache' : List (List Nat)} {kids : List Nat} (hpre : st.cache <+: cache') (hnd : cache'.Nodup)
    (hmem : ∀ i, i < n → macroAt (tdW A P f n) c i ∈ cache')
    (hk : kids = (macros (tdW A P f n) c n).map (fun Q => cache'.idxOf Q)) :
    GoodAt A Sg k P ⟨cache', insRule ⟨f, kids, k⟩ st.rules⟩ ∧ Le st ⟨cache', insRule ⟨f, kids, k⟩ st.rules⟩ ∧
      Done A ⟨cache', insRule ⟨f, kids, k⟩ st.rules⟩ P f n c := by
  have hPk : cache'[k]? = some P := getElem?_prefix hg.2 hpre
  have hidx : cache'.idxOf P = k := idxOf_of_getElem? hnd hPk
  have hrule : (⟨f, kids, k⟩ : Rule) =
      ⟨f, (macros (tdW A P f n) c n).map (fun Q => cache'.idxOf Q), cache'.idxOf P⟩ := by rw [hk, hidx]
  refine ⟨⟨⟨hnd, ?_⟩, hPk⟩, ⟨hpre, fun r h => mem_insRule.mpr (Or.inl h)⟩, hmem, ?_⟩
  · intro r hr
    rcases mem_insRule.mp hr with h | h
    · exact (hg.1.2 r h).mono hpre
    · exact ⟨P, f, n, c, mem_of_getElem? hPk, hfa, hc, hmem, h.trans hrule⟩
  · exact mem_insRule.mpr (Or.inr hrule.symm)

theorem procChoice_spec {A : TA} {Sg : List (Nat × Nat)} {k : Nat} {P : List Nat} {st : St} {f n : Nat}
    {c : List Nat} (hg : GoodAt A Sg k P st) (hfa : (f, n) ∈ Sg) (hc : c ∈ choices (tdW A P f n).length n) :
    GoodAt A Sg k P (procChoice f n (tdW A P f n) k st c) ∧ Le st (procChoice f n (tdW A P f n) k st c) ∧
      Done A (procChoice f n (tdW A P f n) k st c) P f n c := by
  obtain ⟨g1, g2, g3, g4⟩ := addMacros_spec (macros (tdW A P f n) c n) st.cache hg.1.1
  unfold procChoice
  apply emit_spec hg hfa hc g1 g2 _ g4
  intro i hi
  apply g3
  simp only [macros, List.mem_map, List.mem_range]
  exact ⟨i, hi, rfl⟩

theorem foldl_spec {α : Type} (step : St → α → St) (I : St → Prop) (D : α → St → Prop)
    (hmono : ∀ x s s', I s → Le s s' → D x s → D x s') :
    ∀ (l : List α) (s : St), I s →
      (∀ s x, x ∈ l → I s → I (step s x) ∧ Le s (step s x) ∧ D x (step s x)) →
      I (l.foldl step s) ∧ Le s (l.foldl step s) ∧ ∀ x, x ∈ l → D x (l.foldl step s)
  | [], s, hI, _ => ⟨hI, Le.refl s, fun _ h => nomatch h⟩
  | x :: l, s, hI, hstep => by
    obtain ⟨h1, h2, h3⟩ := hstep s x List.mem_cons_self hI
    obtain ⟨g1, g2, g3⟩ := foldl_spec step I D hmono l (step s x) h1
      (fun s y hy => hstep s y (List.mem_cons_of_mem _ hy))
    rw [List.foldl_cons]
    refine ⟨g1, h2.trans g2, ?_⟩
    intro y hy
    rcases List.mem_cons.mp hy with rfl | hy
    · exact hmono _ _ _ h1 g2 h3
    · exact g3 y hy

theorem macroAt_nil (i : Nat) : macroAt [] [] i = [] := rfl

theorem macros_nil_idx (cache : List (List Nat)) (n : Nat) :
    (macros [] [] n).map (fun Q => cache.idxOf Q) = List.replicate n (cache.idxOf []) := by
  rw [macros_map_idx]
  simp only [macroAt_nil]
  rw [List.map_const', List.length_range]

theorem procSym_spec {A : TA} {Sg : List (Nat × Nat)} {k : Nat} {P : List Nat} {st : St} {fa : Nat × Nat}
    (hg : GoodAt A Sg k P st) (hfa : fa ∈ Sg) :
    GoodAt A Sg k P (procSym A P k st fa) ∧ Le st (procSym A P k st fa) ∧
      ∀ c, c ∈ choices (tdW A P fa.1 fa.2).length fa.2 → Done A (procSym A P k st fa) P fa.1 fa.2 c := by
  obtain ⟨f, n⟩ := fa
  simp only
  unfold procSym
  simp only
  split
  · next hW =>
    have hW' : tdW A P f n = [] := List.isEmpty_iff.mp hW
    have hnil : ([] : List Nat) ∈ choices (tdW A P f n).length n := by
      rw [hW']; exact mem_choices.mpr ⟨rfl, fun _ h => nomatch h⟩
    have hcnil : ∀ c, c ∈ choices (tdW A P f n).length n → c = [] := by
      intro c hc
      have := (mem_choices.mp hc).1
      rw [hW'] at this
      exact List.length_eq_zero_iff.mp this
    split
    · next hn =>
      have hn' : n = 0 := by simpa using hn
      subst hn'
      have := emit_spec (kids := []) hg hfa hnil List.prefix_rfl hg.1.1 (fun i hi => absurd hi (by omega))
        (by simp [macros])
      refine ⟨this.1, this.2.1, ?_⟩
      intro c hc
      rw [hcnil c hc]
      exact this.2.2
    · obtain ⟨h1, h2, h3, h4⟩ := addMacro_spec st.cache [] hg.1.1
      have := emit_spec (kids := List.replicate n (addMacro st.cache []).2) hg hfa hnil h1 h2
        (by intro i _; rw [hW', macroAt_nil]; exact h3)
        (by rw [hW', macros_nil_idx, h4])
      refine ⟨this.1, this.2.1, ?_⟩
      intro c hc
      rw [hcnil c hc]
      exact this.2.2
  · next hW =>
    split
    · next hn =>
      have hn' : n = 0 := by simpa using hn
      subst hn'
      refine ⟨hg, Le.refl st, ?_⟩
      intro c hc
      exfalso
      obtain ⟨hl, hm⟩ := mem_choices.mp hc
      cases c with
      | nil =>
        apply hW
        exact List.isEmpty_iff.mpr (List.length_eq_zero_iff.mp hl.symm)
      | cons i c => exact absurd (hm i List.mem_cons_self) (by omega)
    · exact foldl_spec (procChoice f n (tdW A P f n) k) (GoodAt A Sg k P) (fun c s => Done A s P f n c)
        (fun c s s' hI hle hd => hd.mono (mem_of_getElem? hI.2) hle) _ st hg
        (fun s c hc hI => procChoice_spec hI hfa hc)

/-- the loop invariant: the macro-states with numbers below `k` are completely processed -/
def Inv (A : TA) (Sg : List (Nat × Nat)) (k : Nat) (st : St) : Prop :=
  Good A Sg st ∧ st.cache[0]? = some (normS A.final) ∧
    ∀ k' P, k' < k → st.cache[k']? = some P → ∀ f n c, (f, n) ∈ Sg → c ∈ choices (tdW A P f n).length n →
      Done A st P f n c

theorem symFold_spec {A : TA} {Sg : List (Nat × Nat)} {k : Nat} {P : List Nat} {st : St}
    (hg : GoodAt A Sg k P st) :
    GoodAt A Sg k P (Sg.foldl (procSym A P k) st) ∧ Le st (Sg.foldl (procSym A P k) st) ∧
      ∀ fa, fa ∈ Sg → ∀ c, c ∈ choices (tdW A P fa.1 fa.2).length fa.2 →
        Done A (Sg.foldl (procSym A P k) st) P fa.1 fa.2 c :=
  foldl_spec (procSym A P k) (GoodAt A Sg k P)
    (fun fa s => ∀ c, c ∈ choices (tdW A P fa.1 fa.2).length fa.2 → Done A s P fa.1 fa.2 c)
    (fun _ _ _ hI hle hd c hc => (hd c hc).mono (mem_of_getElem? hI.2) hle) Sg st hg
    (fun _ _ hfa hI => procSym_spec hI hfa)

theorem Inv.step {A : TA} {Sg : List (Nat × Nat)} {k : Nat} {P : List Nat} {st : St} (h : Inv A Sg k st)
    (hP : st.cache[k]? = some P) : Inv A Sg (k+1) (Sg.foldl (procSym A P k) st) := by
  obtain ⟨hg, h0, hdone⟩ := h
  obtain ⟨g1, g2, g3⟩ := symFold_spec (A := A) (Sg := Sg) ⟨hg, hP⟩
  refine ⟨g1.1, getElem?_prefix h0 g2.1, ?_⟩
  intro k' P' hk' hP' f n c hfa hc
  have hklen : k < st.cache.length := (List.getElem?_eq_some_iff.mp hP).1
  by_cases hlt : k' < k
  · have hk'len : k' < st.cache.length := by omega
    have hold : st.cache[k']? = some st.cache[k'] := List.getElem?_eq_getElem hk'len
    have hnew := getElem?_prefix hold g2.1
    rw [hP'] at hnew
    simp only [Option.some.injEq] at hnew
    subst hnew
    exact (hdone k' _ hlt hold f n c hfa hc).mono (List.getElem_mem hk'len) g2
  · have hkk : k' = k := by omega
    subst hkk
    rw [g1.2] at hP'
    simp only [Option.some.injEq] at hP'
    subst hP'
    exact g3 (f, n) hfa c hc

theorem loop_inv {A : TA} {Sg : List (Nat × Nat)} : ∀ (fuel k : Nat) (st st' : St), Inv A Sg k st →
    loop A Sg fuel k st = some st' → Inv A Sg st'.cache.length st'
  | 0, _, _, _, _, h => by simp [loop] at h
  | fuel+1, k, st, st', hinv, h => by
    unfold loop at h
    split at h
    · next hk =>
      simp only [Option.some.injEq] at h
      subst h
      refine ⟨hinv.1, hinv.2.1, ?_⟩
      intro k' P hk' hP
      have hklen : st.cache.length ≤ k := List.getElem?_eq_none_iff.mp hk
      exact hinv.2.2 k' P (by omega) hP
    · next P hP => exact loop_inv fuel (k+1) _ st' (hinv.step hP) h

theorem Inv.init (A : TA) (Sg : List (Nat × Nat)) : Inv A Sg 0 ⟨[normS A.final], []⟩ := by
  refine ⟨⟨by simp, fun r h => nomatch h⟩, rfl, ?_⟩
  intro k' P hk'
  omega

/-- the exploration is right by itself: a finished run passes the certificate check -/
theorem tdRun_cert {A : TA} {Sg : List (Nat × Nat)} {fuel : Nat} {st : St} (h : tdRun A Sg fuel = some st) :
    tdCertB A Sg st = true := by
  obtain ⟨hg, h0, hdone⟩ := loop_inv fuel 0 _ st (Inv.init A Sg) h
  have hall : ∀ P f n c, P ∈ st.cache → (f, n) ∈ Sg → c ∈ choices (tdW A P f n).length n → Done A st P f n c := by
    intro P f n c hP hfa hc
    obtain ⟨k', hk', rfl⟩ := List.getElem_of_mem hP
    exact hdone k' _ hk' (List.getElem?_eq_getElem hk') f n c hfa hc
  apply tdCertB_iff.mpr
  refine ⟨by rw [List.head?_eq_getElem?]; exact h0, ?_, ?_⟩
  · apply tdClosedB_iff.mpr
    intro P f n c hP hfa hc
    exact (hall P f n c hP hfa hc).1
  · intro r
    constructor
    · intro hr
      obtain ⟨P, f, n, c, hP, hfa, hc, _, rfl⟩ := hg.2 r hr
      exact mem_tdExpected.mpr ⟨P, f, n, c, hP, hfa, hc, rfl⟩
    · intro hr
      obtain ⟨P, f, n, c, hP, hfa, hc, rfl⟩ := mem_tdExpected.mp hr
      exact (hall P f n c hP hfa hc).2

/-- `complTD` fails only by running out of fuel -/
theorem complTD_eq {A : TA} {Sg : List (Nat × Nat)} {fuel : Nat} :
    complTD A Sg fuel = (tdRun A Sg fuel).map (fun st => removeUseless ⟨st.rules, [0]⟩) := by
  unfold complTD
  cases h : tdRun A Sg fuel with
  | none => rfl
  | some st => simp [tdRun_cert h]

/-- non-vacuity: the work-list finishes on a nondeterministic input (four macro-states, eight rules) -/
example : ((tdRun Ex.aLeft Ex.sg 20).map (fun st => (st.cache, st.rules.length))) = some ([[2], [0], [], [1]], 8) := by
  decide

end Compl
end Vata
