import Vata.Proofs.WrapperInv
import Vata.Proofs.TimbukNorm
/-!
# The wrapper `ExplicitTreeAut`: load / dump through the alphabet objects, and the order of first occurrence (C13 / C19)

* `dumpW_loadW`     load a description into an EMPTY automaton (fresh state dictionary, its `OnTheFlyAlphabet` in any
                    reachable state), dump with the dictionary the load returned: exactly the final states and the
                    transitions of the description, in `std::set` order
* `load_order_wrapper`   two descriptions with the same sets of symbols / final states / transitions, loaded into empty
                    automata on alphabets with the same content (e.g. two fresh ones): the automata differ by bijective
                    renumberings of states and symbols, accept the same trees up to the symbol renumbering, and their dumps
                    are EQUAL
-/
namespace Vata.Wrapper
open Vata Vata.LoadDump Vata.Dict Vata.Timbuk

theorem backName_otf (yd : SymDict) (n : Nat) : (Alphabet.otf yd n).backName = backSym yd := by
  funext f
  simp only [Alphabet.backName, Alphabet.back, backSym]
  cases yd.bwd? f <;> rfl

theorem dumpWith_backSym (A : TA) (sd : StateDict) (yd : SymDict) : dumpWith A sd (backSym yd) = dumpTA A sd yd := rfl

/-- on an `OnTheFlyAlphabet` the wrapper's dump is `dumpTA` of `Vata/LoadDump.lean` -/
theorem dumpWith_otf (A : TA) (sd : StateDict) (yd : SymDict) (n : Nat) :
    dumpWith A sd (Alphabet.otf yd n).backName = dumpTA A sd yd := by
  rw [backName_otf]; rfl

theorem aut?_lt {w : World} {i : Nat} {A : WAut} (h : w.aut? i = .ok A) : i < w.auts.length :=
  (List.getElem?_eq_some_iff.mp (aut?_ok h)).1

/-- the world after a successful load, seen through the observers -/
theorem loadW_after {w : World} {i : Nat} {d : AutDesc} {sd : StateDict} {r : World × StateDict}
    (e : loadW w i d sd = .ok r) :
    ∃ A yd n, w.aut? i = .ok A ∧ w.alpha? A.alpha = .ok (.otf yd n) ∧
      r.1.aut? i = .ok ⟨⟨A.core.rules ++ (loadFromW ⟨sd, 0, yd, n⟩ d).1.rules,
        A.core.final ++ (loadFromW ⟨sd, 0, yd, n⟩ d).1.final⟩, A.alpha⟩ ∧
      r.1.alpha? A.alpha = .ok (.otf (loadFromW ⟨sd, 0, yd, n⟩ d).2.yd (loadFromW ⟨sd, 0, yd, n⟩ d).2.next) ∧
      r.2 = (loadFromW ⟨sd, 0, yd, n⟩ d).2.sd := by
  obtain ⟨A, yd, n, hA, hal, e1, e2⟩ := loadW_spec e
  refine ⟨A, yd, n, hA, hal, ?_, ?_, e2⟩
  · rw [e1]; unfold World.aut?
    simp only [List.getElem?_set_self (aut?_lt hA)]
  · rw [e1]; unfold World.alpha?
    simp only [List.getElem?_set_self (alpha?_lt hal)]

/-- a load succeeds on every automaton whose alphabet is an `OnTheFlyAlphabet` -/
theorem loadW_succeeds {w : World} {i : Nat} {A : WAut} {yd : SymDict} {n : Nat} (hA : w.aut? i = .ok A)
    (hal : w.alpha? A.alpha = .ok (.otf yd n)) (d : AutDesc) (sd : StateDict) : ∃ r, loadW w i d sd = .ok r := by
  unfold loadW; simp only [hA, hal]; exact ⟨_, rfl⟩

/-- … and throws `NotImplementedException` on a `DirectAlphabet`, the world unchanged -/
theorem loadW_direct {w : World} {i : Nat} {A : WAut} (hA : w.aut? i = .ok A) (hal : w.alpha? A.alpha = .ok .direct)
    (d : AutDesc) (sd : StateDict) : loadW w i d sd = .error "Not implemented: GetSymbolTransl" := by
  unfold loadW; simp only [hA, hal]

/-- **C13 through the wrapper**: load into an empty automaton with a fresh state dictionary, then dump with the
dictionary that the load filled -/
theorem dumpW_loadW {w : World} (hw : Reach w) {i a : Nat} {yd : SymDict} {n : Nat} (hA : w.aut? i = .ok ⟨⟨[], []⟩, a⟩)
    (hal : w.alpha? a = .ok (.otf yd n)) (d : AutDesc) :
    ∃ w' sd, loadW w i d [] = .ok (w', sd) ∧ dumpW w' i sd = .ok (dumpOf d.final d.trans) ∧
      loadTA d [] yd = .ok ((loadFrom ⟨[], 0, yd⟩ d).1, sd, (loadFrom ⟨[], 0, yd⟩ d).2.yd) ∧
      w'.aut? i = .ok ⟨(loadFrom ⟨[], 0, yd⟩ d).1, a⟩ ∧
      w'.alpha? a = .ok (.otf (loadFrom ⟨[], 0, yd⟩ d).2.yd (loadFrom ⟨[], 0, yd⟩ d).2.yd.length) := by
  obtain ⟨r, hr⟩ := loadW_succeeds hA hal d []
  obtain ⟨A', yd', n', hA', hal', a1, a2, a3⟩ := loadW_after hr
  rw [hA] at hA'; cases hA'
  rw [hal] at hal'; cases hal'
  obtain ⟨hyd, hn⟩ := (reach_ok hw).alphas _ (alpha?_mem hal)
  obtain ⟨s1, s2, s3⟩ := loadFromW_sim ⟨[], 0, yd, n⟩ hn d
  have esd : (loadFromW ⟨[], 0, yd, n⟩ d).2.sd = (loadFrom ⟨[], 0, yd⟩ d).2.sd := congrArg LSt.sd s2
  have eyd : (loadFromW ⟨[], 0, yd, n⟩ d).2.yd = (loadFrom ⟨[], 0, yd⟩ d).2.yd := congrArg LSt.yd s2
  have ecore : (⟨[] ++ (loadFromW ⟨[], 0, yd, n⟩ d).1.rules, [] ++ (loadFromW ⟨[], 0, yd, n⟩ d).1.final⟩ : TA) =
      (loadFrom ⟨[], 0, yd⟩ d).1 := by
    simp only [List.nil_append]; exact s1
  have enext : (loadFromW ⟨[], 0, yd, n⟩ d).2.next = (loadFrom ⟨[], 0, yd⟩ d).2.yd.length := by
    rw [← eyd]; exact s3
  simp only [ecore] at a1
  rw [eyd, enext] at a2
  rw [esd] at a3
  refine ⟨r.1, r.2, hr, ?_, ?_, a1, a2⟩
  · unfold dumpW
    simp only [a1, a2, dumpWith_otf, a3]
    exact dump_loadFrom ⟨[], 0, yd⟩ (LoadDump.init_ok hyd) d
  · rw [a3]; rfl

theorem map_sameSet {α β : Type} (f : α → β) {l₁ l₂ : List α} (h : l₁ ≈ l₂) : l₁.map f ≈ l₂.map f := by
  intro x
  simp only [List.mem_map]
  exact exists_congr fun a => and_congr (h a) Iff.rfl

/-- the dump depends on the SETS of final states and transitions only -/
theorem dumpOf_congr {f₁ f₂ : List String} {t₁ t₂ : List (List String × String × String)} (hf : f₁ ≈ f₂) (ht : t₁ ≈ t₂) :
    dumpOf f₁ t₁ = dumpOf f₂ t₂ := by
  unfold dumpOf normDesc
  simp only [ofS]
  rw [norm_congr ltStr_strictTotal (map_sameSet String.toList hf),
    norm_congr ltTrans_strictTotal (map_sameSet (fun t => (t.1.map String.toList, t.2.1.toList, t.2.2.toList)) ht)]

/-- **C19 through the wrapper: the order of first occurrence does not matter.**  Two descriptions with the same sets
of symbols, final states and transitions, loaded (fresh state dictionaries) into empty automata `i₁` of `w₁` and `i₂` of
`w₂` whose `OnTheFlyAlphabet`s have the same content `yd` (two fresh alphabets: `yd = []`; or a copy; or the same object
in the same world state): both loads succeed; the state and symbol numberings differ by bijections `h`, `g` (name by
name); the second automaton is the `h`,`g`-image of the first and accepts exactly the `g`-renamed trees; and the two dumps
(each with its own dictionaries) are the SAME description. -/
theorem load_order_wrapper {w₁ w₂ : World} (hw₁ : Reach w₁) (hw₂ : Reach w₂) {i₁ i₂ a₁ a₂ : Nat} {yd : SymDict}
    {n₁ n₂ : Nat} (hA₁ : w₁.aut? i₁ = .ok ⟨⟨[], []⟩, a₁⟩) (hA₂ : w₂.aut? i₂ = .ok ⟨⟨[], []⟩, a₂⟩)
    (hal₁ : w₁.alpha? a₁ = .ok (.otf yd n₁)) (hal₂ : w₂.alpha? a₂ = .ok (.otf yd n₂))
    (d₁ d₂ : AutDesc) (hs : d₁.symbols ≈ d₂.symbols) (hf : d₁.final ≈ d₂.final) (ht : d₁.trans ≈ d₂.trans) :
    ∃ w₁' sd₁ w₂' sd₂ A₁ A₂ yd₁ yd₂ h g,
      loadW w₁ i₁ d₁ [] = .ok (w₁', sd₁) ∧ loadW w₂ i₂ d₂ [] = .ok (w₂', sd₂) ∧
      w₁'.aut? i₁ = .ok ⟨A₁, a₁⟩ ∧ w₂'.aut? i₂ = .ok ⟨A₂, a₂⟩ ∧
      w₁'.alpha? a₁ = .ok (.otf yd₁ yd₁.length) ∧ w₂'.alpha? a₂ = .ok (.otf yd₂ yd₂.length) ∧
      (Function.Injective h ∧ Function.Surjective h) ∧ (Function.Injective g ∧ Function.Surjective g) ∧
      (∀ q, q ∈ sd₁.keys → h (sd₁.get q) = sd₂.get q) ∧ (∀ k, k ∈ yd₁.keys → g (yd₁.get k) = yd₂.get k) ∧
      (∀ r, r ∈ A₂.rules ↔ r ∈ (translateSymbols g (reindex h A₁)).rules) ∧
      (∀ q, q ∈ A₂.final ↔ q ∈ (translateSymbols g (reindex h A₁)).final) ∧
      (∀ t, accepts A₂ (t.mapSyms g) = accepts A₁ t) ∧
      ∃ dd, dumpW w₁' i₁ sd₁ = .ok dd ∧ dumpW w₂' i₂ sd₂ = .ok dd := by
  obtain ⟨w₁', sd₁, l1, du1, lt1, au1, al1⟩ := dumpW_loadW hw₁ hA₁ hal₁ d₁
  obtain ⟨w₂', sd₂, l2, du2, lt2, au2, al2⟩ := dumpW_loadW hw₂ hA₂ hal₂ d₂
  have hyd : yd.Ok := ((reach_ok hw₁).alphas _ (alpha?_mem hal₁)).1
  obtain ⟨A₁, s₁, y₁, A₂, s₂, y₂, h, g, e1, e2, hh, hg, kh, kg, hr, hfin, hacc⟩ :=
    load_lang_perm d₁ d₂ yd hyd hs hf ht
  rw [lt1] at e1; rw [lt2] at e2
  cases e1; cases e2
  refine ⟨w₁', _, w₂', _, _, _, _, _, h, g, l1, l2, au1, au2, al1, al2, hh, hg, kh, kg, hr, hfin, hacc,
    dumpOf d₁.final d₁.trans, du1, ?_⟩
  rw [du2, dumpOf_congr hf ht]

end Vata.Wrapper

namespace Vata.Wrapper
open Vata Vata.LoadDump Vata.Dict

/-- `run` stays inside the reachable worlds -/
theorem reach_run {w : World} (h : Reach w) (ops : List Op) : Reach (run w ops) := by
  induction ops generalizing w with
  | nil => exact h
  | cons o os ih =>
    simp only [run]
    split
    · rename_i w' e; exact ih (.step o h e)
    · exact ih h

/-- in a `Ranked` world two rules of automata on the same `OnTheFlyAlphabet` with the same symbol number have the same
number of children: "symbol = number" and "symbol with its arity" coincide -/
theorem ranked_same_arity {w : World} (h : w.Ranked) {A B : WAut} (hA : A ∈ w.auts) (hB : B ∈ w.auts)
    (hab : A.alpha = B.alpha) {d : SymDict} {n : Nat} (hal : w.alphas[A.alpha]? = some (.otf d n)) {r r' : Rule}
    (hr : r ∈ A.core.rules) (hr' : r' ∈ B.core.rules) (e : r.sym = r'.sym) : r.kids.length = r'.kids.length := by
  obtain ⟨nm, e1⟩ := h A hA _ hal r hr
  obtain ⟨nm', e2⟩ := h B hB _ (hab ▸ hal) r' hr'
  rw [e, e2] at e1
  have := Option.some.inj e1
  exact (congrArg Prod.snd this).symm

end Vata.Wrapper
