import Vata.OrdVector
/-!
# Theorems about the model of `VATA::Util::OrdVector` (`Vata/OrdVector.lean`)

Representation invariant `Sorted v` (strictly increasing = what `vectorIsSorted()` tests), abstraction
`abs v = fun x => x ∈ v`.
-/
namespace Vata.OrdVec

/-- the representation invariant: strictly increasing -/
def Sorted (v : Vec) : Prop := v.Pairwise (· < ·)

instance (v : Vec) : Decidable (Sorted v) := inferInstanceAs (Decidable (v.Pairwise (· < ·)))

/-- the abstraction function: the finite set a vector denotes -/
def abs (v : Vec) : Nat → Prop := fun x => x ∈ v

/-! ## the invariant -/

theorem sorted_nil : Sorted [] := List.Pairwise.nil
theorem sorted_single (x : Nat) : Sorted [x] := List.pairwise_singleton _ _

theorem sorted_cons {x : Nat} {v : Vec} : Sorted (x :: v) ↔ (∀ y ∈ v, x < y) ∧ Sorted v := List.pairwise_cons

theorem sorted_cons_cons {x y : Nat} {r : Vec} : Sorted (x :: y :: r) ↔ x < y ∧ Sorted (y :: r) := by
  constructor
  · intro h
    rw [sorted_cons] at h
    exact ⟨h.1 y List.mem_cons_self, h.2⟩
  · intro ⟨hxy, h⟩
    rw [sorted_cons]
    refine ⟨?_, h⟩
    intro z hz
    rcases List.mem_cons.1 hz with e | hz
    · subst e; exact hxy
    · exact Nat.lt_trans hxy ((sorted_cons.1 h).1 z hz)

/-- the private test `vectorIsSorted()` decides the invariant -/
theorem vectorIsSorted_iff : ∀ v : Vec, vectorIsSorted v = true ↔ Sorted v
  | [] => by simp [vectorIsSorted, sorted_nil]
  | [x] => by simp [vectorIsSorted, sorted_single]
  | x :: y :: r => by
    have ih := vectorIsSorted_iff (y :: r)
    have e : vectorIsSorted (x :: y :: r) = (if !(x < y) then false else vectorIsSorted (y :: r)) := rfl
    rw [sorted_cons_cons, ← ih, e]
    by_cases h : x < y <;> simp [h]

/-- index form of the invariant -/
theorem sorted_get {v : Vec} (h : Sorted v) {i j a b : Nat} (hij : i < j) (hi : v[i]? = some a) (hj : v[j]? = some b) :
    a < b := by
  have hjl : j < v.length := by
    rcases Nat.lt_or_ge j v.length with h | h
    · exact h
    · rw [List.getElem?_eq_none h] at hj; cases hj
  have hil : i < v.length := Nat.lt_trans hij hjl
  rw [List.getElem?_eq_getElem hil] at hi
  rw [List.getElem?_eq_getElem hjl] at hj
  cases hi; cases hj
  exact (List.pairwise_iff_getElem.1 h) i j hil hjl hij

/-- extensionality under the invariant: a set has exactly one representation -/
theorem sorted_ext : ∀ {a b : Vec}, Sorted a → Sorted b → (∀ x, x ∈ a ↔ x ∈ b) → a = b
  | [], [], _, _, _ => rfl
  | [], y :: ys, _, _, h => by have := (h y).2 List.mem_cons_self; cases this
  | x :: xs, [], _, _, h => by have := (h x).1 List.mem_cons_self; cases this
  | x :: xs, y :: ys, ha, hb, h => by
    rw [sorted_cons] at ha hb
    have hxy : x = y := by
      have h1 := (h x).1 List.mem_cons_self
      have h2 := (h y).2 List.mem_cons_self
      rcases List.mem_cons.1 h1 with e | h1
      · exact e
      · rcases List.mem_cons.1 h2 with e | h2
        · exact e.symm
        · have := hb.1 x h1; have := ha.1 y h2; omega
    subst hxy
    have : xs = ys := by
      apply sorted_ext ha.2 hb.2
      intro z
      constructor
      · intro hz
        rcases List.mem_cons.1 ((h z).1 (List.mem_cons_of_mem _ hz)) with e | h'
        · have := ha.1 z hz; omega
        · exact h'
      · intro hz
        rcases List.mem_cons.1 ((h z).2 (List.mem_cons_of_mem _ hz)) with e | h'
        · have := hb.1 z hz; omega
        · exact h'
    rw [this]

/-! ## `std::sort` (model: insertion sort) and `std::unique` -/

theorem insSorted_perm (x : Nat) : ∀ l : List Nat, (insSorted x l).Perm (x :: l)
  | [] => List.Perm.refl _
  | y :: r => by
    unfold insSorted
    split
    · exact List.Perm.refl _
    · exact ((insSorted_perm x r).cons y).trans (List.Perm.swap x y r)

theorem mem_insSorted {x z : Nat} {l : List Nat} : z ∈ insSorted x l ↔ z = x ∨ z ∈ l := by
  rw [(insSorted_perm x l).mem_iff, List.mem_cons]

theorem insSorted_sorted (x : Nat) : ∀ l : List Nat, l.Pairwise (· ≤ ·) → (insSorted x l).Pairwise (· ≤ ·)
  | [], _ => List.pairwise_singleton _ _
  | y :: r, h => by
    unfold insSorted
    rw [List.pairwise_cons] at h
    split
    · rename_i hxy
      rw [List.pairwise_cons]
      refine ⟨?_, List.pairwise_cons.2 h⟩
      intro z hz
      rcases List.mem_cons.1 hz with e | hz
      · omega
      · have := h.1 z hz; omega
    · rename_i hxy
      rw [List.pairwise_cons]
      refine ⟨?_, insSorted_sorted x r h.2⟩
      intro z hz
      rcases mem_insSorted.1 hz with e | hz
      · omega
      · exact h.1 z hz

theorem stdSort_perm : ∀ l : List Nat, (stdSort l).Perm l
  | [] => List.Perm.refl _
  | x :: r => (insSorted_perm x (stdSort r)).trans ((stdSort_perm r).cons x)

theorem stdSort_sorted : ∀ l : List Nat, (stdSort l).Pairwise (· ≤ ·)
  | [] => List.Pairwise.nil
  | x :: r => insSorted_sorted x _ (stdSort_sorted r)

theorem mem_stdSort {x : Nat} {l : List Nat} : x ∈ stdSort l ↔ x ∈ l := (stdSort_perm l).mem_iff

/-- what the C++ standard promises of `std::sort` (a sorted permutation of the input) determines the result: whatever
algorithm the library uses, it produces `stdSort l` -/
theorem stdSort_unique {l s : List Nat} (hp : s.Perm l) (hs : s.Pairwise (· ≤ ·)) : s = stdSort l :=
  List.Perm.eq_of_pairwise (le := (· ≤ ·)) (fun _ _ _ _ h1 h2 => Nat.le_antisymm h1 h2) hs (stdSort_sorted l)
    (hp.trans (stdSort_perm l).symm)

theorem stdSort_of_sorted {l : List Nat} (h : l.Pairwise (· ≤ ·)) : stdSort l = l :=
  (stdSort_unique (List.Perm.refl l) h).symm

theorem uniqueAux_spec : ∀ (l : List Nat) (prev : Nat), (prev :: l).Pairwise (· ≤ ·) →
    Sorted (prev :: uniqueAux prev l) ∧ ∀ x, x ∈ prev :: uniqueAux prev l ↔ x ∈ prev :: l
  | [], prev, _ => ⟨sorted_single _, fun _ => Iff.rfl⟩
  | y :: r, prev, h => by
    rw [List.pairwise_cons] at h
    have hpy : prev ≤ y := h.1 y List.mem_cons_self
    unfold uniqueAux
    by_cases e : prev = y
    · subst e
      simp only [beq_self_eq_true, if_true]
      have ih := uniqueAux_spec r prev h.2
      refine ⟨ih.1, ?_⟩
      intro x
      rw [ih.2 x]
      simp [List.mem_cons]
    · have hne : (prev == y) = false := by simp [e]
      simp only [hne, Bool.false_eq_true, if_false]
      have ih := uniqueAux_spec r y h.2
      constructor
      · rw [sorted_cons]
        refine ⟨?_, ih.1⟩
        intro z hz
        rcases List.mem_cons.1 ((ih.2 z).1 hz) with e' | hz'
        · omega
        · have := (List.pairwise_cons.1 h.2).1 z hz'; omega
      · intro x
        rw [List.mem_cons, ih.2 x, List.mem_cons, List.mem_cons, List.mem_cons]

theorem stdUnique_spec (l : List Nat) (h : l.Pairwise (· ≤ ·)) :
    Sorted (stdUnique l) ∧ ∀ x, x ∈ stdUnique l ↔ x ∈ l := by
  cases l with
  | nil => exact ⟨sorted_nil, fun _ => Iff.rfl⟩
  | cons x r => exact uniqueAux_spec r x h

theorem sorted_le {v : Vec} (h : Sorted v) : v.Pairwise (· ≤ ·) := h.imp (fun h => Nat.le_of_lt h)

theorem stdUnique_of_sorted {v : Vec} (h : Sorted v) : stdUnique v = v :=
  sorted_ext (stdUnique_spec v (sorted_le h)).1 h (stdUnique_spec v (sorted_le h)).2

/-! ## constructors establish the invariant and denote the given elements -/

theorem mkEmpty_sorted : Sorted mkEmpty := sorted_nil
theorem mem_mkEmpty (x : Nat) : ¬ x ∈ mkEmpty := by simp [mkEmpty]

theorem ofVector_sorted (l : List Nat) : Sorted (ofVector l) := (stdUnique_spec _ (stdSort_sorted l)).1
theorem mem_ofVector {x : Nat} {l : List Nat} : x ∈ ofVector l ↔ x ∈ l := by
  unfold ofVector
  rw [(stdUnique_spec _ (stdSort_sorted l)).2 x, mem_stdSort]

theorem ofInitList_sorted (l : List Nat) : Sorted (ofInitList l) := ofVector_sorted l
theorem mem_ofInitList {x : Nat} {l : List Nat} : x ∈ ofInitList l ↔ x ∈ l := mem_ofVector (l := l)
theorem ofRange_sorted (l : List Nat) : Sorted (ofRange l) := ofVector_sorted l
theorem mem_ofRange {x : Nat} {l : List Nat} : x ∈ ofRange l ↔ x ∈ l := mem_ofVector (l := l)
theorem ofKey_sorted (x : Nat) : Sorted (ofKey x) := sorted_single x
theorem mem_ofKey {x y : Nat} : y ∈ ofKey x ↔ y = x := by simp [ofKey]

/-- on an already strictly increasing vector the constructor is the identity -/
theorem ofVector_of_sorted {v : Vec} (h : Sorted v) : ofVector v = v := by
  unfold ofVector
  rw [stdSort_of_sorted (sorted_le h), stdUnique_of_sorted h]

theorem assign_sorted {self : Bool} {a b : Vec} (ha : Sorted a) (hb : Sorted b) : Sorted (assign self a b) := by
  unfold assign; split <;> assumption

/-- assignment yields the right-hand side (also when it is the object itself) -/
theorem assign_eq {self : Bool} {a b : Vec} (h : self = true → a = b) : assign self a b = b := by
  unfold assign; split
  · rename_i hs; exact h hs
  · rfl

theorem clear_sorted (v : Vec) : Sorted (clear v) := sorted_nil
theorem mem_clear (v : Vec) (x : Nat) : ¬ x ∈ clear v := by simp [clear]

/-! ## the binary-search loop of `insert` and `find` -/

/-- memory safety: with `last ≤ size()` the loop never reads outside the vector -/
theorem bsearch_safe : ∀ (fuel : Nat) (v : Vec) (x first last : Nat), last ≤ v.length →
    bsearch fuel v x first last ≠ .oob
  | 0, _, _, _, _, _ => by simp [bsearch]
  | fuel + 1, v, x, first, last, hl => by
    unfold bsearch
    split
    · rename_i hfl
      have hm : first + (last - first) / 2 < v.length := by omega
      simp only [List.getElem?_eq_getElem hm]
      split
      · simp
      · split
        · exact bsearch_safe fuel v x _ last hl
        · exact bsearch_safe fuel v x first _ (by omega)
    · simp

/-- leaving the loop through `return` inside: the element at the returned position is the key -/
theorem bsearch_found : ∀ (fuel : Nat) (v : Vec) (x first last i : Nat),
    bsearch fuel v x first last = .found i → v[i]? = some x ∧ first ≤ i ∧ i < last
  | 0, _, _, _, _, _, h => by simp [bsearch] at h
  | fuel + 1, v, x, first, last, i, h => by
    unfold bsearch at h
    split at h
    · rename_i hfl
      simp only at h
      split at h
      · cases h
      · rename_i y hy
        split at h
        · rename_i hyx
          have hyx' : y = x := by simpa using hyx
          injection h with h
          subst h; subst hyx'
          exact ⟨hy, by omega, by omega⟩
        · split at h
          · obtain ⟨h1, h2, h3⟩ := bsearch_found fuel v x _ last i h
            exact ⟨h1, by omega, by omega⟩
          · obtain ⟨h1, h2, h3⟩ := bsearch_found fuel v x first _ i h
            exact ⟨h1, by omega, by omega⟩
    · cases h

/-- leaving the loop with `first ≥ last`: `first` splits the (sorted) vector into the elements below and above the key -/
theorem bsearch_pos : ∀ (fuel : Nat) (v : Vec) (x first last i : Nat), Sorted v → first ≤ last → last ≤ v.length →
    last - first ≤ fuel →
    (∀ k y, k < first → v[k]? = some y → y < x) → (∀ k y, last ≤ k → v[k]? = some y → x < y) →
    bsearch fuel v x first last = .pos i →
    i ≤ v.length ∧ (∀ k y, k < i → v[k]? = some y → y < x) ∧ (∀ k y, i ≤ k → v[k]? = some y → x < y)
  | 0, v, x, first, last, i, _, hfl, hl, hfu, hlo, hhi, h => by
    simp [bsearch] at h
    subst h
    have : first = last := by omega
    subst this
    exact ⟨hl, hlo, hhi⟩
  | fuel + 1, v, x, first, last, i, hs, hfl, hl, hfu, hlo, hhi, h => by
    unfold bsearch at h
    split at h
    · rename_i hlt
      simp only at h
      split at h
      · cases h
      · rename_i y hy
        split at h
        · cases h
        · rename_i hne
          have hne' : y ≠ x := by simpa using hne
          split at h
          · rename_i hyx
            refine bsearch_pos fuel v x _ last i hs (by omega) hl (by omega) ?_ hhi h
            intro k z hk hz
            rcases Nat.lt_or_ge k (first + (last - first) / 2) with hk' | hk'
            · have := sorted_get hs hk' hz hy; omega
            · have : k = first + (last - first) / 2 := by omega
              subst this
              rw [hy] at hz; cases hz; exact hyx
          · rename_i hyx
            refine bsearch_pos fuel v x first _ i hs (by omega) (by omega) (by omega) hlo ?_ h
            intro k z hk hz
            rcases Nat.lt_or_ge (first + (last - first) / 2) k with hk' | hk'
            · have := sorted_get hs hk' hy hz; omega
            · have : k = first + (last - first) / 2 := by omega
              subst this
              rw [hy] at hz; cases hz; omega
    · injection h with h
      subst h
      have : first = last := by omega
      subst this
      exact ⟨hl, hlo, hhi⟩

/-! ## `std::copy_backward` and the insertion at a position -/

theorem length_copyBackward : ∀ (l : Nat) (w : Vec) (first : Nat), (copyBackward w first l).length = w.length
  | 0, _, _ => rfl
  | l + 1, w, first => by
    unfold copyBackward
    split
    · rw [length_copyBackward l]; simp
    · rfl

/-- every element of `(first, last]` receives its left neighbour, everything else is unchanged -/
theorem copyBackward_get : ∀ (l : Nat) (w : Vec) (first k : Nat), l < w.length →
    (copyBackward w first l)[k]? = if first < k ∧ k ≤ l then w[k - 1]? else w[k]?
  | 0, w, first, k, _ => by
    have : ¬ (first < k ∧ k ≤ 0) := by omega
    unfold copyBackward
    rw [if_neg this]
  | l + 1, w, first, k, hl => by
    unfold copyBackward
    split
    · rename_i hf
      rw [copyBackward_get l _ first k (by simp; omega)]
      have hgl : w.getD l 0 = w[l]'(by omega) := by
        simp [List.getD, List.getElem?_eq_getElem (show l < w.length by omega)]
      by_cases c1 : first < k ∧ k ≤ l
      · have c2 : first < k ∧ k ≤ l + 1 := by omega
        rw [if_pos c1, if_pos c2, List.getElem?_set_ne (by omega)]
      · rw [if_neg c1]
        by_cases c3 : k = l + 1
        · subst c3
          have c2 : first < l + 1 ∧ l + 1 ≤ l + 1 := by omega
          rw [if_pos c2, List.getElem?_set_self (by omega), hgl]
          simp [List.getElem?_eq_getElem (show l < w.length by omega)]
        · have c2 : ¬ (first < k ∧ k ≤ l + 1) := by omega
          rw [if_neg c2, List.getElem?_set_ne (by omega)]
    · rename_i hf
      have c2 : ¬ (first < k ∧ k ≤ l + 1) := by omega
      rw [if_neg c2]

/-- `resize(size+1); copy_backward(begin+first, end-1, end); vec_[first] = x` inserts `x` before position `first` -/
theorem insertAt_eq (v : Vec) (first x : Nat) (hf : first ≤ v.length) :
    (copyBackward (v ++ [0]) first v.length).set first x = v.take first ++ x :: v.drop first := by
  apply List.ext_getElem?
  intro k
  have hlen : (copyBackward (v ++ [0]) first v.length).length = v.length + 1 := by
    rw [length_copyBackward]; simp
  have ht : (v.take first).length = first := by rw [List.length_take]; exact Nat.min_eq_left hf
  rcases Nat.lt_trichotomy k first with hk | hk | hk
  · rw [List.getElem?_set_ne (by omega), copyBackward_get _ _ _ _ (by simp)]
    have c : ¬ (first < k ∧ k ≤ v.length) := by omega
    rw [if_neg c, List.getElem?_append_left (by omega), List.getElem?_append_left (by omega),
      List.getElem?_take_of_lt hk]
  · subst hk
    rw [List.getElem?_set_self (by omega), List.getElem?_append_right (by omega), ht]
    simp
  · have hr : (v.take first ++ x :: v.drop first)[k]? = v[k - 1]? := by
      rw [List.getElem?_append_right (by omega), ht]
      have hk1 : k - first = (k - first - 1) + 1 := by omega
      rw [hk1, List.getElem?_cons_succ, List.getElem?_drop]
      have hidx : first + (k - first - 1) = k - 1 := by omega
      rw [hidx]
    rw [hr, List.getElem?_set_ne (by omega), copyBackward_get _ _ _ _ (by simp)]
    by_cases c : first < k ∧ k ≤ v.length
    · rw [if_pos c, List.getElem?_append_left (by omega)]
    · rw [if_neg c, List.getElem?_eq_none (by simp; omega), List.getElem?_eq_none (by omega)]

/-! ## `insert(const Key&)` and `find` -/

theorem mem_take_get {v : Vec} {i y : Nat} (h : y ∈ v.take i) : ∃ k, k < i ∧ v[k]? = some y := by
  obtain ⟨k, hk⟩ := List.mem_iff_getElem?.1 h
  rw [List.getElem?_take] at hk
  split at hk
  · exact ⟨k, by assumption, hk⟩
  · cases hk

theorem mem_drop_get {v : Vec} {i y : Nat} (h : y ∈ v.drop i) : ∃ k, i ≤ k ∧ v[k]? = some y := by
  obtain ⟨k, hk⟩ := List.mem_iff_getElem?.1 h
  rw [List.getElem?_drop] at hk
  exact ⟨i + k, by omega, hk⟩

theorem insertAt_spec {v : Vec} (h : Sorted v) {i x : Nat}
    (hlo : ∀ k y, k < i → v[k]? = some y → y < x) (hhi : ∀ k y, i ≤ k → v[k]? = some y → x < y) :
    Sorted (v.take i ++ x :: v.drop i) ∧ ∀ z, z ∈ v.take i ++ x :: v.drop i ↔ z = x ∨ z ∈ v := by
  have hlo' : ∀ y ∈ v.take i, y < x := by
    intro y hy; obtain ⟨k, hk, e⟩ := mem_take_get hy; exact hlo k y hk e
  have hhi' : ∀ y ∈ v.drop i, x < y := by
    intro y hy; obtain ⟨k, hk, e⟩ := mem_drop_get hy; exact hhi k y hk e
  constructor
  · unfold Sorted
    rw [List.pairwise_append]
    refine ⟨h.sublist (List.take_sublist i v), ?_, ?_⟩
    · rw [List.pairwise_cons]
      exact ⟨hhi', h.sublist (List.drop_sublist i v)⟩
    · intro a ha b hb
      rcases List.mem_cons.1 hb with e | hb
      · subst e; exact hlo' a ha
      · exact Nat.lt_trans (hlo' a ha) (hhi' b hb)
  · intro z
    rw [List.mem_append, List.mem_cons]
    have hv : z ∈ v ↔ z ∈ v.take i ∨ z ∈ v.drop i := by
      rw [← List.mem_append, List.take_append_drop]
    rw [hv]
    constructor
    · rintro (h1 | h1 | h1)
      · exact Or.inr (Or.inl h1)
      · exact Or.inl h1
      · exact Or.inr (Or.inr h1)
    · rintro (h1 | h1 | h1)
      · exact Or.inr (Or.inl h1)
      · exact Or.inl h1
      · exact Or.inr (Or.inr h1)

theorem lastLess_true {v : Vec} {x : Nat} (h : lastLess v x = true) :
    ∃ y, v.length ≠ 0 ∧ v[v.length - 1]? = some y ∧ y < x := by
  unfold lastLess at h
  split at h
  · rename_i hne
    split at h
    · rename_i y hy
      exact ⟨y, by simpa using hne, hy, by simpa using h⟩
    · cases h
  · cases h

/-- `insert(x)` keeps the invariant and adds exactly `x` -/
theorem insert_spec {v : Vec} (h : Sorted v) (x : Nat) :
    Sorted (insert v x) ∧ ∀ z, z ∈ insert v x ↔ z = x ∨ z ∈ v := by
  unfold insert
  split
  · -- push_back
    rename_i hfast
    obtain ⟨y, hne, hy, hyx⟩ := lastLess_true hfast
    have hall : ∀ a ∈ v, a < x := by
      intro a ha
      obtain ⟨k, hk⟩ := List.mem_iff_getElem?.1 ha
      have hkl : k < v.length := by
        rcases Nat.lt_or_ge k v.length with h' | h'
        · exact h'
        · rw [List.getElem?_eq_none h'] at hk; cases hk
      rcases Nat.lt_or_ge k (v.length - 1) with h' | h'
      · have := sorted_get h h' hk hy; omega
      · have : k = v.length - 1 := by omega
        subst this
        rw [hy] at hk; cases hk; exact hyx
    constructor
    · unfold Sorted
      rw [List.pairwise_append]
      refine ⟨h, List.pairwise_singleton _ _, ?_⟩
      intro a ha b hb
      rw [List.mem_singleton] at hb
      subst hb
      exact hall a ha
    · intro z
      rw [List.mem_append, List.mem_singleton]
      exact Or.comm
  · split
    · -- found
      rename_i i hb
      refine ⟨h, ?_⟩
      have hx : x ∈ v := List.mem_of_getElem? (bsearch_found _ _ _ _ _ _ hb).1
      intro z
      constructor
      · exact Or.inr
      · rintro (e | hz)
        · subst e; exact hx
        · exact hz
    · rename_i hb
      exact absurd hb (bsearch_safe _ _ _ _ _ (Nat.le_refl _))
    · rename_i i hb
      obtain ⟨hi, hlo, hhi⟩ := bsearch_pos _ v x 0 v.length i h (Nat.zero_le _) (Nat.le_refl _) (by omega)
        (by intro k y hk; omega)
        (by intro k y hk e; rw [List.getElem?_eq_none hk] at e; cases e) hb
      rw [insertAt_eq v i x hi]
      exact insertAt_spec h hlo hhi

theorem insert_sorted {v : Vec} (h : Sorted v) (x : Nat) : Sorted (insert v x) := (insert_spec h x).1
theorem mem_insert {v : Vec} (h : Sorted v) {x z : Nat} : z ∈ insert v x ↔ z = x ∨ z ∈ v := (insert_spec h x).2 z

/-- inserting an element that is present changes nothing -/
theorem insert_of_mem {v : Vec} (h : Sorted v) {x : Nat} (hx : x ∈ v) : insert v x = v := by
  apply sorted_ext (insert_sorted h x) h
  intro z
  rw [mem_insert h]
  constructor
  · rintro (e | hz)
    · subst e; exact hx
    · exact hz
  · exact Or.inr

/-- a returned iterator points to the key (needs no invariant) -/
theorem find_some {v : Vec} {x i : Nat} (h : find v x = some i) : v[i]? = some x := by
  unfold find at h
  split at h
  · rename_i j hb
    cases h
    exact (bsearch_found _ _ _ _ _ _ hb).1
  · cases h

/-- `find` returns `end()` exactly for the keys that are not in the set -/
theorem find_none_iff {v : Vec} (hs : Sorted v) {x : Nat} : find v x = none ↔ ¬ x ∈ v := by
  constructor
  · intro h hx
    unfold find at h
    split at h
    · cases h
    · rename_i hnf
      cases hb : bsearch v.length v x 0 v.length with
      | found i => exact hnf i hb
      | oob => exact bsearch_safe _ _ _ _ _ (Nat.le_refl _) hb
      | pos i =>
        obtain ⟨hi, hlo, hhi⟩ := bsearch_pos _ v x 0 v.length i hs (Nat.zero_le _) (Nat.le_refl _) (by omega)
          (by intro k y hk; omega)
          (by intro k y hk e; rw [List.getElem?_eq_none hk] at e; cases e) hb
        obtain ⟨k, hk⟩ := List.mem_iff_getElem?.1 hx
        rcases Nat.lt_or_ge k i with h' | h'
        · have := hlo k x h' hk; omega
        · have := hhi k x h' hk; omega
  · intro hx
    cases hf : find v x with
    | none => rfl
    | some i => exact absurd (List.mem_of_getElem? (find_some hf)) hx

theorem find_isSome_iff {v : Vec} (hs : Sorted v) {x : Nat} : (find v x).isSome = true ↔ x ∈ v := by
  cases hf : find v x with
  | none => simp [(find_none_iff hs).1 hf]
  | some i => simp [List.mem_of_getElem? (find_some hf)]

/-- the offset of the returned iterator is the rank of the key: the number of elements below it -/
theorem find_rank {v : Vec} (hs : Sorted v) {x i : Nat} (h : find v x = some i) :
    i = (v.filter (· < x)).length := by
  have hx := find_some h
  have hil : i < v.length := by
    rcases Nat.lt_or_ge i v.length with h' | h'
    · exact h'
    · rw [List.getElem?_eq_none h'] at hx; cases hx
  have hsplit : v = v.take i ++ v.drop i := (List.take_append_drop i v).symm
  have h1 : (v.take i).filter (· < x) = v.take i := by
    rw [List.filter_eq_self]
    intro y hy
    obtain ⟨k, hk, e⟩ := mem_take_get hy
    have := sorted_get hs hk e hx
    simpa using this
  have h2 : (v.drop i).filter (· < x) = [] := by
    rw [List.filter_eq_nil_iff]
    intro y hy
    obtain ⟨k, hk, e⟩ := mem_drop_get hy
    rcases Nat.lt_or_ge i k with h' | h'
    · have := sorted_get hs h' hx e
      simp; omega
    · have : k = i := by omega
      subst this
      rw [hx] at e; cases e; simp
  rw [hsplit, List.filter_append, h1, h2, List.append_nil, List.length_take]
  omega

/-! ## `Union` and `insert(const OrdVector&)` -/

theorem mem_unionLoop (a b : Vec) (z : Nat) : z ∈ unionLoop a b ↔ z ∈ a ∨ z ∈ b := by
  induction a, b using unionLoop.induct with
  | case1 => simp [unionLoop]
  | case2 y ys ih => rw [unionLoop, List.mem_cons, ih]; simp
  | case3 x xs ih => rw [unionLoop, List.mem_cons, ih]; simp
  | case4 x xs y ys hxy ih => rw [unionLoop, if_pos hxy, List.mem_cons, ih]; simp only [List.mem_cons]; grind
  | case5 x xs y ys hxy hyx ih =>
    rw [unionLoop, if_neg hxy, if_pos hyx, List.mem_cons, ih]; simp only [List.mem_cons]; grind
  | case6 x xs y ys hxy hyx ih =>
    have : x = y := by omega
    subst this
    rw [unionLoop, if_neg hxy, if_neg hyx, List.mem_cons, ih]; simp only [List.mem_cons]; grind

/-- under the invariant the merge loop already produces a strictly increasing vector -/
theorem unionLoop_sorted (a b : Vec) (ha : Sorted a) (hb : Sorted b) : Sorted (unionLoop a b) := by
  induction a, b using unionLoop.induct with
  | case1 => rw [unionLoop]; exact sorted_nil
  | case2 y ys ih =>
    rw [unionLoop, sorted_cons]
    rw [sorted_cons] at hb
    refine ⟨?_, ih sorted_nil hb.2⟩
    intro z hz
    rcases (mem_unionLoop _ _ z).1 hz with h | h
    · cases h
    · exact hb.1 z h
  | case3 x xs ih =>
    rw [unionLoop, sorted_cons]
    rw [sorted_cons] at ha
    refine ⟨?_, ih ha.2 sorted_nil⟩
    intro z hz
    rcases (mem_unionLoop _ _ z).1 hz with h | h
    · exact ha.1 z h
    · cases h
  | case4 x xs y ys hxy ih =>
    rw [unionLoop, if_pos hxy, sorted_cons]
    have ha' := sorted_cons.1 ha
    have hb' := sorted_cons.1 hb
    refine ⟨?_, ih ha'.2 hb⟩
    intro z hz
    rcases (mem_unionLoop _ _ z).1 hz with h | h
    · exact ha'.1 z h
    · rcases List.mem_cons.1 h with e | h
      · omega
      · have := hb'.1 z h; omega
  | case5 x xs y ys hxy hyx ih =>
    rw [unionLoop, if_neg hxy, if_pos hyx, sorted_cons]
    have ha' := sorted_cons.1 ha
    have hb' := sorted_cons.1 hb
    refine ⟨?_, ih ha hb'.2⟩
    intro z hz
    rcases (mem_unionLoop _ _ z).1 hz with h | h
    · rcases List.mem_cons.1 h with e | h
      · omega
      · have := ha'.1 z h; omega
    · exact hb'.1 z h
  | case6 x xs y ys hxy hyx ih =>
    rw [unionLoop, if_neg hxy, if_neg hyx, sorted_cons]
    have ha' := sorted_cons.1 ha
    have hb' := sorted_cons.1 hb
    refine ⟨?_, ih ha'.2 hb'.2⟩
    intro z hz
    rcases (mem_unionLoop _ _ z).1 hz with h | h
    · have := ha'.1 z h; omega
    · exact hb'.1 z h

/-- `Union` always returns an object satisfying the invariant (its result passes through the sorting constructor) … -/
theorem union_sorted (a b : Vec) : Sorted (union a b) := ofVector_sorted _

/-- … and denotes the union of the two sets -/
theorem mem_union {a b : Vec} {z : Nat} : z ∈ union a b ↔ z ∈ a ∨ z ∈ b := by
  unfold union
  rw [mem_ofVector, mem_unionLoop]

/-- under the invariant the second sort / unique pass of `Union` changes nothing -/
theorem union_eq_loop {a b : Vec} (ha : Sorted a) (hb : Sorted b) : union a b = unionLoop a b :=
  ofVector_of_sorted (unionLoop_sorted a b ha hb)

theorem insertAll_sorted (a b : Vec) : Sorted (insertAll a b) := union_sorted a b
theorem mem_insertAll {a b : Vec} {z : Nat} : z ∈ insertAll a b ↔ z ∈ a ∨ z ∈ b := mem_union

/-! ## `operator==` -/

theorem stdEqual_iff : ∀ (a b : Vec), a.length = b.length → (stdEqual a b = true ↔ a = b)
  | [], [], _ => by simp [stdEqual]
  | [], _ :: _, h => by simp at h
  | _ :: _, [], h => by simp at h
  | x :: xs, y :: ys, h => by
    have ih := stdEqual_iff xs ys (by simpa using h)
    unfold stdEqual
    by_cases e : x = y
    · subst e; simp [ih]
    · simp [e]

/-- `operator==` is equality of the vectors … -/
theorem eq_iff (a b : Vec) : eq a b = true ↔ a = b := by
  unfold eq
  by_cases h : a.length = b.length
  · simp [h, stdEqual_iff a b h]
  · have : a ≠ b := fun e => h (by rw [e])
    simp [h, this]

/-- … which under the invariant is equality of the denoted sets -/
theorem eq_iff_ext {a b : Vec} (ha : Sorted a) (hb : Sorted b) : eq a b = true ↔ ∀ x, x ∈ a ↔ x ∈ b := by
  rw [eq_iff]
  constructor
  · intro e x; rw [e]
  · exact sorted_ext ha hb

/-! ## `operator<`: the lexicographic order of the vectors, a strict total order -/

/-- `std::lexicographical_compare` is the lexicographic order `<` of core `List` -/
theorem lt_iff : ∀ (a b : Vec), lt a b = true ↔ a < b
  | [], [] => by simp [lt, stdLexCompare]
  | [], _ :: _ => by simp [lt, stdLexCompare]
  | _ :: _, [] => by simp [lt, stdLexCompare]
  | x :: xs, y :: ys => by
    have ih := lt_iff xs ys
    unfold lt at ih ⊢
    unfold stdLexCompare
    rw [List.cons_lt_cons_iff]
    by_cases h1 : x < y
    · simp [h1]
    · by_cases h2 : y < x
      · have : x ≠ y := by omega
        simp [h1, h2, this]
      · have : x = y := by omega
        subst this
        simp [ih]

theorem lt_irrefl : ∀ a : Vec, lt a a = false
  | [] => by simp [lt, stdLexCompare]
  | x :: xs => by
    have ih := lt_irrefl xs
    unfold lt at ih ⊢
    unfold stdLexCompare
    simp [ih]

theorem lt_trans : ∀ {a b c : Vec}, lt a b = true → lt b c = true → lt a c = true
  | [], [], _, h, _ => by simp [lt, stdLexCompare] at h
  | [], _ :: _, [], _, h => by simp [lt, stdLexCompare] at h
  | [], _ :: _, _ :: _, _, _ => by simp [lt, stdLexCompare]
  | _ :: _, [], _, h, _ => by simp [lt, stdLexCompare] at h
  | _ :: _, _ :: _, [], _, h => by simp [lt, stdLexCompare] at h
  | x :: xs, y :: ys, z :: zs, h1, h2 => by
    have ih := @lt_trans xs ys zs
    unfold lt at ih h1 h2 ⊢
    unfold stdLexCompare at h1 h2 ⊢
    by_cases hxy : x < y
    · by_cases hyz : y < z
      · have : x < z := by omega
        simp [this]
      · by_cases hzy : z < y
        · simp [hyz, hzy] at h2
        · have : x < z := by omega
          simp [this]
    · by_cases hyx : y < x
      · simp [hxy, hyx] at h1
      · have e : x = y := by omega
        subst e
        simp only [hxy, if_false] at h1
        by_cases hyz : x < z
        · simp [hyz]
        · by_cases hzy : z < x
          · simp [hyz, hzy] at h2
          · simp only [hyz, hzy, if_false] at h2 ⊢
            exact ih h1 h2

/-- trichotomy: two vectors are equal or one is below the other -/
theorem lt_trichotomy : ∀ (a b : Vec), lt a b = true ∨ a = b ∨ lt b a = true
  | [], [] => Or.inr (Or.inl rfl)
  | [], _ :: _ => Or.inl (by simp [lt, stdLexCompare])
  | _ :: _, [] => Or.inr (Or.inr (by simp [lt, stdLexCompare]))
  | x :: xs, y :: ys => by
    have ih := lt_trichotomy xs ys
    unfold lt at ih ⊢
    unfold stdLexCompare
    by_cases hxy : x < y
    · simp [hxy]
    · by_cases hyx : y < x
      · simp [hyx]
      · have e : x = y := by omega
        subst e
        simp only [hxy, if_false]
        rcases ih with h | h | h
        · exact Or.inl h
        · exact Or.inr (Or.inl (by rw [h]))
        · exact Or.inr (Or.inr h)

theorem lt_asymm {a b : Vec} (h : lt a b = true) : lt b a = false := by
  cases hba : lt b a with
  | false => rfl
  | true => have := lt_trans h hba; rw [lt_irrefl] at this; cases this

/-- totality on distinct vectors -/
theorem lt_total {a b : Vec} (h : a ≠ b) : lt a b = true ∨ lt b a = true := by
  rcases lt_trichotomy a b with h1 | h1 | h1
  · exact Or.inl h1
  · exact absurd h1 h
  · exact Or.inr h1

/-- totality on SETS: two objects that denote different sets are comparable … -/
theorem lt_total_sets {a b : Vec} (h : ¬ ∀ x, x ∈ a ↔ x ∈ b) : lt a b = true ∨ lt b a = true :=
  lt_total (fun e => h (fun x => by rw [e]))

/-- … and (under the invariant) two objects that denote the same set are not: `<` is a strict total order on the sets -/
theorem lt_irrefl_sets {a b : Vec} (ha : Sorted a) (hb : Sorted b) (h : ∀ x, x ∈ a ↔ x ∈ b) : lt a b = false := by
  rw [sorted_ext ha hb h]; exact lt_irrefl b

/-! ## `IsSubsetOf` (`std::includes`) -/

theorem stdIncludes_iff : ∀ (big small : Vec), Sorted big → Sorted small →
    (stdIncludes big small = true ↔ ∀ x ∈ small, x ∈ big)
  | _, [], _, _ => by
    have : ∀ big : Vec, stdIncludes big [] = true := by intro big; cases big <;> rfl
    simp [this]
  | [], s :: ss, _, _ => by
    constructor
    · intro h; simp [stdIncludes] at h
    · intro h; exact absurd (h s List.mem_cons_self) (by simp)
  | b :: bs, s :: ss, hb, hs => by
    have hb' := sorted_cons.1 hb
    have hs' := sorted_cons.1 hs
    unfold stdIncludes
    by_cases h1 : s < b
    · simp only [h1, if_true]
      constructor
      · intro h; cases h
      · intro h
        rcases List.mem_cons.1 (h s List.mem_cons_self) with e | h'
        · omega
        · have := hb'.1 s h'; omega
    · simp only [h1, if_false]
      by_cases h2 : b < s
      · have ih := stdIncludes_iff bs (s :: ss) hb'.2 hs
        simp only [h2, decide_true, Bool.not_true, Bool.false_eq_true, if_false]
        rw [ih]
        constructor
        · intro h x hx; exact List.mem_cons_of_mem _ (h x hx)
        · intro h x hx
          rcases List.mem_cons.1 (h x hx) with e | h'
          · rcases List.mem_cons.1 hx with e' | hx'
            · omega
            · have := hs'.1 x hx'; omega
          · exact h'
      · have e : s = b := by omega
        subst e
        have ih := stdIncludes_iff bs ss hb'.2 hs'.2
        simp only [h2, decide_false, Bool.not_false, if_true]
        rw [ih]
        constructor
        · intro h x hx
          rcases List.mem_cons.1 hx with e | hx'
          · rw [e]; exact List.mem_cons_self
          · exact List.mem_cons_of_mem _ (h x hx')
        · intro h x hx
          rcases List.mem_cons.1 (h x (List.mem_cons_of_mem _ hx)) with e | h'
          · have := hs'.1 x hx; omega
          · exact h'

/-- `IsSubsetOf` decides set inclusion -/
theorem isSubsetOf_iff {a bigger : Vec} (ha : Sorted a) (hb : Sorted bigger) :
    isSubsetOf a bigger = true ↔ ∀ x ∈ a, x ∈ bigger := stdIncludes_iff bigger a hb ha

/-! ## `HaveEmptyIntersection`: the loop as coded and the loop as intended -/

/-- the intended loop (`&&`) decides disjointness -/
theorem haveEmptyIntersectionFixed_iff (a b : Vec) (ha : Sorted a) (hb : Sorted b) :
    haveEmptyIntersectionFixed a b = true ↔ ∀ x ∈ a, ¬ x ∈ b := by
  induction a, b using haveEmptyIntersectionFixed.induct with
  | case1 b => simp [haveEmptyIntersectionFixed]
  | case2 x xs => simp [haveEmptyIntersectionFixed]
  | case3 x xs y ys hxy =>
    have e : x = y := by simpa using hxy
    subst e
    rw [haveEmptyIntersectionFixed, if_pos hxy]
    constructor
    · intro h; cases h
    · intro h; exact absurd List.mem_cons_self (h x List.mem_cons_self)
  | case4 x xs y ys hne hlt ih =>
    have ha' := sorted_cons.1 ha
    have hb' := sorted_cons.1 hb
    rw [haveEmptyIntersectionFixed, if_neg hne, if_pos hlt, ih ha'.2 hb]
    constructor
    · intro h z hz
      rcases List.mem_cons.1 hz with e | hz'
      · subst e
        intro hm
        rcases List.mem_cons.1 hm with e | hm'
        · omega
        · have := hb'.1 z hm'; omega
      · exact h z hz'
    · intro h z hz; exact h z (List.mem_cons_of_mem _ hz)
  | case5 x xs y ys hne hlt ih =>
    have ha' := sorted_cons.1 ha
    have hb' := sorted_cons.1 hb
    have hne' : x ≠ y := by simpa using hne
    rw [haveEmptyIntersectionFixed, if_neg hne, if_neg hlt, ih ha hb'.2]
    constructor
    · intro h z hz hm
      rcases List.mem_cons.1 hm with e | hm'
      · subst e
        rcases List.mem_cons.1 hz with e | hz'
        · omega
        · have := ha'.1 z hz'; omega
      · exact h z hz hm'
    · intro h z hz hm; exact h z hz (List.mem_cons_of_mem _ hm)

/-- THE LOOP AS CODED (`||`): it follows the path of the intended loop, returns `false` when that finds a common element,
returns `true` only for two EMPTY vectors, and in every other case dereferences an iterator equal to `end()`
(no invariant needed) -/
theorem haveEmptyIntersection_eq (a b : Vec) :
    haveEmptyIntersection a b =
      if haveEmptyIntersectionFixed a b then (if a = [] ∧ b = [] then some true else none) else some false := by
  induction a, b using haveEmptyIntersection.induct with
  | case1 => simp [haveEmptyIntersection, haveEmptyIntersectionFixed]
  | case2 y ys => simp [haveEmptyIntersection, haveEmptyIntersectionFixed]
  | case3 x xs => simp [haveEmptyIntersection, haveEmptyIntersectionFixed]
  | case4 x xs y ys hxy =>
    rw [haveEmptyIntersection, haveEmptyIntersectionFixed, if_pos hxy, if_pos hxy]; simp
  | case5 x xs y ys hne hlt ih =>
    rw [haveEmptyIntersection, haveEmptyIntersectionFixed, if_neg hne, if_neg hne, if_pos hlt, if_pos hlt, ih]
    simp
  | case6 x xs y ys hne hlt ih =>
    rw [haveEmptyIntersection, haveEmptyIntersectionFixed, if_neg hne, if_neg hne, if_neg hlt, if_neg hlt, ih]
    simp

/-- the defect of the real member function: for two objects satisfying the invariant whose sets are disjoint and not
both empty, `HaveEmptyIntersection` reads past the end of a vector -/
theorem haveEmptyIntersection_reads_past_end {a b : Vec} (ha : Sorted a) (hb : Sorted b)
    (hdisj : ∀ x ∈ a, ¬ x ∈ b) (hne : ¬ (a = [] ∧ b = [])) : haveEmptyIntersection a b = none := by
  rw [haveEmptyIntersection_eq, (haveEmptyIntersectionFixed_iff a b ha hb).2 hdisj]
  simp [hne]

/-- where it returns at all, its answer is right -/
theorem haveEmptyIntersection_some {a b : Vec} (ha : Sorted a) (hb : Sorted b) {r : Bool}
    (h : haveEmptyIntersection a b = some r) : (r = true ↔ ∀ x ∈ a, ¬ x ∈ b) := by
  rw [haveEmptyIntersection_eq] at h
  rw [← haveEmptyIntersectionFixed_iff a b ha hb]
  cases hf : haveEmptyIntersectionFixed a b <;> rw [hf] at h
  · simp at h; simp [← h]
  · simp only [if_true] at h
    split at h
    · cases h; simp
    · cases h

/-! ## iteration, `ToVector`, `size`, `empty` -/

/-- an iteration from `begin()` to `end()` yields the elements in strictly increasing order, each element of the set
exactly once and nothing else -/
theorem iterate_spec {v : Vec} (h : Sorted v) :
    (iterate v).Pairwise (· < ·) ∧ (iterate v).Nodup ∧ (∀ x, x ∈ iterate v ↔ abs v x) ∧
      ∀ x, (iterate v).count x = if x ∈ v then 1 else 0 := by
  have hnd : v.Nodup := h.imp (fun h => Nat.ne_of_lt h)
  refine ⟨h, hnd, fun _ => Iff.rfl, ?_⟩
  intro x
  unfold iterate
  by_cases hx : x ∈ v
  · rw [if_pos hx]
    have h1 : v.count x ≤ 1 := List.nodup_iff_count.1 hnd x
    have h2 : 0 < v.count x := List.count_pos_iff.2 hx
    omega
  · rw [if_neg hx]; exact List.count_eq_zero.2 hx

theorem toVector_eq_iterate (v : Vec) : toVector v = iterate v := rfl
theorem size_eq (v : Vec) : size v = (iterate v).length := rfl
theorem empty_iff (v : Vec) : empty v = true ↔ ∀ x, ¬ x ∈ v := by
  cases v with
  | nil => simp [empty]
  | cons x r => simp only [empty, List.isEmpty_cons, Bool.false_eq_true, false_iff]; intro h; exact h x List.mem_cons_self

/-! ## `hash_value` is compatible with `operator==` -/

theorem hashValue_congr {a b : Vec} (h : eq a b = true) : hashValue a = hashValue b := by
  rw [(eq_iff a b).1 h]

/-- equal sets hash equally (needed for the use as a key of `std::unordered_map`) -/
theorem hashValue_ext {a b : Vec} (ha : Sorted a) (hb : Sorted b) (h : ∀ x, x ∈ a ↔ x ∈ b) :
    hashValue a = hashValue b := by
  rw [sorted_ext ha hb h]

/-! ## histories: the objects behave as finite sets

The abstract machine keeps, for every object, an arbitrary list read as a SET (order and multiplicity carry no meaning:
`insert` conses, `Union` appends); its observations are defined from membership alone (`enum` lists the members of the set
in increasing order by filtering an initial segment of the naturals – no sorting algorithm involved). -/

/-- the members of a set in increasing order -/
def enum (a : ASet) : List Nat := (List.range (a.foldr max 0 + 1)).filter (fun x => decide (x ∈ a))

def aObserve (q : List ASet) : Query → Ans
  | .size i => .nat (enum (q.getD i [])).length
  | .empty i => .bool (q.getD i []).isEmpty
  | .iterate i => .list (enum (q.getD i []))
  | .toVector i => .list (enum (q.getD i []))
  | .find i x => .optNat (if x ∈ q.getD i [] then some ((enum (q.getD i [])).filter (· < x)).length else none)
  | .eq i j => .bool (decide ((∀ x ∈ q.getD i [], x ∈ q.getD j []) ∧ (∀ x ∈ q.getD j [], x ∈ q.getD i [])))
  | .lt i j => .bool (decide (enum (q.getD i []) < enum (q.getD j [])))
  | .isSubsetOf i j => .bool (decide (∀ x ∈ q.getD i [], x ∈ q.getD j []))
  | .haveEmptyIntersection i j =>
    .optBool (if ∀ x ∈ q.getD i [], ¬ x ∈ q.getD j [] then
      (if q.getD i [] = [] ∧ q.getD j [] = [] then some true else none) else some false)
  | .haveEmptyIntersectionFixed i j => .bool (decide (∀ x ∈ q.getD i [], ¬ x ∈ q.getD j []))
  | .hash i => .u64 (hashValue (enum (q.getD i [])))
  | .str i => .str (toStr (enum (q.getD i [])))

/-- the simulation relation on one object: invariant + same members -/
def Rel (c : Vec) (a : ASet) : Prop := Sorted c ∧ ∀ x, x ∈ c ↔ x ∈ a

def PoolRel (p : Pool) (q : List ASet) : Prop := p.length = q.length ∧ ∀ i, Rel (p.at i) (q.getD i [])

theorem le_foldr_max : ∀ (a : ASet) (x : Nat), x ∈ a → x ≤ a.foldr max 0
  | y :: r, x, h => by
    rw [List.foldr_cons]
    rcases List.mem_cons.1 h with e | h
    · subst e; exact Nat.le_max_left _ _
    · exact Nat.le_trans (le_foldr_max r x h) (Nat.le_max_right _ _)

theorem enum_spec (a : ASet) : Rel (enum a) a := by
  constructor
  · exact List.Pairwise.filter _ List.pairwise_lt_range
  · intro x
    unfold enum
    rw [List.mem_filter, List.mem_range]
    constructor
    · intro h; simpa using h.2
    · intro h; exact ⟨Nat.lt_succ_of_le (le_foldr_max a x h), by simpa using h⟩

theorem strictIncB_iff : ∀ v : Vec, strictIncB v = true ↔ Sorted v
  | [] => by simp [strictIncB, sorted_nil]
  | [x] => by simp [strictIncB, sorted_single]
  | x :: y :: r => by
    have ih := strictIncB_iff (y :: r)
    have e : strictIncB (x :: y :: r) = (decide (x < y) && strictIncB (y :: r)) := rfl
    rw [sorted_cons_cons, ← ih, e]
    simp

/-- the driver's Boolean check of a read-back iteration is exactly "`c` is the increasing enumeration of the set `a`" -/
theorem isEnumOf_iff (c : List Nat) (a : ASet) : isEnumOf c a = true ↔ c = enum a := by
  unfold isEnumOf
  simp only [Bool.and_eq_true, strictIncB_iff, List.all_eq_true, List.contains_iff_mem]
  constructor
  · intro ⟨⟨h1, h2⟩, h3⟩
    exact sorted_ext h1 (enum_spec a).1 (fun x => ⟨fun hx => ((enum_spec a).2 x).2 (h2 x hx),
      fun hx => h3 x (((enum_spec a).2 x).1 hx)⟩)
  · intro e
    subst e
    exact ⟨⟨(enum_spec a).1, fun x hx => ((enum_spec a).2 x).1 hx⟩, fun x hx => ((enum_spec a).2 x).2 hx⟩

/-- the concrete vector IS the increasing enumeration of the abstract set -/
theorem rel_enum {c : Vec} {a : ASet} (h : Rel c a) : c = enum a :=
  sorted_ext h.1 (enum_spec a).1 (fun x => (h.2 x).trans ((enum_spec a).2 x).symm)

theorem rel_nil : Rel [] [] := ⟨sorted_nil, fun _ => Iff.rfl⟩

theorem at_append_lt {α} (p : List (List α)) (c : List α) {i : Nat} (h : i < p.length) :
    (p ++ [c]).getD i [] = p.getD i [] := by
  simp [List.getD, List.getElem?_append_left h]

theorem at_append_eq {α} (p : List (List α)) (c : List α) : (p ++ [c]).getD p.length [] = c := by
  simp [List.getD]

theorem at_append_gt {α} (p : List (List α)) (c : List α) {i : Nat} (h : p.length < i) :
    (p ++ [c]).getD i [] = [] ∧ p.getD i [] = [] := by
  constructor
  · have : (p ++ [c])[i]? = none := List.getElem?_eq_none (by simp; omega)
    simp [List.getD, this]
  · have : p[i]? = none := List.getElem?_eq_none (by omega)
    simp [List.getD, this]

theorem poolRel_append {p : Pool} {q : List ASet} (h : PoolRel p q) {c : Vec} {a : ASet} (hr : Rel c a) :
    PoolRel (p ++ [c]) (q ++ [a]) := by
  refine ⟨by simp [h.1], ?_⟩
  intro i
  unfold Pool.at
  rcases Nat.lt_trichotomy i p.length with hi | hi | hi
  · rw [at_append_lt p c hi, at_append_lt q a (h.1 ▸ hi)]; exact h.2 i
  · subst hi
    rw [at_append_eq p c, h.1, at_append_eq q a]; exact hr
  · rw [(at_append_gt p c hi).1, (at_append_gt q a (h.1 ▸ hi)).1]; exact rel_nil

theorem at_set {α} (p : List (List α)) (i k : Nat) (c : List α) :
    (p.set i c).getD k [] = if i = k ∧ i < p.length then c else p.getD k [] := by
  simp only [List.getD, List.getElem?_set]
  by_cases h1 : i = k
  · subst h1
    by_cases h2 : i < p.length
    · simp [h2]
    · simp [h2]
  · simp [h1]

theorem poolRel_set {p : Pool} {q : List ASet} (h : PoolRel p q) (i : Nat) {c : Vec} {a : ASet} (hr : Rel c a) :
    PoolRel (p.set i c) (q.set i a) := by
  refine ⟨by simp [h.1], ?_⟩
  intro k
  unfold Pool.at
  rw [at_set, at_set, ← h.1]
  split
  · exact hr
  · exact h.2 k

/-- one operation keeps the simulation -/
theorem step_rel {p : Pool} {q : List ASet} (h : PoolRel p q) (op : Op) : PoolRel (step p op) (aStep q op) := by
  cases op with
  | mkEmpty => exact poolRel_append h rel_nil
  | mkVector l => exact poolRel_append h ⟨ofVector_sorted l, fun _ => mem_ofVector⟩
  | mkInitList l => exact poolRel_append h ⟨ofInitList_sorted l, fun _ => mem_ofInitList⟩
  | mkKey x => exact poolRel_append h ⟨ofKey_sorted x, fun y => by simp [ofKey]⟩
  | mkRange l => exact poolRel_append h ⟨ofRange_sorted l, fun _ => mem_ofRange⟩
  | copy i => exact poolRel_append h (h.2 i)
  | assign i j =>
    apply poolRel_set h i
    have : assign (i == j) (p.at i) (p.at j) = p.at j := by
      apply assign_eq
      intro e
      have : i = j := by simpa using e
      rw [this]
    rw [this]
    exact h.2 j
  | insert i x =>
    apply poolRel_set h i
    have hi := h.2 i
    refine ⟨insert_sorted hi.1 x, ?_⟩
    intro z
    rw [mem_insert hi.1, List.mem_cons, hi.2 z]
  | insertAll i j =>
    apply poolRel_set h i
    refine ⟨insertAll_sorted _ _, ?_⟩
    intro z
    rw [mem_insertAll, List.mem_append, (h.2 i).2 z, (h.2 j).2 z]
  | union i j =>
    apply poolRel_append h
    refine ⟨union_sorted _ _, ?_⟩
    intro z
    rw [mem_union, List.mem_append, (h.2 i).2 z, (h.2 j).2 z]
  | clear i => exact poolRel_set h i rel_nil

theorem foldl_rel (ops : List Op) : ∀ {p : Pool} {q : List ASet}, PoolRel p q →
    PoolRel (ops.foldl step p) (ops.foldl aStep q) := by
  induction ops with
  | nil => intro p q h; exact h
  | cons op r ih => intro p q h; exact ih (step_rel h op)

/-- HISTORY THEOREM (1): after any sequence of operations, starting from nothing, the objects of the model and the abstract
sets correspond -/
theorem history_rel (ops : List Op) : PoolRel (run ops) (aRun ops) :=
  foldl_rel ops ⟨rfl, fun i => by simp [Pool.at]; exact rel_nil⟩

/-- HISTORY THEOREM (2): every live object satisfies the representation invariant -/
theorem history_invariant (ops : List Op) : ∀ v ∈ run ops, Sorted v := by
  intro v hv
  obtain ⟨i, hi⟩ := List.mem_iff_getElem?.1 hv
  have := (history_rel ops).2 i
  unfold Pool.at at this
  simp only [List.getD, hi, Option.getD_some] at this
  exact this.1

/-- observations of related pools agree -/
theorem observe_rel {p : Pool} {q : List ASet} (h : PoolRel p q) (qu : Query) : observe p qu = aObserve q qu := by
  cases qu with
  | size i => simp only [observe, aObserve, size]; rw [rel_enum (h.2 i)]
  | empty i =>
    simp only [observe, aObserve, empty]
    have hi := (h.2 i).2
    congr 1
    cases hc : p.at i with
    | nil =>
      cases ha : q.getD i [] with
      | nil => rfl
      | cons y r => rw [hc, ha] at hi; exact absurd ((hi y).2 List.mem_cons_self) (by simp)
    | cons x r =>
      cases ha : q.getD i [] with
      | nil => rw [hc, ha] at hi; exact absurd ((hi x).1 List.mem_cons_self) (by simp)
      | cons y r' => rfl
  | iterate i => simp only [observe, aObserve, iterate]; rw [rel_enum (h.2 i)]
  | toVector i => simp only [observe, aObserve, toVector]; rw [rel_enum (h.2 i)]
  | find i x =>
    simp only [observe, aObserve]
    congr 1
    have hi := h.2 i
    by_cases hx : x ∈ q.getD i []
    · rw [if_pos hx]
      have hx' : x ∈ p.at i := (hi.2 x).2 hx
      cases hf : find (p.at i) x with
      | none => exact absurd hx' ((find_none_iff hi.1).1 hf)
      | some k => rw [find_rank hi.1 hf, ← rel_enum hi]
    · rw [if_neg hx]
      exact (find_none_iff hi.1).2 (fun h' => hx ((hi.2 x).1 h'))
  | eq i j =>
    simp only [observe, aObserve]
    congr 1
    have hi := h.2 i
    have hj := h.2 j
    rw [Bool.eq_iff_iff, eq_iff_ext hi.1 hj.1, decide_eq_true_iff]
    constructor
    · intro h'
      exact ⟨fun x hx => (hj.2 x).1 ((h' x).1 ((hi.2 x).2 hx)), fun x hx => (hi.2 x).1 ((h' x).2 ((hj.2 x).2 hx))⟩
    · intro h' x
      exact ⟨fun hx => (hj.2 x).2 (h'.1 x ((hi.2 x).1 hx)), fun hx => (hi.2 x).2 (h'.2 x ((hj.2 x).1 hx))⟩
  | lt i j =>
    simp only [observe, aObserve]
    congr 1
    rw [Bool.eq_iff_iff, lt_iff, decide_eq_true_iff, rel_enum (h.2 i), rel_enum (h.2 j)]
  | isSubsetOf i j =>
    simp only [observe, aObserve]
    congr 1
    have hi := h.2 i
    have hj := h.2 j
    rw [Bool.eq_iff_iff, isSubsetOf_iff hi.1 hj.1, decide_eq_true_iff]
    constructor
    · intro h' x hx; exact (hj.2 x).1 (h' x ((hi.2 x).2 hx))
    · intro h' x hx; exact (hj.2 x).2 (h' x ((hi.2 x).1 hx))
  | haveEmptyIntersection i j =>
    simp only [observe, aObserve]
    congr 1
    have hi := h.2 i
    have hj := h.2 j
    have hd : (haveEmptyIntersectionFixed (p.at i) (p.at j) = true) ↔ ∀ x ∈ q.getD i [], ¬ x ∈ q.getD j [] := by
      rw [haveEmptyIntersectionFixed_iff _ _ hi.1 hj.1]
      constructor
      · intro h' x hx hm; exact h' x ((hi.2 x).2 hx) ((hj.2 x).2 hm)
      · intro h' x hx hm; exact h' x ((hi.2 x).1 hx) ((hj.2 x).1 hm)
    have hnil : ∀ {c : Vec} {a : ASet}, Rel c a → (c = [] ↔ a = []) := by
      intro c a hr
      constructor
      · intro e; subst e
        cases a with
        | nil => rfl
        | cons y r => exact absurd ((hr.2 y).2 List.mem_cons_self) (by simp)
      · intro e; subst e
        cases c with
        | nil => rfl
        | cons y r => exact absurd ((hr.2 y).1 List.mem_cons_self) (by simp)
    rw [haveEmptyIntersection_eq]
    by_cases hdis : ∀ x ∈ q.getD i [], ¬ x ∈ q.getD j []
    · rw [if_pos (hd.2 hdis), if_pos hdis]
      by_cases he : q.getD i [] = [] ∧ q.getD j [] = []
      · rw [if_pos he, if_pos ⟨(hnil hi).2 he.1, (hnil hj).2 he.2⟩]
      · rw [if_neg he, if_neg (fun h' => he ⟨(hnil hi).1 h'.1, (hnil hj).1 h'.2⟩)]
    · have : ¬ haveEmptyIntersectionFixed (p.at i) (p.at j) = true := fun h' => hdis (hd.1 h')
      rw [if_neg this, if_neg hdis]
  | haveEmptyIntersectionFixed i j =>
    simp only [observe, aObserve]
    congr 1
    have hi := h.2 i
    have hj := h.2 j
    rw [Bool.eq_iff_iff, haveEmptyIntersectionFixed_iff _ _ hi.1 hj.1, decide_eq_true_iff]
    constructor
    · intro h' x hx hm; exact h' x ((hi.2 x).2 hx) ((hj.2 x).2 hm)
    · intro h' x hx hm; exact h' x ((hi.2 x).1 hx) ((hj.2 x).1 hm)
  | hash i => simp only [observe, aObserve]; rw [rel_enum (h.2 i)]
  | str i => simp only [observe, aObserve]; rw [rel_enum (h.2 i)]

/-- HISTORY THEOREM (3): after any sequence of operations every observation of the objects (sizes, iteration order,
`find`, the comparisons, `IsSubsetOf`, `HaveEmptyIntersection` – as coded and as intended –, hash, printed form) equals the
observation of the abstract finite sets -/
theorem history_observe (ops : List Op) (qu : Query) : observe (run ops) qu = aObserve (aRun ops) qu :=
  observe_rel (history_rel ops) qu

/-! ## non-vacuity: concrete inputs satisfying the hypotheses of the theorems above, and what the model computes on them -/
namespace Ex

-- invariant / extensionality (`sorted_ext`, `vectorIsSorted_iff`)
example : Sorted [1, 3, 5] := by decide
example : vectorIsSorted [1, 3, 3] = false := by decide
example : ¬ Sorted [1, 3, 3] := by decide
-- constructors (`ofVector_sorted`, `mem_ofVector`, `stdSort_unique`): unsorted input with duplicates
example : ofVector [5, 1, 3, 1, 5, 5] = [1, 3, 5] := by decide
example : ([1, 1, 3, 5, 5, 5] : List Nat).Perm [5, 1, 3, 1, 5, 5] ∧ ([1, 1, 3, 5, 5, 5] : List Nat).Pairwise (· ≤ ·) := by decide
example : ofKey 4 = [4] ∧ (mkEmpty : Vec) = [] := by decide
-- `insert_spec`: all four paths of `insert` (push_back, found, middle, front)
example : insert [1, 3, 5] 7 = [1, 3, 5, 7] := by decide
example : insert [1, 3, 5] 3 = [1, 3, 5] := by decide
example : insert [1, 3, 5] 4 = [1, 3, 4, 5] := by decide
example : insert [1, 3, 5] 0 = [0, 1, 3, 5] := by decide
example : insert [] 2 = [2] := by decide
-- `bsearch_pos` hypotheses, `insertAt_eq`
example : bsearch 3 [1, 3, 5] 4 0 3 = .pos 2 := by decide
example : (copyBackward ([1, 3, 5] ++ [0]) 1 3).set 1 2 = [1, 2, 3, 5] := by decide
-- `find_some`, `find_none_iff`, `find_rank`
example : find [1, 3, 5] 5 = some 2 ∧ find [1, 3, 5] 4 = none := by decide
-- `union_sorted`, `mem_union`, `union_eq_loop`
example : unionLoop [1, 3] [2, 3] = [1, 2, 3] := by simp [unionLoop]
example : union [1, 3] [2, 3] = [1, 2, 3] := by
  simp [union, unionLoop, ofVector, stdSort, insSorted, stdUnique, uniqueAux]
-- `eq_iff_ext`, `lt_*`, `isSubsetOf_iff`
example : eq [1, 3] [1, 3] = true ∧ eq [1, 3] [1, 4] = false ∧ eq [1] [1, 4] = false := by decide
example : lt [1, 3] [2] = true ∧ lt [1] [1, 2] = true ∧ lt [2] [1, 3] = false := by decide
example : isSubsetOf [3] [1, 3] = true ∧ isSubsetOf [2] [1, 3] = false ∧ isSubsetOf [] [] = true := by decide
-- `haveEmptyIntersection_eq`, `haveEmptyIntersection_reads_past_end`: hypotheses hold for ([1], [2])
example : Sorted [1] ∧ Sorted [2] ∧ (∀ x ∈ [1], ¬ x ∈ [2]) ∧ ¬ (([1] : Vec) = [] ∧ ([2] : Vec) = []) := by decide
example : haveEmptyIntersection [1] [2] = none := by simp [haveEmptyIntersection]
example : haveEmptyIntersection [] [2] = none := by simp [haveEmptyIntersection]
example : haveEmptyIntersection [1, 3] [2, 3] = some false := by simp [haveEmptyIntersection]
example : haveEmptyIntersection [] [] = some true := by simp [haveEmptyIntersection]
example : haveEmptyIntersectionFixed [1] [2] = true := by simp [haveEmptyIntersectionFixed]
-- `iterate_spec`
example : (iterate [1, 3, 5]).count 3 = 1 ∧ (iterate [1, 3, 5]).count 2 = 0 := by decide
-- printed form
example : toStr [1, 3] = "{ 1, 3}" ∧ toStr [] = "{}" := by decide
-- histories (`history_rel`, `history_invariant`, `history_observe`): a run through constructors and mutators
example : run [.mkVector [3, 1, 2, 3], .mkKey 7, .insert 0 0, .copy 0, .clear 1, .assign 1 0, .insert 1 9]
    = [[0, 1, 2, 3], [0, 1, 2, 3, 9], [0, 1, 2, 3]] := by decide
example : aRun [.mkVector [3, 1, 2, 3], .mkKey 7, .insert 0 0, .copy 0, .clear 1, .assign 1 0, .insert 1 9]
    = [[0, 3, 1, 2, 3], [9, 0, 3, 1, 2, 3], [0, 3, 1, 2, 3]] := by decide
example : enum [9, 0, 3, 1, 2, 3] = [0, 1, 2, 3, 9] := by decide

end Ex

end Vata.OrdVec
