import Vata.Proofs.LtsEngineCalls2SLRun
/-!
# The `SharedList` call discipline: `processRemove`, `init`, the whole run
-/
namespace Vata.LEC2
open Vata.L Vata.LE Vata.LU Vata.LEC

/-! ### `processRemove` -/

theorem processRemoveJ_eq (L : LTS) (e : Eng) (t : Tr2) (b a : Nat) (rest : List (Nat × Nat))
    (remove : RemList) (hr : e.remv b a = some remove) :
    processRemoveJ L ({ e with queue := rest }, t) b a =
      (buildPre L (popState e b a rest) b a).foldl
        (pruneRowJ L (splitJ L (popState e b a rest, t.addSL [SL.Op.take (slot L b a)]) (flat remove)).1.2)
        ((splitJ L (popState e b a rest, t.addSL [SL.Op.take (slot L b a)]) (flat remove)).1.1,
         (splitJ L (popState e b a rest, t.addSL [SL.Op.take (slot L b a)]) (flat remove)).2.addSL [SL.Op.release]) := by
  have h : ({ e with queue := rest } : Eng).remv b a = some remove := hr
  unfold processRemoveJ
  simp only [h]
  rfl

theorem processRemoveJ_good {L : LTS} {S I : Nat → Nat → Prop} (hL : LtsOK L) {e : Eng} {t : Tr2} {b a : Nat}
    {rest : List (Nat × Nat)} (inv : Inv L S I e) (hq : e.queue = (b, a) :: rest) (g : G L e t false) :
    G L (processRemoveJ L ({ e with queue := rest }, t) b a).1 (processRemoveJ L ({ e with queue := rest }, t) b a).2 false := by
  have hb : b < e.part.length := inv.qk.hlt b a (by rw [hq]; exact List.mem_cons_self)
  have hsome : (e.remv b a).isSome = true := (inv.qk.hiff b a).mpr (by rw [hq]; exact List.mem_cons_self)
  obtain ⟨remove, hr⟩ := Option.isSome_iff_exists.mp hsome
  obtain ⟨w0, qk0, _, _⟩ := popState_facts hL inv hq hr
  have hrmN := inv.sem.hN b a hb
  rw [slotL_some hr] at hrmN
  rw [processRemoveJ_eq L e t b a rest remove hr]
  have g1 : G L (popState e b a rest) (t.addSL [SL.Op.take (slot L b a)]) true :=
    take_good g inv.wf.len_le rfl hsome (fun i a' => by rw [remv_eq]; exact rget_setRem _ _ _ _ _ _)
  have g2 := splitJ_good (et := (popState e b a rest, t.addSL [SL.Op.take (slot L b a)])) w0 qk0 hrmN.2 hrmN.1 g1
  obtain ⟨par, res, _, _, _⟩ := split_spec' w0 qk0 hrmN.2 hrmN.1
  have w1 : WF L (splitJ L (popState e b a rest, t.addSL [SL.Op.take (slot L b a)]) (flat remove)).1.1 := by
    rw [splitJ_fst]; exact res.wf
  have g3 := release_good g2
  exact (pruneJ_fr w1.len_le (wf_ins_bound w1) _ _ _ ⟨g3, rfl, rfl⟩).g

theorem stepOnceJ_good {L : LTS} {S I : Nat → Nat → Prop} (hL : LtsOK L) {et : JE} (inv : Inv L S I et.1)
    (g : G L et.1 et.2 false) : G L (stepOnceJ L et).1 (stepOnceJ L et).2 false := by
  unfold stepOnceJ
  cases hq : et.1.queue with
  | nil => exact g
  | cons k rest =>
    obtain ⟨b, a⟩ := k
    exact processRemoveJ_good hL inv hq g

/-! ### `init` -/

/-- the state inside "initialize counters": partition and insets are those of `e0`, the handles in `S` are still null -/
structure IInv (L : LTS) (e0 : Eng) (S : Nat → Nat → Prop) (et : JE) : Prop where
  g : G L et.1 et.2 false
  hp : et.1.part = e0.part
  hi : et.1.inset = e0.inset
  hS : ∀ i a, S i a → et.1.remv i a = none

theorem initSlotJ_good {L : LTS} {e0 : Eng} (w : WF L e0) {b1 a : Nat} (et : JE) (hp : et.1.part = e0.part)
    (_hi : et.1.inset = e0.inset) (hb1 : b1 < e0.part.length) (ha : a ∈ e0.ins b1) (g : G L et.1 et.2 false)
    (hnone : et.1.remv b1 a = none) :
    G L (initSlotJ L b1 et a).1 (initSlotJ L b1 et a).2 false ∧
      (∀ i a', ¬ (i = b1 ∧ a' = a) → (initSlotJ L b1 et a).1.remv i a' = et.1.remv i a') := by
  obtain ⟨h1, _, _, h4, _, _, _⟩ := initCnt_fold L et.1 b1 a (delta1 L a) et.1 rfl rfl
  have hfold : (delta1 L a).foldl (fun (e : Eng) q =>
      let c := initCount L e b1 a q
      if c == 0 then e else { e with cnt := setCnt e.cnt b1 a q c }) et.1 = (delta1 L a).foldl (cntStep L b1 a) et.1 := rfl
  have hal : a < labels L := w.ins_lt hb1 ha
  have hb1' : b1 < et.1.part.length := by rw [hp]; exact hb1
  have hn : et.1.part.length ≤ L.n := by rw [hp]; exact w.len_le
  unfold initSlotJ initSlot
  simp only []
  rw [hfold]
  generalize (delta1 L a).foldl (cntStep L b1 a) et.1 = e1 at h1 h4
  have hrem1 : ∀ i a', e1.remv i a' = et.1.remv i a' := fun i a' => by simp only [Eng.remv, h4]
  have g0 : G L et.1 (et.2.addSC (((delta1 L a).filter (fun q => initCount L et.1 b1 a q != 0)).map
      (fun q => SC.Op.set b1 a q (initCount L et.1 b1 a q)))) false := g.congr rfl rfl rfl
  by_cases hs : (initRemove L e1 b1 a).isEmpty = true
  · simp only [hs, if_true]
    refine ⟨(g0.congr h4 (by rw [h1]) rfl).congr rfl rfl (by simp [Tr2.addSL]), fun i a' _ => hrem1 i a'⟩
  · have hsf : (initRemove L e1 b1 a).isEmpty = false := by simpa using hs
    simp only [hsf, Bool.false_eq_true, if_false]
    have hr : ∀ (e' : Eng), e'.rem = setRem e1.rem b1 a (some [(e1.nextId, initRemove L e1 b1 a)]) → ∀ i a',
        e'.remv i a' = if i = b1 ∧ a' = a then some [(e1.nextId, initRemove L e1 b1 a)] else et.1.remv i a' := by
      intro e' he' i a'
      rw [← hrem1, remv_eq, remv_eq, he']
      exact rget_setRem _ _ _ _ _ _
    refine ⟨newList_good g0 hb1' hn hal h1 hnone hsf (hr _ rfl), ?_⟩
    intro i a' hk
    rw [hr _ rfl, if_neg hk]

theorem initInner {L : LTS} {e0 : Eng} (w : WF L e0) {b1 : Nat} (hb1 : b1 < e0.part.length) (S : Nat → Nat → Prop)
    (hS1 : ∀ a, ¬ S b1 a) : ∀ (as : List Nat) (et : JE), as.Nodup → (∀ a, a ∈ as → a ∈ e0.ins b1) →
      IInv L e0 (fun i a => (i = b1 ∧ a ∈ as) ∨ S i a) et → IInv L e0 S (as.foldl (initSlotJ L b1) et)
  | [], et, _, _, h => ⟨h.g, h.hp, h.hi, fun i a hs => h.hS i a (Or.inr hs)⟩
  | a :: as, et, hnd, hin, h => by
    have hnd' := List.nodup_cons.mp hnd
    obtain ⟨g1, r1⟩ := initSlotJ_good w et h.hp h.hi hb1 (hin a List.mem_cons_self) h.g
      (h.hS b1 a (Or.inl ⟨rfl, List.mem_cons_self⟩))
    obtain ⟨f1, _, f3⟩ := initSlot_frame L b1 et.1 a
    refine initInner w hb1 S hS1 as _ hnd'.2 (fun x hx => hin x (List.mem_cons_of_mem _ hx))
      ⟨g1, f1.trans h.hp, f3.trans h.hi, ?_⟩
    intro i a' hs
    have hne : ¬ (i = b1 ∧ a' = a) := by
      rintro ⟨e1, e2⟩
      rcases hs with ⟨_, hm⟩ | hs
      · exact hnd'.1 (e2 ▸ hm)
      · exact hS1 a' (e1 ▸ hs)
    rw [r1 i a' hne]
    apply h.hS
    rcases hs with ⟨e1, hm⟩ | hs
    · exact Or.inl ⟨e1, List.mem_cons_of_mem _ hm⟩
    · exact Or.inr hs

theorem initOuter {L : LTS} (cfg : SC.Cfg) {e0 : Eng} (w : WF L e0) : ∀ (bs : List Nat) (et : JE), bs.Nodup →
    (∀ b, b ∈ bs → b < e0.part.length) → IInv L e0 (fun i _ => i ∈ bs) et →
    IInv L e0 (fun _ _ => False) (bs.foldl (fun (et : JE) b1 =>
      let r := (et.1.ins b1).foldl (initSlotJ L b1) (et.1, et.2.addSC [SC.Op.resize b1 (resizeArg cfg (et.1.ins b1))])
      (r.1, r.2.addSC [SC.Op.init b1])) et)
  | [], et, _, _, h => ⟨h.g, h.hp, h.hi, fun _ _ hf => by cases hf⟩
  | b1 :: bs, et, hnd, hlt, h => by
    have hnd' := List.nodup_cons.mp hnd
    have hb1 := hlt b1 List.mem_cons_self
    have hins : et.1.ins b1 = e0.ins b1 := by simp only [Eng.ins, h.hi]
    simp only [List.foldl_cons]
    have hinner := initInner w hb1 (fun i _ => i ∈ bs) (fun _ => hnd'.1) (et.1.ins b1)
      (et.1, et.2.addSC [SC.Op.resize b1 (resizeArg cfg (et.1.ins b1))])
      (by rw [hins]; exact (w.hinset b1 hb1).1.1) (fun a ha => by rw [← hins]; exact ha)
      ⟨h.g.congr rfl rfl rfl, h.hp, h.hi, fun i a hs => h.hS i a (by
        rcases hs with ⟨e1, _⟩ | hs
        · rw [e1]; exact List.mem_cons_self
        · exact List.mem_cons_of_mem _ hs)⟩
    exact initOuter cfg w bs _ hnd'.2 (fun b hb => hlt b (List.mem_cons_of_mem _ hb))
      ⟨hinner.g.congr rfl rfl rfl, hinner.hp, hinner.hi, hinner.hS⟩

theorem initRefineJ_sl (L : LTS) (et : JE) : (initRefineJ L et).2.sl = et.2.sl := by
  unfold initRefineJ
  refine foldl_inv (fun s : JE => s.2.sl = et.2.sl) _ _ _ ?_ rfl
  intro s a _ hs
  unfold fastSplitJ
  refine foldl_inv (fun s' : JE => s'.2.sl = et.2.sl) _ _ _ ?_ hs
  intro s' b _ hs'
  unfold fastSplitStepJ
  split
  · exact hs'
  · exact hs'

theorem mk0_sh (n s : Nat) : sh (SL.A.mk0 n) s = false := by
  unfold sh SL.A.mk0
  simp only [List.getD_eq_getElem?_getD]
  cases h : (List.replicate n (none : Option SL.RemList))[s]? with
  | none => rfl
  | some x =>
    have := List.mem_of_getElem? h
    rw [List.mem_replicate] at this
    rw [this.2]; rfl

theorem init_goodJ {L : LTS} (cfg : SC.Cfg) {part : List (List Nat)} {rel : Rel}
    (hp : isPartition part L.n = true) (hc : isConsistent part rel = true) :
    G L (engineInitJ L cfg part rel).1 (engineInitJ L cfg part rel).2 false := by
  have wA := initBlocks_wf (L := L) hp hc
  obtain ⟨parB, wB, rB, uB, tc, tr, tq, _⟩ := initRefine_spec wA
  have wC := initPrune_wf wB uB
  unfold engineInitJ
  simp only []
  have h1 : (initRefineJ L (initBlocksJ L part rel Tr2.empty)).1 = initRefine L (initBlocks L part rel) := by
    rw [initRefineJ_fst]; rfl
  have h2 : (initRefineJ L (initBlocksJ L part rel Tr2.empty)).2.sl = [] := by
    rw [initRefineJ_sl]; rfl
  rw [h1]
  generalize (initRefineJ L (initBlocksJ L part rel Tr2.empty)).2 = t1 at h2
  have hrem : (initPrune L (initRefine L (initBlocks L part rel))).rem = [] := by
    show (initRefine L (initBlocks L part rel)).rem = []
    rw [tr]; rfl
  generalize initPrune L (initRefine L (initBlocks L part rel)) = eC at wC hrem
  have hnone : ∀ i a, eC.remv i a = none := fun i a => by
    rw [remv_eq, hrem]; simp [rget]
  have g0 : G L eC t1 false := by
    unfold G
    rw [h2]
    refine ⟨rfl, ⟨by simp [SL.aRun, SL.A.mk0], rfl, ?_, ?_⟩⟩
    · intro b a _ _
      rw [hnone]; exact mk0_sh _ _
    · intro b a hs
      rw [hnone] at hs; cases hs
  unfold initCountersJ
  exact (initOuter cfg wC (List.range eC.part.length) (eC, t1) List.nodup_range
    (fun b hb => List.mem_range.mp hb) ⟨g0, rfl, rfl, fun i a _ => hnone i a⟩).g

/-! ### the whole run -/

theorem stateAfterJ_good {L : LTS} (hL : LtsOK L) (cfg : SC.Cfg) {part : List (List Nat)} {rel : Rel}
    (hp : isPartition part L.n = true) (hc : isConsistent part rel = true) (htr : RelTrans part rel) :
    ∀ k, G L (stateAfterJ L cfg part rel k).1 (stateAfterJ L cfg part rel k).2 false
  | 0 => init_goodJ cfg hp hc
  | k + 1 => by
    have inv := engine_invariant_always hL hp hc htr k
    rw [← stateAfterJ_fst L cfg] at inv
    exact stepOnceJ_good hL inv (stateAfterJ_good hL cfg hp hc htr k)

end Vata.LEC2
