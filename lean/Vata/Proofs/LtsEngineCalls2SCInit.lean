import Vata.Proofs.LtsEngineCalls2SCRun
/-!
# The `SharedCounter` call discipline along `init`: constructors, `resize`, `set`, `init()`

Phases: all counters are `fresh` after `makeBlock` / the initial refinement (`SC.Op.new`, `SC.Op.copyCtor`); "initialize
counters" takes block after block through `resize` (→ `filling`), the `set`s of every label of its inset, and `init()`
(→ `running`).
-/
namespace Vata.LEC2
open Vata.L Vata.LE Vata.LU Vata.LEC

abbrev freshA : SC.A := ⟨0, [], .fresh⟩

/-- all counters constructed, none resized -/
abbrev allFresh : Nat → SC.Phase := fun _ => .fresh

/-- "initialize counters", outer loop: the blocks in `bs` are still to be done -/
def phO (bs : List Nat) : Nat → SC.Phase := fun i => if i ∈ bs then .fresh else .running

/-- "initialize counters", inside the loop of `b1` -/
def phI (b1 : Nat) (bs : List Nat) : Nat → SC.Phase := fun i => if i = b1 then .filling else if i ∈ bs then .fresh else .running

section
variable {L : LTS} {cfg : SC.Cfg}

/-! ### constructors -/

theorem news_run (cfg : SC.Cfg) {α : Type} : ∀ (l : List α) (aw : SC.AWorld),
    SC.okAll cfg aw (l.map (fun _ => SC.Op.new)) = true ∧
    (SC.aRun cfg aw (l.map (fun _ => SC.Op.new))).1 = aw ++ List.replicate l.length (some freshA)
  | [], aw => by simp [SC.okAll, SC.aRun]
  | x :: l, aw => by
    obtain ⟨h1, h2⟩ := news_run cfg l (aw ++ [some freshA])
    refine ⟨?_, ?_⟩
    · simp only [List.map_cons, sc_okAll_cons, SC.ok, Bool.true_and]; exact h1
    · simp only [List.map_cons, sc_aRun_cons]
      show (SC.aRun cfg (aw ++ [some freshA]) _).1 = _
      rw [h2, List.append_assoc, List.length_cons, List.replicate_succ]; rfl

theorem initBlocksJ_goodC (cfg : SC.Cfg) (L : LTS) (part : List (List Nat)) (rel : Rel) :
    GC L cfg (initBlocksJ L part rel Tr2.empty).1 (initBlocksJ L part rel Tr2.empty).2 allFresh := by
  obtain ⟨h1, h2⟩ := news_run cfg part []
  have hsc : (initBlocksJ L part rel Tr2.empty).2.sc = part.map (fun _ => SC.Op.new) := rfl
  have hlen : (initBlocksJ L part rel Tr2.empty).1.part.length = part.length := by simp [initBlocksJ, initBlocks]
  refine ⟨by rw [hsc]; exact h1, ?_⟩
  rw [hsc, h2]
  refine ⟨by rw [hlen]; simp, fun i hi => ⟨freshA, ?_, rfl, fun h => absurd rfl h⟩⟩
  rw [hlen] at hi
  simp [List.getD_eq_getElem?_getD, hi]

/-- one more constructor (`new Block(...)` of either kind) -/
theorem ctor_goodC {e e' : Eng} {t : Tr2} {op : SC.Op} (g : GC L cfg e t allFresh)
    (hop : op = SC.Op.new ∨ ∃ b, b < e.part.length ∧ op = SC.Op.copyCtor b) (hp : e'.part.length = e.part.length + 1) :
    GC L cfg e' (t.addSC [op]) allFresh := by
  refine g.add ?_
  have gs : SCI L cfg e (SC.aRun cfg [] t.sc).1 allFresh := g.2
  generalize (SC.aRun cfg [] t.sc).1 = aw at gs
  have hstep : SC.aStep cfg aw op = aw ++ [some freshA] := by
    rcases hop with h | ⟨b, _, h⟩ <;> rw [h] <;> rfl
  constructor
  · rw [sc_okAll_single]
    rcases hop with h | ⟨b, hb, h⟩
    · rw [h]; rfl
    · rw [h]
      obtain ⟨A, hA, _⟩ := gs.blk b hb
      show (aw.getD b none).isSome = true
      rw [hA]; rfl
  · rw [sc_aRun_single, hstep]
    refine ⟨by rw [List.length_append, gs.len, hp]; rfl, fun i hi => ?_⟩
    rw [hp] at hi
    by_cases hin : i = e.part.length
    · refine ⟨freshA, ?_, rfl, fun h => absurd rfl h⟩
      rw [hin, ← gs.len]; exact getD_append_len _ _ _
    · obtain ⟨A, hA, hph, _⟩ := gs.blk i (by omega)
      exact ⟨A, by rw [getD_append_lt _ _ _ (by rw [gs.len]; omega)]; exact hA, hph, fun h => absurd rfl h⟩

/-! ### `resize` -/

theorem resizeArg_ge (cfg : SC.Cfg) : ∀ (ins : List Nat) (m : Nat),
    m ≤ ins.foldl (fun m a => max m (cfg.labelMap.getD a (0, 0)).2) m ∧
    ∀ a, a ∈ ins → (lm cfg a).2 ≤ ins.foldl (fun m a => max m (cfg.labelMap.getD a (0, 0)).2) m
  | [], m => ⟨Nat.le_refl _, fun _ h => by cases h⟩
  | x :: ins, m => by
    obtain ⟨h1, h2⟩ := resizeArg_ge cfg ins (max m (cfg.labelMap.getD x (0, 0)).2)
    simp only [List.foldl_cons]
    refine ⟨Nat.le_trans (Nat.le_max_left _ _) h1, fun a ha => ?_⟩
    rcases List.mem_cons.mp ha with h | h
    · rw [h]; exact Nat.le_trans (Nat.le_max_right _ _) h1
    · exact h2 a h

/-- `b1->counter_.resize(size)` -/
theorem resize_goodC (ok : CfgOK L cfg) {e : Eng} {t : Tr2} {ph ph' : Nat → SC.Phase} {b1 : Nat} (g : GC L cfg e t ph)
    (hb1 : b1 < e.part.length) (hph : ph b1 = .fresh) (hlab : ∀ a, a ∈ e.ins b1 → a < labels L)
    (hz : ∀ a q, a ∈ e.ins b1 → e.cntv b1 a q = 0) (hph1 : ph' b1 = .filling) (hph2 : ∀ i, i ≠ b1 → ph' i = ph i) :
    GC L cfg e (t.addSC [SC.Op.resize b1 (resizeArg cfg (e.ins b1))]) ph' := by
  refine g.add ?_
  have gs : SCI L cfg e (SC.aRun cfg [] t.sc).1 ph := g.2
  generalize (SC.aRun cfg [] t.sc).1 = aw at gs
  obtain ⟨A, hA, hAph, _⟩ := gs.blk b1 hb1
  rw [hph] at hAph
  have hb1w : b1 < aw.length := getD_lt_of_some hA
  constructor
  · rw [sc_okAll_single]
    simp only [SC.ok, hA, hAph]
    rfl
  · rw [sc_aRun_single]
    show SCI L cfg e (aw.set b1 _) ph'
    refine ⟨by rw [List.length_set]; exact gs.len, fun i hi => ?_⟩
    by_cases hib : i = b1
    · subst hib
      refine ⟨_, by rw [SC.P.getD_set, if_pos ⟨rfl, hb1w⟩], hph1.symm, fun _ => ⟨by simp, ?_⟩⟩
      intro a q ha hq
      have hal := hlab a ha
      refine ⟨?_, by rw [SC.P.at_replicate_zero, hz a q ha]⟩
      apply lt_mul_of_div_lt ok.rs
      exact Nat.lt_of_lt_of_le (ok.rng a q hal hq).2 ((resizeArg_ge cfg (e.ins i) 0).2 a ha)
    · obtain ⟨Ai, hAi, hphi, hbvi⟩ := gs.blk i hi
      exact ⟨Ai, by rw [SC.P.getD_set, if_neg (fun h => hib h.1)]; exact hAi, by rw [hph2 i hib]; exact hphi,
        fun hf => hbvi (by rw [← hph2 i hib]; exact hf)⟩

/-! ### the `set`s of one label -/

theorem sets_ok (ok : CfgOK L cfg) {b1 a : Nat} (hal : a < labels L) (c : Nat → Nat) : ∀ (qs : List Nat) (aw : SC.AWorld)
    (A : SC.A), aw.getD b1 none = some A → A.phase = .filling → A.val.length = A.rows * cfg.rowSize → qs.Nodup →
    (∀ q, q ∈ qs → q ∈ delta1 L a ∧ 0 < c q ∧ kx cfg a q < A.rows * cfg.rowSize ∧ A.at (kx cfg a q) = 0) →
    SC.okAll cfg aw (qs.map (fun q => SC.Op.set b1 a q (c q))) = true ∧
    (SC.aRun cfg aw (qs.map (fun q => SC.Op.set b1 a q (c q)))).1.length = aw.length ∧
    (∀ j, j ≠ b1 → (SC.aRun cfg aw (qs.map (fun q => SC.Op.set b1 a q (c q)))).1.getD j none = aw.getD j none) ∧
    ∃ A', (SC.aRun cfg aw (qs.map (fun q => SC.Op.set b1 a q (c q)))).1.getD b1 none = some A' ∧ A'.phase = .filling ∧
      A'.rows = A.rows ∧ A'.val.length = A.val.length ∧ (∀ q, q ∈ qs → A'.at (kx cfg a q) = c q) ∧
      (∀ idx, (∀ q, q ∈ qs → kx cfg a q ≠ idx) → A'.at idx = A.at idx)
  | [], aw, A, hA, hph, _, _, _ => ⟨rfl, rfl, fun _ _ => rfl, A, hA, hph, rfl, rfl, fun _ h => (by cases h), fun _ _ => rfl⟩
  | q :: qs, aw, A, hA, hph, hvl, hnd, hqs => by
    have hnd' := List.nodup_cons.mp hnd
    obtain ⟨hq, hcq, hlt, hat⟩ := hqs q List.mem_cons_self
    have hqn : q < L.n := ((mem_delta1 L a q).mp hq).1
    have hk := ok.key a q hal hqn
    have hb1w : b1 < aw.length := getD_lt_of_some hA
    have hstep : SC.aStep cfg aw (SC.Op.set b1 a q (c q)) =
        aw.set b1 (some ({ A with val := A.val.set (kx cfg a q) (c q) } : SC.A)) := by
      simp only [SC.aStep, hA, hk]
    have hA1 : (aw.set b1 (some ({ A with val := A.val.set (kx cfg a q) (c q) } : SC.A))).getD b1 none =
        some ({ A with val := A.val.set (kx cfg a q) (c q) } : SC.A) := by
      rw [SC.P.getD_set, if_pos ⟨rfl, hb1w⟩]
    have hidx : kx cfg a q < A.val.length := by rw [hvl]; exact hlt
    have hne : ∀ q', q' ∈ qs → kx cfg a q' ≠ kx cfg a q := by
      intro q' hq' h
      have := (ok.inj a q' a q hal hal (hqs q' (List.mem_cons_of_mem _ hq')).1 hq h).2
      exact hnd'.1 (this ▸ hq')
    obtain ⟨i1, i2, i3, A', i4, i5, i6, i7, i8, i9⟩ := sets_ok ok hal c qs _ _ hA1 hph
      (by show (A.val.set _ _).length = _; rw [List.length_set]; exact hvl) hnd'.2
      (fun q' hq' => by
        obtain ⟨h1, h2, h3, h4⟩ := hqs q' (List.mem_cons_of_mem _ hq')
        refine ⟨h1, h2, h3, ?_⟩
        rw [SC.P.at_set A _ _ _ hidx, if_neg (hne q' hq')]; exact h4)
    simp only [List.map_cons, sc_okAll_cons, sc_aRun_cons, hstep]
    refine ⟨?_, by rw [i2, List.length_set], fun j hj => by rw [i3 j hj, SC.P.getD_set, if_neg (fun h => hj h.1)],
      A', i4, i5, i6, by rw [i7]; show (A.val.set _ _).length = _; rw [List.length_set], ?_, ?_⟩
    · rw [i1, Bool.and_true]
      simp only [SC.ok, hA, hk, hph, Bool.and_eq_true, beq_iff_eq, decide_eq_true_eq]
      exact ⟨⟨⟨trivial, hcq⟩, hlt⟩, hat⟩
    · intro q' hq'
      rcases List.mem_cons.mp hq' with h | h
      · rw [h, i9 _ (fun x hx => hne x hx), SC.P.at_set A _ _ _ hidx, if_pos rfl]
      · exact i8 q' h
    · intro idx hidx'
      rw [i9 idx (fun x hx => hidx' x (List.mem_cons_of_mem _ hx)), SC.P.at_set A _ _ _ hidx,
        if_neg (fun h => hidx' q List.mem_cons_self h.symm)]

/-- the counters after one slot of "initialize counters" -/
theorem initSlot_cntv (L : LTS) (b1 : Nat) (e : Eng) (a : Nat) (i a' q' : Nat) :
    (initSlot L b1 e a).cntv i a' q' =
      if i = b1 ∧ a' = a ∧ q' ∈ delta1 L a ∧ initCount L e b1 a q' ≠ 0 then initCount L e b1 a q' else e.cntv i a' q' := by
  obtain ⟨_, _, _, _, _, _, h7⟩ := initCnt_fold L e b1 a (delta1 L a) e rfl rfl
  have hfold : (delta1 L a).foldl (fun (e : Eng) q =>
      let c := initCount L e b1 a q
      if c == 0 then e else { e with cnt := setCnt e.cnt b1 a q c }) e = (delta1 L a).foldl (cntStep L b1 a) e := rfl
  rw [← h7 i a' q']
  unfold initSlot
  simp only []
  rw [hfold]
  split <;> rfl

/-- `b1->counter_.set(a, q, count)` for all `q ∈ delta1[a]` with `count != 0` -/
theorem slot_goodC (ok : CfgOK L cfg) {et : JE} {ph : Nat → SC.Phase} {b1 a : Nat} (g : GC L cfg et.1 et.2 ph)
    (hb1 : b1 < et.1.part.length) (hph : ph b1 = .filling) (hlab : ∀ a', a' ∈ et.1.ins b1 → a' < labels L)
    (ha : a ∈ et.1.ins b1) (hz : ∀ q, et.1.cntv b1 a q = 0) :
    GC L cfg (initSlotJ L b1 et a).1 (initSlotJ L b1 et a).2 ph := by
  obtain ⟨f1, _, f3⟩ := initSlot_frame L b1 et.1 a
  have hal := hlab a ha
  have hfst : (initSlotJ L b1 et a).1 = initSlot L b1 et.1 a := rfl
  have hsc : (initSlotJ L b1 et a).2.sc = et.2.sc ++ ((delta1 L a).filter (fun q => initCount L et.1 b1 a q != 0)).map
      (fun q => SC.Op.set b1 a q (initCount L et.1 b1 a q)) := rfl
  have gs : SCI L cfg et.1 (SC.aRun cfg [] et.2.sc).1 ph := g.2
  refine ⟨?_, ?_⟩
  · rw [hsc, sc_okAll_append, g.1, Bool.true_and]
    generalize (SC.aRun cfg [] et.2.sc).1 = aw at gs
    obtain ⟨A, hA, hAph, hbv⟩ := gs.blk b1 hb1
    rw [hph] at hAph
    have hbv := hbv (by rw [hph]; simp)
    exact (sets_ok ok hal (fun q => initCount L et.1 b1 a q) ((delta1 L a).filter (fun q => initCount L et.1 b1 a q != 0)) aw A hA hAph hbv.vlen (nodup_filter _ (nodup_delta1 L a))
      (fun q hq => by
        obtain ⟨h1, h2⟩ := List.mem_filter.mp hq
        obtain ⟨h3, h4⟩ := hbv.agree a q ha h1
        exact ⟨h1, Nat.pos_of_ne_zero (by simpa using h2), h3, by rw [h4, hz q]⟩)).1
  · rw [hsc, sc_aRun_append, hfst]
    generalize (SC.aRun cfg [] et.2.sc).1 = aw at gs
    obtain ⟨A, hA, hAph, hbv⟩ := gs.blk b1 hb1
    rw [hph] at hAph
    have hbv := hbv (by rw [hph]; simp)
    obtain ⟨_, i2, i3, A', i4, i5, i6, i7, i8, i9⟩ := sets_ok ok hal (fun q => initCount L et.1 b1 a q)
      ((delta1 L a).filter (fun q => initCount L et.1 b1 a q != 0)) aw A hA hAph
      hbv.vlen (nodup_filter _ (nodup_delta1 L a))
      (fun q hq => by
        obtain ⟨h1, h2⟩ := List.mem_filter.mp hq
        obtain ⟨h3, h4⟩ := hbv.agree a q ha h1
        exact ⟨h1, Nat.pos_of_ne_zero (by simpa using h2), h3, by rw [h4, hz q]⟩)
    refine ⟨by rw [i2, f1]; exact gs.len, fun i hi => ?_⟩
    rw [f1] at hi
    by_cases hib : i = b1
    · subst hib
      refine ⟨A', i4, by rw [i5, hph], fun _ => ⟨by rw [i7, i6]; exact hbv.vlen, ?_⟩⟩
      intro a'' q'' ha'' hq''
      rw [ins_congr f3] at ha''
      obtain ⟨h1, h2⟩ := hbv.agree a'' q'' ha'' hq''
      refine ⟨by rw [i6]; exact h1, ?_⟩
      rw [initSlot_cntv]
      by_cases hk : a'' = a ∧ initCount L et.1 i a q'' ≠ 0
      · obtain ⟨k1, k2⟩ := hk
        subst k1
        rw [if_pos ⟨rfl, rfl, hq'', k2⟩]
        exact i8 q'' (List.mem_filter.mpr ⟨hq'', by simpa using k2⟩)
      · rw [if_neg (fun h => hk ⟨h.2.1, h.2.2.2⟩), i9 _ ?_, h2]
        intro q hq heq
        obtain ⟨h3, h4⟩ := List.mem_filter.mp hq
        obtain ⟨e1, e2⟩ := ok.inj a q a'' q'' hal (hlab a'' ha'') h3 hq'' heq
        exact hk ⟨e1.symm, by rw [← e2]; simpa using h4⟩
    · obtain ⟨Ai, hAi, hphi, hbvi⟩ := gs.blk i hi
      refine ⟨Ai, by rw [i3 i hib]; exact hAi, hphi, fun hf => ?_⟩
      exact (hbvi hf).congr f3 (fun a' q' => by rw [initSlot_cntv, if_neg (fun h => hib h.1)])

/-! ### `init()` -/

theorem init_goodC {e : Eng} {t : Tr2} {ph ph' : Nat → SC.Phase} {b1 : Nat} (g : GC L cfg e t ph)
    (hb1 : b1 < e.part.length) (hph : ph b1 = .filling) (hph1 : ph' b1 = .running) (hph2 : ∀ i, i ≠ b1 → ph' i = ph i) :
    GC L cfg e (t.addSC [SC.Op.init b1]) ph' := by
  refine g.add ?_
  have gs : SCI L cfg e (SC.aRun cfg [] t.sc).1 ph := g.2
  generalize (SC.aRun cfg [] t.sc).1 = aw at gs
  obtain ⟨A, hA, hAph, hbv⟩ := gs.blk b1 hb1
  rw [hph] at hAph
  have hbv := hbv (by rw [hph]; simp)
  have hb1w : b1 < aw.length := getD_lt_of_some hA
  constructor
  · rw [sc_okAll_single]
    simp only [SC.ok, hA, hAph]
    rfl
  · rw [sc_aRun_single]
    simp only [SC.aStep, hA]
    refine ⟨by rw [List.length_set]; exact gs.len, fun i hi => ?_⟩
    by_cases hib : i = b1
    · subst hib
      exact ⟨({ A with phase := .running } : SC.A), by rw [SC.P.getD_set, if_pos ⟨rfl, hb1w⟩], hph1.symm,
        fun _ => ⟨hbv.vlen, hbv.agree⟩⟩
    · obtain ⟨Ai, hAi, hphi, hbvi⟩ := gs.blk i hi
      exact ⟨Ai, by rw [SC.P.getD_set, if_neg (fun h => hib h.1)]; exact hAi, by rw [hph2 i hib]; exact hphi,
        fun hf => hbvi (by rw [← hph2 i hib]; exact hf)⟩

/-! ### the destructors -/

theorem destroys_ok (cfg : SC.Cfg) : ∀ (is : List Nat) (aw : SC.AWorld), is.Nodup →
    (∀ i, i ∈ is → ∃ A, aw.getD i none = some A ∧ A.phase = .running) →
    SC.okAll cfg aw (is.map SC.Op.destroy) = true ∧
    (SC.aRun cfg aw (is.map SC.Op.destroy)).1.length = aw.length ∧
    ∀ j, (SC.aRun cfg aw (is.map SC.Op.destroy)).1.getD j none = if j ∈ is then none else aw.getD j none
  | [], aw, _, _ => ⟨rfl, rfl, fun j => by simp [SC.aRun]⟩
  | i :: is, aw, hnd, hl => by
    have hnd' := List.nodup_cons.mp hnd
    obtain ⟨A, hA, hph⟩ := hl i List.mem_cons_self
    have hiw : i < aw.length := getD_lt_of_some hA
    obtain ⟨h1, h2, h3⟩ := destroys_ok cfg is (aw.set i none) hnd'.2 (fun x hx => by
      obtain ⟨Ax, hAx, hphx⟩ := hl x (List.mem_cons_of_mem _ hx)
      have hxi : ¬ (x = i ∧ i < aw.length) := fun h => hnd'.1 (h.1 ▸ hx)
      exact ⟨Ax, by rw [SC.P.getD_set, if_neg hxi]; exact hAx, hphx⟩)
    simp only [List.map_cons, sc_okAll_cons, sc_aRun_cons]
    have hstep : SC.aStep cfg aw (SC.Op.destroy i) = aw.set i none := rfl
    rw [hstep]
    refine ⟨?_, by rw [h2, List.length_set], fun j => ?_⟩
    · rw [h1, Bool.and_true]
      simp only [SC.ok, hA, hph]
      rfl
    · rw [h3 j, SC.P.getD_set]
      by_cases hji : j = i
      · subst hji
        simp [hiw]
      · simp [hji]

end

end Vata.LEC2
