import Vata.Proofs.LtsEnginePhase
/-!
# The LTS simulation engine: the semantic invariant

`Sem L e G`: the counters count the successors inside the row (`hC`), the states on a remove list have no successor
inside the row (`hD`), remove lists are duplicate free (`hN`) and the relation on states is a simulation *up to pending
removals* (`hE`; `G` describes the removals of the slot that `processRemove` is working on).  The invariant is stable
under refinement (splitting blocks).
-/
namespace Vata.LE
open Vata.L

/-- edges connect states `< n` (the driver's precondition; the C++ class would enlarge `states()`) -/
def LtsOK (L : LTS) : Prop := ∀ ed, ed ∈ L.edges → ed.1 < L.n ∧ ed.2.2 < L.n

/-- state `r` lies in a block of row `i` -/
def Eng.U (e : Eng) (i r : Nat) : Prop := blockOf e.part r ∈ e.row i

/-- the relation on states induced by partition and block relation: `y` may simulate `x` -/
def Eng.R (e : Eng) (x y : Nat) : Prop := e.U (blockOf e.part x) y

/-- what the counter of `(i, a, q)` has to be -/
def cntSpec (L : LTS) (e : Eng) (i a q : Nat) : Nat :=
  L.edges.countP (fun ed => ed.1 == q && ed.2.1 == a && (e.row i).contains (blockOf e.part ed.2.2))

theorem cntSpec_eq_zero {L : LTS} {e : Eng} {i a q : Nat} :
    cntSpec L e i a q = 0 ↔ ∀ q', (q, a, q') ∈ L.edges → ¬ e.U i q' := by
  unfold cntSpec Eng.U
  rw [List.countP_eq_zero]
  constructor
  · intro h q' hq' hu
    exact h (q, a, q') hq' (by simpa using hu)
  · intro h ed hed hc
    simp only [Bool.and_eq_true, beq_iff_eq, List.contains_iff_mem] at hc
    obtain ⟨⟨h1, h2⟩, h3⟩ := hc
    obtain ⟨x, y, z⟩ := ed
    simp only at h1 h2 h3
    subst h1; subst h2
    exact h z hed h3

/-- the states on a slot (nothing when the slot is empty) -/
def slotL (e : Eng) (i a : Nat) : List Nat := match e.remv i a with | none => [] | some r => flat r

theorem slotL_some {e : Eng} {i a : Nat} {r : RemList} (h : e.remv i a = some r) : slotL e i a = flat r := by
  simp [slotL, h]

theorem slotL_none {e : Eng} {i a : Nat} (h : e.remv i a = none) : slotL e i a = [] := by
  simp [slotL, h]

theorem mem_slotL {e : Eng} {i a q : Nat} : q ∈ slotL e i a ↔ ∃ r, e.remv i a = some r ∧ q ∈ flat r := by
  unfold slotL
  cases h : e.remv i a with
  | none => simp
  | some r => simp

structure Sem (L : LTS) (e : Eng) (G : Nat → Nat → Nat → Prop) : Prop where
  hC : ∀ i a q, i < e.part.length → a ∈ e.ins i → e.cntv i a q = cntSpec L e i a q
  hD : ∀ i a q q', i < e.part.length → q ∈ slotL e i a → (q, a, q') ∈ L.edges → ¬ e.U i q'
  hN : ∀ i a, i < e.part.length → (slotL e i a).Nodup ∧ ∀ q, q ∈ slotL e i a → q < L.n
  hE : ∀ p a p' q, (p, a, p') ∈ L.edges → e.R p q → q < L.n →
    (∃ q', (q, a, q') ∈ L.edges ∧ e.R p' q') ∨ q ∈ slotL e (blockOf e.part p') a ∨ G p' a q

/-- a slot of a refined state is empty or the slot of the parent -/
theorem Refine.slot {L : LTS} {e0 e1 : Eng} {par : Nat → Nat} (r : Refine L e0 e1 par) {i : Nat}
    (hi : i < e1.part.length) (a : Nat) : slotL e1 i a = [] ∨ slotL e1 i a = slotL e0 (par i) a := by
  cases h : e1.remv i a with
  | none => exact Or.inl (slotL_none h)
  | some rl => exact Or.inr (by rw [slotL_some h, slotL_some (r.hrem1 i a rl hi h)])

theorem cntSpec_refine {L : LTS} {e0 e1 : Eng} {par : Nat → Nat} (hL : LtsOK L) (r : RefineS L e0 e1 par)
    {i : Nat} (hi : i < e1.part.length) (a q : Nat) : cntSpec L e1 i a q = cntSpec L e0 (par i) a q := by
  unfold cntSpec
  apply List.countP_congr
  intro ed hed
  have := r.hU i ed.2.2 hi (hL ed hed).2
  simp only [Bool.and_eq_true, beq_iff_eq, List.contains_iff_mem]
  rw [this]

theorem sem_refine {L : LTS} {e0 e1 : Eng} {par : Nat → Nat} {G : Nat → Nat → Nat → Prop} (hL : LtsOK L)
    (w0 : WF L e0) (w1 : WF L e1) (r : Refine L e0 e1 par) (s : Sem L e0 G) : Sem L e1 G := by
  refine ⟨?_, ?_, ?_, ?_⟩
  · intro i a q hi ha
    rw [r.hcnt i a q hi ha, s.hC _ a q (r.hpar i hi) (r.toRefineS.ins_sub w0 w1 hi ha),
      cntSpec_refine hL r.toRefineS hi]
  · intro i a q q' hi hq hed hu
    rcases r.slot hi a with h | h
    · rw [h] at hq; cases hq
    · rw [h] at hq
      exact s.hD _ a q q' (r.hpar i hi) hq hed ((r.hU i q' hi (hL _ hed).2).mp hu)
  · intro i a hi
    rcases r.slot hi a with h | h
    · rw [h]; exact ⟨List.nodup_nil, fun q hq => by cases hq⟩
    · rw [h]; exact s.hN _ a (r.hpar i hi)
  · intro p a p' q hed hR hq
    have hp : p < L.n := (hL _ hed).1
    have hp' : p' < L.n := (hL _ hed).2
    have hR0 : e0.R p q := (r.toRefineS.rel_iff w0 w1 hp hq).mp hR
    rcases s.hE p a p' q hed hR0 hq with ⟨q', hq', hR'⟩ | hsl | hG
    · exact Or.inl ⟨q', hq', (r.toRefineS.rel_iff w0 w1 hp' (hL _ hq').2).mpr hR'⟩
    · refine Or.inr (Or.inl ?_)
      obtain ⟨rl, hrl, hqr⟩ := mem_slotL.mp hsl
      obtain ⟨hlt, hmem⟩ := w1.blockOf_mem hp'
      refine mem_slotL.mpr ⟨rl, ?_, hqr⟩
      apply r.hrem2 _ a rl hlt
      · exact (w1.mem_ins hlt a).mpr ⟨p', hmem, (hasIn_iff L a p').mpr ⟨p, hed⟩⟩
      · rw [r.toRefineS.par_blockOf w0 w1 hp']; exact hrl
    · exact Or.inr (Or.inr hG)

end Vata.LE
