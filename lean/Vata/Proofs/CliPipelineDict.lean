import Vata.CliPipeline
import Vata.Proofs.GlueTransl
/-!
# The repaired `CreateProductStringToStateMap`: termination of the priming loop, injectivity, totality

About `Vata/CliPipeline.lean`, section 1.

* `primeLoop_fresh`            with the fuel `primeFuel` (indeed with any fuel `k` such that `|s| + k` exceeds the longest key) the
                               loop stops on a name that is NOT a key: the `while` loop of the C++ terminates, and the model's
                               fuel never cuts it short
* `primeLoop_fuel_indep`       above that bound the fuel does not matter
* `primeLoop_shape`            the result is the start name followed by primes; `primeLoop_of_none`: an unused name is kept
* `PInv`, `productLoopFixed_spec`   invariant of the result dictionary, for ANY operand names and ANY product map: the forward
                               map is a map (the names are pairwise different), every backward entry is a forward entry, every
                               forward entry's state has a backward entry
* `productDictFixed_injective` two product states never share a name – unconditionally
* `productDictFixed_named`     every product state of the map gets a name
* `productDictFixed_isSome_iff`  defined iff every component has a name in its operand's dictionary
* `productDictFixed_eq_old`    when the old names do not collide the repaired function computes what the old one computed
-/
namespace Vata.CliPipe
open Vata.Glue

attribute [local instance high] instBEqOfDecidableEq

/-! ### the priming loop -/

theorem foldl_max_spec : ∀ (fwd : List (Name × Nat)) (c : Nat),
    c ≤ fwd.foldl (fun a e => max a e.1.length) c ∧ ∀ e ∈ fwd, e.1.length ≤ fwd.foldl (fun a e => max a e.1.length) c
  | [], c => ⟨Nat.le_refl _, by simp⟩
  | x :: r, c => by
    obtain ⟨h1, h2⟩ := foldl_max_spec r (max c x.1.length)
    simp only [List.foldl_cons]
    refine ⟨by omega, ?_⟩
    intro e he
    rcases List.mem_cons.mp he with rfl | he
    · omega
    · exact h2 e he

/-- a name longer than every key is not a key -/
theorem lookup_none_of_long {fwd : List (Name × Nat)} {s : Name} (h : maxKeyLen fwd < s.length) : fwd.lookup s = none := by
  cases hl : fwd.lookup s with
  | none => rfl
  | some v =>
    have := (foldl_max_spec fwd 0).2 _ (mem_of_lookup hl)
    unfold maxKeyLen at h
    simp only at this
    omega

theorem primeLoop_of_none {fwd : List (Name × Nat)} {s : Name} (h : fwd.lookup s = none) (k : Nat) : primeLoop fwd k s = s := by
  cases k with
  | zero => rfl
  | succ k => simp only [primeLoop, h]

theorem primeLoop_of_some {fwd : List (Name × Nat)} {s : Name} {v : Nat} (h : fwd.lookup s = some v) (k : Nat) :
    primeLoop fwd (k + 1) s = primeLoop fwd k (s ++ ['\'']) := by
  simp only [primeLoop, h]

/-- **termination of the priming loop**: as soon as `|s| + k` exceeds the length of the longest key, `k` rounds end on an unused
name (`k = primeFuel fwd` always qualifies) -/
theorem primeLoop_fresh (fwd : List (Name × Nat)) : ∀ (k : Nat) (s : Name), maxKeyLen fwd < s.length + k →
    fwd.lookup (primeLoop fwd k s) = none
  | 0, s, h => by
    show fwd.lookup s = none
    exact lookup_none_of_long (by simpa using h)
  | k + 1, s, h => by
    cases hl : fwd.lookup s with
    | none => rw [primeLoop_of_none hl]; exact hl
    | some v =>
      rw [primeLoop_of_some hl]
      apply primeLoop_fresh fwd k
      simp only [List.length_append, List.length_cons, List.length_nil]
      omega

theorem primeLoop_primeFuel_fresh (fwd : List (Name × Nat)) (s : Name) :
    fwd.lookup (primeLoop fwd (primeFuel fwd) s) = none :=
  primeLoop_fresh fwd _ s (by unfold primeFuel; omega)

/-- above the bound the fuel is immaterial: the model's loop is the unbounded `while` loop -/
theorem primeLoop_fuel_indep (fwd : List (Name × Nat)) : ∀ (k k' : Nat) (s : Name), maxKeyLen fwd < s.length + k →
    maxKeyLen fwd < s.length + k' → primeLoop fwd k s = primeLoop fwd k' s
  | 0, k', s, h, _ => by
    rw [primeLoop_of_none (lookup_none_of_long (by simpa using h)) k']; rfl
  | k + 1, k', s, h, h' => by
    cases hl : fwd.lookup s with
    | none => rw [primeLoop_of_none hl, primeLoop_of_none hl]
    | some v =>
      cases k' with
      | zero =>
        have := lookup_none_of_long (fwd := fwd) (s := s) (by simpa using h')
        rw [hl] at this; cases this
      | succ k' =>
        rw [primeLoop_of_some hl, primeLoop_of_some hl]
        apply primeLoop_fuel_indep fwd k k'
        · simp only [List.length_append, List.length_cons, List.length_nil]; omega
        · simp only [List.length_append, List.length_cons, List.length_nil]; omega

/-- the loop only appends primes … -/
theorem primeLoop_shape (fwd : List (Name × Nat)) : ∀ (k : Nat) (s : Name),
    ∃ i, primeLoop fwd k s = s ++ List.replicate i '\'' ∧ ∀ j, j < i → ∃ v, fwd.lookup (s ++ List.replicate j '\'') = some v
  | 0, s => ⟨0, by simp [primeLoop], fun j hj => by omega⟩
  | k + 1, s => by
    cases hl : fwd.lookup s with
    | none => exact ⟨0, by rw [primeLoop_of_none hl]; simp, fun j hj => by omega⟩
    | some v =>
      obtain ⟨i, hi, hlt⟩ := primeLoop_shape fwd k (s ++ ['\''])
      refine ⟨i + 1, ?_, ?_⟩
      · rw [primeLoop_of_some hl, hi]; simp [List.replicate_succ]
      · intro j hj
        cases j with
        | zero => exact ⟨v, by simpa using hl⟩
        | succ j =>
          obtain ⟨w, hw⟩ := hlt j (by omega)
          exact ⟨w, by simpa [List.replicate_succ] using hw⟩

/-! ### the invariant of the result dictionary -/

/-- what holds of the result of the repaired function whatever the operand names and the product map are -/
structure PInv (d : Glue.StateDict) : Prop where
  /-- the names are pairwise different -/
  fwdMap : IsMap d.fwd
  /-- the reverse map only has entries of the forward map -/
  back : ∀ v n, (v, n) ∈ d.bwd → (n, v) ∈ d.fwd
  /-- every state that was inserted has a name in the reverse map -/
  named : ∀ n v, (n, v) ∈ d.fwd → ∃ n', d.bwd.lookup v = some n'

theorem pinv_empty : PInv (TwoWayDict.empty : Glue.StateDict) :=
  ⟨isMap_nil, fun _ _ h => by simp [TwoWayDict.empty] at h, fun _ _ h => by simp [TwoWayDict.empty] at h⟩

theorem insert_fresh_fwd {d : Glue.StateDict} {nm : Name} (v : Nat) (h : d.fwd.lookup nm = none) :
    (d.insert nm v).1.fwd = d.fwd ++ [(nm, v)] := by
  simp [TwoWayDict.insert, mapInsert_of_none _ h]

theorem insert_bwd (d : Glue.StateDict) (nm : Name) (v : Nat) : (d.insert nm v).1.bwd = (mapInsert d.bwd v nm).1 := rfl

theorem PInv.insert {d : Glue.StateDict} (hd : PInv d) {nm : Name} (v : Nat) (h : d.fwd.lookup nm = none) :
    PInv (d.insert nm v).1 := by
  refine ⟨?_, ?_, ?_⟩
  · rw [insert_fresh_fwd v h]; exact isMap_append_single hd.fwdMap v h
  · intro v' n hm
    rw [insert_fresh_fwd v h]
    rw [insert_bwd] at hm
    cases hb : d.bwd.lookup v with
    | some n0 =>
      rw [mapInsert_of_some _ hb] at hm
      exact List.mem_append_left _ (hd.back _ _ hm)
    | none =>
      rw [mapInsert_of_none _ hb] at hm
      rcases List.mem_append.mp hm with hm | hm
      · exact List.mem_append_left _ (hd.back _ _ hm)
      · simp only [List.mem_singleton, Prod.mk.injEq] at hm
        obtain ⟨rfl, rfl⟩ := hm
        simp
  · intro n v' hm
    rw [insert_fresh_fwd v h] at hm
    rw [insert_bwd, lookup_mapInsert]
    split
    · exact ⟨_, rfl⟩
    · rename_i hne
      rcases List.mem_append.mp hm with hm | hm
      · exact hd.named _ _ hm
      · simp only [List.mem_singleton, Prod.mk.injEq] at hm
        exact absurd hm.2 hne

/-- the names of the reverse map determine the state: two states never share a name -/
theorem PInv.injective {d : Glue.StateDict} (hd : PInv d) {v v' : Nat} {n : Name} (h : d.bwd.lookup v = some n)
    (h' : d.bwd.lookup v' = some n) : v = v' := by
  have e1 := lookup_of_mem hd.fwdMap (hd.back _ _ (mem_of_lookup h))
  have e2 := lookup_of_mem hd.fwdMap (hd.back _ _ (mem_of_lookup h'))
  rw [e1] at e2
  exact Option.some.inj e2

/-- what a forward entry of the result is: a pair of the product map whose components have the names `ln`, `rn`, under the
name `[ln_1|rn_2]` followed by primes -/
def FromPm (l r : Glue.StateDict) (pm : List ((Nat × Nat) × Nat)) (x : Name × Nat) : Prop :=
  ∃ e ∈ pm, ∃ ln rn k, l.bwd.lookup e.1.1 = some ln ∧ r.bwd.lookup e.1.2 = some rn ∧
    x = (prodName ln rn ++ List.replicate k '\'', e.2)

theorem productLoopFixed_spec (l r : Glue.StateDict) : ∀ (pm : List ((Nat × Nat) × Nat)) (res d : Glue.StateDict),
    productLoopFixed l r pm res = some d → PInv res →
      PInv d ∧ d.fwd.map Prod.snd = res.fwd.map Prod.snd ++ pm.map Prod.snd ∧
      (∀ x, x ∈ d.fwd → x ∈ res.fwd ∨ FromPm l r pm x)
  | [], res, d, h, hres => by
    simp only [productLoopFixed, Option.some.injEq] at h
    subst h
    exact ⟨hres, by simp, fun x hx => Or.inl hx⟩
  | ((p, q), v) :: rest, res, d, h, hres => by
    simp only [productLoopFixed] at h
    cases h1 : l.bwd.lookup p with
    | none => simp [h1] at h
    | some ln =>
      cases h2 : r.bwd.lookup q with
      | none => simp [h1, h2] at h
      | some rn =>
        simp only [h1, h2] at h
        have hf := primeLoop_primeFuel_fresh res.fwd (prodName ln rn)
        obtain ⟨a, b, c⟩ := productLoopFixed_spec l r rest _ d h (hres.insert v hf)
        refine ⟨a, ?_, ?_⟩
        · rw [b, insert_fresh_fwd v hf]; simp
        · intro x hx
          rcases c x hx with hx | ⟨e, he, hx⟩
          · rw [insert_fresh_fwd v hf] at hx
            rcases List.mem_append.mp hx with hx | hx
            · exact Or.inl hx
            · right
              obtain ⟨i, hi, _⟩ := primeLoop_shape res.fwd (primeFuel res.fwd) (prodName ln rn)
              rw [hi] at hx
              exact ⟨((p, q), v), List.mem_cons_self, ln, rn, i, h1, h2, by simpa using hx⟩
          · exact Or.inr ⟨e, List.mem_cons_of_mem _ he, hx⟩

theorem productLoopFixed_isSome (l r : Glue.StateDict) : ∀ (pm : List ((Nat × Nat) × Nat)) (res : Glue.StateDict),
    (productLoopFixed l r pm res).isSome = true ↔
      ∀ e, e ∈ pm → (∃ ln, l.bwd.lookup e.1.1 = some ln) ∧ (∃ rn, r.bwd.lookup e.1.2 = some rn)
  | [], res => by simp [productLoopFixed]
  | ((p, q), v) :: rest, res => by
    simp only [productLoopFixed, List.mem_cons, forall_eq_or_imp]
    cases h1 : l.bwd.lookup p with
    | none => simp
    | some ln =>
      cases h2 : r.bwd.lookup q with
      | none => simp
      | some rn =>
        simp only [productLoopFixed_isSome l r rest]
        simp

/-! ### the theorems about `productDictFixed` -/

/-- everything in one statement, for ANY operand dictionaries and ANY product map -/
theorem productDictFixed_spec {l r : Glue.StateDict} {pm : List ((Nat × Nat) × Nat)} {d : Glue.StateDict}
    (h : productDictFixed l r pm = some d) :
    PInv d ∧ d.fwd.map Prod.snd = pm.map Prod.snd ∧ (∀ x, x ∈ d.fwd → FromPm l r pm x) := by
  obtain ⟨a, b, c⟩ := productLoopFixed_spec l r pm _ d h pinv_empty
  refine ⟨a, by simpa [TwoWayDict.empty] using b, fun x hx => ?_⟩
  rcases c x hx with hx | hx
  · simp [TwoWayDict.empty] at hx
  · exact hx

/-- **the repaired names are injective, unconditionally**: whatever the names of the operands' states are (they may contain
`_1|`, `]`, primes …), the forward map of the result is a map, i.e. no two entries share a name, and two states never have
the same name in the reverse map the dump reads -/
theorem productDictFixed_injective {l r : Glue.StateDict} {pm : List ((Nat × Nat) × Nat)} {d : Glue.StateDict}
    (h : productDictFixed l r pm = some d) :
    (d.fwd.map Prod.fst).Nodup ∧ ∀ v v' n, d.bwd.lookup v = some n → d.bwd.lookup v' = some n → v = v' :=
  ⟨(productDictFixed_spec h).1.fwdMap, fun _ _ _ h1 h2 => (productDictFixed_spec h).1.injective h1 h2⟩

/-- **every product state of the map gets a name**, and exactly one forward entry is made per entry of the product map -/
theorem productDictFixed_named {l r : Glue.StateDict} {pm : List ((Nat × Nat) × Nat)} {d : Glue.StateDict}
    (h : productDictFixed l r pm = some d) :
    d.fwd.length = pm.length ∧ ∀ e, e ∈ pm → ∃ n, d.bwd.lookup e.2 = some n := by
  obtain ⟨a, b, _⟩ := productDictFixed_spec h
  refine ⟨by simpa using congrArg List.length b, ?_⟩
  intro e he
  have : e.2 ∈ d.fwd.map Prod.snd := by rw [b]; exact List.mem_map.mpr ⟨e, he, rfl⟩
  obtain ⟨x, hx, hx2⟩ := List.mem_map.mp this
  obtain ⟨n', hn'⟩ := a.named x.1 x.2 hx
  exact ⟨n', by rw [← hx2]; exact hn'⟩

/-- the function is defined (no `end()` iterator is dereferenced) iff every component of every pair has a name -/
theorem productDictFixed_isSome_iff (l r : Glue.StateDict) (pm : List ((Nat × Nat) × Nat)) :
    (productDictFixed l r pm).isSome = true ↔
      ∀ e, e ∈ pm → (∃ ln, l.bwd.lookup e.1.1 = some ln) ∧ (∃ rn, r.bwd.lookup e.1.2 = some rn) :=
  productLoopFixed_isSome l r pm _

/-- when the old names are pairwise different the loop never adds a prime: the repaired function is the old one -/
theorem productLoopFixed_eq_old (l r : Glue.StateDict) : ∀ (pm : List ((Nat × Nat) × Nat)) (res : Glue.StateDict)
    (es : List (Name × Nat)), prodEntries l r pm = some es → (res.fwd.map Prod.fst ++ es.map Prod.fst).Nodup →
      productLoopFixed l r pm res = some (TwoWayDict.insertList res es)
  | [], res, es, he, _ => by
    simp only [prodEntries, Option.some.injEq] at he
    subst he
    rfl
  | ((p, q), v) :: rest, res, es, he, hn => by
    simp only [prodEntries, prodEntry] at he
    cases h1 : l.bwd.lookup p with
    | none => simp [h1] at he
    | some ln =>
      cases h2 : r.bwd.lookup q with
      | none => simp [h1, h2] at he
      | some rn =>
        cases h3 : prodEntries l r rest with
        | none => simp [h1, h2, h3] at he
        | some es' =>
          simp only [h1, h2, h3, Option.some.injEq] at he
          subst he
          have hfree : res.fwd.lookup (prodName ln rn) = none := by
            rw [lookup_eq_none_iff_not_mem]
            intro hm
            rw [List.nodup_append] at hn
            exact hn.2.2 _ hm _ (by simp) rfl
          simp only [productLoopFixed, h1, h2, primeLoop_of_none hfree, TwoWayDict.insertList]
          apply productLoopFixed_eq_old l r rest _ es' h3
          rw [insert_fresh_fwd v hfree]
          simpa [List.append_assoc] using hn

theorem productDictFixed_eq_old {l r : Glue.StateDict} {pm : List ((Nat × Nat) × Nat)} {es : List (Name × Nat)}
    (he : prodEntries l r pm = some es) (hk : (es.map Prod.fst).Nodup) : productDictFixed l r pm = productDict l r pm := by
  rw [productDict_eq, he]
  exact productLoopFixed_eq_old l r pm _ es he (by simpa [TwoWayDict.empty] using hk)

end Vata.CliPipe
