import Vata.Proofs.InclUp
/-!
# The exploration of `inclUp` is right by itself (partial correctness of `InclUp.run`)

The main theorems of `Vata/Proofs/InclUp.lean` trust only the final Boolean checks.  Here the work-list algorithm is
analysed:

* `run_ok_cert`   : when the exploration ends with `return true`, the final antichain passes `upCertB` (so the check
                    never turns a finished `true` run into `none`);
* `run_error_ok`  : when it ends with `return false` at `(q, t)`, then `q ∈ reach A t` and either `q` is final and `B`
                    does not accept `t`, or no state of `B` reaches `t` (the code's exit on an empty macro-state).
-/
namespace Vata
namespace InclUp

/-! ### basic facts on the list operations -/

theorem mem_insS {x y : Nat} : ∀ {l : List Nat}, y ∈ insS x l ↔ y = x ∨ y ∈ l
  | [] => by simp [insS]
  | z :: l => by
    unfold insS
    split
    · simp
    · split
      · next h =>
        have hxz : x = z := by simpa using h
        subst hxz
        simp
      · rw [List.mem_cons, mem_insS (l := l), List.mem_cons]
        constructor
        · rintro (h | h | h)
          · exact Or.inr (Or.inl h)
          · exact Or.inl h
          · exact Or.inr (Or.inr h)
        · rintro (h | h | h)
          · exact Or.inr (Or.inl h)
          · exact Or.inl h
          · exact Or.inr (Or.inr h)

theorem mem_normS {l : List Nat} {y : Nat} : y ∈ normS l ↔ y ∈ l := by
  induction l with
  | nil => simp [normS]
  | cons x l ih =>
    have : normS (x :: l) = insS x (normS l) := rfl
    rw [this, mem_insS, ih, List.mem_cons]

theorem mem_macroPost {B : TA} {f : Nat} {Ss : List (List Nat)} {y : Nat} :
    y ∈ macroPost B f Ss ↔ y ∈ post B f Ss := mem_normS

/-- `(q, S)` is subsumed by the antichain `P` -/
def Subsumed (P : List Item) (q : Nat) (S : List Nat) : Prop := ∃ i, i ∈ P ∧ i.q = q ∧ ∀ x, x ∈ i.S → x ∈ S

theorem subsumed_iff {P : List Item} {q : Nat} {S : List Nat} : subsumed P q S = true ↔ Subsumed P q S := by
  simp only [subsumed, Subsumed, List.any_eq_true, Bool.and_eq_true, beq_iff_eq, subB_iff]

theorem Subsumed.mono {P : List Item} {q : Nat} {S S' : List Nat} (h : Subsumed P q S) (hs : ∀ x, x ∈ S → x ∈ S') :
    Subsumed P q S' := by
  obtain ⟨i, hi, hq, hsub⟩ := h
  exact ⟨i, hi, hq, fun x hx => hs x (hsub x hx)⟩

theorem mem_refine {P : List Item} {q : Nat} {S : List Nat} {i : Item} :
    i ∈ refine P q S ↔ i ∈ P ∧ ¬ (i.q = q ∧ ∀ x, x ∈ S → x ∈ i.S) := by
  simp only [refine, List.mem_filter, Bool.not_eq_true', Bool.and_eq_false_iff, beq_eq_false_iff_ne, ne_eq, not_and]
  constructor
  · rintro ⟨h1, h2⟩
    refine ⟨h1, fun hq hs => ?_⟩
    rcases h2 with h2 | h2
    · exact h2 hq
    · have := subB_iff.mpr hs
      rw [h2] at this; cases this
  · rintro ⟨h1, h2⟩
    refine ⟨h1, ?_⟩
    by_cases hq : i.q = q
    · right
      cases hb : subB S i.S with
      | false => rfl
      | true => exact absurd (subB_iff.mp hb) (h2 hq)
    · exact Or.inl hq

theorem mem_insNext {it i : Item} : ∀ {N : List Item}, i ∈ insNext it N ↔ i = it ∨ i ∈ N
  | [] => by simp [insNext]
  | x :: N => by
    unfold insNext
    split
    · simp
    · rw [List.mem_cons, mem_insNext (N := N), List.mem_cons]
      constructor
      · rintro (h | h | h)
        · exact Or.inr (Or.inl h)
        · exact Or.inl h
        · exact Or.inr (Or.inr h)
      · rintro (h | h | h)
        · exact Or.inr (Or.inl h)
        · exact Or.inl h
        · exact Or.inr (Or.inr h)

theorem length_insNext {it : Item} : ∀ {N : List Item}, (insNext it N).length = N.length + 1
  | [] => rfl
  | x :: N => by
    unfold insNext
    split
    · rfl
    · simp [length_insNext (N := N)]

/-! ### `addTmp` / `addItem` -/

theorem addItem_processed (st : St) (it : Item) : (addItem st it).processed = addTmp st.processed it := by
  unfold addItem addTmp
  split <;> rfl

theorem addTmp_mono {P : List Item} {it : Item} {q : Nat} {S : List Nat} (h : Subsumed P q S) :
    Subsumed (addTmp P it) q S := by
  unfold addTmp
  split
  · exact h
  · obtain ⟨i, hi, hq, hsub⟩ := h
    by_cases hr : i.q = it.q ∧ ∀ x, x ∈ it.S → x ∈ i.S
    · exact ⟨it, List.mem_append_right _ (List.mem_singleton.mpr rfl), hr.1 ▸ hq, fun x hx => hsub x (hr.2 x hx)⟩
    · exact ⟨i, List.mem_append_left _ (mem_refine.mpr ⟨hi, hr⟩), hq, hsub⟩

theorem addTmp_self (P : List Item) (it : Item) : Subsumed (addTmp P it) it.q it.S := by
  unfold addTmp
  split
  · next h => exact subsumed_iff.mp h
  · exact ⟨it, List.mem_append_right _ (List.mem_singleton.mpr rfl), rfl, fun _ h => h⟩

theorem mem_addTmp {P : List Item} {it i : Item} (h : i ∈ addTmp P it) : i ∈ P ∨ i = it := by
  unfold addTmp at h
  split at h
  · exact Or.inl h
  · rcases List.mem_append.mp h with h | h
    · exact Or.inl (mem_refine.mp h).1
    · exact Or.inr (List.mem_singleton.mp h)

theorem addItem_mono {st : St} {it : Item} {q : Nat} {S : List Nat} (h : Subsumed st.processed q S) :
    Subsumed (addItem st it).processed q S := by
  rw [addItem_processed]; exact addTmp_mono h

theorem addItem_self (st : St) (it : Item) : Subsumed (addItem st it).processed it.q it.S := by
  rw [addItem_processed]; exact addTmp_self _ _

theorem mem_addItem {st : St} {it i : Item} (h : i ∈ (addItem st it).processed) : i ∈ st.processed ∨ i = it := by
  rw [addItem_processed] at h; exact mem_addTmp h

theorem mem_addItem_next {st : St} {it i : Item} (h : i ∈ (addItem st it).next) : i ∈ st.next ∨ i = it := by
  unfold addItem at h
  split at h
  · exact Or.inl h
  · rcases mem_insNext.mp h with h | h
    · exact Or.inr h
    · exact Or.inl (mem_refine.mp h).1

/-- finished pairs: in `processed`, not (any more) in `next` -/
def Done (st : St) (i : Item) : Prop := i ∈ st.processed ∧ i ∉ st.next

theorem done_addItem {st : St} {it i : Item} (h : Done (addItem st it) i) : Done st i := by
  obtain ⟨h1, h2⟩ := h
  unfold addItem at h1 h2
  by_cases hs : subsumed st.processed it.q it.S = true
  · rw [if_pos hs] at h1 h2; exact ⟨h1, h2⟩
  · rw [if_neg hs] at h1 h2
    have hne : i ≠ it := fun e => h2 (mem_insNext.mpr (Or.inl e))
    rcases List.mem_append.mp h1 with h1 | h1
    · obtain ⟨hP, hr⟩ := mem_refine.mp h1
      exact ⟨hP, fun hN => h2 (mem_insNext.mpr (Or.inr (mem_refine.mpr ⟨hN, hr⟩)))⟩
    · exact absurd (List.mem_singleton.mp h1) hne

/-! ### folding `addItem` (merging `temporary`) -/

theorem foldl_addItem_mono {q : Nat} {S : List Nat} : ∀ (tmp : List Item) (st : St),
    Subsumed st.processed q S → Subsumed (tmp.foldl addItem st).processed q S
  | [], _, h => h
  | it :: tmp, st, h => foldl_addItem_mono tmp (addItem st it) (addItem_mono h)

theorem foldl_addItem_self : ∀ (tmp : List Item) (st : St) (i : Item), i ∈ tmp →
    Subsumed (tmp.foldl addItem st).processed i.q i.S
  | [], _, _, h => by simp at h
  | it :: tmp, st, i, h => by
    rcases List.mem_cons.mp h with h | h
    · subst h; exact foldl_addItem_mono tmp _ (addItem_self st i)
    · exact foldl_addItem_self tmp _ i h

theorem foldl_addItem_done {i : Item} : ∀ (tmp : List Item) (st : St), Done (tmp.foldl addItem st) i → Done st i
  | [], _, h => h
  | it :: tmp, st, h => done_addItem (foldl_addItem_done tmp (addItem st it) h)

theorem foldl_addItem_mem {i : Item} : ∀ (tmp : List Item) (st : St), i ∈ (tmp.foldl addItem st).processed →
    i ∈ st.processed ∨ i ∈ tmp
  | [], _, h => Or.inl h
  | it :: tmp, st, h => by
    rcases foldl_addItem_mem tmp (addItem st it) h with h | h
    · rcases mem_addItem h with h | h
      · exact Or.inl h
      · exact Or.inr (h ▸ List.mem_cons_self)
    · exact Or.inr (List.mem_cons_of_mem _ h)

theorem foldl_addItem_mem_next {i : Item} : ∀ (tmp : List Item) (st : St), i ∈ (tmp.foldl addItem st).next →
    i ∈ st.next ∨ i ∈ tmp
  | [], _, h => Or.inl h
  | it :: tmp, st, h => by
    rcases foldl_addItem_mem_next tmp (addItem st it) h with h | h
    · rcases mem_addItem_next h with h | h
      · exact Or.inl h
      · exact Or.inr (h ▸ List.mem_cons_self)
    · exact Or.inr (List.mem_cons_of_mem _ h)

/-! ### choices -/

/-- the children `ks` are matched by the items `is`, all of which satisfy `M` -/
def Choice (M : Item → Prop) (ks : List Nat) (is : List Item) : Prop := All2 (fun k i => i.q = k ∧ M i) ks is

theorem Choice.imp {M M' : Item → Prop} (hM : ∀ i, M i → M' i) {ks : List Nat} {is : List Item}
    (h : Choice M ks is) : Choice M' ks is := by
  induction h with
  | nil => exact All2.nil
  | cons hd _ ih => exact All2.cons ⟨hd.1, hM _ hd.2⟩ ih

theorem mem_choicesAll {P : List Item} : ∀ {ks : List Nat} {is : List Item},
    is ∈ choicesAll P ks ↔ Choice (· ∈ P) ks is
  | [], is => by
    simp only [choicesAll, List.mem_singleton]
    constructor
    · rintro rfl; exact All2.nil
    · intro h; cases h; rfl
  | k :: ks, is => by
    simp only [choicesAll, List.mem_flatMap, List.mem_filter, List.mem_map, beq_iff_eq]
    constructor
    · rintro ⟨i, ⟨hi, hk⟩, is', his', rfl⟩
      exact All2.cons ⟨hk, hi⟩ (mem_choicesAll.mp his')
    · intro h
      cases h with
      | cons hd tl => exact ⟨_, ⟨hd.2, hd.1⟩, _, mem_choicesAll.mpr tl, rfl⟩

/-- every choice over `P` that has `it` at position `j` is enumerated -/
theorem mem_choicesAt {P : List Item} {it : Item} : ∀ {ks : List Nat} {is : List Item} {j : Nat},
    Choice (· ∈ P) ks is → is[j]? = some it → is ∈ choicesAt P it ks j
  | [], is, j, h, hj => by cases h; simp at hj
  | k :: ks, is, 0, h, hj => by
    cases h with
    | cons hd tl =>
      simp only [List.getElem?_cons_zero, Option.some.injEq] at hj
      subst hj
      simp only [choicesAt, List.mem_map]
      exact ⟨_, mem_choicesAll.mpr tl, rfl⟩
  | k :: ks, is, j+1, h, hj => by
    cases h with
    | cons hd tl =>
      simp only [List.getElem?_cons_succ] at hj
      simp only [choicesAt, List.mem_flatMap, List.mem_filter, List.mem_map, beq_iff_eq]
      exact ⟨_, ⟨hd.2, hd.1⟩, _, mem_choicesAt tl hj, rfl⟩

/-- what is enumerated is a choice over `P` and `it` -/
theorem choice_of_mem_choicesAt {P : List Item} {it : Item} : ∀ {ks : List Nat} {is : List Item} {j : Nat},
    is ∈ choicesAt P it ks j → ks[j]? = some it.q → Choice (fun i => i ∈ P ∨ i = it) ks is
  | [], is, j, h, _ => by
    simp only [choicesAt, List.mem_singleton] at h
    subst h; exact All2.nil
  | k :: ks, is, 0, h, hj => by
    simp only [choicesAt, List.mem_map] at h
    obtain ⟨is', his', rfl⟩ := h
    simp only [List.getElem?_cons_zero, Option.some.injEq] at hj
    exact All2.cons ⟨hj.symm, Or.inr rfl⟩ ((mem_choicesAll.mp his').imp (fun _ h => Or.inl h))
  | k :: ks, is, j+1, h, hj => by
    simp only [choicesAt, List.mem_flatMap, List.mem_filter, List.mem_map, beq_iff_eq] at h
    obtain ⟨i, ⟨hi, hk⟩, is', his', rfl⟩ := h
    simp only [List.getElem?_cons_succ] at hj
    exact All2.cons ⟨hk, Or.inl hi⟩ (choice_of_mem_choicesAt his' hj)

theorem mem_tasks {A : TA} {q : Nat} {ρ : Rule} {j : Nat} :
    (ρ, j) ∈ tasks A q ↔ ρ ∈ A.rules ∧ ρ.kids[j]? = some q := by
  simp only [tasks, positions, List.mem_flatMap, List.mem_map, List.mem_filter, List.mem_range, Prod.mk.injEq,
    beq_iff_eq]
  constructor
  · rintro ⟨ρ', hρ', j', ⟨_, hj'⟩, rfl, rfl⟩
    exact ⟨hρ', hj'⟩
  · rintro ⟨hρ, hj⟩
    refine ⟨ρ, hρ, j, ⟨?_, hj⟩, rfl, rfl⟩
    rcases Nat.lt_or_ge j ρ.kids.length with h | h
    · exact h
    · rw [List.getElem?_eq_none h] at hj; cases hj

/-- position `j` of a choice holds an item with the state of position `j` -/
theorem Choice.get {M : Item → Prop} {ks : List Nat} {is : List Item} (h : Choice M ks is) :
    ∀ {j : Nat} {i : Item}, is[j]? = some i → ks[j]? = some i.q ∧ M i := by
  induction h with
  | nil => intro j i hj; simp at hj
  | cons hd _ ih =>
    intro j i hj
    cases j with
    | zero =>
      simp only [List.getElem?_cons_zero, Option.some.injEq] at hj
      subst hj
      exact ⟨by simp [hd.1], hd.2⟩
    | succ j =>
      simp only [List.getElem?_cons_succ] at hj ⊢
      exact ih hj

/-- if every item of a choice satisfies `M` or is `it`, and `it` does not occur, all satisfy `M` -/
theorem Choice.of_not_it {M : Item → Prop} {it : Item} {ks : List Nat} {is : List Item}
    (h : Choice (fun i => M i ∨ i = it) ks is) (hn : ∀ j : Nat, is[j]? ≠ some it) : Choice M ks is := by
  induction h with
  | nil => exact All2.nil
  | cons hd _ ih =>
    refine All2.cons ⟨hd.1, ?_⟩ (ih (fun j hj => hn (j+1) (by simpa using hj)))
    rcases hd.2 with h | h
    · exact h
    · exact absurd (by simp [h]) (hn 0)

/-! ### processing the choices of one task -/

/-- the pair the code builds from a choice -/
def mkItem (B : TA) (ρ : Rule) (is : List Item) : Item :=
  ⟨ρ.parent, macroPost B ρ.sym (is.map (·.S)), Tree.node ρ.sym (is.map (·.t))⟩

theorem stepChoice_ok {A B : TA} {ρ : Rule} {tmp tmp' : List Item} {is : List Item}
    (h : stepChoice A B ρ tmp is = .ok tmp') :
    tmp' = addTmp tmp (mkItem B ρ is) ∧ (ρ.parent ∈ A.final → accepting B (mkItem B ρ is).S = true) ∧
      (mkItem B ρ is).S ≠ [] := by
  unfold stepChoice at h
  simp only at h
  split at h
  · cases h
  · next hne =>
    split at h
    · cases h
    · next hacc =>
      simp only [Except.ok.injEq] at h
      refine ⟨h.symm, ?_, ?_⟩
      · intro hf
        simp only [Bool.and_eq_true, Bool.not_eq_true', List.contains_iff_mem, not_and] at hacc
        cases hb : accepting B (mkItem B ρ is).S with
        | true => rfl
        | false => exact absurd hf (hacc hb)
      · intro he
        apply hne
        show (mkItem B ρ is).S.isEmpty = true
        rw [he]; rfl

theorem stepChoice_error {A B : TA} {ρ : Rule} {tmp : List Item} {is : List Item} {e : Nat × Tree}
    (h : stepChoice A B ρ tmp is = .error e) :
    e = (ρ.parent, (mkItem B ρ is).t) ∧
      ((mkItem B ρ is).S = [] ∨ (accepting B (mkItem B ρ is).S = false ∧ ρ.parent ∈ A.final)) := by
  unfold stepChoice at h
  simp only at h
  split at h
  · next he =>
    simp only [Except.error.injEq] at h
    refine ⟨h.symm, Or.inl ?_⟩
    exact List.isEmpty_iff.mp he
  · split at h
    · next hacc =>
      simp only [Except.error.injEq] at h
      simp only [Bool.and_eq_true, Bool.not_eq_true', List.contains_iff_mem] at hacc
      exact ⟨h.symm, Or.inr hacc⟩
    · cases h

/-- generic invariant of `stepChoices` -/
theorem stepChoices_ok {A B : TA} {ρ : Rule} : ∀ {iss : List (List Item)} {tmp tmp' : List Item},
    stepChoices A B ρ iss tmp = .ok tmp' →
      (∀ q S, Subsumed tmp q S → Subsumed tmp' q S) ∧
      (∀ is, is ∈ iss → Subsumed tmp' ρ.parent (mkItem B ρ is).S) ∧
      (∀ i, i ∈ tmp' → i ∈ tmp ∨ ∃ is, is ∈ iss ∧ i = mkItem B ρ is ∧
        (ρ.parent ∈ A.final → accepting B (mkItem B ρ is).S = true) ∧ (mkItem B ρ is).S ≠ [])
  | [], tmp, tmp', h => by
    simp only [stepChoices, Except.ok.injEq] at h
    subst h
    exact ⟨fun _ _ h => h, fun _ h => by simp at h, fun i h => Or.inl h⟩
  | is :: iss, tmp, tmp', h => by
    unfold stepChoices at h
    split at h
    · cases h
    · next tmp₁ h₁ =>
      obtain ⟨he, hacc, hne⟩ := stepChoice_ok h₁
      obtain ⟨ih1, ih2, ih3⟩ := stepChoices_ok h
      refine ⟨fun q S hs => ih1 q S (he ▸ addTmp_mono hs), ?_, ?_⟩
      · intro is' his'
        rcases List.mem_cons.mp his' with rfl | his'
        · exact ih1 _ _ (he ▸ addTmp_self tmp _)
        · exact ih2 is' his'
      · intro i hi
        rcases ih3 i hi with hi | ⟨is', his', hi⟩
        · rw [he] at hi
          rcases mem_addTmp hi with hi | hi
          · exact Or.inl hi
          · exact Or.inr ⟨is, List.mem_cons_self, hi, hacc, hne⟩
        · exact Or.inr ⟨is', List.mem_cons_of_mem _ his', hi⟩

theorem stepChoices_error {A B : TA} {ρ : Rule} {e : Nat × Tree} : ∀ {iss : List (List Item)} {tmp : List Item},
    stepChoices A B ρ iss tmp = .error e → ∃ is, is ∈ iss ∧ e = (ρ.parent, (mkItem B ρ is).t) ∧
      ((mkItem B ρ is).S = [] ∨ (accepting B (mkItem B ρ is).S = false ∧ ρ.parent ∈ A.final))
  | [], tmp, h => by simp [stepChoices] at h
  | is :: iss, tmp, h => by
    unfold stepChoices at h
    split at h
    · next e' h₁ =>
      simp only [Except.error.injEq] at h
      subst h
      exact ⟨is, List.mem_cons_self, stepChoice_error h₁⟩
    · obtain ⟨is', his', h'⟩ := stepChoices_error h
      exact ⟨is', List.mem_cons_of_mem _ his', h'⟩

/-! ### the closure invariant -/

/-- no bad pair -/
def Good (A B : TA) (P : List Item) : Prop := ∀ i, i ∈ P → i.q ∈ A.final → accepting B i.S = true

/-- the post-image of every choice of finished pairs that does not wait for a task in `T` (a rule and a position that
holds the picked pair `it`) is subsumed by `processed` -/
def Pending (A B : TA) (it : Item) (T : List (Rule × Nat)) (st : St) : Prop :=
  ∀ ρ, ρ ∈ A.rules → ∀ is, Choice (Done st) ρ.kids is → (∀ j, is[j]? = some it → (ρ, j) ∉ T) →
    Subsumed st.processed ρ.parent (post B ρ.sym (is.map (·.S)))

/-- the post-image of every choice of finished pairs is subsumed by `processed` -/
def Closed (A B : TA) (st : St) : Prop :=
  ∀ ρ, ρ ∈ A.rules → ∀ is, Choice (Done st) ρ.kids is →
    Subsumed st.processed ρ.parent (post B ρ.sym (is.map (·.S)))

theorem procTask_ok {A B : TA} {it : Item} {ρ₀ : Rule} {j₀ : Nat} {st st' : St}
    (h : procTask A B it ρ₀ j₀ st = .ok st') :
    (∀ q S, Subsumed st.processed q S → Subsumed st'.processed q S) ∧
    (∀ i, Done st' i → Done st i) ∧
    (∀ is, Choice (· ∈ st.processed) ρ₀.kids is → is[j₀]? = some it →
      Subsumed st'.processed ρ₀.parent (post B ρ₀.sym (is.map (·.S)))) ∧
    (∀ i, i ∈ st'.processed → i ∈ st.processed ∨ ∃ is, is ∈ choicesAt st.processed it ρ₀.kids j₀ ∧
        i = mkItem B ρ₀ is ∧ (ρ₀.parent ∈ A.final → accepting B (mkItem B ρ₀ is).S = true) ∧
        (mkItem B ρ₀ is).S ≠ []) ∧
    (∀ i, i ∈ st'.next → i ∈ st.next ∨ ∃ is, is ∈ choicesAt st.processed it ρ₀.kids j₀ ∧ i = mkItem B ρ₀ is) := by
  unfold procTask at h
  split at h
  · cases h
  · next tmp htmp =>
    simp only [Except.ok.injEq] at h
    subst h
    obtain ⟨_, h2, h3⟩ := stepChoices_ok htmp
    refine ⟨fun q S hs => foldl_addItem_mono tmp st hs, fun i hi => foldl_addItem_done tmp st hi, ?_, ?_, ?_⟩
    · intro is his hj
      obtain ⟨i, hi, hq, hsub⟩ := h2 is (mem_choicesAt his hj)
      have := foldl_addItem_self tmp st i hi
      rw [hq] at this
      exact this.mono (fun x hx => mem_macroPost.mp (hsub x hx))
    · intro i hi
      rcases foldl_addItem_mem tmp st hi with hi | hi
      · exact Or.inl hi
      · rcases h3 i hi with hi | hi
        · simp at hi
        · exact Or.inr hi
    · intro i hi
      rcases foldl_addItem_mem_next tmp st hi with hi | hi
      · exact Or.inl hi
      · rcases h3 i hi with hi | ⟨is, his, hi, _⟩
        · simp at hi
        · exact Or.inr ⟨is, his, hi⟩

theorem procTask_pending {A B : TA} {it : Item} {ρ₀ : Rule} {j₀ : Nat} {T : List (Rule × Nat)} {st st' : St}
    (h : procTask A B it ρ₀ j₀ st = .ok st') (hP : Pending A B it ((ρ₀, j₀) :: T) st) : Pending A B it T st' := by
  obtain ⟨h1, h2, h3, _⟩ := procTask_ok h
  intro ρ hρ is his hT
  have his' : Choice (Done st) ρ.kids is := his.imp h2
  by_cases hc : ∃ j, is[j]? = some it ∧ (ρ, j) = (ρ₀, j₀)
  · obtain ⟨j, hj, he⟩ := hc
    simp only [Prod.mk.injEq] at he
    obtain ⟨rfl, rfl⟩ := he
    exact h3 is (his'.imp (fun _ h => h.1)) hj
  · apply h1
    apply hP ρ hρ is his'
    intro j hj hm
    rcases List.mem_cons.mp hm with hm | hm
    · exact hc ⟨j, hj, hm⟩
    · exact hT j hj hm

theorem procTasks_pending {A B : TA} {it : Item} : ∀ {T : List (Rule × Nat)} {st st' : St},
    procTasks A B it T st = .ok st' → Pending A B it T st → Closed A B st'
  | [], st, st', h, hP => by
    simp only [procTasks, Except.ok.injEq] at h
    subst h
    intro ρ hρ is his
    exact hP ρ hρ is his (fun _ _ hm => by simp at hm)
  | (ρ₀, j₀) :: T, st, st', h, hP => by
    unfold procTasks at h
    split at h
    · cases h
    · next st₁ h₁ => exact procTasks_pending h (procTask_pending h₁ hP)

/-- picking `it` from the work-list turns `Closed` into `Pending` for the tasks of `it` -/
theorem pending_of_closed {A B : TA} {P : List Item} {it : Item} {rest : List Item}
    (h : Closed A B ⟨P, it :: rest⟩) : Pending A B it (tasks A it.q) ⟨P, rest⟩ := by
  intro ρ hρ is his hT
  apply h ρ hρ is
  have hn : ∀ j : Nat, is[j]? ≠ some it := by
    intro j hj
    exact hT j hj (mem_tasks.mpr ⟨hρ, (his.get hj).1⟩)
  have : Choice (fun i => Done ⟨P, it :: rest⟩ i ∨ i = it) ρ.kids is := by
    refine his.imp (fun i hi => ?_)
    by_cases he : i = it
    · exact Or.inr he
    · exact Or.inl ⟨hi.1, fun hm => by
        rcases List.mem_cons.mp hm with hm | hm
        · exact he hm
        · exact hi.2 hm⟩
  exact this.of_not_it hn

/-! ### `Good` -/

theorem procTasks_good {A B : TA} {it : Item} : ∀ {T : List (Rule × Nat)} {st st' : St},
    procTasks A B it T st = .ok st' → Good A B st.processed → Good A B st'.processed
  | [], st, st', h, hG => by
    simp only [procTasks, Except.ok.injEq] at h
    subst h; exact hG
  | (ρ₀, j₀) :: T, st, st', h, hG => by
    unfold procTasks at h
    split at h
    · cases h
    · next st₁ h₁ =>
      apply procTasks_good h
      obtain ⟨_, _, _, h4, _⟩ := procTask_ok h₁
      intro i hi hf
      rcases h4 i hi with hi | ⟨is, _, rfl, hacc, _⟩
      · exact hG i hi hf
      · exact hacc hf

/-! ### the loop -/

theorem loop_ok {A B : TA} : ∀ {n : Nat} {st : St} {P : List Item},
    loop A B n st = some (.ok P) → Closed A B st → Good A B st.processed →
      Closed A B ⟨P, []⟩ ∧ Good A B P
  | 0, _, _, h, _, _ => by simp [loop] at h
  | n+1, st, P, h, hC, hG => by
    unfold loop at h
    split at h
    · next hn =>
      simp only [Option.some.injEq, Except.ok.injEq] at h
      subst h
      refine ⟨?_, hG⟩
      have : st = ⟨st.processed, []⟩ := by cases st; simp_all
      rw [← this]; exact hC
    · next it rest hn =>
      split at h
      · simp at h
      · next st' h' =>
        have hC' : Closed A B ⟨st.processed, it :: rest⟩ := by
          have : st = ⟨st.processed, it :: rest⟩ := by cases st; simp_all
          rw [← this]; exact hC
        exact loop_ok h (procTasks_pending h' (pending_of_closed hC')) (procTasks_good h' hG)

/-! ### the leaf phase -/

theorem leafPhase_ok {A B : TA} : ∀ {ρs : List Rule} {st st' : St}, leafPhase A B ρs st = .ok st' →
    (∀ i, i ∈ st.processed → i ∈ st.next) → Good A B st.processed →
      (∀ i, i ∈ st'.processed → i ∈ st'.next) ∧ Good A B st'.processed ∧
      (∀ q S, Subsumed st.processed q S → Subsumed st'.processed q S) ∧
      (∀ ρ, ρ ∈ ρs → ρ.kids = [] → Subsumed st'.processed ρ.parent (post B ρ.sym []))
  | [], st, st', h, hN, hG => by
    simp only [leafPhase, Except.ok.injEq] at h
    subst h
    exact ⟨hN, hG, fun _ _ h => h, fun _ h => by simp at h⟩
  | ρ :: ρs, st, st', h, hN, hG => by
    unfold leafPhase at h
    split at h
    · next hk =>
      simp only at h
      split at h
      · cases h
      · next hacc =>
        have hN' : ∀ i, i ∈ (addItem st ⟨ρ.parent, macroPost B ρ.sym [], .node ρ.sym []⟩).processed →
            i ∈ (addItem st ⟨ρ.parent, macroPost B ρ.sym [], .node ρ.sym []⟩).next := by
          intro i hi
          unfold addItem at hi ⊢
          split
          · next hs => rw [if_pos hs] at hi; exact hN i hi
          · next hs =>
            rw [if_neg hs] at hi
            rcases List.mem_append.mp hi with hi | hi
            · obtain ⟨hP, hr⟩ := mem_refine.mp hi
              exact mem_insNext.mpr (Or.inr (mem_refine.mpr ⟨hN i hP, hr⟩))
            · exact mem_insNext.mpr (Or.inl (List.mem_singleton.mp hi))
        have hG' : Good A B (addItem st ⟨ρ.parent, macroPost B ρ.sym [], .node ρ.sym []⟩).processed := by
          intro i hi hf
          rcases mem_addItem hi with hi | rfl
          · exact hG i hi hf
          · simp only [Bool.and_eq_true, Bool.not_eq_true', List.contains_iff_mem, not_and] at hacc
            simp only at hf ⊢
            cases hb : accepting B (macroPost B ρ.sym []) with
            | true => rfl
            | false => exact absurd hf (hacc hb)
        obtain ⟨r1, r2, r3, r4⟩ := leafPhase_ok h hN' hG'
        refine ⟨r1, r2, fun q S hs => r3 q S (addItem_mono hs), ?_⟩
        intro ρ' hρ' hk'
        rcases List.mem_cons.mp hρ' with rfl | hρ'
        · have := r3 _ _ (addItem_self st ⟨ρ'.parent, macroPost B ρ'.sym [], .node ρ'.sym []⟩)
          exact this.mono (fun x hx => mem_macroPost.mp hx)
        · exact r4 ρ' hρ' hk'
    · next hk =>
      obtain ⟨r1, r2, r3, r4⟩ := leafPhase_ok h hN hG
      refine ⟨r1, r2, r3, ?_⟩
      intro ρ' hρ' hk'
      rcases List.mem_cons.mp hρ' with rfl | hρ'
      · rw [hk'] at hk; exact absurd rfl hk
      · exact r4 ρ' hρ' hk'

theorem leafPhase_closed {A B : TA} {st : St} (h : leafPhase A B A.rules ⟨[], []⟩ = .ok st) :
    Closed A B st ∧ Good A B st.processed := by
  obtain ⟨r1, r2, _, r4⟩ := leafPhase_ok h (fun _ h => by simp at h) (fun _ h => by simp at h)
  refine ⟨?_, r2⟩
  intro ρ hρ is his
  cases hk : ρ.kids with
  | nil => rw [hk] at his; cases his; exact r4 ρ hρ hk
  | cons k ks =>
    rw [hk] at his
    cases his with
    | cons hd _ => exact absurd (r1 _ hd.2.1) hd.2.2

/-! ### the result of a finished `true` run passes the certificate check -/

def pairs (P : List Item) : List (Nat × List Nat) := P.map (fun i => (i.q, i.S))

theorem choice_of_pairs {P : List Item} : ∀ {ks : List Nat} {Ss : List (List Nat)},
    All2 (fun k S => (k, S) ∈ pairs P) ks Ss → ∃ is, Choice (· ∈ P) ks is ∧ is.map (·.S) = Ss := by
  intro ks Ss h
  induction h with
  | nil => exact ⟨[], All2.nil, rfl⟩
  | cons hd _ ih =>
    obtain ⟨is, his, hS⟩ := ih
    simp only [pairs, List.mem_map, Prod.mk.injEq] at hd
    obtain ⟨i, hi, hq, hs⟩ := hd
    exact ⟨i :: is, All2.cons ⟨hq, hi⟩ his, by simp [hs, hS]⟩

theorem upCertB_of_closed {A B : TA} {P : List Item} (hC : Closed A B ⟨P, []⟩) (hG : Good A B P) :
    upCertB A B (pairs P) = true := by
  rw [upCertB_iff]
  constructor
  · intro ρ hρ Ss hSs
    obtain ⟨is, his, rfl⟩ := choice_of_pairs hSs
    obtain ⟨i, hi, hq, hsub⟩ := hC ρ hρ is (his.imp (fun i hi => ⟨hi, by simp⟩))
    refine ⟨i.S, ?_, hsub⟩
    simp only [pairs, List.mem_map, Prod.mk.injEq]
    exact ⟨i, hi, hq, rfl⟩
  · intro q S hqS hf
    simp only [pairs, List.mem_map, Prod.mk.injEq] at hqS
    obtain ⟨i, hi, rfl, rfl⟩ := hqS
    exact accepting_iff.mp (hG i hi hf)

theorem run_ok_cert {A B : TA} {fuel : Nat} {P : List Item} (h : run A B fuel = some (.ok P)) :
    upCertB A B (pairs P) = true := by
  unfold run at h
  split at h
  · simp at h
  · split at h
    · simp at h
    · next st hst =>
      obtain ⟨hC, hG⟩ := leafPhase_closed hst
      obtain ⟨hC', hG'⟩ := loop_ok h hC hG
      exact upCertB_of_closed hC' hG'

/-- a finished `true` run is never lost by the final check -/
theorem inclUp_of_run_ok {A B : TA} {fuel : Nat} {P : List Item} (h : run A B fuel = some (.ok P)) :
    inclUp A B fuel = some (true, .closed (pairs P)) := by
  unfold inclUp
  rw [h]
  simp only
  have := run_ok_cert h
  unfold pairs at this
  rw [if_pos this]
  rfl

/-! ### the trees of the pairs; the `return false` exits -/

/-- the tree of a pair reaches its `A`-state, and its macro-state is what `B` reaches on the tree -/
def TreeOK (A B : TA) (i : Item) : Prop := i.q ∈ reach A i.t ∧ ∀ x, x ∈ i.S ↔ x ∈ reach B i.t

/-- what a `return false` at `(q, t)` means: `t` reaches `q`, and either `q` is final while `B` does not accept `t`,
or no state of `B` reaches `t` -/
def ErrOK (A B : TA) (e : Nat × Tree) : Prop :=
  e.1 ∈ reach A e.2 ∧ ((e.1 ∈ A.final ∧ accepting B (reach B e.2) = false) ∨ ∀ x, x ∉ reach B e.2)

theorem choice_match {A B : TA} {ks : List Nat} {is : List Item} (h : Choice (TreeOK A B) ks is) :
    matchKids ks (reachL A (is.map (·.t))) = true ∧ All2 SetEq (is.map (·.S)) (reachL B (is.map (·.t))) := by
  induction h with
  | nil => exact ⟨rfl, All2.nil⟩
  | cons hd _ ih =>
    simp only [List.map_cons, reachL, matchKids, Bool.and_eq_true, List.contains_iff_mem]
    exact ⟨⟨hd.1 ▸ hd.2.1, ih.1⟩, All2.cons hd.2.2 ih.2⟩

theorem mkItem_treeOK {A B : TA} {ρ : Rule} {is : List Item} (hρ : ρ ∈ A.rules)
    (h : Choice (TreeOK A B) ρ.kids is) : TreeOK A B (mkItem B ρ is) := by
  obtain ⟨h1, h2⟩ := choice_match h
  constructor
  · show ρ.parent ∈ reach A (Tree.node ρ.sym (is.map (·.t)))
    rw [reach, mem_post']
    exact ⟨ρ, hρ, rfl, h1, rfl⟩
  · intro x
    show x ∈ macroPost B ρ.sym (is.map (·.S)) ↔ x ∈ reach B (Tree.node ρ.sym (is.map (·.t)))
    rw [reach, mem_macroPost, post_congr B ρ.sym h2]

theorem errOK_of_mkItem {A B : TA} {ρ : Rule} {is : List Item} (h : TreeOK A B (mkItem B ρ is))
    (hc : (mkItem B ρ is).S = [] ∨ (accepting B (mkItem B ρ is).S = false ∧ ρ.parent ∈ A.final)) :
    ErrOK A B (ρ.parent, (mkItem B ρ is).t) := by
  refine ⟨h.1, ?_⟩
  rcases hc with hc | ⟨hc, hf⟩
  · right
    intro x hx
    have := (h.2 x).mpr hx
    rw [hc] at this
    simp at this
  · left
    refine ⟨hf, ?_⟩
    rw [← accepting_congr B (s := (mkItem B ρ is).S) h.2]
    exact hc

/-- all pairs of the state have good trees -/
def AllOK (A B : TA) (st : St) : Prop :=
  (∀ i, i ∈ st.processed → TreeOK A B i) ∧ (∀ i, i ∈ st.next → TreeOK A B i)

theorem procTask_tree {A B : TA} {it : Item} {ρ₀ : Rule} {j₀ : Nat} {st : St} (hit : TreeOK A B it)
    (hT : (ρ₀, j₀) ∈ tasks A it.q) (hst : AllOK A B st) :
    ∀ is, is ∈ choicesAt st.processed it ρ₀.kids j₀ → TreeOK A B (mkItem B ρ₀ is) := by
  intro is his
  obtain ⟨hρ, hj⟩ := mem_tasks.mp hT
  apply mkItem_treeOK hρ
  refine (choice_of_mem_choicesAt his hj).imp (fun i hi => ?_)
  rcases hi with hi | hi
  · exact hst.1 i hi
  · exact hi ▸ hit

theorem procTask_error {A B : TA} {it : Item} {ρ₀ : Rule} {j₀ : Nat} {st : St} {e : Nat × Tree}
    (h : procTask A B it ρ₀ j₀ st = .error e) :
    ∃ is, is ∈ choicesAt st.processed it ρ₀.kids j₀ ∧ e = (ρ₀.parent, (mkItem B ρ₀ is).t) ∧
      ((mkItem B ρ₀ is).S = [] ∨ (accepting B (mkItem B ρ₀ is).S = false ∧ ρ₀.parent ∈ A.final)) := by
  unfold procTask at h
  split at h
  · next e' he =>
    simp only [Except.error.injEq] at h
    subst h
    exact stepChoices_error he
  · cases h

theorem procTasks_tree {A B : TA} {it : Item} (hit : TreeOK A B it) : ∀ {T : List (Rule × Nat)} {st : St},
    (∀ p, p ∈ T → p ∈ tasks A it.q) → AllOK A B st →
      (∀ st', procTasks A B it T st = .ok st' → AllOK A B st') ∧
      (∀ e, procTasks A B it T st = .error e → ErrOK A B e)
  | [], st, _, hst => by
    constructor
    · intro st' h
      simp only [procTasks, Except.ok.injEq] at h
      subst h; exact hst
    · intro e h
      simp [procTasks] at h
  | (ρ₀, j₀) :: T, st, hT, hst => by
    have hnew := procTask_tree hit (hT _ List.mem_cons_self) hst
    unfold procTasks
    split
    · next e' he =>
      constructor
      · intro st' h; cases h
      · intro e h
        simp only [Except.error.injEq] at h
        subst h
        obtain ⟨is, his, rfl, hc⟩ := procTask_error he
        exact errOK_of_mkItem (hnew is his) hc
    · next st₁ h₁ =>
      obtain ⟨_, _, _, h4, h5⟩ := procTask_ok h₁
      have hst₁ : AllOK A B st₁ := by
        constructor
        · intro i hi
          rcases h4 i hi with hi | ⟨is, his, rfl, _⟩
          · exact hst.1 i hi
          · exact hnew is his
        · intro i hi
          rcases h5 i hi with hi | ⟨is, his, rfl⟩
          · exact hst.2 i hi
          · exact hnew is his
      exact procTasks_tree hit (fun p hp => hT p (List.mem_cons_of_mem _ hp)) hst₁

theorem loop_tree {A B : TA} : ∀ {n : Nat} {st : St}, AllOK A B st →
    (∀ P, loop A B n st = some (.ok P) → ∀ i, i ∈ P → TreeOK A B i) ∧
    (∀ e, loop A B n st = some (.error e) → ErrOK A B e)
  | 0, _, _ => by simp [loop]
  | n+1, st, hst => by
    unfold loop
    split
    · next hn =>
      constructor
      · intro P h
        simp only [Option.some.injEq, Except.ok.injEq] at h
        subst h; exact hst.1
      · intro e h; simp at h
    · next it rest hn =>
      have hit : TreeOK A B it := hst.2 it (hn ▸ List.mem_cons_self)
      have hst₁ : AllOK A B ⟨st.processed, rest⟩ :=
        ⟨hst.1, fun i hi => hst.2 i (hn ▸ List.mem_cons_of_mem _ hi)⟩
      obtain ⟨h1, h2⟩ := procTasks_tree hit (T := tasks A it.q) (fun _ h => h) hst₁
      split
      · next e' he =>
        constructor
        · intro P h; simp at h
        · intro e h
          simp only [Option.some.injEq, Except.error.injEq] at h
          subst h; exact h2 _ he
      · next st' h' => exact loop_tree (h1 st' h')

theorem leaf_treeOK {A B : TA} {ρ : Rule} (hρ : ρ ∈ A.rules) (hk : ρ.kids.isEmpty = true) :
    TreeOK A B ⟨ρ.parent, macroPost B ρ.sym [], .node ρ.sym []⟩ := by
  have : Choice (TreeOK A B) ρ.kids [] := by
    rw [List.isEmpty_iff.mp hk]; exact All2.nil
  exact mkItem_treeOK (is := []) hρ this

theorem leafPhase_tree {A B : TA} : ∀ {ρs : List Rule} {st : St}, (∀ ρ, ρ ∈ ρs → ρ ∈ A.rules) → AllOK A B st →
    (∀ st', leafPhase A B ρs st = .ok st' → AllOK A B st') ∧
    (∀ e, leafPhase A B ρs st = .error e → ErrOK A B e)
  | [], st, _, hst => by
    constructor
    · intro st' h
      simp only [leafPhase, Except.ok.injEq] at h
      subst h; exact hst
    · intro e h; simp [leafPhase] at h
  | ρ :: ρs, st, hρs, hst => by
    have hρ : ρ ∈ A.rules := hρs ρ List.mem_cons_self
    have hρs' : ∀ ρ', ρ' ∈ ρs → ρ' ∈ A.rules := fun ρ' h => hρs ρ' (List.mem_cons_of_mem _ h)
    unfold leafPhase
    split
    · next hk =>
      have hT := leaf_treeOK (B := B) hρ hk
      simp only
      split
      · next hacc =>
        constructor
        · intro st' h; cases h
        · intro e h
          simp only [Except.error.injEq] at h
          subst h
          simp only [Bool.and_eq_true, Bool.not_eq_true', List.contains_iff_mem] at hacc
          exact errOK_of_mkItem (is := []) hT (Or.inr hacc)
      · apply leafPhase_tree hρs'
        constructor
        · intro i hi
          rcases mem_addItem hi with hi | rfl
          · exact hst.1 i hi
          · exact hT
        · intro i hi
          rcases mem_addItem_next hi with hi | rfl
          · exact hst.2 i hi
          · exact hT
    · exact leafPhase_tree hρs' hst

theorem mem_leafSyms {A : TA} {f : Nat} : f ∈ leafSyms A ↔ ∃ ρ, ρ ∈ A.rules ∧ ρ.kids = [] ∧ ρ.sym = f := by
  simp only [leafSyms, mem_normS, List.mem_map, List.mem_filter, List.isEmpty_iff]
  constructor
  · rintro ⟨ρ, ⟨h1, h2⟩, h3⟩; exact ⟨ρ, h1, h2, h3⟩
  · rintro ⟨ρ, h1, h2, h3⟩; exact ⟨ρ, ⟨h1, h2⟩, h3⟩

theorem sizeExit_ok {A B : TA} {ρ : Rule} (h : sizeExit A B = some ρ) :
    ErrOK A B (ρ.parent, .node ρ.sym []) := by
  unfold sizeExit at h
  split at h
  · have hm := List.mem_of_find?_eq_some h
    have hp := List.find?_some h
    simp only [Bool.and_eq_true, Bool.not_eq_true', List.isEmpty_iff] at hp
    constructor
    · show ρ.parent ∈ reach A (.node ρ.sym [])
      rw [reach, mem_post']
      exact ⟨ρ, hm, rfl, by rw [hp.1]; rfl, rfl⟩
    · right
      intro x hx
      rw [reach, mem_post'] at hx
      obtain ⟨r, hr, hs, hmk, _⟩ := hx
      have hk : r.kids = [] := by
        cases hrk : r.kids with
        | nil => rfl
        | cons k ks => rw [hrk] at hmk; simp [reachL, matchKids] at hmk
      have : ρ.sym ∈ leafSyms B := mem_leafSyms.mpr ⟨r, hr, hk, hs⟩
      have hc := List.contains_iff_mem.mpr this
      rw [hp.2] at hc; cases hc
  · cases h

/-! the early exit on the number of leaf symbols -/

theorem insS_sorted {x : Nat} : ∀ {l : List Nat}, List.Pairwise (· < ·) l → List.Pairwise (· < ·) (insS x l)
  | [], _ => by simp [insS]
  | y :: l, h => by
    have hy := (List.pairwise_cons.mp h).1
    have hl := (List.pairwise_cons.mp h).2
    unfold insS
    split
    · next hxy =>
      refine List.pairwise_cons.mpr ⟨?_, h⟩
      intro z hz
      rcases List.mem_cons.mp hz with rfl | hz
      · exact hxy
      · exact Nat.lt_trans hxy (hy z hz)
    · next hxy =>
      split
      · exact h
      · next hne =>
        refine List.pairwise_cons.mpr ⟨?_, insS_sorted hl⟩
        intro z hz
        rcases mem_insS.mp hz with rfl | hz
        · have : ¬ z = y := by simpa using hne
          omega
        · exact hy z hz

theorem normS_sorted : ∀ l : List Nat, List.Pairwise (· < ·) (normS l)
  | [] => List.Pairwise.nil
  | _ :: l => insS_sorted (normS_sorted l)

/-- pigeonhole for duplicate-free lists -/
theorem length_le_of_sub : ∀ {l₁ l₂ : List Nat}, List.Pairwise (· < ·) l₁ → (∀ x, x ∈ l₁ → x ∈ l₂) →
    l₁.length ≤ l₂.length
  | [], _, _, _ => Nat.zero_le _
  | x :: l₁, l₂, h, hsub => by
    have hx := (List.pairwise_cons.mp h).1
    have hl := (List.pairwise_cons.mp h).2
    have hmem : x ∈ l₂ := hsub x List.mem_cons_self
    have : l₁.length ≤ (l₂.erase x).length := by
      apply length_le_of_sub hl
      intro y hy
      have hne : y ≠ x := by have := hx y hy; omega
      exact (List.mem_erase_of_ne hne).mpr (hsub y (List.mem_cons_of_mem _ hy))
    rw [List.length_erase_of_mem hmem] at this
    have : 0 < l₂.length := List.length_pos_of_mem hmem
    simp only [List.length_cons]
    omega

/-- the early exit of the code is taken exactly when `B` has fewer leaf symbols than `A` -/
theorem sizeExit_isSome {A B : TA} : (sizeExit A B).isSome = true ↔ (leafSyms B).length < (leafSyms A).length := by
  unfold sizeExit
  constructor
  · intro h
    split at h
    · next hlt => exact hlt
    · cases h
  · intro hlt
    rw [if_pos hlt]
    cases hf : A.rules.find? (fun ρ => ρ.kids.isEmpty && !(leafSyms B).contains ρ.sym) with
    | some ρ => rfl
    | none =>
      exfalso
      have hall := List.find?_eq_none.mp hf
      have : (leafSyms A).length ≤ (leafSyms B).length := by
        apply length_le_of_sub (normS_sorted _)
        intro f hf'
        obtain ⟨ρ, hρ, hk, hs⟩ := mem_leafSyms.mp hf'
        have := hall ρ hρ
        simp only [Bool.and_eq_true, Bool.not_eq_true', List.isEmpty_iff, not_and, Bool.not_eq_false,
          List.contains_iff_mem] at this
        exact hs ▸ this hk
      omega
/-- a `return false` of the exploration is justified -/
theorem run_error_ok {A B : TA} {fuel : Nat} {e : Nat × Tree} (h : run A B fuel = some (.error e)) :
    ErrOK A B e := by
  unfold run at h
  split at h
  · next ρ hρ =>
    simp only [Option.some.injEq, Except.error.injEq] at h
    subst h; exact sizeExit_ok hρ
  · have hl := leafPhase_tree (A := A) (B := B) (ρs := A.rules) (st := ⟨[], []⟩) (fun _ h => h)
      ⟨fun _ h => by simp at h, fun _ h => by simp at h⟩
    split at h
    · next e' he =>
      simp only [Option.some.injEq, Except.error.injEq] at h
      subst h; exact hl.2 _ he
    · next st hst => exact (loop_tree (hl.1 st hst)).2 e h

/-- the pairs of a finished `true` run carry trees that reach them -/
theorem run_ok_tree {A B : TA} {fuel : Nat} {P : List Item} (h : run A B fuel = some (.ok P)) :
    ∀ i, i ∈ P → TreeOK A B i := by
  unfold run at h
  split at h
  · simp at h
  · have hl := leafPhase_tree (A := A) (B := B) (ρs := A.rules) (st := ⟨[], []⟩) (fun _ h => h)
      ⟨fun _ h => by simp at h, fun _ h => by simp at h⟩
    split at h
    · simp at h
    · next st hst => exact (loop_tree (hl.1 st hst)).1 P h

/-! ### examples (non-vacuity) -/
namespace InvEx
open InclUpEx

/-- `a → 1`, `b → 1` against `a → 3`, `a → 4`, `b → 3`: the pair `(1, {3,4})` of `a` is replaced by `(1, {3})` of `b` -/
def exS : TA := ⟨[⟨0, [], 1⟩, ⟨1, [], 1⟩], [1]⟩
def exT : TA := ⟨[⟨0, [], 3⟩, ⟨0, [], 4⟩, ⟨1, [], 3⟩], [3]⟩

#guard (match run exS exT 10 with | some (.ok P) => pairs P == [(1, [3])] | _ => false)
#guard (match run exH exG 10 with | some (.ok P) => pairs P == [(3, [1]), (4, [1]), (9, [2])] | _ => false)
#guard (match run exG exH 10 with | some (.error (q, t)) => q == 2 && showTree t == "2(0,1)" | _ => false)
-- the exit on an empty macro-state at a state that is not final
#guard (match run exDeep exA 10 with | some (.error (q, t)) => q == 5 && showTree t == "2(0)" | _ => false)

example : ∃ P, run exH exG 10 = some (.ok P) ∧ upCertB exH exG (pairs P) = true := by
  refine ⟨_, rfl, ?_⟩
  exact run_ok_cert (fuel := 10) rfl
example : ∃ e, run exG exH 10 = some (.error e) ∧ ErrOK exG exH e := by
  refine ⟨_, rfl, ?_⟩
  exact run_error_ok (fuel := 10) rfl
example : ∃ e, run exDeep exA 10 = some (.error e) ∧ e.1 ∉ exDeep.final ∧ ErrOK exDeep exA e := by
  refine ⟨_, rfl, by decide, ?_⟩
  exact run_error_ok (fuel := 10) rfl

end InvEx

end InclUp
end Vata
