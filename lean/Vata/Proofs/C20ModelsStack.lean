import Vata.C20Models
/-!
# C20: the call emulator of `expand` never pops an empty stack and never dereferences an iterator at `end()`

`C20M.ubNext m` says that the NEXT transition of the stack machine of `Vata/InclDownStack.lean` would, in the C++, pop the empty
`ExpandCallEmulator`, fail `assert(callEmulator.empty())` at `_end`, switch on a `retAddr` outside `{0, 1, 2}`, or dereference
`top.tupleSetIter` / `top.tupleSetIter2` at `end()`.  `MOk` is an invariant of the machine with the C++ `pop` (`popAll`) that holds
in the initial state of every call of `expand`, is kept by every transition and excludes `ubNext`.

`Chain ra (f :: K)`: the frame `f` made a call with return address `ra` and `K` are the frames saved below it: either `ra = 0`
(the root call: `f` is the uninitialised `top` the first `EXPAND_PUSH` saved, nothing is below) or `ra ∈ {1, 2}`, `f` stands inside
its loop over the lhs tuples (`tupleSetIter` not at the end; for `ra = 2` also `tupleSetIter2`) and the same holds below with
`f.retAddr`.  This is exactly what `EXPAND_POP_RETURN` / `EXPAND_RETURN` rely on.
-/
namespace Vata.C20M
open Vata Vata.InclDown Vata.InclDownStack

/-- the saved frames are consistent with the return addresses -/
def Chain : Nat → List Frame → Prop
  | _, [] => False
  | ra, g :: K =>
    (ra = 0 ∧ K = []) ∨
    ((ra = 1 ∨ ra = 2) ∧ g.tupleSetIter ≠ [] ∧ (ra = 2 → g.tupleSetIter2 ≠ []) ∧ Chain g.retAddr K)

/-- the program points at which `*top.tupleSetIter` may be read -/
def needsIt : PC → Bool
  | .forTuple2 | .forSimI | .simret | .afterSim | .choiceInit | .doChoice | .forCfI | .stdret | .nextchoice
  | .nexttuple => true
  | _ => false

/-- the program points at which `*top.tupleSetIter2` may be read -/
def needsIt2 : PC → Bool
  | .forSimI | .simret | .afterSim => true
  | _ => false

/-- the invariant of the machine -/
def MOk (m : Machine) : Prop :=
  match m.pc with
  | .call => Chain m.retAddr (m.top :: m.stack)
  | .ret => Chain m.retAddr (m.top :: m.stack)
  | .end => m.stack = []
  | pc => Chain m.top.retAddr m.stack ∧ (needsIt pc = true → m.top.tupleSetIter ≠ []) ∧
      (needsIt2 pc = true → m.top.tupleSetIter2 ≠ [])

theorem chain_ne_nil {ra : Nat} {K : List Frame} (h : Chain ra K) : K ≠ [] := by
  cases K with
  | nil => exact absurd h (by simp [Chain])
  | cons _ _ => simp

theorem chain_ra {ra : Nat} {K : List Frame} (h : Chain ra K) : ra ≤ 2 := by
  cases K with
  | nil => exact absurd h (by simp [Chain])
  | cons g K =>
    simp only [Chain] at h
    omega

/-- the initial state of `expand` satisfies the invariant -/
theorem mok_init (st : St) (p : Nat) (P : List Nat) : MOk (initM st p P) := by
  simp [MOk, initM, Chain]

/-- inside the invariant the next transition executes no undefined operation -/
theorem mok_no_ub {m : Machine} (h : MOk m) : ubNext m = false := by
  rcases m with ⟨pc, top, K, ws, st, ri, S, ra, found⟩
  cases pc <;> simp only [MOk, ubNext, needsIt, needsIt2] at h ⊢
  · -- ret
    have := chain_ra h
    simp only [decide_eq_false_iff_not]; omega
  · -- forSimI
    obtain ⟨_, h2, h3⟩ := h
    simp [h2, h3]
  · -- choiceInit
    simp [h.2.1]
  · -- forCfI
    simp [h.2.1]
  · -- popReturn
    have := chain_ne_nil h.1
    cases K with
    | nil => exact absurd rfl this
    | cons _ _ => rfl
  · -- end
    simp [h]


/-- every transition of the machine with the C++ `pop` keeps the invariant -/
theorem mok_step (o : Ord) (A B : TA) (wit : InclUp.Wit) {m m' : Machine} (h : MOk m)
    (hs : stepM o A B wit popAll m = .inl m') : MOk m' := by
  rcases m with ⟨pc, top, K, ws, st, ri, S, ra, found⟩
  cases pc
  case call =>
    simp only [stepM] at hs
    split at hs
    · cases hs; exact h
    · split at hs
      · cases hs; exact h
      · split at hs
        · cases hs; exact h
        · cases hs
          simp only [MOk, needsIt, needsIt2] at h ⊢
          exact ⟨h, by simp, by simp⟩
  case ret =>
    simp only [MOk] at h
    simp only [stepM] at hs
    split at hs
    · cases hs
      simp only [Chain] at h
      simp only [MOk, needsIt, needsIt2]
      rcases h with ⟨h0, _⟩ | ⟨_, h2, _, h4⟩
      · omega
      · exact ⟨h4, fun _ => h2, by simp⟩
    · cases hs
      simp only [Chain] at h
      simp only [MOk, needsIt, needsIt2]
      rcases h with ⟨h0, _⟩ | ⟨_, h2, h3, h4⟩
      · omega
      · exact ⟨h4, fun _ => h2, fun _ => h3 (by first | rfl | trivial)⟩
    · rename_i h1 h2
      cases hs
      simp only [Chain] at h
      simp only [MOk]
      rcases h with ⟨_, hK⟩ | ⟨h0, _⟩
      · exact hK
      · rcases h0 with h0 | h0
        · exact absurd h0 (h1 ·)
        · exact absurd h0 (h2 ·)
  case forA =>
    simp only [MOk, needsIt, needsIt2] at h
    simp only [stepM] at hs
    split at hs
    · cases hs; simp only [MOk, needsIt, needsIt2]; exact ⟨h.1, by simp, by simp⟩
    · split at hs
      · split at hs <;> (cases hs; simp only [MOk, needsIt, needsIt2]; exact ⟨h.1, by simp, by simp⟩)
      · split at hs <;> (cases hs; simp only [MOk, needsIt, needsIt2]; exact ⟨h.1, by simp, by simp⟩)
  case forTuple =>
    simp only [MOk, needsIt, needsIt2] at h
    simp only [stepM] at hs
    split at hs
    · cases hs; simp only [MOk, needsIt, needsIt2]; exact ⟨h.1, by simp, by simp⟩
    · rename_i he
      cases hs; simp only [MOk, needsIt, needsIt2]
      exact ⟨h.1, fun _ => by rw [he]; simp, by simp⟩
  case forTuple2 =>
    simp only [MOk, needsIt, needsIt2] at h
    simp only [stepM] at hs
    split at hs
    · cases hs; simp only [MOk, needsIt, needsIt2]; exact ⟨h.1, h.2.1, by simp⟩
    · rename_i he
      cases hs; simp only [MOk, needsIt, needsIt2]
      exact ⟨h.1, h.2.1, fun _ => by rw [he]; simp⟩
  case forSimI =>
    simp only [MOk, needsIt, needsIt2] at h
    simp only [stepM] at hs
    split at hs
    · cases hs; simp only [MOk, Chain]
      exact Or.inr ⟨Or.inr (by first | rfl | trivial), h.2.1 (by first | rfl | trivial), fun _ => h.2.2 (by first | rfl | trivial), h.1⟩
    · cases hs; simp only [MOk, needsIt, needsIt2]; exact h
  case simret =>
    simp only [MOk, needsIt, needsIt2] at h
    simp only [stepM] at hs
    split at hs <;> (cases hs; simp only [MOk, needsIt, needsIt2]; exact h)
  case afterSim =>
    simp only [MOk, needsIt, needsIt2] at h
    simp only [stepM] at hs
    split at hs
    · cases hs; simp only [MOk, needsIt, needsIt2]; exact ⟨h.1, h.2.1, by simp⟩
    · cases hs; simp only [MOk, needsIt, needsIt2]; exact ⟨h.1, h.2.1, by simp⟩
  case choiceInit =>
    simp only [MOk, needsIt, needsIt2] at h
    simp only [stepM] at hs
    cases hs; simp only [MOk, needsIt, needsIt2]; exact ⟨h.1, h.2.1, by simp⟩
  case doChoice =>
    simp only [MOk, needsIt, needsIt2] at h
    simp only [stepM] at hs
    cases hs; simp only [MOk, needsIt, needsIt2]; exact ⟨h.1, h.2.1, by simp⟩
  case forCfI =>
    simp only [MOk, needsIt, needsIt2] at h
    simp only [stepM] at hs
    split at hs
    · split at hs
      · cases hs; simp only [MOk, needsIt, needsIt2]; exact ⟨h.1, h.2.1, by simp⟩
      · split at hs
        · cases hs; simp only [MOk, needsIt, needsIt2]; exact ⟨h.1, h.2.1, by simp⟩
        · cases hs; simp only [MOk, Chain]
          exact Or.inr ⟨Or.inl (by first | rfl | trivial), h.2.1 (by first | rfl | trivial), fun e => absurd e (by simp), h.1⟩
    · split at hs <;> (cases hs; simp only [MOk, needsIt, needsIt2]; exact ⟨h.1, by simp, by simp⟩)
  case stdret =>
    simp only [MOk, needsIt, needsIt2] at h
    simp only [stepM] at hs
    split at hs <;> (cases hs; simp only [MOk, needsIt, needsIt2]; exact ⟨h.1, h.2.1, by simp⟩)
  case nextchoice =>
    simp only [MOk, needsIt, needsIt2] at h
    simp only [stepM] at hs
    split at hs <;> (cases hs; simp only [MOk, needsIt, needsIt2]; exact ⟨h.1, h.2.1, by simp⟩)
  case nexttuple =>
    simp only [MOk, needsIt, needsIt2] at h
    simp only [stepM] at hs
    cases hs; simp only [MOk, needsIt, needsIt2]; exact ⟨h.1, by simp, by simp⟩
  case popReturn =>
    simp only [MOk, needsIt, needsIt2] at h
    simp only [stepM] at hs
    split at hs
    · cases hs
    · cases hs
      simp only [MOk, popAll]
      exact h.1
  case «end» =>
    simp only [stepM] at hs
    cases hs

/-- **every state the machine passes through** – started at the entry of `expand` for any operands, any contents of
`nonincluded`, any root pair – satisfies the invariant, hence its next transition executes none of the undefined operations -/
theorem stateAfterM_ok (o : Ord) (A B : TA) (wit : InclUp.Wit) : ∀ (n : Nat) (m m' : Machine), MOk m →
    stateAfterM o A B wit popAll n m = some m' → MOk m'
  | 0, m, m', h, hs => by
    simp only [stateAfterM, Option.some.injEq] at hs
    exact hs ▸ h
  | n+1, m, m', h, hs => by
    simp only [stateAfterM] at hs
    split at hs
    · rename_i m1 hm1
      exact stateAfterM_ok o A B wit n m1 m' (mok_step o A B wit h hm1) hs
    · cases hs

/-- the machine returns only at `_end` or from `EXPAND_POP_RETURN` on the empty emulator -/
theorem inr_pc (o : Ord) (A B : TA) (wit : InclUp.Wit) (pop : Frame → Frame → Frame) {m : Machine} {r : Verdict × St}
    (hs : stepM o A B wit pop m = .inr r) :
    (m.pc = .end ∧ r = (m.found, m.st)) ∨ (m.pc = .popReturn ∧ m.stack = []) := by
  rcases m with ⟨pc, top, K, ws, st, ri, S, ra, found⟩
  cases pc <;> simp only [stepM] at hs
  all_goals first
    | (left; cases hs; exact ⟨rfl, rfl⟩)
    | (right; split at hs <;> first | exact ⟨rfl, rfl⟩ | cases hs)
    | (repeat' split at hs) <;> cases hs
    | cases hs

/-- an answer of `runM` is the result of the last transition of a run of `stateAfterM` -/
theorem runM_exit (o : Ord) (A B : TA) (wit : InclUp.Wit) (pop : Frame → Frame → Frame) : ∀ (n : Nat) (m : Machine)
    (r : Verdict × St), runM o A B wit pop n m = some r →
    ∃ k m', stateAfterM o A B wit pop k m = some m' ∧ stepM o A B wit pop m' = .inr r
  | 0, _, _, h => by simp [runM] at h
  | n+1, m, r, h => by
    simp only [runM] at h
    split at h
    · rename_i m1 hm1
      obtain ⟨k, m', h1, h2⟩ := runM_exit o A B wit pop n m1 r h
      exact ⟨k + 1, m', by simp only [stateAfterM, hm1]; exact h1, h2⟩
    · rename_i r' hr'
      simp only [Option.some.injEq] at h
      subst h
      exact ⟨0, m, rfl, hr'⟩

/-- **every answer of `expand` as coded is returned at `_end` with the call emulator empty** (never from the branch
`ptr_ == nullptr` of `EXPAND_POP_RETURN`, which the model has as a second exit) -/
theorem expandStack_exit (o : Ord) (A B : TA) (wit : InclUp.Wit) {n : Nat} {st : St} {p : Nat} {P : List Nat}
    {r : Verdict × St} (h : expandStack o A B wit popAll n st p P = some r) :
    ∃ k m', stateAfterM o A B wit popAll k (initM st p P) = some m' ∧ m'.pc = .end ∧ m'.stack = [] ∧
      r = (m'.found, m'.st) := by
  obtain ⟨k, m', h1, h2⟩ := runM_exit o A B wit popAll n _ r h
  have hok := stateAfterM_ok o A B wit k _ m' (mok_init st p P) h1
  have hub := mok_no_ub hok
  rcases inr_pc o A B wit popAll h2 with ⟨hpc, hr⟩ | ⟨hpc, hK⟩
  · refine ⟨k, m', h1, hpc, ?_, hr⟩
    rcases m' with ⟨pc, top, K, ws, st', ri, S, ra, found⟩
    simp only at hpc
    subst hpc
    simpa [MOk] using hok
  · exfalso
    rcases m' with ⟨pc, top, K, ws, st', ri, S, ra, found⟩
    simp only at hpc hK
    subst hpc; subst hK
    simp [ubNext] at hub

end Vata.C20M
