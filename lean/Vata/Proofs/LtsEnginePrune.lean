import Vata.Proofs.LtsEnginePot
/-!
# The LTS simulation engine: the pruning loops of `processRemove`

`enqueueToRemove`, `decrStep` (one `SharedCounter::decr`), `decrBlock` (all decrements after one pair of blocks was
erased), `pruneCol`, `pruneRow` and the fold over `preList`, with the "lagging counter" invariant `JInv`: while the
decrements for an erased pair are being executed the counters of `b1` exceed their specification by the number of
decrements still to come.
-/
namespace Vata.LE
open Vata.L

/-- `enqueueToRemove` -/
theorem enqueue_spec (e : Eng) (i a q : Nat) :
    let e' := enqueueToRemove e i a q
    e'.part = e.part ∧ e'.rel = e.rel ∧ e'.inset = e.inset ∧ e'.cnt = e.cnt ∧
      (∀ i' a', ¬ (i' = i ∧ a' = a) → e'.remv i' a' = e.remv i' a') ∧
      (e'.remv i a).isSome = true ∧ (slotL e' i a).Perm (q :: slotL e i a) ∧
      e'.queue = (if (e.remv i a).isSome = true then e.queue else (i, a) :: e.queue) := by
  intro e'
  have hset : ∀ (e1 : Eng) v, e1.rem = setRem e.rem i a v →
      (∀ i' a', ¬ (i' = i ∧ a' = a) → e1.remv i' a' = e.remv i' a') ∧ e1.remv i a = v := by
    intro e1 v h
    constructor
    · intro i' a' hne
      rw [remv_eq, h, rget_setRem, if_neg hne]; rfl
    · rw [remv_eq, h, rget_setRem, if_pos ⟨rfl, rfl⟩]
  cases hr : e.remv i a with
  | none =>
    have he' : e' = { e with
        rem := setRem e.rem i a (some [(e.nextId, [q])])
        nextId := e.nextId + 1
        queue := (i, a) :: e.queue } := by
      show enqueueToRemove e i a q = _
      unfold enqueueToRemove; rw [hr]
    obtain ⟨h1, h2⟩ := hset e' (some [(e.nextId, [q])]) (by rw [he'])
    refine ⟨by rw [he'], by rw [he'], by rw [he'], by rw [he'], h1, by rw [h2]; rfl, ?_, by rw [he']; simp⟩
    rw [slotL_some h2, slotL_none hr]
    simp [flat]
  | some r =>
    cases r with
    | nil =>
      have he' : e' = { e with rem := setRem e.rem i a (some [(e.nextId, [q])]), nextId := e.nextId + 1 } := by
        show enqueueToRemove e i a q = _
        unfold enqueueToRemove; rw [hr]
      obtain ⟨h1, h2⟩ := hset e' (some [(e.nextId, [q])]) (by rw [he'])
      refine ⟨by rw [he'], by rw [he'], by rw [he'], by rw [he'], h1, by rw [h2]; rfl, ?_, by rw [he']; simp⟩
      rw [slotL_some h2, slotL_some hr]
      simp [flat]
    | cons s rest =>
      obtain ⟨id, seg⟩ := s
      by_cases hsh : sharedId e i a id = true
      · have he' : e' = { e with
            rem := setRem e.rem i a (some ((e.nextId, [q]) :: (id, seg) :: rest))
            nextId := e.nextId + 1 } := by
          show enqueueToRemove e i a q = _
          unfold enqueueToRemove; rw [hr]; simp only [hsh, if_true]
        obtain ⟨h1, h2⟩ := hset e' _ (by rw [he'])
        refine ⟨by rw [he'], by rw [he'], by rw [he'], by rw [he'], h1, by rw [h2]; rfl, ?_, by rw [he']; simp⟩
        rw [slotL_some h2, slotL_some hr]
        simp [flat]
      · have he' : e' = { e with rem := setRem e.rem i a (some ((id, seg ++ [q]) :: rest)) } := by
          show enqueueToRemove e i a q = _
          unfold enqueueToRemove; rw [hr]; simp only [hsh]; rfl
        obtain ⟨h1, h2⟩ := hset e' _ (by rw [he'])
        refine ⟨by rw [he'], by rw [he'], by rw [he'], by rw [he'], h1, by rw [h2]; rfl, ?_, by rw [he']; simp⟩
        rw [slotL_some h2, slotL_some hr]
        simp only [flat, List.flatMap_cons, List.append_assoc, List.singleton_append]
        exact List.perm_middle

/-! ### the lagging-counter invariant -/

structure JInv (L : LTS) (B : Nat) (s1 : Eng) (b1 : Nat) (e : Eng) (ks : List (Nat × Nat)) : Prop where
  wf : WF L e
  qk : QOK e
  hC : ∀ i a q, i < e.part.length → a ∈ e.ins i →
    e.cntv i a q = cntSpec L e i a q + (if i = b1 then ks.count (a, q) else 0)
  hD : ∀ i a q q', i < e.part.length → q ∈ slotL e i a → (q, a, q') ∈ L.edges → ¬ e.U i q'
  hN : ∀ i a, i < e.part.length → (slotL e i a).Nodup ∧ ∀ q, q ∈ slotL e i a → q < L.n
  hF : ∀ i a q, i < e.part.length → a ∈ e.ins i → cntSpec L e i a q = 0 →
    q ∈ slotL e i a ∨ cntSpec L s1 i a q = 0 ∨ (i = b1 ∧ 0 < ks.count (a, q))
  hK : ∀ a q, q ∈ slotL e b1 a → ks.count (a, q) = 0
  hKin : ∀ k, k ∈ ks → k.1 ∈ e.ins b1 ∧ k.2 < L.n
  hmono : ∀ i a q, q ∈ slotL s1 i a → q ∈ slotL e i a
  hpot : pot L e ≤ B

variable {B : Nat}

theorem JInv.change {L : LTS} {s1 e : Eng} {b1 : Nat} (j : JInv L B s1 b1 e []) (b2 : Nat) : JInv L B s1 b2 e [] := by
  refine ⟨j.wf, j.qk, ?_, j.hD, j.hN, ?_, fun _ _ _ => rfl, fun k hk => (by cases hk), j.hmono, j.hpot⟩
  · intro i a q hi ha
    rw [j.hC i a q hi ha]; simp
  · intro i a q hi ha h0
    rcases j.hF i a q hi ha h0 with h | h | h
    · exact Or.inl h
    · exact Or.inr (Or.inl h)
    · simp at h

theorem cntSpec_congr {L : LTS} {e e' : Eng} (h1 : e'.part = e.part) (h2 : e'.rel = e.rel) (i a q : Nat) :
    cntSpec L e' i a q = cntSpec L e i a q := by
  simp only [cntSpec, Eng.row, h1, h2]

theorem U_congr {e e' : Eng} (h1 : e'.part = e.part) (h2 : e'.rel = e.rel) (i r : Nat) : e'.U i r ↔ e.U i r := by
  simp only [Eng.U, Eng.row, h1, h2]

/-- the counter update of `decr` -/
def decrCnt (e : Eng) (i a q : Nat) : Eng := { e with cnt := setCnt e.cnt i a q (e.cntv i a q - 1) }

theorem decrStep_eq (i a : Nat) (e : Eng) (q : Nat) :
    decrStep i a e q =
      if (e.cntv i a q - 1 == 0) = true then enqueueToRemove (decrCnt e i a q) i a q else decrCnt e i a q := rfl

/-- the measure does not grow by a `decr` of a positive counter -/
theorem pot_decrStep {L : LTS} {e : Eng} {b1 a q : Nat} (hb1 : b1 < e.part.length) (ha : a < labels L)
    (hq : q < L.n) (hpos : 1 ≤ e.cntv b1 a q) : pot L (decrStep b1 a e q) ≤ pot L e := by
  have hk0 : (b1, a, q) ∈ keysOf L e.part.length := (mem_keysOf L _ b1 a q).mpr ⟨hb1, ha, hq⟩
  have hcnt1 : ∀ i' a' q', (decrCnt e b1 a q).cntv i' a' q' =
      if i' = b1 ∧ a' = a ∧ q' = q then e.cntv b1 a q - 1 else e.cntv i' a' q' := by
    intro i' a' q'
    rw [cntv_eq, cntv_eq]; exact cget_setCnt _ _ _ _ _ _ _ _
  rw [decrStep_eq]
  by_cases hz : (e.cntv b1 a q - 1 == 0) = true
  · rw [if_pos hz]
    have hz' : e.cntv b1 a q - 1 = 0 := by simpa using hz
    obtain ⟨p1, _, _, p4, _, _, _, p8⟩ := enqueue_spec (decrCnt e b1 a q) b1 a q
    have p1 : (enqueueToRemove (decrCnt e b1 a q) b1 a q).part = e.part := p1
    have hq' : (enqueueToRemove (decrCnt e b1 a q) b1 a q).queue.length ≤ e.queue.length + 1 := by
      rw [p8]
      split
      · exact Nat.le_succ _
      · exact Nat.le_refl _
    have hpos' : posCnt L (enqueueToRemove (decrCnt e b1 a q) b1 a q) + 1 ≤ posCnt L e := by
      unfold posCnt
      rw [p1]
      apply countP_lose _ _ _ (b1, a, q) hk0
      · simp only [decide_eq_true_eq]; omega
      · simp only [cntv_eq, p4]
        rw [← cntv_eq, hcnt1, if_pos ⟨rfl, rfl, rfl⟩, hz']; rfl
      · intro k _ hne
        obtain ⟨i', a', q'⟩ := k
        simp only [cntv_eq, p4]
        rw [← cntv_eq, hcnt1, if_neg]
        · rfl
        · rintro ⟨h1, h2, h3⟩
          exact hne (by rw [h1, h2, h3])
    unfold pot
    rw [p1]
    omega
  · rw [if_neg hz]
    have hz' : e.cntv b1 a q - 1 ≠ 0 := by simpa using hz
    have hpos' : posCnt L (decrCnt e b1 a q) = posCnt L e := by
      unfold posCnt
      apply List.countP_congr
      intro k _
      obtain ⟨i', a', q'⟩ := k
      simp only [hcnt1, decide_eq_true_eq]
      by_cases hk : i' = b1 ∧ a' = a ∧ q' = q
      · rw [if_pos hk, hk.1, hk.2.1, hk.2.2]; omega
      · rw [if_neg hk]
    unfold pot
    rw [hpos']
    exact Nat.le_refl _

/-- one `decr` (+ `enqueueToRemove` when the counter reaches zero) -/
theorem decrStep_spec {L : LTS} {s1 e : Eng} {b1 a q : Nat} {ks : List (Nat × Nat)} (hb1 : b1 < e.part.length)
    (j : JInv L B s1 b1 e ((a, q) :: ks)) :
    JInv L B s1 b1 (decrStep b1 a e q) ks ∧ (decrStep b1 a e q).part = e.part ∧ (decrStep b1 a e q).rel = e.rel ∧
      (decrStep b1 a e q).inset = e.inset := by
  have hain : a ∈ e.ins b1 := (j.hKin (a, q) List.mem_cons_self).1
  have hqn : q < L.n := (j.hKin (a, q) List.mem_cons_self).2
  have hcv : e.cntv b1 a q = cntSpec L e b1 a q + ks.count (a, q) + 1 := by
    rw [j.hC b1 a q hb1 hain, if_pos rfl, List.count_cons_self]; omega
  have hv : e.cntv b1 a q - 1 = cntSpec L e b1 a q + ks.count (a, q) := by omega
  -- the state after the counter update
  have hcnt1 : ∀ i' a' q', (decrCnt e b1 a q).cntv i' a' q' =
      if i' = b1 ∧ a' = a ∧ q' = q then e.cntv b1 a q - 1 else e.cntv i' a' q' := by
    intro i' a' q'
    rw [cntv_eq, cntv_eq]; exact cget_setCnt _ _ _ _ _ _ _ _
  have hcount : ∀ a' q', ¬ (a' = a ∧ q' = q) → ((a, q) :: ks).count (a', q') = ks.count (a', q') := by
    intro a' q' hne
    apply List.count_cons_of_ne
    intro h
    injection h with h1 h2
    exact hne ⟨h1.symm, h2.symm⟩
  have hkin' : ∀ k, k ∈ ks → k.1 ∈ e.ins b1 ∧ k.2 < L.n := fun k hk => j.hKin k (List.mem_cons_of_mem _ hk)
  -- the counter part of the invariant after the update, for any state with these counters and the same rest
  have hCnew : ∀ e' : Eng, e'.part = e.part → e'.rel = e.rel → e'.inset = e.inset →
      (∀ i' a' q', e'.cntv i' a' q' = if i' = b1 ∧ a' = a ∧ q' = q then e.cntv b1 a q - 1 else e.cntv i' a' q') →
      ∀ i' a' q', i' < e'.part.length → a' ∈ e'.ins i' →
        e'.cntv i' a' q' = cntSpec L e' i' a' q' + (if i' = b1 then ks.count (a', q') else 0) := by
    intro e' h1 h2 h3 h4 i' a' q' hi' ha'
    rw [h1] at hi'
    have ha'' : a' ∈ e.ins i' := by simpa only [Eng.ins, h3] using ha'
    rw [h4, cntSpec_congr h1 h2]
    by_cases hk : i' = b1 ∧ a' = a ∧ q' = q
    · obtain ⟨k1, k2, k3⟩ := hk
      subst k1; subst k2; subst k3
      simp only [and_self, if_true]
      exact hv
    · rw [if_neg hk, j.hC i' a' q' hi' ha'']
      by_cases hi1 : i' = b1
      · rw [if_pos hi1, if_pos hi1, hcount a' q' (fun h => hk ⟨hi1, h⟩)]
      · rw [if_neg hi1, if_neg hi1]
  have hpotle : pot L (decrStep b1 a e q) ≤ B :=
    Nat.le_trans (pot_decrStep hb1 (j.wf.ins_lt hb1 hain) hqn (by omega)) j.hpot
  rw [decrStep_eq] at hpotle ⊢
  by_cases hz : (e.cntv b1 a q - 1 == 0) = true
  · -- the counter reached zero
    rw [if_pos hz] at hpotle ⊢
    have hz' : e.cntv b1 a q - 1 = 0 := by simpa using hz
    have hspec0 : cntSpec L e b1 a q = 0 := by omega
    have hks0 : ks.count (a, q) = 0 := by omega
    obtain ⟨p1, p2, p3, p4, p5, p6, p7, p8⟩ :=
      enqueue_spec (decrCnt e b1 a q) b1 a q
    have p1 : (enqueueToRemove (decrCnt e b1 a q) b1 a q).part = e.part := p1
    have p2 : (enqueueToRemove (decrCnt e b1 a q) b1 a q).rel = e.rel := p2
    have p3 : (enqueueToRemove (decrCnt e b1 a q) b1 a q).inset = e.inset := p3
    have hslot_e1 : ∀ i' a', slotL (decrCnt e b1 a q) i' a' =
        slotL e i' a' := fun _ _ => rfl
    have hslot_other : ∀ i' a', ¬ (i' = b1 ∧ a' = a) →
        slotL (enqueueToRemove (decrCnt e b1 a q) b1 a q) i' a' =
          slotL e i' a' := by
      intro i' a' hne
      simp only [slotL, p5 i' a' hne]; rfl
    rw [hslot_e1] at p7
    have hmem_slot : ∀ i' a' x, x ∈ slotL (enqueueToRemove (decrCnt e b1 a q) b1 a q) i' a' ↔ x ∈ slotL e i' a' ∨ (i' = b1 ∧ a' = a ∧ x = q) := by
      intro i' a' x
      by_cases hk : i' = b1 ∧ a' = a
      · obtain ⟨k1, k2⟩ := hk
        subst k1; subst k2
        rw [p7.mem_iff, List.mem_cons]
        constructor
        · rintro (h | h)
          · exact Or.inr ⟨rfl, rfl, h⟩
          · exact Or.inl h
        · rintro (h | ⟨_, _, h⟩)
          · exact Or.inr h
          · exact Or.inl h
      · rw [hslot_other i' a' hk]
        constructor
        · exact Or.inl
        · rintro (h | ⟨k1, k2, _⟩)
          · exact h
          · exact absurd ⟨k1, k2⟩ hk
    have hqnot : q ∉ slotL e b1 a := by
      intro h
      have := j.hK a q h
      rw [List.count_cons_self] at this
      omega
    have w' : WF L (enqueueToRemove (decrCnt e b1 a q) b1 a q) :=
      WF.congr p1 p2 p3 j.wf
    have hcntv' : ∀ i' a' q', (enqueueToRemove (decrCnt e b1 a q) b1 a q).cntv i' a' q' = if i' = b1 ∧ a' = a ∧ q' = q then e.cntv b1 a q - 1 else e.cntv i' a' q' := by
      intro i' a' q'
      rw [← hcnt1 i' a' q', cntv_eq, cntv_eq, p4]
    refine ⟨⟨w', ?_, hCnew _ p1 p2 p3 hcntv', ?_, ?_, ?_, ?_, ?_, ?_, hpotle⟩, p1, p2, p3⟩
    · -- queue
      refine ⟨?_, ?_, ?_⟩
      · rw [p8]
        split
        · exact j.qk.hnd
        · rename_i hns
          refine List.nodup_cons.mpr ⟨?_, j.qk.hnd⟩
          intro hin
          exact hns ((j.qk.hiff b1 a).mpr hin)
      · intro i' a'
        rw [p8]
        by_cases hk : i' = b1 ∧ a' = a
        · obtain ⟨k1, k2⟩ := hk
          subst k1; subst k2
          simp only [p6, true_iff]
          split
          · rename_i hs; exact (j.qk.hiff i' a').mp hs
          · exact List.mem_cons_self
        · rw [p5 i' a' hk]
          have h0 : (decrCnt e b1 a q).remv i' a' = e.remv i' a' := rfl
          rw [h0, j.qk.hiff i' a']
          split
          · exact Iff.rfl
          · rw [List.mem_cons]
            constructor
            · exact Or.inr
            · rintro (h | h)
              · injection h with h1 h2; exact absurd ⟨h1, h2⟩ hk
              · exact h
      · intro i' a' hin
        rw [p1]
        rw [p8] at hin
        split at hin
        · exact j.qk.hlt i' a' hin
        · rcases List.mem_cons.mp hin with h | h
          · injection h with h1 h2; rw [h1]; exact hb1
          · exact j.qk.hlt i' a' h
    · -- hD
      intro i' a' x x' hi' hx hed
      rw [p1] at hi'
      rw [U_congr p1 p2]
      rcases (hmem_slot i' a' x).mp hx with h | ⟨k1, k2, k3⟩
      · exact j.hD i' a' x x' hi' h hed
      · subst k1; subst k2; subst k3
        exact cntSpec_eq_zero.mp hspec0 x' hed
    · -- hN
      intro i' a' hi'
      rw [p1] at hi'
      by_cases hk : i' = b1 ∧ a' = a
      · obtain ⟨k1, k2⟩ := hk
        subst k1; subst k2
        refine ⟨p7.nodup_iff.mpr (List.nodup_cons.mpr ⟨hqnot, (j.hN i' a' hi').1⟩), ?_⟩
        intro x hx
        rcases (hmem_slot i' a' x).mp hx with h | ⟨_, _, k3⟩
        · exact (j.hN i' a' hi').2 x h
        · rw [k3]; exact hqn
      · rw [hslot_other i' a' hk]; exact j.hN i' a' hi'
    · -- hF
      intro i' a' x hi' ha' h0
      rw [p1] at hi'
      have ha'' : a' ∈ e.ins i' := by simpa only [Eng.ins, p3] using ha'
      rw [cntSpec_congr p1 p2] at h0
      rw [hmem_slot]
      rcases j.hF i' a' x hi' ha'' h0 with h | h | ⟨h1, h2⟩
      · exact Or.inl (Or.inl h)
      · exact Or.inr (Or.inl h)
      · by_cases hk : a' = a ∧ x = q
        · exact Or.inl (Or.inr ⟨h1, hk.1, hk.2⟩)
        · rw [hcount a' x hk] at h2
          exact Or.inr (Or.inr ⟨h1, h2⟩)
    · -- hK
      intro a' x hx
      rcases (hmem_slot b1 a' x).mp hx with h | ⟨_, k2, k3⟩
      · have := j.hK a' x h
        by_cases hk : a' = a ∧ x = q
        · rw [hk.1, hk.2]; exact hks0
        · rw [hcount a' x hk] at this; exact this
      · rw [k2, k3]; exact hks0
    · intro k hk
      have := hkin' k hk
      exact ⟨by simpa only [Eng.ins, p3] using this.1, this.2⟩
    · intro i' a' x hx
      exact (hmem_slot i' a' x).mpr (Or.inl (j.hmono i' a' x hx))
  · -- the counter stays positive
    rw [if_neg hz] at hpotle ⊢
    have hz' : e.cntv b1 a q - 1 ≠ 0 := by simpa using hz
    have w' : WF L (decrCnt e b1 a q) := WF.congr (e := e) rfl rfl rfl j.wf
    refine ⟨⟨w', ⟨j.qk.hnd, j.qk.hiff, j.qk.hlt⟩, hCnew _ rfl rfl rfl hcnt1, j.hD, j.hN, ?_, ?_, hkin', j.hmono,
      hpotle⟩, rfl, rfl, rfl⟩
    · intro i' a' x hi' ha' h0
      rcases j.hF i' a' x hi' ha' h0 with h | h | ⟨h1, h2⟩
      · exact Or.inl h
      · exact Or.inr (Or.inl h)
      · by_cases hk : a' = a ∧ x = q
        · obtain ⟨k1, k2⟩ := hk
          subst k1; subst k2; subst h1
          have h0' : cntSpec L e i' a' x = 0 := h0
          exact Or.inr (Or.inr ⟨rfl, by omega⟩)
        · rw [hcount a' x hk] at h2
          exact Or.inr (Or.inr ⟨h1, h2⟩)
    · intro a' x hx
      have := j.hK a' x hx
      by_cases hk : a' = a ∧ x = q
      · obtain ⟨k1, k2⟩ := hk
        subst k1; subst k2
        rw [List.count_cons_self] at this; omega
      · rw [hcount a' x hk] at this; exact this

/-! ### frames and folds of `decrStep` -/

theorem decrStep_frame (i a : Nat) (e : Eng) (q : Nat) :
    (decrStep i a e q).part = e.part ∧ (decrStep i a e q).rel = e.rel ∧ (decrStep i a e q).inset = e.inset := by
  rw [decrStep_eq]
  split
  · obtain ⟨p1, p2, p3, _⟩ := enqueue_spec (decrCnt e i a q) i a q
    exact ⟨p1, p2, p3⟩
  · exact ⟨rfl, rfl, rfl⟩

/-- all decrements for a list of keys `(label, state)` -/
def decrAll (b1 : Nat) (e : Eng) (ks : List (Nat × Nat)) : Eng := ks.foldl (fun e k => decrStep b1 k.1 e k.2) e

theorem decrAll_frame (b1 : Nat) (ks : List (Nat × Nat)) (e : Eng) :
    (decrAll b1 e ks).part = e.part ∧ (decrAll b1 e ks).rel = e.rel ∧ (decrAll b1 e ks).inset = e.inset := by
  induction ks generalizing e with
  | nil => exact ⟨rfl, rfl, rfl⟩
  | cons k ks ih =>
    obtain ⟨h1, h2, h3⟩ := ih (decrStep b1 k.1 e k.2)
    obtain ⟨g1, g2, g3⟩ := decrStep_frame b1 k.1 e k.2
    exact ⟨h1.trans g1, h2.trans g2, h3.trans g3⟩

theorem decrAll_append (b1 : Nat) (e : Eng) (k1 k2 : List (Nat × Nat)) :
    decrAll b1 e (k1 ++ k2) = decrAll b1 (decrAll b1 e k1) k2 := by
  simp [decrAll, List.foldl_append]

theorem decrAll_spec {L : LTS} {s1 : Eng} {b1 : Nat} (ks : List (Nat × Nat)) (e : Eng) (hb1 : b1 < e.part.length)
    (j : JInv L B s1 b1 e ks) : JInv L B s1 b1 (decrAll b1 e ks) [] := by
  induction ks generalizing e with
  | nil => exact j
  | cons k ks ih =>
    obtain ⟨a, q⟩ := k
    obtain ⟨j', h1, _, _⟩ := decrStep_spec hb1 j
    exact ih _ (by rw [h1]; exact hb1) j'

/-- the keys decremented by `decrBlock` -/
def decrKeys (L : LTS) (e : Eng) (b1 b2 : Nat) : List (Nat × Nat) :=
  ((e.ins b2).filter (fun a => (e.ins b1).contains a)).flatMap (fun a =>
    (e.block b2).flatMap (fun elem => (pre L a elem).map (fun p => (a, p))))

theorem decr_pre (L : LTS) (b1 a elem : Nat) (e : Eng) :
    (pre L a elem).foldl (decrStep b1 a) e = decrAll b1 e ((pre L a elem).map (fun p => (a, p))) := by
  simp [decrAll, List.foldl_map]

theorem decr_block (L : LTS) (b1 a : Nat) (blk : List Nat) (e : Eng) :
    blk.foldl (fun (e : Eng) elem => (pre L a elem).foldl (decrStep b1 a) e) e =
      decrAll b1 e (blk.flatMap (fun elem => (pre L a elem).map (fun p => (a, p)))) := by
  induction blk generalizing e with
  | nil => rfl
  | cons x blk ih =>
    simp only [List.foldl_cons, List.flatMap_cons]
    rw [decrAll_append, ← decr_pre, ih]

theorem decrBlock_eq_aux (L : LTS) (e0 : Eng) (b1 b2 : Nat) (as : List Nat) (e : Eng) (hp : e.part = e0.part)
    (hi : e.inset = e0.inset) :
    as.foldl (fun (e : Eng) a =>
      if (e.ins b1).contains a then
        (e.block b2).foldl (fun (e : Eng) elem => (pre L a elem).foldl (decrStep b1 a) e) e
      else e) e =
    decrAll b1 e ((as.filter (fun a => (e0.ins b1).contains a)).flatMap (fun a =>
      (e0.block b2).flatMap (fun elem => (pre L a elem).map (fun p => (a, p))))) := by
  induction as generalizing e with
  | nil => rfl
  | cons a as ih =>
    have hins : e.ins b1 = e0.ins b1 := by simp only [Eng.ins, hi]
    have hblk : e.block b2 = e0.block b2 := by simp only [Eng.block, hp]
    simp only [List.foldl_cons, List.filter_cons, hins, hblk]
    by_cases hc : (e0.ins b1).contains a = true
    · rw [if_pos hc, if_pos hc, List.flatMap_cons, decrAll_append, decr_block]
      obtain ⟨f1, _, f3⟩ := decrAll_frame b1 ((e0.block b2).flatMap (fun elem => (pre L a elem).map (fun p => (a, p)))) e
      exact ih _ (f1.trans hp) (f3.trans hi)
    · rw [if_neg hc, if_neg hc]
      exact ih e hp hi

theorem decrBlock_eq (L : LTS) (e : Eng) (b1 b2 : Nat) : decrBlock L e b1 b2 = decrAll b1 e (decrKeys L e b1 b2) :=
  decrBlock_eq_aux L e b1 b2 (e.ins b2) e rfl rfl

/-! ### counting the keys -/

/-- number of `a`-edges from `q` whose target satisfies `P` -/
def edgeCnt (L : LTS) (a q : Nat) (P : Nat → Bool) : Nat :=
  L.edges.countP (fun ed => ed.1 == q && ed.2.1 == a && P ed.2.2)

theorem countP_or {α : Type} (p p1 p2 : α → Bool) (l : List α) (h : ∀ x, x ∈ l → p x = (p1 x || p2 x))
    (hd : ∀ x, x ∈ l → ¬ (p1 x = true ∧ p2 x = true)) : l.countP p = l.countP p1 + l.countP p2 := by
  induction l with
  | nil => rfl
  | cons x l ih =>
    have ih' := ih (fun y hy => h y (List.mem_cons_of_mem _ hy)) (fun y hy => hd y (List.mem_cons_of_mem _ hy))
    rw [List.countP_cons, List.countP_cons, List.countP_cons, ih', h x List.mem_cons_self]
    have := hd x List.mem_cons_self
    cases h1 : p1 x <;> cases h2 : p2 x <;> simp_all <;> omega

theorem edgeCnt_or (L : LTS) (a q : Nat) (P P1 P2 : Nat → Bool) (h : ∀ r, P r = (P1 r || P2 r))
    (hd : ∀ r, ¬ (P1 r = true ∧ P2 r = true)) : edgeCnt L a q P = edgeCnt L a q P1 + edgeCnt L a q P2 := by
  unfold edgeCnt
  apply countP_or
  · intro ed _
    rw [h]; cases (ed.1 == q && ed.2.1 == a) <;> simp
  · intro ed _ hc
    simp only [Bool.and_eq_true] at hc
    exact hd ed.2.2 ⟨hc.1.2, hc.2.2⟩

theorem count_pre (L : LTS) (a q elem : Nat) :
    ((pre L a elem).map (fun p => (a, p))).count (a, q) = edgeCnt L a q (fun r => r == elem) := by
  unfold pre edgeCnt
  rw [List.count_eq_countP, List.countP_map, List.countP_map, List.countP_filter]
  apply List.countP_congr
  intro ed _
  simp only [Function.comp, Bool.and_eq_true, beq_iff_eq, Prod.mk.injEq, true_and]
  constructor
  · rintro ⟨h1, h2, h3⟩; exact ⟨⟨h1, h2⟩, h3⟩
  · rintro ⟨⟨h1, h2⟩, h3⟩; exact ⟨h1, h2, h3⟩

theorem count_block (L : LTS) (a q : Nat) (blk : List Nat) (hb : blk.Nodup) :
    (blk.flatMap (fun elem => (pre L a elem).map (fun p => (a, p)))).count (a, q) =
      edgeCnt L a q (fun r => blk.contains r) := by
  induction blk with
  | nil =>
    simp only [List.flatMap_nil, List.count_nil, edgeCnt]
    symm
    rw [List.countP_eq_zero]
    intro ed _; simp
  | cons x blk ih =>
    have hnd := List.nodup_cons.mp hb
    rw [List.flatMap_cons, List.count_append, count_pre, ih hnd.2]
    symm
    apply edgeCnt_or
    · intro r
      simp only [List.contains_cons]
    · intro r hc
      simp only [beq_iff_eq, List.contains_iff_mem] at hc
      exact hnd.1 (hc.1 ▸ hc.2)

theorem count_labels (a q : Nat) (as : List Nat) (has : as.Nodup) (g : Nat → List (Nat × Nat))
    (hg : ∀ a' k, k ∈ g a' → k.1 = a') :
    (as.flatMap g).count (a, q) = if a ∈ as then (g a).count (a, q) else 0 := by
  induction as with
  | nil => simp
  | cons x as ih =>
    have hnd := List.nodup_cons.mp has
    rw [List.flatMap_cons, List.count_append, ih hnd.2]
    by_cases hax : a = x
    · subst hax
      simp [hnd.1]
    · have h0 : (g x).count (a, q) = 0 := by
        rw [List.count_eq_zero]
        intro hm
        exact hax (hg x _ hm)
      simp [hax, h0]

/-- how often a key is decremented: once for every edge into the erased block -/
theorem count_decrKeys {L : LTS} {e : Eng} (w : WF L e) {b1 b2 : Nat} (hb2 : b2 < e.part.length) (a q : Nat)
    (ha : a ∈ e.ins b1) :
    (decrKeys L e b1 b2).count (a, q) = edgeCnt L a q (fun r => (e.block b2).contains r) := by
  unfold decrKeys
  have hnd : (e.ins b2).Nodup := (w.hinset b2 hb2).1.1
  rw [count_labels a q _ (nodup_filter _ hnd)]
  · rw [count_block L a q _ (w.hnd b2)]
    split
    · rfl
    · rename_i hnot
      symm
      unfold edgeCnt
      rw [List.countP_eq_zero]
      intro ed hed hc
      simp only [Bool.and_eq_true, beq_iff_eq, List.contains_iff_mem] at hc
      apply hnot
      rw [List.mem_filter]
      refine ⟨(w.mem_ins hb2 a).mpr ⟨ed.2.2, hc.2, (hasIn_iff L a ed.2.2).mpr ⟨ed.1, ?_⟩⟩, by simpa using ha⟩
      obtain ⟨x, y, z⟩ := ed
      simp only at hc ⊢
      rw [← hc.1.2]; exact hed
  · intro a' k hk
    simp only [List.mem_flatMap, List.mem_map] at hk
    obtain ⟨_, _, _, _, h⟩ := hk
    rw [← h]

/-! ### erasing one pair of blocks -/

/-- `relation_.erase(col)` in row `b1` -/
def eraseRel (e : Eng) (b1 col : Nat) : Eng :=
  { e with rel := e.rel.set b1 ((e.row b1).filter (fun c => c != col)) }

theorem pruneCol_eq (L : LTS) (mask : List Nat) (b1 : Nat) (e : Eng) (col : Nat) :
    pruneCol L mask b1 e col = if mask.contains col then decrBlock L (eraseRel e b1 col) b1 col else e := rfl

theorem eraseRel_row {e : Eng} {b1 : Nat} (col : Nat) (hb1 : b1 < e.rel.length) (i : Nat) :
    (eraseRel e b1 col).row i = if i = b1 then (e.row b1).filter (fun c => c != col) else e.row i := by
  simp only [Eng.row, eraseRel, List.getD_eq_getElem?_getD, List.getElem?_set]
  by_cases h : i = b1
  · subst h; simp [hb1]
  · have : ¬ b1 = i := fun e => h e.symm
    simp [h, this]

theorem cntSpec_edgeCnt (L : LTS) (e : Eng) (i a q : Nat) :
    cntSpec L e i a q = edgeCnt L a q (fun r => (e.row i).contains (blockOf e.part r)) := rfl

/-- the specification of the counter of `b1` drops by the number of edges into the erased block -/
theorem cntSpec_erase {L : LTS} {e : Eng} (hL : LtsOK L) (w : WF L e) {b1 col : Nat} (hb1 : b1 < e.part.length)
    (hcol : col ∈ e.row b1) (a q : Nat) :
    cntSpec L e b1 a q = cntSpec L (eraseRel e b1 col) b1 a q +
      edgeCnt L a q (fun r => (e.block col).contains r) := by
  have hrow := eraseRel_row (e := e) col (by rw [w.hrel]; exact hb1) b1
  rw [if_pos rfl] at hrow
  rw [cntSpec_edgeCnt, cntSpec_edgeCnt, hrow]
  have hpart : (eraseRel e b1 col).part = e.part := rfl
  rw [hpart]
  have h2 : edgeCnt L a q (fun r => (e.block col).contains r) = edgeCnt L a q (fun r => blockOf e.part r == col) := by
    unfold edgeCnt
    apply List.countP_congr
    intro ed hed
    have hdst := (hL ed hed).2
    simp only [Bool.and_eq_true, beq_iff_eq, List.contains_iff_mem]
    constructor
    · rintro ⟨h1, h3⟩; exact ⟨h1, w.blockOf_eq h3⟩
    · rintro ⟨h1, h3⟩; exact ⟨h1, h3 ▸ (w.blockOf_mem hdst).2⟩
  rw [h2]
  apply edgeCnt_or
  · intro r
    by_cases hr : blockOf e.part r = col
    · rw [hr]; simp [hcol]
    · have : (blockOf e.part r == col) = false := by simpa using hr
      rw [this, Bool.or_false]
      simp only [List.contains_eq_mem, List.mem_filter, bne_iff_ne, ne_eq, hr, not_false_eq_true, and_true]
  · intro r hc
    simp only [List.contains_iff_mem, List.mem_filter, bne_iff_ne, ne_eq, beq_iff_eq] at hc
    exact hc.1.2 hc.2

theorem pruneCol_mask_spec {L : LTS} {s1 e : Eng} {b1 col : Nat} (hL : LtsOK L) (j : JInv L B s1 b1 e [])
    (hb1 : b1 < e.part.length) (hcol : col ∈ e.row b1) (hne : col ≠ b1) :
    JInv L B s1 b1 (decrBlock L (eraseRel e b1 col) b1 col) [] ∧
      (decrBlock L (eraseRel e b1 col) b1 col).part = e.part ∧
      (decrBlock L (eraseRel e b1 col) b1 col).inset = e.inset ∧
      (∀ i, (decrBlock L (eraseRel e b1 col) b1 col).row i =
        if i = b1 then (e.row b1).filter (fun c => c != col) else e.row i) := by
  have w := j.wf
  have hb1r : b1 < e.rel.length := by rw [w.hrel]; exact hb1
  have hrow := eraseRel_row (e := e) col hb1r
  have hcollt : col < e.part.length := w.hrow b1 col hcol
  have hsub : ∀ i c, c ∈ (eraseRel e b1 col).row i → c ∈ e.row i := by
    intro i c hc
    rw [hrow] at hc
    split at hc
    · rename_i h; rw [h]; exact (List.mem_filter.mp hc).1
    · exact hc
  have hpart : (eraseRel e b1 col).part = e.part := rfl
  have hinset : (eraseRel e b1 col).inset = e.inset := rfl
  have hblock : ∀ i, (eraseRel e b1 col).block i = e.block i := fun _ => rfl
  have hinsv : ∀ i, (eraseRel e b1 col).ins i = e.ins i := fun _ => rfl
  have hslot : ∀ i a, slotL (eraseRel e b1 col) i a = slotL e i a := fun _ _ => rfl
  have hcntv : ∀ i a q, (eraseRel e b1 col).cntv i a q = e.cntv i a q := fun _ _ _ => rfl
  have hspec_other : ∀ i a q, i ≠ b1 → cntSpec L (eraseRel e b1 col) i a q = cntSpec L e i a q := by
    intro i a q hi
    rw [cntSpec_edgeCnt, cntSpec_edgeCnt, hrow, if_neg hi, hpart]
  have hU : ∀ i r, (eraseRel e b1 col).U i r → e.U i r := fun i r h => hsub i _ h
  have w1 : WF L (eraseRel e b1 col) := by
    refine ⟨?_, w.hins, w.hdisj, w.hnd, w.hcov, w.hne, ?_, ?_, w.hinset, ?_⟩
    · show (e.rel.set b1 _).length = e.part.length
      rw [List.length_set]; exact w.hrel
    · intro i c hc; exact w.hrow i c (hsub i c hc)
    · intro i hi
      rw [hrow]
      split
      · rename_i h
        rw [← h]
        refine List.mem_filter.mpr ⟨w.hrefl i hi, ?_⟩
        simp only [bne_iff_ne, ne_eq]
        exact fun hc => hne (by rw [← hc, h])
      · exact w.hrefl i hi
    · intro i
      rw [hrow]
      split
      · exact nodup_filter _ (w.hrownd b1)
      · exact w.hrownd i
  have hkeys : ∀ a q, a ∈ e.ins b1 →
      (decrKeys L (eraseRel e b1 col) b1 col).count (a, q) = edgeCnt L a q (fun r => (e.block col).contains r) :=
    fun a q ha => count_decrKeys w1 hcollt a q ha
  have j1 : JInv L B s1 b1 (eraseRel e b1 col) (decrKeys L (eraseRel e b1 col) b1 col) := by
    refine ⟨w1, ⟨j.qk.hnd, j.qk.hiff, j.qk.hlt⟩, ?_, ?_, j.hN, ?_, ?_, ?_, j.hmono, j.hpot⟩
    · intro i a q hi ha
      rw [hcntv, j.hC i a q hi ha]
      by_cases hib : i = b1
      · subst hib
        rw [if_pos rfl, if_pos rfl, hkeys a q ha, cntSpec_erase hL w hb1 hcol a q]
        simp
      · rw [if_neg hib, if_neg hib, hspec_other i a q hib]
    · intro i a q q' hi hq hed hu
      exact j.hD i a q q' hi hq hed (hU i q' hu)
    · intro i a q hi ha h0
      by_cases hib : i = b1
      · subst hib
        have hsp := cntSpec_erase hL w hb1 hcol a q
        rw [h0, Nat.zero_add] at hsp
        by_cases hz : cntSpec L e i a q = 0
        · rcases j.hF i a q hi ha hz with h | h | h
          · exact Or.inl h
          · exact Or.inr (Or.inl h)
          · simp at h
        · refine Or.inr (Or.inr ⟨rfl, ?_⟩)
          rw [hkeys a q ha, ← hsp]; omega
      · rw [hspec_other i a q hib] at h0
        rcases j.hF i a q hi ha h0 with h | h | h
        · exact Or.inl h
        · exact Or.inr (Or.inl h)
        · simp at h
    · intro a q hq
      rw [List.count_eq_zero]
      intro hm
      have hm' : (a, q) ∈ decrKeys L (eraseRel e b1 col) b1 col := hm
      unfold decrKeys at hm'
      simp only [List.mem_flatMap, List.mem_map, List.mem_filter] at hm'
      obtain ⟨a', _, elem, helem, p, hp, hk⟩ := hm'
      injection hk with hk1 hk2
      subst hk1; subst hk2
      have hed : (p, a', elem) ∈ L.edges := (mem_pre L a' elem p).mp hp
      refine j.hD b1 a' p elem hb1 hq hed ?_
      show blockOf e.part elem ∈ e.row b1
      rw [w.blockOf_eq (show elem ∈ e.block col from helem)]
      exact hcol
    · intro k hk
      unfold decrKeys at hk
      simp only [List.mem_flatMap, List.mem_map, List.mem_filter] at hk
      obtain ⟨a', ⟨_, ha'⟩, elem, _, p, hp, hk'⟩ := hk
      rw [← hk']
      exact ⟨by simpa using ha', (hL _ ((mem_pre L a' elem p).mp hp)).1⟩
  have jf := decrAll_spec _ _ (show b1 < (eraseRel e b1 col).part.length from hb1) j1
  obtain ⟨f1, f2, f3⟩ := decrAll_frame b1 (decrKeys L (eraseRel e b1 col) b1 col) (eraseRel e b1 col)
  rw [decrBlock_eq]
  refine ⟨jf, f1, f3, ?_⟩
  intro i
  have : (decrAll b1 (eraseRel e b1 col) (decrKeys L (eraseRel e b1 col) b1 col)).row i =
      (eraseRel e b1 col).row i := by simp only [Eng.row, f2]
  rw [this, hrow]

/-! ### a row, and all rows of `preList` -/

theorem pruneCols_spec {L : LTS} {s1 : Eng} {b1 : Nat} (mask : List Nat) (hL : LtsOK L) :
    ∀ (cols : List Nat) (e : Eng), cols.Nodup → (∀ c, c ∈ cols → c ∈ e.row b1) →
      (∀ c, c ∈ cols → c ∈ mask → c ≠ b1) → JInv L B s1 b1 e [] → b1 < e.part.length →
      JInv L B s1 b1 (cols.foldl (pruneCol L mask b1) e) [] ∧
      (cols.foldl (pruneCol L mask b1) e).part = e.part ∧ (cols.foldl (pruneCol L mask b1) e).inset = e.inset ∧
      ∀ i, (cols.foldl (pruneCol L mask b1) e).row i =
        if i = b1 then (e.row b1).filter (fun c => !(mask.contains c && cols.contains c)) else e.row i
  | [], e, _, _, _, j, _ => by
    refine ⟨j, rfl, rfl, ?_⟩
    intro i
    split
    · rename_i h
      rw [h]
      symm
      apply List.filter_eq_self.mpr
      intro x _; simp
    · rfl
  | c :: cols, e, hnd, hin, hne, j, hb1 => by
    have hnd' := List.nodup_cons.mp hnd
    simp only [List.foldl_cons]
    rw [pruneCol_eq]
    by_cases hm : mask.contains c = true
    · rw [if_pos hm]
      have hcm : c ∈ mask := by simpa using hm
      obtain ⟨j2, p2, i2, r2⟩ := pruneCol_mask_spec hL j hb1 (hin c List.mem_cons_self) (hne c List.mem_cons_self hcm)
      have hin2 : ∀ x, x ∈ cols → x ∈ (decrBlock L (eraseRel e b1 c) b1 c).row b1 := by
        intro x hx
        rw [r2, if_pos rfl]
        refine List.mem_filter.mpr ⟨hin x (List.mem_cons_of_mem _ hx), ?_⟩
        simp only [bne_iff_ne, ne_eq]
        exact fun h => hnd'.1 (h ▸ hx)
      obtain ⟨j3, p3, i3, r3⟩ := pruneCols_spec mask hL cols _ hnd'.2 hin2
        (fun x hx => hne x (List.mem_cons_of_mem _ hx)) j2 (by rw [p2]; exact hb1)
      refine ⟨j3, p3.trans p2, i3.trans i2, ?_⟩
      intro i
      rw [r3 i]
      by_cases hib : i = b1
      · rw [if_pos hib, if_pos hib, r2, if_pos rfl, List.filter_filter]
        apply List.filter_congr
        intro x _
        by_cases hxc : x = c
        · subst hxc; simp [hcm]
        · simp [hxc]
      · rw [if_neg hib, if_neg hib, r2, if_neg hib]
    · rw [if_neg hm]
      obtain ⟨j3, p3, i3, r3⟩ := pruneCols_spec mask hL cols e hnd'.2
        (fun x hx => hin x (List.mem_cons_of_mem _ hx)) (fun x hx => hne x (List.mem_cons_of_mem _ hx)) j hb1
      refine ⟨j3, p3, i3, ?_⟩
      intro i
      rw [r3 i]
      by_cases hib : i = b1
      · rw [if_pos hib, if_pos hib]
        apply List.filter_congr
        intro x _
        by_cases hxc : x = c
        · subst hxc
          have : x ∉ mask := by simpa using hm
          simp [this]
        · simp [hxc]
      · rw [if_neg hib, if_neg hib]

theorem pruneRow_spec {L : LTS} {s1 e : Eng} {b1 : Nat} (mask : List Nat) (hL : LtsOK L) (j : JInv L B s1 b1 e [])
    (hb1 : b1 < e.part.length) (hnm : b1 ∉ mask) :
    JInv L B s1 b1 (pruneRow L mask e b1) [] ∧ (pruneRow L mask e b1).part = e.part ∧
      (pruneRow L mask e b1).inset = e.inset ∧
      ∀ i, (pruneRow L mask e b1).row i =
        if i = b1 then (e.row b1).filter (fun c => !mask.contains c) else e.row i := by
  obtain ⟨j3, p3, i3, r3⟩ := pruneCols_spec mask hL (e.row b1) e (j.wf.hrownd b1) (fun _ h => h)
    (fun c _ hc h => hnm (h ▸ hc)) j hb1
  refine ⟨j3, p3, i3, ?_⟩
  intro i
  show ((e.row b1).foldl (pruneCol L mask b1) e).row i = _
  rw [r3 i]
  by_cases hib : i = b1
  · rw [if_pos hib, if_pos hib]
    apply List.filter_congr
    intro x hx
    have : (e.row b1).contains x = true := by simpa using hx
    rw [this, Bool.and_true]
  · rw [if_neg hib, if_neg hib]

theorem prunePhase_spec {L : LTS} {s1 : Eng} (mask : List Nat) (hL : LtsOK L) :
    ∀ (pl : List Nat) (e : Eng), (∀ b, b ∈ pl → b < e.part.length ∧ b ∉ mask) → JInv L B s1 0 e [] →
      JInv L B s1 0 (pl.foldl (pruneRow L mask) e) [] ∧ (pl.foldl (pruneRow L mask) e).part = e.part ∧
      (pl.foldl (pruneRow L mask) e).inset = e.inset ∧
      ∀ i, (pl.foldl (pruneRow L mask) e).row i =
        if i ∈ pl then (e.row i).filter (fun c => !mask.contains c) else e.row i
  | [], e, _, j => ⟨j, rfl, rfl, fun i => by simp⟩
  | b :: pl, e, hpl, j => by
    simp only [List.foldl_cons]
    obtain ⟨j2, p2, i2, r2⟩ := pruneRow_spec mask hL (j.change b) (hpl b List.mem_cons_self).1
      (hpl b List.mem_cons_self).2
    obtain ⟨j3, p3, i3, r3⟩ := prunePhase_spec mask hL pl (pruneRow L mask e b)
      (fun c hc => by rw [p2]; exact hpl c (List.mem_cons_of_mem _ hc)) (j2.change 0)
    refine ⟨j3, p3.trans p2, i3.trans i2, ?_⟩
    intro i
    rw [r3 i, r2 i]
    by_cases hib : i = b
    · subst hib
      simp only [List.mem_cons, true_or, if_true]
      split
      · rw [List.filter_filter]; simp
      · rfl
    · simp only [List.mem_cons, hib, false_or, if_false]

end Vata.LE
