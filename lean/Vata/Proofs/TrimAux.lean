import Vata.Spec
import Vata.Trim
/-!
# Helper lemmas for `Vata/Proofs/TrimModel.lean`

* the duplicate-free union `ins` / `unionL` / `dedupL` of `Vata/Ref.lean`;
* the generic "iterate until the length stops growing" scheme `iterFix` that `prodIter` and `tdIter` are instances of,
  with the counting argument that `|rules| + 1` rounds always reach the fixed point;
* closure / soundness of `prodStates` and `tdReach`;
* the bridge between the functional run semantics `reach` and explicit runs `RunT`.
-/
namespace Vata

/-! ### `ins`, `unionL`, `dedupL` -/

theorem mem_ins {x y : Nat} {l : List Nat} : y ∈ ins x l ↔ y ∈ l ∨ y = x := by
  unfold ins
  split
  · rename_i h
    rw [List.contains_iff_mem] at h
    constructor
    · exact Or.inl
    · rintro (h' | h')
      · exact h'
      · rw [h']; exact h
  · simp [List.mem_append]

theorem length_ins_le (x : Nat) (l : List Nat) : l.length ≤ (ins x l).length := by
  unfold ins
  split
  · exact Nat.le_refl _
  · simp

theorem mem_of_length_ins {x : Nat} {l : List Nat} (h : (ins x l).length = l.length) : x ∈ l := by
  unfold ins at h
  split at h
  · rename_i h'; exact List.contains_iff_mem.mp h'
  · simp at h

theorem ins_of_mem {x : Nat} {l : List Nat} (h : x ∈ l) : ins x l = l := by
  unfold ins
  rw [if_pos (List.contains_iff_mem.mpr h)]

theorem unionL_cons (S : List Nat) (x : Nat) (l : List Nat) : unionL S (x :: l) = unionL (ins x S) l := by
  simp [unionL, List.foldl_cons]

theorem unionL_nil (S : List Nat) : unionL S [] = S := rfl

theorem mem_unionL {S l : List Nat} {y : Nat} : y ∈ unionL S l ↔ y ∈ S ∨ y ∈ l := by
  induction l generalizing S with
  | nil => simp [unionL_nil]
  | cons x l ih =>
    rw [unionL_cons, ih, mem_ins, List.mem_cons]
    constructor
    · rintro ((h | h) | h)
      · exact Or.inl h
      · exact Or.inr (Or.inl h)
      · exact Or.inr (Or.inr h)
    · rintro (h | h | h)
      · exact Or.inl (Or.inl h)
      · exact Or.inl (Or.inr h)
      · exact Or.inr h

theorem length_unionL_le (S l : List Nat) : S.length ≤ (unionL S l).length := by
  induction l generalizing S with
  | nil => exact Nat.le_refl _
  | cons x l ih =>
    rw [unionL_cons]
    exact Nat.le_trans (length_ins_le x S) (ih (ins x S))

/-- if the union is not longer then nothing new was added -/
theorem sub_of_length_unionL {S l : List Nat} (h : (unionL S l).length = S.length) : ∀ x, x ∈ l → x ∈ S := by
  induction l generalizing S with
  | nil => intro x hx; simp at hx
  | cons y l ih =>
    rw [unionL_cons] at h
    have h1 := length_ins_le y S
    have h2 := length_unionL_le (ins y S) l
    have hy : y ∈ S := mem_of_length_ins (by omega)
    rw [ins_of_mem hy] at h
    intro x hx
    rcases List.mem_cons.mp hx with hx | hx
    · rw [hx]; exact hy
    · exact ih h x hx

theorem unionL_of_sub {S l : List Nat} (h : ∀ x, x ∈ l → x ∈ S) : unionL S l = S := by
  induction l generalizing S with
  | nil => rfl
  | cons y l ih =>
    rw [unionL_cons, ins_of_mem (h y List.mem_cons_self)]
    exact ih (fun x hx => h x (List.mem_cons_of_mem _ hx))

/-- if the union is longer then a new element was added -/
theorem exists_new_of_length_unionL {S l : List Nat} (h : (unionL S l).length ≠ S.length) : ∃ x, x ∈ l ∧ x ∉ S := by
  apply Classical.byContradiction
  intro hn
  apply h
  rw [unionL_of_sub]
  intro x hx
  apply Classical.byContradiction
  intro hx'
  exact hn ⟨x, hx, hx'⟩

theorem mem_dedupL {l : List Nat} {y : Nat} : y ∈ dedupL l ↔ y ∈ l := by
  unfold dedupL
  rw [mem_unionL]
  simp

theorem mem_states {A : TA} {q : Nat} : q ∈ A.states ↔ Occurs A q := by
  unfold TA.states Occurs
  rw [mem_dedupL, List.mem_append, List.mem_flatMap]
  constructor
  · rintro (⟨r, hr, hq⟩ | h)
    · right
      refine ⟨r, hr, ?_⟩
      rcases List.mem_cons.mp hq with h | h
      · exact Or.inl h.symm
      · exact Or.inr h
    · exact Or.inl h
  · rintro (h | ⟨r, hr, h⟩)
    · exact Or.inr h
    · left
      refine ⟨r, hr, ?_⟩
      unfold Rule.states
      rcases h with h | h
      · rw [h]; exact List.mem_cons_self
      · exact List.mem_cons_of_mem _ h

/-! ### counting -/

theorem countP_lt_of_new {α : Type} {p q : α → Bool} {l : List α} (hmono : ∀ x, x ∈ l → p x = true → q x = true)
    (hnew : ∃ x, x ∈ l ∧ q x = true ∧ p x ≠ true) : l.countP p < l.countP q := by
  induction l with
  | nil => obtain ⟨x, hx, _⟩ := hnew; simp at hx
  | cons a l ih =>
    rw [List.countP_cons, List.countP_cons]
    have hle : l.countP p ≤ l.countP q :=
      List.countP_mono_left (fun x hx => hmono x (List.mem_cons_of_mem _ hx))
    obtain ⟨x, hx, hqx, hpx⟩ := hnew
    rcases List.mem_cons.mp hx with hxa | hxl
    · rw [hxa] at hqx hpx
      rw [if_pos hqx, if_neg hpx]
      omega
    · have := ih (fun x hx => hmono x (List.mem_cons_of_mem _ hx)) ⟨x, hxl, hqx, hpx⟩
      by_cases hpa : p a = true
      · rw [if_pos hpa, if_pos (hmono a List.mem_cons_self hpa)]; omega
      · rw [if_neg hpa]; split <;> omega

/-! ### the generic iteration -/

/-- iterate `f` at most `n` times, stopping as soon as the length does not change -/
def iterFix (f : List Nat → List Nat) : Nat → List Nat → List Nat
  | 0, S => S
  | n+1, S => if (f S).length == S.length then S else iterFix f n (f S)

theorem prodIter_eq (A : TA) (n : Nat) (P : List Nat) : prodIter A n P = iterFix (prodStep A) n P := by
  induction n generalizing P with
  | zero => rfl
  | succ n ih => simp only [prodIter, iterFix, ih]

theorem tdIter_eq (Rs : List Rule) (n : Nat) (S : List Nat) : tdIter Rs n S = iterFix (tdStep Rs) n S := by
  induction n generalizing S with
  | zero => rfl
  | succ n ih => simp only [tdIter, iterFix, ih]

/-- an invariant of `f` is an invariant of the iteration -/
theorem iterFix_inv {f : List Nat → List Nat} (I : List Nat → Prop) (hf : ∀ S, I S → I (f S)) :
    ∀ (n : Nat) (S : List Nat), I S → I (iterFix f n S) := by
  intro n
  induction n with
  | zero => intro S h; exact h
  | succ n ih =>
    intro S h
    unfold iterFix
    split
    · exact h
    · exact ih (f S) (hf S h)

/-- counting argument: with a measure bounded by `B` that strictly grows in every length-changing round,
`n` rounds with `B < n + μ S` reach a point where the length no longer changes -/
theorem iterFix_fix {f : List Nat → List Nat} (μ : List Nat → Nat) (B : Nat) (hB : ∀ S, μ S ≤ B)
    (hinc : ∀ S, (f S).length ≠ S.length → μ S < μ (f S)) :
    ∀ (n : Nat) (S : List Nat), B < n + μ S → (f (iterFix f n S)).length = (iterFix f n S).length := by
  intro n
  induction n with
  | zero => intro S h; have := hB S; omega
  | succ n ih =>
    intro S h
    unfold iterFix
    split
    · rename_i heq; exact beq_iff_eq.mp heq
    · rename_i hne
      have hne' : (f S).length ≠ S.length := fun he => hne (beq_iff_eq.mpr he)
      have := hinc S hne'
      exact ih (f S) (by omega)

/-- the measure: number of rules all of whose states are in `S` -/
def inCount (Rs : List Rule) (S : List Nat) : Nat :=
  Rs.countP (fun r => S.contains r.parent && r.kids.all (fun k => S.contains k))

theorem inCount_le (Rs : List Rule) (S : List Nat) : inCount Rs S ≤ Rs.length := List.countP_le_length

theorem inCount_lt {Rs : List Rule} {S S' : List Nat} (hsub : ∀ x, x ∈ S → x ∈ S')
    (hnew : ∃ r, r ∈ Rs ∧ r.parent ∈ S' ∧ (∀ k, k ∈ r.kids → k ∈ S') ∧ ¬ (r.parent ∈ S ∧ ∀ k, k ∈ r.kids → k ∈ S)) :
    inCount Rs S < inCount Rs S' := by
  apply countP_lt_of_new
  · intro r _
    simp only [Bool.and_eq_true, List.contains_iff_mem, List.all_eq_true]
    exact fun ⟨h1, h2⟩ => ⟨hsub _ h1, fun k hk => hsub _ (h2 k hk)⟩
  · obtain ⟨r, hr, h1, h2, h3⟩ := hnew
    refine ⟨r, hr, ?_, ?_⟩
    · simp only [Bool.and_eq_true, List.contains_iff_mem, List.all_eq_true]
      exact ⟨h1, h2⟩
    · intro h
      apply h3
      simp only [Bool.and_eq_true, List.contains_iff_mem, List.all_eq_true] at h
      exact h

/-! ### productive states -/

theorem mem_prodStep {A : TA} {P : List Nat} {q : Nat} :
    q ∈ prodStep A P ↔ q ∈ P ∨ ∃ r, r ∈ A.rules ∧ (∀ k, k ∈ r.kids → k ∈ P) ∧ r.parent = q := by
  unfold prodStep
  rw [mem_unionL]
  simp only [List.mem_map, List.mem_filter, List.all_eq_true, List.contains_iff_mem]
  constructor
  · rintro (h | ⟨r, ⟨h1, h2⟩, h3⟩)
    · exact Or.inl h
    · exact Or.inr ⟨r, h1, h2, h3⟩
  · rintro (h | ⟨r, h1, h2, h3⟩)
    · exact Or.inl h
    · exact Or.inr ⟨r, ⟨h1, h2⟩, h3⟩

theorem prodStep_sub (A : TA) (P : List Nat) : ∀ x, x ∈ P → x ∈ prodStep A P :=
  fun _ hx => mem_prodStep.mpr (Or.inl hx)

theorem prodClosed_of_length {A : TA} {P : List Nat} (h : (prodStep A P).length = P.length) : ProdClosed A P := by
  intro r hr hk
  apply sub_of_length_unionL h
  simp only [List.mem_map, List.mem_filter, List.all_eq_true, List.contains_iff_mem]
  exact ⟨r, ⟨hr, hk⟩, rfl⟩

theorem prodStep_inc {A : TA} {P : List Nat} (h : (prodStep A P).length ≠ P.length) :
    inCount A.rules P < inCount A.rules (prodStep A P) := by
  obtain ⟨x, hx, hxP⟩ := exists_new_of_length_unionL h
  simp only [List.mem_map, List.mem_filter, List.all_eq_true, List.contains_iff_mem] at hx
  obtain ⟨r, ⟨hr, hk⟩, hp⟩ := hx
  apply inCount_lt (prodStep_sub A P)
  refine ⟨r, hr, mem_prodStep.mpr (Or.inr ⟨r, hr, hk, rfl⟩), fun k hk' => prodStep_sub A P k (hk k hk'), ?_⟩
  rintro ⟨h1, _⟩
  rw [hp] at h1
  exact hxP h1

theorem prodIter_closed (A : TA) (n : Nat) (P : List Nat) (h : A.rules.length < n + inCount A.rules P) :
    ProdClosed A (prodIter A n P) := by
  rw [prodIter_eq]
  apply prodClosed_of_length
  exact iterFix_fix (inCount A.rules) A.rules.length (inCount_le A.rules) (fun S => prodStep_inc) n P h

/-- `|rules| + 1` rounds suffice: the result is closed under the rules -/
theorem prodStates_closed (A : TA) : ProdClosed A (prodStates A) := by
  unfold prodStates
  apply prodIter_closed
  omega

theorem isProdClosedB_iff {A : TA} {P : List Nat} : isProdClosedB A P = true ↔ ProdClosed A P := by
  unfold isProdClosedB ProdClosed
  simp only [List.all_eq_true, Bool.or_eq_true, Bool.not_eq_true', List.contains_iff_mem]
  constructor
  · intro h r hr hk
    rcases h r hr with h' | h'
    · rw [← Bool.not_eq_true, List.all_eq_true] at h'
      exact absurd (fun k hk' => List.contains_iff_mem.mpr (hk k hk')) h'
    · exact h'
  · intro h r hr
    by_cases hk : ∀ k, k ∈ r.kids → k ∈ P
    · exact Or.inr (h r hr hk)
    · left
      rw [← Bool.not_eq_true, List.all_eq_true]
      intro h'
      exact hk (fun k hk' => List.contains_iff_mem.mp (h' k hk'))

/-- trees for a list of productive states -/
theorem exists_trees (A : TA) : ∀ ks : List Nat, (∀ k, k ∈ ks → Productive A k) →
    ∃ ts, matchKids ks (reachL A ts) = true
  | [], _ => ⟨[], rfl⟩
  | k :: ks, h => by
    obtain ⟨t, ht⟩ := h k List.mem_cons_self
    obtain ⟨ts, hts⟩ := exists_trees A ks (fun k' hk' => h k' (List.mem_cons_of_mem _ hk'))
    refine ⟨t :: ts, ?_⟩
    simp only [reachL, matchKids, Bool.and_eq_true, List.contains_iff_mem]
    exact ⟨ht, hts⟩

theorem productive_of_rule {A : TA} {r : Rule} (hr : r ∈ A.rules) (hk : ∀ k, k ∈ r.kids → Productive A k) :
    Productive A r.parent := by
  obtain ⟨ts, hts⟩ := exists_trees A r.kids hk
  refine ⟨.node r.sym ts, ?_⟩
  rw [reach, mem_post']
  exact ⟨r, hr, rfl, hts, rfl⟩

theorem prodStep_sound {A : TA} {P : List Nat} (h : ∀ q, q ∈ P → Productive A q) :
    ∀ q, q ∈ prodStep A P → Productive A q := by
  intro q hq
  rcases mem_prodStep.mp hq with hq | ⟨r, hr, hk, hp⟩
  · exact h q hq
  · rw [← hp]
    exact productive_of_rule hr (fun k hk' => h k (hk k hk'))

theorem prodStates_sound (A : TA) : ∀ q, q ∈ prodStates A → Productive A q := by
  unfold prodStates
  rw [prodIter_eq]
  apply iterFix_inv (fun P => ∀ q, q ∈ P → Productive A q) (fun S => prodStep_sound)
  intro q hq
  simp at hq

/-! ### top-down reachable states -/

/-- `S` is closed under going from the parent of a rule to its children -/
def TdClosed (Rs : List Rule) (S : List Nat) : Prop := ∀ r, r ∈ Rs → r.parent ∈ S → ∀ k, k ∈ r.kids → k ∈ S

theorem mem_tdStep {Rs : List Rule} {S : List Nat} {q : Nat} :
    q ∈ tdStep Rs S ↔ q ∈ S ∨ ∃ r, r ∈ Rs ∧ r.parent ∈ S ∧ q ∈ r.kids := by
  unfold tdStep
  rw [mem_unionL]
  simp only [List.mem_flatMap, List.mem_filter, List.contains_iff_mem]
  constructor
  · rintro (h | ⟨r, ⟨h1, h2⟩, h3⟩)
    · exact Or.inl h
    · exact Or.inr ⟨r, h1, h2, h3⟩
  · rintro (h | ⟨r, h1, h2, h3⟩)
    · exact Or.inl h
    · exact Or.inr ⟨r, ⟨h1, h2⟩, h3⟩

theorem tdStep_sub (Rs : List Rule) (S : List Nat) : ∀ x, x ∈ S → x ∈ tdStep Rs S :=
  fun _ hx => mem_tdStep.mpr (Or.inl hx)

theorem tdClosed_of_length {Rs : List Rule} {S : List Nat} (h : (tdStep Rs S).length = S.length) : TdClosed Rs S := by
  intro r hr hp k hk
  apply sub_of_length_unionL h
  simp only [List.mem_flatMap, List.mem_filter, List.contains_iff_mem]
  exact ⟨r, ⟨hr, hp⟩, hk⟩

theorem tdStep_inc {Rs : List Rule} {S : List Nat} (h : (tdStep Rs S).length ≠ S.length) :
    inCount Rs S < inCount Rs (tdStep Rs S) := by
  obtain ⟨x, hx, hxS⟩ := exists_new_of_length_unionL h
  simp only [List.mem_flatMap, List.mem_filter, List.contains_iff_mem] at hx
  obtain ⟨r, ⟨hr, hp⟩, hk⟩ := hx
  apply inCount_lt (tdStep_sub Rs S)
  refine ⟨r, hr, tdStep_sub Rs S _ hp, fun k hk' => mem_tdStep.mpr (Or.inr ⟨r, hr, hp, hk'⟩), ?_⟩
  rintro ⟨_, h2⟩
  exact hxS (h2 x hk)

theorem tdIter_closed (Rs : List Rule) (n : Nat) (S : List Nat) (h : Rs.length < n + inCount Rs S) :
    TdClosed Rs (tdIter Rs n S) := by
  rw [tdIter_eq]
  apply tdClosed_of_length
  exact iterFix_fix (inCount Rs) Rs.length (inCount_le Rs) (fun S => tdStep_inc) n S h

theorem tdIter_sub (Rs : List Rule) (n : Nat) (S : List Nat) : ∀ x, x ∈ S → x ∈ tdIter Rs n S := by
  rw [tdIter_eq]
  exact iterFix_inv (fun S' => ∀ x, x ∈ S → x ∈ S') (fun S' h x hx => tdStep_sub Rs S' x (h x hx)) n S (fun _ h => h)

/-- `|rules| + 1` rounds suffice: the result is closed under the rules -/
theorem tdReach_closed (A : TA) : TdClosed A.rules (tdReach A) := by
  unfold tdReach
  apply tdIter_closed
  omega

theorem tdReach_final (A : TA) : ∀ q, q ∈ A.final → q ∈ tdReach A := by
  intro q hq
  unfold tdReach
  exact tdIter_sub _ _ _ q (mem_dedupL.mpr hq)

theorem isTdClosedB_iff {Rs : List Rule} {S : List Nat} : isTdClosedB Rs S = true ↔ TdClosed Rs S := by
  unfold isTdClosedB TdClosed
  simp only [List.all_eq_true, Bool.or_eq_true, Bool.not_eq_true', List.contains_iff_mem]
  constructor
  · intro h r hr hp k hk
    rcases h r hr with h' | h'
    · rw [← Bool.not_eq_true, List.contains_iff_mem] at h'
      exact absurd hp h'
    · exact h' k hk
  · intro h r hr
    by_cases hp : r.parent ∈ S
    · exact Or.inr (h r hr hp)
    · left
      rw [← Bool.not_eq_true, List.contains_iff_mem]
      exact hp

theorem tdStep_sound {A : TA} {S : List Nat} (h : ∀ q, q ∈ S → TdReachable A q) :
    ∀ q, q ∈ tdStep A.rules S → TdReachable A q := by
  intro q hq
  rcases mem_tdStep.mp hq with hq | ⟨r, hr, hp, hk⟩
  · exact h q hq
  · exact TdReachable.step hr (h _ hp) hk

theorem tdReach_sound (A : TA) : ∀ q, q ∈ tdReach A → TdReachable A q := by
  unfold tdReach
  rw [tdIter_eq]
  apply iterFix_inv (fun S => ∀ q, q ∈ S → TdReachable A q) (fun S => tdStep_sound)
  intro q hq
  exact TdReachable.final (mem_dedupL.mp hq)

theorem tdReachable_sub_closed {A : TA} {S : List Nat} (hf : ∀ q, q ∈ A.final → q ∈ S) (hc : TdClosed A.rules S) :
    ∀ q, TdReachable A q → q ∈ S := by
  intro q h
  induction h with
  | final hq => exact hf _ hq
  | step hr _ hk ih => exact hc _ hr ih _ hk

end Vata
