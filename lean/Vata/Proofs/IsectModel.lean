import Vata.IsectModel
import Vata.Proofs.TrimModel
/-!
# Property C02 – intersection: the models `isectTD` (top-down product of the C++) and `isectFull` accept exactly
the intersection of the two languages

Both are instances of the certificate theorem `isect_cert` (`Vata/Isect.lean`): the output of `isectTD` is
`prodOn A B (dom m) (lookupF m)` up to set equality of the rules, the map is injective (fresh numbers), its domain
contains `F_A × F_B` and is closed (final check `isClosedB`).
-/
namespace Vata
namespace Isx

/-! ### languages only depend on the SETS of rules and final states -/

theorem accepts_sub {P Q : TA} (hr : ∀ r, r ∈ P.rules → r ∈ Q.rules) (hf : ∀ q, q ∈ P.final → q ∈ Q.final) (t : Tree) :
    accepts P t = true → accepts Q t = true := by
  simp only [accepts, accepting, List.any_eq_true, List.contains_iff_mem]
  rintro ⟨q, hq, hfin⟩
  exact ⟨q, reach_mono P Q hr t q hq, hf q hfin⟩

theorem accepts_congr_sets {P Q : TA} (hr : ∀ r, r ∈ P.rules ↔ r ∈ Q.rules) (hf : ∀ q, q ∈ P.final ↔ q ∈ Q.final)
    (t : Tree) : accepts P t = accepts Q t := by
  rw [Bool.eq_iff_iff]
  exact ⟨accepts_sub (fun r => (hr r).mp) (fun q => (hf q).mp) t, accepts_sub (fun r => (hr r).mpr) (fun q => (hf q).mpr) t⟩

/-! ### association lists -/

theorem mem_dom_iff {m : PMap} {p : Nat × Nat} : p ∈ m.dom ↔ ∃ n, m.lookup p = some n := by
  induction m with
  | nil => simp [PMap.dom]
  | cons e m ih =>
    obtain ⟨k, v⟩ := e
    simp only [PMap.dom, List.map_cons, List.mem_cons, List.lookup_cons] at ih ⊢
    by_cases h : p = k
    · subst h; simp
    · have : (p == k) = false := by simpa using h
      rw [this]
      simp only [h, false_or]
      exact ih

theorem lookup_none_iff {m : PMap} {p : Nat × Nat} : m.lookup p = none ↔ p ∉ m.dom := by
  rw [mem_dom_iff]
  cases m.lookup p <;> simp

/-- the map only grows and never rebinds -/
def Ext (m m' : PMap) : Prop := ∀ p n, m.lookup p = some n → m'.lookup p = some n

theorem Ext.refl (m : PMap) : Ext m m := fun _ _ h => h
theorem Ext.trans {m m' m'' : PMap} (h : Ext m m') (h' : Ext m' m'') : Ext m m'' := fun p n hp => h' p n (h p n hp)
theorem Ext.dom {m m' : PMap} (h : Ext m m') {p : Nat × Nat} (hp : p ∈ m.dom) : p ∈ m'.dom := by
  obtain ⟨n, hn⟩ := mem_dom_iff.mp hp
  exact mem_dom_iff.mpr ⟨n, h p n hn⟩
theorem Ext.lookupF {m m' : PMap} (h : Ext m m') {p : Nat × Nat} (hp : p ∈ m.dom) : lookupF m' p = lookupF m p := by
  obtain ⟨n, hn⟩ := mem_dom_iff.mp hp
  simp only [Vata.lookupF, hn, h p n hn]

/-- numbers are below the size and distinct keys have distinct numbers -/
def MapOk (m : PMap) : Prop :=
  (∀ p n, m.lookup p = some n → n < m.length) ∧ (∀ p p' n, m.lookup p = some n → m.lookup p' = some n → p = p')

theorem mapOk_nil : MapOk [] := ⟨fun p n h => by simp at h, fun p p' n h => by simp at h⟩

theorem lookup_snoc {m : PMap} {p k : Nat × Nat} {v : Nat} :
    (m ++ [(p, v)]).lookup k = (m.lookup k).or (if k = p then some v else none) := by
  rw [List.lookup_append]
  congr 1
  by_cases h : k = p
  · subst h; simp
  · have : (k == p) = false := by simpa using h
    simp [List.lookup_cons, this, h]

theorem ext_snoc {m : PMap} (p : Nat × Nat) (v : Nat) : Ext m (m ++ [(p, v)]) := by
  intro k n h
  rw [lookup_snoc, h]; rfl

theorem lookup_snoc_self {m : PMap} {p : Nat × Nat} (hp : m.lookup p = none) (v : Nat) :
    (m ++ [(p, v)]).lookup p = some v := by
  rw [lookup_snoc, hp]; simp

theorem mapOk_snoc {m : PMap} (h : MapOk m) {p : Nat × Nat} (_hp : m.lookup p = none) : MapOk (m ++ [(p, m.length)]) := by
  have key : ∀ k n, (m ++ [(p, m.length)]).lookup k = some n → m.lookup k = some n ∨ (k = p ∧ n = m.length) := by
    intro k n hk
    rw [lookup_snoc, Option.or_eq_some_iff] at hk
    rcases hk with hk | ⟨_, hk⟩
    · exact Or.inl hk
    · by_cases hkp : k = p
      · rw [if_pos hkp] at hk
        exact Or.inr ⟨hkp, (Option.some.inj hk).symm⟩
      · rw [if_neg hkp] at hk; simp at hk
  constructor
  · intro k n hk
    rw [List.length_append, List.length_singleton]
    rcases key k n hk with h1 | ⟨_, h1⟩
    · exact Nat.lt_succ_of_lt (h.1 k n h1)
    · omega
  · intro k k' n hk hk'
    rcases key k n hk with h1 | ⟨h1, h2⟩ <;> rcases key k' n hk' with h3 | ⟨h3, h4⟩
    · exact h.2 k k' n h1 h3
    · have := h.1 k n h1; omega
    · have := h.1 k' n h3; omega
    · rw [h1, h3]

theorem dom_snoc {m : PMap} {p k : Nat × Nat} {v : Nat} : k ∈ (m ++ [(p, v)]).dom ↔ k ∈ m.dom ∨ k = p := by
  simp [PMap.dom]

theorem MapOk.injOn {m : PMap} (h : MapOk m) : InjOn (lookupF m) m.dom := by
  intro x hx y hy he
  obtain ⟨n, hn⟩ := mem_dom_iff.mp hx
  obtain ⟨n', hn'⟩ := mem_dom_iff.mp hy
  simp only [lookupF, hn, hn', Option.getD_some] at he
  rw [← he] at hn'
  exact h.2 x y n hn hn'

/-! ### one batch of insertions -/

/-- what a batch of insertions does to the map and the stack -/
structure Step (m : PMap) (st : List (Nat × Nat)) (m' : PMap) (st' : List (Nat × Nat)) : Prop where
  ok : MapOk m'
  ext : Ext m m'
  s1 : ∀ p, p ∈ m'.dom → p ∈ m.dom ∨ p ∈ st'
  s2 : ∀ p, p ∈ st → p ∈ st'
  s3 : ∀ p, p ∈ st' → p ∈ st ∨ p ∈ m'.dom

theorem Step.refl {m : PMap} (h : MapOk m) (st : List (Nat × Nat)) : Step m st m st :=
  ⟨h, Ext.refl m, fun _ hp => Or.inl hp, fun _ hp => hp, fun _ hp => Or.inl hp⟩

theorem Step.trans {m m' m'' : PMap} {st st' st'' : List (Nat × Nat)} (h : Step m st m' st') (h' : Step m' st' m'' st'') :
    Step m st m'' st'' := by
  refine ⟨h'.ok, h.ext.trans h'.ext, ?_, fun p hp => h'.s2 p (h.s2 p hp), ?_⟩
  · intro p hp
    rcases h'.s1 p hp with h1 | h1
    · rcases h.s1 p h1 with h2 | h2
      · exact Or.inl h2
      · exact Or.inr (h'.s2 p h2)
    · exact Or.inr h1
  · intro p hp
    rcases h'.s3 p hp with h1 | h1
    · rcases h.s3 p h1 with h2 | h2
      · exact Or.inl h2
      · exact Or.inr (h'.ext.dom h2)
    · exact Or.inr h1

theorem step_snoc {m : PMap} (h : MapOk m) {p : Nat × Nat} (hp : m.lookup p = none) (st : List (Nat × Nat)) :
    Step m st (m ++ [(p, m.length)]) (p :: st) := by
  refine ⟨mapOk_snoc h hp, ext_snoc p _, ?_, fun k hk => List.mem_cons_of_mem _ hk, ?_⟩
  · intro k hk
    rcases dom_snoc.mp hk with h1 | h1
    · exact Or.inl h1
    · rw [h1]; exact Or.inr List.mem_cons_self
  · intro k hk
    rcases List.mem_cons.mp hk with h1 | h1
    · rw [h1]; exact Or.inr (dom_snoc.mpr (Or.inr rfl))
    · exact Or.inl h1

theorem addPairs_spec : ∀ (ps : List (Nat × Nat)) (m : PMap) (st : List (Nat × Nat)), MapOk m →
    Step m st (addPairs ps m st).1 (addPairs ps m st).2.1 ∧
    (∀ p, p ∈ ps → p ∈ (addPairs ps m st).1.dom) ∧
    (addPairs ps m st).2.2 = ps.map (lookupF (addPairs ps m st).1)
  | [], m, st, h => by
    simp only [addPairs]
    exact ⟨Step.refl h st, fun p hp => by simp at hp, rfl⟩
  | p :: ps, m, st, h => by
    cases hl : m.lookup p with
    | some n =>
      obtain ⟨i1, i2, i3⟩ := addPairs_spec ps m st h
      simp only [addPairs, hl]
      refine ⟨i1, ?_, ?_⟩
      · intro k hk
        rcases List.mem_cons.mp hk with h1 | h1
        · rw [h1]; exact i1.ext.dom (mem_dom_iff.mpr ⟨n, hl⟩)
        · exact i2 k h1
      · rw [List.map_cons, i3]
        congr 1
        simp only [lookupF, i1.ext p n hl, Option.getD_some]
    | none =>
      obtain ⟨i1, i2, i3⟩ := addPairs_spec ps (m ++ [(p, m.length)]) (p :: st) (mapOk_snoc h hl)
      simp only [addPairs, hl]
      refine ⟨(step_snoc h hl st).trans i1, ?_, ?_⟩
      · intro k hk
        rcases List.mem_cons.mp hk with h1 | h1
        · rw [h1]; exact i1.ext.dom (dom_snoc.mpr (Or.inr rfl))
        · exact i2 k h1
      · rw [List.map_cons, i3]
        congr 1
        simp only [lookupF, i1.ext p _ (lookup_snoc_self hl _), Option.getD_some]

/-! ### product rules w.r.t. a translation map -/

def PRule (m : PMap) (r r' : Rule) : Rule :=
  ⟨r.sym, (r.kids.zip r'.kids).map (lookupF m), lookupF m (r.parent, r'.parent)⟩

def Matching (A B : TA) (r r' : Rule) : Prop :=
  r ∈ A.rules ∧ r' ∈ B.rules ∧ r'.sym = r.sym ∧ r'.kids.length = r.kids.length

theorem PRule_ext {m m' : PMap} (h : Ext m m') {r r' : Rule} (hp : (r.parent, r'.parent) ∈ m.dom)
    (hk : ∀ x, x ∈ r.kids.zip r'.kids → x ∈ m.dom) : PRule m' r r' = PRule m r r' := by
  unfold PRule
  rw [h.lookupF hp, List.map_congr_left (fun x hx => h.lookupF (hk x hx))]

/-- `ρ` is a product rule all of whose pairs are in the domain -/
def GoodRule (A B : TA) (m : PMap) (ρ : Rule) : Prop :=
  ∃ r r', Matching A B r r' ∧ (r.parent, r'.parent) ∈ m.dom ∧ (∀ x, x ∈ r.kids.zip r'.kids → x ∈ m.dom) ∧
    ρ = PRule m r r'

theorem GoodRule.mono {A B : TA} {m m' : PMap} {ρ : Rule} (h : GoodRule A B m ρ) (he : Ext m m') : GoodRule A B m' ρ := by
  obtain ⟨r, r', hm, hp, hk, rfl⟩ := h
  exact ⟨r, r', hm, he.dom hp, fun x hx => he.dom (hk x hx), (PRule_ext he hp hk).symm⟩

/-- the pair `pr` has been processed: all its product rules are there -/
def DonePair (A B : TA) (m : PMap) (rs : List Rule) (pr : Nat × Nat) : Prop :=
  pr ∈ m.dom ∧ ∀ r r', Matching A B r r' → (r.parent, r'.parent) = pr →
    (∀ x, x ∈ r.kids.zip r'.kids → x ∈ m.dom) ∧ PRule m r r' ∈ rs

theorem DonePair.mono {A B : TA} {m m' : PMap} {rs rs' : List Rule} {pr : Nat × Nat} (h : DonePair A B m rs pr)
    (he : Ext m m') (hs : ∀ ρ, ρ ∈ rs → ρ ∈ rs') : DonePair A B m' rs' pr := by
  refine ⟨he.dom h.1, ?_⟩
  intro r r' hm hp
  obtain ⟨h1, h2⟩ := h.2 r r' hm hp
  refine ⟨fun x hx => he.dom (h1 x hx), ?_⟩
  rw [PRule_ext he (by rw [hp]; exact h.1) h1]
  exact hs _ h2

theorem mem_isectMatching {A B : TA} {pr : Nat × Nat} {rr : Rule × Rule} :
    rr ∈ isectMatching A B pr ↔ Matching A B rr.1 rr.2 ∧ (rr.1.parent, rr.2.parent) = pr := by
  obtain ⟨r, r'⟩ := rr
  obtain ⟨p, p'⟩ := pr
  simp only [isectMatching, Matching, List.mem_flatMap, List.mem_map, List.mem_filter, Bool.and_eq_true, beq_iff_eq,
    Prod.mk.injEq]
  constructor
  · rintro ⟨a, ⟨ha, hap⟩, b, ⟨hb, ⟨hbp, hs⟩, hl⟩, rfl, rfl⟩
    exact ⟨⟨ha, hb, hs, hl⟩, hap, hbp⟩
  · rintro ⟨⟨ha, hb, hs, hl⟩, hap, hbp⟩
    exact ⟨r, ⟨ha, hap⟩, r', ⟨hb, ⟨hbp, hs⟩, hl⟩, rfl, rfl⟩

/-! ### the body of the loop -/

theorem isectProc_spec {A B : TA} {pr : Nat × Nat} {n : Nat} : ∀ (L : List (Rule × Rule)) (m : PMap)
    (st : List (Nat × Nat)) (rs : List Rule), MapOk m → m.lookup pr = some n →
    (∀ rr, rr ∈ L → Matching A B rr.1 rr.2 ∧ (rr.1.parent, rr.2.parent) = pr) →
    Step m st (isectProc n L m st rs).1 (isectProc n L m st rs).2.1 ∧
    (∀ ρ, ρ ∈ rs → ρ ∈ (isectProc n L m st rs).2.2) ∧
    (∀ ρ, ρ ∈ (isectProc n L m st rs).2.2 → ρ ∈ rs ∨ GoodRule A B (isectProc n L m st rs).1 ρ) ∧
    (∀ rr, rr ∈ L → (∀ x, x ∈ rr.1.kids.zip rr.2.kids → x ∈ (isectProc n L m st rs).1.dom) ∧
      PRule (isectProc n L m st rs).1 rr.1 rr.2 ∈ (isectProc n L m st rs).2.2)
  | [], m, st, rs, hok, _, _ => by
    simp only [isectProc]
    exact ⟨Step.refl hok st, fun ρ h => h, fun ρ h => Or.inl h, fun rr h => by simp at h⟩
  | rr :: rest, m, st, rs, hok, hn, hL => by
    obtain ⟨a1, a2, a3⟩ := addPairs_spec (rr.1.kids.zip rr.2.kids) m st hok
    obtain ⟨hmatch, hpar⟩ := hL rr List.mem_cons_self
    have hn' := a1.ext pr n hn
    -- the new rule is the product rule w.r.t. the extended map
    have hnew : (⟨rr.1.sym, (addPairs (rr.1.kids.zip rr.2.kids) m st).2.2, n⟩ : Rule) =
        PRule (addPairs (rr.1.kids.zip rr.2.kids) m st).1 rr.1 rr.2 := by
      unfold PRule
      rw [a3, hpar]
      simp only [lookupF, hn', Option.getD_some]
    have hpd : (rr.1.parent, rr.2.parent) ∈ (addPairs (rr.1.kids.zip rr.2.kids) m st).1.dom := by
      rw [hpar]; exact mem_dom_iff.mpr ⟨n, hn'⟩
    obtain ⟨i1, i2, i3, i4⟩ := isectProc_spec (A := A) (B := B) (pr := pr) (n := n) rest _ (addPairs (rr.1.kids.zip rr.2.kids) m st).2.1
      (rs ++ [⟨rr.1.sym, (addPairs (rr.1.kids.zip rr.2.kids) m st).2.2, n⟩]) a1.ok hn'
      (fun x hx => hL x (List.mem_cons_of_mem _ hx))
    simp only [isectProc]
    refine ⟨a1.trans i1, fun ρ h => i2 ρ (List.mem_append_left _ h), ?_, ?_⟩
    · intro ρ hρ
      rcases i3 ρ hρ with h | h
      · rcases List.mem_append.mp h with h' | h'
        · exact Or.inl h'
        · right
          exact GoodRule.mono ⟨rr.1, rr.2, hmatch, hpd, a2, (List.mem_singleton.mp h').trans hnew⟩ i1.ext
      · exact Or.inr h
    · intro x hx
      rcases List.mem_cons.mp hx with h | h
      · rw [h]
        refine ⟨fun y hy => i1.ext.dom (a2 y hy), ?_⟩
        rw [PRule_ext i1.ext hpd a2, ← hnew]
        exact i2 _ (List.mem_append_right _ List.mem_cons_self)
      · exact i4 x h

/-! ### the work-list loop -/

structure LInv (A B : TA) (m : PMap) (st : List (Nat × Nat)) (rs : List Rule) (done : List (Nat × Nat)) : Prop where
  ok : MapOk m
  hst : ∀ p, p ∈ st → p ∈ m.dom
  hdom : ∀ p, p ∈ m.dom → p ∈ st ∨ p ∈ done
  sound : ∀ ρ, ρ ∈ rs → GoodRule A B m ρ
  complete : ∀ pr, pr ∈ done → DonePair A B m rs pr

theorem LInv.pop {A B : TA} {m : PMap} {pr : Nat × Nat} {st : List (Nat × Nat)} {rs : List Rule} {done : List (Nat × Nat)}
    (h : LInv A B m (pr :: st) rs done) :
    LInv A B (isectProc (lookupF m pr) (isectMatching A B pr) m st rs).1
      (isectProc (lookupF m pr) (isectMatching A B pr) m st rs).2.1
      (isectProc (lookupF m pr) (isectMatching A B pr) m st rs).2.2 (pr :: done) ∧
    Ext m (isectProc (lookupF m pr) (isectMatching A B pr) m st rs).1 := by
  have hprd : pr ∈ m.dom := h.hst pr List.mem_cons_self
  obtain ⟨n, hn⟩ := mem_dom_iff.mp hprd
  have hlf : lookupF m pr = n := by simp only [lookupF, hn, Option.getD_some]
  rw [hlf]
  obtain ⟨o1, o2, o3, o4⟩ := isectProc_spec (A := A) (B := B) (pr := pr) (n := n) (isectMatching A B pr) m st rs h.ok hn
    (fun rr hrr => mem_isectMatching.mp hrr)
  refine ⟨⟨o1.ok, ?_, ?_, ?_, ?_⟩, o1.ext⟩
  · intro p hp
    rcases o1.s3 p hp with h1 | h1
    · exact o1.ext.dom (h.hst p (List.mem_cons_of_mem _ h1))
    · exact h1
  · intro p hp
    rcases o1.s1 p hp with h1 | h1
    · rcases h.hdom p h1 with h2 | h2
      · rcases List.mem_cons.mp h2 with h3 | h3
        · rw [h3]; exact Or.inr List.mem_cons_self
        · exact Or.inl (o1.s2 p h3)
      · exact Or.inr (List.mem_cons_of_mem _ h2)
    · exact Or.inl h1
  · intro ρ hρ
    rcases o3 ρ hρ with h1 | h1
    · exact (h.sound ρ h1).mono o1.ext
    · exact h1
  · intro pr' hpr'
    rcases List.mem_cons.mp hpr' with h1 | h1
    · rw [h1]
      refine ⟨o1.ext.dom hprd, ?_⟩
      intro r r' hm hp
      exact o4 (r, r') (mem_isectMatching.mpr ⟨hm, hp⟩)
    · exact (h.complete pr' h1).mono o1.ext o2

theorem isectLoop_spec {A B : TA} : ∀ (n : Nat) (m : PMap) (st : List (Nat × Nat)) (rs : List Rule) (done : List (Nat × Nat))
    (m' : PMap) (rs' : List Rule), LInv A B m st rs done → isectLoop A B n m st rs = some (m', rs') →
    Ext m m' ∧ ∃ done', LInv A B m' [] rs' done'
  | 0, m, st, rs, done, m', rs', h, he => by
    simp only [isectLoop] at he
    split at he
    · rename_i hs
      have hs' : st = [] := List.isEmpty_iff.mp hs
      simp only [Option.some.injEq, Prod.mk.injEq] at he
      obtain ⟨rfl, rfl⟩ := he
      subst hs'
      exact ⟨Ext.refl _, done, h⟩
    · simp at he
  | n+1, m, [], rs, done, m', rs', h, he => by
    simp only [isectLoop, Option.some.injEq, Prod.mk.injEq] at he
    obtain ⟨rfl, rfl⟩ := he
    exact ⟨Ext.refl _, done, h⟩
  | n+1, m, pr :: st, rs, done, m', rs', h, he => by
    simp only [isectLoop] at he
    obtain ⟨h1, h2⟩ := h.pop
    obtain ⟨h3, h4⟩ := isectLoop_spec n _ _ _ (pr :: done) m' rs' h1 he
    exact ⟨h2.trans h3, h4⟩

theorem isClosedB_iff {A B : TA} {D : List (Nat × Nat)} : isClosedB A B D = true ↔ Closed A B D := by
  unfold isClosedB Closed
  simp only [List.all_eq_true, Bool.or_eq_true, Bool.not_eq_true', ← Bool.not_eq_true, Bool.and_eq_true,
    List.contains_iff_mem, beq_iff_eq]
  constructor
  · intro h r hr r' hr' hs hl hd pr hpr
    rcases h r hr r' hr' with h1 | h1
    · exact absurd ⟨⟨hs, hl⟩, hd⟩ h1
    · exact h1 pr hpr
  · intro h r hr r' hr'
    by_cases hc : (r'.sym = r.sym ∧ r'.kids.length = r.kids.length) ∧ (r.parent, r'.parent) ∈ D
    · exact Or.inr (h r hr r' hr' hc.1.1 hc.1.2 hc.2)
    · exact Or.inl hc

theorem mem_finalPairs {A B : TA} {pr : Nat × Nat} : pr ∈ finalPairs A B ↔ pr.1 ∈ A.final ∧ pr.2 ∈ B.final := by
  obtain ⟨p, p'⟩ := pr
  simp only [finalPairs, List.mem_flatMap, List.mem_map, Prod.mk.injEq]
  constructor
  · rintro ⟨a, ha, b, hb, rfl, rfl⟩; exact ⟨ha, hb⟩
  · rintro ⟨ha, hb⟩; exact ⟨p, ha, p', hb, rfl, rfl⟩

theorem mem_prodFinal {A B : TA} {f : Nat × Nat → Nat} {x : Nat} :
    x ∈ prodFinal A B f ↔ x ∈ (finalPairs A B).map f := by
  simp only [prodFinal, finalPairs, List.mem_flatMap, List.mem_map]
  constructor
  · rintro ⟨a, ha, b, hb, rfl⟩; exact ⟨(a, b), ⟨a, ha, b, hb, rfl⟩, rfl⟩
  · rintro ⟨pr, ⟨a, ha, b, hb, rfl⟩, rfl⟩; exact ⟨a, ha, b, hb, rfl⟩

theorem init_inv (A B : TA) :
    LInv A B (addPairs (finalPairs A B) [] []).1 (addPairs (finalPairs A B) [] []).2.1 [] [] := by
  obtain ⟨a1, _, _⟩ := addPairs_spec (finalPairs A B) [] [] mapOk_nil
  refine ⟨a1.ok, ?_, ?_, fun ρ hρ => by simp at hρ, fun pr hpr => by simp at hpr⟩
  · intro p hp
    rcases a1.s3 p hp with h1 | h1
    · simp at h1
    · exact h1
  · intro p hp
    rcases a1.s1 p hp with h1 | h1
    · simp [PMap.dom] at h1
    · exact Or.inl h1

/-- when the stack is empty the domain is closed: the final check of `isectTD` cannot fail -/
theorem closed_of_linv {A B : TA} {m : PMap} {rs : List Rule} {done : List (Nat × Nat)} (h : LInv A B m [] rs done) :
    Closed A B m.dom := by
  intro r hr r' hr' hs hl hd pr hpr
  rcases h.hdom _ hd with h1 | h1
  · simp at h1
  · exact ((h.complete _ h1).2 r r' ⟨hr, hr', hs, hl⟩ rfl).1 pr hpr

theorem isectTD_of_loop {A B : TA} {fuel : Nat} {m : PMap} {rs : List Rule}
    (h : isectLoop A B fuel (addPairs (finalPairs A B) [] []).1 (addPairs (finalPairs A B) [] []).2.1 [] = some (m, rs)) :
    isectTD A B fuel = some (⟨rs, (addPairs (finalPairs A B) [] []).2.2⟩, m) := by
  obtain ⟨_, done, hinv⟩ := isectLoop_spec fuel _ _ _ [] m rs (init_inv A B) h
  unfold isectTD
  simp only [h]
  rw [if_pos (isClosedB_iff.mpr (closed_of_linv hinv))]

/-- everything the model establishes about its output -/
theorem isectTD_spec {A B : TA} {fuel : Nat} {P : TA} {m : PMap} (h : isectTD A B fuel = some (P, m)) :
    MapOk m ∧ Closed A B m.dom ∧ (∀ p, p ∈ A.final → ∀ p', p' ∈ B.final → (p, p') ∈ m.dom) ∧
    (∀ ρ, ρ ∈ P.rules ↔ ρ ∈ (prodOn A B m.dom (lookupF m)).rules) ∧
    (∀ x, x ∈ P.final ↔ x ∈ (prodOn A B m.dom (lookupF m)).final) := by
  unfold isectTD at h
  obtain ⟨a1, a2, a3⟩ := addPairs_spec (finalPairs A B) [] [] mapOk_nil
  have hinit := init_inv A B
  cases hl : isectLoop A B fuel (addPairs (finalPairs A B) [] []).1 (addPairs (finalPairs A B) [] []).2.1 [] with
  | none => simp [hl] at h
  | some res =>
    obtain ⟨m1, rs⟩ := res
    simp only [hl] at h
    split at h
    · rename_i hcl
      simp only [Option.some.injEq, Prod.mk.injEq] at h
      obtain ⟨rfl, rfl⟩ := h
      obtain ⟨hext, done, hinv⟩ := isectLoop_spec fuel _ _ _ [] m1 rs hinit hl
      have hFF : ∀ pr, pr ∈ finalPairs A B → pr ∈ m1.dom := fun pr hpr => hext.dom (a2 pr hpr)
      refine ⟨hinv.ok, isClosedB_iff.mp hcl, fun p hp p' hp' => hFF (p, p') (mem_finalPairs.mpr ⟨hp, hp'⟩), ?_, ?_⟩
      · intro ρ
        simp only [prodOn, mem_prodRules]
        constructor
        · intro hρ
          obtain ⟨r, r', ⟨h1, h2, h3, h4⟩, h5, _, h7⟩ := hinv.sound ρ hρ
          exact ⟨r, h1, r', h2, h3, h4, h5, h7⟩
        · rintro ⟨r, h1, r', h2, h3, h4, h5, h7⟩
          rcases hinv.hdom _ h5 with h8 | h8
          · simp at h8
          · rw [h7]
            exact ((hinv.complete _ h8).2 r r' ⟨h1, h2, h3, h4⟩ rfl).2
      · intro x
        simp only [prodOn]
        rw [mem_prodFinal, a3, List.map_congr_left (fun pr hpr => (hext.lookupF (a2 pr hpr)).symm)]
    · simp at h

end Isx

/-! ### the full product -/
namespace Isx

theorem mem_allPairs2 {Q Q' : List Nat} {pr : Nat × Nat} : pr ∈ allPairs2 Q Q' ↔ pr.1 ∈ Q ∧ pr.2 ∈ Q' := by
  obtain ⟨p, p'⟩ := pr
  simp only [allPairs2, List.mem_flatMap, List.mem_map, Prod.mk.injEq]
  constructor
  · rintro ⟨a, ha, b, hb, rfl, rfl⟩; exact ⟨ha, hb⟩
  · rintro ⟨ha, hb⟩; exact ⟨p, ha, p', hb, rfl, rfl⟩

theorem foldl_bound : ∀ (l : List Nat) (a : Nat),
    a ≤ l.foldl (fun a q => max a (q + 1)) a ∧ ∀ q, q ∈ l → q < l.foldl (fun a q => max a (q + 1)) a
  | [], a => ⟨Nat.le_refl _, fun q hq => by simp at hq⟩
  | x :: l, a => by
    obtain ⟨h1, h2⟩ := foldl_bound l (max a (x + 1))
    simp only [List.foldl_cons]
    refine ⟨Nat.le_trans (Nat.le_max_left _ _) h1, ?_⟩
    intro q hq
    rcases List.mem_cons.mp hq with h | h
    · rw [h]
      exact Nat.lt_of_lt_of_le (Nat.lt_of_lt_of_le (Nat.lt_succ_self x) (Nat.le_max_right a (x + 1))) h1
    · exact h2 q h

theorem lt_stateBound {B : TA} {q : Nat} (h : q ∈ B.states) : q < stateBound B := (foldl_bound B.states 0).2 q h

theorem pairNum_inj {K a b c d : Nat} (hb : b < K) (hd : d < K) (h : a * K + b = c * K + d) : a = c ∧ b = d := by
  have h1 : (a * K + b) % K = b := by rw [Nat.mul_comm, Nat.mul_add_mod]; exact Nat.mod_eq_of_lt hb
  have h2 : (c * K + d) % K = d := by rw [Nat.mul_comm, Nat.mul_add_mod]; exact Nat.mod_eq_of_lt hd
  have hbd : b = d := by rw [← h1, ← h2, h]
  subst hbd
  have hK : 0 < K := Nat.lt_of_le_of_lt (Nat.zero_le _) hb
  exact ⟨Nat.eq_of_mul_eq_mul_right hK (Nat.add_right_cancel h), rfl⟩

theorem kid_mem_states {A : TA} {r : Rule} (hr : r ∈ A.rules) {k : Nat} (hk : k ∈ r.kids) : k ∈ A.states :=
  mem_states.mpr (Or.inr ⟨r, hr, Or.inr hk⟩)

end Isx

/-! ### the fuel `isectFuel` is enough: no pair is pushed twice and every pushed pair is a pair of states -/
namespace Isx

/-- stack discipline w.r.t. a universe `U` of pairs -/
structure SInv (U : List (Nat × Nat)) (m : PMap) (st done : List (Nat × Nat)) : Prop where
  nodup : st.Nodup
  st_dom : ∀ p, p ∈ st → p ∈ m.dom
  st_U : ∀ p, p ∈ st → p ∈ U
  done_dom : ∀ p, p ∈ done → p ∈ m.dom
  disj : ∀ p, p ∈ st → p ∉ done

theorem addPairs_sinv {U done : List (Nat × Nat)} : ∀ (ps : List (Nat × Nat)) (m : PMap) (st : List (Nat × Nat)),
    SInv U m st done → (∀ p, p ∈ ps → p ∈ U) → SInv U (addPairs ps m st).1 (addPairs ps m st).2.1 done
  | [], m, st, h, _ => by simpa only [addPairs] using h
  | p :: ps, m, st, h, hU => by
    cases hl : m.lookup p with
    | some n =>
      simp only [addPairs, hl]
      exact addPairs_sinv ps m st h (fun x hx => hU x (List.mem_cons_of_mem _ hx))
    | none =>
      simp only [addPairs, hl]
      have hnd : p ∉ m.dom := lookup_none_iff.mp hl
      apply addPairs_sinv ps _ _ _ (fun x hx => hU x (List.mem_cons_of_mem _ hx))
      refine ⟨List.nodup_cons.mpr ⟨fun hp => hnd (h.st_dom p hp), h.nodup⟩, ?_, ?_, ?_, ?_⟩
      · intro x hx
        rcases List.mem_cons.mp hx with h1 | h1
        · exact dom_snoc.mpr (Or.inr h1)
        · exact dom_snoc.mpr (Or.inl (h.st_dom x h1))
      · intro x hx
        rcases List.mem_cons.mp hx with h1 | h1
        · rw [h1]; exact hU p List.mem_cons_self
        · exact h.st_U x h1
      · intro x hx
        exact dom_snoc.mpr (Or.inl (h.done_dom x hx))
      · intro x hx
        rcases List.mem_cons.mp hx with h1 | h1
        · rw [h1]; exact fun hd => hnd (h.done_dom p hd)
        · exact h.disj x h1

theorem isectProc_sinv {U done : List (Nat × Nat)} {n : Nat} : ∀ (L : List (Rule × Rule)) (m : PMap)
    (st : List (Nat × Nat)) (rs : List Rule), SInv U m st done →
    (∀ rr, rr ∈ L → ∀ x, x ∈ rr.1.kids.zip rr.2.kids → x ∈ U) →
    SInv U (isectProc n L m st rs).1 (isectProc n L m st rs).2.1 done
  | [], m, st, rs, h, _ => by simpa only [isectProc] using h
  | rr :: rest, m, st, rs, h, hU => by
    simp only [isectProc]
    exact isectProc_sinv rest _ _ _ (addPairs_sinv _ m st h (hU rr List.mem_cons_self))
      (fun x hx => hU x (List.mem_cons_of_mem _ hx))

theorem SInv.pop {U : List (Nat × Nat)} {m : PMap} {pr : Nat × Nat} {st done : List (Nat × Nat)}
    (h : SInv U m (pr :: st) done) : SInv U m st (pr :: done) := by
  obtain ⟨hn1, hn2⟩ := List.nodup_cons.mp h.nodup
  refine ⟨hn2, fun p hp => h.st_dom p (List.mem_cons_of_mem _ hp), fun p hp => h.st_U p (List.mem_cons_of_mem _ hp), ?_, ?_⟩
  · intro p hp
    rcases List.mem_cons.mp hp with h1 | h1
    · rw [h1]; exact h.st_dom pr List.mem_cons_self
    · exact h.done_dom p h1
  · intro p hp hd
    rcases List.mem_cons.mp hd with h1 | h1
    · rw [h1] at hp; exact hn1 hp
    · exact h.disj p (List.mem_cons_of_mem _ hp) h1

theorem matching_zip_states {A B : TA} {pr : Nat × Nat} : ∀ rr, rr ∈ isectMatching A B pr →
    ∀ x, x ∈ rr.1.kids.zip rr.2.kids → x ∈ allPairs2 A.states B.states := by
  intro rr hrr x hx
  obtain ⟨⟨h1, h2, _, _⟩, _⟩ := mem_isectMatching.mp hrr
  obtain ⟨k, k'⟩ := x
  obtain ⟨h3, h4⟩ := List.of_mem_zip hx
  exact mem_allPairs2.mpr ⟨kid_mem_states h1 h3, kid_mem_states h2 h4⟩

theorem isectLoop_total {A B : TA} : ∀ (n : Nat) (m : PMap) (st : List (Nat × Nat)) (rs : List Rule) (done : List (Nat × Nat)),
    SInv (allPairs2 A.states B.states) m st done →
    (allPairs2 A.states B.states).countP (fun p => !done.contains p) ≤ n →
    (isectLoop A B n m st rs).isSome = true
  | 0, m, [], rs, done, _, _ => by simp [isectLoop]
  | n+1, m, [], rs, done, _, _ => by simp [isectLoop]
  | n, m, pr :: st, rs, done, h, hc => by
    have hlt : (allPairs2 A.states B.states).countP (fun p => !(pr :: done).contains p) <
        (allPairs2 A.states B.states).countP (fun p => !done.contains p) := by
      apply countP_lt_of_new
      · intro x _ hx
        simp only [Bool.not_eq_true', ← Bool.not_eq_true, List.contains_iff_mem, List.mem_cons, not_or] at hx ⊢
        exact hx.2
      · refine ⟨pr, h.st_U pr List.mem_cons_self, ?_, ?_⟩
        · simp only [Bool.not_eq_true', ← Bool.not_eq_true, List.contains_iff_mem]
          exact h.disj pr List.mem_cons_self
        · simp
    cases n with
    | zero => omega
    | succ n =>
      simp only [isectLoop]
      exact isectLoop_total n _ _ _ (pr :: done) (isectProc_sinv _ m st rs h.pop matching_zip_states) (by omega)

theorem length_allPairs2 (Q Q' : List Nat) : (allPairs2 Q Q').length = Q.length * Q'.length := by
  induction Q with
  | nil => simp [allPairs2]
  | cons q Q ih =>
    simp only [allPairs2, List.flatMap_cons, List.length_append, List.length_map, List.length_cons] at ih ⊢
    rw [ih, Nat.succ_mul, Nat.add_comm]

end Isx

/-! ### the theorems of C02 -/

/-- the top-down product accepts exactly the intersection -/
theorem isectTD_lang {A B : TA} {fuel : Nat} {P : TA} {m : PMap} (h : isectTD A B fuel = some (P, m)) :
    ∀ t, accepts P t = (accepts A t && accepts B t) := by
  intro t
  obtain ⟨hok, hcl, hF, hr, hf⟩ := Isx.isectTD_spec h
  rw [Isx.accepts_congr_sets hr hf t, Bool.eq_iff_iff, Bool.and_eq_true]
  exact isect_cert A B m.dom (lookupF m) hcl hok.injOn hF t

/-- the reported translation map is injective: different pairs have different numbers -/
theorem isectTD_map_inj {A B : TA} {fuel : Nat} {P : TA} {m : PMap} (h : isectTD A B fuel = some (P, m)) :
    InjOn (lookupF m) m.dom := (Isx.isectTD_spec h).1.injOn

/-- the full product accepts exactly the intersection -/
theorem isectFull_lang (A B : TA) (t : Tree) : accepts (isectFull A B) t = (accepts A t && accepts B t) := by
  rw [Bool.eq_iff_iff, Bool.and_eq_true]
  unfold isectFull
  apply isect_cert
  · intro r hr r' hr' _ _ _ pr hpr
    obtain ⟨k, k'⟩ := pr
    obtain ⟨h1, h2⟩ := List.of_mem_zip hpr
    exact Isx.mem_allPairs2.mpr ⟨Isx.kid_mem_states hr h1, Isx.kid_mem_states hr' h2⟩
  · intro x hx y hy he
    obtain ⟨_, hx2⟩ := Isx.mem_allPairs2.mp hx
    obtain ⟨_, hy2⟩ := Isx.mem_allPairs2.mp hy
    obtain ⟨h1, h2⟩ := Isx.pairNum_inj (Isx.lt_stateBound hx2) (Isx.lt_stateBound hy2) he
    exact Prod.ext h1 h2
  · intro p hp p' hp'
    exact Isx.mem_allPairs2.mpr ⟨mem_states.mpr (Or.inl hp), mem_states.mpr (Or.inl hp')⟩

/-- with the fuel `isectFuel` the top-down model always returns a result -/
theorem isectTDRef_isSome (A B : TA) : (isectTDRef A B).isSome = true := by
  have hs : Isx.SInv (allPairs2 A.states B.states) (addPairs (finalPairs A B) [] []).1
      (addPairs (finalPairs A B) [] []).2.1 [] := by
    apply Isx.addPairs_sinv
    · exact ⟨List.nodup_nil, fun p hp => by simp at hp, fun p hp => by simp at hp, fun p hp => by simp at hp,
        fun p hp => by simp at hp⟩
    · intro p hp
      obtain ⟨h1, h2⟩ := Isx.mem_finalPairs.mp hp
      exact Isx.mem_allPairs2.mpr ⟨mem_states.mpr (Or.inl h1), mem_states.mpr (Or.inl h2)⟩
  have ht := Isx.isectLoop_total (A := A) (B := B) (isectFuel A B) _ _ [] [] hs (by
    have := List.countP_le_length (p := fun p => !([] : List (Nat × Nat)).contains p) (l := allPairs2 A.states B.states)
    rw [Isx.length_allPairs2] at this
    unfold isectFuel
    omega)
  cases hl : isectLoop A B (isectFuel A B) (addPairs (finalPairs A B) [] []).1 (addPairs (finalPairs A B) [] []).2.1 [] with
  | none => rw [hl] at ht; simp at ht
  | some res =>
    obtain ⟨m, rs⟩ := res
    unfold isectTDRef
    rw [Isx.isectTD_of_loop hl]
    rfl

/-- the reference product: total and correct -/
theorem isectTDRef_lang (A B : TA) : ∃ P m, isectTDRef A B = some (P, m) ∧ ∀ t, accepts P t = (accepts A t && accepts B t) := by
  cases h : isectTDRef A B with
  | none => have := isectTDRef_isSome A B; rw [h] at this; simp at this
  | some r => exact ⟨r.1, r.2, rfl, isectTD_lang (fuel := isectFuel A B) h⟩

/-- hence the two models agree on every tree whenever the top-down one returns a result -/
theorem isectTD_eq_isectFull {A B : TA} {fuel : Nat} {P : TA} {m : PMap} (h : isectTD A B fuel = some (P, m)) (t : Tree) :
    accepts P t = accepts (isectFull A B) t := by
  rw [isectTD_lang h t, isectFull_lang]

/-! ### non-vacuity -/
namespace IsectEx

/-- `a → 0`, `b → 0`, `f(0,0) → 1`, `g(1) → 1`; final `1` -/
def exA : TA := ⟨[⟨0, [], 0⟩, ⟨1, [], 0⟩, ⟨2, [0, 0], 1⟩, ⟨3, [1], 1⟩], [1]⟩
/-- `a → 0`, `f(0,0) → 1`, `f(1,0) → 1`, `g(1) → 2`, `g(2) → 1`; final `1`: an even number of `g` above `f(a,a)` -/
def exB : TA := ⟨[⟨0, [], 0⟩, ⟨2, [0, 0], 1⟩, ⟨2, [1, 0], 1⟩, ⟨3, [1], 2⟩, ⟨3, [2], 1⟩], [1]⟩
/-- `g(g(f(a,a)))` and `g(f(a,a))` -/
def exT : Tree := .node 3 [.node 3 [.node 2 [.node 0 [], .node 0 []]]]
def exT' : Tree := .node 3 [.node 2 [.node 0 [], .node 0 []]]

-- four pairs are discovered; with too little fuel there is no result
example : (isectTD exA exB 3).isNone = true := by decide
example : (isectTD exA exB 4).map (fun r => (r.1.rules, r.1.final, r.2)) =
    some ([⟨2, [1, 1], 0⟩, ⟨2, [2, 1], 0⟩, ⟨3, [3], 0⟩, ⟨3, [0], 3⟩, ⟨0, [], 1⟩], [0],
      [((1, 1), 0), ((0, 0), 1), ((0, 1), 2), ((1, 2), 3)]) := by decide
example : (isectTDRef exA exB).isSome = true := by decide
-- the hypothesis of `isectTD_lang` is satisfiable and the conclusion distinguishes trees
example : ∃ P m, isectTD exA exB 4 = some (P, m) ∧ accepts P exT = true ∧ accepts P exT' = false := by
  cases h : isectTD exA exB 4 with
  | none => exact absurd h (by decide)
  | some r =>
    refine ⟨r.1, r.2, rfl, ?_, ?_⟩
    · rw [isectTD_lang h]; decide
    · rw [isectTD_lang h]; decide
example : accepts (isectFull exA exB) exT = true ∧ accepts (isectFull exA exB) exT' = false := by decide
example : (isectFull exA exB).rules = [⟨0, [], 0⟩, ⟨2, [0, 0], 4⟩, ⟨2, [1, 0], 4⟩, ⟨3, [4], 5⟩, ⟨3, [5], 4⟩] ∧
    (isectFull exA exB).final = [4] := by decide
-- the closure check is not vacuous
example : isClosedB exA exB [(1, 1)] = false ∧ isClosedB exA exB [(1, 1), (0, 0), (0, 1), (1, 2)] = true := by decide

end IsectEx

end Vata
