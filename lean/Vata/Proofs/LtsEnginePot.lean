import Vata.Proofs.LtsEngineSem
/-!
# The LTS simulation engine: the termination measure

`pot L e = |queue| + (n - #blocks)·(m + m·n) + #positive counters` (`m` labels, `n` states).  Creating a block costs at
most `m` queue entries and `m·n` positive counters; a counter that reaches zero pays for the queue entry it may create.
-/
namespace Vata.LE
open Vata.L

/-- all counter keys `(block, label, state)` of `len` blocks -/
def keysOf (L : LTS) (len : Nat) : List (Nat × Nat × Nat) :=
  (List.range len).flatMap (fun i => (List.range (labels L)).flatMap (fun a => (List.range L.n).map (fun q => (i, a, q))))

def posCnt (L : LTS) (e : Eng) : Nat :=
  (keysOf L e.part.length).countP (fun k => decide (0 < e.cntv k.1 k.2.1 k.2.2))

def pot (L : LTS) (e : Eng) : Nat :=
  e.queue.length + (L.n - e.part.length) * (labels L + labels L * L.n) + posCnt L e

theorem mem_keysOf (L : LTS) (len i a q : Nat) :
    (i, a, q) ∈ keysOf L len ↔ i < len ∧ a < labels L ∧ q < L.n := by
  simp only [keysOf, List.mem_flatMap, List.mem_map, List.mem_range, Prod.mk.injEq]
  constructor
  · rintro ⟨i', hi', a', ha', q', hq', h1, h2, h3⟩
    exact ⟨h1 ▸ hi', h2 ▸ ha', h3 ▸ hq'⟩
  · rintro ⟨h1, h2, h3⟩
    exact ⟨i, h1, a, h2, q, h3, rfl, rfl, rfl⟩

theorem length_blockKeys (m n i : Nat) :
    ((List.range m).flatMap (fun a => (List.range n).map (fun q => (i, a, q)))).length = m * n := by
  induction m with
  | zero => simp
  | succ m ih =>
    rw [List.range_succ, List.flatMap_append, List.length_append, ih]
    simp [Nat.succ_mul]

theorem keysOf_succ (L : LTS) (len : Nat) :
    keysOf L (len + 1) = keysOf L len ++
      (List.range (labels L)).flatMap (fun a => (List.range L.n).map (fun q => (len, a, q))) := by
  simp [keysOf, List.range_succ, List.flatMap_append]

/-- a predicate that loses one element of the list -/
theorem countP_lose {α : Type} [DecidableEq α] (p p' : α → Bool) (l : List α) (k0 : α) (hk : k0 ∈ l)
    (h0 : p k0 = true) (h0' : p' k0 = false) (hother : ∀ x, x ∈ l → x ≠ k0 → p' x = p x) :
    l.countP p' + 1 ≤ l.countP p := by
  induction l with
  | nil => cases hk
  | cons x l ih =>
    rw [List.countP_cons, List.countP_cons]
    by_cases hx : x = k0
    · subst hx
      rw [h0, h0']
      have : l.countP p' ≤ l.countP p := by
        by_cases hm : x ∈ l
        · have := ih hm (fun y hy hne => hother y (List.mem_cons_of_mem _ hy) hne); omega
        · rw [List.countP_congr (p := p') (q := p)]
          · exact Nat.le_refl _
          · intro y hy
            rw [hother y (List.mem_cons_of_mem _ hy) (fun h => hm (h ▸ hy))]
      simp; omega
    · have hm : k0 ∈ l := by
        rcases List.mem_cons.mp hk with h | h
        · exact absurd h.symm hx
        · exact h
      have := ih hm (fun y hy hne => hother y (List.mem_cons_of_mem _ hy) hne)
      rw [hother x List.mem_cons_self hx]
      omega

/-- a duplicate-free list of numbers below `n` has at most `n` elements -/
theorem length_le_of_nodup_lt {l : List Nat} {n : Nat} (hl : l.Nodup) (h : ∀ x, x ∈ l → x < n) : l.length ≤ n := by
  have h1 : ((List.range n).filter (fun x => l.contains x)).length = l.length :=
    length_eq_of_nodup_ext (nodup_filter _ List.nodup_range) hl (fun x => by
      simp only [List.mem_filter, List.mem_range, List.contains_iff_mem]
      exact ⟨fun hx => hx.2, fun hx => ⟨h x hx, hx⟩⟩)
  have h2 := List.length_filter_le (fun x => l.contains x) (List.range n)
  rw [List.length_range] at h2
  omega

/-- there are at most `n` blocks -/
theorem WF.len_le {L : LTS} {e : Eng} (w : WF L e) : e.part.length ≤ L.n := by
  have hhd : ∀ i, i < e.part.length → ∃ x, x ∈ e.block i := fun i hi => List.exists_mem_of_ne_nil _ (w.hne i hi)
  -- the list of the first states of the blocks
  let heads := (List.range e.part.length).map (fun i => (e.block i).headD 0)
  have hmem : ∀ i, i < e.part.length → (e.block i).headD 0 ∈ e.block i := by
    intro i hi
    cases hb : e.block i with
    | nil => exact absurd hb (w.hne i hi)
    | cons x l => simp
  have hlen : heads.length = e.part.length := by simp [heads]
  have hnd : heads.Nodup := by
    rw [List.nodup_iff_pairwise_ne, List.pairwise_map]
    refine List.Pairwise.imp_of_mem ?_ (List.pairwise_lt_range (n := e.part.length))
    intro i j hi hj hij heq
    have hi' := List.mem_range.mp hi
    have hj' := List.mem_range.mp hj
    have := w.hdisj i j _ (hmem i hi') (heq ▸ hmem j hj')
    omega
  have hlt : ∀ x, x ∈ heads → x < L.n := by
    intro x hx
    simp only [heads, List.mem_map, List.mem_range] at hx
    obtain ⟨i, hi, hxi⟩ := hx
    exact w.lt_of_mem (hxi ▸ hmem i hi)
  have := length_le_of_nodup_lt hnd hlt
  omega

/-- the labels of an inset are labels of the system -/
theorem WF.ins_lt {L : LTS} {e : Eng} (w : WF L e) {i a : Nat} (hi : i < e.part.length) (ha : a ∈ e.ins i) :
    a < labels L := by
  obtain ⟨q, _, hq⟩ := (w.mem_ins hi a).mp ha
  obtain ⟨p, hp⟩ := (hasIn_iff L a q).mp hq
  exact label_lt L hp

/-! ### the measure does not grow when a block is split -/

theorem copy2_queue_len (b nb : Nat) (ls : List Nat) (e : Eng) :
    (ls.foldl (fun (e : Eng) a =>
      match e.remv b a with
      | none => e
      | some r => { e with queue := (nb, a) :: e.queue, rem := setRem e.rem nb a (some r) }) e).queue.length ≤
      e.queue.length + ls.length := by
  induction ls generalizing e with
  | nil => simp
  | cons x ls ih =>
    simp only [List.foldl_cons, List.length_cons]
    cases hx : e.remv b x with
    | none =>
      have := ih e
      simp only [] at this ⊢
      omega
    | some r =>
      have := ih { e with queue := (nb, x) :: e.queue, rem := setRem e.rem nb x (some r) }
      simp only [List.length_cons] at this ⊢
      omega

theorem copySlots_queue_len (e : Eng) (b nb : Nat) (hne : nb ≠ b) :
    (copySlots e b nb).queue.length ≤ e.queue.length + (e.ins nb).length := by
  obtain ⟨_, _, a3, _, a5, _, _⟩ := copy1_spec b nb hne (e.ins nb) e
  have hins1 : ∀ e1 : Eng, e1.inset = e.inset → e1.ins nb = e.ins nb := by
    intro e1 h; simp only [Eng.ins, h]
  have hins := hins1 _ a3
  have he : copySlots e b nb = ((e.ins nb).foldl (fun (e : Eng) a =>
      match e.remv b a with
      | none => e
      | some r => { e with queue := (nb, a) :: e.queue, rem := setRem e.rem nb a (some r) })
      ((e.ins nb).foldl (fun (e : Eng) a =>
        { e with cnt := setCntRow e.cnt nb a ((e.cnt.getD b []).getD a []) }) e)) := by
    unfold copySlots
    simp only []
    rw [hins]
    rfl
  have := copy2_queue_len b nb (e.ins nb) ((e.ins nb).foldl (fun (e : Eng) a =>
      { e with cnt := setCntRow e.cnt nb a ((e.cnt.getD b []).getD a []) }) e)
  rw [a5] at this
  rw [he]
  exact this

theorem pot_split {L : LTS} {e : Eng} {b : Nat} {rest new : List Nat} (w : WF L e) (s : SplitOK e b rest new) :
    pot L (copySlots (splitBlockCore L e b rest new) b e.part.length) ≤ pot L e := by
  have wc := core_wf w s
  have hbne : e.part.length ≠ b := Ne.symm (Nat.ne_of_lt s.hb)
  have hnd : ((splitBlockCore L e b rest new).ins e.part.length).Nodup :=
    (wc.hinset e.part.length (by rw [core_length]; omega)).1.1
  obtain ⟨c1, _, _, _, c5, _, _, _⟩ := copySlots_spec (splitBlockCore L e b rest new) b e.part.length hbne hnd
  have hq := copySlots_queue_len (splitBlockCore L e b rest new) b e.part.length hbne
  have hcq : (splitBlockCore L e b rest new).queue = e.queue := rfl
  rw [hcq] at hq
  have hinslen : ((splitBlockCore L e b rest new).ins e.part.length).length ≤ labels L :=
    length_le_of_nodup_lt hnd (fun a ha => wc.ins_lt (by rw [core_length]; omega) ha)
  have hlen : (copySlots (splitBlockCore L e b rest new) b e.part.length).part.length = e.part.length + 1 := by
    rw [c1, core_length]
  have hlen_le : e.part.length + 1 ≤ L.n := by
    have := wc.len_le
    rw [core_length] at this
    exact this
  have hpos : posCnt L (copySlots (splitBlockCore L e b rest new) b e.part.length) ≤
      posCnt L e + labels L * L.n := by
    unfold posCnt
    rw [hlen, keysOf_succ, List.countP_append]
    have h1 : (keysOf L e.part.length).countP (fun k =>
        decide (0 < (copySlots (splitBlockCore L e b rest new) b e.part.length).cntv k.1 k.2.1 k.2.2)) =
        (keysOf L e.part.length).countP (fun k => decide (0 < e.cntv k.1 k.2.1 k.2.2)) := by
      apply List.countP_congr
      intro k hk
      obtain ⟨i, a, q⟩ := k
      have hi := ((mem_keysOf L _ i a q).mp hk).1
      simp only [c5, decide_eq_true_eq]
      rw [if_neg (fun h => Nat.ne_of_lt hi h.1)]
      rfl
    have h2 := @List.countP_le_length _ (fun k : Nat × Nat × Nat =>
        decide (0 < (copySlots (splitBlockCore L e b rest new) b e.part.length).cntv k.1 k.2.1 k.2.2))
        ((List.range (labels L)).flatMap (fun a => (List.range L.n).map (fun q => (e.part.length, a, q))))
    rw [length_blockKeys] at h2
    omega
  unfold pot
  rw [hlen]
  have harith : (L.n - (e.part.length + 1)) * (labels L + labels L * L.n) + (labels L + labels L * L.n) =
      (L.n - e.part.length) * (labels L + labels L * L.n) := by
    have : L.n - e.part.length = (L.n - (e.part.length + 1)) + 1 := by omega
    rw [this, Nat.add_mul, Nat.one_mul]
  omega

end Vata.LE
