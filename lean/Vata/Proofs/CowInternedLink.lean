import Vata.CowInterned2
import Vata.Proofs.CowInternedStep
/-!
# The copy-on-write model and the eager-copy model of interned tuple sets agree

`projI s h` reads automaton `h` of a copy-on-write world `s : CowI.Sys` as a system of `Vata/StoreInterned.lean` (one
automaton; every other automaton is an EAGER copy held by the environment `ext`; `use_count`s as an eager copy would make
them).  For a state that satisfies `Inv'` (every reachable one):

* `held_iff_eager` : an identity is held by a live tuple-set node (counted once) iff it is held by some automaton in the eager
  reading – by the "no garbage" part of the reference-count invariant every node is reachable from a live automaton;
* `eager_cinv` : the eager cache is consistent with the eager holders; `projI_inv` : `projI s h` satisfies `StoreI.Inv`;
* `projI_abs` : the value store of `projI s h` is the value `absV s h` of automaton `h`;
* `lookupC_eager_isSome` : an allocator offer accepted by the copy-on-write cache is accepted by the eager cache.
-/
namespace Vata.CowI
open Vata.Store (upsert insN insTuple TupleSet)
open Vata.CowHeap (upd upd_same upd_other indeg)
open Vata.CowHeap3 (Heap valM valC mout cout hout hmap_mem Lvl Inv)
open Vata.CowHeapX (HeapX absX InvX absX_of_mem absX_of_not_mem)
open Vata.StoreI (CacheSt lookupC acquireC releaseC derefC CInv)

/-! ### every node is reachable from a live automaton -/

theorem exists_of_indeg_pos {live : List Nat} {out : Nat → List Nat} {n : Nat} (h : 0 < indeg live out n) :
    ∃ k, k ∈ live ∧ n ∈ out k := by
  unfold indeg at h
  obtain ⟨k, hk, hn⟩ := List.mem_flatMap.1 (List.count_pos_iff.1 h)
  exact ⟨k, hk, hn⟩

theorem lvl_referrer {R : List Nat} {out : Nat → List Nat} {T : List Nat} {rc : Nat → Nat} {nx : Nat}
    (h : Lvl R out T rc [] nx) {c : Nat} (hc : c ∈ T) : ∃ r, r ∈ R ∧ c ∈ out r := by
  have h1 := h.cnt c hc
  have h2 := h.pos c hc
  simp only [List.count_nil] at h1
  exact exists_of_indeg_pos (by omega)

/-- a live tuple-set node is reached from a live automaton through a map entry and a cluster entry -/
theorem reach_ts {H : Heap} (hI : Inv H) {t : Nat} (ht : t ∈ H.tl) :
    ∃ h, h ∈ H.hl ∧ ∃ c, c ∈ mout H (H.hmap h) ∧ t ∈ cout H c := by
  obtain ⟨c, hc, htc⟩ := lvl_referrer hI.ct ht
  obtain ⟨m, hm, hcm⟩ := lvl_referrer hI.mc hc
  obtain ⟨h, hh, hmh⟩ := lvl_referrer hI.hm hm
  simp only [hout, List.mem_singleton] at hmh
  subst hmh
  exact ⟨h, hh, c, hcm, htc⟩

/-! ### what an automaton holds in the eager reading -/

theorem heldBy_of_mem {s : Sys} {h : Nat} (hh : h ∈ s.hx.core.hl) :
    heldBy s h = idsOfVal ⟨valM s.hx.core (s.hx.core.hmap h), s.hx.fin h⟩ := by
  unfold heldBy
  rw [absX_of_mem hh]

theorem heldBy_of_not_mem {s : Sys} {h : Nat} (hh : h ∉ s.hx.core.hl) : heldBy s h = [] := by
  unfold heldBy
  rw [absX_of_not_mem hh]

theorem mem_heldBy {s : Sys} {h : Nat} (hh : h ∈ s.hx.core.hl) {id : Nat} :
    id ∈ heldBy s h ↔ ∃ c, c ∈ mout s.hx.core (s.hx.core.hmap h) ∧ ∃ t, t ∈ cout s.hx.core c ∧
      id ∈ idsOf (s.hx.core.tdat t) := by
  rw [heldBy_of_mem hh]
  unfold idsOfVal valM valC mout cout
  simp only [List.mem_flatMap, List.mem_map]
  constructor
  · rintro ⟨qc, ⟨kc, hkc, e⟩, ft, hft, hid⟩
    subst e
    simp only [List.mem_map] at hft
    obtain ⟨ft0, hft0, e⟩ := hft
    subst e
    exact ⟨kc.2, ⟨kc, hkc, rfl⟩, ft0.2, ⟨ft0, hft0, rfl⟩, hid⟩
  · rintro ⟨c, ⟨kc, hkc, e⟩, t, ⟨ft0, hft0, e'⟩, hid⟩
    subst e; subst e'
    exact ⟨_, ⟨kc, hkc, rfl⟩, (ft0.1, s.hx.core.tdat ft0.2), List.mem_map.2 ⟨ft0, hft0, rfl⟩, hid⟩

/-- **sharing does not change WHICH identities are held**: an identity sits in a live tuple-set node (every shared node
    once) iff some live automaton holds it in the eager reading (every automaton for itself) -/
theorem held_iff_eager {s : Sys} (hi : InvX s.hx) {id : Nat} :
    id ∈ refsT s.hx.core ↔ ∃ h, h ∈ s.hx.core.hl ∧ id ∈ heldBy s h := by
  constructor
  · intro hid
    obtain ⟨t, ht, hidt⟩ := List.mem_flatMap.1 hid
    obtain ⟨h, hh, c, hc, htc⟩ := reach_ts hi ht
    exact ⟨h, hh, (mem_heldBy hh).2 ⟨c, hc, t, htc, hidt⟩⟩
  · rintro ⟨h, hh, hid⟩
    obtain ⟨c, hc, t, htc, hidt⟩ := (mem_heldBy hh).1 hid
    have hm := hmap_mem hi hh
    have hcl : c ∈ s.hx.core.cl := hi.mc.pt _ hm c hc
    exact mem_refsT (hi.ct.pt _ hcl t htc) hidt

theorem mem_eagerRefs {s : Sys} (hi : InvX s.hx) {id : Nat} :
    id ∈ eagerRefs s ↔ id ∈ refsT s.hx.core ++ s.ext := by
  unfold eagerRefs
  simp only [List.mem_append, List.mem_flatMap]
  rw [held_iff_eager hi]

/-! ### the eager cache -/

theorem mem_eagerCache {s : Sys} {v : List Nat} {id rc : Nat} :
    (v, id, rc) ∈ eagerCache s ↔ rc = (eagerRefs s).count id ∧ ∃ rc0, (v, id, rc0) ∈ s.cache := by
  unfold eagerCache
  simp only [List.mem_map, Prod.mk.injEq]
  constructor
  · rintro ⟨⟨v0, id0, rc0⟩, hm, e1, e2, e3⟩
    simp only at e1 e2 e3
    subst e1; subst e2
    exact ⟨e3.symm, rc0, hm⟩
  · rintro ⟨e, rc0, hm⟩
    exact ⟨(v, id, rc0), hm, rfl, rfl, e.symm⟩

/-- the eager cache is consistent with the eager holders: `use_count` = number of automata (with multiplicity) and outside
    holders that hold the identity; positive; nothing dangles -/
theorem eager_cinv {s : Sys} (hi : Inv' s) : CInv (eagerCache s) (eagerRefs s) := by
  have hc : CInv s.cache (refsT s.hx.core ++ s.ext) := hi.cache
  refine ⟨?_, ?_, ?_, ?_⟩
  · intro v x y hx hy
    obtain ⟨x1, x2⟩ := x
    obtain ⟨y1, y2⟩ := y
    obtain ⟨ex, rx, hx'⟩ := mem_eagerCache.1 hx
    obtain ⟨ey, ry, hy'⟩ := mem_eagerCache.1 hy
    have := hc.fk _ _ _ hx' hy'
    simp only [Prod.mk.injEq] at this
    obtain ⟨e1, _⟩ := this
    subst e1
    rw [ex, ey]
  · intro v v' id rc rc' hm hm'
    obtain ⟨_, r, h1⟩ := mem_eagerCache.1 hm
    obtain ⟨_, r', h2⟩ := mem_eagerCache.1 hm'
    exact hc.fid _ _ _ _ _ h1 h2
  · intro v id rc hm
    obtain ⟨e, r, h1⟩ := mem_eagerCache.1 hm
    refine ⟨e, ?_⟩
    rw [e]
    apply List.count_pos_iff.2
    rw [mem_eagerRefs hi.heap]
    have := hc.cnt _ _ _ h1
    exact List.count_pos_iff.1 (by omega)
  · intro id hid
    rw [mem_eagerRefs hi.heap] at hid
    obtain ⟨v, rc, hm⟩ := hc.live id hid
    exact ⟨v, _, mem_eagerCache.2 ⟨rfl, rc, hm⟩⟩

/-- the two caches hold the same tuples at the same addresses (the `use_count`s differ: `C11_…_counts`) -/
theorem eager_same_entries (s : Sys) (v : List Nat) (id : Nat) :
    (∃ rc, (v, id, rc) ∈ eagerCache s) ↔ ∃ rc, (v, id, rc) ∈ s.cache := by
  constructor
  · rintro ⟨rc, hm⟩
    exact (mem_eagerCache.1 hm).2
  · rintro ⟨rc, hm⟩
    exact ⟨_, mem_eagerCache.2 ⟨rfl, rc, hm⟩⟩

theorem derefC_eager {s : Sys} (hi : Inv' s) {id : Nat} (hid : id ∈ refsT s.hx.core ++ s.ext) :
    derefC (eagerCache s) id = derefC s.cache id := by
  have hc : CInv s.cache (refsT s.hx.core ++ s.ext) := hi.cache
  obtain ⟨v, rc, hm⟩ := hc.live id hid
  rw [hc.derefC_eq hm, (eager_cinv hi).derefC_eq (mem_eagerCache.2 ⟨rfl, rc, hm⟩)]

/-! ### the projection satisfies the invariant of the one-automaton model -/

theorem allIds_toI (v : Store.Store) : StoreI.allIds (toI v) = idsOfVal v := by
  unfold StoreI.allIds toI idsOfVal StoreI.idsOfCluster
  simp only [List.flatMap_map]

theorem projI_of_mem {s : Sys} {h : Nat} (hh : h ∈ s.hx.core.hl) :
    projI s h = some
      { cache := eagerCache s, clusters := toI ⟨valM s.hx.core (s.hx.core.hmap h), s.hx.fin h⟩, final := s.hx.fin h,
        ext := (s.hx.core.hl.erase h).flatMap (heldBy s) ++ s.ext } := by
  unfold projI
  rw [absX_of_mem hh]
  rfl

theorem projI_of_not_mem {s : Sys} {h : Nat} (hh : h ∉ s.hx.core.hl) : projI s h = none := by
  unfold projI
  rw [absX_of_not_mem hh]
  rfl

theorem projI_inv {s : Sys} (hi : Inv' s) {h : Nat} {t : StoreI.Sys} (ht : projI s h = some t) : StoreI.Inv t := by
  by_cases hh : h ∈ s.hx.core.hl
  · rw [projI_of_mem hh] at ht
    rw [← Option.some.inj ht]
    unfold StoreI.Inv StoreI.refs
    simp only
    apply (eager_cinv hi).congr
    intro id
    rw [allIds_toI, ← heldBy_of_mem hh]
    unfold eagerRefs
    simp only [List.count_append]
    rw [count_flatMap_erase (heldBy s) hh id]
    omega
  · rw [projI_of_not_mem hh] at ht
    cases ht

theorem map_flatten_cells {d' : Nat → List Nat} {d : Nat → List Nat} {ts : TupleSet} (hc : CellsT ts)
    (he : ∀ l, l ∈ ts → ∀ a, a ∈ l → d' a = d a) : (idsOf ts).map d' = ts.map (fun l => l.flatMap d) := by
  unfold idsOf
  induction ts with
  | nil => rfl
  | cons l ts ih =>
    obtain ⟨p, hp⟩ := hc l List.mem_cons_self
    subst hp
    have := ih (fun l hl => hc l (List.mem_cons_of_mem _ hl)) (fun l hl => he l (List.mem_cons_of_mem _ hl))
    simp only [List.flatten_cons, List.map_cons, this, cell, List.flatMap_cons,
      List.flatMap_nil, List.append_nil, List.singleton_append]
    rw [he [p] List.mem_cons_self p List.mem_cons_self]

/-- **the value-level views coincide**: the value store of the projection is the value of automaton `h` -/
theorem projI_abs {s : Sys} (hi : Inv' s) {h : Nat} {t : StoreI.Sys} (ht : projI s h = some t) :
    absV s h = some (StoreI.abs t) := by
  by_cases hh : h ∈ s.hx.core.hl
  · rw [projI_of_mem hh] at ht
    rw [← Option.some.inj ht]
    show (absX s.hx h).map _ = _
    rw [absX_of_mem hh]
    simp only [Option.map_some, Option.some.injEq]
    unfold StoreI.abs derefS StoreI.absMap toI
    simp only [List.map_map]
    congr 1
    apply List.map_congr_left
    intro qc hqc
    simp only [Function.comp]
    congr 1
    simp only [List.map_map]
    apply List.map_congr_left
    intro ft hft
    simp only [Function.comp]
    congr 1
    have hcells := hi.cells h _ (absX_of_mem hh) qc hqc ft hft
    have hment := mentions_live hi.heap hh qc hqc ft hft
    unfold derefCell
    exact (map_flatten_cells hcells (fun l hl a ha =>
      derefC_eager hi (List.mem_append_left _ (hment l hl a ha)))).symm
  · rw [projI_of_not_mem hh] at ht
    cases ht

/-! ### sharing holds an identity ONCE where the eager copy holds it once per automaton -/

theorem count_flatMap_le {T P : List Nat} (g : Nat → List Nat) (hnd : T.Nodup) (hsub : ∀ t, t ∈ T → t ∈ P) (x : Nat) :
    List.count x (T.flatMap g) ≤ List.count x (P.flatMap g) := by
  induction T generalizing P with
  | nil => simp
  | cons t T ih =>
    have htP := hsub t List.mem_cons_self
    rw [count_flatMap_erase g htP x, List.flatMap_cons, List.count_append]
    have := ih (P := P.erase t) (List.nodup_cons.1 hnd).2 (fun t' ht' =>
      (List.mem_erase_of_ne (fun (e : t' = t) => (List.nodup_cons.1 hnd).1 (by rw [← e]; exact ht'))).2 (hsub t' (List.mem_cons_of_mem _ ht')))
    omega

/-- the tuple-set nodes as the automata reach them: one occurrence per automaton, map entry and cluster entry -/
def tsPaths (H : Heap) : List Nat := H.hl.flatMap (fun h => (mout H (H.hmap h)).flatMap (cout H))

theorem heldBy_paths {s : Sys} {h : Nat} (hh : h ∈ s.hx.core.hl) :
    heldBy s h = ((mout s.hx.core (s.hx.core.hmap h)).flatMap (cout s.hx.core)).flatMap
      (fun t => idsOf (s.hx.core.tdat t)) := by
  rw [heldBy_of_mem hh]
  unfold idsOfVal valM valC mout cout
  simp only [List.flatMap_map, List.flatMap_assoc]

theorem eager_eq_paths (s : Sys) :
    s.hx.core.hl.flatMap (heldBy s) = (tsPaths s.hx.core).flatMap (fun t => idsOf (s.hx.core.tdat t)) := by
  unfold tsPaths
  rw [List.flatMap_assoc]
  exact flatMap_congr' (fun h hh => heldBy_paths hh)

/-- the holders of the copy-on-write world are among the holders of the eager reading, with multiplicity: a tuple set
    shared by `n` automata contributes 1 to the real `use_count` and `n` to the eager one -/
theorem shared_count_le_eager {s : Sys} (hi : InvX s.hx) (id : Nat) :
    (refsT s.hx.core).count id ≤ (s.hx.core.hl.flatMap (heldBy s)).count id := by
  rw [eager_eq_paths]
  unfold refsT
  apply count_flatMap_le _ hi.ct.tnd
  intro t ht
  obtain ⟨h, hh, c, hc, htc⟩ := reach_ts hi ht
  exact List.mem_flatMap.2 ⟨h, hh, List.mem_flatMap.2 ⟨c, hc, htc⟩⟩

/-! ### allocator offers -/

theorem aget_isSome_iff {c : CacheSt} {R : List Nat} (h : CInv c R) {t : List Nat} :
    (CM.aget c t).isSome = true ↔ ∃ x, (t, x) ∈ c := by
  constructor
  · intro hs
    cases hg : CM.aget c t with
    | none => rw [hg] at hs; cases hs
    | some x => exact ⟨x, CM.aget_mem hg⟩
  · rintro ⟨x, hx⟩
    rw [h.aget_eq hx]
    rfl

/-- an address the allocator may offer to the copy-on-write cache (the call does not fail) may be offered to the eager
    cache: the two caches have the same live addresses -/
theorem lookupC_eager_isSome {s : Sys} (hi : Inv' s) {t : List Nat} {ch : Nat}
    (hl : (lookupC s.cache t ch).isSome = true) : (lookupC (eagerCache s) t ch).isSome = true := by
  have hc : CInv s.cache (refsT s.hx.core ++ s.ext) := hi.cache
  have he := eager_cinv hi
  unfold StoreI.lookupC at hl ⊢
  cases hg' : CM.aget (eagerCache s) t with
  | some x => rfl
  | none =>
    simp only
    cases hg : CM.aget s.cache t with
    | some x =>
      exfalso
      obtain ⟨id, rc⟩ := x
      have hm := CM.aget_mem hg
      have : (CM.aget (eagerCache s) t).isSome = true :=
        (aget_isSome_iff he).2 ⟨_, mem_eagerCache.2 ⟨rfl, rc, hm⟩⟩
      rw [hg'] at this
      cases this
    | none =>
      simp only [hg] at hl
      have hn : ch ∉ StoreI.liveIds s.cache := by
        intro hch
        simp [hch] at hl
      have hn' : ch ∉ StoreI.liveIds (eagerCache s) := by
        intro hch
        apply hn
        rw [hc.liveIds_eq]
        rw [he.liveIds_eq] at hch
        obtain ⟨v, n, hm⟩ := StoreI.mem_ids'.1 hch
        obtain ⟨_, rc0, hm0⟩ := mem_eagerCache.1 hm
        exact StoreI.mem_ids'.2 ⟨v, rc0, hm0⟩
      simp [hn']

/-! ### the calls on automaton `h` are the calls of the one-automaton model on the projection -/

theorem mem_of_projI {s : Sys} {h : Nat} {t : StoreI.Sys} (ht : projI s h = some t) : h ∈ s.hx.core.hl := by
  apply Classical.byContradiction
  intro hh
  rw [projI_of_not_mem hh] at ht
  cases ht

theorem mem_of_absV {s : Sys} {h : Nat} {v : Store.Store} (hv : absV s h = some v) : h ∈ s.hx.core.hl := by
  apply Classical.byContradiction
  intro hh
  have : absV s h = none := by
    show (absX s.hx h).map _ = _
    rw [absX_of_not_mem hh]
    rfl
  rw [this] at hv
  cases hv

theorem projI_cache {s : Sys} {h : Nat} {t : StoreI.Sys} (ht : projI s h = some t) : t.cache = eagerCache s := by
  rw [projI_of_mem (mem_of_projI ht)] at ht
  rw [← Option.some.inj ht]

/-- `AddTransition` on automaton `h` of the copy-on-write world and `AddTransition` of the one-automaton model on the
    projection (same allocator offer): the latter does not fail, and the two results have the same value store -/
theorem agree_add {s s' : Sys} {h : Nat} {r : Rule} {ch : Nat} {t : StoreI.Sys} (hi : Inv' s)
    (hs : stepC .lib s (.add h r ch) = some s') (ht : projI s h = some t) :
    ∃ t' u, StoreI.addI .lib t r ch = some t' ∧ StoreI.Inv t' ∧ projI s' h = some u ∧ StoreI.abs t' = StoreI.abs u := by
  have hh := mem_of_projI ht
  have hlk : (lookupC s.cache r.kids ch).isSome = true := by
    simp only [stepC, hh, if_true] at hs
    cases hl : lookupC s.cache r.kids ch with
    | none => simp [hl] at hs
    | some x => rfl
  have hlk' := lookupC_eager_isSome hi hlk
  have hsome : (StoreI.addI .lib t r ch).isSome = true := by
    unfold StoreI.addI
    rw [projI_cache ht]
    cases hl : lookupC (eagerCache s) r.kids ch with
    | none => rw [hl] at hlk'; cases hlk'
    | some x => rfl
  obtain ⟨t', ht'⟩ := Option.isSome_iff_exists.1 hsome
  obtain ⟨hit', ha⟩ := StoreI.addI_lib (projI_inv hi ht) ht'
  obtain ⟨hi', hv⟩ := stepC_lib hi hs
  have hv0 := projI_abs hi ht
  have hvh : absV s' h = some (Store.addTransition (StoreI.abs t) r) := by
    rw [hv]
    simp only [valOp, specV, CowHeapX.specStepX, hv0, upd_same]
  have hh' := mem_of_absV hvh
  refine ⟨t', _, ht', hit', projI_of_mem hh', ?_⟩
  have := projI_abs hi' (projI_of_mem hh')
  rw [hvh] at this
  rw [ha]
  exact Option.some.inj this

end Vata.CowI
