import Vata.Proofs.BddUnionCoded
/-!
# The top-down BDD `Union` / `UnionDisjointStates` as coded (property C08) – part 2

* `pass_specTD`: the rules of the table after one `ReindexStates` pass with a map that is injective on the KEYS of the source
  table: the translated rules of the source, and the rules of the destination at keys that were not overwritten;
* `tdUnion_setEq`: the table after the two passes holds exactly `unionWith f g` of the abstractions;
* `tdUnionFrom_spec` / `tdUnionFrom_lang_of_maps` / `tdUnionFrom_lang`: the coded function.
-/
namespace Vata
namespace BddUnionCoded
open M BddAbs BddAbsTD Um

theorem eval_mem_voidApply1 {α : Type} (ρ : Nat → Bool) : ∀ m : Node α, eval m ρ ∈ voidApply1 m
  | .leaf v => by simp [eval, voidApply1]
  | .node x lo hi => by
    simp only [eval, voidApply1, List.mem_append]
    split
    · exact Or.inr (eval_mem_voidApply1 ρ hi)
    · exact Or.inl (eval_mem_voidApply1 ρ lo)

/-! ### the table after a pass -/

theorem getTD_pureLoop_notin (M : SMap) (T : TableTD) : ∀ (L : List (Nat × MTD)) (R : TableTD) (p' : Nat),
    p' ∉ (keysTD L).map (applyMap M) → getTD (pureLoopTD M T L R) p' = getTD R p'
  | [], _, _, _ => rfl
  | e :: L, R, p', h => by
    have h1 : applyMap M e.1 ≠ p' := fun e1 => h (by simp [keysTD, ← e1])
    have h2 : p' ∉ (keysTD L).map (applyMap M) := fun h2 => h (by
      simp only [keysTD, List.map_cons, List.mem_cons] at *
      exact Or.inr h2)
    show getTD (pureLoopTD M T L _) p' = _
    rw [getTD_pureLoop_notin M T L _ p' h2, getTD_setTD, if_neg h1]

theorem getTD_pureLoop_in (M : SMap) (T : TableTD) : ∀ (L : List (Nat × MTD)) (R : TableTD) (p : Nat),
    (∀ q q', q ∈ keysTD L → q' ∈ keysTD L → applyMap M q = applyMap M q' → q = q') → p ∈ keysTD L →
    getTD (pureLoopTD M T L R) (applyMap M p) = apply1 (rwTD M) (getTD T p)
  | [], _, _, _, h => by simp [keysTD] at h
  | e :: L, R, p, hinj, hp => by
    have hsub : ∀ q, q ∈ keysTD L → q ∈ keysTD (e :: L) := fun q hq => by
      simp only [keysTD, List.map_cons, List.mem_cons] at *; exact Or.inr hq
    have he : e.1 ∈ keysTD (e :: L) := by simp [keysTD]
    show getTD (pureLoopTD M T L _) _ = _
    by_cases hL : p ∈ keysTD L
    · exact getTD_pureLoop_in M T L _ p (fun q q' hq hq' => hinj q q' (hsub q hq) (hsub q' hq')) hL
    · have hpe : p = e.1 := by
        simp only [keysTD, List.map_cons, List.mem_cons] at hp hL
        exact hp.resolve_right hL
      have hn : applyMap M p ∉ (keysTD L).map (applyMap M) := by
        intro hm
        obtain ⟨q, hq, hqe⟩ := List.mem_map.mp hm
        have : q = p := hinj q p (hsub q hq) hp hqe
        exact hL (this ▸ hq)
      rw [getTD_pureLoop_notin M T L _ _ hn, getTD_setTD, hpe, if_pos rfl]

theorem mem_eval_rwTD (M : SMap) (m : MTD) (ρ : Nat → Bool) (ks' : List Nat) :
    ks' ∈ eval (apply1 (rwTD M) m) ρ ↔ ∃ ks, ks ∈ eval m ρ ∧ ks' = ks.map (applyMap M) := by
  rw [apply1_eval, rwTD, mem_normT, List.mem_map]
  constructor
  · rintro ⟨ks, h, e⟩; exact ⟨ks, h, e.symm⟩
  · rintro ⟨ks, h, e⟩; exact ⟨ks, h, e.symm⟩

/-- the translated rules of `T` (parent and children through `f`) -/
def ImgTD (f : Nat → Nat) (T : TableTD) (ρ : Nat → Bool) (p' : Nat) (ks' : List Nat) : Prop :=
  ∃ p ks, HasRuleTD T ρ p ks ∧ p' = f p ∧ ks' = ks.map f

/-- one `ReindexStates` pass into the table `R0` -/
theorem pass_specTD (M : SMap) (T R0 : TableTD)
    (hinj : ∀ q q', q ∈ keysTD T → q' ∈ keysTD T → applyMap M q = applyMap M q' → q = q')
    (ρ : Nat → Bool) (p' : Nat) (ks' : List Nat) :
    HasRuleTD (pureLoopTD M T T R0) ρ p' ks' ↔
      ImgTD (applyMap M) T ρ p' ks' ∨ (p' ∉ (keysTD T).map (applyMap M) ∧ HasRuleTD R0 ρ p' ks') := by
  by_cases hk : p' ∈ (keysTD T).map (applyMap M)
  · obtain ⟨p, hp, rfl⟩ := List.mem_map.mp hk
    unfold HasRuleTD ImgTD
    rw [getTD_pureLoop_in M T T R0 p hinj hp, mem_eval_rwTD]
    constructor
    · rintro ⟨ks, h, e⟩
      exact Or.inl ⟨p, ks, h, rfl, e⟩
    · rintro (⟨p₀, ks, h, e1, e2⟩ | ⟨hn, _⟩)
      · have : p = p₀ := hinj p p₀ hp (hasRuleTD_key h) e1
        subst this
        exact ⟨ks, h, e2⟩
      · exact absurd hk hn
  · unfold HasRuleTD ImgTD
    rw [getTD_pureLoop_notin M T T R0 p' hk]
    constructor
    · intro h; exact Or.inr ⟨hk, h⟩
    · rintro (⟨p₀, ks, h, e1, _⟩ | ⟨_, h⟩)
      · exact absurd (List.mem_map.mpr ⟨p₀, hasRuleTD_key h, e1.symm⟩) hk
      · exact h

/-- the table after the two passes of `Union` holds exactly the translated rules of both operands, when the maps are
injective on the keys and send the keys of the two tables to different numbers -/
theorem tdUnion_rules (ML MR : SMap) (T₁ T₂ : TableTD)
    (h1 : ∀ q q', q ∈ keysTD T₁ → q' ∈ keysTD T₁ → applyMap ML q = applyMap ML q' → q = q')
    (h2 : ∀ q q', q ∈ keysTD T₂ → q' ∈ keysTD T₂ → applyMap MR q = applyMap MR q' → q = q')
    (hd : ∀ q q', q ∈ keysTD T₁ → q' ∈ keysTD T₂ → applyMap ML q ≠ applyMap MR q')
    (ρ : Nat → Bool) (p' : Nat) (ks' : List Nat) :
    HasRuleTD (pureLoopTD MR T₂ T₂ (pureLoopTD ML T₁ T₁ [])) ρ p' ks' ↔
      ImgTD (applyMap ML) T₁ ρ p' ks' ∨ ImgTD (applyMap MR) T₂ ρ p' ks' := by
  rw [pass_specTD MR T₂ _ h2, pass_specTD ML T₁ _ h1]
  constructor
  · rintro (h | ⟨_, h | ⟨_, h⟩⟩)
    · exact Or.inr h
    · exact Or.inl h
    · exact absurd h (hasRuleTD_nil _ _ _)
  · rintro (h | h)
    · refine Or.inr ⟨?_, Or.inl h⟩
      obtain ⟨p, ks, hr, e, _⟩ := h
      intro hm
      obtain ⟨q, hq, hqe⟩ := List.mem_map.mp hm
      exact hd p q (hasRuleTD_key hr) hq (by rw [← e, hqe])
    · exact Or.inl h

theorem mem_absRulesTD_img (syms : List Nat) (f : Nat → Nat) (T : TableTD) (r : Rule) :
    r ∈ (absRulesTD syms T).map (mapRule f) ↔
      r.sym ∈ syms ∧ ∃ n, n < 64 ∧ ImgTD f T (bitsAr r.sym n) r.parent r.kids := by
  rw [List.mem_map]
  constructor
  · rintro ⟨r₀, hr₀, rfl⟩
    obtain ⟨hs, n, hn, h⟩ := mem_absRulesTD.mp hr₀
    exact ⟨hs, n, hn, r₀.parent, r₀.kids, h, rfl, rfl⟩
  · rintro ⟨hs, n, hn, p, ks, h, e1, e2⟩
    refine ⟨⟨r.sym, ks, p⟩, mem_absRulesTD.mpr ⟨hs, n, hn, h⟩, ?_⟩
    obtain ⟨s, k, q⟩ := r
    simp only [mapRule] at *
    rw [e1, e2]

/-- … so the abstraction of the result of the two passes is `unionWith` of the abstractions of the operands -/
theorem tdUnion_setEq (syms : List Nat) (ML MR : SMap) (T₁ T₂ : TableTD) (F₁ F₂ : List Nat)
    (h1 : ∀ q q', q ∈ keysTD T₁ → q' ∈ keysTD T₁ → applyMap ML q = applyMap ML q' → q = q')
    (h2 : ∀ q q', q ∈ keysTD T₂ → q' ∈ keysTD T₂ → applyMap MR q = applyMap MR q' → q = q')
    (hd : ∀ q q', q ∈ keysTD T₁ → q' ∈ keysTD T₂ → applyMap ML q ≠ applyMap MR q') :
    SetEqTA (absTD syms (pureLoopTD MR T₂ T₂ (pureLoopTD ML T₁ T₁ []))
        (([] ++ F₁.map (applyMap ML)) ++ F₂.map (applyMap MR)))
      (unionWith (applyMap ML) (applyMap MR) (absTD syms T₁ F₁) (absTD syms T₂ F₂)) := by
  refine ⟨fun r => ?_, fun q => by simp [unionWith, reindex, absTD]⟩
  show r ∈ absRulesTD syms _ ↔ r ∈ (absRulesTD syms T₁).map (mapRule _) ++ (absRulesTD syms T₂).map (mapRule _)
  rw [List.mem_append, mem_absRulesTD_img, mem_absRulesTD_img, mem_absRulesTD]
  simp only [tdUnion_rules ML MR T₁ T₂ h1 h2 hd]
  constructor
  · rintro ⟨hs, n, hn, h | h⟩
    · exact Or.inl ⟨hs, n, hn, h⟩
    · exact Or.inr ⟨hs, n, hn, h⟩
  · rintro (⟨hs, n, hn, h⟩ | ⟨hs, n, hn, h⟩)
    · exact ⟨hs, n, hn, Or.inl h⟩
    · exact ⟨hs, n, hn, Or.inr h⟩

/-! ### the states of a handle -/

theorem mem_orderLoopTD_key {T : TableTD} {p : Nat} (h : p ∈ keysTD T) : p ∈ orderLoopTD T T := by
  obtain ⟨e, he, rfl⟩ := List.mem_map.mp h
  exact List.mem_flatMap.mpr ⟨e, he, List.mem_cons_self⟩

theorem mem_orderLoopTD_kid {T : TableTD} {ρ : Nat → Bool} {p q : Nat} {ks : List Nat} (h : HasRuleTD T ρ p ks)
    (hq : q ∈ ks) : q ∈ orderLoopTD T T := by
  obtain ⟨e, he, rfl⟩ := List.mem_map.mp (hasRuleTD_key h)
  refine List.mem_flatMap.mpr ⟨e, he, List.mem_cons_of_mem _ ?_⟩
  exact List.mem_flatMap.mpr ⟨_, eval_mem_voidApply1 ρ _, List.mem_flatMap.mpr ⟨ks, h, hq⟩⟩

/-- every state of the abstraction is presented to the translator -/
theorem abs_states_sub_TD (syms : List Nat) (A : AutTD) {q : Nat} (h : q ∈ (A.abs syms).states) : q ∈ A.allStates := by
  rcases Vata.mem_states.mp h with hf | ⟨r, hr, hq⟩
  · exact List.mem_append_right _ hf
  · obtain ⟨_, n, _, hr⟩ := mem_absRulesTD.mp hr
    refine List.mem_append_left _ ?_
    rcases hq with hq | hq
    · exact hq ▸ mem_orderLoopTD_key (hasRuleTD_key hr)
    · exact mem_orderLoopTD_kid hr hq

theorem keys_sub_allStates_TD (A : AutTD) {q : Nat} (h : q ∈ keysTD A.T) : q ∈ A.allStates :=
  List.mem_append_left _ (mem_orderLoopTD_key h)

/-! ### the coded `Union` -/

/-- the final maps of the distinct-tables branch are the two passes of the weak translators over the visiting orders -/
theorem tdUnionFrom_maps (c0 fresh : Nat) (lhs rhs : AutTD) (oL oR : Option SMap) (hne : lhs.tid ≠ rhs.tid) :
    (tdUnionFrom c0 fresh lhs rhs oL oR).2.1 = (weakTrAll (orderTD lhs) (oL.getD []) c0).1 ∧
    (tdUnionFrom c0 fresh lhs rhs oL oR).2.2 =
      (weakTrAll (orderTD rhs) (oR.getD []) (weakTrAll (orderTD lhs) (oL.getD []) c0).2).1 := by
  unfold tdUnionFrom
  rw [if_neg hne]
  have h1 := (reindexTD_spec lhs ⟨fresh, [], []⟩ (oL.getD [], c0)).1
  have h2 := (reindexTD_spec rhs (reindexTD lhs ⟨fresh, [], []⟩ (oL.getD [], c0)).1
    (oR.getD [], (reindexTD lhs ⟨fresh, [], []⟩ (oL.getD [], c0)).2.2)).1
  refine ⟨by show (reindexTD lhs _ _).2.1 = _; rw [h1]; rfl, ?_⟩
  show (reindexTD rhs _ _).2.1 = _
  rw [h2, h1]; rfl

/-- the result of the distinct-tables branch: a handle on the fresh table, the table and the final states are those of
the two pure passes with the FINAL maps -/
theorem tdUnionFrom_result (c0 fresh : Nat) (lhs rhs : AutTD) (oL oR : Option SMap) (hne : lhs.tid ≠ rhs.tid) :
    (tdUnionFrom c0 fresh lhs rhs oL oR).1 =
      ⟨fresh, pureLoopTD (tdUnionFrom c0 fresh lhs rhs oL oR).2.2 rhs.T rhs.T
          (pureLoopTD (tdUnionFrom c0 fresh lhs rhs oL oR).2.1 lhs.T lhs.T []),
        ([] ++ lhs.fin.map (applyMap (tdUnionFrom c0 fresh lhs rhs oL oR).2.1)) ++
          rhs.fin.map (applyMap (tdUnionFrom c0 fresh lhs rhs oL oR).2.2)⟩ := by
  obtain ⟨m1, m2⟩ := tdUnionFrom_maps c0 fresh lhs rhs oL oR hne
  rw [m1, m2]
  unfold tdUnionFrom
  rw [if_neg hne]
  have s1 := reindexTD_spec lhs ⟨fresh, [], []⟩ (oL.getD [], c0)
  have e1 := s1.2 _ (Ext.refl _)
  have s2 := reindexTD_spec rhs (reindexTD lhs ⟨fresh, [], []⟩ (oL.getD [], c0)).1
    (oR.getD [], (reindexTD lhs ⟨fresh, [], []⟩ (oL.getD [], c0)).2.2)
  have e2 := s2.2 _ (Ext.refl _)
  show (reindexTD rhs _ _).1 = _
  rw [e2, e1, s1.1]
  rfl

/-- **exactness from the final maps** (any start value of the counter, any pre-filled maps): when the maps the call leaves
behind are injective and share no number, the result denotes `unionWith` of the operands and accepts exactly the union -/
theorem tdUnionFrom_lang_of_maps (c0 fresh : Nat) (lhs rhs : AutTD) (oL oR : Option SMap) (syms : List Nat)
    (hne : lhs.tid ≠ rhs.tid)
    (hL : Inj (tdUnionFrom c0 fresh lhs rhs oL oR).2.1) (hR : Inj (tdUnionFrom c0 fresh lhs rhs oL oR).2.2)
    (hD : Disj (tdUnionFrom c0 fresh lhs rhs oL oR).2.1 (tdUnionFrom c0 fresh lhs rhs oL oR).2.2) :
    SetEqTA ((tdUnionFrom c0 fresh lhs rhs oL oR).1.abs syms)
      (unionWith (applyMap (tdUnionFrom c0 fresh lhs rhs oL oR).2.1) (applyMap (tdUnionFrom c0 fresh lhs rhs oL oR).2.2)
        (lhs.abs syms) (rhs.abs syms)) ∧
    (∀ t, accepts ((tdUnionFrom c0 fresh lhs rhs oL oR).1.abs syms) t =
      (accepts (lhs.abs syms) t || accepts (rhs.abs syms) t)) ∧
    (∀ q, q ∈ lhs.allStates → ∃ n, (tdUnionFrom c0 fresh lhs rhs oL oR).2.1.lookup q = some n) ∧
    (∀ q, q ∈ rhs.allStates → ∃ n, (tdUnionFrom c0 fresh lhs rhs oL oR).2.2.lookup q = some n) := by
  obtain ⟨m1, m2⟩ := tdUnionFrom_maps c0 fresh lhs rhs oL oR hne
  have tA : ∀ q, q ∈ lhs.allStates → ∃ n, (tdUnionFrom c0 fresh lhs rhs oL oR).2.1.lookup q = some n := by
    rw [m1]; exact fun q hq => wAll_known (orderTD lhs) (oL.getD [], c0) q hq
  have tB : ∀ q, q ∈ rhs.allStates → ∃ n, (tdUnionFrom c0 fresh lhs rhs oL oR).2.2.lookup q = some n := by
    rw [m2]; exact fun q hq => wAll_known (orderTD rhs) (oR.getD [], _) q hq
  have iA := injOn_of hL tA
  have iB := injOn_of hR tB
  have dAB := disjOn_of hD tA tB
  have hse : SetEqTA ((tdUnionFrom c0 fresh lhs rhs oL oR).1.abs syms)
      (unionWith (applyMap (tdUnionFrom c0 fresh lhs rhs oL oR).2.1) (applyMap (tdUnionFrom c0 fresh lhs rhs oL oR).2.2)
        (lhs.abs syms) (rhs.abs syms)) := by
    rw [tdUnionFrom_result c0 fresh lhs rhs oL oR hne]
    exact tdUnion_setEq syms _ _ lhs.T rhs.T lhs.fin rhs.fin
      (fun q q' hq hq' => iA q q' (keys_sub_allStates_TD lhs hq) (keys_sub_allStates_TD lhs hq'))
      (fun q q' hq hq' => iB q q' (keys_sub_allStates_TD rhs hq) (keys_sub_allStates_TD rhs hq'))
      (fun q q' hq hq' => dAB q q' (keys_sub_allStates_TD lhs hq) (keys_sub_allStates_TD rhs hq'))
  refine ⟨hse, fun t => ?_, tA, tB⟩
  rw [hse.lang t]
  exact unionWith_lang _ _ _ _
    (fun q q' hq hq' => iA q q' (abs_states_sub_TD syms lhs hq) (abs_states_sub_TD syms lhs hq'))
    (fun q q' hq hq' => iB q q' (abs_states_sub_TD syms rhs hq) (abs_states_sub_TD syms rhs hq'))
    (fun q q' hq hq' => dAB q q' (abs_states_sub_TD syms lhs hq) (abs_states_sub_TD syms rhs hq')) t

/-- the final maps are injective with disjoint images when the given maps are and the counter starts above their numbers
(`Below`); they extend the given maps -/
theorem tdUnionFrom_maps_ok (c0 fresh : Nat) (lhs rhs : AutTD) (oL oR : Option SMap) (hne : lhs.tid ≠ rhs.tid)
    (hbL : Below (oL.getD []) c0) (hbR : Below (oR.getD []) c0)
    (hL : Inj (oL.getD [])) (hR : Inj (oR.getD [])) (hD : Disj (oL.getD []) (oR.getD [])) :
    Inj (tdUnionFrom c0 fresh lhs rhs oL oR).2.1 ∧ Inj (tdUnionFrom c0 fresh lhs rhs oL oR).2.2 ∧
    Disj (tdUnionFrom c0 fresh lhs rhs oL oR).2.1 (tdUnionFrom c0 fresh lhs rhs oL oR).2.2 ∧
    Ext (oL.getD []) (tdUnionFrom c0 fresh lhs rhs oL oR).2.1 ∧ Ext (oR.getD []) (tdUnionFrom c0 fresh lhs rhs oL oR).2.2 := by
  obtain ⟨m1, m2⟩ := tdUnionFrom_maps c0 fresh lhs rhs oL oR hne
  rw [m1, m2]
  obtain ⟨h1, h2, h3, h4, h5, _, _⟩ := passes (oA := orderTD lhs) (oB := orderTD rhs) hbL hbR hL hR hD
  exact ⟨h1, h2, h3, h4, h5⟩

/-! ### the `ShareTransTable` branches and `UnionDisjointStates` -/

/-- two handles on ONE top-down table: a run of the union is a run of the operand whose final state it ends in -/
theorem td_shared_lang (rs : List Rule) (F₁ F₂ : List Nat) (t : Tree) :
    accepts ⟨rs, F₁ ++ F₂⟩ t = (accepts ⟨rs, F₁⟩ t || accepts ⟨rs, F₂⟩ t) := by
  rw [Bool.eq_iff_iff]
  simp only [Bool.or_eq_true, accepts, accepting, List.any_eq_true, List.contains_iff_mem, List.mem_append]
  constructor
  · rintro ⟨q, hq, hf | hf⟩
    · exact Or.inl ⟨q, reach_mono ⟨rs, F₁ ++ F₂⟩ ⟨rs, F₁⟩ (fun _ h => h) t q hq, hf⟩
    · exact Or.inr ⟨q, reach_mono ⟨rs, F₁ ++ F₂⟩ ⟨rs, F₂⟩ (fun _ h => h) t q hq, hf⟩
  · rintro (⟨q, hq, hf⟩ | ⟨q, hq, hf⟩)
    · exact ⟨q, reach_mono ⟨rs, F₁⟩ ⟨rs, F₁ ++ F₂⟩ (fun _ h => h) t q hq, Or.inl hf⟩
    · exact ⟨q, reach_mono ⟨rs, F₂⟩ ⟨rs, F₁ ++ F₂⟩ (fun _ h => h) t q hq, Or.inr hf⟩

theorem tdShared_lang (syms : List Nat) (lhs rhs : AutTD) (hs : lhs.T = rhs.T) (t : Tree) :
    accepts (absTD syms lhs.T (lhs.fin ++ rhs.fin)) t = (accepts (lhs.abs syms) t || accepts (rhs.abs syms) t) := by
  unfold AutTD.abs absTD
  rw [← hs]
  exact td_shared_lang _ _ _ t

/-- key-disjointness from state-disjointness -/
theorem keys_disj_of_states_TD (lhs rhs : AutTD) (hdis : ∀ q, q ∈ lhs.allStates → q ∉ rhs.allStates) :
    ∀ p, p ∈ keysTD lhs.T → p ∉ keysTD rhs.T :=
  fun p h1 h2 => hdis p (keys_sub_allStates_TD lhs h1) (keys_sub_allStates_TD rhs h2)

end BddUnionCoded
end Vata
