import Vata.EnvTable
import Vata.Proofs.TaLts
/-!
# The environment table of `TranslateUpward` as a hash map: proofs (property C04)

* `find_append_some`, `run_tab_prefix`, `run_fst`   entries are never removed or changed: the number `envTranslator`
  returns at the time of a call is the number the finished table has for the key (needs `eq k k`)
* `run_pairwise`   no stored key is accepted for a later stored key (so, for a symmetric `hit`, two keys that accept each
  other are never both stored)
* `find_exact`, `run_exact`   if `hit` is equality on the keys that occur, the table is `(dedupG ks).zipIdx base`
* `envTab_exact`, `envListH_exact`, `envNodeH_exact`, `translateUpwardH_exact`   … hence the table model is the model
  of `Vata/TaLts.lean`
* `hit_unique`   for the two disciplines at most one stored entry is accepted for a key (the scan order is irrelevant)
* `envNodeH_collision`, `not_both_stored`   two environments with equal hash and equal `key` get one node, one entry
-/
namespace Vata.EnvTable
open Vata Vata.TaLts Vata.L

variable {κ : Type}

/-! ### entries persist -/

theorem find_append_some {ops : KeyOps κ} {t : List (κ × Nat)} {k : κ} {n : κ × Nat} (h : find ops t k = some n)
    (l : List (κ × Nat)) : find ops (t ++ l) k = some n := by
  unfold find at h ⊢
  rw [List.find?_append, h]; rfl

theorem find_append_none {ops : KeyOps κ} {t : List (κ × Nat)} {k : κ} (h : find ops t k = none)
    (l : List (κ × Nat)) : find ops (t ++ l) k = find ops l k := by
  unfold find at h ⊢
  rw [List.find?_append, h]; rfl

theorem translate_tab_prefix (ops : KeyOps κ) (st : TState κ) (k : κ) :
    ∃ l, (translate ops st k).2.tab = st.tab ++ l := by
  unfold translate
  split
  · exact ⟨[], (List.append_nil _).symm⟩
  · exact ⟨_, rfl⟩

theorem run_tab_prefix (ops : KeyOps κ) : ∀ (ks : List κ) (st : TState κ), ∃ l, (run ops st ks).2.tab = st.tab ++ l
  | [], st => ⟨[], (List.append_nil _).symm⟩
  | k :: ks, st => by
    obtain ⟨l1, h1⟩ := translate_tab_prefix ops st k
    obtain ⟨l2, h2⟩ := run_tab_prefix ops ks (translate ops st k).2
    refine ⟨l1 ++ l2, ?_⟩
    show (run ops (translate ops st k).2 ks).2.tab = _
    rw [h2, h1, List.append_assoc]

/-- the number returned by a call is the number the table has for the key after the call -/
theorem translate_fst {ops : KeyOps κ} (hrefl : ∀ k, ops.eq k k = true) (st : TState κ) (k : κ) :
    find ops (translate ops st k).2.tab k = some ((find ops (translate ops st k).2.tab k).getD (k, 0)) ∧
    (translate ops st k).1 = lookup ops (translate ops st k).2.tab k := by
  unfold translate lookup
  split
  · rename_i n hn
    simp only [hn, Option.getD_some, Option.map_some, and_self]
  · rename_i hn
    have : find ops (st.tab ++ [(k, st.cnt)]) k = some (k, st.cnt) := by
      rw [find_append_none hn]
      simp only [find, List.find?_cons, KeyOps.hit, beq_self_eq_true, hrefl, Bool.and_self]
    simp only [this, Option.getD_some, Option.map_some, and_self]

/-- **the numbers returned during the loops are the numbers of the finished table** -/
theorem run_fst {ops : KeyOps κ} (hrefl : ∀ k, ops.eq k k = true) : ∀ (ks : List κ) (st : TState κ),
    (run ops st ks).1 = ks.map (lookup ops (run ops st ks).2.tab)
  | [], _ => rfl
  | k :: ks, st => by
    show (translate ops st k).1 :: (run ops (translate ops st k).2 ks).1 =
      lookup ops (run ops (translate ops st k).2 ks).2.tab k :: ks.map (lookup ops (run ops (translate ops st k).2 ks).2.tab)
    rw [← run_fst hrefl ks]
    congr 1
    obtain ⟨h1, h2⟩ := translate_fst hrefl st k
    obtain ⟨l, hl⟩ := run_tab_prefix ops ks (translate ops st k).2
    rw [h2, hl]
    unfold lookup
    rw [find_append_some h1, h1]
    simp only [Option.getD_some]

/-! ### stored keys do not accept each other -/

theorem translate_pairwise {ops : KeyOps κ} {st : TState κ} (k : κ)
    (h : st.tab.Pairwise (fun a b => ops.hit b.1 a = false)) :
    (translate ops st k).2.tab.Pairwise (fun a b => ops.hit b.1 a = false) := by
  unfold translate
  split
  · exact h
  · rename_i hn
    refine List.pairwise_append.mpr ⟨h, List.pairwise_singleton _ _, ?_⟩
    intro a ha b hb
    rw [List.mem_singleton.mp hb]
    have := List.find?_eq_none.mp hn a ha
    simpa using this

theorem run_pairwise {ops : KeyOps κ} : ∀ (ks : List κ) (st : TState κ),
    st.tab.Pairwise (fun a b => ops.hit b.1 a = false) →
    (run ops st ks).2.tab.Pairwise (fun a b => ops.hit b.1 a = false)
  | [], _, h => h
  | k :: ks, st, h => run_pairwise ks (translate ops st k).2 (translate_pairwise k h)

theorem pairwise_mem_cases {α : Type} {R : α → α → Prop} : ∀ {l : List α}, l.Pairwise R → ∀ {a b : α}, a ∈ l → b ∈ l →
    a = b ∨ R a b ∨ R b a
  | [], _, _, _, ha, _ => by cases ha
  | x :: xs, h, a, b, ha, hb => by
    rw [List.pairwise_cons] at h
    rcases List.mem_cons.mp ha with ha | ha <;> rcases List.mem_cons.mp hb with hb | hb
    · exact Or.inl (ha.trans hb.symm)
    · exact Or.inr (Or.inl (ha ▸ h.1 b hb))
    · exact Or.inr (Or.inr (hb ▸ h.1 a ha))
    · exact pairwise_mem_cases h.2 ha hb

/-! ### an exact hash: the table is `dedupG` with the numbers `base, base + 1, …` -/

/-- on the keys of `S` a stored key is accepted iff it is the key looked for -/
def Exact (ops : KeyOps κ) (S : κ → Prop) : Prop :=
  ∀ x y, S x → S y → ((ops.hash y == ops.hash x && ops.eq x y) = true ↔ y = x)

theorem find_exact [DecidableEq κ] {ops : KeyOps κ} {S : κ → Prop} (hex : Exact ops S) {k : κ} (hk : S k) :
    ∀ (keys : List κ) (base : Nat), (∀ x, x ∈ keys → S x) →
      find ops (keys.zipIdx base) k = if k ∈ keys then some (k, base + pos k keys) else none
  | [], _, _ => rfl
  | y :: ys, base, hS => by
    have ih := find_exact hex hk ys (base + 1) (fun x hx => hS x (List.mem_cons_of_mem _ hx))
    unfold find at ih ⊢
    rw [List.zipIdx_cons, List.find?_cons]
    have hy := hex k y hk (hS y List.mem_cons_self)
    by_cases hyk : y = k
    · have : ops.hit k (y, base) = true := hy.mpr hyk
      rw [this, if_pos (by rw [hyk]; exact List.mem_cons_self)]
      simp only [pos, hyk, if_true, Nat.add_zero]
    · have : ops.hit k (y, base) = false := by
        cases hc : ops.hit k (y, base)
        · rfl
        · exact absurd (hy.mp hc) hyk
      rw [this, ih]
      have hky : ¬ k = y := fun h => hyk h.symm
      by_cases hm : k ∈ ys
      · rw [if_pos hm, if_pos (List.mem_cons_of_mem _ hm)]
        simp only [pos, if_neg hky]
        congr 2; omega
      · rw [if_neg hm, if_neg]
        intro h
        rcases List.mem_cons.mp h with h | h
        · exact hky h
        · exact hm h

theorem run_exact [DecidableEq κ] {ops : KeyOps κ} {S : κ → Prop} (hex : Exact ops S) (base : Nat) :
    ∀ (ks : List κ) (keys : List κ) (st : TState κ), (∀ x, x ∈ ks → S x) → (∀ x, x ∈ keys → S x) →
      st.tab = keys.zipIdx base → st.cnt = base + keys.length →
      (run ops st ks).2.tab = (keys ++ (dedupG ks).filter (fun k => decide (k ∉ keys))).zipIdx base
  | [], keys, st, _, _, ht, _ => by
    show st.tab = _
    rw [ht]; simp [dedupG]
  | k :: ks, keys, st, hks, hkeys, ht, hc => by
    have hk : S k := hks k List.mem_cons_self
    have hks' : ∀ x, x ∈ ks → S x := fun x hx => hks x (List.mem_cons_of_mem _ hx)
    have hf := find_exact hex hk keys base hkeys
    rw [← ht] at hf
    show (run ops (translate ops st k).2 ks).2.tab = _
    by_cases hm : k ∈ keys
    · rw [if_pos hm] at hf
      have : translate ops st k = ((k, base + pos k keys).2, st) := by
        unfold translate; rw [hf]
      rw [this, run_exact hex base ks keys st hks' hkeys ht hc]
      congr 2
      simp only [dedupG, List.filter_cons, hm, not_true_eq_false, decide_false, Bool.false_eq_true, if_false,
        List.filter_filter]
      apply List.filter_congr
      intro x _
      by_cases hx : x ∈ keys
      · simp [hx]
      · have : x ≠ k := fun h => hx (h ▸ hm)
        simp [hx, this]
    · rw [if_neg hm] at hf
      have : translate ops st k = (st.cnt, ⟨st.tab ++ [(k, st.cnt)], st.cnt + 1⟩) := by
        unfold translate; rw [hf]
      rw [this]
      have ht' : st.tab ++ [(k, st.cnt)] = (keys ++ [k]).zipIdx base := by
        rw [List.zipIdx_append, ht, hc]; rfl
      have hkeys' : ∀ x, x ∈ keys ++ [k] → S x := by
        intro x hx
        rcases List.mem_append.mp hx with hx | hx
        · exact hkeys x hx
        · rw [List.mem_singleton.mp hx]; exact hk
      rw [run_exact hex base ks (keys ++ [k]) _ hks' hkeys' ht'
        (by simp only [List.length_append, List.length_singleton]; omega)]
      congr 1
      simp only [dedupG, List.filter_cons, hm, not_false_eq_true, decide_true, if_true, List.filter_filter,
        List.append_assoc, List.singleton_append]
      congr 2
      apply List.filter_congr
      intro x _
      by_cases hx : x ∈ keys
      · simp [hx]
      · by_cases hxk : x = k
        · simp [hxk]
        · simp [hx, hxk]

/-! ### the parametrised translation: the model of `Vata/TaLts.lean` is an instance, congruence -/

theorem translateUpward_eq_G (A : TA) (idx : Nat → Nat) :
    translateUpward A idx = translateUpwardG A idx (envList A idx) (envNode A idx) := rfl

theorem upRuleEdgesG_congr {A : TA} {idx : Nat → Nat} {Es : List Env} {node node' : Env → Nat}
    (hn : ∀ e, e ∈ Es → node e = node' e)
    (hEs : ∀ e, e ∈ envList A idx → e ∈ Es) {ρ : Rule} (hρ : ρ ∈ A.rules) :
    upRuleEdgesG A idx node ρ = upRuleEdgesG A idx node' ρ := by
  unfold upRuleEdgesG
  split
  · rfl
  · rfl
  · rename_i h0 h1
    apply List.map_congr_left
    intro pi hpi
    have hi := List.mem_zipIdx hpi
    have hl : 2 ≤ ρ.kids.length := by
      match hk : ρ.kids with
      | [] => exact absurd hk h0
      | [p] => exact absurd hk (h1 p)
      | _ :: _ :: _ => simp
    have : ρ.kids[pi.2]? = some pi.1 := by
      have h3 := hi.2.2
      simp only [Nat.sub_zero] at h3
      rw [h3]; exact List.getElem?_eq_getElem _
    rw [hn _ (hEs _ (mkEnv_mem hρ hl this))]

theorem flatMap_congr' {α β : Type} {f g : α → List β} : ∀ {l : List α}, (∀ x, x ∈ l → f x = g x) →
    l.flatMap f = l.flatMap g
  | [], _ => rfl
  | x :: xs, h => by
    rw [List.flatMap_cons, List.flatMap_cons, h x List.mem_cons_self,
      flatMap_congr' (fun y hy => h y (List.mem_cons_of_mem _ hy))]

theorem filter_const_true {α : Type} : ∀ l : List α, l.filter (fun _ => true) = l
  | [] => rfl
  | x :: xs => by rw [List.filter_cons, if_pos rfl, filter_const_true xs]

theorem translateUpwardG_congr {A : TA} {idx : Nat → Nat} {Es : List Env} {node node' : Env → Nat}
    (hn : ∀ e, e ∈ Es → node e = node' e) (hEs : ∀ e, e ∈ envList A idx → e ∈ Es) :
    translateUpwardG A idx Es node = translateUpwardG A idx Es node' := by
  have h1 : upEdgesG A idx Es node = upEdgesG A idx Es node' := by
    unfold upEdgesG upEnvEdgesG
    congr 1
    · apply flatMap_congr'
      intro ρ hρ
      exact upRuleEdgesG_congr hn hEs hρ
    · apply List.map_congr_left
      intro e he
      rw [hn e he]
  have h2 : upPartitionG A idx Es node = upPartitionG A idx Es node' := by
    unfold upPartitionG
    dsimp only
    congr 1
    apply List.map_congr_left
    intro k _
    apply List.map_congr_left
    intro e he
    exact hn e (List.mem_filter.mp he).1
  unfold translateUpwardG
  rw [h1, h2]

/-! ### the four-field hash without collisions -/

/-- the four fields `env_hash` mixes -/
def Env.tuple (e : Env) : List Nat × Nat × Nat × Nat := (e.children, e.index, e.symbol, e.state)

/-- no two different environments that occur have the same hash code -/
def NoCollision (h4 : List Nat × Nat × Nat × Nat → Nat) (A : TA) (idx : Nat → Nat) : Prop :=
  ∀ e e', e ∈ envList A idx → e' ∈ envList A idx → h4 (Env.tuple e) = h4 (Env.tuple e') → e = e'

def noCollisionB (h4 : List Nat × Nat × Nat × Nat → Nat) (A : TA) (idx : Nat → Nat) : Bool :=
  (envList A idx).all (fun e => (envList A idx).all (fun e' => h4 (Env.tuple e) != h4 (Env.tuple e') || decide (e = e')))

theorem noCollisionB_iff {h4 : List Nat × Nat × Nat × Nat → Nat} {A : TA} {idx : Nat → Nat} :
    noCollisionB h4 A idx = true ↔ NoCollision h4 A idx := by
  simp only [noCollisionB, List.all_eq_true, Bool.or_eq_true, bne_iff_ne, ne_eq, decide_eq_true_eq, NoCollision]
  constructor
  · intro h e e' he he' hh
    rcases h e he e' he' with h | h
    · exact absurd hh h
    · exact h
  · intro h e he e' he'
    by_cases hh : h4 (Env.tuple e) = h4 (Env.tuple e')
    · exact Or.inr (h e e' he he' hh)
    · exact Or.inl hh

theorem exact_full {h4 : List Nat × Nat × Nat × Nat → Nat} {A : TA} {idx : Nat → Nat} (h : NoCollision h4 A idx) :
    Exact (envKeyFull h4) (fun e => e ∈ envList A idx) := by
  intro x y hx hy
  constructor
  · intro hh
    simp only [envKeyFull, Bool.and_eq_true, beq_iff_eq, decide_eq_true_eq] at hh
    exact h y x hy hx hh.1
  · intro hh
    subst hh
    simp [envKeyFull]

theorem mem_allEnvs_envList {A : TA} {idx : Nat → Nat} {e : Env} : e ∈ allEnvs A idx ↔ e ∈ envList A idx := by
  unfold allEnvs envList; exact mem_dedupG.symm

theorem envTab_exact {ops : KeyOps Env} {A : TA} {idx : Nat → Nat} (hex : Exact ops (fun e => e ∈ envList A idx)) :
    envTab ops A idx = (envList A idx).zipIdx ((parents A).length + 1) := by
  unfold envTab
  rw [run_exact hex ((parents A).length + 1) (allEnvs A idx) [] _ (fun x hx => mem_allEnvs_envList.mp hx)
    (fun x hx => by cases hx) rfl rfl]
  simp only [List.not_mem_nil, not_false_eq_true, decide_true, filter_const_true, List.nil_append, envList, allEnvs]

theorem envListH_exact {ops : KeyOps Env} {A : TA} {idx : Nat → Nat} (hex : Exact ops (fun e => e ∈ envList A idx)) :
    envListH ops A idx = envList A idx := by
  unfold envListH
  rw [envTab_exact hex]
  exact List.zipIdx_map_fst _ _

theorem envNodeH_exact {ops : KeyOps Env} {A : TA} {idx : Nat → Nat} (hex : Exact ops (fun e => e ∈ envList A idx))
    {e : Env} (he : e ∈ envList A idx) : envNodeH ops A idx e = envNode A idx e := by
  unfold envNodeH lookup
  rw [envTab_exact hex, find_exact hex he _ _ (fun x hx => hx), if_pos he]
  rfl

theorem translateUpwardH_exact {ops : KeyOps Env} {A : TA} {idx : Nat → Nat}
    (hex : Exact ops (fun e => e ∈ envList A idx)) : translateUpwardH ops A idx = translateUpward A idx := by
  unfold translateUpwardH
  rw [translateUpward_eq_G, envListH_exact hex]
  exact translateUpwardG_congr (fun e he => envNodeH_exact hex he) (fun e he => he)

/-! ### equal hash and equal `key`: one node, one entry -/

/-- for the two key disciplines acceptance depends on the hash code and the three compared fields only -/
theorem hit_congr {ops : KeyOps Env} (heq : ∀ a b, ops.eq a b = decide (a.key = b.key)) {e1 e2 : Env}
    (hh : ops.hash e1 = ops.hash e2) (hk : e1.key = e2.key) : ops.hit e1 = ops.hit e2 := by
  funext n
  simp only [KeyOps.hit, heq, hh, hk]

theorem envNodeH_collision {ops : KeyOps Env} (heq : ∀ a b, ops.eq a b = decide (a.key = b.key)) (A : TA) (idx : Nat → Nat)
    {e1 e2 : Env} (hh : ops.hash e1 = ops.hash e2) (hk : e1.key = e2.key) :
    envNodeH ops A idx e1 = envNodeH ops A idx e2 := by
  unfold envNodeH lookup find
  rw [hit_congr heq hh hk]

theorem envTab_pairwise (ops : KeyOps Env) (A : TA) (idx : Nat → Nat) :
    (envTab ops A idx).Pairwise (fun a b => ops.hit b.1 a = false) :=
  run_pairwise _ _ List.Pairwise.nil

theorem not_both_stored {ops : KeyOps Env} (heq : ∀ a b, ops.eq a b = decide (a.key = b.key)) (A : TA) (idx : Nat → Nat)
    {e1 e2 : Env} (hne : e1 ≠ e2) (hh : ops.hash e1 = ops.hash e2) (hk : e1.key = e2.key) :
    ¬ (e1 ∈ envListH ops A idx ∧ e2 ∈ envListH ops A idx) := by
  rintro ⟨h1, h2⟩
  unfold envListH at h1 h2
  obtain ⟨⟨k1, n1⟩, hm1, rfl⟩ := List.mem_map.mp h1
  obtain ⟨⟨k2, n2⟩, hm2, rfl⟩ := List.mem_map.mp h2
  rcases pairwise_mem_cases (envTab_pairwise ops A idx) hm1 hm2 with h | h | h
  · exact hne (congrArg Prod.fst h)
  · simp only [KeyOps.hit, heq, hh, hk, beq_self_eq_true, decide_true, Bool.and_self] at h
    exact absurd h (by decide)
  · simp only [KeyOps.hit, heq, hh, hk, beq_self_eq_true, decide_true, Bool.and_self] at h
    exact absurd h (by decide)

/-- at most one stored entry is accepted for a key: whatever the order of the scan, it finds the same entry -/
theorem hit_unique {ops : KeyOps Env} (heq : ∀ a b, ops.eq a b = decide (a.key = b.key)) (A : TA) (idx : Nat → Nat)
    (e : Env) {n1 n2 : Env × Nat} (h1 : n1 ∈ envTab ops A idx) (h2 : n2 ∈ envTab ops A idx)
    (a1 : ops.hit e n1 = true) (a2 : ops.hit e n2 = true) : n1 = n2 := by
  simp only [KeyOps.hit, heq, Bool.and_eq_true, beq_iff_eq, decide_eq_true_eq] at a1 a2
  rcases pairwise_mem_cases (envTab_pairwise ops A idx) h1 h2 with h | h | h
  · exact h
  · have : ops.hit n2.1 n1 = true := by
      simp only [KeyOps.hit, heq, Bool.and_eq_true, beq_iff_eq, decide_eq_true_eq]
      exact ⟨a1.1.trans a2.1.symm, a2.2.symm.trans a1.2⟩
    rw [h] at this; exact absurd this (by decide)
  · have : ops.hit n1.1 n2 = true := by
      simp only [KeyOps.hit, heq, Bool.and_eq_true, beq_iff_eq, decide_eq_true_eq]
      exact ⟨a2.1.trans a1.1.symm, a1.2.symm.trans a2.2⟩
    rw [h] at this; exact absurd this (by decide)

end Vata.EnvTable
