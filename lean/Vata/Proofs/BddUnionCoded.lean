import Vata.BddUnionCoded
import Vata.Proofs.UnionModel
import Vata.Proofs.BddAbsTD
/-!
# The threaded translators of the BDD `ReindexStates` (property C08) – part 1

* the weak translator only ever EXTENDS its map (`ext_wAll`, no hypothesis on the counter), so a translation made at any
  time agrees with the FINAL map: `trList_spec`, `trTuples_spec`, `rewrite_spec` turn the state-threading code into
  "`Apply1` with the final map" + "the translator state after feeding it the visited states in order" (`wAll`);
* `reindexLoopTD_spec`, `reindexLoopBU_spec`: the same for the table loops.
-/
namespace Vata
namespace BddUnionCoded
open M BddAbs BddAbsTD Um

/-- the translator state after the states `qs` were presented in order -/
def wAll (qs : List Nat) (s : TrSt) : TrSt := weakTrAll qs s.1 s.2

theorem wAll_nil (s : TrSt) : wAll [] s = s := rfl

theorem wAll_cons (q : Nat) (qs : List Nat) (s : TrSt) : wAll (q :: qs) s = wAll qs (weakTr s.1 s.2 q) := rfl

theorem wAll_append : ∀ (a b : List Nat) (s : TrSt), wAll (a ++ b) s = wAll b (wAll a s)
  | [], _, _ => rfl
  | q :: a, b, s => by
    rw [List.cons_append, wAll_cons, wAll_cons, wAll_append a b]

theorem Ext.refl (m : SMap) : Ext m m := fun _ _ h => h
theorem Ext.trans {a b c : SMap} (h : Ext a b) (h' : Ext b c) : Ext a c := fun p n hp => h' p n (h p n hp)

theorem ext_weakTr (m : SMap) (c q : Nat) : Ext m (weakTr m c q).1 := by
  intro p n hp
  unfold weakTr
  split
  · exact hp
  · show (m ++ [(q, c)]).lookup p = some n
    rw [lookup_snoc, hp]; rfl

theorem ext_wAll : ∀ (qs : List Nat) (s : TrSt), Ext s.1 (wAll qs s).1
  | [], _ => Ext.refl _
  | q :: qs, s => by
    rw [wAll_cons]
    exact Ext.trans (ext_weakTr s.1 s.2 q) (ext_wAll qs _)

theorem wAll_known : ∀ (qs : List Nat) (s : TrSt) (q : Nat), q ∈ qs → ∃ n, (wAll qs s).1.lookup q = some n
  | [], _, _, h => by simp at h
  | q' :: qs, s, q, h => by
    rw [wAll_cons]
    rcases List.mem_cons.mp h with rfl | h
    · obtain ⟨n, hn⟩ := weakTr_known s.1 s.2 q
      exact ⟨n, ext_wAll qs _ q n hn⟩
    · exact wAll_known qs _ q h

/-- a call for a state that is known changes nothing (the leaf cache of `Apply1Functor` cannot be observed) -/
theorem tr1_known (s : TrSt) (q n : Nat) (h : s.1.lookup q = some n) : tr1 s q = (n, s) := by
  simp only [tr1, weakTr, h, applyMap, Option.getD_some]

theorem tr1_spec (s : TrSt) (q : Nat) :
    (tr1 s q).2 = wAll [q] s ∧ ∀ M, Ext (wAll [q] s).1 M → (tr1 s q).1 = applyMap M q := by
  refine ⟨rfl, fun M hM => ?_⟩
  obtain ⟨n, hn⟩ := weakTr_known s.1 s.2 q
  show applyMap (weakTr s.1 s.2 q).1 q = _
  rw [applyMap_of_lookup hn, applyMap_of_lookup (hM q n hn)]

theorem trList_spec : ∀ (qs : List Nat) (s : TrSt),
    (trList s qs).2 = wAll qs s ∧ ∀ M, Ext (wAll qs s).1 M → (trList s qs).1 = qs.map (applyMap M)
  | [], _ => ⟨rfl, fun _ _ => rfl⟩
  | q :: qs, s => by
    have h1 := tr1_spec s q
    have ih := trList_spec qs (tr1 s q).2
    have e : wAll (q :: qs) s = wAll qs (tr1 s q).2 := rfl
    refine ⟨?_, fun M hM => ?_⟩
    · show (trList (tr1 s q).2 qs).2 = _
      rw [ih.1, e]
    · show (tr1 s q).1 :: (trList (tr1 s q).2 qs).1 = _
      rw [e] at hM
      rw [ih.2 M hM, h1.2 M (Ext.trans (by rw [← h1.1]; exact ext_wAll qs _) hM)]
      rfl

theorem trTuples_spec : ∀ (l : List (List Nat)) (s : TrSt),
    (trTuples s l).2 = wAll (l.flatMap id) s ∧
    ∀ M, Ext (wAll (l.flatMap id) s).1 M → (trTuples s l).1 = l.map (fun ks => ks.map (applyMap M))
  | [], _ => ⟨rfl, fun _ _ => rfl⟩
  | ks :: l, s => by
    have h1 := trList_spec ks s
    have ih := trTuples_spec l (trList s ks).2
    have e : wAll ((ks :: l).flatMap id) s = wAll (l.flatMap id) (trList s ks).2 := by
      rw [List.flatMap_cons, wAll_append, h1.1]; rfl
    refine ⟨?_, fun M hM => ?_⟩
    · show (trTuples (trList s ks).2 l).2 = _
      rw [ih.1, e]
    · show (trList s ks).1 :: (trTuples (trList s ks).2 l).1 = _
      rw [e] at hM
      rw [ih.2 M hM, h1.2 M (Ext.trans (by rw [← h1.1]; exact ext_wAll _ _) hM)]
      rfl

/-! ### the leaf operations with the final map -/

/-- top-down leaf rewriting with a fixed map -/
def rwTD (M : SMap) (l : List (List Nat)) : List (List Nat) := normT (l.map (fun ks => ks.map (applyMap M)))
/-- bottom-up leaf rewriting with a fixed map -/
def rwBU (M : SMap) (l : List Nat) : List Nat := InclUp.normS (l.map (applyMap M))

theorem leafOpTD_spec (s : TrSt) (l : List (List Nat)) :
    (leafOpTD s l).2 = wAll (l.flatMap id) s ∧ ∀ M, Ext (wAll (l.flatMap id) s).1 M → (leafOpTD s l).1 = rwTD M l := by
  have h := trTuples_spec l s
  refine ⟨h.1, fun M hM => ?_⟩
  show normT (trTuples s l).1 = _
  rw [h.2 M hM]; rfl

theorem leafOpBU_spec (s : TrSt) (l : List Nat) :
    (leafOpBU s l).2 = wAll l s ∧ ∀ M, Ext (wAll l s).1 M → (leafOpBU s l).1 = rwBU M l := by
  have h := trList_spec l s
  refine ⟨h.1, fun M hM => ?_⟩
  show InclUp.normS (trList s l).1 = _
  rw [h.2 M hM]; rfl

/-- the `Apply1` traversal with a translator-threading leaf operation is `apply1` with the final map, and the translator
ends in the state reached by presenting the states of the visited leaves in order -/
theorem rewrite_spec {α β : Type} [DecidableEq β] (leafOp : TrSt → α → β × TrSt) (visit : α → List Nat)
    (pure : SMap → α → β)
    (H : ∀ s v, (leafOp s v).2 = wAll (visit v) s ∧ ∀ M, Ext (wAll (visit v) s).1 M → (leafOp s v).1 = pure M v) :
    ∀ (m : Node α) (s : TrSt), (rewrite leafOp s m).2 = wAll ((voidApply1 m).flatMap visit) s ∧
      ∀ M, Ext (wAll ((voidApply1 m).flatMap visit) s).1 M → (rewrite leafOp s m).1 = apply1 (pure M) m
  | .leaf v, s => by
    have h := H s v
    have e : (voidApply1 (Node.leaf v)).flatMap visit = visit v := by simp [voidApply1]
    rw [e]
    exact ⟨h.1, fun M hM => by show Node.leaf (leafOp s v).1 = _; rw [h.2 M hM]; rfl⟩
  | .node x lo hi, s => by
    have h1 := rewrite_spec leafOp visit pure H lo s
    have h2 := rewrite_spec leafOp visit pure H hi (rewrite leafOp s lo).2
    have e : wAll ((voidApply1 (Node.node x lo hi)).flatMap visit) s =
        wAll ((voidApply1 hi).flatMap visit) (rewrite leafOp s lo).2 := by
      rw [h1.1]
      show wAll ((voidApply1 lo ++ voidApply1 hi).flatMap visit) s = _
      rw [List.flatMap_append, wAll_append]
    refine ⟨?_, fun M hM => ?_⟩
    · show (rewrite leafOp (rewrite leafOp s lo).2 hi).2 = _
      rw [h2.1, e]
    · show mk x (rewrite leafOp s lo).1 (rewrite leafOp (rewrite leafOp s lo).2 hi).1 = _
      rw [e] at hM
      rw [h2.2 M hM, h1.2 M (Ext.trans (by rw [← h1.1]; exact ext_wAll _ _) hM)]
      rfl

theorem rewriteTD_spec (m : MTD) (s : TrSt) :
    (rewrite leafOpTD s m).2 = wAll (leafStatesTD m) s ∧
    ∀ M, Ext (wAll (leafStatesTD m) s).1 M → (rewrite leafOpTD s m).1 = apply1 (rwTD M) m :=
  rewrite_spec leafOpTD (fun l => l.flatMap id) rwTD leafOpTD_spec m s

theorem rewriteBU_spec (m : MT) (s : TrSt) :
    (rewrite leafOpBU s m).2 = wAll (leafParents m) s ∧
    ∀ M, Ext (wAll (leafParents m) s).1 M → (rewrite leafOpBU s m).1 = apply1 (rwBU M) m :=
  rewrite_spec leafOpBU id rwBU leafOpBU_spec m s

/-! ### the table loops -/

/-- the top-down table loop with a fixed map -/
def pureLoopTD (M : SMap) (T : TableTD) (L : List (Nat × MTD)) (R : TableTD) : TableTD :=
  L.foldl (fun R e => setTD R (applyMap M e.1) (apply1 (rwTD M) (getTD T e.1))) R

/-- the bottom-up table loop with a fixed map -/
def pureLoopBU (M : SMap) (T : Table) (L : List (List Nat × MT)) (R : Table) : Table :=
  L.foldl (fun R e => R.set (e.1.map (applyMap M)) (apply1 (rwBU M) (T.get e.1))) R

theorem reindexLoopTD_spec (T : TableTD) : ∀ (L : List (Nat × MTD)) (R : TableTD) (s : TrSt),
    (reindexLoopTD T L R s).2 = wAll (orderLoopTD T L) s ∧
    ∀ M, Ext (wAll (orderLoopTD T L) s).1 M → (reindexLoopTD T L R s).1 = pureLoopTD M T L R
  | [], _, _ => ⟨rfl, fun _ _ => rfl⟩
  | e :: L, R, s => by
    have h1 := tr1_spec s e.1
    have h2 := rewriteTD_spec (getTD T e.1) (tr1 s e.1).2
    have ih := reindexLoopTD_spec T L (setTD R (tr1 s e.1).1 (rewrite leafOpTD (tr1 s e.1).2 (getTD T e.1)).1)
      (rewrite leafOpTD (tr1 s e.1).2 (getTD T e.1)).2
    have e0 : wAll (orderLoopTD T (e :: L)) s =
        wAll (orderLoopTD T L) (rewrite leafOpTD (tr1 s e.1).2 (getTD T e.1)).2 := by
      rw [h2.1, h1.1]
      show wAll ((e.1 :: leafStatesTD (getTD T e.1)) ++ orderLoopTD T L) s = _
      rw [wAll_append]; rfl
    refine ⟨?_, fun M hM => ?_⟩
    · show (reindexLoopTD T L _ _).2 = _
      rw [ih.1, e0]
    · show (reindexLoopTD T L _ _).1 = _
      rw [e0] at hM
      have hM2 : Ext (rewrite leafOpTD (tr1 s e.1).2 (getTD T e.1)).2.1 M := Ext.trans (ext_wAll _ _) hM
      have hM1 : Ext (wAll [e.1] s).1 M := by
        rw [h2.1] at hM2
        rw [← h1.1]
        exact Ext.trans (ext_wAll _ _) hM2
      rw [ih.2 M hM, h2.2 M (by rw [← h2.1]; exact hM2), h1.2 M hM1]
      rfl

theorem reindexLoopBU_spec (T : Table) : ∀ (L : List (List Nat × MT)) (R : Table) (s : TrSt),
    (reindexLoopBU T L R s).2 = wAll (orderLoopBU T L) s ∧
    ∀ M, Ext (wAll (orderLoopBU T L) s).1 M → (reindexLoopBU T L R s).1 = pureLoopBU M T L R
  | [], _, _ => ⟨rfl, fun _ _ => rfl⟩
  | e :: L, R, s => by
    have h1 := trList_spec e.1 s
    have h2 := rewriteBU_spec (T.get e.1) (trList s e.1).2
    have ih := reindexLoopBU_spec T L (R.set (trList s e.1).1 (rewrite leafOpBU (trList s e.1).2 (T.get e.1)).1)
      (rewrite leafOpBU (trList s e.1).2 (T.get e.1)).2
    have e0 : wAll (orderLoopBU T (e :: L)) s =
        wAll (orderLoopBU T L) (rewrite leafOpBU (trList s e.1).2 (T.get e.1)).2 := by
      rw [h2.1, h1.1]
      show wAll ((e.1 ++ leafParents (T.get e.1)) ++ orderLoopBU T L) s = _
      rw [wAll_append, wAll_append]
    refine ⟨?_, fun M hM => ?_⟩
    · show (reindexLoopBU T L _ _).2 = _
      rw [ih.1, e0]
    · show (reindexLoopBU T L _ _).1 = _
      rw [e0] at hM
      have hM2 : Ext (rewrite leafOpBU (trList s e.1).2 (T.get e.1)).2.1 M := Ext.trans (ext_wAll _ _) hM
      have hM1 : Ext (wAll e.1 s).1 M := by
        rw [h2.1] at hM2
        rw [← h1.1]
        exact Ext.trans (ext_wAll _ _) hM2
      rw [ih.2 M hM, h2.2 M (by rw [← h2.1]; exact hM2), h1.2 M hM1]
      rfl

/-! ### `ReindexStates` as a whole -/

/-- the top-down `ReindexStates`: table and final states translated with the final map `M`; the translator ends in
`wAll (orderTD A) s` -/
theorem reindexTD_spec (A dst : AutTD) (s : TrSt) :
    (reindexTD A dst s).2 = wAll (orderTD A) s ∧
    ∀ M, Ext (wAll (orderTD A) s).1 M →
      (reindexTD A dst s).1 = ⟨dst.tid, pureLoopTD M A.T A.T dst.T, dst.fin ++ A.fin.map (applyMap M)⟩ := by
  have h1 := reindexLoopTD_spec A.T A.T dst.T s
  have h2 := trList_spec A.fin (reindexLoopTD A.T A.T dst.T s).2
  have e0 : wAll (orderTD A) s = wAll A.fin (reindexLoopTD A.T A.T dst.T s).2 := by
    rw [h1.1]; unfold orderTD; rw [wAll_append]
  refine ⟨?_, fun M hM => ?_⟩
  · show (trList (reindexLoopTD A.T A.T dst.T s).2 A.fin).2 = _
    rw [h2.1, e0]
  · rw [e0] at hM
    have hM1 : Ext (wAll (orderLoopTD A.T A.T) s).1 M := by
      rw [← h1.1]; exact Ext.trans (ext_wAll _ _) hM
    show AutTD.mk dst.tid (reindexLoopTD A.T A.T dst.T s).1 (dst.fin ++ (trList (reindexLoopTD A.T A.T dst.T s).2 A.fin).1) = _
    rw [h2.2 M hM, h1.2 M hM1]

/-- the bottom-up `ReindexStates` -/
theorem reindexBU_spec (A dst : AutBU) (s : TrSt) :
    (reindexBU A dst s).2.2 = wAll (orderBU A) s ∧
    ∀ M, Ext (wAll (orderBU A) s).1 M →
      (reindexBU A dst s).1 = ⟨dst.tid, (pureLoopBU M A.T (pairs A.T) dst.T).set [] (apply1 (rwBU M) (A.T.get [])),
        dst.fin ++ A.fin.map (applyMap M)⟩ ∧
      (reindexBU A dst s).2.1 = apply1 (rwBU M) (A.T.get []) := by
  have h1 := reindexLoopBU_spec A.T (pairs A.T) dst.T s
  have h2 := trList_spec A.fin (reindexLoopBU A.T (pairs A.T) dst.T s).2
  have h3 := rewriteBU_spec (A.T.get []) (trList (reindexLoopBU A.T (pairs A.T) dst.T s).2 A.fin).2
  have e0 : wAll (orderBU A) s =
      wAll (leafParents (A.T.get [])) (trList (reindexLoopBU A.T (pairs A.T) dst.T s).2 A.fin).2 := by
    rw [h2.1, h1.1]; unfold orderBU; rw [wAll_append, wAll_append]
  refine ⟨?_, fun M hM => ?_⟩
  · show (rewrite leafOpBU (trList (reindexLoopBU A.T (pairs A.T) dst.T s).2 A.fin).2 (A.T.get [])).2 = _
    rw [h3.1, e0]
  · rw [e0] at hM
    have hM2 : Ext (wAll A.fin (reindexLoopBU A.T (pairs A.T) dst.T s).2).1 M := by
      rw [← h2.1]; exact Ext.trans (ext_wAll _ _) hM
    have hM1 : Ext (wAll (orderLoopBU A.T (pairs A.T)) s).1 M := by
      rw [← h1.1]; exact Ext.trans (ext_wAll _ _) hM2
    have e3 := h3.2 M hM
    refine ⟨?_, e3⟩
    show AutBU.mk dst.tid ((reindexLoopBU A.T (pairs A.T) dst.T s).1.set []
      (rewrite leafOpBU (trList (reindexLoopBU A.T (pairs A.T) dst.T s).2 A.fin).2 (A.T.get [])).1)
      (dst.fin ++ (trList (reindexLoopBU A.T (pairs A.T) dst.T s).2 A.fin).1) = _
    rw [e3, h2.2 M hM2, h1.2 M hM1]

end BddUnionCoded
end Vata
