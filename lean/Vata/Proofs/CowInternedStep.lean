import Vata.Proofs.CowInternedRefine
/-!
# Named automata over one tuple cache – one call, histories, liveness of cache entries

`stepC_lib` : a call of the library keeps `Inv'` and acts on the automaton values like the value-level specification;
`runFrom_lib` / `run_lib` : histories; `stepC_isSome` / `runA_lib` : a call fails only on an impossible allocator choice;
`no_leak` : when no automaton and no outside holder is left the cache is empty.
-/
namespace Vata.CowI
open Vata.Store (upsert insN insTuple TupleSet addToMap addToCluster)
open Vata.CowHeap (upd upd_same upd_other)
open Vata.CowHeap3 (Heap valM valC mout cout hmap_mem)
open Vata.CowHeapX (HeapX stepX absX specStepX specInitX InvX ValX HOpX absX_of_mem absX_of_not_mem)
open Vata.StoreI (CacheSt lookupC acquireC releaseC derefC CInv)

/-- the invariant of the whole system -/
structure Inv' (s : Sys) : Prop where
  /-- use counts of map / cluster / tuple-set nodes = number of referrers, no garbage (`CowHeap3.Inv`) -/
  heap : InvX s.hx
  /-- use count of a cache entry = number of cells of live tuple-set nodes holding it (a shared node ONCE) + outside
      holders; cache keys and addresses are unambiguous; every pointer held is an entry -/
  cache : CI (s.hx.core, s.cache) s.ext
  /-- tuple sets hold cells -/
  cells : CellsV (absX s.hx)

/-- the value-level effect of a call -/
def specV (a : Nat → Option ValX) : Option HOpX → (Nat → Option ValX)
  | some op => specStepX a op
  | none => a

theorem inv_init : Inv' init := by
  refine ⟨CowHeapX.invX_init, ?_, ?_⟩
  · exact StoreI.cinv_nil
  · intro h s hs
    rw [show absX init.hx = specInitX from CowHeapX.absX_init] at hs
    cases hs

theorem absV_eq (s : Sys) : absV s = fun k => (absX s.hx k).map (derefS s.cache) := rfl

/-- a call that acts on the heap as `stepX … op'` and on the cache by acquire / release steps from `c₀` -/
theorem frame {HX : HeapX} (hI : InvX HX) (hcv : CellsV (absX HX)) {c₀ : CacheSt} {R₀ : List Nat} (h0 : CInv c₀ R₀)
    {op' : HOpX} (hop : cellOp op') {c' : CacheSt} {E' : List Nat} (hci : CI ((stepX HX op').core, c') E')
    (hsub : Sub c' c₀) :
    Inv' ⟨stepX HX op', c', E'⟩ ∧
      absV ⟨stepX HX op', c', E'⟩ = fun k => (specStepX (absX HX) op' k).map (derefS c₀) := by
  obtain ⟨e, hI'⟩ := CowHeapX.cowX_refines_values hI op'
  refine ⟨⟨hI', hci, by rw [e]; exact cellsV_step hcv hop⟩, ?_⟩
  funext k
  show (absX (stepX HX op') k).map (derefS c') = _
  rw [absX_map_congr hI' (fun id hid => deref_of_sub h0 hci hsub (List.mem_append_left _ hid)) k, e]

/-- a call that leaves the heap alone -/
theorem same_heap {s : Sys} (h : Inv' s) {c' : CacheSt} {E' : List Nat} (hci : CI (s.hx.core, c') E')
    (hd : ∀ id, id ∈ refsT s.hx.core → derefC c' id = derefC s.cache id) :
    Inv' ⟨s.hx, c', E'⟩ ∧ absV ⟨s.hx, c', E'⟩ = absV s := by
  refine ⟨⟨h.heap, hci, h.cells⟩, ?_⟩
  funext k
  exact absX_map_congr h.heap hd k

theorem refsT_simple (HX : HeapX) {op' : HOpX} (hop : op' = .new h ∨ op' = .copy src dst true true ∨ op' = .setFinal h q) :
    refsT (stepX HX op').core = refsT HX.core := by
  rcases hop with e | e | e <;> subst e <;> simp only [stepX, CowHeap3.step]
  · split <;> rfl
  · split
    · first | rfl | (simp only [if_true]; split <;> rfl)
    · rfl
  · split <;> rfl

/-! ### the heap component of a call is the call of `CowHeapX.stepX` -/

theorem assign_eq (s : Sys) (src dst : Nat) :
    withCore s (assignI (s.hx.core, s.cache) src dst)
      (if src ∈ s.hx.core.hl ∧ dst ∈ s.hx.core.hl ∧ src ≠ dst then upd s.hx.fin dst (s.hx.fin src) else s.hx.fin) =
    ⟨stepX s.hx (.assign src dst), (assignI (s.hx.core, s.cache) src dst).2, s.ext⟩ := by
  have := assignI_fst (s.hx.core, s.cache) src dst
  simp only at this
  simp only [withCore, stepX, this]

theorem destroy_eq (s : Sys) (h : Nat) :
    withCore s (destroyI (s.hx.core, s.cache) h) s.hx.fin =
    ⟨stepX s.hx (.destroy h), (destroyI (s.hx.core, s.cache) h).2, s.ext⟩ := by
  have := destroyI_fst (s.hx.core, s.cache) h
  simp only at this
  simp only [withCore, stepX, this]

theorem clear_eq (s : Sys) (h : Nat) :
    withCore s (clearI (s.hx.core, s.cache) h) (if h ∈ s.hx.core.hl then upd s.hx.fin h [] else s.hx.fin) =
    ⟨stepX s.hx (.clear h), (clearI (s.hx.core, s.cache) h).2, s.ext⟩ := by
  have := clearI_fst (s.hx.core, s.cache) h
  simp only at this
  simp only [withCore, stepX, this]

theorem add_eq (s : Sys) {h : Nat} (hh : h ∈ s.hx.core.hl) (c₁ c' : CacheSt) (q f p : Nat) :
    withCore s ((internalAddI .lib (s.hx.core, c₁) h q f p).1, c') s.hx.fin =
    ⟨stepX s.hx (.add h q (f, cell p)), c', s.ext⟩ := by
  have := internalAddI_fst .lib (s.hx.core, c₁) h q f p hh
  simp only at this
  simp only [withCore, stepX, this]

theorem specStepX_add_dead (a : Nat → Option ValX) {h : Nat} (hh : a h = none) (q : Nat) (v : Nat × List Nat) :
    specStepX a (.add h q v) = a := by
  simp only [specStepX, hh]

/-- `internalAddTransition(p, f, q)` on the live automaton `h` with a pointer held in `E`; `c₀ → c₁` was a `lookup` (or
    nothing), `c'` is reached from the cache after the insertion by acquire / release steps -/
theorem add_core {s : Sys} (h : Inv' s) {hd : Nat} (hh : hd ∈ s.hx.core.hl) {c₁ : CacheSt} {E : List Nat} (q f : Nat)
    {p : Nat} (hp : p ∈ E) (hci1 : CI (s.hx.core, c₁) E)
    (hstab : ∀ id, id ∈ refsT s.hx.core → derefC c₁ id = derefC s.cache id)
    {c' : CacheSt} {E' : List Nat}
    (hci' : CI ((internalAddI .lib (s.hx.core, c₁) hd q f p).1, c') E')
    (hsub : Sub c' c₁) :
    Inv' (withCore { s with ext := E' } ((internalAddI .lib (s.hx.core, c₁) hd q f p).1, c') s.hx.fin) ∧
    absV (withCore { s with ext := E' } ((internalAddI .lib (s.hx.core, c₁) hd q f p).1, c') s.hx.fin) =
      specStepX (absV s) (.add hd q (f, derefC c₁ p)) := by
  have e1 := internalAddI_fst .lib (s.hx.core, c₁) hd q f p hh
  simp only at e1
  have e2 : withCore { s with ext := E' } ((internalAddI .lib (s.hx.core, c₁) hd q f p).1, c') s.hx.fin =
      ⟨stepX s.hx (.add hd q (f, cell p)), c', E'⟩ := by
    simp only [withCore, stepX, e1]
  rw [e2]
  have hci'' : CI ((stepX s.hx (.add hd q (f, cell p))).core, c') E' := by
    simp only [stepX]
    rw [← e1]
    exact hci'
  obtain ⟨f1, f2⟩ := frame h.heap h.cells hci1 (op' := .add hd q (f, cell p)) ⟨p, rfl⟩ hci'' hsub
  refine ⟨f1, ?_⟩
  rw [f2, specStepX_map_add c₁ (absX s.hx) hd q f p (fun st hst => h.cells hd st hst)]
  · congr 1
    funext k
    exact absX_map_congr h.heap hstab k
  · intro st hst
    rw [absX_of_mem hh] at hst
    rw [← Option.some.inj hst]
    intro qc hqc ft hft l hl id hid e
    have hid' := mentions_live h.heap hh qc hqc ft hft l hl id hid
    exact CInv.deref_inj hci1 (List.mem_append_left _ hid') (List.mem_append_right _ hp) e

/-! ### one call -/

theorem stepC_lib {s s' : Sys} {op : Op} (h : Inv' s) (hs : stepC .lib s op = some s') :
    Inv' s' ∧ absV s' = specV (absV s) (valOp s op) := by
  have hc : CInv s.cache (refsT s.hx.core ++ s.ext) := h.cache
  cases op with
  | new hd =>
    simp only [stepC, Option.some.injEq] at hs
    subst hs
    have hci : CI ((stepX s.hx (.new hd)).core, s.cache) s.ext := by
      unfold CI
      rw [refsT_simple (h := hd) (src := 0) (dst := 0) (q := 0) s.hx (Or.inl rfl)]
      exact hc
    obtain ⟨f1, f2⟩ := frame h.heap h.cells hc (op' := .new hd) trivial hci (Sub.refl _)
    refine ⟨f1, ?_⟩
    simp only [valOp, specV]
    rw [absV_eq s, ← specStepX_map_simple s.cache (absX s.hx) (op := .new hd) trivial]
    exact f2
  | copy src dst =>
    simp only [stepC, Option.some.injEq] at hs
    subst hs
    have hci : CI ((stepX s.hx (.copy src dst true true)).core, s.cache) s.ext := by
      unfold CI
      rw [refsT_simple (h := 0) (src := src) (dst := dst) (q := 0) s.hx (Or.inr (Or.inl rfl))]
      exact hc
    obtain ⟨f1, f2⟩ := frame h.heap h.cells hc (op' := .copy src dst true true) ⟨rfl, rfl⟩ hci (Sub.refl _)
    refine ⟨f1, ?_⟩
    simp only [valOp, specV]
    rw [absV_eq s, ← specStepX_map_simple s.cache (absX s.hx) (op := .copy src dst true true) ⟨rfl, rfl⟩]
    exact f2
  | setFinal hd q =>
    simp only [stepC, Option.some.injEq] at hs
    subst hs
    have hci : CI ((stepX s.hx (.setFinal hd q)).core, s.cache) s.ext := by
      unfold CI
      rw [refsT_simple (h := hd) (src := 0) (dst := 0) (q := q) s.hx (Or.inr (Or.inr rfl))]
      exact hc
    obtain ⟨f1, f2⟩ := frame h.heap h.cells hc (op' := .setFinal hd q) trivial hci (Sub.refl _)
    refine ⟨f1, ?_⟩
    simp only [valOp, specV]
    rw [absV_eq s, ← specStepX_map_simple s.cache (absX s.hx) (op := .setFinal hd q) trivial]
    exact f2
  | assign src dst =>
    simp only [stepC, Option.some.injEq] at hs
    subst hs
    rw [assign_eq]
    obtain ⟨a1, a2⟩ := assignI_ok (S := (s.hx.core, s.cache)) (E := s.ext) h.heap hc src dst
    have hci : CI ((stepX s.hx (.assign src dst)).core, (assignI (s.hx.core, s.cache) src dst).2) s.ext := by
      have := assignI_fst (s.hx.core, s.cache) src dst
      simp only at this
      simp only [stepX]
      rw [← this]
      exact a1
    obtain ⟨f1, f2⟩ := frame h.heap h.cells hc (op' := .assign src dst) trivial hci a2
    refine ⟨f1, ?_⟩
    simp only [valOp, specV]
    rw [absV_eq s, ← specStepX_map_simple s.cache (absX s.hx) (op := .assign src dst) trivial]
    exact f2
  | destroy hd =>
    simp only [stepC, Option.some.injEq] at hs
    subst hs
    rw [destroy_eq]
    obtain ⟨a1, a2⟩ := destroyI_ok (S := (s.hx.core, s.cache)) (E := s.ext) h.heap hc hd
    have hci : CI ((stepX s.hx (.destroy hd)).core, (destroyI (s.hx.core, s.cache) hd).2) s.ext := by
      have := destroyI_fst (s.hx.core, s.cache) hd
      simp only at this
      simp only [stepX]
      rw [← this]
      exact a1
    obtain ⟨f1, f2⟩ := frame h.heap h.cells hc (op' := .destroy hd) trivial hci a2
    refine ⟨f1, ?_⟩
    simp only [valOp, specV]
    rw [absV_eq s, ← specStepX_map_simple s.cache (absX s.hx) (op := .destroy hd) trivial]
    exact f2
  | clear hd =>
    simp only [stepC, Option.some.injEq] at hs
    subst hs
    rw [clear_eq]
    obtain ⟨a1, a2⟩ := clearI_ok (S := (s.hx.core, s.cache)) (E := s.ext) h.heap hc hd
    have hci : CI ((stepX s.hx (.clear hd)).core, (clearI (s.hx.core, s.cache) hd).2) s.ext := by
      have := clearI_fst (s.hx.core, s.cache) hd
      simp only at this
      simp only [stepX]
      rw [← this]
      exact a1
    obtain ⟨f1, f2⟩ := frame h.heap h.cells hc (op' := .clear hd) trivial hci a2
    refine ⟨f1, ?_⟩
    simp only [valOp, specV]
    rw [absV_eq s, ← specStepX_map_simple s.cache (absX s.hx) (op := .clear hd) trivial]
    exact f2
  | add hd r ch =>
    simp only [stepC] at hs
    by_cases hh : hd ∈ s.hx.core.hl
    · simp only [hh, if_true] at hs
      cases hl : lookupC s.cache r.kids ch with
      | none => simp [hl] at hs
      | some x =>
        obtain ⟨c₁, p⟩ := x
        simp only [hl, Option.some.injEq] at hs
        subst hs
        obtain ⟨h1, ⟨rc1, hp1⟩, k1⟩ := CInv.lookupC hc hl
        have hci1 : CI (s.hx.core, c₁) (p :: s.ext) := by
          apply h1.congr
          intro id
          simp only [List.count_append, List.count_cons]
          omega
        obtain ⟨a1, a2⟩ := internalAddI_ok (S := (s.hx.core, c₁)) (E := p :: s.ext) h.heap hh r.parent r.sym
          List.mem_cons_self hci1
        have a1' : CInv (internalAddI .lib (s.hx.core, c₁) hd r.parent r.sym p).2
            (p :: (refsT (internalAddI .lib (s.hx.core, c₁) hd r.parent r.sym p).1 ++ s.ext)) := by
          apply CInv.congr a1
          intro id
          simp only [List.count_append, List.count_cons]
          omega
        have a3 := (CInv.releaseC a1').1
        have hstab : ∀ id, id ∈ refsT s.hx.core → derefC c₁ id = derefC s.cache id := fun id hid =>
          StoreI.deref_stable hc h1 (List.mem_append_left _ hid) (fun v' id' rc' _ hm => k1 v' id' rc' hm)
        have := add_core h hh (c₁ := c₁) (E := p :: s.ext) r.parent r.sym List.mem_cons_self hci1 hstab
          (c' := releaseC .lib (internalAddI .lib (s.hx.core, c₁) hd r.parent r.sym p).2 p) (E' := s.ext) a3
          ((releaseC_sub _ _).trans a2)
        rw [CInv.derefC_eq h1 hp1] at this
        exact this
    · simp only [hh, if_false, Option.some.injEq] at hs
      subst hs
      refine ⟨h, ?_⟩
      simp only [valOp, specV]
      rw [specStepX_add_dead]
      show (absX s.hx hd).map _ = none
      rw [absX_of_not_mem hh]; rfl
  | addPtr hd q f p =>
    simp only [stepC] at hs
    by_cases hcnd : hd ∈ s.hx.core.hl ∧ p ∈ s.ext
    · simp only [hcnd, and_self, if_true, Option.some.injEq] at hs
      subst hs
      obtain ⟨a1, a2⟩ := internalAddI_ok (S := (s.hx.core, s.cache)) (E := s.ext) h.heap hcnd.1 q f hcnd.2 hc
      have := add_core h hcnd.1 (c₁ := s.cache) (E := s.ext) q f hcnd.2 hc (fun _ _ => rfl)
        (c' := (internalAddI .lib (s.hx.core, s.cache) hd q f p).2) (E' := s.ext) a1 a2
      simp only [valOp, hcnd.2, if_true, specV]
      exact this
    · simp only [hcnd, if_false, Option.some.injEq] at hs
      subst hs
      refine ⟨h, ?_⟩
      simp only [valOp]
      by_cases hp : p ∈ s.ext
      · have hh : hd ∉ s.hx.core.hl := fun x => hcnd ⟨x, hp⟩
        simp only [hp, if_true, specV]
        rw [specStepX_add_dead]
        show (absX s.hx hd).map _ = none
        rw [absX_of_not_mem hh]; rfl
      · simp only [hp, if_false, specV]
  | envLookup t ch =>
    simp only [stepC] at hs
    cases hl : lookupC s.cache t ch with
    | none => simp [hl] at hs
    | some x =>
      obtain ⟨c₁, p⟩ := x
      simp only [hl, Option.some.injEq] at hs
      subst hs
      obtain ⟨h1, _, k1⟩ := CInv.lookupC hc hl
      have hci1 : CI (s.hx.core, c₁) (p :: s.ext) := by
        apply h1.congr
        intro id
        simp only [List.count_append, List.count_cons]
        omega
      exact same_heap h hci1 (fun id hid =>
        StoreI.deref_stable hc h1 (List.mem_append_left _ hid) (fun v' id' rc' _ hm => k1 v' id' rc' hm))
  | envCopy p =>
    simp only [stepC] at hs
    by_cases hp : p ∈ refsT s.hx.core ++ s.ext
    · simp only [hp, if_true, Option.some.injEq] at hs
      subst hs
      have h1 := (CInv.acquireC hc hp).1
      have hci1 : CI (s.hx.core, acquireC s.cache p) (p :: s.ext) := by
        apply h1.congr
        intro id
        simp only [List.count_append, List.count_cons]
        omega
      exact same_heap h hci1 (fun id hid =>
        deref_of_sub hc hci1 (acquireC_sub _ _) (List.mem_append_left _ hid))
    · simp only [hp, if_false, Option.some.injEq] at hs
      subst hs
      exact ⟨h, rfl⟩
  | envRelease p =>
    simp only [stepC] at hs
    by_cases hp : p ∈ s.ext
    · simp only [hp, if_true, Option.some.injEq] at hs
      subst hs
      have h0 : CInv s.cache (p :: (refsT s.hx.core ++ s.ext.erase p)) := by
        apply CInv.congr hc
        intro id
        simp only [List.count_append, List.count_cons, List.count_erase]
        by_cases e : p = id
        · subst e
          have : 0 < List.count p s.ext := List.count_pos_iff.2 hp
          simp
          omega
        · have : (p == id) = false := by simpa using e
          simp [this]
      have h3 := (CInv.releaseC h0).1
      exact same_heap h (E' := s.ext.erase p) h3 (fun id hid =>
        deref_of_sub hc h3 (releaseC_sub _ _) (List.mem_append_left _ hid))
    · simp only [hp, if_false, Option.some.injEq] at hs
      subst hs
      exact ⟨h, rfl⟩

/-! ### histories -/

theorem runFrom_lib {s s' : Sys} {ops : List Op} (h : Inv' s) (hs : runFrom .lib s ops = some s') :
    Inv' s' ∧ absV s' = (valOps s ops).foldl specStepX (absV s) := by
  induction ops generalizing s with
  | nil =>
    simp only [runFrom, Option.some.injEq] at hs
    subst hs
    exact ⟨h, rfl⟩
  | cons op ops ih =>
    simp only [runFrom] at hs
    cases h1 : stepC .lib s op with
    | none => simp [h1] at hs
    | some s₁ =>
      simp only [h1] at hs
      obtain ⟨hi, ha⟩ := stepC_lib h h1
      obtain ⟨hi', ha'⟩ := ih hi hs
      refine ⟨hi', ?_⟩
      rw [ha', ha]
      simp only [valOps, h1, List.foldl_append]
      cases valOp s op <;> rfl

theorem valOp_noPtr (s : Sys) {op : Op} (h : noPtr op = true) : valOp s op = valOp0 op := by
  cases op <;> first | rfl | cases h

/-- without `addPtr` the value-level history does not depend on the run -/
theorem valOps_noPtr {s s' : Sys} {ops : List Op} (hnp : ∀ op, op ∈ ops → noPtr op = true)
    (hs : runFrom .lib s ops = some s') : valOps s ops = ops.filterMap valOp0 := by
  induction ops generalizing s with
  | nil => rfl
  | cons op ops ih =>
    simp only [runFrom] at hs
    cases h1 : stepC .lib s op with
    | none => simp [h1] at hs
    | some s₁ =>
      simp only [h1] at hs
      simp only [valOps, h1, valOp_noPtr s (hnp op List.mem_cons_self),
        ih (fun o ho => hnp o (List.mem_cons_of_mem _ ho)) hs]
      cases hv : valOp0 op <;> simp [hv]

/-- the address a call offers for a new cache node -/
def opChoice : Op → Option Nat
  | .add _ _ ch => some ch
  | .envLookup _ ch => some ch
  | _ => none

theorem stepC_isSome (md : Mode) (s : Sys) (op : Op) (h : ∀ ch, opChoice op = some ch → ch ∉ StoreI.liveIds s.cache) :
    (stepC md s op).isSome = true := by
  cases op with
  | add hd r ch =>
    have := StoreI.lookupC_isSome (t := r.kids) (h ch rfl)
    simp only [stepC]
    split
    · cases hl : lookupC s.cache r.kids ch with
      | none => simp [hl] at this
      | some x => simp
    · rfl
  | envLookup t ch =>
    have := StoreI.lookupC_isSome (t := t) (h ch rfl)
    simp only [stepC]
    cases hl : lookupC s.cache t ch with
    | none => simp [hl] at this
    | some x => simp
  | addPtr hd q f p => simp only [stepC]; split <;> rfl
  | envCopy p => simp only [stepC]; split <;> rfl
  | envRelease p => simp only [stepC]; split <;> rfl
  | new _ => rfl
  | copy _ _ => rfl
  | assign _ _ => rfl
  | destroy _ => rfl
  | clear _ => rfl
  | setFinal _ _ => rfl

theorem opChoice_setChoice {ch ch' : Nat} {op : Op} (h : opChoice (setChoice ch op) = some ch') : ch' = ch := by
  cases op <;> simp [setChoice, opChoice] at h <;> exact h.symm

/-- the history actually played against the allocator -/
def playedOps (alloc : List Nat → Nat) : Sys → List Op → List Op
  | _, [] => []
  | s, op :: ops =>
    setChoice (alloc (StoreI.liveIds s.cache)) op ::
      (match stepC .lib s (setChoice (alloc (StoreI.liveIds s.cache)) op) with
       | none => []
       | some s' => playedOps alloc s' ops)

/-- against a fair allocator (never the address of a live tuple) every history runs to the end -/
theorem runA_lib {alloc : List Nat → Nat} (hf : ∀ l, alloc l ∉ l) {s : Sys} (h : Inv' s) (ops : List Op) :
    ∃ s', runA .lib alloc s ops = some s' ∧ Inv' s' ∧
      absV s' = (valOps s (playedOps alloc s ops)).foldl specStepX (absV s) := by
  induction ops generalizing s with
  | nil => exact ⟨s, rfl, h, rfl⟩
  | cons op ops ih =>
    have hsome := stepC_isSome .lib s (setChoice (alloc (StoreI.liveIds s.cache)) op) (by
      intro ch hch
      rw [opChoice_setChoice hch]
      exact hf _)
    cases h1 : stepC .lib s (setChoice (alloc (StoreI.liveIds s.cache)) op) with
    | none => simp [h1] at hsome
    | some s₁ =>
      obtain ⟨hi, ha⟩ := stepC_lib h h1
      obtain ⟨s', hr, hi', ha'⟩ := ih hi
      refine ⟨s', ?_, hi', ?_⟩
      · simp only [runA, h1]
        exact hr
      · rw [ha', ha]
        simp only [playedOps, valOps, h1, List.foldl_append]
        cases valOp s (setChoice (alloc (StoreI.liveIds s.cache)) op) <;> rfl

/-! ### liveness of cache entries -/

/-- the use count of an entry is the number of cells (shared sets once) plus the outside holders, and it is positive -/
theorem use_count {s : Sys} (h : Inv' s) {v : List Nat} {id rc : Nat} (hm : (v, id, rc) ∈ s.cache) :
    rc = (refsT s.hx.core).count id + s.ext.count id ∧ 0 < rc := by
  have := h.cache.cnt v id rc hm
  simpa [List.count_append] using this

/-- no entry dies while a live tuple-set node (or an outside holder) holds it -/
theorem held_is_live {s : Sys} (h : Inv' s) {id : Nat} (hid : id ∈ refsT s.hx.core ++ s.ext) :
    ∃ v rc, (v, id, rc) ∈ s.cache ∧ derefC s.cache id = v := by
  obtain ⟨v, rc, hm⟩ := h.cache.live id hid
  exact ⟨v, rc, hm, h.cache.derefC_eq hm⟩

/-- all entries die when all automata die (and nobody outside holds a pointer): the `assert(this->empty())` of `~Cache()` -/
theorem no_leak {s : Sys} (h : Inv' s) (hl : s.hx.core.hl = []) (he : s.ext = []) : s.cache = [] := by
  have hg := CowHeapX.no_garbageX h.heap hl
  have hc : CInv s.cache (refsT s.hx.core ++ s.ext) := h.cache
  have hr : refsT s.hx.core = [] := by unfold refsT; rw [hg.2.2]; rfl
  rw [hr, he] at hc
  cases hcache : s.cache with
  | nil => rfl
  | cons e l =>
    obtain ⟨v, id, rc⟩ := e
    have := hc.cnt v id rc (by rw [hcache]; exact List.mem_cons_self ..)
    simp at this
    omega

/-! ### the invariant as a test -/

theorem inv_of_invB {s : Sys} (h : invB s = true) (hcells : CellsV (absX s.hx)) : Inv' s := by
  unfold invB at h
  simp only [Bool.and_eq_true] at h
  exact ⟨(CowHeapX.invBX_iff s.hx).1 h.1, StoreI.invB_of_inv_aux h.2, hcells⟩

end Vata.CowI
