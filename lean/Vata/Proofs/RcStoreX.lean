import Vata.RcStoreX
import Vata.Proofs.RcStore
/-!
# The extended history model `Vata/RcStoreX.lean`: invariants (C18)

`Project` leaves nodes with counter 0 in the unique tables, so the invariant between the operations of an arbitrary
history is `WInv s []` (counters = number of referrers, tables = allocated nodes, nothing failed) WITHOUT "no allocated
node has counter 0" (`NZ`).  `NZ` is preserved by every operation except `project`.

* `release_winv`, `destroy_winv`, … : the five old operations preserve `WInv` alone
* `joinNode_inv`, `recDescend1_inv`, `recDescend3_inv`, `projectNode_inv`, `renameNode_inv`, `buildCubeT_eq`, `prefixWalk_mem`
* `stepS_winv` : every operation: `WInv`, `Frame`, and `NZ` unless it is a `project`
* histories: `runX_winv`, `runX_nz`, `xdenotation_stable`
-/
namespace Vata.RcSX
open Vata.R (Data decrRc contrib indegL cnt J Closed)
open Vata.RcS

/-! ## release without the no-garbage hypothesis -/

/-- `release_inv` without `NZ`: garbage (counter-0 nodes nobody refers to) does not disturb `recursivelyDeleteMTBDDNode` -/
theorem release_winv : ∀ (fuel : Nat) (s : Store) (n : Nat) (P : List Nat), WInv s (n :: P) → s.ids.length < fuel →
    WInv (release fuel s n) P ∧ (release fuel s n).dat = s.dat ∧
    (release fuel s n).hs = s.hs ∧ (release fuel s n).next = s.next ∧
    (release fuel s n).ids.length ≤ s.ids.length ∧ (∀ x, x ∈ (release fuel s n).ids → x ∈ s.ids)
  | 0, s, n, P, _, hf => by omega
  | fuel+1, s, n, P, h, hf => by
    obtain ⟨h0, hrcn, hrcx⟩ := decRef_inv h
    have hn : n ∈ s.ids := h.pin n List.mem_cons_self
    have hlen : (s.ids.erase n).length + 1 = s.ids.length := by
      rw [List.length_erase_of_mem hn]
      have : 0 < s.ids.length := List.length_pos_of_mem hn
      omega
    simp only [release]
    split
    · rename_i hz0
      split
      · rename_i v hd
        refine ⟨disposeLeaf_inv h0 hn hz0 hd, rfl, rfl, rfl, ?_, ?_⟩
        · show (s.ids.erase n).length ≤ _
          omega
        · intro x hx; exact List.mem_of_mem_erase hx
      · rename_i lo hi var hd
        have h1 := unlinkInt_inv h0 hn hz0 hd
        have hl1 : (unlinkInt (decRef s n) n (lo, hi, var)).ids.length < fuel := by
          show (s.ids.erase n).length < fuel
          omega
        obtain ⟨h2, hd2, hh2, hn2, hl2, hs2⟩ := release_winv fuel _ lo (hi :: P) h1 hl1
        obtain ⟨h3, hd3, hh3, hn3, hl3, hs3⟩ := release_winv fuel _ hi P h2 (by omega)
        refine ⟨h3, hd3.trans hd2, hh3.trans hh2, hn3.trans hn2, ?_, ?_⟩
        · have : (unlinkInt (decRef s n) n (lo, hi, var)).ids.length ≤ s.ids.length := by
            show (s.ids.erase n).length ≤ _
            omega
          omega
        · intro x hx
          exact List.mem_of_mem_erase (hs2 x (hs3 x hx))
    · exact ⟨h0, rfl, rfl, rfl, Nat.le_refl _, fun x hx => hx⟩

/-! ## the old operations preserve `WInv` alone -/

theorem nz_of_zsub_nil {s : Store} (h : ZSub s []) : NZ s := zsub_nil_iff.mp h

/-- wrapping a freshly computed root `r` (store `s'`, reached from `s` by allocations) into the new handle `dst` -/
theorem addHandle_built {s s' : Store} {dst r : Nat} (w : WInv s' []) (e : Ext s s') (m : r ∈ s'.ids)
    (hf : find dst s.hs = none) :
    WInv (addHandle s' dst r) [] ∧ Frame dst s (addHandle s' dst r) ∧ (ZSub s' [r] → NZ (addHandle s' dst r)) := by
  obtain ⟨h1, h2⟩ := addHandle_inv (h := dst) w m (by rw [e.hs]; exact hf)
  exact ⟨h1, (e.frame dst).trans (frame_addHandle _ _ _), h2⟩

theorem copy_winv {s : Store} {src dst : Nat} (h : WInv s []) :
    WInv (copy s src dst) [] ∧ Frame dst s (copy s src dst) := by
  unfold copy
  split
  · rename_i r hf1 hf2
    have hr : r ∈ s.ids := h.rin r (root_mem hf1)
    exact ⟨(addHandle_inv h hr hf2).1, frame_addHandle _ _ _⟩
  · exact ⟨h, Frame.refl _ _⟩

theorem destroy_winv {s : Store} {h : Nat} (hi : WInv s []) :
    WInv (destroy s h) [] ∧ Frame h s (destroy s h) ∧ (∀ r, (h, r) ∉ (destroy s h).hs) ∧
    (∀ x, x ∈ (destroy s h).ids → x ∈ s.ids) ∧ (destroy s h).dat = s.dat := by
  unfold destroy
  split
  · rename_i hf
    exact ⟨hi, Frame.refl _ _, find_none_not_mem hf, fun _ hx => hx, rfl⟩
  · rename_i r hf
    have hm := find_some_mem hf
    have h1 := hsErase_inv hi hm
    obtain ⟨h2, hd, hh, hn, _, hsub⟩ := release_winv (s.ids.length + 1) _ r [] h1 (Nat.lt_succ_self _)
    refine ⟨h2, ⟨Nat.le_of_eq hn.symm, fun x _ => by rw [hd], ?_, ?_⟩, ?_, hsub, hd⟩
    · intro h' r' hm' ht
      rw [hh]
      exact (List.mem_erase_of_ne (fun e => ht (by cases e; rfl))).mpr hm'
    · intro h' r' hm' _
      rw [hh] at hm'
      exact List.mem_of_mem_erase hm'
    · intro r' hm'
      rw [hh] at hm'
      have hm'' : (h, r') ∈ s.hs.erase (h, r) := hm'
      have e := keys_inj hi.hsK (List.mem_of_mem_erase hm'') hm
      subst e
      exact ((List.Nodup.mem_erase_iff (nodup_of_keysNodup hi.hsK)).mp hm'').1 rfl

theorem assign_winv {s : Store} {src dst : Nat} (hi : WInv s []) :
    WInv (assign s src dst) [] ∧ Frame dst s (assign s src dst) := by
  unfold assign
  split
  · exact ⟨hi, Frame.refl _ _⟩
  · split
    · obtain ⟨h1, f1, _⟩ := destroy_winv (h := dst) hi
      obtain ⟨h2, f2⟩ := copy_winv (src := src) (dst := dst) h1
      exact ⟨h2, f1.trans f2⟩
    · exact ⟨hi, Frame.refl _ _⟩

theorem apply2_winv (f : Nat → Nat → Nat) {s : Store} {a b dst : Nat} (hi : WInv s []) :
    WInv (apply2 f s a b dst) [] ∧ Frame dst s (apply2 f s a b dst) := by
  unfold apply2
  split
  · rename_i ra rb hfa hfb hfd
    have hra : ra ∈ s.ids := hi.rin ra (root_mem hfa)
    have hrb : rb ∈ s.ids := hi.rin rb (root_mem hfb)
    obtain ⟨w, e, m, _⟩ := recDescend_inv f (ra + rb + 1) s ra rb hi hra hrb (Nat.lt_succ_self _)
    obtain ⟨h1, h2, _⟩ := addHandle_built w e m hfd
    exact ⟨h1, h2⟩
  · exact ⟨hi, Frame.refl _ _⟩

/-! ## `cubeFinish`, `buildCubeT` -/

theorem frame_of_eq (t : Nat) {s s' : Store} (hh : s'.hs = s.hs) (hd : s'.dat = s.dat) (hn : s'.next = s.next) :
    Frame t s s' :=
  ⟨Nat.le_of_eq hn.symm, fun x _ => by rw [hd], fun _ _ hm _ => hh ▸ hm, fun _ _ hm _ => hh ▸ hm⟩

theorem cubeFinish_winv {t : Store} {r node sink d : Nat} (w : WInv t []) (hs : sink ∈ t.ids) (ds : t.dat sink = .leaf d)
    (m : r ∈ t.ids) (hrs : r ≠ sink) :
    WInv (cubeFinish (t, r) node sink d) [] ∧ r ∈ (cubeFinish (t, r) node sink d).ids ∧
    (cubeFinish (t, r) node sink d).hs = t.hs ∧ (cubeFinish (t, r) node sink d).dat = t.dat ∧
    (cubeFinish (t, r) node sink d).next = t.next ∧ (∀ x, x ∈ (cubeFinish (t, r) node sink d).ids → x ∈ t.ids) := by
  unfold cubeFinish
  dsimp only
  split
  · split
    · rename_i hz
      refine ⟨disposeLeaf_inv w hs hz ds, ?_, rfl, rfl, rfl, fun x hx => List.mem_of_mem_erase hx⟩
      exact (mem_erase_iff' w.nd).mpr ⟨hrs, m⟩
    · exact ⟨w, m, rfl, rfl, rfl, fun _ hx => hx⟩
  · exact ⟨w, m, rfl, rfl, rfl, fun _ hx => hx⟩

/-- with the translation `var ↦ var + offset` the loop is the loop of the 3-argument constructor started at `offset` -/
theorem buildCubeT_eq (off sink : Nat) : ∀ (as : List (Option Bool)) (s : Store) (proc i : Nat),
    buildCubeT (fun x => x + off) sink s proc i as = buildCube sink s proc (i + off) as
  | [], _, _, _ => rfl
  | none :: as, s, proc, i => by
    simp only [buildCubeT, buildCube]
    rw [buildCubeT_eq off sink as s proc (i+1), Nat.add_right_comm]
  | some true :: as, s, proc, i => by
    simp only [buildCubeT, buildCube]
    rw [buildCubeT_eq off sink as _ _ (i+1), Nat.add_right_comm]
  | some false :: as, s, proc, i => by
    simp only [buildCubeT, buildCube]
    rw [buildCubeT_eq off sink as _ _ (i+1), Nat.add_right_comm]

/-- the node built by the loop is the start node or a NEW-er node (larger id) -/
theorem buildCube_ge (sink : Nat) : ∀ (as : List (Option Bool)) (s : Store) (proc i : Nat), WInv s [] → sink ∈ s.ids →
    proc ∈ s.ids → buildCube sink s proc i as = (s, proc) ∨ proc < (buildCube sink s proc i as).2
  | [], _, _, _, _, _, _ => Or.inl rfl
  | none :: as, s, proc, i, h, hs, hp => by
    simp only [buildCube]
    exact buildCube_ge sink as s proc (i+1) h hs hp
  | some true :: as, s, proc, i, h, hs, hp => by
    simp only [buildCube]
    obtain ⟨w1, e1, m1, d1, _⟩ := spawnInternal_inv (var := i) h hs hp
    have o := (w1.ordered _ m1 _ _ _ d1).2
    rcases buildCube_ge sink as _ _ (i+1) w1 (e1.ids _ hs) m1 with heq | hlt
    · rw [heq]; exact Or.inr o
    · exact Or.inr (Nat.lt_trans o hlt)
  | some false :: as, s, proc, i, h, hs, hp => by
    simp only [buildCube]
    obtain ⟨w1, e1, m1, d1, _⟩ := spawnInternal_inv (var := i) h hp hs
    have o := (w1.ordered _ m1 _ _ _ d1).1
    rcases buildCube_ge sink as _ _ (i+1) w1 (e1.ids _ hs) m1 with heq | hlt
    · rw [heq]; exact Or.inr o
    · exact Or.inr (Nat.lt_trans o hlt)

theorem construct_winv {s : Store} {h v d : Nat} {asgn : List (Option Bool)} (hi : WInv s []) :
    WInv (construct s h asgn v d) [] ∧ Frame h s (construct s h asgn v d) := by
  simp only [construct]
  split
  · exact ⟨hi, Frame.refl _ _⟩
  · rename_i hf
    obtain ⟨w1, e1, m1, d1, _⟩ := spawnLeaf_inv (v := v) hi
    split
    · obtain ⟨a, b, _⟩ := addHandle_built w1 e1 m1 hf
      exact ⟨a, b⟩
    · rename_i hvd
      obtain ⟨w2, e2, m2, d2, _⟩ := spawnLeaf_inv (v := d) w1
      have hn := e2.ids _ m1
      have dn : (spawnLeaf (spawnLeaf s v).1 d).1.dat (spawnLeaf s v).2 = .leaf v := by
        rw [e2.dat _ (w1.fresh _ m1)]; exact d1
      obtain ⟨w3, e3, m3, _⟩ := buildCube_inv (spawnLeaf (spawnLeaf s v).1 d).2 asgn _ _ 0 w2 m2 hn
      have ds3 := (e3.dat _ (w2.fresh _ m2)).trans d2
      have hrs : (buildCube (spawnLeaf (spawnLeaf s v).1 d).2 (spawnLeaf (spawnLeaf s v).1 d).1 (spawnLeaf s v).2 0 asgn).2
          ≠ (spawnLeaf (spawnLeaf s v).1 d).2 := by
        intro e
        rcases buildCube_ge _ asgn _ _ 0 w2 m2 hn with heq | hlt
        · rw [heq] at e; dsimp only at e; rw [e, d2] at dn; cases dn; exact hvd rfl
        · obtain ⟨_, _, _, dj⟩ := buildCube_inv (spawnLeaf (spawnLeaf s v).1 d).2 asgn _ _ 0 w2 m2 hn
          rcases dj with heq | ⟨⟨lo, hi', var, hint⟩, _⟩
          · rw [heq] at hlt; exact Nat.lt_irrefl _ hlt
          · rw [e, ds3] at hint; cases hint
      obtain ⟨w4, m4, hh4, hd4, hn4, _⟩ := cubeFinish_winv (node := (spawnLeaf s v).2) (d := d) w3 (e3.ids _ m2) ds3 m3 hrs
      exact ⟨(addHandle_inv (h := h) w4 m4 (by rw [hh4, e3.hs, e2.hs, e1.hs]; exact hf)).1,
        ((((e1.trans e2).trans e3).frame h).trans (frame_of_eq h hh4 hd4 hn4)).trans (frame_addHandle _ _ _)⟩

end Vata.RcSX
