import Vata.Proofs.LtsEngineCallsRun
/-!
# The instrumented LTS engine: the `SmartSet` discipline for the whole run

`init_good` (`init`: `makeBlock`s, initial refinement, pruning, the scratch set `s` with `assignFlat` / `remove`),
`processRemove_good` (one iteration of `run()`), `stateAfter_good` (after `init` and after every iteration).
The calls of `ExplicitLTS::buildDelta1` are a hypothesis here (`DeltaOK`: decidable, `decide`d for the examples in
`Vata/Properties/C16_Discipline.lean`, not proved for all systems).
-/
namespace Vata.LEC
open Vata.L Vata.LE Vata.LU

/-- `buildDelta1` is inside the discipline and builds the sets `delta1[a]` -/
def DeltaOK (L : LTS) : Prop := SS.okAll [] (delta1T L) = true ∧ SS.aRun [] (delta1T L) = aDelta L

theorem aDelta_length (L : LTS) : (aDelta L).length = labels L + 1 + 0 := by simp [aDelta]

theorem aDelta_get (L : LTS) {a : Nat} (ha : a < labels L) : (aDelta L)[a + 1]? = some ⟨dItems L a, L.n, false⟩ := by
  simp [aDelta, ha]

/-! ### `makeBlock` for all blocks -/

theorem initBlocks_good {L : LTS} (hd : DeltaOK L) (part : List (List Nat)) (rel : Rel) :
    Good L [] (objI L) (initBlocksI L (objI L) part rel ⟨delta1T L, []⟩).1 (initBlocksI L (objI L) part rel ⟨delta1T L, []⟩).2 := by
  obtain ⟨b1, b2, b3, b4⟩ := blocks_good L part 0 (aDelta L) (aDelta_length L)
  have hss : (initBlocksI L (objI L) part rel ⟨delta1T L, []⟩).2.ss = delta1T L ++ blocksT L (objI L) 0 part := rfl
  refine ⟨?_, ?_⟩
  · rw [hss, okAll_append, hd.1, hd.2, b1]; rfl
  · rw [hss, aRun_append, hd.2]
    have hlen : (initBlocksI L (objI L) part rel ⟨delta1T L, []⟩).1.part.length = part.length := by
      simp [initBlocksI, initBlocks]
    refine ⟨?_, fun k _ => rfl, ?_, ?_⟩
    · rw [b2, hlen]; unfold objI; omega
    · intro i hi
      rw [hlen] at hi
      refine ⟨false, ?_⟩
      have := b4 i hi
      have e1 : labels L + 1 + 0 + i = objI L i := by unfold objI; omega
      rw [e1] at this
      rw [this]
      have : (initBlocksI L (objI L) part rel ⟨delta1T L, []⟩).1.inset.getD i [] = mkInset L (mkBlockList (part.getD i [])) := by
        simp [initBlocksI, initBlocks, List.getD_eq_getElem?_getD, hi]
      rw [this]
    · intro a ha
      rw [b3 (a + 1) (by rw [aDelta_length]; omega)]
      exact aDelta_get L ha

/-! ### the scratch set `s` -/

theorem removes_ok (so R : Nat) : ∀ (qs : List Nat) (aw : SS.AWorld) (items : List (Nat × Nat)) (dg : Bool),
    aw[so]? = some ⟨items, R, dg⟩ → (∀ q, q ∈ qs → q < R) →
    SS.okAll aw (qs.map (SS.Op.remove so)) = true ∧
      ∃ items' dg', SS.aRun aw (qs.map (SS.Op.remove so)) = aw.set so ⟨items', R, dg'⟩
  | [], aw, items, dg, h, _ => ⟨rfl, items, dg, (set_of_get h).symm⟩
  | q :: qs, aw, items, dg, h, hR => by
    have hok : SS.ok aw (SS.Op.remove so q) = true := by simp [SS.ok, h, hR q List.mem_cons_self]
    have hst : SS.aStep aw (SS.Op.remove so q) = aw.set so ⟨SS.aRemove items q, R, dg || SS.erasesLast items q⟩ := by
      simp only [SS.aStep, h]
    obtain ⟨h1, items', dg', h2⟩ := removes_ok so R qs (aw.set so ⟨SS.aRemove items q, R, dg || SS.erasesLast items q⟩) _ _
      (List.getElem?_set_self (lt_of_get h)) (fun x hx => hR x (List.mem_cons_of_mem _ hx))
    refine ⟨?_, items', dg', ?_⟩
    · simp only [List.map_cons, SS.okAll, hok, hst, h1, Bool.and_self]
    · simp only [List.map_cons, SS.aRun, hst, h2, List.set_set]

theorem slot_ok {L : LTS} (hL : LtsOK L) {aw : SS.AWorld} {so a : Nat} (hso : so < aw.length) (hne : so ≠ a + 1)
    (hd : aw[a + 1]? = some ⟨dItems L a, L.n, false⟩) (e : Eng) (b1 : Nat) :
    SS.okAll aw (slotT L so e b1 a) = true ∧ ∃ x, SS.aRun aw (slotT L so e b1 a) = aw.set so x := by
  obtain ⟨s0, hs0⟩ : ∃ s0, aw[so]? = some s0 := ⟨aw[so], List.getElem?_eq_getElem hso⟩
  have hok : SS.ok aw (SS.Op.assignFlat so (a + 1)) = true := by
    simp [SS.ok, hne, hso, lt_of_get hd]
  have hst : SS.aStep aw (SS.Op.assignFlat so (a + 1)) = aw.set so ⟨(dItems L a).map (fun kc => (kc.1, 1)), L.n, false⟩ := by
    simp only [SS.aStep, hs0, hd]
  obtain ⟨h1, items', dg', h2⟩ := removes_ok so L.n
    ((e.row b1).flatMap (fun col => (e.block col).flatMap (fun elem => pre L a elem)))
    (aw.set so ⟨(dItems L a).map (fun kc => (kc.1, 1)), L.n, false⟩) _ _ (List.getElem?_set_self hso)
    (fun q hq => by
      obtain ⟨col, _, hq⟩ := List.mem_flatMap.1 hq
      obtain ⟨elem, _, hq⟩ := List.mem_flatMap.1 hq
      exact (hL _ ((mem_pre L a elem q).1 hq)).1)
  refine ⟨?_, ⟨items', L.n, dg'⟩, ?_⟩
  · simp only [slotT, SS.okAll, hok, hst, h1, Bool.and_self]
  · simp only [slotT, SS.aRun, hst, h2, List.set_set]

theorem SSInv.set_other {L : LTS} {obj : Nat → Nat} {e : Eng} {aw : SS.AWorld} (h : SSInv L obj e aw) {so : Nat}
    (h1 : ∀ i, obj i ≠ so) (h2 : labels L < so) (x : SS.A) : SSInv L obj e (aw.set so x) :=
  ⟨by rw [List.length_set]; exact h.hlen, h.hsucc,
    fun i hi => by obtain ⟨dg, hg⟩ := h.hobj i hi; exact ⟨dg, by rw [List.getElem?_set_ne (Ne.symm (h1 i))]; exact hg⟩,
    fun a ha => by rw [List.getElem?_set_ne (by omega)]; exact h.hdelta a ha⟩

theorem objR_ne_sObj (L : LTS) (n i : Nat) : objR L n i ≠ sObj L n := by
  unfold objR sObj; split <;> omega

/-- state of the loops of "initialize counters" -/
structure CInv (L : LTS) (n : Nat) (e : Eng) (t : Tr) : Prop where
  good : Good L [] (objR L n) e t
  wf : WF L e
  hso : sObj L n < (SS.aRun [] t.ss).length

theorem slot_step {L : LTS} (hL : LtsOK L) {n : Nat} {e : Eng} {t : Tr} (c : CInv L n e t) {b1 a : Nat}
    (hb : b1 < e.part.length) (ha : a ∈ e.ins b1) :
    CInv L n (initSlot L b1 e a) (t.addSS (slotT L (sObj L n) e b1 a)) := by
  obtain ⟨f1, f2, f3⟩ := initSlot_frame L b1 e a
  have hal : a < labels L := by
    obtain ⟨q, _, hq⟩ := (c.wf.mem_ins hb a).1 ha
    obtain ⟨p, hp⟩ := (hasIn_iff L a q).1 hq
    exact label_lt L hp
  obtain ⟨k1, x, k2⟩ := slot_ok hL c.hso (by unfold sObj; omega) (c.good.2.hdelta a hal) e b1
  have hinv : SSInv L (objR L n) (initSlot L b1 e a) ((SS.aRun [] t.ss).set (sObj L n) x) :=
    (c.good.2.set_other (objR_ne_sObj L n) (by unfold sObj; omega) x).congr (by rw [f1]) f3
  refine ⟨c.good.add ⟨k1, by rw [k2]; exact hinv⟩, WF.congr f1 f2 f3 c.wf, ?_⟩
  show sObj L n < (SS.aRun [] (t.ss ++ _)).length
  rw [aRun_append, k2, List.length_set]; exact c.hso

theorem slots_inner {L : LTS} (hL : LtsOK L) {n b1 : Nat} : ∀ (as : List Nat) (et : IE), CInv L n et.1 et.2 →
    b1 < et.1.part.length → (∀ a, a ∈ as → a ∈ et.1.ins b1) →
    CInv L n (as.foldl (fun (et : IE) a => (initSlot L b1 et.1 a, et.2.addSS (slotT L (sObj L n) et.1 b1 a))) et).1
      (as.foldl (fun (et : IE) a => (initSlot L b1 et.1 a, et.2.addSS (slotT L (sObj L n) et.1 b1 a))) et).2 ∧
    (as.foldl (fun (et : IE) a => (initSlot L b1 et.1 a, et.2.addSS (slotT L (sObj L n) et.1 b1 a))) et).1.part = et.1.part
  | [], _, c, _, _ => ⟨c, rfl⟩
  | a :: as, et, c, hb, has => by
    obtain ⟨f1, _, f3⟩ := initSlot_frame L b1 et.1 a
    have c1 := slot_step hL c hb (has a List.mem_cons_self)
    obtain ⟨r1, r2⟩ := slots_inner hL as (initSlot L b1 et.1 a, et.2.addSS (slotT L (sObj L n) et.1 b1 a)) c1
      (by show b1 < (initSlot L b1 et.1 a).part.length; rw [f1]; exact hb)
      (fun x hx => by
        show x ∈ (initSlot L b1 et.1 a).ins b1
        unfold Eng.ins; rw [f3]; exact has x (List.mem_cons_of_mem _ hx))
    exact ⟨r1, r2.trans f1⟩

theorem slots_outer {L : LTS} (hL : LtsOK L) {n : Nat} : ∀ (bs : List Nat) (et : IE), CInv L n et.1 et.2 →
    (∀ b, b ∈ bs → b < et.1.part.length) →
    CInv L n (bs.foldl (fun (et : IE) b1 =>
        (et.1.ins b1).foldl (fun (et : IE) a => (initSlot L b1 et.1 a, et.2.addSS (slotT L (sObj L n) et.1 b1 a))) et) et).1
      (bs.foldl (fun (et : IE) b1 =>
        (et.1.ins b1).foldl (fun (et : IE) a => (initSlot L b1 et.1 a, et.2.addSS (slotT L (sObj L n) et.1 b1 a))) et) et).2
  | [], _, c, _ => c
  | b :: bs, et, c, hb => by
    obtain ⟨r1, r2⟩ := slots_inner hL (et.1.ins b) et c (hb b List.mem_cons_self) (fun _ h => h)
    exact slots_outer hL bs _ r1 (fun x hx => by rw [r2]; exact hb x (List.mem_cons_of_mem _ hx))

/-! ### `init` -/

theorem init_good {L : LTS} (hL : LtsOK L) (hd : DeltaOK L) {part : List (List Nat)} {rel : Rel}
    (hp : isPartition part L.n = true) (hc : isConsistent part rel = true) :
    Good L [] (objR L (nb0 L part rel)) (engineInitI L part rel).1 (engineInitI L part rel).2 := by
  have wA := initBlocks_wf (L := L) hp hc
  obtain ⟨_, wB, _, uB, _⟩ := initRefine_spec wA
  have wC := initPrune_wf wB uB
  have gA := initBlocks_good hd part rel
  have gB : Good L [] (objI L) (initRefineI L (objI L) (initBlocksI L (objI L) part rel ⟨delta1T L, []⟩)).1
      (initRefineI L (objI L) (initBlocksI L (objI L) part rel ⟨delta1T L, []⟩)).2 :=
    initRefine_good (objI_ok L) (List.range (labels L)) _ wA gA
  generalize hetB : initRefineI L (objI L) (initBlocksI L (objI L) part rel ⟨delta1T L, []⟩) = etB at gB
  have heB : etB.1 = initRefine L (initBlocks L part rel) := by rw [← hetB, initRefineI_fst]; rfl
  have hn : etB.1.part.length = nb0 L part rel := by rw [heB]; rfl
  have hinit : engineInitI L part rel = initCountersI L (sObj L (nb0 L part rel)) (initPruneI L etB) := by
    unfold engineInitI
    simp only [hetB, hn]
  rw [hinit]
  -- the state in front of the loops: `s` has been created
  have c0 : CInv L (nb0 L part rel) (initPruneI L etB).1 ((initPruneI L etB).2.addSS [SS.Op.new 0]) := by
    have hss : ((initPruneI L etB).2.addSS [SS.Op.new 0]).ss = etB.2.ss ++ [SS.Op.new 0] := rfl
    have hrun : SS.aRun [] (etB.2.ss ++ [SS.Op.new 0]) = SS.aRun [] etB.2.ss ++ [SS.aMk 0] := by
      rw [aRun_append]; rfl
    have hlenB := gB.2.hlen
    refine ⟨⟨?_, ?_⟩, ?_, ?_⟩
    · rw [hss, okAll_append, gB.1]; rfl
    · rw [hss, hrun]
      have hpl : (initPruneI L etB).1.part.length = nb0 L part rel := hn
      refine ⟨?_, ?_, ?_, ?_⟩
      · rw [hpl, List.length_append, hlenB, hn]; unfold objI objR
        simp only [Nat.lt_irrefl, if_false, List.length_cons, List.length_nil]; omega
      · intro k hk; rw [hpl] at hk; unfold objR; rw [if_neg (by omega), if_neg (by omega)]; omega
      · intro i hi
        rw [hpl] at hi
        obtain ⟨dg, hg⟩ := gB.2.hobj i (by rw [hn]; exact hi)
        refine ⟨dg, ?_⟩
        have : objR L (nb0 L part rel) i = objI L i := by unfold objR objI; rw [if_pos hi]
        rw [this, List.getElem?_append_left (lt_of_get hg)]
        exact hg
      · intro a ha
        have := gB.2.hdelta a ha
        rw [List.getElem?_append_left (lt_of_get this)]; exact this
    · have : (initPruneI L etB).1 = initPrune L (initRefine L (initBlocks L part rel)) := by
        show initPrune L etB.1 = _; rw [heB]
      rw [this]; exact wC
    · rw [hss, hrun, List.length_append, hlenB, hn]; unfold sObj objI; simp
  have := slots_outer hL (List.range (initPruneI L etB).1.part.length)
    ((initPruneI L etB).1, (initPruneI L etB).2.addSS [SS.Op.new 0]) c0 (fun b hb => List.mem_range.1 hb)
  exact this.good

/-! ### `processRemove` -/

theorem pruneCol_frame (L : LTS) (mask : List Nat) (b1 : Nat) (e : Eng) (col : Nat) :
    (pruneCol L mask b1 e col).part = e.part ∧ (pruneCol L mask b1 e col).inset = e.inset := by
  rw [pruneCol_eq]
  split
  · rw [decrBlock_eq]
    obtain ⟨h1, _, h3⟩ := decrAll_frame b1 (decrKeys L (eraseRel e b1 col) b1 col) (eraseRel e b1 col)
    exact ⟨h1, h3⟩
  · exact ⟨rfl, rfl⟩

theorem pruneCols_frame (L : LTS) (mask : List Nat) (b1 : Nat) : ∀ (cols : List Nat) (e : Eng),
    (cols.foldl (pruneCol L mask b1) e).part = e.part ∧ (cols.foldl (pruneCol L mask b1) e).inset = e.inset
  | [], _ => ⟨rfl, rfl⟩
  | c :: cols, e => by
    obtain ⟨h1, h2⟩ := pruneCols_frame L mask b1 cols (pruneCol L mask b1 e c)
    obtain ⟨g1, g2⟩ := pruneCol_frame L mask b1 e c
    exact ⟨h1.trans g1, h2.trans g2⟩

theorem pruneI_frame (L : LTS) (mask : List Nat) : ∀ (pl : List Nat) (et : IE),
    (pl.foldl (fun (et : IE) b1 => (pruneRow L mask et.1 b1, et.2.addSR [SR.Op.eraseRow b1 mask])) et).1.part = et.1.part ∧
    (pl.foldl (fun (et : IE) b1 => (pruneRow L mask et.1 b1, et.2.addSR [SR.Op.eraseRow b1 mask])) et).1.inset = et.1.inset ∧
    (pl.foldl (fun (et : IE) b1 => (pruneRow L mask et.1 b1, et.2.addSR [SR.Op.eraseRow b1 mask])) et).2.ss = et.2.ss
  | [], _ => ⟨rfl, rfl, rfl⟩
  | b :: pl, et => by
    obtain ⟨h1, h2, h3⟩ := pruneI_frame L mask pl (pruneRow L mask et.1 b, et.2.addSR [SR.Op.eraseRow b mask])
    obtain ⟨g1, g2⟩ := pruneCols_frame L mask b (et.1.row b) et.1
    exact ⟨h1.trans g1, h2.trans g2, h3⟩

theorem processRemoveI_eq (L : LTS) (obj : Nat → Nat) (e : Eng) (t : Tr) (b a : Nat) (rest : List (Nat × Nat))
    (remove : RemList) (hr : e.remv b a = some remove) :
    processRemoveI L obj ({ e with queue := rest }, t) b a =
      (buildPre L (popState e b a rest) b a).foldl (fun (et : IE) b1 =>
          (pruneRow L (splitI L obj (popState e b a rest, t) (flat remove)).1.2 et.1 b1,
           et.2.addSR [SR.Op.eraseRow b1 (splitI L obj (popState e b a rest, t) (flat remove)).1.2]))
        ((splitI L obj (popState e b a rest, t) (flat remove)).1.1, (splitI L obj (popState e b a rest, t) (flat remove)).2) := by
  have h : ({ e with queue := rest } : Eng).remv b a = some remove := hr
  unfold processRemoveI
  simp only [h]
  rfl

theorem processRemove_good {L : LTS} {S I : Nat → Nat → Prop} (hL : LtsOK L) {obj : Nat → Nat} (ho : ObjOK L obj)
    {aw0 : SS.AWorld} {e : Eng} {t : Tr} {b a : Nat} {rest : List (Nat × Nat)} (inv : Inv L S I e)
    (hq : e.queue = (b, a) :: rest) (g : Good L aw0 obj e t) :
    Good L aw0 obj (processRemoveI L obj ({ e with queue := rest }, t) b a).1
      (processRemoveI L obj ({ e with queue := rest }, t) b a).2 := by
  have hb : b < e.part.length := inv.qk.hlt b a (by rw [hq]; exact List.mem_cons_self)
  have hsome : (e.remv b a).isSome = true := (inv.qk.hiff b a).mpr (by rw [hq]; exact List.mem_cons_self)
  obtain ⟨remove, hr⟩ := Option.isSome_iff_exists.mp hsome
  obtain ⟨w0, qk0, _, _⟩ := popState_facts hL inv hq hr
  have hrmN := inv.sem.hN b a hb
  rw [slotL_some hr] at hrmN
  rw [processRemoveI_eq L obj e t b a rest remove hr]
  have gs := split_good (et := (popState e b a rest, t)) ho w0 qk0 hrmN.2 hrmN.1 (g.congr rfl rfl rfl)
  obtain ⟨f1, f2, f3⟩ := pruneI_frame L (splitI L obj (popState e b a rest, t) (flat remove)).1.2
    (buildPre L (popState e b a rest) b a)
    ((splitI L obj (popState e b a rest, t) (flat remove)).1.1, (splitI L obj (popState e b a rest, t) (flat remove)).2)
  exact gs.congr (by rw [f1]) f2 f3

/-! ### the whole run -/

theorem stepOnce_good {L : LTS} {S I : Nat → Nat → Prop} (hL : LtsOK L) {obj : Nat → Nat} (ho : ObjOK L obj)
    {aw0 : SS.AWorld} {et : IE} (inv : Inv L S I et.1) (g : Good L aw0 obj et.1 et.2) :
    Good L aw0 obj (stepOnceI L obj et).1 (stepOnceI L obj et).2 := by
  unfold stepOnceI
  cases hq : et.1.queue with
  | nil => exact g
  | cons k rest =>
    obtain ⟨b, a⟩ := k
    exact processRemove_good hL ho inv hq g

theorem stateAfter_good {L : LTS} (hL : LtsOK L) (hd : DeltaOK L) {part : List (List Nat)} {rel : Rel}
    (hp : isPartition part L.n = true) (hc : isConsistent part rel = true) (htr : RelTrans part rel) :
    ∀ k, Good L [] (objR L (nb0 L part rel)) (stateAfterI L part rel k).1 (stateAfterI L part rel k).2
  | 0 => init_good hL hd hp hc
  | k + 1 => by
    have inv := engine_invariant_always hL hp hc htr k
    rw [← stateAfterI_fst] at inv
    exact stepOnce_good hL (objR_ok L _) inv (stateAfter_good hL hd hp hc htr k)

/-- `k` iterations of `run()` -/
def iterI (L : LTS) (obj : Nat → Nat) : Nat → IE → IE
  | 0, et => et
  | k + 1, et => stepOnceI L obj (iterI L obj k et)

theorem iterI_comm (L : LTS) (obj : Nat → Nat) : ∀ (k : Nat) (et : IE),
    iterI L obj k (stepOnceI L obj et) = stepOnceI L obj (iterI L obj k et)
  | 0, _ => rfl
  | k + 1, et => by show stepOnceI L obj (iterI L obj k (stepOnceI L obj et)) = _; rw [iterI_comm L obj k et]; rfl

/-- what `run()` returns is the state after some number of iterations -/
theorem engineRunI_some {L : LTS} {obj : Nat → Nat} : ∀ (fuel : Nat) (et r : IE), engineRunI L obj fuel et = some r →
    ∃ k, r = iterI L obj k et
  | 0, et, r, h => by
    unfold engineRunI at h
    split at h
    · exact ⟨0, (Option.some.inj h).symm⟩
    · cases h
  | fuel + 1, et, r, h => by
    unfold engineRunI at h
    cases hq : et.1.queue with
    | nil => rw [hq] at h; exact ⟨0, (Option.some.inj h).symm⟩
    | cons k rest =>
      obtain ⟨b, a⟩ := k
      rw [hq] at h
      obtain ⟨k, hk⟩ := engineRunI_some fuel _ r h
      refine ⟨k + 1, ?_⟩
      have hs : stepOnceI L obj et = processRemoveI L obj ({ et.1 with queue := rest }, et.2) b a := by
        unfold stepOnceI; rw [hq]
      rw [hk, ← hs, iterI_comm]
      rfl

theorem stateAfterI_iter (L : LTS) (part : List (List Nat)) (rel : Rel) : ∀ k,
    stateAfterI L part rel k = iterI L (objR L (nb0 L part rel)) k (engineInitI L part rel)
  | 0 => rfl
  | k + 1 => by
    show stepOnceI L _ (stateAfterI L part rel k) = stepOnceI L _ _
    rw [stateAfterI_iter L part rel k]

end Vata.LEC
