import Vata.Proofs.CowHeapFADenote2
/-!
# What the values of the finite-automaton heap model denote – part 3: histories

`denStep`: the specification `specStep` of `Vata/CowHeapFA.lean` with every value-level function replaced by the operation
`nfas…` of `Vata/NfaStart.lean`.  `spec_denote_step`: the automata denoted by the values after a step of `specStep` are – up
to list order, handle by handle – what `denStep` makes of the automata denoted before.  `envWF_history`: the representation
invariant `WFV` holds for every value of every history.
-/
namespace Vata.CowHeapFA

open Vata Vata.W Vata.NfaS
open Vata.Store (KeysNodup)
open Vata.CowHeap (upd upd_same upd_other)

/-! ### the invariant along histories -/

/-- every live value satisfies the representation invariant -/
def EnvWF (a : Nat → Option FAVal) : Prop := ∀ h v, a h = some v → WFV v

theorem envWF_upd_some {a : Nat → Option FAVal} (ha : EnvWF a) (h : Nat) {v : FAVal} (hv : WFV v) :
    EnvWF (upd a h (some v)) := by
  intro k w hk
  unfold upd at hk
  by_cases e : k = h
  · simp only [e, if_true, Option.some.injEq] at hk
    exact hk ▸ hv
  · simp only [e, if_false] at hk
    exact ha k w hk

theorem envWF_upd_none {a : Nat → Option FAVal} (ha : EnvWF a) (h : Nat) : EnvWF (upd a h none) := by
  intro k w hk
  unfold upd at hk
  by_cases e : k = h
  · simp [e] at hk
  · simp only [e, if_false] at hk
    exact ha k w hk

theorem envWF_spec1 {a : Nat → Option FAVal} (ha : EnvWF a) (h : Nat) (f : FAVal → FAVal)
    (hf : ∀ v, WFV v → WFV (f v)) : EnvWF (spec1 a h f) := by
  unfold spec1
  cases hs : a h with
  | none => exact ha
  | some s => exact envWF_upd_some ha h (hf s (ha h s hs))

theorem envWF_specRes {a : Nat → Option FAVal} (ha : EnvWF a) (src dst : Nat) (f : FAVal → FAVal)
    (hf : ∀ v, WFV v → WFV (f v)) : EnvWF (specRes a src dst f) := by
  unfold specRes
  cases hs : a src with
  | none => exact ha
  | some s =>
    simp only
    split
    · exact envWF_upd_some ha dst (hf s (ha src s hs))
    · exact ha

theorem wfv_of_trans_eq {v w : FAVal} (h : WFV v) (e : w.trans = v.trans) : WFV w :=
  ⟨e ▸ h.keys, e ▸ h.tup⟩

theorem envWF_specStep {a : Nat → Option FAVal} (ha : EnvWF a) (op : Op) : EnvWF (specStep a op) := by
  cases op with
  | new h =>
    simp only [specStep]
    split
    · exact ha
    · exact envWF_upd_some ha h wfv_vNew
  | copy src dst => exact envWF_specRes ha src dst id (fun v hv => hv)
  | moveCtor src dst => exact envWF_specRes ha src dst id (fun v hv => hv)
  | assign src dst =>
    simp only [specStep]
    cases hs : a src with
    | none => exact ha
    | some s =>
      simp only
      split
      · exact envWF_upd_some ha dst (ha src s hs)
      · exact ha
  | moveAssign src dst =>
    simp only [specStep]
    cases hs : a src with
    | none => exact ha
    | some s =>
      simp only
      split
      · exact envWF_upd_some ha dst (ha src s hs)
      · exact ha
  | setFinal h q => exact envWF_spec1 ha h _ (fun v hv => wfv_of_trans_eq hv rfl)
  | setStart h q s => exact envWF_spec1 ha h _ (fun v hv => wfv_of_trans_eq hv rfl)
  | setExistingStart h q S => exact envWF_spec1 ha h _ (fun v hv => wfv_of_trans_eq hv rfl)
  | add h l s r => exact envWF_spec1 ha h _ (fun v hv => wfv_vAdd l s r hv)
  | destroy h => exact envWF_upd_none ha h
  | reindex src dst idx =>
    simp only [specStep]
    cases hs : a src with
    | none => exact ha
    | some s =>
      cases hd : a dst with
      | none => exact ha
      | some d =>
        simp only
        split
        · exact envWF_upd_some ha dst (wfv_vReindex idx (ha src s hs) (ha dst d hd))
        · exact ha
  | unionDisj x y dst =>
    simp only [specStep]
    cases hs : a x with
    | none => exact ha
    | some s =>
      cases hd : a y with
      | none => exact ha
      | some t =>
        simp only
        split
        · exact envWF_upd_some ha dst (wfv_vUnionDisj (ha x s hs) (ha y t hd))
        · exact ha
  | unreach src dst => exact envWF_specRes ha src dst _ (fun v hv => wfv_vUnreach hv.tup)
  | reverse src dst => exact envWF_specRes ha src dst _ (fun v _ => wfv_vReverse v)
  | candRaw src dst => exact envWF_specRes ha src dst _ (fun v hv => wfv_vCandRaw hv.tup)
  | useless src dst => exact envWF_specRes ha src dst _ (fun v _ => wfv_vUseless v)
  | candidate src dst => exact envWF_specRes ha src dst _ (fun v _ => wfv_vCandidate v)

theorem envWF_foldl {a : Nat → Option FAVal} (ha : EnvWF a) (ops : List Op) : EnvWF (ops.foldl specStep a) := by
  induction ops generalizing a with
  | nil => exact ha
  | cons op ops ih => exact ih (envWF_specStep ha op)

/-- in every history every live value has one cluster per state and non-empty right-hand sides -/
theorem envWF_history (ops : List Op) : EnvWF (absFA (exec ops)) := by
  rw [fa_history_isolation]
  apply envWF_foldl
  intro h v hv
  simp [specInit] at hv

/-! ### the specification on automata -/

/-- the automata denoted by the live handles -/
def den (a : Nat → Option FAVal) : Nat → Option NFAS := fun h => (a h).map FAVal.toNFAS

def d1 (a : Nat → Option NFAS) (h : Nat) (F : NFAS → NFAS) : Nat → Option NFAS :=
  match a h with
  | some s => upd a h (some (F s))
  | none => a

def dRes (a : Nat → Option NFAS) (src dst : Nat) (F : NFAS → NFAS) : Nat → Option NFAS :=
  match a src with
  | some s => if (a dst).isNone then upd a dst (some (F s)) else a
  | none => a

/-- `specStep` with the operations of `Vata/NfaStart.lean` in place of the value-level functions: what every operation of
    the class does to the AUTOMATA the objects denote -/
def denStep (a : Nat → Option NFAS) : Op → (Nat → Option NFAS)
  | .new h => if (a h).isSome then a else upd a h (some nfasEmpty)
  | .copy src dst | .moveCtor src dst => dRes a src dst id
  | .assign src dst | .moveAssign src dst =>
    match a src with
    | some s => if (a dst).isSome ∧ src ≠ dst then upd a dst (some s) else a
    | none => a
  | .setFinal h q => d1 a h (fun A => nfasSetFinal A q)
  | .setStart h q s => d1 a h (fun A => nfasSetStart A q s)
  | .setExistingStart h q S => d1 a h (fun A => nfasSetExistingStart A q S)
  | .add h l s r => d1 a h (fun A => nfasAddTrans A l s r)
  | .destroy h => upd a h none
  | .reindex src dst idx =>
    match a src, a dst with
    | some s, some d => if src ≠ dst then upd a dst (some (nfasUnionDisjoint d (nfasMap idx s))) else a
    | _, _ => a
  | .unionDisj x y dst =>
    match a x, a y with
    | some s, some t => if (a dst).isNone then upd a dst (some (nfasUnionDisjoint s t)) else a
    | _, _ => a
  | .unreach src dst => dRes a src dst nfasRemoveUnreachable
  | .reverse src dst => dRes a src dst nfasReverse
  | .candRaw src dst => dRes a src dst nfasCandidateRaw
  | .useless src dst => dRes a src dst nfasRemoveUseless
  | .candidate src dst => dRes a src dst nfasCandidate

/-- the same automaton (up to list order) or both dead -/
def ORel : Option NFAS → Option NFAS → Prop
  | some A, some B => NEquiv A B
  | none, none => True
  | _, _ => False

/-- handle by handle -/
def EnvEq (a b : Nat → Option NFAS) : Prop := ∀ h, ORel (a h) (b h)

theorem ORel.refl (x : Option NFAS) : ORel x x := by
  cases x with
  | none => trivial
  | some A => exact NEquiv.refl A

theorem EnvEq.refl (a : Nat → Option NFAS) : EnvEq a a := fun h => ORel.refl (a h)

theorem den_upd (a : Nat → Option FAVal) (h : Nat) (x : Option FAVal) :
    den (upd a h x) = upd (den a) h (x.map FAVal.toNFAS) := by
  funext k
  unfold den upd
  by_cases e : k = h <;> simp [e]

theorem envEq_upd (a : Nat → Option NFAS) (h : Nat) {x y : Option NFAS} (hxy : ORel x y) :
    EnvEq (upd a h x) (upd a h y) := by
  intro k
  unfold upd
  by_cases e : k = h
  · simp only [e, if_true]; exact hxy
  · simp only [e, if_false]; exact ORel.refl _

theorem den_some {a : Nat → Option FAVal} {h : Nat} {s : FAVal} (e : a h = some s) : den a h = some s.toNFAS := by
  simp [den, e]
theorem den_none {a : Nat → Option FAVal} {h : Nat} (e : a h = none) : den a h = none := by
  simp [den, e]

theorem den_spec1 (a : Nat → Option FAVal) (h : Nat) (f : FAVal → FAVal) (F : NFAS → NFAS)
    (hf : ∀ s, a h = some s → NEquiv (f s).toNFAS (F s.toNFAS)) : EnvEq (den (spec1 a h f)) (d1 (den a) h F) := by
  unfold spec1 d1
  cases hs : a h with
  | none => rw [den_none hs]; exact EnvEq.refl _
  | some s =>
    rw [den_some hs]
    simp only
    rw [den_upd]
    exact envEq_upd _ h (hf s hs)

theorem den_specRes (a : Nat → Option FAVal) (src dst : Nat) (f : FAVal → FAVal) (F : NFAS → NFAS)
    (hf : ∀ s, a src = some s → NEquiv (f s).toNFAS (F s.toNFAS)) :
    EnvEq (den (specRes a src dst f)) (dRes (den a) src dst F) := by
  unfold specRes dRes
  cases hs : a src with
  | none => rw [den_none hs]; exact EnvEq.refl _
  | some s =>
    rw [den_some hs]
    simp only
    cases hd : a dst with
    | none =>
      rw [den_none hd]
      simp only [Option.isNone_none, if_true]
      rw [den_upd]
      exact envEq_upd _ dst (hf s hs)
    | some d =>
      rw [den_some hd]
      simp only [Option.isNone_some, Bool.false_eq_true, if_false]
      exact EnvEq.refl _

/-- the operations whose denotation needs the precondition the C++ `assert`s: the operands of `UnionDisjointStates` have no
    source state in common -/
def OpOk (a : Nat → Option FAVal) : Op → Prop
  | .unionDisj x y _ => ∀ s t, a x = some s → a y = some t → DisjKeys s t
  | _ => True

/-- `GetCandidateTree` (and its internal step) are excluded: see `vCandidate_sub_lang` -/
def NotCand : Op → Prop
  | .candRaw _ _ => False
  | .candidate _ _ => False
  | _ => True

theorem den_assign (a : Nat → Option FAVal) (src dst : Nat) :
    EnvEq (den (match a src with
        | some s => if (a dst).isSome ∧ src ≠ dst then upd a dst (some s) else a
        | none => a))
      (match den a src with
        | some s => if (den a dst).isSome ∧ src ≠ dst then upd (den a) dst (some s) else den a
        | none => den a) := by
  cases hs : a src with
  | none => rw [den_none hs]; exact EnvEq.refl _
  | some s =>
    rw [den_some hs]
    simp only
    have e : (den a dst).isSome = (a dst).isSome := by simp [den]
    rw [e]
    split
    · rw [den_upd]; exact EnvEq.refl _
    · exact EnvEq.refl _

/-- one step of the specification, seen on the automata: every operation other than `GetCandidateTree` does to the automaton
    its target denotes what the operation of `Vata/NfaStart.lean` does, up to list order; all other handles keep theirs -/
theorem spec_denote_step (a : Nat → Option FAVal) (ha : EnvWF a) (op : Op) (hok : OpOk a op) (hnc : NotCand op) :
    EnvEq (den (specStep a op)) (denStep (den a) op) := by
  cases op with
  | new h =>
    simp only [specStep, denStep]
    have e : (den a h).isSome = (a h).isSome := by simp [den]
    rw [e]
    split
    · exact EnvEq.refl _
    · rw [den_upd]; exact envEq_upd _ h (NEquiv.refl _)
  | copy src dst => exact den_specRes a src dst id id (fun s _ => NEquiv.refl _)
  | moveCtor src dst => exact den_specRes a src dst id id (fun s _ => NEquiv.refl _)
  | assign src dst => exact den_assign a src dst
  | moveAssign src dst => exact den_assign a src dst
  | setFinal h q => exact den_spec1 a h _ _ (fun s _ => NEquiv.refl _)
  | setStart h q s => exact den_spec1 a h _ _ (fun s _ => NEquiv.refl _)
  | setExistingStart h q S => exact den_spec1 a h _ _ (fun s _ => NEquiv.refl _)
  | add h l s r => exact den_spec1 a h _ _ (fun v _ => vAdd_denote l s r v)
  | destroy h =>
    simp only [specStep, denStep]
    rw [den_upd]; exact EnvEq.refl _
  | reindex src dst idx =>
    simp only [specStep, denStep]
    cases hs : a src with
    | none => rw [den_none hs]; exact EnvEq.refl _
    | some s =>
      rw [den_some hs]
      cases hd : a dst with
      | none => rw [den_none hd]; exact EnvEq.refl _
      | some d =>
        rw [den_some hd]
        simp only
        split
        · rw [den_upd]; exact envEq_upd _ dst (vReindex_denote idx s d (ha src s hs).tup)
        · exact EnvEq.refl _
  | unionDisj x y dst =>
    simp only [specStep, denStep]
    cases hs : a x with
    | none => rw [den_none hs]; exact EnvEq.refl _
    | some s =>
      rw [den_some hs]
      cases hd : a y with
      | none => rw [den_none hd]; exact EnvEq.refl _
      | some t =>
        rw [den_some hd]
        simp only
        have e : (den a dst).isNone = (a dst).isNone := by simp [den]
        rw [e]
        split
        · rw [den_upd]
          exact envEq_upd _ dst (vUnionDisj_denote s t (ha y t hd).keys (hok s t hs hd))
        · exact EnvEq.refl _
  | unreach src dst => exact den_specRes a src dst _ _ (fun s hs => vUnreach_denote s (ha src s hs).keys)
  | reverse src dst => exact den_specRes a src dst _ _ (fun s _ => vReverse_denote s)
  | candRaw src dst => exact absurd hnc id
  | useless src dst => exact den_specRes a src dst _ _ (fun s hs => vUseless_denote s (ha src s hs).keys)
  | candidate src dst => exact absurd hnc id

/-- … for the heap: one more operation after any history -/
theorem fa_history_denote_step (ops : List Op) (op : Op) (hok : OpOk (absFA (exec ops)) op) (hnc : NotCand op) :
    EnvEq (den (absFA (exec (ops ++ [op])))) (denStep (den (absFA (exec ops))) op) := by
  have e : exec (ops ++ [op]) = step (exec ops) op := by
    unfold exec; rw [List.foldl_append]; rfl
  rw [e, (fa_refines_values (fa_history_inv ops) op).1]
  exact spec_denote_step _ (envWF_history ops) op hok hnc

/-- the language read through a handle (`none` for a dead handle) -/
def langOf (a : Nat → Option NFAS) (h : Nat) (w : List Nat) : Option Bool := (a h).map (fun A => acceptsW A.toNFA w)

theorem EnvEq.lang {a b : Nat → Option NFAS} (hab : EnvEq a b) (h : Nat) (w : List Nat) : langOf a h w = langOf b h w := by
  have := hab h
  unfold langOf
  cases ha : a h with
  | none =>
    cases hb : b h with
    | none => rfl
    | some B => rw [ha, hb] at this; exact absurd this id
  | some A =>
    cases hb : b h with
    | none => rw [ha, hb] at this; exact absurd this id
    | some B =>
      rw [ha, hb] at this
      simp only [Option.map_some]
      rw [NEquiv.lang this w]

theorem denStep_other (a : Nat → Option NFAS) (op : Op) (x : Nat) (hx : x ≠ target op) : denStep a op x = a x := by
  have hd1 : ∀ h F, x ≠ h → d1 a h F x = a x := by
    intro h F hxh
    unfold d1
    cases a h with
    | none => rfl
    | some s => exact upd_other _ _ hxh
  have hdR : ∀ src dst F, x ≠ dst → dRes a src dst F x = a x := by
    intro src dst F hxd
    unfold dRes
    cases a src with
    | none => rfl
    | some s =>
      simp only
      split
      · exact upd_other _ _ hxd
      · rfl
  have hAs : ∀ src dst, x ≠ dst → (match a src with
      | some s => if (a dst).isSome ∧ src ≠ dst then upd a dst (some s) else a
      | none => a) x = a x := by
    intro src dst hxd
    cases a src with
    | none => rfl
    | some s =>
      simp only
      split
      · exact upd_other _ _ hxd
      · rfl
  cases op with
  | new h => simp only [denStep]; split <;> simp [upd_other _ _ (show x ≠ h from hx)]
  | copy src dst => exact hdR _ _ _ hx
  | moveCtor src dst => exact hdR _ _ _ hx
  | assign src dst => exact hAs src dst hx
  | moveAssign src dst => exact hAs src dst hx
  | setFinal h q => exact hd1 _ _ hx
  | setStart h q s => exact hd1 _ _ hx
  | setExistingStart h q S => exact hd1 _ _ hx
  | add h l s r => exact hd1 _ _ hx
  | destroy h => exact upd_other _ _ hx
  | reindex src dst idx =>
    simp only [denStep]
    cases a src with
    | none => rfl
    | some s =>
      cases hd : a dst with
      | none => rfl
      | some d =>
        simp only
        split
        · exact upd_other _ _ hx
        · rfl
  | unionDisj y z dst =>
    simp only [denStep]
    cases a y with
    | none => rfl
    | some s =>
      cases a z with
      | none => rfl
      | some t =>
        simp only
        split
        · exact upd_other _ _ hx
        · rfl
  | unreach src dst => exact hdR _ _ _ hx
  | reverse src dst => exact hdR _ _ _ hx
  | candRaw src dst => exact hdR _ _ _ hx
  | useless src dst => exact hdR _ _ _ hx
  | candidate src dst => exact hdR _ _ _ hx

end Vata.CowHeapFA
