import Vata.FunctorCachesDown
import Vata.Proofs.FunctorCachesUp
/-!
# The heap of the downward algorithm: invariant of `lteCache`, the comparisons and the antichain operations (C01, C07)

Model: `Vata/FunctorCachesDown.lean`.  The invariant is the one of `Vata/Proofs/FunctorCachesUp.lean` with the memoised function
`NonCachedLte` of the downward functor (`InclDown.setLe o`, any preorder `o` whose `leB` is reflexive – needed because
`SetComparerSmaller` answers `true` on identical pointers without looking at the sets):

  `HInvD o h`: one object per address, `lteCache` well formed, and every entry of `lteCache` mentions LIVE addresses only and
  stores `setLe o` of the values now at those addresses.

It is kept by `biggerTypeCache.lookup` with any allocator (`hLookupD_spec`), by `SetComparerSmaller` (`hLteO_spec`) and by
the deaths with the library's deleter (`hCollectD_spec`, on `FCU.fold_deleter_lib`).  On a heap with the invariant the loops
`isInWorkset` / `contains` / `refine` compute what the value-level tests of `InclDown` compute (`findC_spec`, `refC_spec`,
`coversC_spec`, `niFindC_spec`, `ccAddC_spec`, `niAddC_spec`).
-/
namespace Vata
namespace FCD
open Vata.InclDown Vata.CM
open Vata.FCU (Heap hval hLookup hCollect Live allocA deleter)

/-- the invariant of the heap and of `lteCache` -/
structure HInvD (o : Ord) (h : Heap) : Prop where
  na : h.addrs.Nodup
  li : h.lte.Inv
  ei : h.ev.Inv
  sl : ∀ a b r, aget h.lte.store (a, b) = some r → Live h a ∧ Live h b ∧ r = setLe o (hval h a) (hval h b)

theorem HInvD.empty (o : Ord) : HInvD o {} :=
  ⟨List.nodup_nil, BinOp.empty_inv, BinOp.empty_inv, (fun _ _ _ h => by cases h)⟩

theorem setLe_refl {o : Ord} (hr : ∀ q, o.leB q q = true) (P : List Nat) : setLe o P P = true := by
  simp only [setLe, List.all_eq_true, List.any_eq_true]
  intro s hs
  exact ⟨s, hs, hr s⟩

/-- `biggerTypeCache.lookup(v)` with any allocator -/
theorem hLookupD_spec (pick : List Nat → Nat) {o : Ord} {h : Heap} (hi : HInvD o h) (v : List Nat) :
    HInvD o (hLookup pick h v).1 ∧ Live (hLookup pick h v).1 (hLookup pick h v).2 ∧
    hval (hLookup pick h v).1 (hLookup pick h v).2 = v ∧
    (∀ a, Live h a → Live (hLookup pick h v).1 a ∧ hval (hLookup pick h v).1 a = hval h a) := by
  unfold hLookup
  split
  · next ob ho =>
    have hm := List.mem_of_find?_eq_some ho
    have hv : ob.2 = v := by simpa using List.find?_some ho
    have hlive : Live h ob.1 := List.mem_map_of_mem hm
    refine ⟨hi, hlive, ?_, fun a ha => ⟨ha, rfl⟩⟩
    obtain ⟨o', h1, h2, h3⟩ := FCU.find_addr_of_mem hlive
    have : o' = ob := FCU.mem_unique_addr hi.na hm h3 h2
    simp only [hval, h1, this, hv]
  · have hfresh := FCU.allocA_fresh pick h.addrs
    refine ⟨⟨?_, hi.li, hi.ei, ?_⟩, ?_, FCU.hval_append_new hfresh, ?_⟩
    · simp only [Heap.addrs, List.map_append, List.map_cons, List.map_nil]
      refine List.nodup_append.mpr ⟨hi.na, by simp, ?_⟩
      intro a ha b hb
      simp only [List.mem_singleton] at hb
      subst hb
      intro e; subst e; exact hfresh ha
    · intro a b r hr
      obtain ⟨ha, hb, he⟩ := hi.sl a b r hr
      refine ⟨?_, ?_, ?_⟩
      · simp only [Live, Heap.addrs, List.map_append, List.mem_append]; exact Or.inl ha
      · simp only [Live, Heap.addrs, List.map_append, List.mem_append]; exact Or.inl hb
      · rw [FCU.hval_append_old ha, FCU.hval_append_old hb]; exact he
    · simp [Live, Heap.addrs]
    · intro a ha
      refine ⟨?_, FCU.hval_append_old ha⟩
      simp only [Live, Heap.addrs, List.map_append, List.mem_append]; exact Or.inl ha

/-- `SetComparerSmaller` answers `NonCachedLte` of the two sets on live objects and keeps the invariant -/
theorem hLteO_spec {o : Ord} (hr : ∀ q, o.leB q q = true) {h : Heap} (hi : HInvD o h) {a b : Nat}
    (ha : Live h a) (hb : Live h b) :
    (hLteO o h a b).2 = setLe o (hval h a) (hval h b) ∧ HInvD o (hLteO o h a b).1 ∧ (hLteO o h a b).1.store = h.store := by
  unfold hLteO
  split
  · next e =>
    subst e
    exact ⟨(setLe_refl hr _).symm, hi, rfl⟩
  · simp only
    have hans := BinOp.lookup_ans h.lte a b (fun x y => setLe o (hval h x) (hval h y))
    have hst := BinOp.lookup_store h.lte a b (fun x y => setLe o (hval h x) (hval h y))
    have hans' : (h.lte.lookup a b (fun x y => setLe o (hval h x) (hval h y))).2 = setLe o (hval h a) (hval h b) := by
      rw [hans]
      cases hg : aget h.lte.store (a, b) with
      | none => rfl
      | some v => exact (hi.sl a b v hg).2.2
    refine ⟨hans', ⟨hi.na, BinOp.lookup_inv hi.li _ _ _, hi.ei, ?_⟩, trivial⟩
    intro a' b' r hr'
    rw [hst] at hr'
    split at hr'
    · next hk =>
      simp only [Prod.mk.injEq] at hk
      obtain ⟨rfl, rfl⟩ := hk
      simp only [Option.some.injEq] at hr'
      exact ⟨ha, hb, by rw [← hr']; exact hans'⟩
    · exact hi.sl a' b' r hr'

/-- **the deaths, with the library's wiring**: the invariant is kept, the objects with a handle keep their values -/
theorem hCollectD_spec {o : Ord} {h : Heap} (hi : HInvD o h) (roots : List Nat) :
    HInvD o (hCollect .lib roots h) ∧
    (∀ a, a ∈ roots → Live h a → Live (hCollect .lib roots h) a ∧ hval (hCollect .lib roots h) a = hval h a) := by
  obtain ⟨i1, i2, _, i4, _⟩ :=
    FCU.fold_deleter_lib ((h.store.filter (fun ob => !roots.contains ob.1)).map (·.1)) h hi.li hi.ei
  have hkeep : ∀ a, Live h a → a ∉ (h.store.filter (fun ob => !roots.contains ob.1)).map (·.1) →
      Live (hCollect .lib roots h) a ∧ hval (hCollect .lib roots h) a = hval h a := by
    intro a ha hnd
    obtain ⟨ob, _, hoa, hom⟩ := FCU.find_addr_of_mem ha
    have hr : roots.contains a = true := by
      cases hc : roots.contains a with
      | true => rfl
      | false =>
        exfalso; apply hnd
        exact List.mem_map.mpr ⟨ob, List.mem_filter.mpr ⟨hom, by rw [hoa, hc]; rfl⟩, hoa⟩
    constructor
    · exact List.mem_map.mpr ⟨ob, List.mem_filter.mpr ⟨hom, by rw [hoa]; exact hr⟩, hoa⟩
    · simp only [hval, hCollect, FCU.find_filter_roots roots hr]
  constructor
  · refine ⟨?_, i1, i2, ?_⟩
    · exact (List.filter_sublist.map _).nodup hi.na
    · intro a b r hr
      have hr' : aget ((h.store.filter (fun ob => !roots.contains ob.1)).map (·.1) |>.foldl (deleter .lib) h).lte.store (a, b)
          = some r := hr
      rw [i4] at hr'
      split at hr'
      · cases hr'
      · next hnd =>
        have hnd' := not_or.mp hnd
        obtain ⟨ha, hb, he⟩ := hi.sl a b r hr'
        obtain ⟨la, va⟩ := hkeep a ha hnd'.1
        obtain ⟨lb, vb⟩ := hkeep b hb hnd'.2
        exact ⟨la, lb, by rw [va, vb]; exact he⟩
  · intro a har ha
    apply hkeep a ha
    intro hd
    obtain ⟨ob, ho, hoa⟩ := List.mem_map.mp hd
    have := (List.mem_filter.mp ho).2
    rw [hoa] at this
    have hc : roots.contains a = true := by simpa using har
    rw [hc] at this; cases this

/-! ### the comparisons and the loops of the antichains -/

/-- the value of `smallerComparer_(x, a)` / `biggerComparer_(x, a)` -/
def cmpV (o : Ord) (flip : Bool) (h : Heap) (xa a : Nat) : Bool :=
  if flip then setLe o (hval h a) (hval h xa) else setLe o (hval h xa) (hval h a)

theorem cmpV_store {o : Ord} {flip : Bool} {h h' : Heap} (hs : h'.store = h.store) (xa a : Nat) :
    cmpV o flip h' xa a = cmpV o flip h xa a := by
  simp only [cmpV, FCU.hval_store hs]

theorem cmpO_spec {o : Ord} (hr : ∀ q, o.leB q q = true) (flip : Bool) {h : Heap} (hi : HInvD o h) {xa a : Nat}
    (hx : Live h xa) (ha : Live h a) :
    (cmpO o flip h xa a).2 = cmpV o flip h xa a ∧ HInvD o (cmpO o flip h xa a).1 ∧ (cmpO o flip h xa a).1.store = h.store := by
  unfold cmpO cmpV
  cases flip
  · exact hLteO_spec hr hi hx ha
  · exact hLteO_spec hr hi ha hx

theorem findC_spec {α : Type} {o : Ord} (hr : ∀ q, o.leB q q = true) (flip : Bool) (kt : α → Bool) (ad : α → Nat) (a : Nat) :
    ∀ (X : List α) (h : Heap), HInvD o h → Live h a → (∀ x, x ∈ X → Live h (ad x)) →
    (findC o flip kt ad a X h).2 = X.find? (fun x => kt x && cmpV o flip h (ad x) a) ∧
    HInvD o (findC o flip kt ad a X h).1 ∧ (findC o flip kt ad a X h).1.store = h.store
  | [], h, hi, _, _ => ⟨rfl, hi, rfl⟩
  | x :: X, h, hi, ha, hl => by
    have hlX : ∀ y, y ∈ X → Live h (ad y) := fun y hy => hl y (List.mem_cons_of_mem _ hy)
    unfold findC
    split
    · next hk =>
      obtain ⟨e1, m1, c1⟩ := cmpO_spec hr flip hi (hl x List.mem_cons_self) ha
      simp only []
      split
      · next ht =>
        refine ⟨?_, m1, c1⟩
        rw [e1] at ht
        simp [hk, ht]
      · next ht =>
        have ht' : cmpV o flip h (ad x) a = false := by rw [← e1]; simpa using ht
        obtain ⟨e2, m2, c2⟩ := findC_spec hr flip kt ad a X (cmpO o flip h (ad x) a).1 m1 ((FCU.live_store c1 _).mpr ha)
          (fun y hy => (FCU.live_store c1 _).mpr (hlX y hy))
        refine ⟨?_, m2, c2.trans c1⟩
        rw [e2]
        simp only [List.find?_cons, hk, ht', Bool.and_false]
        congr 1
        funext y
        rw [cmpV_store c1]
    · next hk =>
      obtain ⟨e2, m2, c2⟩ := findC_spec hr flip kt ad a X h hi ha hlX
      refine ⟨?_, m2, c2⟩
      rw [e2]
      have : kt x = false := by simpa using hk
      simp [this]

theorem refC_spec {α : Type} {o : Ord} (hr : ∀ q, o.leB q q = true) (flip : Bool) (kt : α → Bool) (ad : α → Nat) (a : Nat) :
    ∀ (X : List α) (h : Heap), HInvD o h → Live h a → (∀ x, x ∈ X → Live h (ad x)) →
    (refC o flip kt ad a X h).2 = X.filter (fun x => !(kt x && cmpV o flip h (ad x) a)) ∧
    HInvD o (refC o flip kt ad a X h).1 ∧ (refC o flip kt ad a X h).1.store = h.store
  | [], h, hi, _, _ => ⟨rfl, hi, rfl⟩
  | x :: X, h, hi, ha, hl => by
    have hlX : ∀ y, y ∈ X → Live h (ad y) := fun y hy => hl y (List.mem_cons_of_mem _ hy)
    unfold refC
    split
    · next hk =>
      obtain ⟨e1, m1, c1⟩ := cmpO_spec hr flip hi (hl x List.mem_cons_self) ha
      obtain ⟨e2, m2, c2⟩ := refC_spec hr flip kt ad a X (cmpO o flip h (ad x) a).1 m1 ((FCU.live_store c1 _).mpr ha)
        (fun y hy => (FCU.live_store c1 _).mpr (hlX y hy))
      refine ⟨?_, m2, c2.trans c1⟩
      have hf : (fun y => !(kt y && cmpV o flip (cmpO o flip h (ad x) a).1 (ad y) a)) =
          (fun y => !(kt y && cmpV o flip h (ad y) a)) := by
        funext y; rw [cmpV_store c1]
      simp only [e2, e1, hf, List.filter_cons, hk, Bool.true_and]
      cases cmpV o flip h (ad x) a <;> simp
    · next hk =>
      obtain ⟨e2, m2, c2⟩ := refC_spec hr flip kt ad a X h hi ha hlX
      refine ⟨?_, m2, c2⟩
      have : kt x = false := by simpa using hk
      simp [e2, this]

theorem isSome_find? {α : Type} (q : α → Bool) : ∀ l : List α, (l.find? q).isSome = l.any q
  | [] => rfl
  | x :: l => by
    simp only [List.find?_cons, List.any_cons]
    cases q x
    · simpa using isSome_find? q l
    · simp

theorem derefP_store {h h' : Heap} (hs : h'.store = h.store) : derefP h' = derefP h := by
  funext x; simp only [derefP, FCU.hval_store hs]

theorem derefN_store {h h' : Heap} (hs : h'.store = h.store) : derefN h' = derefN h := by
  funext x; simp only [derefN, FCU.hval_store hs]

/-- `isInWorkset` / `isImpliedByChildren` -/
theorem coversC_spec {o : Ord} (hr : ∀ q, o.leB q q = true) (X : List CP) (p a : Nat) {h : Heap} (hi : HInvD o h)
    (ha : Live h a) (hl : ∀ x, x ∈ X → Live h x.2) :
    (coversC o X p a h).2 = covers o (X.map (derefP h)) p (hval h a) ∧
    HInvD o (coversC o X p a h).1 ∧ (coversC o X p a h).1.store = h.store := by
  obtain ⟨e, m, c⟩ := findC_spec hr false (fun x : CP => o.leA p x.1) (·.2) a X h hi ha hl
  refine ⟨?_, m, c⟩
  simp only [coversC, e, isSome_find?, covers, List.any_map]
  rfl

/-- `isNoninclusionImplied` -/
theorem niFindC_spec {o : Ord} (hr : ∀ q, o.leB q q = true) (ni : List CN) (p a : Nat) {h : Heap} (hi : HInvD o h)
    (ha : Live h a) (hl : ∀ x, x ∈ ni → Live h x.2.1) :
    ((niFindC o ni p a h).2).map (derefN h) = niFind o (ni.map (derefN h)) p (hval h a) ∧
    HInvD o (niFindC o ni p a h).1 ∧ (niFindC o ni p a h).1.store = h.store := by
  obtain ⟨e, m, c⟩ := findC_spec hr true (fun x : CN => o.leA x.1 p) (·.2.1) a ni h hi ha hl
  refine ⟨?_, m, c⟩
  simp only [niFindC, e, niFind, List.find?_map]
  rfl

/-- `processFoundInclusion` -/
theorem ccAddC_spec {o : Ord} (hr : ∀ q, o.leB q q = true) (cc : List CP) (p a : Nat) {h : Heap} (hi : HInvD o h)
    (ha : Live h a) (hl : ∀ x, x ∈ cc → Live h x.2) :
    (ccAddC o cc p a h).2.map (derefP h) = ccAdd o (cc.map (derefP h)) p (hval h a) ∧
    HInvD o (ccAddC o cc p a h).1 ∧ (ccAddC o cc p a h).1.store = h.store ∧
    (∀ x, x ∈ (ccAddC o cc p a h).2 → x ∈ cc ∨ x = (p, a)) := by
  obtain ⟨e1, m1, c1⟩ := coversC_spec hr cc p a hi ha hl
  unfold ccAddC ccAdd
  simp only
  rw [e1]
  split
  · exact ⟨rfl, m1, c1, fun x hx => Or.inl hx⟩
  · obtain ⟨e2, m2, c2⟩ := refC_spec hr true (fun x : CP => o.leA x.1 p) (·.2) a cc _ m1 ((FCU.live_store c1 _).mpr ha)
      (fun x hx => (FCU.live_store c1 _).mpr (hl x hx))
    refine ⟨?_, m2, c2.trans c1, ?_⟩
    · rw [e2, List.map_append, List.filter_map]
      have hf : (fun x : CP => !(o.leA x.1 p && cmpV o true (coversC o cc p a h).1 x.2 a)) =
          ((fun x : Pair => !(o.leA x.1 p && setLe o (hval h a) x.2)) ∘ derefP h) := by
        funext x; rw [cmpV_store c1]; rfl
      rw [hf]; rfl
    · intro x hx
      rw [e2] at hx
      rcases List.mem_append.mp hx with hx | hx
      · exact Or.inl (List.mem_filter.mp hx).1
      · exact Or.inr (List.mem_singleton.mp hx)

/-- `processFoundNoninclusion` -/
theorem niAddC_spec {o : Ord} (hr : ∀ q, o.leB q q = true) (ni : List CN) (p a : Nat) (w : Tree) {h : Heap} (hi : HInvD o h)
    (ha : Live h a) (hl : ∀ x, x ∈ ni → Live h x.2.1) :
    (niAddC o ni p a w h).2.map (derefN h) = niAdd o (ni.map (derefN h)) p (hval h a) w ∧
    HInvD o (niAddC o ni p a w h).1 ∧ (niAddC o ni p a w h).1.store = h.store ∧
    (∀ x, x ∈ (niAddC o ni p a w h).2 → x ∈ ni ∨ x = (p, a, w)) := by
  obtain ⟨e1, m1, c1⟩ := niFindC_spec hr ni p a hi ha hl
  unfold niAddC niAdd
  simp only
  rw [← e1, Option.isSome_map]
  split
  · exact ⟨rfl, m1, c1, fun x hx => Or.inl hx⟩
  · obtain ⟨e2, m2, c2⟩ := refC_spec hr false (fun x : CN => o.leA p x.1) (·.2.1) a ni _ m1 ((FCU.live_store c1 _).mpr ha)
      (fun x hx => (FCU.live_store c1 _).mpr (hl x hx))
    refine ⟨?_, m2, c2.trans c1, ?_⟩
    · rw [e2, List.map_append, List.filter_map]
      have hf : (fun x : CN => !(o.leA p x.1 && cmpV o false (niFindC o ni p a h).1 x.2.1 a)) =
          ((fun x : Nat × List Nat × Tree => !(o.leA p x.1 && setLe o x.2.1 (hval h a))) ∘ derefN h) := by
        funext x; rw [cmpV_store c1]; rfl
      rw [hf]; rfl
    · intro x hx
      rw [e2] at hx
      rcases List.mem_append.mp hx with hx | hx
      · exact Or.inl (List.mem_filter.mp hx).1
      · exact Or.inr (List.mem_singleton.mp hx)

end FCD
end Vata
