import Vata.ApplyMemo
import Vata.Proofs.RcStore
import Vata.Proofs.StoreRefine
/-!
# The memo tables of the apply functors are transparent (property C17)

Theorems about `Vata/ApplyMemo.lean`.

* `recDescend_replay`: a finished memo-free `recDescend s n1 n2 = (s₁, r)` can be REPLAYED in every later store `s' ⊒ s₁` that arose
  by allocations only (`Ext`): it returns the same node `r` and leaves `s'` as it is (all its spawns hit the unique tables);
* `recDescendM_eq`, `apply2Memo_eq`: hence `recDescend` with the memo table computes exactly what the memo-free one computes –
  the same store, the same root – when the table only holds replayable entries (`MemoOK`), in particular from the empty table
  of `ht.clear()`; the table it leaves is again `MemoOK`;
* `recDescendM_grows`: the invariant of a call – the store only grows (`Ext`: every allocated node stays allocated with its
  contents) and no node is released (`freed` unchanged) between `ht.clear()` and the end of the call;
* the same for the unary apply (`recDescend1_replay`, `recDescend1M_eq`, `apply1Memo_eq`) and the ternary apply
  (`recDescend3_replay`, `recDescend3M_eq`, `apply3Memo_eq`);
* `memo_survives_wrong`: a table that SURVIVES across calls is wrong as soon as a result node dies and its address is re-used
  (by `decide`), and dangling even without re-use.
-/
namespace Vata.RcS
open Vata.R (Data Closed)

/-! ## 1. unique-table hits persist when the store grows -/

theorem find_leaf_persist {s s' : Store} (h : WInv s []) (h' : WInv s' []) (e : Ext s s') {v n : Nat}
    (hf : find v s.leafT = some n) : find v s'.leafT = some n := by
  obtain ⟨hn, hd⟩ := (h.leafOk v n).mp (find_some_mem hf)
  refine mem_find h'.leafK ((h'.leafOk v n).mpr ⟨e.ids n hn, ?_⟩)
  rw [e.dat n (h.fresh n hn)]; exact hd

theorem find_int_persist {s s' : Store} (h : WInv s []) (h' : WInv s' []) (e : Ext s s') {k : IKey} {n : Nat}
    (hf : find k s.intT = some n) : find k s'.intT = some n := by
  obtain ⟨hn, hd⟩ := (h.intOk k n).mp (find_some_mem hf)
  refine mem_find h'.intK ((h'.intOk k n).mpr ⟨e.ids n hn, ?_⟩)
  rw [e.dat n (h.fresh n hn)]; exact hd

theorem find_cons_self {κ : Type} [DecidableEq κ] (k : κ) (n : Nat) (t : List (κ × Nat)) : find k ((k, n) :: t) = some n := by
  simp [find]

/-- after `spawnLeaf s v` the leaf table has `v ↦ result` -/
theorem spawnLeaf_find (s : Store) (v : Nat) : find v (spawnLeaf s v).1.leafT = some (spawnLeaf s v).2 := by
  unfold spawnLeaf
  split
  · rename_i n hf; exact hf
  · exact find_cons_self _ _ _

theorem spawnInternal_find (s : Store) (lo hi var : Nat) :
    find (lo, hi, var) (spawnInternal s lo hi var).1.intT = some (spawnInternal s lo hi var).2 := by
  unfold spawnInternal
  split
  · rename_i n hf; exact hf
  · exact find_cons_self _ _ _

/-- a spawn can be replayed in every larger store: it hits the table -/
theorem spawnLeaf_replay {s s' : Store} {v : Nat} (h : WInv s []) (h' : WInv s' []) (e : Ext (spawnLeaf s v).1 s') :
    spawnLeaf s' v = (s', (spawnLeaf s v).2) := by
  have hf := find_leaf_persist (spawnLeaf_inv h).1 h' e (spawnLeaf_find s v)
  conv => lhs; unfold spawnLeaf
  rw [hf]

theorem spawnInternal_replay {s s' : Store} {lo hi var : Nat} (h : WInv s []) (hlo : lo ∈ s.ids) (hhi : hi ∈ s.ids)
    (h' : WInv s' []) (e : Ext (spawnInternal s lo hi var).1 s') :
    spawnInternal s' lo hi var = (s', (spawnInternal s lo hi var).2) := by
  have hf := find_int_persist (spawnInternal_inv h hlo hhi).1 h' e (spawnInternal_find s lo hi var)
  conv => lhs; unfold spawnInternal
  rw [hf]

/-! ## 2. binary apply: replay, the memo table -/

theorem Ext.dat_of_mem {s s' : Store} (h : WInv s []) (e : Ext s s') {n : Nat} (hn : n ∈ s.ids) : s'.dat n = s.dat n :=
  e.dat n (h.fresh n hn)

/-- **replay**: a finished `recDescend` returns the same node and changes nothing in any later, larger store -/
theorem recDescend_replay (f : Nat → Nat → Nat) : ∀ (fuel : Nat) (s : Store) (n1 n2 : Nat), WInv s [] → n1 ∈ s.ids →
    n2 ∈ s.ids → n1 + n2 < fuel → ∀ (fuel' : Nat) (s' : Store), WInv s' [] → Ext (recDescend f fuel s n1 n2).1 s' →
    n1 + n2 < fuel' → recDescend f fuel' s' n1 n2 = (s', (recDescend f fuel s n1 n2).2)
  | 0, _, _, _, _, _, _, hf, _, _, _, _, _ => by omega
  | _+1, _, _, _, _, _, _, _, 0, _, _, _, hf' => by omega
  | fuel+1, s, n1, n2, h, h1, h2, hf, fuel'+1, s', h', e, hf' => by
    have e0 : Ext s s' := (recDescend_inv f (fuel+1) s n1 n2 h h1 h2 hf).2.1.trans e
    have hd1 : s'.dat n1 = s.dat n1 := e0.dat_of_mem h h1
    have hd2 : s'.dat n2 = s.dat n2 := e0.dat_of_mem h h2
    simp only [recDescend] at e ⊢
    rw [hd1, hd2]
    split
    · rename_i hb
      rw [if_pos hb] at e
      exact spawnLeaf_replay h h' e
    · rename_i hb
      rw [if_neg hb] at e
      obtain ⟨k11, k12, k21, k22, l1, l2⟩ := kids_ok h h1 h2 hb
      obtain ⟨w1, e1, m1, _⟩ := recDescend_inv f fuel s _ _ h k11 k21 (by omega)
      obtain ⟨w2, e2, m2, _⟩ := recDescend_inv f fuel _ _ _ w1 (e1.ids _ k12) (e1.ids _ k22) (by omega)
      generalize hra : recDescend f fuel s (kids (s.dat n1) (br (s.dat n1) (s.dat n2)) n1).1
        (kids (s.dat n2) (br (s.dat n2) (s.dat n1)) n2).1 = ra at *
      generalize hrb : recDescend f fuel ra.1 (kids (s.dat n1) (br (s.dat n1) (s.dat n2)) n1).2
        (kids (s.dat n2) (br (s.dat n2) (s.dat n1)) n2).2 = rb at *
      have e3 : Ext rb.1 s' := by
        split at e
        · exact e
        · exact (spawnInternal_inv w2 (e2.ids _ m1) m2).2.1.trans e
      have r1 : recDescend f fuel' s' (kids (s.dat n1) (br (s.dat n1) (s.dat n2)) n1).1
          (kids (s.dat n2) (br (s.dat n2) (s.dat n1)) n2).1 = (s', ra.2) := by
        have := recDescend_replay f fuel s _ _ h k11 k21 (by omega) fuel' s' h' (by rw [hra]; exact e2.trans e3) (by omega)
        rw [hra] at this; exact this
      have r2 : recDescend f fuel' s' (kids (s.dat n1) (br (s.dat n1) (s.dat n2)) n1).2
          (kids (s.dat n2) (br (s.dat n2) (s.dat n1)) n2).2 = (s', rb.2) := by
        have := recDescend_replay f fuel ra.1 _ _ w1 (e1.ids _ k12) (e1.ids _ k22) (by omega) fuel' s' h'
          (by rw [hrb]; exact e3) (by omega)
        rw [hrb] at this; exact this
      simp only [r1, r2]
      split
      · rfl
      · rename_i hne
        rw [if_neg hne] at e
        exact spawnInternal_replay w2 (e2.ids _ m1) m2 h' e

/-- every entry of the table can be replayed in the store `s` and in every larger one -/
def MemoOK (f : Nat → Nat → Nat) (s : Store) (ht : Memo) : Prop :=
  ∀ a b r, ((a, b), r) ∈ ht → ∀ (fuel : Nat) (s' : Store), WInv s' [] → Ext s s' → a + b < fuel →
    recDescend f fuel s' a b = (s', r)

theorem memoOK_nil (f : Nat → Nat → Nat) (s : Store) : MemoOK f s [] := fun _ _ _ h => by cases h

theorem MemoOK.mono {f : Nat → Nat → Nat} {s s₁ : Store} {ht : Memo} (h : MemoOK f s ht) (e : Ext s s₁) : MemoOK f s₁ ht :=
  fun a b r hm fuel s' h' e' hf => h a b r hm fuel s' h' (e.trans e') hf

theorem MemoOK.cons {f : Nat → Nat → Nat} {s : Store} {ht : Memo} {a b r : Nat} (h : MemoOK f s ht)
    (hn : ∀ (fuel : Nat) (s' : Store), WInv s' [] → Ext s s' → a + b < fuel → recDescend f fuel s' a b = (s', r)) :
    MemoOK f s (((a, b), r) :: ht) := by
  intro a' b' r' hm
  rcases List.mem_cons.mp hm with heq | hm
  · cases heq; exact hn
  · exact h a' b' r' hm

/-- **`recDescend` with the memo table = `recDescend` without**: the same store and the same node, from any table whose entries
are replayable; the table left behind is replayable again -/
theorem recDescendM_eq (f : Nat → Nat → Nat) : ∀ (fuel : Nat) (s : Store) (ht : Memo) (n1 n2 : Nat), WInv s [] →
    n1 ∈ s.ids → n2 ∈ s.ids → n1 + n2 < fuel → MemoOK f s ht →
    (recDescendM f fuel s ht n1 n2).1 = (recDescend f fuel s n1 n2).1 ∧
    (recDescendM f fuel s ht n1 n2).2.1 = (recDescend f fuel s n1 n2).2 ∧
    MemoOK f (recDescend f fuel s n1 n2).1 (recDescendM f fuel s ht n1 n2).2.2
  | 0, _, _, _, _, _, _, _, hf, _ => by omega
  | fuel+1, s, ht, n1, n2, h, h1, h2, hf, hm => by
    -- the whole call can be replayed later: the entry inserted at the end is sound
    have hwhole := recDescend_replay f (fuel+1) s n1 n2 h h1 h2 hf
    have eall := (recDescend_inv f (fuel+1) s n1 n2 h h1 h2 hf).2.1
    have hnew : ∀ (fuel' : Nat) (s' : Store), WInv s' [] → Ext (recDescend f (fuel+1) s n1 n2).1 s' → n1 + n2 < fuel' →
        recDescend f fuel' s' n1 n2 = (s', (recDescend f (fuel+1) s n1 n2).2) :=
      fun fuel' s' h' e' hf' => hwhole fuel' s' h' e' hf'
    simp only [recDescendM]
    split
    · -- the pair is in the table
      rename_i r hfind
      have := hm n1 n2 r (find_some_mem hfind) (fuel+1) s h (Ext.refl s) hf
      rw [this]
      exact ⟨rfl, rfl, hm⟩
    · simp only [recDescend] at hnew eall ⊢
      split
      · rename_i hb
        rw [if_pos hb] at hnew eall
        exact ⟨rfl, rfl, (hm.mono eall).cons hnew⟩
      · rename_i hb
        rw [if_neg hb] at hnew eall
        obtain ⟨k11, k12, k21, k22, l1, l2⟩ := kids_ok h h1 h2 hb
        obtain ⟨w1, e1, m1, _⟩ := recDescend_inv f fuel s _ _ h k11 k21 (by omega)
        obtain ⟨i1, i2, i3⟩ := recDescendM_eq f fuel s ht _ _ h k11 k21 (by omega) hm
        generalize hMa : recDescendM f fuel s ht (kids (s.dat n1) (br (s.dat n1) (s.dat n2)) n1).1
          (kids (s.dat n2) (br (s.dat n2) (s.dat n1)) n2).1 = Ma at *
        generalize hra : recDescend f fuel s (kids (s.dat n1) (br (s.dat n1) (s.dat n2)) n1).1
          (kids (s.dat n2) (br (s.dat n2) (s.dat n1)) n2).1 = ra at *
        obtain ⟨Ms, Mr, Mt⟩ := Ma
        simp only at i1 i2 i3
        subst i1 i2
        obtain ⟨w2, e2, m2, _⟩ := recDescend_inv f fuel _ _ _ w1 (e1.ids _ k12) (e1.ids _ k22) (by omega)
        obtain ⟨j1, j2, j3⟩ := recDescendM_eq f fuel ra.1 Mt _ _ w1 (e1.ids _ k12) (e1.ids _ k22) (by omega) i3
        generalize hMb : recDescendM f fuel ra.1 Mt (kids (s.dat n1) (br (s.dat n1) (s.dat n2)) n1).2
          (kids (s.dat n2) (br (s.dat n2) (s.dat n1)) n2).2 = Mb at *
        generalize hrb : recDescend f fuel ra.1 (kids (s.dat n1) (br (s.dat n1) (s.dat n2)) n1).2
          (kids (s.dat n2) (br (s.dat n2) (s.dat n1)) n2).2 = rb at *
        obtain ⟨Ns, Nr, Nt⟩ := Mb
        simp only at j1 j2 j3
        subst j1 j2
        split
        · rename_i heq
          rw [if_pos heq] at hnew eall
          exact ⟨rfl, rfl, j3.cons hnew⟩
        · rename_i hne
          rw [if_neg hne] at hnew eall
          exact ⟨rfl, rfl, (j3.mono (spawnInternal_inv w2 (e2.ids _ m1) m2).2.1).cons hnew⟩

/-- **`apply2Memo_eq`**: the apply as coded (table cleared, then `recDescend` with the table) returns the same store – in
particular the same root for the new handle – as the memo-free apply of the store model, after any history -/
theorem apply2Memo_eq (f : Nat → Nat → Nat) {s : Store} (hi : Inv s) (a b dst : Nat) :
    apply2M f s a b dst = apply2 f s a b dst := by
  unfold apply2M apply2
  cases hfa : find a s.hs with
  | none => rfl
  | some ra =>
    cases hfb : find b s.hs with
    | none => rfl
    | some rb =>
      cases hfd : find dst s.hs with
      | some _ => rfl
      | none =>
        have hra : ra ∈ s.ids := hi.1.rin ra (root_mem hfa)
        have hrb : rb ∈ s.ids := hi.1.rin rb (root_mem hfb)
        obtain ⟨e1, e2, _⟩ := recDescendM_eq f (ra + rb + 1) s [] ra rb hi.1 hra hrb (Nat.lt_succ_self _) (memoOK_nil f s)
        simp only [e1, e2]

theorem apply2Memo_run (f : Nat → Nat → Nat) (ops : List Op) (a b dst : Nat) :
    apply2M f (runF f ops) a b dst = runF f (ops ++ [.apply a b dst]) := by
  rw [apply2Memo_eq f (runF_inv f ops), runF_snoc]; rfl

/-! ### the invariant of a call: the store only grows, nothing is released -/

theorem spawnLeaf_freed (s : Store) (v : Nat) : (spawnLeaf s v).1.freed = s.freed := by
  unfold spawnLeaf; split <;> rfl

theorem spawnInternal_freed (s : Store) (lo hi var : Nat) : (spawnInternal s lo hi var).1.freed = s.freed := by
  unfold spawnInternal; split <;> rfl

theorem recDescend_freed (f : Nat → Nat → Nat) : ∀ (fuel : Nat) (s : Store) (n1 n2 : Nat),
    (recDescend f fuel s n1 n2).1.freed = s.freed
  | 0, _, _, _ => rfl
  | fuel+1, s, n1, n2 => by
    simp only [recDescend]
    split
    · exact spawnLeaf_freed _ _
    · split
      · rw [recDescend_freed f fuel, recDescend_freed f fuel]
      · rw [spawnInternal_freed, recDescend_freed f fuel, recDescend_freed f fuel]

/-- between `ht.clear()` and the end of the call: every allocated node stays allocated with its contents, the handles are
untouched (`Ext`), no node is released (`freed` unchanged), no assertion fails – so a node id in the table cannot die, let
alone be re-used, while the table is in use -/
theorem recDescendM_grows (f : Nat → Nat → Nat) {fuel : Nat} {s : Store} {ht : Memo} {n1 n2 : Nat} (h : WInv s [])
    (h1 : n1 ∈ s.ids) (h2 : n2 ∈ s.ids) (hf : n1 + n2 < fuel) (hm : MemoOK f s ht) :
    Ext s (recDescendM f fuel s ht n1 n2).1 ∧ (recDescendM f fuel s ht n1 n2).1.freed = s.freed ∧
    WInv (recDescendM f fuel s ht n1 n2).1 [] ∧ (recDescendM f fuel s ht n1 n2).2.1 ∈ (recDescendM f fuel s ht n1 n2).1.ids := by
  obtain ⟨e1, e2, _⟩ := recDescendM_eq f fuel s ht n1 n2 h h1 h2 hf hm
  obtain ⟨w, e, m, _⟩ := recDescend_inv f fuel s n1 n2 h h1 h2 hf
  rw [e1, e2]
  exact ⟨e, recDescend_freed f fuel s n1 n2, w, m⟩

/-! ## 3. unary apply -/

theorem recDescend1_inv (g : Nat → Nat) : ∀ (fuel : Nat) (s : Store) (n : Nat), WInv s [] → n ∈ s.ids → n < fuel →
    WInv (recDescend1 g fuel s n).1 [] ∧ Ext s (recDescend1 g fuel s n).1 ∧ (recDescend1 g fuel s n).2 ∈ (recDescend1 g fuel s n).1.ids
  | 0, _, _, _, _, hf => by omega
  | fuel+1, s, n, h, hn, hf => by
    simp only [recDescend1]
    split
    · obtain ⟨a, b, c, _⟩ := spawnLeaf_inv (s := s) (v := g _) h
      exact ⟨a, b, c⟩
    · rename_i lo hi var hd
      obtain ⟨c1, c2⟩ := h.closed n hn lo hi var hd
      obtain ⟨o1, o2⟩ := h.ordered n hn lo hi var hd
      obtain ⟨w1, e1, m1⟩ := recDescend1_inv g fuel s lo h c1 (by omega)
      obtain ⟨w2, e2, m2⟩ := recDescend1_inv g fuel _ hi w1 (e1.ids _ c2) (by omega)
      split
      · exact ⟨w2, e1.trans e2, e2.ids _ m1⟩
      · obtain ⟨w3, e3, m3, _⟩ := spawnInternal_inv (var := var) w2 (e2.ids _ m1) m2
        exact ⟨w3, (e1.trans e2).trans e3, m3⟩

theorem recDescend1_replay (g : Nat → Nat) : ∀ (fuel : Nat) (s : Store) (n : Nat), WInv s [] → n ∈ s.ids → n < fuel →
    ∀ (fuel' : Nat) (s' : Store), WInv s' [] → Ext (recDescend1 g fuel s n).1 s' → n < fuel' →
    recDescend1 g fuel' s' n = (s', (recDescend1 g fuel s n).2)
  | 0, _, _, _, _, hf, _, _, _, _, _ => by omega
  | _+1, _, _, _, _, _, 0, _, _, _, hf' => by omega
  | fuel+1, s, n, h, hn, hf, fuel'+1, s', h', e, hf' => by
    have e0 : Ext s s' := (recDescend1_inv g (fuel+1) s n h hn hf).2.1.trans e
    have hd : s'.dat n = s.dat n := e0.dat_of_mem h hn
    simp only [recDescend1] at e ⊢
    rw [hd]
    split
    · rename_i v hv
      simp only [hv] at e
      exact spawnLeaf_replay h h' e
    · rename_i lo hi var hdat
      simp only [hdat] at e
      obtain ⟨c1, c2⟩ := h.closed n hn lo hi var hdat
      obtain ⟨o1, o2⟩ := h.ordered n hn lo hi var hdat
      obtain ⟨w1, e1, m1⟩ := recDescend1_inv g fuel s lo h c1 (by omega)
      obtain ⟨w2, e2, m2⟩ := recDescend1_inv g fuel _ hi w1 (e1.ids _ c2) (by omega)
      generalize hra : recDescend1 g fuel s lo = ra at *
      generalize hrb : recDescend1 g fuel ra.1 hi = rb at *
      have e3 : Ext rb.1 s' := by
        split at e
        · exact e
        · exact (spawnInternal_inv w2 (e2.ids _ m1) m2).2.1.trans e
      have r1 : recDescend1 g fuel' s' lo = (s', ra.2) := by
        have := recDescend1_replay g fuel s lo h c1 (by omega) fuel' s' h' (by rw [hra]; exact e2.trans e3) (by omega)
        rw [hra] at this; exact this
      have r2 : recDescend1 g fuel' s' hi = (s', rb.2) := by
        have := recDescend1_replay g fuel ra.1 hi w1 (e1.ids _ c2) (by omega) fuel' s' h' (by rw [hrb]; exact e3) (by omega)
        rw [hrb] at this; exact this
      simp only [r1, r2]
      split
      · rfl
      · rename_i hne
        rw [if_neg hne] at e
        exact spawnInternal_replay w2 (e2.ids _ m1) m2 h' e

def Memo1OK (g : Nat → Nat) (s : Store) (ht : Memo1) : Prop :=
  ∀ a r, (a, r) ∈ ht → ∀ (fuel : Nat) (s' : Store), WInv s' [] → Ext s s' → a < fuel → recDescend1 g fuel s' a = (s', r)

theorem Memo1OK.mono {g : Nat → Nat} {s s₁ : Store} {ht : Memo1} (h : Memo1OK g s ht) (e : Ext s s₁) : Memo1OK g s₁ ht :=
  fun a r hm fuel s' h' e' hf => h a r hm fuel s' h' (e.trans e') hf

theorem Memo1OK.cons {g : Nat → Nat} {s : Store} {ht : Memo1} {a r : Nat} (h : Memo1OK g s ht)
    (hn : ∀ (fuel : Nat) (s' : Store), WInv s' [] → Ext s s' → a < fuel → recDescend1 g fuel s' a = (s', r)) :
    Memo1OK g s ((a, r) :: ht) := by
  intro a' r' hm
  rcases List.mem_cons.mp hm with heq | hm
  · cases heq; exact hn
  · exact h a' r' hm

theorem recDescend1M_eq (g : Nat → Nat) : ∀ (fuel : Nat) (s : Store) (ht : Memo1) (n : Nat), WInv s [] → n ∈ s.ids →
    n < fuel → Memo1OK g s ht →
    (recDescend1M g fuel s ht n).1 = (recDescend1 g fuel s n).1 ∧
    (recDescend1M g fuel s ht n).2.1 = (recDescend1 g fuel s n).2 ∧
    Memo1OK g (recDescend1 g fuel s n).1 (recDescend1M g fuel s ht n).2.2
  | 0, _, _, _, _, _, hf, _ => by omega
  | fuel+1, s, ht, n, h, hn, hf, hm => by
    have hnew := recDescend1_replay g (fuel+1) s n h hn hf
    have eall := (recDescend1_inv g (fuel+1) s n h hn hf).2.1
    simp only [recDescend1M]
    split
    · rename_i r hfind
      have := hm n r (find_some_mem hfind) (fuel+1) s h (Ext.refl s) hf
      rw [this]
      exact ⟨rfl, rfl, hm⟩
    · simp only [recDescend1] at hnew eall ⊢
      split
      · rename_i v hv
        simp only [hv] at hnew eall
        exact ⟨rfl, rfl, (hm.mono eall).cons hnew⟩
      · rename_i lo hi var hdat
        simp only [hdat] at hnew eall
        obtain ⟨c1, c2⟩ := h.closed n hn lo hi var hdat
        obtain ⟨o1, o2⟩ := h.ordered n hn lo hi var hdat
        obtain ⟨w1, e1, m1⟩ := recDescend1_inv g fuel s lo h c1 (by omega)
        obtain ⟨i1, i2, i3⟩ := recDescend1M_eq g fuel s ht lo h c1 (by omega) hm
        generalize hMa : recDescend1M g fuel s ht lo = Ma at *
        generalize hra : recDescend1 g fuel s lo = ra at *
        obtain ⟨Ms, Mr, Mt⟩ := Ma
        simp only at i1 i2 i3
        subst i1 i2
        obtain ⟨w2, e2, m2⟩ := recDescend1_inv g fuel _ hi w1 (e1.ids _ c2) (by omega)
        obtain ⟨j1, j2, j3⟩ := recDescend1M_eq g fuel ra.1 Mt hi w1 (e1.ids _ c2) (by omega) i3
        generalize hMb : recDescend1M g fuel ra.1 Mt hi = Mb at *
        generalize hrb : recDescend1 g fuel ra.1 hi = rb at *
        obtain ⟨Ns, Nr, Nt⟩ := Mb
        simp only at j1 j2 j3
        subst j1 j2
        split
        · rename_i heq
          rw [if_pos heq] at hnew eall
          exact ⟨rfl, rfl, j3.cons hnew⟩
        · rename_i hne
          rw [if_neg hne] at hnew eall
          exact ⟨rfl, rfl, (j3.mono (spawnInternal_inv w2 (e2.ids _ m1) m2).2.1).cons hnew⟩

/-- **`apply1Memo_eq`**: the unary apply as coded returns the same store as the memo-free one -/
theorem apply1Memo_eq (g : Nat → Nat) {s : Store} (hi : Inv s) (a dst : Nat) : apply1M g s a dst = apply1 g s a dst := by
  unfold apply1M apply1
  cases hfa : find a s.hs with
  | none => rfl
  | some ra =>
    cases hfd : find dst s.hs with
    | some _ => rfl
    | none =>
      have hra : ra ∈ s.ids := hi.1.rin ra (root_mem hfa)
      obtain ⟨e1, e2, _⟩ := recDescend1M_eq g (ra + 1) s [] ra hi.1 hra (Nat.lt_succ_self _) (fun _ _ h => by cases h)
      simp only [e1, e2]

/-! ## 3b. ternary apply -/

theorem br3_true_isInt {d1 d2 d3 : Data} (h : br3 d1 d2 d3 = true) : isInt d1 = true := by
  cases d1 <;> simp_all [br3, isInt]

theorem kids3_ok {s : Store} (h : WInv s []) {n1 n2 n3 : Nat} (h1 : n1 ∈ s.ids) (h2 : n2 ∈ s.ids) (h3 : n3 ∈ s.ids)
    {b1 b2 b3 : Bool} (e1 : b1 = br3 (s.dat n1) (s.dat n2) (s.dat n3)) (e2 : b2 = br3 (s.dat n2) (s.dat n1) (s.dat n3))
    (e3 : b3 = br3 (s.dat n3) (s.dat n1) (s.dat n2)) (hb : ¬ (b1 = false ∧ b2 = false ∧ b3 = false)) :
    ((kids (s.dat n1) b1 n1).1 ∈ s.ids ∧ (kids (s.dat n1) b1 n1).2 ∈ s.ids) ∧
    ((kids (s.dat n2) b2 n2).1 ∈ s.ids ∧ (kids (s.dat n2) b2 n2).2 ∈ s.ids) ∧
    ((kids (s.dat n3) b3 n3).1 ∈ s.ids ∧ (kids (s.dat n3) b3 n3).2 ∈ s.ids) ∧
    (kids (s.dat n1) b1 n1).1 + (kids (s.dat n2) b2 n2).1 + (kids (s.dat n3) b3 n3).1 < n1 + n2 + n3 ∧
    (kids (s.dat n1) b1 n1).2 + (kids (s.dat n2) b2 n2).2 + (kids (s.dat n3) b3 n3).2 < n1 + n2 + n3 := by
  obtain ⟨a1, a2, a3, a4, a5⟩ := kids_single h h1 b1
  obtain ⟨c1, c2, c3, c4, c5⟩ := kids_single h h2 b2
  obtain ⟨d1, d2, d3, d4, d5⟩ := kids_single h h3 b3
  refine ⟨⟨a1, a2⟩, ⟨c1, c2⟩, ⟨d1, d2⟩, ?_⟩
  by_cases hb1 : b1 = true
  · have := a5 hb1 (br3_true_isInt (by rw [← e1]; exact hb1))
    constructor <;> omega
  · by_cases hb2 : b2 = true
    · have := c5 hb2 (br3_true_isInt (by rw [← e2]; exact hb2))
      constructor <;> omega
    · by_cases hb3 : b3 = true
      · have := d5 hb3 (br3_true_isInt (by rw [← e3]; exact hb3))
        constructor <;> omega
      · exact absurd ⟨Bool.eq_false_iff.mpr hb1, Bool.eq_false_iff.mpr hb2, Bool.eq_false_iff.mpr hb3⟩ hb

theorem recDescend3_inv (f : Nat → Nat → Nat → Nat) : ∀ (fuel : Nat) (s : Store) (n1 n2 n3 : Nat), WInv s [] → n1 ∈ s.ids →
    n2 ∈ s.ids → n3 ∈ s.ids → n1 + n2 + n3 < fuel →
    WInv (recDescend3 f fuel s n1 n2 n3).1 [] ∧ Ext s (recDescend3 f fuel s n1 n2 n3).1 ∧
    (recDescend3 f fuel s n1 n2 n3).2 ∈ (recDescend3 f fuel s n1 n2 n3).1.ids
  | 0, _, _, _, _, _, _, _, _, hf => by omega
  | fuel+1, s, n1, n2, n3, h, h1, h2, h3, hf => by
    simp only [recDescend3]
    split
    · obtain ⟨a, b, c, _⟩ := spawnLeaf_inv (s := s) (v := f (valOf (s.dat n1)) (valOf (s.dat n2)) (valOf (s.dat n3))) h
      exact ⟨a, b, c⟩
    · rename_i hb
      obtain ⟨⟨k11, k12⟩, ⟨k21, k22⟩, ⟨k31, k32⟩, l1, l2⟩ := kids3_ok h h1 h2 h3 rfl rfl rfl hb
      obtain ⟨w1, e1, m1⟩ := recDescend3_inv f fuel s _ _ _ h k11 k21 k31 (by omega)
      obtain ⟨w2, e2, m2⟩ := recDescend3_inv f fuel _ _ _ _ w1 (e1.ids _ k12) (e1.ids _ k22) (e1.ids _ k32) (by omega)
      split
      · exact ⟨w2, e1.trans e2, e2.ids _ m1⟩
      · obtain ⟨w3, e3, m3, _⟩ := spawnInternal_inv
          (var := if br3 (s.dat n3) (s.dat n1) (s.dat n2) = true then varOf (s.dat n3)
            else if br3 (s.dat n2) (s.dat n1) (s.dat n3) = true then varOf (s.dat n2) else varOf (s.dat n1))
          w2 (e2.ids _ m1) m2
        exact ⟨w3, (e1.trans e2).trans e3, m3⟩

theorem recDescend3_replay (f : Nat → Nat → Nat → Nat) : ∀ (fuel : Nat) (s : Store) (n1 n2 n3 : Nat), WInv s [] → n1 ∈ s.ids →
    n2 ∈ s.ids → n3 ∈ s.ids → n1 + n2 + n3 < fuel → ∀ (fuel' : Nat) (s' : Store), WInv s' [] →
    Ext (recDescend3 f fuel s n1 n2 n3).1 s' → n1 + n2 + n3 < fuel' →
    recDescend3 f fuel' s' n1 n2 n3 = (s', (recDescend3 f fuel s n1 n2 n3).2)
  | 0, _, _, _, _, _, _, _, _, hf, _, _, _, _, _ => by omega
  | _+1, _, _, _, _, _, _, _, _, _, 0, _, _, _, hf' => by omega
  | fuel+1, s, n1, n2, n3, h, h1, h2, h3, hf, fuel'+1, s', h', e, hf' => by
    have e0 : Ext s s' := (recDescend3_inv f (fuel+1) s n1 n2 n3 h h1 h2 h3 hf).2.1.trans e
    have hd1 : s'.dat n1 = s.dat n1 := e0.dat_of_mem h h1
    have hd2 : s'.dat n2 = s.dat n2 := e0.dat_of_mem h h2
    have hd3 : s'.dat n3 = s.dat n3 := e0.dat_of_mem h h3
    simp only [recDescend3] at e ⊢
    rw [hd1, hd2, hd3]
    split
    · rename_i hb
      rw [if_pos hb] at e
      exact spawnLeaf_replay h h' e
    · rename_i hb
      rw [if_neg hb] at e
      obtain ⟨⟨k11, k12⟩, ⟨k21, k22⟩, ⟨k31, k32⟩, l1, l2⟩ := kids3_ok h h1 h2 h3 rfl rfl rfl hb
      obtain ⟨w1, e1, m1⟩ := recDescend3_inv f fuel s _ _ _ h k11 k21 k31 (by omega)
      obtain ⟨w2, e2, m2⟩ := recDescend3_inv f fuel _ _ _ _ w1 (e1.ids _ k12) (e1.ids _ k22) (e1.ids _ k32) (by omega)
      generalize hra : recDescend3 f fuel s (kids (s.dat n1) (br3 (s.dat n1) (s.dat n2) (s.dat n3)) n1).1
        (kids (s.dat n2) (br3 (s.dat n2) (s.dat n1) (s.dat n3)) n2).1
        (kids (s.dat n3) (br3 (s.dat n3) (s.dat n1) (s.dat n2)) n3).1 = ra at *
      generalize hrb : recDescend3 f fuel ra.1 (kids (s.dat n1) (br3 (s.dat n1) (s.dat n2) (s.dat n3)) n1).2
        (kids (s.dat n2) (br3 (s.dat n2) (s.dat n1) (s.dat n3)) n2).2
        (kids (s.dat n3) (br3 (s.dat n3) (s.dat n1) (s.dat n2)) n3).2 = rb at *
      have e3 : Ext rb.1 s' := by
        split at e
        · exact e
        · exact (spawnInternal_inv w2 (e2.ids _ m1) m2).2.1.trans e
      have r1 : recDescend3 f fuel' s' (kids (s.dat n1) (br3 (s.dat n1) (s.dat n2) (s.dat n3)) n1).1
          (kids (s.dat n2) (br3 (s.dat n2) (s.dat n1) (s.dat n3)) n2).1
          (kids (s.dat n3) (br3 (s.dat n3) (s.dat n1) (s.dat n2)) n3).1 = (s', ra.2) := by
        have := recDescend3_replay f fuel s _ _ _ h k11 k21 k31 (by omega) fuel' s' h' (by rw [hra]; exact e2.trans e3)
          (by omega)
        rw [hra] at this; exact this
      have r2 : recDescend3 f fuel' s' (kids (s.dat n1) (br3 (s.dat n1) (s.dat n2) (s.dat n3)) n1).2
          (kids (s.dat n2) (br3 (s.dat n2) (s.dat n1) (s.dat n3)) n2).2
          (kids (s.dat n3) (br3 (s.dat n3) (s.dat n1) (s.dat n2)) n3).2 = (s', rb.2) := by
        have := recDescend3_replay f fuel ra.1 _ _ _ w1 (e1.ids _ k12) (e1.ids _ k22) (e1.ids _ k32) (by omega) fuel' s' h'
          (by rw [hrb]; exact e3) (by omega)
        rw [hrb] at this; exact this
      simp only [r1, r2]
      split
      · rfl
      · rename_i hne
        rw [if_neg hne] at e
        exact spawnInternal_replay w2 (e2.ids _ m1) m2 h' e

def Memo3OK (f : Nat → Nat → Nat → Nat) (s : Store) (ht : Memo3) : Prop :=
  ∀ a b c r, ((a, b, c), r) ∈ ht → ∀ (fuel : Nat) (s' : Store), WInv s' [] → Ext s s' → a + b + c < fuel →
    recDescend3 f fuel s' a b c = (s', r)

theorem Memo3OK.mono {f : Nat → Nat → Nat → Nat} {s s₁ : Store} {ht : Memo3} (h : Memo3OK f s ht) (e : Ext s s₁) :
    Memo3OK f s₁ ht :=
  fun a b c r hm fuel s' h' e' hf => h a b c r hm fuel s' h' (e.trans e') hf

theorem Memo3OK.cons {f : Nat → Nat → Nat → Nat} {s : Store} {ht : Memo3} {a b c r : Nat} (h : Memo3OK f s ht)
    (hn : ∀ (fuel : Nat) (s' : Store), WInv s' [] → Ext s s' → a + b + c < fuel → recDescend3 f fuel s' a b c = (s', r)) :
    Memo3OK f s (((a, b, c), r) :: ht) := by
  intro a' b' c' r' hm
  rcases List.mem_cons.mp hm with heq | hm
  · cases heq; exact hn
  · exact h a' b' c' r' hm

theorem recDescend3M_eq (f : Nat → Nat → Nat → Nat) : ∀ (fuel : Nat) (s : Store) (ht : Memo3) (n1 n2 n3 : Nat), WInv s [] →
    n1 ∈ s.ids → n2 ∈ s.ids → n3 ∈ s.ids → n1 + n2 + n3 < fuel → Memo3OK f s ht →
    (recDescend3M f fuel s ht n1 n2 n3).1 = (recDescend3 f fuel s n1 n2 n3).1 ∧
    (recDescend3M f fuel s ht n1 n2 n3).2.1 = (recDescend3 f fuel s n1 n2 n3).2 ∧
    Memo3OK f (recDescend3 f fuel s n1 n2 n3).1 (recDescend3M f fuel s ht n1 n2 n3).2.2
  | 0, _, _, _, _, _, _, _, _, _, hf, _ => by omega
  | fuel+1, s, ht, n1, n2, n3, h, h1, h2, h3, hf, hm => by
    have hnew := recDescend3_replay f (fuel+1) s n1 n2 n3 h h1 h2 h3 hf
    have eall := (recDescend3_inv f (fuel+1) s n1 n2 n3 h h1 h2 h3 hf).2.1
    simp only [recDescend3M]
    split
    · rename_i r hfind
      have := hm n1 n2 n3 r (find_some_mem hfind) (fuel+1) s h (Ext.refl s) hf
      rw [this]
      exact ⟨rfl, rfl, hm⟩
    · simp only [recDescend3] at hnew eall ⊢
      split
      · rename_i hb
        rw [if_pos hb] at hnew eall
        exact ⟨rfl, rfl, (hm.mono eall).cons hnew⟩
      · rename_i hb
        rw [if_neg hb] at hnew eall
        obtain ⟨⟨k11, k12⟩, ⟨k21, k22⟩, ⟨k31, k32⟩, l1, l2⟩ := kids3_ok h h1 h2 h3 rfl rfl rfl hb
        obtain ⟨w1, e1, m1⟩ := recDescend3_inv f fuel s _ _ _ h k11 k21 k31 (by omega)
        obtain ⟨i1, i2, i3⟩ := recDescend3M_eq f fuel s ht _ _ _ h k11 k21 k31 (by omega) hm
        generalize hMa : recDescend3M f fuel s ht (kids (s.dat n1) (br3 (s.dat n1) (s.dat n2) (s.dat n3)) n1).1
          (kids (s.dat n2) (br3 (s.dat n2) (s.dat n1) (s.dat n3)) n2).1
          (kids (s.dat n3) (br3 (s.dat n3) (s.dat n1) (s.dat n2)) n3).1 = Ma at *
        generalize hra : recDescend3 f fuel s (kids (s.dat n1) (br3 (s.dat n1) (s.dat n2) (s.dat n3)) n1).1
          (kids (s.dat n2) (br3 (s.dat n2) (s.dat n1) (s.dat n3)) n2).1
          (kids (s.dat n3) (br3 (s.dat n3) (s.dat n1) (s.dat n2)) n3).1 = ra at *
        obtain ⟨Ms, Mr, Mt⟩ := Ma
        simp only at i1 i2 i3
        subst i1 i2
        obtain ⟨w2, e2, m2⟩ := recDescend3_inv f fuel _ _ _ _ w1 (e1.ids _ k12) (e1.ids _ k22) (e1.ids _ k32) (by omega)
        obtain ⟨j1, j2, j3⟩ := recDescend3M_eq f fuel ra.1 Mt _ _ _ w1 (e1.ids _ k12) (e1.ids _ k22) (e1.ids _ k32)
          (by omega) i3
        generalize hMb : recDescend3M f fuel ra.1 Mt (kids (s.dat n1) (br3 (s.dat n1) (s.dat n2) (s.dat n3)) n1).2
          (kids (s.dat n2) (br3 (s.dat n2) (s.dat n1) (s.dat n3)) n2).2
          (kids (s.dat n3) (br3 (s.dat n3) (s.dat n1) (s.dat n2)) n3).2 = Mb at *
        generalize hrb : recDescend3 f fuel ra.1 (kids (s.dat n1) (br3 (s.dat n1) (s.dat n2) (s.dat n3)) n1).2
          (kids (s.dat n2) (br3 (s.dat n2) (s.dat n1) (s.dat n3)) n2).2
          (kids (s.dat n3) (br3 (s.dat n3) (s.dat n1) (s.dat n2)) n3).2 = rb at *
        obtain ⟨Ns, Nr, Nt⟩ := Mb
        simp only at j1 j2 j3
        subst j1 j2
        split
        · rename_i heq
          rw [if_pos heq] at hnew eall
          exact ⟨rfl, rfl, j3.cons hnew⟩
        · rename_i hne
          rw [if_neg hne] at hnew eall
          exact ⟨rfl, rfl, (j3.mono (spawnInternal_inv w2 (e2.ids _ m1) m2).2.1).cons hnew⟩

/-- **`apply3Memo_eq`**: the ternary apply as coded returns the same store as the memo-free one -/
theorem apply3Memo_eq (f : Nat → Nat → Nat → Nat) {s : Store} (hi : Inv s) (a b c dst : Nat) :
    apply3M f s a b c dst = apply3 f s a b c dst := by
  unfold apply3M apply3
  cases hfa : find a s.hs with
  | none => rfl
  | some ra =>
    cases hfb : find b s.hs with
    | none => rfl
    | some rb =>
      cases hfc : find c s.hs with
      | none => rfl
      | some rc =>
        cases hfd : find dst s.hs with
        | some _ => rfl
        | none =>
          have hra : ra ∈ s.ids := hi.1.rin ra (root_mem hfa)
          have hrb : rb ∈ s.ids := hi.1.rin rb (root_mem hfb)
          have hrc : rc ∈ s.ids := hi.1.rin rc (root_mem hfc)
          obtain ⟨e1, e2, _⟩ := recDescend3M_eq f (ra + rb + rc + 1) s [] ra rb rc hi.1 hra hrb hrc (Nat.lt_succ_self _)
            (fun _ _ _ _ h => by cases h)
          simp only [e1, e2]

/-! ## 4. a table that survives the call -/

namespace MemoEx

def fadd (x y : Nat) : Nat := x + y

/-- the constants 1 and 2 (handles 0, 1; nodes 0, 1) -/
def s₂ : Store := construct (construct empty 0 [] 1 1) 1 [] 2 2
/-- handle 2 = `apply(+)(0, 1)`: the leaf 3 is node 2; the table remembers `(0, 1) ↦ 2` -/
def r₃ : Store × Memo := apply2Keep fadd s₂ [] 0 1 2
/-- handle 2 dies: node 2 is released -/
def s₄ : Store := destroy r₃.1 2
/-- the constant 7 (handle 3): the allocator hands the address 2 out again -/
def s₅ : Store := constructLeafReuse s₄ 3 7
/-- the same apply again, with the table that survived -/
def r₆ : Store × Memo := apply2Keep fadd s₅ r₃.2 0 1 4
/-- … and without address re-use (ids are never re-used in `RcStore`): the constant 7 is node 3 -/
def s₅' : Store := construct s₄ 3 [] 7 7
def r₆' : Store × Memo := apply2Keep fadd s₅' r₃.2 0 1 4

def zeroAsgn : Nat → Bool := fun _ => false

end MemoEx

open MemoEx in
/-- **a memo table that survives across calls is wrong**: `1 + 2` is computed (node 2, remembered under the addresses `(0, 1)`),
the result dies, its address is re-used for the constant 7, and the surviving table answers the repeated `1 + 2` with the
node at that address: `7`.  The table cleared per call (`apply2M`) gives `3`.  Without address re-use the surviving table
hands out a node that is not allocated any more (a dangling pointer) -/
theorem memo_survives_wrong :
    r₃.2 = [((0, 1), 2)] ∧ s₄.freed = [2] ∧ find 3 s₅.hs = some 2 ∧
    getValue r₆.1 4 zeroAsgn = some 7 ∧ r₆.1.err = false ∧
    getValue (apply2M fadd s₅ 0 1 4) 4 zeroAsgn = some 3 ∧
    (find 4 r₆'.1.hs = some 2 ∧ 2 ∉ r₆'.1.ids) := by
  decide

-- non-vacuity of `apply2Memo_eq` / `apply1Memo_eq`: a history with shared sub-diagrams, where the table is hit
example : Inv (runF applyOp RefineEx.ops) := runF_inv _ _
-- the pair `(7, 7)` descends to `(2, 2)`, `(6, 6)`, which both reach the pair of leaves `(0, 0)`: six entries for seven calls
example : (recDescendM applyOp 20 (runF applyOp RefineEx.ops) [] 7 7).2.2.map (·.1) =
      [(7, 7), (6, 6), (3, 3), (2, 2), (0, 0), (1, 1)] ∧
    (recDescendM applyOp 20 (runF applyOp RefineEx.ops) [] 7 7).2.1 = (recDescend applyOp 20 (runF applyOp RefineEx.ops) 7 7).2 := by
  decide
example : apply2M applyOp (runF applyOp RefineEx.ops) 5 1 7 = runF applyOp (RefineEx.ops ++ [.apply 5 1 7]) :=
  apply2Memo_run applyOp RefineEx.ops 5 1 7
example : find 7 (apply3M (fun x y z => x + y + z) (runF applyOp RefineEx.ops) 5 1 6 7).hs = some 15 ∧
    find 7 (apply3 (fun x y z => x + y + z) (runF applyOp RefineEx.ops) 5 1 6 7).hs = some 15 := by decide
example : apply3M (fun x y z => x + y + z) (runF applyOp RefineEx.ops) 5 1 6 7 =
    apply3 (fun x y z => x + y + z) (runF applyOp RefineEx.ops) 5 1 6 7 := apply3Memo_eq _ (runF_inv _ _) 5 1 6 7
example : find 7 (apply1M (fun v => v % 2) (runF applyOp RefineEx.ops) 5 7).hs =
    find 7 (apply1 (fun v => v % 2) (runF applyOp RefineEx.ops) 5 7).hs :=
  congrArg (fun s => find 7 s.hs) (apply1Memo_eq _ (runF_inv _ _) 5 7)

-- the new store-level models of the unary and the ternary apply against the tree-level ones (`Vata/MtbddOps.lean`), evaluated:
-- the diagram of the result is `M.apply1` / `M.apply3` of the diagrams of the operands (roots 8, 2, 9 of the handles 5, 1, 6)
#guard diagram (apply3M (fun x y z => x + y + z) (runF applyOp RefineEx.ops) 5 1 6 7) 15 ==
  M.apply3 (fun x y z => x + y + z) (diagram (runF applyOp RefineEx.ops) 8) (diagram (runF applyOp RefineEx.ops) 2)
    (diagram (runF applyOp RefineEx.ops) 9)
#guard find 7 (apply1M (fun v => v % 2) (runF applyOp RefineEx.ops) 5 7).hs == some 11
#guard diagram (apply1M (fun v => v % 2) (runF applyOp RefineEx.ops) 5 7) 11 ==
  M.apply1 (fun v => v % 2) (diagram (runF applyOp RefineEx.ops) 8)
#guard diagram (apply1M (fun _ => 4) (runF applyOp RefineEx.ops) 5 7) 10 == .leaf 4

end Vata.RcS
