import Vata.Proofs.BddTrimCodedBU4
/-!
# The bottom-up symbolic trimming as coded: totality (property C08)

Fuel bounds: the work-list loop of `RemoveUnreachableStates` (and the first loop of `RemoveUselessStates`) pops every state
at most once, `leafCount T` (the number of state occurrences in the leaves visited) iterations suffice.
-/
namespace Vata
namespace BddTrimCoded
open M BddAbs BddAbsTD

/-- all states in the leaves visited -/
def allParents (T : Table) : List Nat := leafParents T.nullary ++ T.entries.flatMap (fun e => leafParents e.2)

/-- the fuel bound -/
def leafCount (T : Table) : Nat := (allParents T).length

/-- the measure: the work-list plus the states not yet reached -/
def muRW (U : List Nat) (s : List Nat × List Nat) : Nat := s.2.length + cntNot U s.1

theorem ins_length_le (x : Nat) (l : List Nat) : (ins x l).length ≤ l.length + 1 := by
  unfold ins; split <;> simp

theorem collectStep_mu (U : List Nat) (s : List Nat × List Nat) {q : Nat} (hq : q ∈ U) :
    muRW U (collectStep s q) ≤ muRW U s := by
  unfold collectStep muRW
  split
  · exact Nat.le_refl _
  · next h =>
    have h' : q ∉ s.1 := by simpa using h
    have := cntNot_add hq h'
    have := ins_length_le q s.2
    simp only
    omega

theorem collect_fold_mu (U : List Nat) : ∀ (L : List Nat) (s : List Nat × List Nat), (∀ q, q ∈ L → q ∈ U) →
    muRW U (L.foldl collectStep s) ≤ muRW U s
  | [], _, _ => Nat.le_refl _
  | q :: L, s, h => by
    simp only [List.foldl_cons]
    exact Nat.le_trans (collect_fold_mu U L _ (fun q' hq' => h q' (List.mem_cons_of_mem _ hq')))
      (collectStep_mu U s (h q List.mem_cons_self))

theorem leafParents_sub_all {T : Table} {e : List Nat × MT} (he : e ∈ T.entries) :
    ∀ q, q ∈ leafParents e.2 → q ∈ allParents T := by
  intro q hq
  exact List.mem_append.mpr (Or.inr (List.mem_flatMap.mpr ⟨e, he, hq⟩))

theorem scan_fold_mu (T : Table) (s : Nat) : ∀ (l : List (List Nat × MT)) (st : BuSt), (∀ e, e ∈ l → e ∈ T.entries) →
    (∀ e, e ∈ st.tuples → e ∈ T.entries) →
    muRW (allParents T) ((l.foldl (scanStep s) st).reach, (l.foldl (scanStep s) st).ws) ≤ muRW (allParents T) (st.reach, st.ws) ∧
    (∀ e, e ∈ (l.foldl (scanStep s) st).tuples → e ∈ T.entries)
  | [], _, _, h => ⟨Nat.le_refl _, h⟩
  | e :: l, st, hl, ht => by
    simp only [List.foldl_cons]
    have he := hl e List.mem_cons_self
    have step : muRW (allParents T) ((scanStep s st e).reach, (scanStep s st e).ws) ≤ muRW (allParents T) (st.reach, st.ws) ∧
        (∀ e', e' ∈ (scanStep s st e).tuples → e' ∈ T.entries) := by
      unfold scanStep
      split
      · exact ⟨collect_fold_mu _ _ _ (leafParents_sub_all he), ht⟩
      · refine ⟨Nat.le_refl _, fun e' he' => ?_⟩
        rcases List.mem_append.mp he' with h | h
        · exact ht e' h
        · rw [List.mem_singleton.mp h]; exact he
    obtain ⟨i1, i2⟩ := scan_fold_mu T s l (scanStep s st e) (fun e' he' => hl e' (List.mem_cons_of_mem _ he')) step.2
    exact ⟨Nat.le_trans i1 step.1, i2⟩

theorem buUnreachLoop_total (T : Table) : ∀ (fuel : Nat) (st : BuSt), (∀ e, e ∈ st.tuples → e ∈ T.entries) →
    muRW (allParents T) (st.reach, st.ws) ≤ fuel → ∃ st', buUnreachLoop fuel st = some st'
  | fuel, ⟨r, [], tu, R⟩, _, _ => ⟨⟨r, [], tu, R⟩, by cases fuel <;> simp [buUnreachLoop]⟩
  | 0, ⟨r, s :: ws, tu, R⟩, _, h => by simp [muRW] at h
  | fuel + 1, ⟨r, s :: ws, tu, R⟩, ht, h => by
    simp only [buUnreachLoop]
    obtain ⟨i1, i2⟩ := scan_fold_mu T s tu ⟨r, ws, [], R⟩ ht (fun _ h => nomatch h)
    refine buUnreachLoop_total T fuel _ i2 (Nat.le_trans i1 ?_)
    simp only [muRW, List.length_cons] at h ⊢
    omega

theorem buUnreachInit_mu (T : Table) :
    muRW (allParents T) ((buUnreachInit T).reach, (buUnreachInit T).ws) ≤ leafCount T := by
  have := collect_fold_mu (allParents T) (leafParents T.nullary) ([], [])
    (fun q hq => List.mem_append.mpr (Or.inl hq))
  refine Nat.le_trans this ?_
  simp only [muRW, List.length_nil, Nat.zero_add, cntNot, leafCount]
  exact List.countP_le_length

/-- **totality of `RemoveUnreachableStates` (bottom-up) as coded**: `leafCount T` iterations of the work-list loop suffice -/
theorem bu_unreach_coded_total (T : Table) (F : List Nat) {fuel : Nat} (h : leafCount T ≤ fuel) :
    ∃ R, buUnreachCoded T F fuel = some R := by
  obtain ⟨st, hst⟩ := buUnreachLoop_total T fuel (buUnreachInit T)
    (fun e he => (List.mem_filter.mp he).1) (Nat.le_trans (buUnreachInit_mu T) h)
  exact ⟨_, by unfold buUnreachCoded buUnreachSt; rw [hst]; rfl⟩

/-- the first loop of `RemoveUselessStates` terminates whenever the loop of `RemoveUnreachableStates` does -/
theorem buGLoop_total_of_sim : ∀ (fuel : Nat) (g : BuGSt) (b b' : BuSt), SimG g b → buUnreachLoop fuel b = some b' →
    ∃ g', buGLoop fuel g = some g'
  | fuel, ⟨r, [], tu, G, d⟩, _, _, _, _ => ⟨⟨r, [], tu, G, d⟩, by cases fuel <;> simp [buGLoop]⟩
  | 0, ⟨r, s :: ws, tu, G, d⟩, ⟨r', ws', tu', R⟩, b', h, e => by
    obtain ⟨h1, h2, h3⟩ := h
    simp only at h1 h2 h3
    subst h1 h2 h3
    simp [buUnreachLoop] at e
  | fuel + 1, ⟨r, s :: ws, tu, G, d⟩, ⟨r', ws', tu', R⟩, b', h, e => by
    obtain ⟨h1, h2, h3⟩ := h
    simp only at h1 h2 h3
    subst h1 h2 h3
    simp only [buUnreachLoop] at e
    simp only [buGLoop]
    exact buGLoop_total_of_sim fuel _ _ b'
      (scanG_fold_sim s tu (g := ⟨r, ws, [], G, d⟩) (b := ⟨r, ws, [], R⟩) ⟨rfl, rfl, rfl⟩) e

theorem buGLoop_total (T : Table) {fuel : Nat} (h : leafCount T ≤ fuel) : ∃ g, buGLoop fuel (buGInit T) = some g := by
  obtain ⟨st, hst⟩ := buUnreachLoop_total T fuel (buUnreachInit T)
    (fun e he => (List.mem_filter.mp he).1) (Nat.le_trans (buUnreachInit_mu T) h)
  exact buGLoop_total_of_sim fuel _ _ st (buGInit_sim T) hst

/-- `bu_unreach_coded_spec` and totality together -/
theorem bu_unreach_coded_spec_total {T : Table} (hT : TableOk T) (F : List Nat) :
    ∃ R, buUnreachCoded T F (leafCount T) = some R ∧
      (∀ ρ ks p, HasRule R.1 ρ ks p ↔ HasRule (removeUnreachableBU T F).1 ρ ks p) ∧ R.2 = (removeUnreachableBU T F).2 := by
  obtain ⟨R, hR⟩ := bu_unreach_coded_total T F (Nat.le_refl _)
  exact ⟨R, hR, bu_unreach_coded_spec hT F hR⟩

end BddTrimCoded
end Vata
