import Vata.Proofs.NfaOpsCodedIsectInv
/-!
# `Intersection` as coded refines the relation-level model: same set of pairs, product under the reported injective map
-/
namespace Vata.NfaC
open Vata.W

/-- the set of pairs the relation-level model `nfaIsect` explores -/
def nfaIsectPairs (A B : NFA) : List (Nat × Nat) :=
  nfaPairIter A B (nfaJointAll A B).length (nfaStartPairs A B).eraseDups

theorem nfaIsectPairs_closed (A B : NFA) : NfaPairClosed A B (nfaIsectPairs A B) :=
  nfaPairClosedB_iff.mp (nfaPairIter_closed A B _ _ (List.length_filter_le _ _))

theorem nfaIsectPairs_start (A B : NFA) (p : Nat × Nat) (hp : p ∈ nfaStartPairs A B) : p ∈ nfaIsectPairs A B :=
  sub_nfaPairIter A B _ _ p (List.mem_eraseDups.mpr hp)

theorem nfaPairIter_least (A B : NFA) (S : List (Nat × Nat)) (hc : NfaPairClosed A B S) :
    ∀ (n : Nat) (D : List (Nat × Nat)), (∀ p, p ∈ D → p ∈ S) → ∀ p, p ∈ nfaPairIter A B n D → p ∈ S
  | 0, _, h, p, hp => h p hp
  | n + 1, D, h, p, hp => by
    simp only [nfaPairIter] at hp
    split at hp
    · exact h p hp
    · refine nfaPairIter_least A B S hc n _ ?_ p hp
      intro q hq
      rcases List.mem_append.mp hq with hq | hq
      · exact h q hq
      · rw [List.mem_eraseDups, List.mem_filter] at hq
        obtain ⟨r, hr, a, h1, h2⟩ := mem_nfaPairSucc.mp hq.1
        exact hc r (h r hr) a q h1 h2

theorem nfaIsectPairs_least (A B : NFA) (S : List (Nat × Nat)) (hs : ∀ p, p ∈ nfaStartPairs A B → p ∈ S)
    (hc : NfaPairClosed A B S) : ∀ p, p ∈ nfaIsectPairs A B → p ∈ S :=
  nfaPairIter_least A B S hc _ _ (fun p hp => hs p (List.mem_eraseDups.mp hp))

theorem tmFind_of_mem_keys {tm : TranslMap} {p : Nat × Nat} (h : p ∈ tmKeys tm) : ∃ n, tmFind tm p = some n := by
  cases hf : tmFind tm p with
  | some n => exact ⟨n, rfl⟩
  | none => exact absurd h (tmFind_none_iff.mp hf)

theorem tmFun_of_find {tm : TranslMap} {p : Nat × Nat} {n : Nat} (h : tmFind tm p = some n) : tmFun tm p = n := by
  simp [tmFun, h]

/-- what the invariant says once the stack is empty -/
theorem isectInv_final {A B : NFA} {st : IsectSt} (inv : IsectInv A B st) (he : st.stack = []) :
    (∀ p, p ∈ nfaStartPairs A B → p ∈ tmKeys st.tm) ∧ NfaPairClosed A B (tmKeys st.tm) ∧
    NfaPairInjOn (tmFun st.tm) (tmKeys st.tm) ∧ (∀ p, p ∈ tmKeys st.tm ↔ p ∈ nfaIsectPairs A B) ∧
    NfaSetEq st.res.toNFA (nfaProdOn A B (tmKeys st.tm) (tmFun st.tm)) := by
  have hns : ∀ p : Nat × Nat, ∀ e, e ∈ st.stack → e.1 ≠ p := by
    intro p e h; rw [he] at h; exact nomatch h
  have hst : ∀ p, p ∈ nfaStartPairs A B → p ∈ tmKeys st.tm := by
    intro p hp
    obtain ⟨n, hn⟩ := inv.hstart p hp
    exact tmFind_mem_keys hn
  have hcl : NfaPairClosed A B (tmKeys st.tm) := by
    intro p hp a q h1 h2
    obtain ⟨n, hn⟩ := tmFind_of_mem_keys hp
    obtain ⟨k, hk, _⟩ := (inv.done p n hn (hns p)).1 (a, q) (mem_nfaJoint.mpr ⟨h1, h2⟩)
    exact tmFind_mem_keys hk
  have hinj : NfaPairInjOn (tmFun st.tm) (tmKeys st.tm) := by
    intro p hp q hq e
    obtain ⟨n, hn⟩ := tmFind_of_mem_keys hp
    obtain ⟨k, hk⟩ := tmFind_of_mem_keys hq
    rw [tmFun_of_find hn, tmFun_of_find hk] at e
    subst e
    exact tmFind_inj inv.wf hn hk
  refine ⟨hst, hcl, hinj, ?_, ?_, ?_, ?_⟩
  · intro p
    constructor
    · intro hp
      obtain ⟨n, hn⟩ := tmFind_of_mem_keys hp
      exact inv.least _ (nfaIsectPairs_start A B) (nfaIsectPairs_closed A B) p n hn
    · exact nfaIsectPairs_least A B _ hst hcl p
  · intro n
    rw [inv.sstart]
    simp only [nfaProdOn, List.mem_map]
    constructor
    · rintro ⟨p, hp, h⟩; exact ⟨p, hp, tmFun_of_find h⟩
    · rintro ⟨p, hp, h⟩
      obtain ⟨n', hn'⟩ := inv.hstart p hp
      rw [tmFun_of_find hn'] at h
      subst h
      exact ⟨p, hp, hn'⟩
  · intro n
    rw [mem_nfaProdOn_final]
    constructor
    · intro hn
      obtain ⟨p, hp, h1, h2⟩ := inv.fsound n hn
      exact ⟨p, tmFind_mem_keys hp, h1, h2, (tmFun_of_find hp).symm⟩
    · rintro ⟨p, hp, h1, h2, e⟩
      obtain ⟨n', hn'⟩ := tmFind_of_mem_keys hp
      rw [tmFun_of_find hn'] at e
      subst e
      exact (inv.done p n hn' (hns p)).2 h1 h2
  · rintro ⟨x, a, y⟩
    rw [mem_nfaProdOn_trans]
    constructor
    · intro ht
      obtain ⟨p, n, z, k, h1, h2, h3, h4⟩ := inv.tsound _ ht
      obtain ⟨j1, j2⟩ := mem_nfaJoint.mp h2
      simp only [Prod.mk.injEq] at h4
      obtain ⟨e1, e2, e3⟩ := h4
      subst e1; subst e2; subst e3
      exact ⟨p, tmFind_mem_keys h1, z.2, j1, j2, (tmFun_of_find h1).symm, (tmFun_of_find h3).symm⟩
    · rintro ⟨p, hp, q, j1, j2, e1, e2⟩
      obtain ⟨n, hn⟩ := tmFind_of_mem_keys hp
      obtain ⟨k, hk, ht⟩ := (inv.done p n hn (hns p)).1 (a, q) (mem_nfaJoint.mpr ⟨j1, j2⟩)
      rw [tmFun_of_find hn] at e1
      rw [tmFun_of_find hk] at e2
      subst e1; subst e2
      exact ht

/-- **refinement**: whatever the iteration orders, the stack loop of `Intersection` ends with a translation map that is
well-numbered (`number = position = size at insertion`), whose keys are exactly the pairs the relation-level model explores,
injective on them, and `res` is (as sets of start states, final states, transitions) the product on these pairs under that map -/
theorem nfasIsectCodedRaw_spec {o : NfaOrd} (ho : o.Ok) (A B : NFAS) (fuel : Nat) (st : IsectSt)
    (h : nfasIsectCodedRaw o .fixed A B fuel = some st) :
    st.stack = [] ∧ TmWF st.tm ∧ (∀ p, p ∈ tmKeys st.tm ↔ p ∈ nfaIsectPairs A.toNFA B.toNFA) ∧
    NfaPairInjOn (tmFun st.tm) (tmKeys st.tm) ∧
    NfaSetEq st.res.toNFA (nfaProdOn A.toNFA B.toNFA (tmKeys st.tm) (tmFun st.tm)) ∧
    ∀ w, acceptsW st.res.toNFA w = (acceptsW A.toNFA w && acceptsW B.toNFA w) := by
  obtain ⟨inv, he⟩ := isectLoop_inv ho A B fuel _ st (isectInit_inv ho A B) h
  obtain ⟨h1, h2, h3, h4, h5⟩ := isectInv_final inv he
  refine ⟨he, inv.wf, h4, h3, h5, fun w => ?_⟩
  rw [h5.lang w]
  exact nfaProd_cert _ _ _ _ w h1 h2 h3

/-- **totality**: `isectFuel` turns suffice -/
theorem nfasIsectCodedRaw_total {o : NfaOrd} (ho : o.Ok) (A B : NFAS) :
    ∃ st, nfasIsectCodedRaw o .fixed A B (isectFuel o .fixed A B) = some st := by
  apply isectLoop_total ho
  unfold isectFuel isectUnseen nfaPairOut
  exact Nat.add_le_add_left (List.length_filter_le _ _) _

end Vata.NfaC
