import Vata.CowHeapX
import Vata.Proofs.CowHeap3
/-!
# Final states, move, and operations that share storage on purpose (proofs for `Vata/CowHeapX.lean`)

Main results: `cowX_refines_values` (every `HOpX` keeps the reference-count invariant and acts on the handle values like
`specStepX`), `history_isolationX`, `history_invX`, `no_garbageX`, `specStepX_other`, `untouched_keeps_value`,
`extends_CowHeap3`.
-/
namespace Vata.CowHeapX

open Vata.Store (Cluster TupleSet upsert insN addToMap)
open Vata.CowHeap (upd upd_same upd_other HOp Val specStep)
open Vata.CowHeap3 (Heap allocMap retarget addHandle dropHandle releaseMap uniqueMap valM valC mout cout hout
  Lvl InvP Inv MapUnique abs)

variable {H : Heap}

/-! ### `insertEntries` -/

theorem mout_insertEntries (H : Heap) (m : Nat) (ins : List (Nat × Nat)) :
    mout (insertEntries H m ins) = upd (mout H) m (mout H m ++ ins.map Prod.snd) := by
  funext x
  by_cases e : x = m
  · subst e; simp [mout, insertEntries]
  · simp [mout, insertEntries, upd_other _ _ e]

theorem insertEntries_inv {pm pc pt : List Nat} {m : Nat} {ins : List (Nat × Nat)} (h : InvP H pm pc pt)
    (hm : m ∈ H.ml) (hins : ∀ c, c ∈ ins.map Prod.snd → c ∈ H.cl) : InvP (insertEntries H m ins) pm pc pt := by
  refine ⟨h.hm, ?_, h.ct⟩
  rw [mout_insertEntries]
  have h1 := h.mc.bump (ins.map Prod.snd) hins
  exact Lvl.setR (new := ins.map Prod.snd) h1 hm (mout H m ++ ins.map Prod.snd) []
    (by intro x; simp only [List.count_append, List.count_nil]; omega)

theorem abs_insertEntries {h : Nat} (hh : h ∈ H.hl) (hu : MapUnique H h) (ins : List (Nat × Nat)) :
    abs (insertEntries H (H.hmap h) ins) =
      upd (abs H) h (some (valM H (H.hmap h) ++ ins.map (fun kc => (kc.1, valC H kc.2)))) := by
  funext x
  by_cases hx : x ∈ H.hl
  · have hx' : x ∈ (insertEntries H (H.hmap h) ins).hl := hx
    rw [CowHeap3.abs_of_mem hx']
    by_cases e : x = h
    · subst e
      rw [upd_same]
      congr 1
      show ((upd H.ment (H.hmap x) (H.ment (H.hmap x) ++ ins)) (H.hmap x)).map _ = _
      rw [upd_same, List.map_append]
      rfl
    · rw [upd_other _ _ e, CowHeap3.abs_of_mem hx]
      congr 1
      show ((upd H.ment (H.hmap h) (H.ment (H.hmap h) ++ ins)) (H.hmap x)).map _ = _
      rw [upd_other _ _ (hu x hx e)]
      rfl
  · have hx' : x ∉ (insertEntries H (H.hmap h) ins).hl := hx
    have e : x ≠ h := fun e => hx (e ▸ hh)
    rw [CowHeap3.abs_of_not_mem hx', upd_other _ _ e, CowHeap3.abs_of_not_mem hx]

/-! ### `missing` -/

theorem lookup_map_isSome {β γ : Type} (f : β → γ) (k : Nat) (l : List (Nat × β)) :
    ((l.map (fun kc => (kc.1, f kc.2))).lookup k).isSome = (l.lookup k).isSome := by
  induction l with
  | nil => rfl
  | cons kc l ih =>
    obtain ⟨k0, v0⟩ := kc
    simp only [List.map_cons, List.lookup_cons]
    cases k == k0 <;> simp [ih]

theorem missing_map {β γ : Type} (f : β → γ) (acc l : List (Nat × β)) :
    (missing acc l).map (fun kc => (kc.1, f kc.2)) =
      missing (acc.map (fun kc => (kc.1, f kc.2))) (l.map (fun kc => (kc.1, f kc.2))) := by
  induction l generalizing acc with
  | nil => rfl
  | cons kc l ih =>
    simp only [missing, List.map_cons, lookup_map_isSome]
    split
    · exact ih acc
    · rw [List.map_cons, ih (acc ++ [kc]), List.map_append]
      rfl

theorem mem_missing {β : Type} {acc l : List (Nat × β)} {x : Nat × β} (h : x ∈ missing acc l) : x ∈ l := by
  induction l generalizing acc with
  | nil => simp [missing] at h
  | cons kc l ih =>
    simp only [missing] at h
    split at h
    · exact List.mem_cons_of_mem _ (ih h)
    · rcases List.mem_cons.mp h with e | h'
      · rw [e]; exact List.mem_cons_self
      · exact List.mem_cons_of_mem _ (ih h')

/-! ### `transitions_ = Ptr(new Map())` -/

theorem freshMap_spec (hI : Inv H) {h : Nat} (hh : h ∈ H.hl) :
    Inv (freshMap H h) ∧ abs (freshMap H h) = upd (abs H) h (some []) ∧ (freshMap H h).hl = H.hl ∧
      MapUnique (freshMap H h) h := by
  unfold freshMap
  have h1 : InvP (allocMap H []) [H.next] [] [] := CowHeap3.allocMap_inv hI [] (by intro c hc; simp at hc)
  have h2 := CowHeap3.retarget_inv (h := h) h1 hh
  have hfr := CowHeap3.releaseMap_same (retarget (allocMap H []) h H.next) (H.hmap h)
  refine ⟨CowHeap3.releaseMap_inv h2, ?_, hfr.hl, ?_⟩
  · rw [hfr.eqAbs, CowHeap3.abs_retarget (H := allocMap H []) H.next hh, CowHeap3.abs_allocMap hI,
      CowHeap3.valM_allocMap_next]
    rfl
  · intro x hx hne
    rw [hfr.hl] at hx
    rw [hfr.hmap]
    show upd H.hmap h H.next x ≠ upd H.hmap h H.next h
    rw [upd_same, upd_other _ _ hne]
    intro e
    exact hI.hm.fresh (e ▸ hI.hm.pt x hx _ (by simp [hout]))

/-! ### move -/

theorem moveCore_spec (hI : Inv H) {src dst : Nat} (hs : src ∈ H.hl) (hd : dst ∉ H.hl) :
    Inv (moveCore H src dst) ∧ abs (moveCore H src dst) = upd (upd (abs H) src none) dst (abs H src) := by
  unfold moveCore
  have h1 := CowHeap3.dropHandle_inv hI hs
  have hd' : dst ∉ (dropHandle H src).hl := fun hm => hd (List.mem_of_mem_erase hm)
  refine ⟨CowHeap3.addHandle_inv h1 hd', ?_⟩
  rw [CowHeap3.abs_addHandle, CowHeap3.abs_dropHandle hI.hm.rnd, CowHeap3.abs_of_mem hs]
  rfl

theorem moveAssignCore_spec (hI : Inv H) {src dst : Nat} (hs : src ∈ H.hl) (hd : dst ∈ H.hl) (hne : src ≠ dst) :
    Inv (moveAssignCore H src dst) ∧
      abs (moveAssignCore H src dst) = upd (upd (abs H) src none) dst (abs H src) := by
  unfold moveAssignCore
  have h1 := CowHeap3.dropHandle_inv hI hs
  have hd' : dst ∈ (dropHandle H src).hl := (List.mem_erase_of_ne (fun e => hne e.symm)).mpr hd
  have h2 := CowHeap3.retarget_inv (h := dst) h1 hd'
  refine ⟨CowHeap3.releaseMap_inv h2, ?_⟩
  rw [(CowHeap3.releaseMap_same _ _).eqAbs, CowHeap3.abs_retarget (H := dropHandle H src) _ hd',
    CowHeap3.abs_dropHandle hI.hm.rnd, CowHeap3.abs_of_mem hs]
  rfl

/-- a move does not touch any node: no allocation, no use count changes -/
theorem moveCore_nodes (H : Heap) (src dst : Nat) :
    (moveCore H src dst).ml = H.ml ∧ (moveCore H src dst).mrc = H.mrc ∧ (moveCore H src dst).ment = H.ment ∧
    (moveCore H src dst).cl = H.cl ∧ (moveCore H src dst).crc = H.crc ∧ (moveCore H src dst).cent = H.cent ∧
    (moveCore H src dst).tl = H.tl ∧ (moveCore H src dst).trc = H.trc ∧ (moveCore H src dst).tdat = H.tdat ∧
    (moveCore H src dst).next = H.next ∧ (moveCore H src dst).hmap dst = H.hmap src :=
  ⟨rfl, rfl, rfl, rfl, rfl, rfl, rfl, rfl, rfl, rfl, by simp [moveCore, addHandle, dropHandle]⟩

/-! ### the three sharing operations on the core heap -/

theorem abs_val {h : Nat} {v : Val} (e : abs H h = some v) : h ∈ H.hl ∧ valM H (H.hmap h) = v := by
  have hh : h ∈ H.hl := CowHeap3.abs_isSome.mp (by rw [e]; rfl)
  rw [CowHeap3.abs_of_mem hh] at e
  exact ⟨hh, Option.some.inj e⟩

theorem upd_upd_same {β : Type} (f : Nat → β) (k : Nat) (v w : β) : upd (upd f k v) k w = upd f k w := by
  funext x
  by_cases e : x = k
  · subst e; rw [upd_same, upd_same]
  · rw [upd_other _ _ e, upd_other _ _ e, upd_other _ _ e]

theorem upd_self {β : Type} (f : Nat → β) (k : Nat) : upd f k (f k) = f := by
  funext x
  by_cases e : x = k
  · subst e; rw [upd_same]
  · rw [upd_other _ _ e]

theorem step_new_dead (hI : Inv H) {dst : Nat} (hd : dst ∉ H.hl) :
    Inv (CowHeap3.step H (.new dst)) ∧ abs (CowHeap3.step H (.new dst)) = upd (abs H) dst (some []) := by
  obtain ⟨h1, h2⟩ := CowHeap3.cow3_refines_values hI (.new dst)
  refine ⟨h2, ?_⟩
  rw [h1]
  simp only [specStep]
  rw [if_neg (fun hs => hd (CowHeap3.abs_isSome.mp hs))]

theorem step_copy_live (hI : Inv H) {src dst : Nat} (hs : src ∈ H.hl) (hd : dst ∉ H.hl) :
    Inv (CowHeap3.step H (.copy src dst)) ∧ abs (CowHeap3.step H (.copy src dst)) = upd (abs H) dst (abs H src) := by
  obtain ⟨h1, h2⟩ := CowHeap3.cow3_refines_values hI (.copy src dst)
  refine ⟨h2, ?_⟩
  rw [h1]
  simp only [specStep]
  rw [if_pos ⟨CowHeap3.abs_isSome.mpr hs, CowHeap3.abs_isNone.mpr hd⟩]

theorem shareAllCore_spec (hI : Inv H) {src dst : Nat} (hs : src ∈ H.hl) (hd : dst ∉ H.hl) :
    Inv (shareAllCore H src dst) ∧ abs (shareAllCore H src dst) = upd (abs H) dst (abs H src) := by
  unfold shareAllCore
  obtain ⟨h1, h2⟩ := step_new_dead hI hd
  obtain ⟨h3, h4⟩ := CowHeap3.cow3_refines_values h1 (.assign src dst)
  refine ⟨h4, ?_⟩
  have hne : src ≠ dst := fun e => hd (e ▸ hs)
  rw [h3, h2]
  simp only [specStep]
  rw [if_pos ⟨by rw [upd_other _ _ hne]; exact CowHeap3.abs_isSome.mpr hs, by rw [upd_same]; rfl, hne⟩,
    upd_upd_same, upd_other _ _ hne]

theorem shareClustersCore_spec (hI : Inv H) {src dst : Nat} (hs : src ∈ H.hl) (hd : dst ∉ H.hl) (keep : Nat → Bool) :
    Inv (shareClustersCore H src dst keep) ∧
      abs (shareClustersCore H src dst keep) =
        upd (abs H) dst (some ((valM H (H.hmap src)).filter (fun kc => keep kc.1))) := by
  unfold shareClustersCore
  simp only
  have hne : src ≠ dst := fun e => hd (e ▸ hs)
  obtain ⟨h1, h2⟩ := step_new_dead hI hd
  have hd0 : dst ∈ (CowHeap3.step H (.new dst)).hl := (abs_val (v := []) (by rw [h2, upd_same])).1
  obtain ⟨g1, g2, g3, g4⟩ := freshMap_spec h1 hd0
  rw [h2, upd_upd_same] at g2
  generalize freshMap (CowHeap3.step H (.new dst)) dst = H1 at g1 g2 g3 g4
  have hdv := abs_val (H := H1) (h := dst) (v := []) (by rw [g2, upd_same])
  have hsv := abs_val (H := H1) (h := src) (v := valM H (H.hmap src))
    (by rw [g2, upd_other _ _ hne, CowHeap3.abs_of_mem hs])
  constructor
  · apply insertEntries_inv g1 (CowHeap3.hmap_mem g1 hdv.1)
    intro c hc
    obtain ⟨kc, hkc, e⟩ := List.mem_map.mp hc
    exact g1.mc.pt _ (CowHeap3.hmap_mem g1 hsv.1) c (List.mem_map.mpr ⟨kc, (List.mem_filter.mp hkc).1, e⟩)
  · rw [abs_insertEntries hdv.1 g4, g2, upd_upd_same, hdv.2, List.nil_append]
    congr 2
    rw [← hsv.2]
    show _ = List.filter _ ((H1.ment (H1.hmap src)).map _)
    rw [List.filter_map]
    rfl

theorem unionDisjCore_spec (hI : Inv H) {a b dst : Nat} (ha : a ∈ H.hl) (hb : b ∈ H.hl) (hd : dst ∉ H.hl) :
    Inv (unionDisjCore H a b dst) ∧
      abs (unionDisjCore H a b dst) =
        upd (abs H) dst (some (valM H (H.hmap a) ++ missing (valM H (H.hmap a)) (valM H (H.hmap b)))) := by
  unfold unionDisjCore
  simp only
  have hne : b ≠ dst := fun e => hd (e ▸ hb)
  obtain ⟨h1, h2⟩ := step_copy_live hI ha hd
  rw [CowHeap3.abs_of_mem ha] at h2
  have hd0 : dst ∈ (CowHeap3.step H (.copy a dst)).hl := (abs_val (by rw [h2, upd_same])).1
  obtain ⟨g1, g2, g3, g4⟩ := CowHeap3.uniqueMap_spec h1 hd0
  rw [h2] at g2
  generalize uniqueMap (CowHeap3.step H (.copy a dst)) dst = H1 at g1 g2 g3 g4
  have hdv := abs_val (H := H1) (h := dst) (v := valM H (H.hmap a)) (by rw [g2, upd_same])
  have hbv := abs_val (H := H1) (h := b) (v := valM H (H.hmap b))
    (by rw [g2, upd_other _ _ hne, CowHeap3.abs_of_mem hb])
  constructor
  · apply insertEntries_inv g1 (CowHeap3.hmap_mem g1 hdv.1)
    intro c hc
    obtain ⟨kc, hkc, e⟩ := List.mem_map.mp hc
    exact g1.mc.pt _ (CowHeap3.hmap_mem g1 hbv.1) c (List.mem_map.mpr ⟨kc, mem_missing hkc, e⟩)
  · rw [abs_insertEntries hdv.1 g4, g2, upd_upd_same, missing_map (valC H1)]
    show upd (abs H) dst (some (valM H1 (H1.hmap dst) ++ missing (valM H1 (H1.hmap dst)) (valM H1 (H1.hmap b)))) = _
    rw [hdv.2, hbv.2]

/-! ### handles with final sets -/

/-- the reference-count invariant of the shared part (the final sets are plain values: nothing to maintain) -/
def InvX (H : HeapX) : Prop := Inv H.core

theorem invX_init : InvX initX := CowHeap3.inv_init

theorem invBX_iff (H : HeapX) : invBX H = true ↔ InvX H := CowHeap3.invB_iff H.core

theorem absX_eq (H : HeapX) (x : Nat) : absX H x = (abs H.core x).map (fun v => ⟨v, H.fin x⟩) := by
  by_cases hx : x ∈ H.core.hl <;> simp [absX, abs, hx]

theorem absX_of_mem {H : HeapX} {x : Nat} (hx : x ∈ H.core.hl) :
    absX H x = some ⟨valM H.core (H.core.hmap x), H.fin x⟩ := by simp [absX, hx]
theorem absX_of_not_mem {H : HeapX} {x : Nat} (hx : x ∉ H.core.hl) : absX H x = none := by simp [absX, hx]
theorem absX_isSome {H : HeapX} {x : Nat} : (absX H x).isSome = true ↔ x ∈ H.core.hl := by
  by_cases hx : x ∈ H.core.hl <;> simp [absX, hx]
theorem absX_isNone {H : HeapX} {x : Nat} : (absX H x).isNone = true ↔ x ∉ H.core.hl := by
  by_cases hx : x ∈ H.core.hl <;> simp [absX, hx]

theorem absX_clusters (H : HeapX) (x : Nat) : (absX H x).map (·.clusters) = abs H.core x := by
  by_cases hx : x ∈ H.core.hl <;> simp [absX, abs, hx]

theorem absX_init : absX initX = specInitX := by
  funext x
  simp [absX, initX, CowHeap3.init, specInitX]

/-- the shared part changes the value of `d`, the final set of `d` is set to `f` -/
theorem absX_upd_some {HX : HeapX} {core' : Heap} {d : Nat} {v : Val} (f : List Nat)
    (hc : abs core' = upd (abs HX.core) d (some v)) :
    absX ⟨core', upd HX.fin d f⟩ = upd (absX HX) d (some ⟨v, f⟩) := by
  funext x
  rw [absX_eq]
  by_cases e : x = d
  · subst e
    simp only [hc, upd_same, Option.map_some]
  · simp only [hc, upd_other _ _ e]
    rw [absX_eq]

theorem absX_upd_none {HX : HeapX} {core' : Heap} {d : Nat} (hc : abs core' = upd (abs HX.core) d none) :
    absX ⟨core', HX.fin⟩ = upd (absX HX) d none := by
  funext x
  rw [absX_eq]
  by_cases e : x = d
  · subst e
    simp only [hc, upd_same, Option.map_none]
  · simp only [hc, upd_other _ _ e]
    rw [absX_eq]

theorem absX_same {HX : HeapX} {core' : Heap} (hc : abs core' = abs HX.core) : absX ⟨core', HX.fin⟩ = absX HX := by
  funext x
  rw [absX_eq, absX_eq, hc]

theorem upd_absX_self {HX : HeapX} {h : Nat} (hh : h ∈ HX.core.hl) :
    upd (abs HX.core) h (some (valM HX.core (HX.core.hmap h))) = abs HX.core := CowHeap3.upd_abs_self hh

variable {HX : HeapX}

/-- the guards of the specification are the guards of the model -/
theorem live_dead {src dst : Nat} :
    ((absX HX src).isSome = true ∧ (absX HX dst).isNone = true) ↔ (src ∈ HX.core.hl ∧ dst ∉ HX.core.hl) := by
  rw [absX_isSome, absX_isNone]

theorem live_live {src dst : Nat} :
    ((absX HX src).isSome = true ∧ (absX HX dst).isSome = true ∧ src ≠ dst) ↔
      (src ∈ HX.core.hl ∧ dst ∈ HX.core.hl ∧ src ≠ dst) := by
  rw [absX_isSome, absX_isSome]

/-! ### one theorem per operation -/

theorem stepX_new (hI : InvX HX) (h : Nat) :
    absX (stepX HX (.new h)) = specStepX (absX HX) (.new h) ∧ InvX (stepX HX (.new h)) := by
  refine ⟨?_, (CowHeap3.cow3_refines_values hI (.new h)).2⟩
  simp only [stepX, specStepX]
  by_cases hh : h ∈ HX.core.hl
  · rw [if_pos hh, if_pos (absX_isSome.mpr hh)]
    apply absX_same
    simp only [CowHeap3.step, if_pos hh]
  · rw [if_neg hh, if_neg (fun hs => hh (absX_isSome.mp hs))]
    exact absX_upd_some [] (step_new_dead hI hh).2

theorem stepX_copy (hI : InvX HX) (src dst : Nat) (ct cf : Bool) :
    absX (stepX HX (.copy src dst ct cf)) = specStepX (absX HX) (.copy src dst ct cf) ∧
      InvX (stepX HX (.copy src dst ct cf)) := by
  simp only [stepX, specStepX]
  by_cases hc : src ∈ HX.core.hl ∧ dst ∉ HX.core.hl
  · rw [if_pos hc, if_pos (live_dead.mpr hc), absX_of_mem hc.1]
    cases ct
    · obtain ⟨h1, h2⟩ := step_new_dead hI hc.2
      exact ⟨absX_upd_some _ h2, h1⟩
    · obtain ⟨h1, h2⟩ := step_copy_live hI hc.1 hc.2
      rw [CowHeap3.abs_of_mem hc.1] at h2
      exact ⟨absX_upd_some _ h2, h1⟩
  · rw [if_neg hc, if_neg (fun hs => hc (live_dead.mp hs))]
    exact ⟨rfl, hI⟩

theorem stepX_assign (hI : InvX HX) (src dst : Nat) :
    absX (stepX HX (.assign src dst)) = specStepX (absX HX) (.assign src dst) ∧ InvX (stepX HX (.assign src dst)) := by
  obtain ⟨h1, h2⟩ := CowHeap3.cow3_refines_values hI (.assign src dst)
  refine ⟨?_, h2⟩
  simp only [stepX, specStepX]
  simp only [specStep] at h1
  by_cases hc : src ∈ HX.core.hl ∧ dst ∈ HX.core.hl ∧ src ≠ dst
  · rw [if_pos hc, if_pos (live_live.mpr hc), absX_of_mem hc.1]
    rw [if_pos ⟨CowHeap3.abs_isSome.mpr hc.1, CowHeap3.abs_isSome.mpr hc.2.1, hc.2.2⟩, CowHeap3.abs_of_mem hc.1] at h1
    exact absX_upd_some _ h1
  · rw [if_neg hc, if_neg (fun hs => hc (live_live.mp hs))]
    rw [if_neg (fun hs => hc ⟨CowHeap3.abs_isSome.mp hs.1, CowHeap3.abs_isSome.mp hs.2.1, hs.2.2⟩)] at h1
    exact absX_same h1

theorem stepX_move (hI : InvX HX) (src dst : Nat) :
    absX (stepX HX (.move src dst)) = specStepX (absX HX) (.move src dst) ∧ InvX (stepX HX (.move src dst)) := by
  simp only [stepX, specStepX]
  by_cases hc : src ∈ HX.core.hl ∧ dst ∉ HX.core.hl
  · rw [if_pos hc, if_pos (live_dead.mpr hc), absX_of_mem hc.1]
    obtain ⟨h1, h2⟩ := moveCore_spec hI hc.1 hc.2
    refine ⟨?_, h1⟩
    rw [CowHeap3.abs_of_mem hc.1] at h2
    have h3 : absX ⟨dropHandle HX.core src, HX.fin⟩ = upd (absX HX) src none :=
      absX_upd_none (CowHeap3.abs_dropHandle hI.hm.rnd src)
    rw [← h3]
    apply absX_upd_some (HX := ⟨dropHandle HX.core src, HX.fin⟩)
    rw [h2, CowHeap3.abs_dropHandle hI.hm.rnd src]
  · rw [if_neg hc, if_neg (fun hs => hc (live_dead.mp hs))]
    exact ⟨rfl, hI⟩

theorem stepX_moveAssign (hI : InvX HX) (src dst : Nat) :
    absX (stepX HX (.moveAssign src dst)) = specStepX (absX HX) (.moveAssign src dst) ∧
      InvX (stepX HX (.moveAssign src dst)) := by
  simp only [stepX, specStepX]
  by_cases hc : src ∈ HX.core.hl ∧ dst ∈ HX.core.hl ∧ src ≠ dst
  · rw [if_pos hc, if_pos (live_live.mpr hc), absX_of_mem hc.1]
    obtain ⟨h1, h2⟩ := moveAssignCore_spec hI hc.1 hc.2.1 hc.2.2
    refine ⟨?_, h1⟩
    rw [CowHeap3.abs_of_mem hc.1] at h2
    have h3 : absX ⟨dropHandle HX.core src, HX.fin⟩ = upd (absX HX) src none :=
      absX_upd_none (CowHeap3.abs_dropHandle hI.hm.rnd src)
    rw [← h3]
    apply absX_upd_some (HX := ⟨dropHandle HX.core src, HX.fin⟩)
    rw [h2, CowHeap3.abs_dropHandle hI.hm.rnd src]
  · rw [if_neg hc, if_neg (fun hs => hc (live_live.mp hs))]
    exact ⟨rfl, hI⟩

theorem stepX_add (hI : InvX HX) (h q : Nat) (v : Nat × List Nat) :
    absX (stepX HX (.add h q v)) = specStepX (absX HX) (.add h q v) ∧ InvX (stepX HX (.add h q v)) := by
  obtain ⟨h1, h2⟩ := CowHeap3.cow3_refines_values hI (.add h q v)
  refine ⟨?_, h2⟩
  simp only [stepX, specStepX]
  simp only [specStep] at h1
  by_cases hh : h ∈ HX.core.hl
  · rw [absX_of_mem hh]
    rw [CowHeap3.abs_of_mem hh] at h1
    simp only at h1 ⊢
    have := absX_upd_some (HX := HX) (HX.fin h) h1
    rw [upd_self] at this
    exact this
  · rw [absX_of_not_mem hh]
    rw [CowHeap3.abs_of_not_mem hh] at h1
    exact absX_same h1

/-- an operation on the final set alone -/
theorem fin_only {h : Nat} (hh : h ∈ HX.core.hl) (f : List Nat) :
    absX ⟨HX.core, upd HX.fin h f⟩ = upd (absX HX) h (some ⟨valM HX.core (HX.core.hmap h), f⟩) :=
  absX_upd_some f (upd_absX_self hh).symm

theorem stepX_setFinal (hI : InvX HX) (h q : Nat) :
    absX (stepX HX (.setFinal h q)) = specStepX (absX HX) (.setFinal h q) ∧ InvX (stepX HX (.setFinal h q)) := by
  simp only [stepX, specStepX]
  by_cases hh : h ∈ HX.core.hl
  · rw [if_pos hh, absX_of_mem hh]
    exact ⟨fin_only hh _, hI⟩
  · rw [if_neg hh, absX_of_not_mem hh]
    exact ⟨rfl, hI⟩

theorem stepX_setFinals (hI : InvX HX) (h : Nat) (qs : List Nat) :
    absX (stepX HX (.setFinals h qs)) = specStepX (absX HX) (.setFinals h qs) ∧
      InvX (stepX HX (.setFinals h qs)) := by
  simp only [stepX, specStepX]
  by_cases hh : h ∈ HX.core.hl
  · rw [if_pos hh, absX_of_mem hh]
    exact ⟨fin_only hh _, hI⟩
  · rw [if_neg hh, absX_of_not_mem hh]
    exact ⟨rfl, hI⟩

theorem stepX_eraseFinal (hI : InvX HX) (h : Nat) :
    absX (stepX HX (.eraseFinal h)) = specStepX (absX HX) (.eraseFinal h) ∧ InvX (stepX HX (.eraseFinal h)) := by
  simp only [stepX, specStepX]
  by_cases hh : h ∈ HX.core.hl
  · rw [if_pos hh, absX_of_mem hh]
    exact ⟨fin_only hh _, hI⟩
  · rw [if_neg hh, absX_of_not_mem hh]
    exact ⟨rfl, hI⟩

theorem stepX_clear (hI : InvX HX) (h : Nat) :
    absX (stepX HX (.clear h)) = specStepX (absX HX) (.clear h) ∧ InvX (stepX HX (.clear h)) := by
  obtain ⟨h1, h2⟩ := CowHeap3.cow3_refines_values hI (.clear h)
  refine ⟨?_, h2⟩
  simp only [stepX, specStepX]
  simp only [specStep] at h1
  by_cases hh : h ∈ HX.core.hl
  · rw [if_pos hh, absX_of_mem hh]
    rw [if_pos (CowHeap3.abs_isSome.mpr hh)] at h1
    exact absX_upd_some [] h1
  · rw [if_neg hh, absX_of_not_mem hh]
    rw [if_neg (fun hs => hh (CowHeap3.abs_isSome.mp hs))] at h1
    exact absX_same h1

theorem stepX_destroy (hI : InvX HX) (h : Nat) :
    absX (stepX HX (.destroy h)) = specStepX (absX HX) (.destroy h) ∧ InvX (stepX HX (.destroy h)) := by
  obtain ⟨h1, h2⟩ := CowHeap3.cow3_refines_values hI (.destroy h)
  exact ⟨absX_upd_none h1, h2⟩

theorem stepX_shareAll (hI : InvX HX) (src dst : Nat) (keepF : Nat → Bool) :
    absX (stepX HX (.shareAll src dst keepF)) = specStepX (absX HX) (.shareAll src dst keepF) ∧
      InvX (stepX HX (.shareAll src dst keepF)) := by
  simp only [stepX, specStepX]
  by_cases hc : src ∈ HX.core.hl ∧ dst ∉ HX.core.hl
  · rw [if_pos hc, if_pos (live_dead.mpr hc), absX_of_mem hc.1]
    obtain ⟨h1, h2⟩ := shareAllCore_spec hI hc.1 hc.2
    rw [CowHeap3.abs_of_mem hc.1] at h2
    exact ⟨absX_upd_some _ h2, h1⟩
  · rw [if_neg hc, if_neg (fun hs => hc (live_dead.mp hs))]
    exact ⟨rfl, hI⟩

theorem stepX_shareClusters (hI : InvX HX) (src dst : Nat) (keep : Nat → Bool) :
    absX (stepX HX (.shareClusters src dst keep)) = specStepX (absX HX) (.shareClusters src dst keep) ∧
      InvX (stepX HX (.shareClusters src dst keep)) := by
  simp only [stepX, specStepX]
  by_cases hc : src ∈ HX.core.hl ∧ dst ∉ HX.core.hl
  · rw [if_pos hc, if_pos (live_dead.mpr hc), absX_of_mem hc.1]
    obtain ⟨h1, h2⟩ := shareClustersCore_spec hI hc.1 hc.2 keep
    exact ⟨absX_upd_some _ h2, h1⟩
  · rw [if_neg hc, if_neg (fun hs => hc (live_dead.mp hs))]
    exact ⟨rfl, hI⟩

theorem stepX_unionDisj (hI : InvX HX) (a b dst : Nat) :
    absX (stepX HX (.unionDisj a b dst)) = specStepX (absX HX) (.unionDisj a b dst) ∧
      InvX (stepX HX (.unionDisj a b dst)) := by
  simp only [stepX, specStepX]
  by_cases hc : a ∈ HX.core.hl ∧ b ∈ HX.core.hl ∧ dst ∉ HX.core.hl
  · rw [if_pos hc, absX_of_mem hc.1, absX_of_mem hc.2.1]
    simp only
    rw [if_pos (absX_isNone.mpr hc.2.2)]
    obtain ⟨h1, h2⟩ := unionDisjCore_spec hI hc.1 hc.2.1 hc.2.2
    exact ⟨absX_upd_some _ h2, h1⟩
  · rw [if_neg hc]
    refine ⟨?_, hI⟩
    by_cases ha : a ∈ HX.core.hl
    · by_cases hb : b ∈ HX.core.hl
      · have hd : ¬ (absX HX dst).isNone = true := fun hs => hc ⟨ha, hb, absX_isNone.mp hs⟩
        rw [absX_of_mem ha, absX_of_mem hb]
        simp only
        rw [if_neg hd]
      · rw [absX_of_mem ha, absX_of_not_mem hb]
    · rw [absX_of_not_mem ha]

/-! ### main theorems -/

/-- every operation (final states, selective copy, move, move assignment, the three sharing operations and the old ones)
    keeps the reference-count invariant at all three levels and acts on the handle values exactly like the value-level
    specification -/
theorem cowX_refines_values (hI : InvX HX) (op : HOpX) :
    absX (stepX HX op) = specStepX (absX HX) op ∧ InvX (stepX HX op) := by
  cases op with
  | new h => exact stepX_new hI h
  | copy src dst ct cf => exact stepX_copy hI src dst ct cf
  | assign src dst => exact stepX_assign hI src dst
  | move src dst => exact stepX_move hI src dst
  | moveAssign src dst => exact stepX_moveAssign hI src dst
  | add h q v => exact stepX_add hI h q v
  | setFinal h q => exact stepX_setFinal hI h q
  | setFinals h qs => exact stepX_setFinals hI h qs
  | eraseFinal h => exact stepX_eraseFinal hI h
  | clear h => exact stepX_clear hI h
  | destroy h => exact stepX_destroy hI h
  | shareAll src dst keepF => exact stepX_shareAll hI src dst keepF
  | shareClusters src dst keep => exact stepX_shareClusters hI src dst keep
  | unionDisj a b dst => exact stepX_unionDisj hI a b dst

/-- the invariant (use count = number of handles / parent entries pointing to the node, at all three levels) is preserved
    by every operation -/
theorem invX_step (hI : InvX HX) (op : HOpX) : InvX (stepX HX op) := (cowX_refines_values hI op).2

theorem history_refinesX (hI : InvX HX) (ops : List HOpX) :
    absX (ops.foldl stepX HX) = ops.foldl specStepX (absX HX) ∧ InvX (ops.foldl stepX HX) := by
  induction ops generalizing HX with
  | nil => exact ⟨rfl, hI⟩
  | cons op ops ih =>
    obtain ⟨h1, h2⟩ := cowX_refines_values hI op
    obtain ⟨h3, h4⟩ := ih h2
    exact ⟨by rw [List.foldl_cons, List.foldl_cons, h3, h1], h4⟩

/-- for every operation history the handles behave as independent values -/
theorem history_isolationX (ops : List HOpX) : absX (ops.foldl stepX initX) = ops.foldl specStepX specInitX := by
  rw [(history_refinesX invX_init ops).1, absX_init]

theorem history_invX (ops : List HOpX) : InvX (ops.foldl stepX initX) := (history_refinesX invX_init ops).2

/-- no garbage: when the last handle is gone every node of every level has been freed -/
theorem no_garbageX (hI : InvX HX) (hl : HX.core.hl = []) : HX.core.ml = [] ∧ HX.core.cl = [] ∧ HX.core.tl = [] :=
  CowHeap3.no_garbage3 hI hl

/-! ### nobody else changes -/

/-- read off the specification: an operation changes only the values of its `targets` -/
theorem specStepX_other (a : Nat → Option ValX) (op : HOpX) (x : Nat) (hx : x ∉ targets op) :
    specStepX a op x = a x := by
  cases op with
  | new h =>
    have e : x ≠ h := by simpa [targets] using hx
    simp only [specStepX]; split <;> simp [upd_other _ _ e]
  | copy src dst ct cf =>
    have e : x ≠ dst := by simpa [targets] using hx
    simp only [specStepX]; split <;> simp [upd_other _ _ e]
  | assign src dst =>
    have e : x ≠ dst := by simpa [targets] using hx
    simp only [specStepX]; split <;> simp [upd_other _ _ e]
  | move src dst =>
    have e : x ≠ src ∧ x ≠ dst := by simpa [targets] using hx
    simp only [specStepX]; split <;> simp [upd_other _ _ e.1, upd_other _ _ e.2]
  | moveAssign src dst =>
    have e : x ≠ src ∧ x ≠ dst := by simpa [targets] using hx
    simp only [specStepX]; split <;> simp [upd_other _ _ e.1, upd_other _ _ e.2]
  | add h q v =>
    have e : x ≠ h := by simpa [targets] using hx
    simp only [specStepX]
    cases a h with
    | none => rfl
    | some y => simp only; rw [upd_other _ _ e]
  | setFinal h q =>
    have e : x ≠ h := by simpa [targets] using hx
    simp only [specStepX]
    cases a h with
    | none => rfl
    | some y => simp only; rw [upd_other _ _ e]
  | setFinals h qs =>
    have e : x ≠ h := by simpa [targets] using hx
    simp only [specStepX]
    cases a h with
    | none => rfl
    | some y => simp only; rw [upd_other _ _ e]
  | eraseFinal h =>
    have e : x ≠ h := by simpa [targets] using hx
    simp only [specStepX]
    cases a h with
    | none => rfl
    | some y => simp only; rw [upd_other _ _ e]
  | clear h =>
    have e : x ≠ h := by simpa [targets] using hx
    simp only [specStepX]
    cases a h with
    | none => rfl
    | some y => simp only; rw [upd_other _ _ e]
  | destroy h =>
    have e : x ≠ h := by simpa [targets] using hx
    simp only [specStepX]; simp [upd_other _ _ e]
  | shareAll src dst keepF =>
    have e : x ≠ dst := by simpa [targets] using hx
    simp only [specStepX]; split <;> simp [upd_other _ _ e]
  | shareClusters src dst keep =>
    have e : x ≠ dst := by simpa [targets] using hx
    simp only [specStepX]; split <;> simp [upd_other _ _ e]
  | unionDisj p q dst =>
    have e : x ≠ dst := by simpa [targets] using hx
    simp only [specStepX]
    cases a p with
    | none => rfl
    | some s =>
      cases a q with
      | none => rfl
      | some t => simp only; split <;> simp [upd_other _ _ e]

/-- on the heap: the value read through a handle that is not a target of the operation stays the same -/
theorem stepX_other (hI : InvX HX) (op : HOpX) (x : Nat) (hx : x ∉ targets op) :
    absX (stepX HX op) x = absX HX x := by
  rw [(cowX_refines_values hI op).1]
  exact specStepX_other _ op x hx

/-- a handle that is never a target keeps its value through any sequence of operations – whatever happens to the handles
    it shares storage with (in particular to the operands it was computed from) -/
theorem untouched_keeps_value (hI : InvX HX) (ops : List HOpX) (x : Nat) (hx : ∀ op, op ∈ ops → x ∉ targets op) :
    absX (ops.foldl stepX HX) x = absX HX x := by
  induction ops generalizing HX with
  | nil => rfl
  | cons op ops ih =>
    rw [List.foldl_cons, ih (invX_step hI op) (fun o ho => hx o (List.mem_cons_of_mem _ ho)),
      stepX_other hI op x (hx op List.mem_cons_self)]

/-- `ReindexStates(dst, …)` (hence `Union`) writes into `dst` only -/
theorem reindexOps_targets (s : ValX) (dst : Nat) (idx : Nat → Nat) (addFinal : Bool) (op : HOpX)
    (hop : op ∈ reindexOps s dst idx addFinal) : targets op = [dst] := by
  unfold reindexOps at hop
  rcases List.mem_append.mp hop with h | h
  · split at h
    · obtain ⟨q, _, e⟩ := List.mem_map.mp h
      rw [← e]; rfl
    · simp at h
  · obtain ⟨r, _, e⟩ := List.mem_map.mp h
    rw [← e]; rfl

theorem reindexOps_other (hI : InvX HX) (s : ValX) (dst : Nat) (idx : Nat → Nat) (addFinal : Bool) (x : Nat)
    (hx : x ≠ dst) : absX ((reindexOps s dst idx addFinal).foldl stepX HX) x = absX HX x := by
  apply untouched_keeps_value hI
  intro op hop
  rw [reindexOps_targets s dst idx addFinal op hop]
  simpa using hx

/-! ### the model extends `Vata/CowHeap3.lean` -/

theorem core_ofHOp (HX : HeapX) (op : HOp) : (stepX HX (ofHOp op)).core = CowHeap3.step HX.core op := by
  cases op with
  | new h => rfl
  | copy src dst =>
    simp only [ofHOp, stepX]
    by_cases hc : src ∈ HX.core.hl ∧ dst ∉ HX.core.hl
    · rw [if_pos hc]; rfl
    · rw [if_neg hc]; simp only [CowHeap3.step, if_neg hc]
  | assign src dst => rfl
  | add h q v => rfl
  | clear h => rfl
  | destroy h => rfl

theorem core_history_ofHOp (HX : HeapX) (ops : List HOp) :
    ((ops.map ofHOp).foldl stepX HX).core = ops.foldl CowHeap3.step HX.core := by
  induction ops generalizing HX with
  | nil => rfl
  | cons op ops ih => rw [List.map_cons, List.foldl_cons, List.foldl_cons, ih, core_ofHOp]

/-- on the operations of the smaller model the shared part of the heap is the heap of `Vata/CowHeap3.lean`, and the rule
    containers read through the handles are the same -/
theorem extends_CowHeap3 (ops : List HOp) (x : Nat) :
    ((ops.map ofHOp).foldl stepX initX).core = ops.foldl CowHeap3.step CowHeap3.init ∧
    (absX ((ops.map ofHOp).foldl stepX initX) x).map (·.clusters) = abs (ops.foldl CowHeap3.step CowHeap3.init) x := by
  have h := core_history_ofHOp initX ops
  refine ⟨h, ?_⟩
  rw [absX_clusters, h]
  rfl

/-! ### the value of `UnionDisjointStates` when the state sets are disjoint (what the C++ `assert`s) -/

theorem missing_of_disjoint {β : Type} (acc l : List (Nat × β)) (hnd : (l.map Prod.fst).Nodup)
    (hdis : ∀ kc, kc ∈ l → acc.lookup kc.1 = none) : missing acc l = l := by
  induction l generalizing acc with
  | nil => rfl
  | cons kc l ih =>
    rw [List.map_cons, List.nodup_cons] at hnd
    simp only [missing, hdis kc List.mem_cons_self, Option.isSome_none, Bool.false_eq_true, if_false]
    congr 1
    apply ih _ hnd.2
    intro kc' hkc'
    rw [List.lookup_append, hdis kc' (List.mem_cons_of_mem _ hkc')]
    have hne : kc'.1 ≠ kc.1 := fun e => hnd.1 (e ▸ List.mem_map.mpr ⟨kc', hkc', rfl⟩)
    simp [hne]

theorem unionStore_of_disjoint (s t : ValX) (hnd : (t.clusters.map Prod.fst).Nodup)
    (hdis : ∀ kc, kc ∈ t.clusters → s.clusters.lookup kc.1 = none) :
    unionStore s t = ⟨s.clusters ++ t.clusters, (Store.setFinals s t.final).final⟩ := by
  unfold unionStore
  rw [missing_of_disjoint _ _ hnd hdis]

/-! ### what the new object holds (read off the specification) -/

theorem copy_value (hI : InvX HX) {src dst : Nat} {s : ValX} (hs : absX HX src = some s) (hd : absX HX dst = none)
    (ct cf : Bool) :
    absX (stepX HX (.copy src dst ct cf)) dst =
      some ⟨if ct then s.clusters else [], if cf then s.final else []⟩ := by
  rw [(cowX_refines_values hI _).1]
  simp only [specStepX]
  rw [if_pos (show (absX HX src).isSome = true ∧ (absX HX dst).isNone = true from ⟨by rw [hs]; rfl, by rw [hd]; rfl⟩),
    upd_same, hs]
  rfl

/-- the move constructor: `dst` holds what `src` held, `src` is gone -/
theorem move_value (hI : InvX HX) {src dst : Nat} {s : ValX} (hs : absX HX src = some s) (hd : absX HX dst = none) :
    absX (stepX HX (.move src dst)) dst = some s ∧ absX (stepX HX (.move src dst)) src = none := by
  have hne : src ≠ dst := by intro e; rw [e, hd] at hs; cases hs
  rw [(cowX_refines_values hI _).1]
  simp only [specStepX]
  rw [if_pos (show (absX HX src).isSome = true ∧ (absX HX dst).isNone = true from ⟨by rw [hs]; rfl, by rw [hd]; rfl⟩),
    upd_same, upd_other _ _ hne, upd_same]
  exact ⟨hs, rfl⟩

/-- move assignment: `dst` holds what `src` held (its old value is released), `src` is gone -/
theorem moveAssign_value (hI : InvX HX) {src dst : Nat} {s t : ValX} (hs : absX HX src = some s)
    (hd : absX HX dst = some t) (hne : src ≠ dst) :
    absX (stepX HX (.moveAssign src dst)) dst = some s ∧ absX (stepX HX (.moveAssign src dst)) src = none := by
  rw [(cowX_refines_values hI _).1]
  simp only [specStepX]
  rw [if_pos (show (absX HX src).isSome = true ∧ (absX HX dst).isSome = true ∧ src ≠ dst from
      ⟨by rw [hs]; rfl, by rw [hd]; rfl, hne⟩),
    upd_same, upd_other _ _ hne, upd_same]
  exact ⟨hs, rfl⟩

/-- `RemoveUselessStates` with `remaining == 0` (and `RemoveUnreachableStates` returning `*this`, `keepF = fun _ => true`):
    the result has the rules of the operand and the kept final states -/
theorem shareAll_value (hI : InvX HX) {src dst : Nat} {s : ValX} (hs : absX HX src = some s) (hd : absX HX dst = none)
    (keepF : Nat → Bool) :
    absX (stepX HX (.shareAll src dst keepF)) dst = some ⟨s.clusters, s.final.filter keepF⟩ := by
  rw [(cowX_refines_values hI _).1]
  simp only [specStepX]
  rw [if_pos (show (absX HX src).isSome = true ∧ (absX HX dst).isNone = true from ⟨by rw [hs]; rfl, by rw [hd]; rfl⟩),
    upd_same, hs]
  rfl

/-- `RemoveUnreachableStates` : the result has the clusters of the kept states and the final states of the operand -/
theorem shareClusters_value (hI : InvX HX) {src dst : Nat} {s : ValX} (hs : absX HX src = some s)
    (hd : absX HX dst = none) (keep : Nat → Bool) :
    absX (stepX HX (.shareClusters src dst keep)) dst =
      some ⟨s.clusters.filter (fun kc => keep kc.1), s.final⟩ := by
  rw [(cowX_refines_values hI _).1]
  simp only [specStepX]
  rw [if_pos (show (absX HX src).isSome = true ∧ (absX HX dst).isNone = true from ⟨by rw [hs]; rfl, by rw [hd]; rfl⟩),
    upd_same, hs]
  rfl

/-- `UnionDisjointStates` -/
theorem unionDisj_value (hI : InvX HX) {a b dst : Nat} {s t : ValX} (ha : absX HX a = some s) (hb : absX HX b = some t)
    (hd : absX HX dst = none) :
    absX (stepX HX (.unionDisj a b dst)) dst = some (unionStore s t) := by
  rw [(cowX_refines_values hI _).1]
  simp only [specStepX]
  rw [ha, hb]
  simp only
  rw [if_pos (by rw [hd]; rfl), upd_same]

/-! ### non-vacuity -/
namespace CowExX

/-- automaton 1 with rules `5 ← 7()`, `6 ← 8(5)`, `4 ← 9(4)` and final state 6; automaton 2 := `RemoveUnreachableStates(1)`
    (state 4 is dropped: new map node, cluster nodes of 5 and 6 shared); then both are modified -/
def ops1 : List HOpX :=
  [.new 1, .add 1 5 (7, []), .add 1 6 (8, [5]), .add 1 4 (9, [4]), .setFinal 1 6,
   .shareClusters 1 2 (fun q => q == 5 || q == 6)]
def H1 : HeapX := ops1.foldl stepX initX

/-- the two objects have different map nodes, but the entries for 5 and 6 are the same cluster nodes, now with use
    count 2 -/
example : H1.core.hmap 1 = 0 ∧ H1.core.hmap 2 = 8 ∧ H1.core.ment 0 = [(5, 1), (6, 3), (4, 5)] ∧
    H1.core.ment 8 = [(5, 1), (6, 3)] ∧ H1.core.crc 1 = 2 ∧ H1.core.crc 3 = 2 ∧ H1.core.crc 5 = 1 ∧
    H1.core.ml = [8, 0] := by decide
example : absX H1 2 = some ⟨[(5, [(7, [[]])]), (6, [(8, [[5]])])], [6]⟩ := by decide
example : invBX H1 = true := by decide
example : InvX H1 := history_invX ops1

def ops2 : List HOpX :=
  ops1 ++ [.add 2 5 (7, [5, 5]), .add 1 6 (8, [6]), .setFinal 2 5, .eraseFinal 1, .new 4, .add 4 10 (7, []),
    .setFinal 4 10, .unionDisj 2 4 5, .add 4 10 (7, [10]), .clear 2]
def H2 : HeapX := ops2.foldl stepX initX

/-- neither write is visible through the other object; the union (object 5) shares the clusters of both operands and is
    not affected by the later `add` to 4 and `Clear` of 2 -/
example : absX H2 1 = some ⟨[(5, [(7, [[]])]), (6, [(8, [[5], [6]])]), (4, [(9, [[4]])])], []⟩ ∧
    absX H2 2 = some ⟨[], []⟩ ∧
    absX H2 4 = some ⟨[(10, [(7, [[], [10]])])], [10]⟩ ∧
    absX H2 5 = some ⟨[(5, [(7, [[], [5, 5]])]), (6, [(8, [[5]])]), (10, [(7, [[]])])], [6, 5, 10]⟩ :=
  ⟨by decide, by decide, by decide, by decide⟩
example : invBX H2 = true := by decide
example : absX H2 = ops2.foldl specStepX specInitX := history_isolationX ops2

def ops3 : List HOpX :=
  ops2 ++ [.move 5 6, .copy 6 7 false true, .shareAll 1 8 (fun q => q == 6), .moveAssign 6 2, .copy 4 5 true false,
    .assign 8 4, .setFinals 7 [1, 6, 2]]
def H3 : HeapX := ops3.foldl stepX initX

example : absX H3 5 = some ⟨[(10, [(7, [[], [10]])])], []⟩ ∧ absX H3 6 = none ∧
    absX H3 2 = some ⟨[(5, [(7, [[], [5, 5]])]), (6, [(8, [[5]])]), (10, [(7, [[]])])], [6, 5, 10]⟩ ∧
    absX H3 7 = some ⟨[], [6, 5, 10, 1, 2]⟩ ∧
    absX H3 8 = some ⟨[(5, [(7, [[]])]), (6, [(8, [[5], [6]])]), (4, [(9, [[4]])])], []⟩ ∧
    absX H3 4 = absX H3 8 :=
  ⟨by decide, by decide, by decide, by decide, by decide, by decide⟩
/-- `shareAll` : objects 1, 8 and (after the assignment) 4 use one map node -/
example : H3.core.hmap 8 = H3.core.hmap 1 ∧ H3.core.hmap 4 = H3.core.hmap 1 ∧ H3.core.mrc (H3.core.hmap 1) = 3 := by
  decide
example : invBX H3 = true := by decide

/-- destroying the remaining objects frees everything at all three levels -/
def H4 : HeapX :=
  (ops1 ++ ([.unionDisj 1 2 3, .move 3 4, .add 4 5 (7, [5]), .destroy 1, .destroy 2] : List HOpX)).foldl stepX initX
example : H4.core.hl = [4] ∧ H4.core.ml = [9] ∧ H4.core.cl = [10, 5, 3] ∧ H4.core.tl = [11, 6, 4] ∧
    absX H4 4 = some ⟨[(5, [(7, [[], [5]])]), (6, [(8, [[5]])]), (4, [(9, [[4]])])], [6]⟩ :=
  ⟨by decide, by decide, by decide, by decide, by decide⟩
example : (stepX H4 (.destroy 4)).core.hl = [] ∧ (stepX H4 (.destroy 4)).core.ml = [] ∧
    (stepX H4 (.destroy 4)).core.cl = [] ∧ (stepX H4 (.destroy 4)).core.tl = [] :=
  ⟨by decide, by decide, by decide, by decide⟩

/-- the invariant is not trivial: in `H1` the cluster node 1 (state 5) is shared by the map nodes of objects 1 and 2 (use
    count 2).  With that use count set to 1 the checker rejects the heap, and a write through object 2 becomes visible
    through object 1 (the operand of `RemoveUnreachableStates` would change when the result is modified) -/
def Hbad : HeapX := { H1 with core := { H1.core with crc := fun _ => 1 } }
example : invBX Hbad = false := by decide
example : absX (stepX H1 (.add 2 5 (8, []))) 1 = absX H1 1 := by decide
example : absX (stepX Hbad (.add 2 5 (8, []))) 1 =
    some ⟨[(5, [(7, [[]]), (8, [[]])]), (6, [(8, [[5]])]), (4, [(9, [[4]])])], [6]⟩ ∧
    absX (stepX Hbad (.add 2 5 (8, []))) 1 ≠ absX Hbad 1 := ⟨by decide, by decide⟩

/-- hypotheses of `unionStore_of_disjoint` -/
example : unionStore ⟨[(5, [(7, [[]])])], [5]⟩ ⟨[(6, [(8, [[5]])])], [6]⟩ =
    ⟨[(5, [(7, [[]])]), (6, [(8, [[5]])])], [5, 6]⟩ := by decide
/-- `unordered_map::insert` does not overwrite: with a common key the entry of the left operand wins -/
example : (unionStore ⟨[(5, [(7, [[]])])], [5]⟩ ⟨[(5, [(8, [[5]])]), (6, [])], [5]⟩).clusters =
    [(5, [(7, [[]])]), (6, [])] := by decide

/-- `Union(1, 2)` into the new object 3 through `ReindexStates` with the renaming `q ↦ q + 10` resp. `q ↦ q + 20` -/
def opsU : List HOpX :=
  [.new 3] ++ reindexOps ⟨[(5, [(7, [[]])]), (6, [(8, [[5]])])], [6]⟩ 3 (· + 10) true ++
    reindexOps ⟨[(5, [(7, [[], [5, 5]])])], [5]⟩ 3 (· + 20) true
example : absX (opsU.foldl stepX H1) 3 =
    some ⟨[(15, [(7, [[]])]), (16, [(8, [[15]])]), (25, [(7, [[], [25, 25]])])], [16, 25]⟩ ∧
    absX (opsU.foldl stepX H1) 1 = absX H1 1 := ⟨by decide, by decide⟩

end CowExX

end Vata.CowHeapX
