import Vata.LoadDump
import Vata.Proofs.Timbuk
import Vata.Proofs.Rename
import Vata.Proofs.PropAux
/-!
# Loading and dumping through the dictionaries: round trips and invariance of the language (properties C13, C19)

Theorems about the model `Vata/LoadDump.lean` of `LoadFromAutDesc (desc, stateDict)` / `DumpToAutDesc (stateDict)`.

* `Dict.Ok`                       the invariant of a dictionary filled by a weak translator whose counter is its size: the
                                  keys are distinct and the `i`-th value is `i` (so the dictionary is two-way: `Ok.bwd_get`,
                                  `Ok.get_inj`)
* `LoadDump.loadFrom_spec`        what a load computes, expressed with the final dictionaries
* `load_spec`                     the same for `loadTA d [] yd`
* `load_dump_roundtrip_shared`    load on a fresh state dictionary and any alphabet in use, then dump: the same rules and
                                  final states under the same names;  `load_dump_roundtrip` (empty alphabet),
                                  `load_dump_exact` (the description that the dump returns)
* `dump_load_dump`, `text_roundtrip`    dump → serialize → parse → load → dump
* `load_lang_perm`                loads of two descriptions with the same sets of symbols, final states and transitions
                                  give automata related by bijective renamings of the states and of the symbols
* `dump_reload_lang`              C19: dump, serialize, parse, load on the same alphabet: the same language
* `LoadDumpEx.prefilled_*`        the state counter of `LoadFromAutDesc (desc, stateDict)` restarts at 0: with a pre-filled
                                  state dictionary two names get one number, the round trip and the language break

The model was compared with the real library by a probe (`probe/probe.cc` in the working copy of this task: loads the texts
of `LoadDumpTest.d1`, of the second load and of the pre-filled case, prints final states, rules, both maps of the state
dictionary, the forward map of the alphabet's dictionary and the dump): identical numbers, dictionaries, dumps and
exception texts, including the clash `p ↦ 0, q ↦ 0` with backward map `0 ↦ p` of the pre-filled case.
-/
namespace Vata

/-! ## dictionaries -/
namespace Dict
set_option linter.unusedSectionVars false
variable {κ : Type} [DecidableEq κ]

def keys (D : Dict κ) : List κ := D.map (·.1)
def vals (D : Dict κ) : List Nat := D.map (·.2)

/-- the forward translation as a total function -/
def get (D : Dict κ) (k : κ) : Nat := (D.fwd? k).getD 0

/-- every forward translation of `D` is one of `D'` -/
def Sub (D D' : Dict κ) : Prop := ∀ k v, D.fwd? k = some v → D'.fwd? k = some v

theorem Sub.refl (D : Dict κ) : Sub D D := fun _ _ h => h
theorem Sub.trans {D D' D'' : Dict κ} (h : Sub D D') (h' : Sub D' D'') : Sub D D'' := fun k v e => h' k v (h k v e)

theorem fwd?_some_mem {D : Dict κ} {k : κ} {v : Nat} (h : D.fwd? k = some v) : (k, v) ∈ D := by
  induction D with
  | nil => simp [fwd?] at h
  | cons p r ih =>
    obtain ⟨k', v'⟩ := p
    simp only [fwd?] at h
    split at h
    · rename_i e; cases h; rw [e]; exact List.mem_cons_self
    · exact List.mem_cons_of_mem _ (ih h)

theorem bwd?_some_mem {D : Dict κ} {k : κ} {v : Nat} (h : D.bwd? v = some k) : (k, v) ∈ D := by
  induction D with
  | nil => simp [bwd?] at h
  | cons p r ih =>
    obtain ⟨k', v'⟩ := p
    simp only [bwd?] at h
    split at h
    · rename_i e; cases h; rw [e]; exact List.mem_cons_self
    · exact List.mem_cons_of_mem _ (ih h)

theorem fwd?_eq_none {D : Dict κ} {k : κ} : D.fwd? k = none ↔ k ∉ D.keys := by
  induction D with
  | nil => simp [fwd?, keys]
  | cons p r ih =>
    obtain ⟨k', v'⟩ := p
    simp only [fwd?, keys, List.map_cons, List.mem_cons, not_or] at ih ⊢
    split
    · rename_i e; simp [e]
    · rename_i e; rw [ih]; exact ⟨fun h => ⟨fun e' => e e'.symm, h⟩, fun h => h.2⟩

theorem bwd?_eq_none {D : Dict κ} {v : Nat} : D.bwd? v = none ↔ v ∉ D.vals := by
  induction D with
  | nil => simp [bwd?, vals]
  | cons p r ih =>
    obtain ⟨k', v'⟩ := p
    simp only [bwd?, vals, List.map_cons, List.mem_cons, not_or] at ih ⊢
    split
    · rename_i e; simp [e]
    · rename_i e; rw [ih]; exact ⟨fun h => ⟨fun e' => e e'.symm, h⟩, fun h => h.2⟩

theorem mem_keys_iff {D : Dict κ} {k : κ} : k ∈ D.keys ↔ ∃ v, D.fwd? k = some v := by
  cases h : D.fwd? k with
  | none => simp [fwd?_eq_none.mp h]
  | some v =>
    simp only [Option.some.injEq, exists_eq', iff_true]
    exact List.mem_map.mpr ⟨(k, v), fwd?_some_mem h, rfl⟩

theorem fwd?_of_mem {D : Dict κ} (hn : D.keys.Nodup) {k : κ} {v : Nat} (h : (k, v) ∈ D) : D.fwd? k = some v := by
  induction D with
  | nil => simp at h
  | cons p r ih =>
    obtain ⟨k', v'⟩ := p
    simp only [keys, List.map_cons, List.nodup_cons] at hn
    simp only [fwd?]
    rcases List.mem_cons.mp h with e | hm
    · cases e; simp
    · split
      · rename_i e
        exact absurd (List.mem_map.mpr ⟨(k, v), hm, e.symm⟩) hn.1
      · exact ih hn.2 hm

theorem bwd?_of_mem {D : Dict κ} (hn : D.vals.Nodup) {k : κ} {v : Nat} (h : (k, v) ∈ D) : D.bwd? v = some k := by
  induction D with
  | nil => simp at h
  | cons p r ih =>
    obtain ⟨k', v'⟩ := p
    simp only [vals, List.map_cons, List.nodup_cons] at hn
    simp only [bwd?]
    rcases List.mem_cons.mp h with e | hm
    · cases e; simp
    · split
      · rename_i e
        exact absurd (List.mem_map.mpr ⟨(k, v), hm, e.symm⟩) hn.1
      · exact ih hn.2 hm

theorem fwd?_append_some {D E : Dict κ} {k : κ} {v : Nat} (h : D.fwd? k = some v) : (D ++ E).fwd? k = some v := by
  induction D with
  | nil => simp [fwd?] at h
  | cons p r ih =>
    obtain ⟨k', v'⟩ := p
    simp only [fwd?, List.cons_append] at h ⊢
    split
    · rename_i e; simpa [e] using h
    · rename_i e; simp only [e, if_false] at h; exact ih h

theorem fwd?_append_none {D E : Dict κ} {k : κ} (h : D.fwd? k = none) : (D ++ E).fwd? k = E.fwd? k := by
  induction D with
  | nil => rfl
  | cons p r ih =>
    obtain ⟨k', v'⟩ := p
    simp only [fwd?, List.cons_append] at h ⊢
    split
    · rename_i e; simp [e] at h
    · rename_i e; simp only [e, if_false] at h; exact ih h

/-- keys distinct, the `i`-th value is `i` -/
structure Ok (D : Dict κ) : Prop where
  keys_nodup : D.keys.Nodup
  dense : D.vals = List.range D.length

theorem ok_nil : Ok ([] : Dict κ) := ⟨by simp [keys], by simp [vals]⟩

theorem Ok.vals_nodup {D : Dict κ} (h : D.Ok) : D.vals.Nodup := by rw [h.dense]; exact List.nodup_range

theorem Ok.mem_vals {D : Dict κ} (h : D.Ok) {v : Nat} : v ∈ D.vals ↔ v < D.length := by
  rw [h.dense, List.mem_range]

theorem Ok.fwd_iff {D : Dict κ} (h : D.Ok) {k : κ} {v : Nat} : D.fwd? k = some v ↔ (k, v) ∈ D :=
  ⟨fwd?_some_mem, fwd?_of_mem h.keys_nodup⟩

theorem Ok.bwd_iff {D : Dict κ} (h : D.Ok) {k : κ} {v : Nat} : D.bwd? v = some k ↔ (k, v) ∈ D :=
  ⟨bwd?_some_mem, bwd?_of_mem h.vals_nodup⟩

/-- two-way: `bwd?` inverts `fwd?` -/
theorem Ok.bwd_fwd {D : Dict κ} (h : D.Ok) {k : κ} {v : Nat} : D.bwd? v = some k ↔ D.fwd? k = some v := by
  rw [h.bwd_iff, h.fwd_iff]

theorem get_of_fwd {D : Dict κ} {k : κ} {v : Nat} (h : D.fwd? k = some v) : D.get k = v := by simp [get, h]

theorem fwd_get {D : Dict κ} {k : κ} (h : k ∈ D.keys) : D.fwd? k = some (D.get k) := by
  obtain ⟨v, hv⟩ := mem_keys_iff.mp h
  rw [get_of_fwd hv, hv]

theorem Ok.bwd_get {D : Dict κ} (h : D.Ok) {k : κ} (hk : k ∈ D.keys) : D.bwd? (D.get k) = some k :=
  h.bwd_fwd.mpr (fwd_get hk)

/-- the forward translation is injective on the keys -/
theorem Ok.get_inj {D : Dict κ} (h : D.Ok) {k k' : κ} (hk : k ∈ D.keys) (hk' : k' ∈ D.keys) (e : D.get k = D.get k') :
    k = k' := by
  have h1 := h.bwd_get hk
  have h2 := h.bwd_get hk'
  rw [e, h2] at h1
  exact (Option.some.inj h1).symm

theorem Ok.get_lt {D : Dict κ} (h : D.Ok) {k : κ} (hk : k ∈ D.keys) : D.get k < D.length :=
  h.mem_vals.mp (List.mem_map.mpr ⟨(k, D.get k), fwd?_some_mem (fwd_get hk), rfl⟩)

theorem Sub.get {D D' : Dict κ} (h : Sub D D') {k : κ} (hk : k ∈ D.keys) : D'.get k = D.get k :=
  get_of_fwd (h k _ (fwd_get hk))

theorem Sub.keys {D D' : Dict κ} (h : Sub D D') {k : κ} (hk : k ∈ D.keys) : k ∈ D'.keys :=
  mem_keys_iff.mpr ⟨_, h k _ (fwd_get hk)⟩

/-- `TranslatorWeak` with the counter at the size of the dictionary keeps the invariant, keeps the translations made so
far, translates `k`, and adds the key `k` only -/
theorem weak_spec (D : Dict κ) (hD : D.Ok) (k : κ) :
    (D.weak D.length k).2.1.Ok ∧ (D.weak D.length k).2.2 = (D.weak D.length k).2.1.length ∧
    Sub D (D.weak D.length k).2.1 ∧ (D.weak D.length k).2.1.fwd? k = some (D.weak D.length k).1 ∧
    ∀ k', k' ∈ (D.weak D.length k).2.1.keys ↔ k' ∈ D.keys ∨ k' = k := by
  unfold weak
  cases h : D.fwd? k with
  | some v =>
    refine ⟨hD, rfl, Sub.refl D, h, fun k' => ⟨Or.inl, ?_⟩⟩
    rintro (h' | h')
    · exact h'
    · rw [h']; exact mem_keys_iff.mpr ⟨v, h⟩
  | none =>
    have hk : k ∉ D.keys := fwd?_eq_none.mp h
    refine ⟨⟨?_, ?_⟩, ?_, ?_, ?_, ?_⟩
    · simp only [insert, keys, List.map_append, List.map_cons, List.map_nil]
      rw [List.nodup_append]
      refine ⟨hD.keys_nodup, by simp, ?_⟩
      intro a ha b hb e
      simp only [List.mem_singleton] at hb
      rw [e, hb] at ha; exact hk ha
    · simp only [insert, vals, List.map_append, List.map_cons, List.map_nil, List.length_append, List.length_cons,
        List.length_nil]
      rw [show D.length + (0 + 1) = D.length.succ from by omega, List.range_succ]
      congr 1
      exact hD.dense
    · simp [insert]
    · intro k' v hv; exact fwd?_append_some hv
    · show (D ++ [(k, D.length)]).fwd? k = some D.length
      rw [fwd?_append_none h]; simp [fwd?]
    · intro k'
      simp only [insert, keys, List.map_append, List.map_cons, List.map_nil, List.mem_append, List.mem_singleton]

end Dict

/-! ## the load -/
namespace LoadDump
open Dict

/-- the invariant of the translator state of a load: both dictionaries `Ok`, the state counter at the size -/
structure LSt.Ok (s : LSt) : Prop where
  sd : s.sd.Ok
  cnt : s.cnt = s.sd.length
  yd : s.yd.Ok

/-- from `s` to `s'` the state names `Q` and the symbol keys `Y` were translated -/
structure Step (s s' : LSt) (Q : List String) (Y : List (String × Nat)) : Prop where
  ok : s'.Ok
  sd : Sub s.sd s'.sd
  yd : Sub s.yd s'.yd
  sdKeys : ∀ q, q ∈ s'.sd.keys ↔ q ∈ s.sd.keys ∨ q ∈ Q
  ydKeys : ∀ k, k ∈ s'.yd.keys ↔ k ∈ s.yd.keys ∨ k ∈ Y

theorem Step.refl {s : LSt} (h : s.Ok) : Step s s [] [] :=
  ⟨h, Sub.refl _, Sub.refl _, by simp, by simp⟩

theorem Step.trans {s s' s'' : LSt} {Q Q' : List String} {Y Y' : List (String × Nat)} (h : Step s s' Q Y)
    (h' : Step s' s'' Q' Y') : Step s s'' (Q ++ Q') (Y ++ Y') :=
  ⟨h'.ok, h.sd.trans h'.sd, h.yd.trans h'.yd,
    fun q => by rw [h'.sdKeys, h.sdKeys, List.mem_append, or_assoc],
    fun k => by rw [h'.ydKeys, h.ydKeys, List.mem_append, or_assoc]⟩

theorem Step.congr {s s' : LSt} {Q Q' : List String} {Y Y' : List (String × Nat)} (h : Step s s' Q Y) (eQ : Q = Q')
    (eY : Y = Y') : Step s s' Q' Y' := by subst eQ; subst eY; exact h

theorem trState_spec (s : LSt) (hs : s.Ok) (q : String) :
    Step s (trState s q).2 [q] [] ∧ (trState s q).2.sd.fwd? q = some (trState s q).1 := by
  have h := weak_spec s.sd hs.sd q
  rw [← hs.cnt] at h
  obtain ⟨h1, h2, h3, h4, h5⟩ := h
  refine ⟨⟨⟨h1, h2, hs.yd⟩, h3, Sub.refl _, ?_, by simp [trState]⟩, h4⟩
  intro q'; rw [List.mem_singleton]; exact h5 q'

theorem trSym_spec (s : LSt) (hs : s.Ok) (k : String × Nat) :
    Step s (trSym s k).2 [] [k] ∧ (trSym s k).2.yd.fwd? k = some (trSym s k).1 := by
  obtain ⟨h1, _, h3, h4, h5⟩ := weak_spec s.yd hs.yd k
  refine ⟨⟨⟨hs.sd, hs.cnt, h1⟩, Sub.refl _, h3, by simp [trSym], ?_⟩, h4⟩
  intro k'; rw [List.mem_singleton]; exact h5 k'

theorem trStates_spec (s : LSt) (hs : s.Ok) (qs : List String) :
    Step s (trStates s qs).2 qs [] ∧ (trStates s qs).1 = qs.map (trStates s qs).2.sd.get := by
  induction qs generalizing s with
  | nil => exact ⟨Step.refl hs, rfl⟩
  | cons q qs ih =>
    obtain ⟨h1, r1⟩ := trState_spec s hs q
    obtain ⟨h2, r2⟩ := ih (trState s q).2 h1.ok
    refine ⟨(h1.trans h2).congr rfl rfl, ?_⟩
    simp only [trStates, List.map_cons]
    rw [← r2, get_of_fwd (h2.sd _ _ r1)]

theorem regSyms_spec (s : LSt) (hs : s.Ok) (ps : List (String × Int)) :
    Step s (regSyms s ps) [] (ps.map (fun p => (p.1, rankKey p.2))) := by
  induction ps generalizing s with
  | nil => exact Step.refl hs
  | cons p ps ih =>
    obtain ⟨h1, _⟩ := trSym_spec s hs (p.1, rankKey p.2)
    exact (h1.trans (ih _ h1.ok)).congr rfl rfl

/-- the state names of a transition, in the order of their translation -/
def stNames (t : List String × String × String) : List String := t.1 ++ [t.2.2]
/-- the key of the symbol of a transition: `StringRank (symbol, children.size ())` -/
def symKey (t : List String × String × String) : String × Nat := (t.2.1, t.1.length)

/-- the rule that a transition becomes under the dictionaries of `s` -/
def ruleOf (s : LSt) (t : List String × String × String) : Rule :=
  ⟨s.yd.get (symKey t), t.1.map s.sd.get, s.sd.get t.2.2⟩

/-- all names of the transition have a translation -/
structure Covers (s : LSt) (t : List String × String × String) : Prop where
  kids : ∀ q, q ∈ t.1 → q ∈ s.sd.keys
  parent : t.2.2 ∈ s.sd.keys
  sym : symKey t ∈ s.yd.keys

theorem ruleOf_lift {s s' : LSt} {Q : List String} {Y : List (String × Nat)} (h : Step s s' Q Y)
    {t : List String × String × String} (hc : Covers s t) : ruleOf s' t = ruleOf s t := by
  unfold ruleOf
  rw [h.yd.get hc.sym, h.sd.get hc.parent, List.map_congr_left (fun q hq => h.sd.get (hc.kids q hq))]

theorem Covers.lift {s s' : LSt} {Q : List String} {Y : List (String × Nat)} (h : Step s s' Q Y)
    {t : List String × String × String} (hc : Covers s t) : Covers s' t :=
  ⟨fun q hq => h.sd.keys (hc.kids q hq), h.sd.keys hc.parent, h.yd.keys hc.sym⟩

theorem trRule_spec (s : LSt) (hs : s.Ok) (t : List String × String × String) :
    Step s (trRule s t).2 (stNames t) [symKey t] ∧ (trRule s t).1 = ruleOf (trRule s t).2 t ∧
      Covers (trRule s t).2 t := by
  obtain ⟨h1, r1⟩ := trStates_spec s hs t.1
  obtain ⟨h2, r2⟩ := trSym_spec (trStates s t.1).2 h1.ok (t.2.1, t.1.length)
  obtain ⟨h3, r3⟩ := trState_spec (trSym (trStates s t.1).2 (t.2.1, t.1.length)).2 h2.ok t.2.2
  have h23 := h2.trans h3
  have hst := (h1.trans h23).congr (Q' := stNames t) (Y' := [symKey t]) (by simp [stNames]) (by simp [symKey])
  refine ⟨hst, ?_, ?_⟩
  · show Rule.mk _ _ _ = _
    unfold ruleOf
    congr 1
    · exact (get_of_fwd (h3.yd _ _ r2)).symm
    · rw [r1]
      exact List.map_congr_left
        (fun q hq => (h23.sd.get ((h1.sdKeys q).mpr (Or.inr hq))).symm)
    · exact (get_of_fwd r3).symm
  · refine ⟨fun q hq => (hst.sdKeys q).mpr (Or.inr ?_), (hst.sdKeys _).mpr (Or.inr ?_), (hst.ydKeys _).mpr (Or.inr ?_)⟩
    · simp [stNames, hq]
    · simp [stNames]
    · simp

theorem trRules_spec (s : LSt) (hs : s.Ok) (ts : List (List String × String × String)) :
    Step s (trRules s ts).2 (ts.flatMap stNames) (ts.map symKey) ∧
      (trRules s ts).1 = ts.map (ruleOf (trRules s ts).2) ∧ ∀ t, t ∈ ts → Covers (trRules s ts).2 t := by
  induction ts generalizing s with
  | nil => exact ⟨Step.refl hs, rfl, by simp⟩
  | cons t ts ih =>
    obtain ⟨h1, r1, c1⟩ := trRule_spec s hs t
    obtain ⟨h2, r2, c2⟩ := ih (trRule s t).2 h1.ok
    refine ⟨(h1.trans h2).congr (by simp) (by simp), ?_, ?_⟩
    · simp only [trRules, List.map_cons]
      rw [← r2, r1, ruleOf_lift h2 c1]
    · intro t' ht'
      rcases List.mem_cons.mp ht' with e | hm
      · rw [e]; exact c1.lift h2
      · exact c2 t' hm

/-- the state names that a load translates -/
def stateNames (d : AutDesc) : List String := d.final ++ d.trans.flatMap stNames
/-- the symbol keys that a load translates -/
def symKeys (d : AutDesc) : List (String × Nat) :=
  d.symbols.map (fun p => (p.1, rankKey p.2)) ++ d.trans.map symKey

/-- what `loadFromAutDescInternal` computes, in terms of the dictionaries it leaves: the final states and the rules of
the description translated by them; the dictionaries keep the invariant and the old translations, and gain exactly the
names of the description -/
theorem loadFrom_spec (s : LSt) (hs : s.Ok) (d : AutDesc) :
    Step s (loadFrom s d).2 (stateNames d) (symKeys d) ∧
      (loadFrom s d).1.final = d.final.map (loadFrom s d).2.sd.get ∧
      (loadFrom s d).1.rules = d.trans.map (ruleOf (loadFrom s d).2) ∧
      ∀ t, t ∈ d.trans → Covers (loadFrom s d).2 t := by
  have h0 := regSyms_spec s hs d.symbols
  obtain ⟨h1, r1⟩ := trStates_spec (regSyms s d.symbols) h0.ok d.final
  obtain ⟨h2, r2, c2⟩ := trRules_spec (trStates (regSyms s d.symbols) d.final).2 h1.ok d.trans
  refine ⟨((h0.trans h1).trans h2).congr (by simp [stateNames]) (by simp [symKeys]), ?_, r2, c2⟩
  show (trStates (regSyms s d.symbols) d.final).1 = _
  rw [r1]
  exact List.map_congr_left (fun q hq => (h2.sd.get ((h1.sdKeys q).mpr (Or.inr hq))).symm)

/-! ## the dump -/

theorem mapE_ok {α β : Type} (f : α → Except String β) (g : α → β) (l : List α)
    (H : ∀ a, a ∈ l → f a = .ok (g a)) : mapE f l = .ok (l.map g) := by
  induction l with
  | nil => rfl
  | cons a as ih =>
    simp only [mapE, List.map_cons]
    rw [H a List.mem_cons_self, ih (fun a' ha' => H a' (List.mem_cons_of_mem _ ha'))]

theorem mapE_map_ok {α β : Type} (f : β → Except String α) (h : α → β) (l : List α)
    (H : ∀ a, a ∈ l → f (h a) = .ok a) : mapE f (l.map h) = .ok l := by
  induction l with
  | nil => rfl
  | cons a as ih =>
    simp only [mapE, List.map_cons]
    rw [H a List.mem_cons_self, ih (fun a' ha' => H a' (List.mem_cons_of_mem _ ha'))]

theorem backState_get {sd : StateDict} (h : sd.Ok) {q : String} (hq : q ∈ sd.keys) :
    backState sd (sd.get q) = .ok q := by
  unfold backState; rw [h.bwd_get hq]

theorem backSym_get {yd : SymDict} (h : yd.Ok) {k : String × Nat} (hk : k ∈ yd.keys) :
    backSym yd (yd.get k) = .ok k.1 := by
  unfold backSym; rw [h.bwd_get hk]

/-- the dump of a translated transition is the transition -/
theorem dumpRule_ruleOf {s : LSt} (hs : s.Ok) {t : List String × String × String} (hc : Covers s t) :
    dumpRule s.sd s.yd (ruleOf s t) = .ok t := by
  unfold dumpRule ruleOf
  simp only
  rw [mapE_map_ok (backState s.sd) s.sd.get t.1 (fun q hq => backState_get hs.sd (hc.kids q hq)),
    backSym_get hs.yd hc.sym, backState_get hs.sd hc.parent]
  rfl

open Timbuk

theorem sameSet_norm_map {α β : Type} [DecidableEq β] (lt : β → β → Bool) (f : α → β) (g : β → α)
    (hgf : ∀ a, g (f a) = a) (l : List α) : SameSet ((norm lt (l.map f)).map g) l := by
  intro x
  simp only [List.mem_map, mem_norm]
  constructor
  · rintro ⟨y, ⟨a, ha, rfl⟩, rfl⟩; rw [hgf]; exact ha
  · intro hx; exact ⟨f x, ⟨x, hx, rfl⟩, hgf x⟩

theorem normDesc_name (d : AutDesc) : (normDesc d).name = d.name := String.ofList_toList
theorem normDesc_symbols (d : AutDesc) : (normDesc d).symbols ≈ d.symbols :=
  sameSet_norm_map ltSym (fun p : String × Int => (p.1.toList, p.2)) (fun p => (String.ofList p.1, p.2))
    (fun a => by simp) d.symbols
theorem normDesc_states (d : AutDesc) : (normDesc d).states ≈ d.states :=
  sameSet_norm_map ltStr String.toList String.ofList (fun _ => String.ofList_toList) d.states
theorem normDesc_final (d : AutDesc) : (normDesc d).final ≈ d.final :=
  sameSet_norm_map ltStr String.toList String.ofList (fun _ => String.ofList_toList) d.final
theorem normDesc_trans (d : AutDesc) : (normDesc d).trans ≈ d.trans :=
  sameSet_norm_map ltTrans
    (fun t : List String × String × String => (t.1.map String.toList, t.2.1.toList, t.2.2.toList))
    (fun t => (t.1.map String.ofList, String.ofList t.2.1, String.ofList t.2.2))
    (fun a => by simp) d.trans
theorem normDesc_symbols_nil (d : AutDesc) (h : d.symbols = []) : (normDesc d).symbols = [] := by
  simp [normDesc, ofS, Desc.toS, h, norm, setInsertAll]
theorem normDesc_states_nil (d : AutDesc) (h : d.states = []) : (normDesc d).states = [] := by
  simp [normDesc, ofS, Desc.toS, h, norm, setInsertAll]

/-- what a dump returns: no name, no symbols, no states; the final states and the transitions in `std::set` order -/
def dumpOf (final : List String) (trans : List (List String × String × String)) : AutDesc :=
  normDesc { name := "", symbols := [], states := [], final := final, trans := trans }

/-- dumping what was loaded with the dictionaries that the load left: exactly the final states and transitions of the
description -/
theorem dump_loadFrom (s : LSt) (hs : s.Ok) (d : AutDesc) :
    dumpTA (loadFrom s d).1 (loadFrom s d).2.sd (loadFrom s d).2.yd = .ok (dumpOf d.final d.trans) := by
  obtain ⟨h, rf, rr, hc⟩ := loadFrom_spec s hs d
  unfold dumpTA
  rw [rf, rr, mapE_map_ok (backState _) _ d.final
      (fun q hq => backState_get h.ok.sd ((h.sdKeys q).mpr (Or.inr (by simp [stateNames, hq])))),
    mapE_map_ok (dumpRule _ _) _ d.trans (fun t ht => dumpRule_ruleOf h.ok (hc t ht))]
  rfl

end LoadDump

/-! ## C13: load ∘ dump round trips -/
open LoadDump Dict Timbuk

theorem LoadDump.init_ok {yd : SymDict} (h : yd.Ok) : (⟨[], 0, yd⟩ : LSt).Ok := ⟨ok_nil, rfl, h⟩

/-- What `loadTA` on a fresh state dictionary and an alphabet in use (`yd.Ok`; `[]` for a fresh one) returns: both
dictionaries are `Ok` afterwards (distinct keys, values `0, 1, 2, …` in order of first occurrence, hence injective in both
directions: `Dict.Ok.bwd_fwd`, `Dict.Ok.get_inj`); the state dictionary knows exactly the state names that occur in the
final states and the transitions (NOT those of `d.states`); the symbol dictionary keeps what it knew and gains exactly the
keys `(name, size_t rank)` of `d.symbols` and `(symbol, number of children)` of the transitions; the automaton is the
description translated by these dictionaries. -/
theorem load_spec (d : AutDesc) (yd : SymDict) (hyd : yd.Ok) :
    ∃ A sd yd', loadTA d [] yd = .ok (A, sd, yd') ∧ sd.Ok ∧ yd'.Ok ∧ Sub yd yd' ∧
      (∀ q, q ∈ sd.keys ↔ q ∈ stateNames d) ∧ (∀ k, k ∈ yd'.keys ↔ k ∈ yd.keys ∨ k ∈ symKeys d) ∧
      A.final = d.final.map sd.get ∧
      A.rules = d.trans.map (fun t => ⟨yd'.get (t.2.1, t.1.length), t.1.map sd.get, sd.get t.2.2⟩) := by
  obtain ⟨h, rf, rr, _⟩ := loadFrom_spec ⟨[], 0, yd⟩ (init_ok hyd) d
  refine ⟨_, _, _, rfl, h.ok.sd, h.ok.yd, h.yd, ?_, h.ydKeys, rf, rr⟩
  intro q; rw [h.sdKeys]; simp [keys]

/-- the description that the dump of a loaded description is: the final states and the transitions of the description,
in `std::set` order; no name, no symbols, no states -/
theorem load_dump_exact (d : AutDesc) (yd : SymDict) (hyd : yd.Ok) :
    ∃ A sd yd', loadTA d [] yd = .ok (A, sd, yd') ∧ dumpTA A sd yd' = .ok (dumpOf d.final d.trans) :=
  ⟨_, _, _, rfl, dump_loadFrom ⟨[], 0, yd⟩ (init_ok hyd) d⟩

/-- **C13** load then dump, on a fresh state dictionary and an alphabet that may already be in use (the alphabet is
shared by all automata): the load succeeds, the dictionaries are injective afterwards (`Dict.Ok`), the dump with these
dictionaries succeeds and has the same final states and the same transitions, under the same names.  No hypothesis on
`d` is needed – in particular not `d.Ranked`: the alphabet's keys are pairs (name, number of children), so a name used
with two ranks is two symbols, and the dump writes each rule with its own children. -/
theorem load_dump_roundtrip_shared (d : AutDesc) (yd : SymDict) (hyd : yd.Ok) :
    ∃ A sd yd' d', loadTA d [] yd = .ok (A, sd, yd') ∧ sd.Ok ∧ yd'.Ok ∧ dumpTA A sd yd' = .ok d' ∧
      d'.final ≈ d.final ∧ d'.trans ≈ d.trans := by
  obtain ⟨h, _⟩ := loadFrom_spec ⟨[], 0, yd⟩ (init_ok hyd) d
  exact ⟨_, _, _, _, rfl, h.ok.sd, h.ok.yd, dump_loadFrom ⟨[], 0, yd⟩ (init_ok hyd) d, normDesc_final _, normDesc_trans _⟩

/-- **C13** `load_dump_roundtrip_shared` for empty initial dictionaries -/
theorem load_dump_roundtrip (d : AutDesc) :
    ∃ A sd yd d', loadTA d [] [] = .ok (A, sd, yd) ∧ sd.Ok ∧ yd.Ok ∧ dumpTA A sd yd = .ok d' ∧
      d'.final ≈ d.final ∧ d'.trans ≈ d.trans :=
  load_dump_roundtrip_shared d [] ok_nil

/-- the remaining fields of a dump are empty -/
theorem dump_fields {A : TA} {sd : StateDict} {yd : SymDict} {d' : AutDesc} (h : dumpTA A sd yd = .ok d') :
    d'.name = "" ∧ d'.symbols = [] ∧ d'.states = [] := by
  unfold dumpTA at h
  split at h
  · cases h
  · split at h
    · cases h
    · cases h
      exact ⟨normDesc_name _, normDesc_symbols_nil _ rfl, normDesc_states_nil _ rfl⟩

/-- a dictionary that is `Ok` is injective in both directions -/
theorem Dict.Ok.injective {κ : Type} [DecidableEq κ] {D : Dict κ} (h : D.Ok) :
    (∀ k k' v, D.fwd? k = some v → D.fwd? k' = some v → k = k') ∧
    (∀ v v' k, D.bwd? v = some k → D.bwd? v' = some k → v = v') := by
  constructor
  · intro k k' v h1 h2
    have := (h.bwd_fwd.mpr h1).symm.trans (h.bwd_fwd.mpr h2)
    exact Option.some.inj this
  · intro v v' k h1 h2
    have := (h.bwd_fwd.mp h1).symm.trans (h.bwd_fwd.mp h2)
    exact Option.some.inj this

/-! ### through the text -/

/-- **C13** dump → serialize → parse → load → dump.  For ANY automaton and dictionaries for which the dump succeeds and
yields good names (`d₁.WellFormed`): the text of `DumpToString` is accepted by `LoadFromString` (fresh state dictionary,
any alphabet `yd₀` in use), and dumping the loaded automaton gives the same final states and transitions again. -/
theorem dump_load_dump (A : TA) (sd : StateDict) (yd yd₀ : SymDict) (hyd₀ : yd₀.Ok) (d₁ : AutDesc)
    (hd : dumpTA A sd yd = .ok d₁) (hwf : d₁.WellFormed) :
    ∃ A' sd' yd' d₃, dumpString A sd yd = .ok (serialize d₁) ∧
      loadString (serialize d₁) [] yd₀ = .ok (A', sd', yd') ∧ sd'.Ok ∧ yd'.Ok ∧
      dumpTA A' sd' yd' = .ok d₃ ∧ d₃.final ≈ d₁.final ∧ d₃.trans ≈ d₁.trans := by
  obtain ⟨d₂, hp, hf, ht⟩ := parse_serialize d₁ hwf
  obtain ⟨A', sd', yd', d₃, hl, hsd, hyd, hd3, hf3, ht3⟩ := load_dump_roundtrip_shared d₂ yd₀ hyd₀
  refine ⟨A', sd', yd', d₃, ?_, ?_, hsd, hyd, hd3, fun x => (hf3 x).trans (hf x), fun x => (ht3 x).trans (ht x)⟩
  · unfold dumpString; rw [hd]
  · unfold loadString; rw [hp]; exact hl

theorem LoadDump.dumpOf_wellFormed (d : AutDesc) (hwf : d.WellFormed) : (dumpOf d.final d.trans).WellFormed := by
  obtain ⟨_, _, _, h4, h5⟩ := (AutDesc.wellFormed_iff d).mp hwf
  refine (AutDesc.wellFormed_iff _).mpr ⟨?_, ?_, ?_, ?_, ?_⟩
  · intro c hc
    have : (dumpOf d.final d.trans).name = "" := normDesc_name _
    rw [this] at hc; simp at hc
  · intro p hp
    rw [show (dumpOf d.final d.trans).symbols = [] from normDesc_symbols_nil _ rfl] at hp; simp at hp
  · intro q hq
    rw [show (dumpOf d.final d.trans).states = [] from normDesc_states_nil _ rfl] at hq; simp at hq
  · intro q hq; exact h4 q ((normDesc_final _ q).mp hq)
  · intro t ht; exact h5 t ((normDesc_trans _ t).mp ht)

/-- **C13** the whole chain from a well-formed description: load it, dump to text, load the text (fresh state dictionary,
the alphabet as the first load left it), dump: the final states and transitions of `d` again. -/
theorem text_roundtrip (d : AutDesc) (hwf : d.WellFormed) :
    ∃ A sd yd txt A' sd' yd' d₃, loadTA d [] [] = .ok (A, sd, yd) ∧ dumpString A sd yd = .ok txt ∧
      loadString txt [] yd = .ok (A', sd', yd') ∧ dumpTA A' sd' yd' = .ok d₃ ∧
      d₃.final ≈ d.final ∧ d₃.trans ≈ d.trans := by
  obtain ⟨h, _⟩ := loadFrom_spec ⟨[], 0, []⟩ (init_ok ok_nil) d
  have hd := dump_loadFrom ⟨[], 0, []⟩ (init_ok ok_nil) d
  obtain ⟨A', sd', yd', d₃, h1, h2, _, _, h3, hf, ht⟩ :=
    dump_load_dump _ _ _ _ h.ok.yd _ hd (dumpOf_wellFormed d hwf)
  exact ⟨_, _, _, _, A', sd', yd', d₃, rfl, h1, h2, h3,
    fun x => (hf x).trans (normDesc_final _ x), fun x => (ht x).trans (normDesc_trans _ x)⟩

/-! ## C19: the numbering does not matter -/

namespace Dict
variable {κ : Type} [DecidableEq κ]

/-- the renumbering from `D₁` to `D₂`: the number that `D₂` gives to the key that has the number `n` in `D₁`; the identity
on the numbers that `D₁` does not use -/
def transfer (D₁ D₂ : Dict κ) (n : Nat) : Nat :=
  match D₁.bwd? n with
  | some k => D₂.get k
  | none => n

theorem transfer_get {D₁ : Dict κ} (D₂ : Dict κ) (h₁ : D₁.Ok) {k : κ} (hk : k ∈ D₁.keys) :
    transfer D₁ D₂ (D₁.get k) = D₂.get k := by
  unfold transfer; rw [h₁.bwd_get hk]

set_option linter.unusedSectionVars false in
theorem length_eq_of_keys {D₁ D₂ : Dict κ} (h₁ : D₁.Ok) (h₂ : D₂.Ok) (hk : ∀ k, k ∈ D₁.keys ↔ k ∈ D₂.keys) :
    D₁.length = D₂.length := by
  have := ((List.perm_ext_iff_of_nodup h₁.keys_nodup h₂.keys_nodup).mpr hk).length_eq
  simpa [keys] using this

theorem Ok.bwd_none {D : Dict κ} (h : D.Ok) {n : Nat} : D.bwd? n = none ↔ D.length ≤ n := by
  rw [bwd?_eq_none, h.mem_vals]; omega

theorem Ok.bwd_some_of_lt {D : Dict κ} (h : D.Ok) {n : Nat} (hn : n < D.length) : ∃ k, D.bwd? n = some k := by
  cases e : D.bwd? n with
  | some k => exact ⟨k, rfl⟩
  | none => have := h.bwd_none.mp e; omega

theorem mem_keys_of_bwd {D : Dict κ} {n : Nat} {k : κ} (h : D.bwd? n = some k) : k ∈ D.keys :=
  List.mem_map.mpr ⟨(k, n), bwd?_some_mem h, rfl⟩

/-- two `Ok` dictionaries with the same keys: the renumbering is injective -/
theorem transfer_injective {D₁ D₂ : Dict κ} (h₁ : D₁.Ok) (h₂ : D₂.Ok) (hk : ∀ k, k ∈ D₁.keys ↔ k ∈ D₂.keys) :
    Function.Injective (transfer D₁ D₂) := by
  have hl := length_eq_of_keys h₁ h₂ hk
  intro n m e
  unfold transfer at e
  cases e1 : D₁.bwd? n with
  | none =>
    cases e2 : D₁.bwd? m with
    | none => simpa [e1, e2] using e
    | some k' =>
      simp only [e1, e2] at e
      have := h₂.get_lt ((hk k').mp (mem_keys_of_bwd e2))
      have := h₁.bwd_none.mp e1
      omega
  | some k =>
    cases e2 : D₁.bwd? m with
    | none =>
      simp only [e1, e2] at e
      have := h₂.get_lt ((hk k).mp (mem_keys_of_bwd e1))
      have := h₁.bwd_none.mp e2
      omega
    | some k' =>
      simp only [e1, e2] at e
      have hkk : k = k' := h₂.get_inj ((hk k).mp (mem_keys_of_bwd e1)) ((hk k').mp (mem_keys_of_bwd e2)) e
      rw [← hkk] at e2
      have := (h₁.bwd_fwd.mp e1).symm.trans (h₁.bwd_fwd.mp e2)
      exact Option.some.inj this

/-- … and surjective -/
theorem transfer_surjective {D₁ D₂ : Dict κ} (h₁ : D₁.Ok) (h₂ : D₂.Ok) (hk : ∀ k, k ∈ D₁.keys ↔ k ∈ D₂.keys) :
    Function.Surjective (transfer D₁ D₂) := by
  have hl := length_eq_of_keys h₁ h₂ hk
  intro m
  by_cases hm : m < D₂.length
  · obtain ⟨k, e⟩ := h₂.bwd_some_of_lt hm
    refine ⟨D₁.get k, ?_⟩
    rw [transfer_get D₂ h₁ ((hk k).mpr (mem_keys_of_bwd e))]
    exact get_of_fwd (h₂.bwd_fwd.mp e)
  · refine ⟨m, ?_⟩
    unfold transfer
    rw [h₁.bwd_none.mpr (by omega)]

end Dict

namespace LoadDump

theorem mem_stateNames {d : AutDesc} {q : String} :
    q ∈ stateNames d ↔ q ∈ d.final ∨ ∃ t, t ∈ d.trans ∧ (q ∈ t.1 ∨ q = t.2.2) := by
  simp [stateNames, stNames, List.mem_flatMap]

theorem mem_symKeys {d : AutDesc} {k : String × Nat} :
    k ∈ symKeys d ↔ (∃ p, p ∈ d.symbols ∧ (p.1, rankKey p.2) = k) ∨ ∃ t, t ∈ d.trans ∧ symKey t = k := by
  simp [symKeys]

theorem stateNames_congr {d₁ d₂ : AutDesc} (hf : d₁.final ≈ d₂.final) (ht : d₁.trans ≈ d₂.trans) (q : String) :
    q ∈ stateNames d₁ ↔ q ∈ stateNames d₂ := by
  rw [mem_stateNames, mem_stateNames, hf q]
  exact or_congr Iff.rfl (exists_congr fun t => and_congr (ht t) Iff.rfl)

theorem symKeys_congr {d₁ d₂ : AutDesc} (hs : d₁.symbols ≈ d₂.symbols) (ht : d₁.trans ≈ d₂.trans)
    (k : String × Nat) : k ∈ symKeys d₁ ↔ k ∈ symKeys d₂ := by
  rw [mem_symKeys, mem_symKeys]
  exact or_congr (exists_congr fun p => and_congr (hs p) Iff.rfl) (exists_congr fun t => and_congr (ht t) Iff.rfl)

end LoadDump

/-- **C19** the order in which the description lists symbols, final states and transitions (hence the numbering of the
states and the symbols) does not matter.  Two descriptions with the same sets of symbols, final states and transitions
(e.g. permutations of each other), loaded on fresh state dictionaries from the same alphabet: the second automaton is the
image of the first under a bijection `h` of the state numbers and a bijection `g` of the symbol numbers (`h`, `g`
translate the first numbering to the second, name by name), and it accepts the `g`-renamed trees of the first. -/
theorem load_lang_perm (d₁ d₂ : AutDesc) (yd : SymDict) (hyd : yd.Ok) (hs : d₁.symbols ≈ d₂.symbols)
    (hf : d₁.final ≈ d₂.final) (ht : d₁.trans ≈ d₂.trans) :
    ∃ A₁ sd₁ yd₁ A₂ sd₂ yd₂ h g, loadTA d₁ [] yd = .ok (A₁, sd₁, yd₁) ∧ loadTA d₂ [] yd = .ok (A₂, sd₂, yd₂) ∧
      (Function.Injective h ∧ Function.Surjective h) ∧ (Function.Injective g ∧ Function.Surjective g) ∧
      (∀ q, q ∈ sd₁.keys → h (sd₁.get q) = sd₂.get q) ∧ (∀ k, k ∈ yd₁.keys → g (yd₁.get k) = yd₂.get k) ∧
      (∀ r, r ∈ A₂.rules ↔ r ∈ (translateSymbols g (reindex h A₁)).rules) ∧
      (∀ q, q ∈ A₂.final ↔ q ∈ (translateSymbols g (reindex h A₁)).final) ∧
      ∀ t, accepts A₂ (t.mapSyms g) = accepts A₁ t := by
  obtain ⟨A₁, sd₁, yd₁, l1, os1, oy1, _, ks1, ky1, f1, r1⟩ := load_spec d₁ yd hyd
  obtain ⟨A₂, sd₂, yd₂, l2, os2, oy2, _, ks2, ky2, f2, r2⟩ := load_spec d₂ yd hyd
  have hks : ∀ q, q ∈ sd₁.keys ↔ q ∈ sd₂.keys := fun q => by rw [ks1, ks2]; exact stateNames_congr hf ht q
  have hky : ∀ k, k ∈ yd₁.keys ↔ k ∈ yd₂.keys := fun k => by
    rw [ky1, ky2]; exact or_congr Iff.rfl (symKeys_congr hs ht k)
  have hh : ∀ q, q ∈ sd₁.keys → transfer sd₁ sd₂ (sd₁.get q) = sd₂.get q := fun q hq => transfer_get sd₂ os1 hq
  have hg : ∀ k, k ∈ yd₁.keys → transfer yd₁ yd₂ (yd₁.get k) = yd₂.get k := fun k hk => transfer_get yd₂ oy1 hk
  have hrules : ∀ r, r ∈ A₂.rules ↔
      r ∈ (translateSymbols (transfer yd₁ yd₂) (reindex (transfer sd₁ sd₂) A₁)).rules := by
    intro r
    have e : (translateSymbols (transfer yd₁ yd₂) (reindex (transfer sd₁ sd₂) A₁)).rules =
        d₁.trans.map (fun t => ⟨yd₂.get (t.2.1, t.1.length), t.1.map sd₂.get, sd₂.get t.2.2⟩) := by
      simp only [translateSymbols, reindex, r1, List.map_map]
      apply List.map_congr_left
      intro t htm
      simp only [Function.comp, mapSym, mapRule, List.map_map]
      have hkid : ∀ q, q ∈ t.1 → q ∈ sd₁.keys := fun q hq =>
        (ks1 q).mpr (mem_stateNames.mpr (Or.inr ⟨t, htm, Or.inl hq⟩))
      have hpar : t.2.2 ∈ sd₁.keys := (ks1 _).mpr (mem_stateNames.mpr (Or.inr ⟨t, htm, Or.inr rfl⟩))
      have hsym : (t.2.1, t.1.length) ∈ yd₁.keys :=
        (ky1 _).mpr (Or.inr (mem_symKeys.mpr (Or.inr ⟨t, htm, rfl⟩)))
      rw [hg _ hsym, hh _ hpar,
        List.map_congr_left (f := transfer sd₁ sd₂ ∘ sd₁.get) (g := sd₂.get) (fun q hq => hh q (hkid q hq))]
    rw [e, r2, List.mem_map, List.mem_map]
    exact exists_congr fun t => and_congr (ht t).symm Iff.rfl
  have hfinal : ∀ q, q ∈ A₂.final ↔
      q ∈ (translateSymbols (transfer yd₁ yd₂) (reindex (transfer sd₁ sd₂) A₁)).final := by
    intro q
    have e : (translateSymbols (transfer yd₁ yd₂) (reindex (transfer sd₁ sd₂) A₁)).final =
        d₁.final.map sd₂.get := by
      simp only [translateSymbols, reindex, f1, List.map_map]
      apply List.map_congr_left
      intro n hn
      exact hh n ((ks1 n).mpr (mem_stateNames.mpr (Or.inl hn)))
    rw [e, f2, List.mem_map, List.mem_map]
    exact exists_congr fun n => and_congr (hf n).symm Iff.rfl
  have ih := transfer_injective os1 os2 hks
  have ig := transfer_injective oy1 oy2 hky
  refine ⟨A₁, sd₁, yd₁, A₂, sd₂, yd₂, transfer sd₁ sd₂, transfer yd₁ yd₂, l1, l2,
    ⟨ih, transfer_surjective os1 os2 hks⟩, ⟨ig, transfer_surjective oy1 oy2 hky⟩, hh, hg, hrules, hfinal, ?_⟩
  intro t
  rw [lang_perm_invariant A₂ _ hrules hfinal, translateSymbols_lang _ (fun a b e => ig e),
    reindex_inj_lang _ A₁ (fun q q' _ _ e => ih e)]

namespace LoadDump
mutual
/-- a surjective renaming of the symbols reaches every tree -/
theorem mapSyms_surjective (g : Nat → Nat) (gs : Function.Surjective g) : ∀ t : Tree, ∃ t', Tree.mapSyms g t' = t
  | .node f ts => by
    obtain ⟨f', hf⟩ := gs f
    obtain ⟨ts', hts⟩ := mapSymsL_surjective g gs ts
    exact ⟨.node f' ts', by rw [Tree.mapSyms, hf, hts]⟩
theorem mapSymsL_surjective (g : Nat → Nat) (gs : Function.Surjective g) :
    ∀ ts : List Tree, ∃ ts', Tree.mapSymsL g ts' = ts
  | [] => ⟨[], rfl⟩
  | t :: ts => by
    obtain ⟨t', ht⟩ := mapSyms_surjective g gs t
    obtain ⟨ts', hts⟩ := mapSymsL_surjective g gs ts
    exact ⟨t' :: ts', by rw [Tree.mapSymsL, ht, hts]⟩
end
end LoadDump

/-- the emptiness verdict does not depend on the order in which the description lists its parts -/
theorem load_perm_empty (d₁ d₂ : AutDesc) (yd : SymDict) (hyd : yd.Ok) (hs : d₁.symbols ≈ d₂.symbols)
    (hf : d₁.final ≈ d₂.final) (ht : d₁.trans ≈ d₂.trans) :
    ∃ A₁ sd₁ yd₁ A₂ sd₂ yd₂, loadTA d₁ [] yd = .ok (A₁, sd₁, yd₁) ∧ loadTA d₂ [] yd = .ok (A₂, sd₂, yd₂) ∧
      ((∀ t, accepts A₁ t = false) ↔ (∀ t, accepts A₂ t = false)) := by
  obtain ⟨A₁, sd₁, yd₁, A₂, sd₂, yd₂, h, g, l1, l2, _, ⟨_, gs⟩, _, _, _, _, hl⟩ := load_lang_perm d₁ d₂ yd hyd hs hf ht
  refine ⟨A₁, sd₁, yd₁, A₂, sd₂, yd₂, l1, l2, ?_, ?_⟩
  · intro he t
    obtain ⟨t', ht'⟩ := mapSyms_surjective g gs t
    rw [← ht', hl]; exact he t'
  · intro he t
    rw [← hl]; exact he _

/-! ## C19: the dumped-and-reloaded automaton has the same language -/

namespace LoadDump

/-- the name of a state (`""` if it has none) -/
def nameOf (sd : StateDict) (q : Nat) : String := (sd.bwd? q).getD ""
/-- the name of a symbol (`""` if it has none) -/
def symNameOf (yd : SymDict) (f : Nat) : String := ((yd.bwd? f).map (·.1)).getD ""
/-- a rule under the names -/
def namedRule (sd : StateDict) (yd : SymDict) (r : Rule) : List String × String × String :=
  (r.kids.map (nameOf sd), symNameOf yd r.sym, nameOf sd r.parent)

/-- what the dictionaries must provide for an automaton that is to be dumped and reloaded: every state has a name,
different states have different names, and the symbol of every rule is in the alphabet with the number of children of
the rule as its rank -/
structure Dumpable (A : TA) (sd : StateDict) (yd : SymDict) : Prop where
  named : ∀ q, q ∈ A.states → ∃ n, sd.bwd? q = some n
  inj : ∀ q q', q ∈ A.states → q' ∈ A.states → sd.bwd? q = sd.bwd? q' → q = q'
  ranked : ∀ r, r ∈ A.rules → ∃ nm, yd.bwd? r.sym = some (nm, r.kids.length)

theorem backState_nameOf {sd : StateDict} {q : Nat} (h : ∃ n, sd.bwd? q = some n) :
    backState sd q = .ok (nameOf sd q) := by
  obtain ⟨n, hn⟩ := h
  simp [backState, nameOf, hn]

theorem backSym_symNameOf {yd : SymDict} {f : Nat} (h : ∃ k, yd.bwd? f = some k) :
    backSym yd f = .ok (symNameOf yd f) := by
  obtain ⟨k, hk⟩ := h
  simp [backSym, symNameOf, hk]

/-- the dump of a dumpable automaton: its final states and rules under the names -/
theorem dumpTA_dumpable {A : TA} {sd : StateDict} {yd : SymDict} (hD : Dumpable A sd yd) :
    dumpTA A sd yd = .ok (dumpOf (A.final.map (nameOf sd)) (A.rules.map (namedRule sd yd))) := by
  unfold dumpTA
  rw [mapE_ok (backState sd) (nameOf sd) A.final
      (fun q hq => backState_nameOf (hD.named q (Rn.final_mem_states hq))),
    mapE_ok (dumpRule sd yd) (namedRule sd yd) A.rules ?_]
  · rfl
  · intro r hr
    unfold dumpRule namedRule
    rw [mapE_ok (backState sd) (nameOf sd) r.kids
        (fun q hq => backState_nameOf (hD.named q (Rn.kid_mem_states hr hq))),
      backSym_symNameOf (by obtain ⟨nm, h⟩ := hD.ranked r hr; exact ⟨_, h⟩),
      backState_nameOf (hD.named _ (Rn.parent_mem_states hr))]

/-- loading any description whose final states and transitions are those of `A` under the names (whatever its `symbols`
and `states`), on a fresh state dictionary and the same alphabet, gives `A` with its states renumbered injectively -/
theorem reload_lang (A : TA) (sd : StateDict) (yd : SymDict) (hyd : yd.Ok) (hD : Dumpable A sd yd) (d : AutDesc)
    (hf : d.final ≈ A.final.map (nameOf sd)) (ht : d.trans ≈ A.rules.map (namedRule sd yd)) :
    ∃ A' sd' yd', loadTA d [] yd = .ok (A', sd', yd') ∧ sd'.Ok ∧ yd'.Ok ∧ Dict.Sub yd yd' ∧
      ∃ h, InjOnStates h A ∧ (∀ r, r ∈ A'.rules ↔ r ∈ (reindex h A).rules) ∧
        (∀ q, q ∈ A'.final ↔ q ∈ (reindex h A).final) ∧ ∀ t, accepts A' t = accepts A t := by
  obtain ⟨A', sd', yd', l, os, oy, sub, ks, _, f', hr'⟩ := load_spec d yd hyd
  have hrule : ∀ r, r ∈ A.rules →
      (⟨yd'.get ((namedRule sd yd r).2.1, (namedRule sd yd r).1.length), (namedRule sd yd r).1.map sd'.get,
        sd'.get (namedRule sd yd r).2.2⟩ : Rule) = mapRule (fun q => sd'.get (nameOf sd q)) r := by
    intro r hr
    obtain ⟨nm, hnm⟩ := hD.ranked r hr
    have e1 : symNameOf yd r.sym = nm := by simp [symNameOf, hnm]
    have e2 : yd'.get (nm, r.kids.length) = r.sym := get_of_fwd (sub _ _ (hyd.bwd_fwd.mp hnm))
    simp only [namedRule, List.length_map, List.map_map, mapRule, e1, e2]
    rfl
  have hrules : ∀ r, r ∈ A'.rules ↔ r ∈ (reindex (fun q => sd'.get (nameOf sd q)) A).rules := by
    intro r'
    simp only [hr', reindex, List.mem_map]
    constructor
    · rintro ⟨t, htm, rfl⟩
      obtain ⟨r, hr, rfl⟩ := List.mem_map.mp ((ht t).mp htm)
      exact ⟨r, hr, (hrule r hr).symm⟩
    · rintro ⟨r, hr, rfl⟩
      exact ⟨namedRule sd yd r, (ht _).mpr (List.mem_map.mpr ⟨r, hr, rfl⟩), hrule r hr⟩
  have hfinal : ∀ q, q ∈ A'.final ↔ q ∈ (reindex (fun q => sd'.get (nameOf sd q)) A).final := by
    intro q'
    simp only [f', reindex, List.mem_map]
    constructor
    · rintro ⟨n, hn, rfl⟩
      obtain ⟨q, hq, rfl⟩ := List.mem_map.mp ((hf n).mp hn)
      exact ⟨q, hq, rfl⟩
    · rintro ⟨q, hq, rfl⟩
      exact ⟨nameOf sd q, (hf _).mpr (List.mem_map.mpr ⟨q, hq, rfl⟩), rfl⟩
  have hkey : ∀ q, q ∈ A.states → nameOf sd q ∈ sd'.keys := by
    intro q hq
    rw [ks, mem_stateNames]
    rcases Rn.mem_states.mp hq with ⟨r, hr, hc⟩ | hfin
    · refine Or.inr ⟨namedRule sd yd r, (ht _).mpr (List.mem_map.mpr ⟨r, hr, rfl⟩), ?_⟩
      rcases hc with hc | hc
      · right; rw [hc]; rfl
      · left; exact List.mem_map.mpr ⟨q, hc, rfl⟩
    · exact Or.inl ((hf _).mpr (List.mem_map.mpr ⟨q, hfin, rfl⟩))
  have hinj : InjOnStates (fun q => sd'.get (nameOf sd q)) A := by
    intro q q' hq hq' e
    have hn : nameOf sd q = nameOf sd q' := os.get_inj (hkey q hq) (hkey q' hq') e
    obtain ⟨n, e1⟩ := hD.named q hq
    obtain ⟨n', e2⟩ := hD.named q' hq'
    have h1 : nameOf sd q = n := by simp [nameOf, e1]
    have h2 : nameOf sd q' = n' := by simp [nameOf, e2]
    exact hD.inj q q' hq hq' (by rw [e1, e2, ← h1, ← h2, hn])
  refine ⟨A', sd', yd', l, os, oy, sub, _, hinj, hrules, hfinal, ?_⟩
  intro t
  rw [lang_perm_invariant A' _ hrules hfinal, reindex_inj_lang _ A hinj]

/-- an automaton that was loaded is dumpable with the dictionaries that the load left -/
theorem loadFrom_dumpable (s : LSt) (hs : s.Ok) (d : AutDesc) :
    Dumpable (loadFrom s d).1 (loadFrom s d).2.sd (loadFrom s d).2.yd := by
  obtain ⟨h, rf, rr, hc⟩ := loadFrom_spec s hs d
  have hnamed : ∀ q, q ∈ (loadFrom s d).1.states → ∃ n, (loadFrom s d).2.sd.bwd? q = some n := by
    intro q hq
    rcases Rn.mem_states.mp hq with ⟨r, hr, hcase⟩ | hfin
    · rw [rr] at hr
      obtain ⟨t, ht, rfl⟩ := List.mem_map.mp hr
      rcases hcase with e | hk
      · rw [e]; exact ⟨_, h.ok.sd.bwd_get (hc t ht).parent⟩
      · obtain ⟨n, hn, rfl⟩ := List.mem_map.mp hk
        exact ⟨_, h.ok.sd.bwd_get ((hc t ht).kids n hn)⟩
    · rw [rf] at hfin
      obtain ⟨n, hn, rfl⟩ := List.mem_map.mp hfin
      exact ⟨_, h.ok.sd.bwd_get ((h.sdKeys n).mpr (Or.inr (by simp [stateNames, hn])))⟩
  refine ⟨hnamed, ?_, ?_⟩
  · intro q q' hq _ e
    obtain ⟨n, hn⟩ := hnamed q hq
    exact h.ok.sd.injective.2 q q' n hn (e ▸ hn)
  · intro r hr
    rw [rr] at hr
    obtain ⟨t, ht, rfl⟩ := List.mem_map.mp hr
    exact ⟨t.2.1, by simpa [ruleOf, symKey] using h.ok.yd.bwd_get (hc t ht).sym⟩

end LoadDump

/-- **C19** an automaton is equivalent to its dumped-and-reloaded form.  For any automaton with dictionaries that name
its states injectively and contain its symbols with their ranks (`Dumpable`; the alphabet in the state that the weak
translator keeps, `yd.Ok`): the dump succeeds, and loading the dumped description (fresh state dictionary, the same
alphabet) gives an automaton with the same language (it is `A` with the states renumbered). -/
theorem dump_reload_lang (A : TA) (sd : StateDict) (yd : SymDict) (hyd : yd.Ok) (hD : Dumpable A sd yd) :
    ∃ d₁ A' sd' yd', dumpTA A sd yd = .ok d₁ ∧ loadTA d₁ [] yd = .ok (A', sd', yd') ∧
      ∀ t, accepts A' t = accepts A t := by
  obtain ⟨A', sd', yd', l, _, _, _, _, _, _, _, hl⟩ :=
    reload_lang A sd yd hyd hD (dumpOf (A.final.map (nameOf sd)) (A.rules.map (namedRule sd yd)))
      (normDesc_final _) (normDesc_trans _)
  exact ⟨_, A', sd', yd', dumpTA_dumpable hD, l, hl⟩

/-- **C19** the same through the text (`DumpToString`, then `LoadFromString`), when the names are good -/
theorem dump_reload_text_lang (A : TA) (sd : StateDict) (yd : SymDict) (hyd : yd.Ok) (hD : Dumpable A sd yd)
    (hwf : (dumpOf (A.final.map (nameOf sd)) (A.rules.map (namedRule sd yd))).WellFormed) :
    ∃ txt A' sd' yd', dumpString A sd yd = .ok txt ∧ loadString txt [] yd = .ok (A', sd', yd') ∧
      ∀ t, accepts A' t = accepts A t := by
  obtain ⟨d₂, hp, hf, ht⟩ := parse_serialize _ hwf
  obtain ⟨A', sd', yd', l, _, _, _, _, _, _, _, hl⟩ :=
    reload_lang A sd yd hyd hD d₂ (fun x => (hf x).trans (normDesc_final _ x)) (fun x => (ht x).trans (normDesc_trans _ x))
  refine ⟨serialize (dumpOf (A.final.map (nameOf sd)) (A.rules.map (namedRule sd yd))), A', sd', yd', ?_, ?_, hl⟩
  · unfold dumpString; rw [dumpTA_dumpable hD]
  · unfold loadString; rw [hp]; exact l

/-- **C19** for loaded automata, the whole chain: load a well-formed description, dump it to text, load the text
(fresh state dictionary, the alphabet as it is): the two automata have the same language -/
theorem load_dump_reload_lang (d : AutDesc) (yd : SymDict) (hyd : yd.Ok) (hwf : d.WellFormed) :
    ∃ A sd yd' txt A' sd' yd'', loadTA d [] yd = .ok (A, sd, yd') ∧ dumpString A sd yd' = .ok txt ∧
      loadString txt [] yd' = .ok (A', sd', yd'') ∧ ∀ t, accepts A' t = accepts A t := by
  obtain ⟨h, _⟩ := loadFrom_spec ⟨[], 0, yd⟩ (init_ok hyd) d
  have hD := loadFrom_dumpable ⟨[], 0, yd⟩ (init_ok hyd) d
  have e := (dumpTA_dumpable hD).symm.trans (dump_loadFrom ⟨[], 0, yd⟩ (init_ok hyd) d)
  have hwf' := dumpOf_wellFormed d hwf
  rw [← Except.ok.inj e] at hwf'
  obtain ⟨txt, A', sd', yd'', h1, h2, h3⟩ := dump_reload_text_lang _ _ _ h.ok.yd hD hwf'
  exact ⟨_, _, _, txt, A', sd', yd'', rfl, h1, h2, h3⟩

/-! ## where `Ranked` matters: symbol names -/

theorem LoadDump.symNameOf_get {yd : SymDict} (h : yd.Ok) {k : String × Nat} (hk : k ∈ yd.keys) :
    symNameOf yd (yd.get k) = k.1 := by
  unfold symNameOf; rw [h.bwd_get hk]; rfl

/-- The dump writes only the NAME of a symbol.  When the transitions use every symbol name with one number of children
(`d.Ranked`), rules of the loaded automaton whose symbols have the same name have the same symbol (without it they need
not: `LoadDumpEx.unranked_names`). -/
theorem load_ranked_names (d : AutDesc) (yd : SymDict) (hyd : yd.Ok) (hr : d.Ranked) :
    ∃ A sd yd', loadTA d [] yd = .ok (A, sd, yd') ∧
      ∀ r r', r ∈ A.rules → r' ∈ A.rules → symNameOf yd' r.sym = symNameOf yd' r'.sym → r.sym = r'.sym := by
  obtain ⟨h, _, rr, hc⟩ := loadFrom_spec ⟨[], 0, yd⟩ (init_ok hyd) d
  refine ⟨_, _, _, rfl, ?_⟩
  intro r r' hr1 hr2 e
  rw [rr] at hr1 hr2
  obtain ⟨t, ht, rfl⟩ := List.mem_map.mp hr1
  obtain ⟨t', ht', rfl⟩ := List.mem_map.mp hr2
  have n1 : symNameOf (loadFrom ⟨[], 0, yd⟩ d).2.yd (ruleOf (loadFrom ⟨[], 0, yd⟩ d).2 t).sym = t.2.1 :=
    symNameOf_get h.ok.yd (hc t ht).sym
  have n2 : symNameOf (loadFrom ⟨[], 0, yd⟩ d).2.yd (ruleOf (loadFrom ⟨[], 0, yd⟩ d).2 t').sym = t'.2.1 :=
    symNameOf_get h.ok.yd (hc t' ht').sym
  rw [n1, n2] at e
  have : symKey t = symKey t' := by simp only [symKey, e, hr t ht t' ht' e]
  simp only [ruleOf, this]

/-! ## the counter of the state translator -/

/-- If the state counter starts at the size of the state dictionary (`s.cnt = s.sd.length`, part of `s.Ok`) – which
`LoadFromAutDesc (desc, stateDict)` guarantees for an EMPTY `stateDict` only, since it starts the counter at 0 – the round
trip holds for pre-filled dictionaries too: old entries are kept, new names get fresh numbers. -/
theorem load_dump_roundtrip_counter_at_size (d : AutDesc) (sd : StateDict) (yd : SymDict) (hsd : sd.Ok) (hyd : yd.Ok) :
    ∃ d', dumpTA (loadFrom ⟨sd, sd.length, yd⟩ d).1 (loadFrom ⟨sd, sd.length, yd⟩ d).2.sd
        (loadFrom ⟨sd, sd.length, yd⟩ d).2.yd = .ok d' ∧
      (loadFrom ⟨sd, sd.length, yd⟩ d).2.sd.Ok ∧ Dict.Sub sd (loadFrom ⟨sd, sd.length, yd⟩ d).2.sd ∧
      d'.final ≈ d.final ∧ d'.trans ≈ d.trans := by
  have hs : (⟨sd, sd.length, yd⟩ : LSt).Ok := ⟨hsd, rfl, hyd⟩
  obtain ⟨h, _⟩ := loadFrom_spec _ hs d
  exact ⟨_, dump_loadFrom _ hs d, h.ok.sd, h.sd, normDesc_final _, normDesc_trans _⟩

/-! ## non-vacuity, executed instances, and the counterexample for a pre-filled state dictionary -/
namespace LoadDumpEx
open TimbukEx

-- `exD` (names with `-` and `>`, `f` with two ranks, duplicates, unsorted) and `exE` are well-formed
example : exD.WellFormed ∧ exE.WellFormed ∧ exE.Ranked ∧ ¬ exD.Ranked := by decide

/-- the load of `exE`, executed: final states `r ↦ 0`, `q ↦ 1` first; symbols `(a,0) ↦ 0`, `(f,2) ↦ 1` -/
example : loadTA exE [] [] = .ok
    (⟨[⟨1, [1, 0], 0⟩, ⟨0, [], 1⟩, ⟨1, [0, 0], 1⟩], [0, 1, 0]⟩, [("r", 0), ("q", 1)], [(("a", 0), 0), (("f", 2), 1)]) := rfl

/-- … and its dump: the transitions and final states of `exE`, sorted, without duplicates -/
example : dumpTA ⟨[⟨1, [1, 0], 0⟩, ⟨0, [], 1⟩, ⟨1, [0, 0], 1⟩], [0, 1, 0]⟩ [("r", 0), ("q", 1)]
    [(("a", 0), 0), (("f", 2), 1)] = .ok
    ⟨"", [], [], ["q", "r"], [([], "a", "q"), (["q", "r"], "f", "r"), (["r", "r"], "f", "q")]⟩ := rfl

example : ∃ A sd yd d', loadTA exD [] [] = .ok (A, sd, yd) ∧ sd.Ok ∧ yd.Ok ∧ dumpTA A sd yd = .ok d' ∧
    d'.final ≈ exD.final ∧ d'.trans ≈ exD.trans := load_dump_roundtrip exD

/-- an alphabet in use -/
def ydUsed : SymDict := [(("a", 0), 0), (("g", 1), 1), (("f", 3), 2)]
theorem ydUsed_ok : ydUsed.Ok := ⟨by decide, by decide⟩

example : ∃ A sd yd' d', loadTA exD [] ydUsed = .ok (A, sd, yd') ∧ sd.Ok ∧ yd'.Ok ∧ dumpTA A sd yd' = .ok d' ∧
    d'.final ≈ exD.final ∧ d'.trans ≈ exD.trans := load_dump_roundtrip_shared exD ydUsed ydUsed_ok

example : ∃ A sd yd txt A' sd' yd' d₃, loadTA exE [] [] = .ok (A, sd, yd) ∧ dumpString A sd yd = .ok txt ∧
    loadString txt [] yd = .ok (A', sd', yd') ∧ dumpTA A' sd' yd' = .ok d₃ ∧
    d₃.final ≈ exE.final ∧ d₃.trans ≈ exE.trans := text_roundtrip exE (by decide)

/-- `exE` with everything listed in another order -/
def exE' : AutDesc :=
  { name := "B", symbols := [("f", 2), ("a", 0)], states := [], final := ["q", "r"],
    trans := [(["r", "r"], "f", "q"), (["q", "r"], "f", "r"), ([], "a", "q")] }

theorem exE_exE' : exE.symbols ≈ exE'.symbols ∧ exE.final ≈ exE'.final ∧ exE.trans ≈ exE'.trans := by
  refine ⟨fun x => ?_, fun x => ?_, fun x => ?_⟩ <;> simp [exE, exE'] <;> grind

/-- the two loads number states and symbols differently (here both numberings are swapped) -/
example : loadTA exE' [] [] = .ok
    (⟨[⟨0, [1, 1], 0⟩, ⟨0, [0, 1], 1⟩, ⟨1, [], 0⟩], [0, 1]⟩, [("q", 0), ("r", 1)], [(("f", 2), 0), (("a", 0), 1)]) := rfl

example : ∃ A₁ sd₁ yd₁ A₂ sd₂ yd₂ h g, loadTA exE [] [] = .ok (A₁, sd₁, yd₁) ∧ loadTA exE' [] [] = .ok (A₂, sd₂, yd₂) ∧
    (Function.Injective h ∧ Function.Surjective h) ∧ (Function.Injective g ∧ Function.Surjective g) ∧
    (∀ q, q ∈ sd₁.keys → h (sd₁.get q) = sd₂.get q) ∧ (∀ k, k ∈ yd₁.keys → g (yd₁.get k) = yd₂.get k) ∧
    (∀ r, r ∈ A₂.rules ↔ r ∈ (translateSymbols g (reindex h A₁)).rules) ∧
    (∀ q, q ∈ A₂.final ↔ q ∈ (translateSymbols g (reindex h A₁)).final) ∧
    ∀ t, accepts A₂ (t.mapSyms g) = accepts A₁ t :=
  load_lang_perm exE exE' [] ok_nil exE_exE'.1 exE_exE'.2.1 exE_exE'.2.2

/-- a dumpable automaton that was not loaded: states 5 and 7, symbols 0 (`a`, rank 0) and 2 (`f`, rank 2) -/
def exA : TA := ⟨[⟨0, [], 5⟩, ⟨2, [5, 5], 7⟩, ⟨2, [7, 5], 7⟩], [7]⟩
def exSd : StateDict := [("q5", 5), ("top", 7), ("other", 1)]
def exYd : SymDict := [(("a", 0), 0), (("b", 0), 1), (("f", 2), 2)]

theorem exYd_ok : exYd.Ok := ⟨by decide, by decide⟩
theorem exA_dumpable : Dumpable exA exSd exYd := by
  have hst : ∀ q, q ∈ exA.states → q = 5 ∨ q = 7 := by decide
  refine ⟨?_, ?_, ?_⟩
  · intro q hq; rcases hst q hq with rfl | rfl <;> exact ⟨_, rfl⟩
  · intro q q' hq hq' e
    rcases hst q hq with rfl | rfl <;> rcases hst q' hq' with rfl | rfl <;> first | rfl | (exfalso; revert e; decide)
  · intro r hr
    simp only [exA, List.mem_cons, List.not_mem_nil, or_false] at hr
    rcases hr with rfl | rfl | rfl <;> exact ⟨_, rfl⟩

example : ∃ d₁ A' sd' yd', dumpTA exA exSd exYd = .ok d₁ ∧ loadTA d₁ [] exYd = .ok (A', sd', yd') ∧
    ∀ t, accepts A' t = accepts exA t := dump_reload_lang exA exSd exYd exYd_ok exA_dumpable

example : dumpTA exA exSd exYd = .ok
    ⟨"", [], [], ["top"], [([], "a", "q5"), (["q5", "q5"], "f", "top"), (["top", "q5"], "f", "top")]⟩ := rfl

example : (dumpOf (exA.final.map (nameOf exSd)) (exA.rules.map (namedRule exSd exYd))).WellFormed := by decide

example : ∃ A sd yd' txt A' sd' yd'', loadTA exD [] ydUsed = .ok (A, sd, yd') ∧ dumpString A sd yd' = .ok txt ∧
    loadString txt [] yd' = .ok (A', sd', yd'') ∧ ∀ t, accepts A' t = accepts A t :=
  load_dump_reload_lang exD ydUsed ydUsed_ok (by decide)

example : ∃ txt A' sd' yd', dumpString exA exSd exYd = .ok txt ∧ loadString txt [] exYd = .ok (A', sd', yd') ∧
    ∀ t, accepts A' t = accepts exA t := dump_reload_text_lang exA exSd exYd exYd_ok exA_dumpable (by decide)

/-- `dump_load_dump` on an automaton that was not loaded, reloading on another alphabet -/
example : ∃ A' sd' yd' d₃, dumpString exA exSd exYd = .ok (serialize (dumpOf ["top"]
      [([], "a", "q5"), (["q5", "q5"], "f", "top"), (["top", "q5"], "f", "top")])) ∧
    loadString (serialize (dumpOf ["top"] [([], "a", "q5"), (["q5", "q5"], "f", "top"), (["top", "q5"], "f", "top")]))
      [] ydUsed = .ok (A', sd', yd') ∧ sd'.Ok ∧ yd'.Ok ∧ dumpTA A' sd' yd' = .ok d₃ ∧
    d₃.final ≈ (dumpOf ["top"] [([], "a", "q5"), (["q5", "q5"], "f", "top"), (["top", "q5"], "f", "top")]).final ∧
    d₃.trans ≈ (dumpOf ["top"] [([], "a", "q5"), (["q5", "q5"], "f", "top"), (["top", "q5"], "f", "top")]).trans :=
  dump_load_dump exA exSd exYd ydUsed ydUsed_ok _ rfl (by decide)

/-- without `Ranked`: in the load of `exD` the rules `f(q0, q1) -> q-` and `f(q0, q1, >r) -> q0` have symbols with the
same name `f` but different numbers -/
theorem unranked_names : ∃ A sd yd, loadTA exD [] [] = .ok (A, sd, yd) ∧
    ∃ r r', r ∈ A.rules ∧ r' ∈ A.rules ∧ symNameOf yd r.sym = symNameOf yd r'.sym ∧ r.sym ≠ r'.sym :=
  ⟨_, _, _, rfl, ⟨0, [0, 1], 2⟩, ⟨4, [0, 1, 3], 0⟩, by decide, by decide, by decide, by decide⟩

example : ∃ A sd yd', loadTA exE [] ydUsed = .ok (A, sd, yd') ∧
    ∀ r r', r ∈ A.rules → r' ∈ A.rules → symNameOf yd' r.sym = symNameOf yd' r'.sym → r.sym = r'.sym :=
  load_ranked_names exE ydUsed ydUsed_ok (by decide)

/-! ### a pre-filled state dictionary: the counter restarts at 0 -/

/-- a first automaton with the single state `p` … -/
def pre0 : AutDesc := { name := "", symbols := [], states := [], final := ["p"], trans := [([], "b", "p")] }
/-- … leaves this state dictionary (it is `Ok`) -/
def preSd : StateDict := [("p", 0)]
example : loadTA pre0 [] [] = .ok (⟨[⟨0, [], 0⟩], [0]⟩, preSd, [(("b", 0), 0)]) := rfl
theorem preSd_ok : preSd.Ok := ⟨by decide, by decide⟩

/-- a second description, loaded with the SAME state dictionary: `a -> q`, `b -> p`, final state `p` -/
def preD : AutDesc :=
  { name := "", symbols := [], states := [], final := ["p"], trans := [([], "a", "q"), ([], "b", "p")] }
def preYd : SymDict := [(("b", 0), 0)]

/-- `LoadFromAutDesc (desc, stateDict)` restarts the state counter at 0: the new name `q` gets the number 0 that `p`
has.  The forward map then has `p ↦ 0` and `q ↦ 0`, the backward map still `0 ↦ p` (the real library prints
"backward mapping for 0 already found: p" and carries on, the `assert (false)` being compiled out). -/
theorem prefilled_clash : ∃ A sd yd, loadTA preD preSd preYd = .ok (A, sd, yd) ∧
    sd = [("p", 0), ("q", 0)] ∧ sd.fwd? "p" = some 0 ∧ sd.fwd? "q" = some 0 ∧ sd.bwd? 0 = some "p" ∧
    A.rules = [⟨1, [], 0⟩, ⟨0, [], 0⟩] ∧ A.final = [0] :=
  ⟨_, _, _, rfl, rfl, rfl, rfl, rfl, rfl, rfl⟩

/-- hence the dictionary is not injective any more -/
theorem prefilled_not_injective : ∃ A sd yd, loadTA preD preSd preYd = .ok (A, sd, yd) ∧
    ¬ (∀ k k' v, sd.fwd? k = some v → sd.fwd? k' = some v → k = k') :=
  ⟨_, _, _, rfl, fun h => absurd (h "p" "q" 0 rfl rfl) (by decide)⟩

/-- … the round trip fails: the dump has `a -> p` instead of `a -> q` -/
theorem prefilled_roundtrip_fails : ∃ A sd yd d', loadTA preD preSd preYd = .ok (A, sd, yd) ∧
    dumpTA A sd yd = .ok d' ∧ ([], "a", "q") ∈ preD.trans ∧ ([], "a", "q") ∉ d'.trans ∧ ([], "a", "p") ∈ d'.trans ∧
    ([], "a", "p") ∉ preD.trans :=
  ⟨_, _, _, ⟨"", [], [], ["p"], [([], "a", "p"), ([], "b", "p")]⟩, rfl, rfl, by decide, by decide, by decide, by decide⟩

/-- … and the language is wrong: the loaded automaton accepts the leaf `a` (symbol number 1), which the description
does not (`q` is not final); the load with a fresh state dictionary is right -/
theorem prefilled_language_changes :
    (∃ A sd yd, loadTA preD preSd preYd = .ok (A, sd, yd) ∧ yd.fwd? ("a", 0) = some 1 ∧
      accepts A (.node 1 []) = true) ∧
    (∃ A sd yd, loadTA preD [] preYd = .ok (A, sd, yd) ∧ yd.fwd? ("a", 0) = some 1 ∧
      accepts A (.node 1 []) = false) :=
  ⟨⟨_, _, _, rfl, rfl, by decide⟩, ⟨_, _, _, rfl, rfl, by decide⟩⟩

/-- with the counter at the size of the dictionary the same load is fine -/
example : (loadFrom ⟨preSd, preSd.length, preYd⟩ preD).2.sd = [("p", 0), ("q", 1)] := rfl

end LoadDumpEx

end Vata
