import Vata.LtsUtil
/-!
# The key layout of `SimulationEngine::init` (`key_`, `labelMap_`) as coded, and what `copyLabels` copies

`SC.mkLayout rowSize states delta1` is the loop "build counter maps" of `SimulationEngine::init`.  For sets `delta1[a]`
without duplicates and with states `< states`:

* `layout_key`: the `j`-th state of `delta1[a]` gets the key index `off a + j`, where `off a` is the number of keyed pairs of
  the labels before `a` (so the indices are consecutive, label after label);
* `layout_labelMap`: `labelMap_[a] = (off a / rowSize, (off a + n - 1) / rowSize + 1)` for `n = |delta1[a]| > 0`;
* `layout_row_in_range`: hence the row `(off a + j) / rowSize` of every keyed pair of label `a` lies in
  `[labelMap_[a].first, labelMap_[a].second)` – at a row boundary (`off a + n` a multiple of `rowSize`) just as well;
* `copiedRows_covers`: `copyLabels(labels, parent)` copies the row of every keyed pair of every label of `labels`
  (provided the parent has the rows of that label): the new block starts with the parent's counters for its inset.
-/
namespace Vata.LU.SC.Layout

/-- the inner loop: `key_[a * states + q] = x++` for `q ∈ delta1[a]` -/
def inner (a states : Nat) (d : List Nat) (key : List Nat) (x : Nat) : List Nat × Nat :=
  d.foldl (fun (kx : List Nat × Nat) q => (kx.1.set (a * states + q) kx.2, kx.2 + 1)) (key, x)

theorem inner_nil (a states : Nat) (key : List Nat) (x : Nat) : inner a states [] key x = (key, x) := rfl

theorem inner_cons (a states q : Nat) (r : List Nat) (key : List Nat) (x : Nat) :
    inner a states (q :: r) key x = inner a states r (key.set (a * states + q) x) (x + 1) := rfl

theorem inner_snd (a states : Nat) (d : List Nat) (key : List Nat) (x : Nat) : (inner a states d key x).2 = x + d.length := by
  induction d generalizing key x with
  | nil => rfl
  | cons q r ih => rw [inner_cons, ih]; simp; omega

theorem inner_length (a states : Nat) (d : List Nat) (key : List Nat) (x : Nat) :
    (inner a states d key x).1.length = key.length := by
  induction d generalizing key x with
  | nil => rfl
  | cons q r ih => rw [inner_cons, ih]; simp

/-- positions that are not written keep their value -/
theorem inner_other (a states : Nat) (d : List Nat) (key : List Nat) (x p : Nat) (hp : ∀ q ∈ d, p ≠ a * states + q) :
    (inner a states d key x).1.getD p 0 = key.getD p 0 := by
  induction d generalizing key x with
  | nil => rfl
  | cons q r ih =>
    rw [inner_cons, ih _ _ (fun q' hq' => hp q' (List.mem_cons_of_mem _ hq'))]
    have : a * states + q ≠ p := fun e => hp q List.mem_cons_self e.symm
    simp [List.getD_eq_getElem?_getD, this]

/-- the `j`-th state gets `x + j` -/
theorem inner_written (a states : Nat) (d : List Nat) (key : List Nat) (x j : Nat) (hnd : d.Nodup) (hj : j < d.length)
    (hb : a * states + d.getD j 0 < key.length) :
    (inner a states d key x).1.getD (a * states + d.getD j 0) 0 = x + j := by
  induction d generalizing key x j with
  | nil => cases hj
  | cons q r ih =>
    rw [inner_cons]
    have hnd' := List.nodup_cons.1 hnd
    cases j with
    | zero =>
      simp only [List.getD_cons_zero]
      rw [inner_other]
      · simp only [List.getD_cons_zero] at hb
        simp [List.getD_eq_getElem?_getD, hb]
      · intro q' hq' e
        have : q = q' := by omega
        exact hnd'.1 (this ▸ hq')
    | succ j =>
      simp only [List.getD_cons_succ] at hb ⊢
      have hj' : j < r.length := by simpa using hj
      rw [ih _ _ _ hnd'.2 hj' (by simpa using hb)]
      omega

theorem getD_mem {l : List Nat} {j : Nat} (hj : j < l.length) : l.getD j 0 ∈ l := by
  rw [List.getD_eq_getElem?_getD, List.getElem?_eq_getElem hj]; exact List.getElem_mem hj

/-- the state of the outer loop -/
abbrev St := List Nat × List (Nat × Nat) × Nat × Nat

/-- the body of the outer loop (label `a = st.2.2.2`, running index `x = st.2.2.1`) -/
def outer (rowSize states : Nat) (st : St) (d : List Nat) : St :=
  ((inner st.2.2.2 states d st.1 st.2.2.1).1,
   st.2.1 ++ [(st.2.2.1 / rowSize,
     ((st.2.2.1 + d.length + (2 ^ 64 - 1)) % 2 ^ 64) / rowSize + (if d.length > 0 then 1 else 0))],
   (inner st.2.2.2 states d st.1 st.2.2.1).2, st.2.2.2 + 1)

theorem mkLayout_eq (rowSize states : Nat) (delta1 : List (List Nat)) :
    mkLayout rowSize states delta1 =
      ((delta1.foldl (outer rowSize states) (List.replicate (delta1.length * states) (2 ^ 64 - 1), [], 0, 0)).1,
       (delta1.foldl (outer rowSize states) (List.replicate (delta1.length * states) (2 ^ 64 - 1), [], 0, 0)).2.1) := rfl

/-- number of keyed pairs of the labels before `a` -/
def off (delta1 : List (List Nat)) (a : Nat) : Nat := ((delta1.take a).map List.length).sum

theorem off_succ (delta1 : List (List Nat)) (a : Nat) (ha : a < delta1.length) :
    off delta1 (a + 1) = off delta1 a + (delta1.getD a []).length := by
  unfold off
  rw [List.take_add_one, List.map_append, List.sum_append]
  simp [List.getD_eq_getElem?_getD, List.getElem?_eq_getElem ha]

/-- the invariant of the outer loop after the labels `< a` -/
structure OInv (rowSize states : Nat) (delta1 : List (List Nat)) (a : Nat) (st : St) : Prop where
  len : st.1.length = delta1.length * states
  lmLen : st.2.1.length = a
  xEq : st.2.2.1 = off delta1 a
  aEq : st.2.2.2 = a
  keyed : ∀ b j, b < a → j < (delta1.getD b []).length →
    st.1.getD (b * states + (delta1.getD b []).getD j 0) 0 = off delta1 b + j
  lm : ∀ b, b < a → st.2.1.getD b (0, 0) =
    (off delta1 b / rowSize,
     ((off delta1 b + (delta1.getD b []).length + (2 ^ 64 - 1)) % 2 ^ 64) / rowSize +
       (if (delta1.getD b []).length > 0 then 1 else 0))
  rest : ∀ p, a * states ≤ p → st.1.getD p 0 = (List.replicate (delta1.length * states) (2 ^ 64 - 1)).getD p 0

theorem mul_add_lt {a b states q : Nat} (hab : a < b) (hq : q < states) : a * states + q < b * states := by
  have : (a + 1) * states ≤ b * states := Nat.mul_le_mul_right _ hab
  have : (a + 1) * states = a * states + states := by rw [Nat.add_mul, Nat.one_mul]
  omega

theorem oinv_step {rowSize states : Nat} {delta1 : List (List Nat)} {a : Nat} {st : St}
    (hd : ∀ d ∈ delta1, d.Nodup ∧ ∀ q ∈ d, q < states) (ha : a < delta1.length)
    (h : OInv rowSize states delta1 a st) : OInv rowSize states delta1 (a + 1) (outer rowSize states st (delta1.getD a [])) := by
  have hda : delta1.getD a [] ∈ delta1 := by
    simp [List.getD_eq_getElem?_getD, List.getElem?_eq_getElem ha]
  obtain ⟨hnd, hlt⟩ := hd _ hda
  have hA := h.aEq
  have hX := h.xEq
  refine ⟨?_, ?_, ?_, ?_, ?_, ?_, ?_⟩
  · simp only [outer]; rw [inner_length]; exact h.len
  · simp [outer, h.lmLen]
  · simp only [outer]; rw [inner_snd, hX, off_succ _ _ ha]
  · simp [outer, hA]
  · intro b j hb hj
    simp only [outer]
    rcases Nat.lt_succ_iff_lt_or_eq.1 hb with hb' | rfl
    · rw [inner_other]
      · exact h.keyed b j hb' hj
      · intro q hq e
        have hb2 : b < delta1.length := Nat.lt_trans hb' ha
        have hdb : delta1.getD b [] ∈ delta1 := by
          simp [List.getD_eq_getElem?_getD, List.getElem?_eq_getElem hb2]
        have hq' : (delta1.getD b []).getD j 0 < states := (hd _ hdb).2 _ (getD_mem hj)
        have := mul_add_lt (states := states) hb' hq'
        rw [hA] at e
        omega
    · rw [hA, hX]
      apply inner_written _ _ _ _ _ _ hnd hj
      rw [h.len]
      exact mul_add_lt ha (hlt _ (getD_mem hj))
  · intro b hb
    simp only [outer]
    rcases Nat.lt_succ_iff_lt_or_eq.1 hb with hb' | rfl
    · have : b < st.2.1.length := by rw [h.lmLen]; exact hb'
      rw [List.getD_eq_getElem?_getD, List.getElem?_append_left this, ← List.getD_eq_getElem?_getD]
      exact h.lm b hb'
    · rw [List.getD_eq_getElem?_getD, List.getElem?_append_right (by rw [h.lmLen]; exact Nat.le_refl _)]
      simp [h.lmLen, hX]
  · intro p hp
    simp only [outer]
    rw [inner_other]
    · apply h.rest
      have : a * states ≤ (a + 1) * states := Nat.mul_le_mul_right _ (Nat.le_succ a)
      omega
    · intro q hq e
      have := mul_add_lt (states := states) (Nat.lt_succ_self a) (hlt q hq)
      simp only [Nat.succ_eq_add_one] at this
      rw [hA] at e
      omega

theorem oinv_fold {rowSize states : Nat} {delta1 : List (List Nat)}
    (hd : ∀ d ∈ delta1, d.Nodup ∧ ∀ q ∈ d, q < states) (k : Nat) (hk : k ≤ delta1.length) :
    ∀ (a : Nat) (st : St), a + k = delta1.length → OInv rowSize states delta1 a st →
      OInv rowSize states delta1 delta1.length ((delta1.drop a).foldl (outer rowSize states) st) := by
  induction k with
  | zero =>
    intro a st hak h
    have : a = delta1.length := by omega
    subst this
    simpa using h
  | succ k ih =>
    intro a st hak h
    have ha : a < delta1.length := by omega
    have hdrop : delta1.drop a = delta1.getD a [] :: delta1.drop (a + 1) := by
      rw [List.drop_eq_getElem_cons ha]
      simp [List.getD_eq_getElem?_getD, List.getElem?_eq_getElem ha]
    rw [hdrop, List.foldl_cons]
    exact ih (by omega) (a + 1) _ (by omega) (oinv_step hd ha h)

theorem oinv_init (rowSize states : Nat) (delta1 : List (List Nat)) :
    OInv rowSize states delta1 0 (List.replicate (delta1.length * states) (2 ^ 64 - 1), [], 0, 0) :=
  ⟨by simp, rfl, rfl, rfl, fun _ _ hb => absurd hb (Nat.not_lt_zero _), fun _ hb => absurd hb (Nat.not_lt_zero _),
    fun _ _ => rfl⟩

/-- the layout after the whole loop -/
theorem oinv_final {rowSize states : Nat} {delta1 : List (List Nat)}
    (hd : ∀ d ∈ delta1, d.Nodup ∧ ∀ q ∈ d, q < states) :
    OInv rowSize states delta1 delta1.length
      (delta1.foldl (outer rowSize states) (List.replicate (delta1.length * states) (2 ^ 64 - 1), [], 0, 0)) := by
  have := oinv_fold (rowSize := rowSize) hd delta1.length (Nat.le_refl _) 0 _ (by omega) (oinv_init rowSize states delta1)
  simpa using this

/-- `key_[a * states + q] = off a + j` for the `j`-th state `q` of `delta1[a]` -/
theorem layout_key {rowSize states : Nat} {delta1 : List (List Nat)}
    (hd : ∀ d ∈ delta1, d.Nodup ∧ ∀ q ∈ d, q < states) {a j : Nat} (ha : a < delta1.length)
    (hj : j < (delta1.getD a []).length) :
    (mkLayout rowSize states delta1).1.getD (a * states + (delta1.getD a []).getD j 0) 0 = off delta1 a + j := by
  rw [mkLayout_eq]; exact (oinv_final hd).keyed a j ha hj

theorem layout_key_length (rowSize states : Nat) {delta1 : List (List Nat)}
    (hd : ∀ d ∈ delta1, d.Nodup ∧ ∀ q ∈ d, q < states) :
    (mkLayout rowSize states delta1).1.length = delta1.length * states := by
  rw [mkLayout_eq]; exact (oinv_final hd).len

/-- `labelMap_[a]` as coded -/
theorem layout_labelMap {rowSize states : Nat} {delta1 : List (List Nat)}
    (hd : ∀ d ∈ delta1, d.Nodup ∧ ∀ q ∈ d, q < states) {a : Nat} (ha : a < delta1.length) :
    (mkLayout rowSize states delta1).2.getD a (0, 0) =
      (off delta1 a / rowSize,
       ((off delta1 a + (delta1.getD a []).length + (2 ^ 64 - 1)) % 2 ^ 64) / rowSize +
         (if (delta1.getD a []).length > 0 then 1 else 0)) := by
  rw [mkLayout_eq]; exact (oinv_final hd).lm a ha

theorem layout_labelMap_length {rowSize states : Nat} {delta1 : List (List Nat)}
    (hd : ∀ d ∈ delta1, d.Nodup ∧ ∀ q ∈ d, q < states) :
    (mkLayout rowSize states delta1).2.length = delta1.length := by
  rw [mkLayout_eq]; exact (oinv_final hd).lmLen

/-- the row of every keyed pair of label `a` lies inside the row range of the label (no wrap below `2^64` pairs) -/
theorem layout_row_in_range {rowSize states : Nat} {delta1 : List (List Nat)}
    (hd : ∀ d ∈ delta1, d.Nodup ∧ ∀ q ∈ d, q < states) {a j : Nat} (ha : a < delta1.length)
    (hj : j < (delta1.getD a []).length) (hsmall : off delta1 a + (delta1.getD a []).length < 2 ^ 64) :
    ((mkLayout rowSize states delta1).2.getD a (0, 0)).1 ≤ (off delta1 a + j) / rowSize ∧
      (off delta1 a + j) / rowSize < ((mkLayout rowSize states delta1).2.getD a (0, 0)).2 := by
  rw [layout_labelMap hd ha]
  have hn : (delta1.getD a []).length > 0 := by omega
  simp only [hn, if_true]
  constructor
  · exact Nat.div_le_div_right (Nat.le_add_right _ _)
  · have e : (off delta1 a + (delta1.getD a []).length + (2 ^ 64 - 1)) % 2 ^ 64 =
        off delta1 a + (delta1.getD a []).length - 1 := by
      have : off delta1 a + (delta1.getD a []).length + (2 ^ 64 - 1) =
          (off delta1 a + (delta1.getD a []).length - 1) + 2 ^ 64 := by omega
      rw [this, Nat.add_mod_right, Nat.mod_eq_of_lt (by omega)]
    rw [e]
    apply Nat.lt_succ_of_le
    apply Nat.div_le_div_right
    omega

/-- `copyLabels(labels, parent)` copies the row of every keyed pair of every label in `labels` whose rows the parent has -/
theorem copiedRows_covers {rowSize states poison : Nat} {delta1 : List (List Nat)}
    (hd : ∀ d ∈ delta1, d.Nodup ∧ ∀ q ∈ d, q < states) {labels : List Nat} {a j srcRows : Nat}
    (hal : a ∈ labels) (ha : a < delta1.length) (hj : j < (delta1.getD a []).length)
    (hsmall : off delta1 a + (delta1.getD a []).length < 2 ^ 64)
    (hrows : (((mkCfg rowSize states poison delta1).labelMap).getD a (0, 0)).2 ≤ srcRows) :
    (off delta1 a + j) / rowSize ∈ copiedRows (mkCfg rowSize states poison delta1) labels srcRows := by
  have hr := layout_row_in_range (rowSize := rowSize) hd ha hj hsmall
  have hlen : a < (mkCfg rowSize states poison delta1).labelMap.length := by
    show a < (mkLayout rowSize states delta1).2.length
    rw [layout_labelMap_length hd]; exact ha
  have hget : (mkCfg rowSize states poison delta1).labelMap[a]? =
      some ((mkLayout rowSize states delta1).2.getD a (0, 0)) := by
    show (mkLayout rowSize states delta1).2[a]? = _
    have hlen' : a < (mkLayout rowSize states delta1).2.length := hlen
    rw [List.getD_eq_getElem?_getD, List.getElem?_eq_getElem hlen']; rfl
  have hrows' : ((mkLayout rowSize states delta1).2.getD a (0, 0)).2 ≤ srcRows := hrows
  unfold copiedRows
  rw [List.mem_filter]
  refine ⟨List.mem_range.2 (by omega), ?_⟩
  rw [List.any_eq_true]
  refine ⟨a, hal, ?_⟩
  rw [hget]
  simp only [Bool.and_eq_true, decide_eq_true_eq]
  exact ⟨hr.1, hr.2⟩


/-! ### what the new block's counter holds after `copyLabels` (on values) -/

theorem foldl_max_ge (rows : List Nat) (m r : Nat) (h : r ∈ rows) : r + 1 ≤ rows.foldl (fun m r => max m (r + 1)) m := by
  induction rows generalizing m with
  | nil => cases h
  | cons x xs ih =>
    rw [List.foldl_cons]
    rcases List.mem_cons.1 h with rfl | h
    · have mono : ∀ (l : List Nat) (a : Nat), a ≤ l.foldl (fun m r => max m (r + 1)) a := by
        intro l
        induction l with
        | nil => intro a; exact Nat.le_refl _
        | cons y ys ihy => intro a; rw [List.foldl_cons]; exact Nat.le_trans (Nat.le_max_left _ _) (ihy _)
      exact Nat.le_trans (Nat.le_max_right _ _) (mono xs _)
    · exact ih _ h

/-- after `copyLabels i j labels` the value of the new counter agrees with the parent's on every key index whose row
was copied -/
theorem aStep_copyLabels_at (cfg : Cfg) (aw : AWorld) (i j : Nat) (labels : List Nat) (s : A) (idx : Nat)
    (hi : i < aw.length) (hs : aw.getD j none = some s) (hrs : 0 < cfg.rowSize)
    (hrow : idx / cfg.rowSize ∈ copiedRows cfg labels s.rows) :
    ∃ child, (aStep cfg aw (.copyLabels i j labels)).getD i none = some child ∧ child.at idx = s.at idx ∧
      idx < child.rows * cfg.rowSize ∧ child.phase = .running := by
  simp only [aStep, hs]
  refine ⟨⟨(copiedRows cfg labels s.rows).foldl (fun m r => max m (r + 1)) 0,
    (List.range ((copiedRows cfg labels s.rows).foldl (fun m r => max m (r + 1)) 0 * cfg.rowSize)).map
      (fun idx => if (copiedRows cfg labels s.rows).contains (idx / cfg.rowSize) then s.at idx else 0), .running⟩,
    by simp [List.getD_eq_getElem?_getD, hi], ?_, ?_, rfl⟩
  · have hn := foldl_max_ge _ 0 _ hrow
    have hlt : idx < (copiedRows cfg labels s.rows).foldl (fun m r => max m (r + 1)) 0 * cfg.rowSize := by
      have h1 : idx < (idx / cfg.rowSize + 1) * cfg.rowSize := by
        rw [Nat.add_mul, Nat.one_mul]
        have := Nat.mod_lt idx hrs
        have := Nat.div_add_mod idx cfg.rowSize
        rw [Nat.mul_comm] at this
        omega
      exact Nat.lt_of_lt_of_le h1 (Nat.mul_le_mul_right _ hn)
    simp [A.at, List.getD_eq_getElem?_getD, hlt, hrow]
  · have hn := foldl_max_ge _ 0 _ hrow
    have h1 : idx < (idx / cfg.rowSize + 1) * cfg.rowSize := by
      rw [Nat.add_mul, Nat.one_mul]
      have := Nat.mod_lt idx hrs
      have := Nat.div_add_mod idx cfg.rowSize
      rw [Nat.mul_comm] at this
      omega
    exact Nat.lt_of_lt_of_le h1 (Nat.mul_le_mul_right _ hn)

/-- 70 keyed pairs of one label with 31 counters per row: rows 0, 1, 2; the boundary entries 30|31 and 61|62 -/
example : (mkLayout 31 70 [List.range 70]).2 = [(0, 3)] ∧
    ((mkLayout 31 70 [List.range 70]).1.getD 30 0 / 31, (mkLayout 31 70 [List.range 70]).1.getD 31 0 / 31,
     (mkLayout 31 70 [List.range 70]).1.getD 61 0 / 31, (mkLayout 31 70 [List.range 70]).1.getD 62 0 / 31) = (0, 1, 1, 2) := by
  decide

/-- a label that ends exactly at a row boundary (31 pairs, 31 per row) occupies one row, the next label starts a new one -/
example : (mkLayout 31 31 [List.range 31, [0, 5]]).2 = [(0, 1), (1, 2)] := by decide

end Vata.LU.SC.Layout
