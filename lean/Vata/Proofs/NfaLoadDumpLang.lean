import Vata.Proofs.NfaLoadDump
import Vata.Proofs.NfaOps
/-!
# Proofs about the load / dump of word automata as coded, part 2: dump, then load – the language and the start symbols
-/
namespace Vata
namespace NfaLD
open Dict LoadDump NfaS Timbuk W

/-- acceptance depends on the SETS of start states, final states and transitions only -/
theorem acceptsW_congr_sets {N M : NFA} (hs : ∀ q, q ∈ N.start ↔ q ∈ M.start) (hf : ∀ q, q ∈ N.final ↔ q ∈ M.final)
    (ht : ∀ e, e ∈ N.trans ↔ e ∈ M.trans) (w : List Nat) : acceptsW N w = acceptsW M w := by
  rw [Bool.eq_iff_iff, acceptsW_iff, acceptsW_iff]
  constructor
  · rintro ⟨s, h1, q, h2, hp⟩; exact ⟨s, (hs s).mp h1, q, (hf q).mp h2, hp.mono (fun e he => (ht e).mp he)⟩
  · rintro ⟨s, h1, q, h2, hp⟩; exact ⟨s, (hs s).mpr h1, q, (hf q).mpr h2, hp.mono (fun e he => (ht e).mpr he)⟩

/-- different states have different names -/
def NamesInj (A : NFAS) (sd : StateDict) : Prop :=
  ∀ q q', q ∈ nfaStates A.toNFA → q' ∈ nfaStates A.toNFA → sd.bwd? q = sd.bwd? q' → q = q'

theorem dumpRules_wordShaped {sd : StateDict} {yd : WSymDict} {A : NFAS} {t : List String × String × String}
    (h : t ∈ dumpRules false sd yd A) : t.1.length ≤ 1 := by
  rcases mem_dumpRules.mp h with ⟨_, _, _, rfl⟩ | ⟨_, _, _, _, rfl⟩ | ⟨_, _, rfl⟩ <;> simp [namedTrans]

/-- the state renaming of a reload: old number ↦ name ↦ new number -/
def reName (sd sd' : StateDict) (q : Nat) : Nat := sd'.get (nameOf sd q)

/-- loading any description whose final states and rules are those of the dump of `A` (whatever its `symbols`, `states`, and
the order of its lists), on a fresh state dictionary and the same alphabet: `A` with its states renamed injectively, the same
symbols on the transitions, the start symbols the dump wrote -/
theorem reload_spec (rtl : Bool) (A : NFAS) (sd : StateDict) (yd : WSymDict) (hyd : yd.Ok) (hD : Dumpable A sd yd)
    (hinj : NamesInj A sd) (d : AutDesc) (hf : d.final ≈ A.final.map (nameOf sd))
    (ht : d.trans ≈ dumpRules false sd yd A) :
    ∃ A' sd' yd', loadNFA rtl d [] yd = .ok (A', sd', yd') ∧ sd'.Ok ∧ yd'.Ok ∧ Dict.Sub yd yd' ∧
      NfaInjOn (reName sd sd') (nfaStates A.toNFA) ∧
      (∀ q, q ∈ A'.final ↔ q ∈ A.final.map (reName sd sd')) ∧
      (∀ e, e ∈ A'.trans ↔ e ∈ (nfaMap (reName sd sd') A.toNFA).trans) ∧
      (∀ q, q ∈ A'.start ↔ q ∈ A.start.map (reName sd sd')) ∧
      (∀ s, s ∈ A.start → A.symsOf s ≠ [] → ∀ a, a ∈ A'.symsOf (reName sd sd' s) ↔ a ∈ A.symsOf s) ∧
      (∀ s, s ∈ A.start → A.symsOf s = [] → ∀ a, a ∈ A'.symsOf (reName sd sd' s) ↔ a = yd'.get "x") := by
  have hw : d.WordShaped := fun t htm => dumpRules_wordShaped ((ht t).mp htm)
  obtain ⟨A', s', e, h, hk, hfin, htr, hst, hsy⟩ := loadFrom_spec rtl ⟨[], 0, yd⟩ (init_ok hyd) d hw
  -- the names of the states of `A` are keys of the new dictionary
  have K1 : ∀ q, q ∈ nfaStates A.toNFA → nameOf sd q ∈ s'.sd.keys := by
    intro q hq
    rcases mem_nfaStates.mp hq with hq | hq | ⟨e', he', hq⟩
    · by_cases hem : A.symsOf q = []
      · have : ([], "x", nameOf sd q) ∈ d.trans := (ht _).mpr (mem_dumpRules.mpr (Or.inl ⟨q, hq, hem, rfl⟩))
        exact (hk _ this).2.1
      · obtain ⟨a, ha⟩ := List.exists_mem_of_ne_nil _ hem
        have : ([], symName yd a, nameOf sd q) ∈ d.trans :=
          (ht _).mpr (mem_dumpRules.mpr (Or.inr (Or.inl ⟨q, a, hq, ha, rfl⟩)))
        exact (hk _ this).2.1
    · exact (h.sdKeys _).mpr (Or.inr (by
        simp only [stateNames, List.mem_append]
        exact Or.inl ((hf _).mpr (List.mem_map.mpr ⟨q, hq, rfl⟩))))
    · have : namedTrans sd yd e' ∈ d.trans := (ht _).mpr (mem_dumpRules.mpr (Or.inr (Or.inr ⟨e', he', rfl⟩)))
      rcases hq with rfl | rfl
      · exact (hk _ this).1 _ (by simp [namedTrans])
      · exact (hk _ this).2.1
  -- a symbol that has a name in the old alphabet gets its old number back
  have K2 : ∀ a, (∃ k, yd.bwd? a = some k) → s'.yd.get (symName yd a) = a := by
    rintro a ⟨k, hk'⟩
    have : symName yd a = k := by simp [symName, hk']
    rw [this]
    exact get_of_fwd (h.yd _ _ (hyd.bwd_fwd.mp hk'))
  have hinj' : NfaInjOn (reName sd s'.sd) (nfaStates A.toNFA) := by
    intro q hq q' hq' e'
    have hn : nameOf sd q = nameOf sd q' := h.ok.sd.get_inj (K1 q hq) (K1 q' hq') e'
    obtain ⟨n, e1⟩ := hD.named q hq
    obtain ⟨n', e2⟩ := hD.named q' hq'
    have h1 : nameOf sd q = n := by simp [nameOf, e1]
    have h2 : nameOf sd q' = n' := by simp [nameOf, e2]
    exact hinj q q' hq hq' (by rw [e1, e2, ← h1, ← h2, hn])
  -- the nullary rules of the description
  have N1 : ∀ t, t ∈ d.trans → t.1 = [] →
      (∃ s, s ∈ A.start ∧ A.symsOf s = [] ∧ t = ([], "x", nameOf sd s)) ∨
      (∃ s a, s ∈ A.start ∧ a ∈ A.symsOf s ∧ t = ([], symName yd a, nameOf sd s)) := by
    intro t htm ht1
    rcases mem_dumpRules.mp ((ht t).mp htm) with h1 | h1 | ⟨e', _, rfl⟩
    · exact Or.inl h1
    · exact Or.inr h1
    · simp [namedTrans] at ht1
  refine ⟨A', s'.sd, s'.yd, ?_, h.ok.sd, h.ok.yd, h.yd, hinj', ?_, ?_, ?_, ?_, ?_⟩
  · unfold loadNFA; rw [e]
  · intro q
    rw [hfin q]
    simp only [List.mem_map]
    constructor
    · rintro ⟨n, hn, rfl⟩
      obtain ⟨q, hq, rfl⟩ := List.mem_map.mp ((hf n).mp hn)
      exact ⟨q, hq, rfl⟩
    · rintro ⟨q, hq, rfl⟩
      exact ⟨nameOf sd q, (hf _).mpr (List.mem_map.mpr ⟨q, hq, rfl⟩), rfl⟩
  · intro e'
    rw [htr, mem_transOf]
    simp only [nfaMap, List.mem_map]
    constructor
    · rintro ⟨t, l, htm, ht1, rfl⟩
      rcases mem_dumpRules.mp ((ht t).mp htm) with ⟨_, _, _, rfl⟩ | ⟨_, _, _, _, rfl⟩ | ⟨e0, he0, rfl⟩
      · simp at ht1
      · simp at ht1
      · refine ⟨e0, he0, ?_⟩
        have hl : l = nameOf sd e0.1 := by
          simp only [namedTrans, List.cons.injEq, and_true] at ht1; exact ht1.symm
        simp only [namedTrans, hl, K2 _ (hD.syms e0 he0)]
        rfl
    · rintro ⟨e0, he0, rfl⟩
      refine ⟨namedTrans sd yd e0, nameOf sd e0.1, (ht _).mpr (mem_dumpRules.mpr (Or.inr (Or.inr ⟨e0, he0, rfl⟩))), rfl, ?_⟩
      simp only [namedTrans, K2 _ (hD.syms e0 he0)]
      rfl
  · intro q
    rw [hst q]
    simp only [List.mem_map]
    constructor
    · rintro ⟨a, ha⟩
      obtain ⟨t, htm, ht1, hx⟩ := mem_startsOf.mp ha
      rcases N1 t htm ht1 with ⟨s, hs, _, rfl⟩ | ⟨s, _, hs, _, rfl⟩
      · exact ⟨s, hs, (Prod.mk.inj hx).1.symm⟩
      · exact ⟨s, hs, (Prod.mk.inj hx).1.symm⟩
    · rintro ⟨s, hs, rfl⟩
      by_cases hem : A.symsOf s = []
      · exact ⟨_, mem_startsOf.mpr ⟨([], "x", nameOf sd s),
          (ht _).mpr (mem_dumpRules.mpr (Or.inl ⟨s, hs, hem, rfl⟩)), rfl, rfl⟩⟩
      · obtain ⟨a, ha⟩ := List.exists_mem_of_ne_nil _ hem
        exact ⟨_, mem_startsOf.mpr ⟨([], symName yd a, nameOf sd s),
          (ht _).mpr (mem_dumpRules.mpr (Or.inr (Or.inl ⟨s, a, hs, ha, rfl⟩))), rfl, rfl⟩⟩
  · intro s hs hne a
    rw [hsy, mem_startsOf]
    constructor
    · rintro ⟨t, htm, ht1, hx⟩
      rcases N1 t htm ht1 with ⟨s0, hs0, hem, rfl⟩ | ⟨s0, a0, hs0, ha0, rfl⟩
      · have : s = s0 := hinj' s (start_mem_nfaStates hs) s0 (start_mem_nfaStates hs0) (Prod.mk.inj hx).1
        subst this; exact absurd hem hne
      · have : s = s0 := hinj' s (start_mem_nfaStates hs) s0 (start_mem_nfaStates hs0) (Prod.mk.inj hx).1
        subst this
        have ea : a = s'.yd.get (symName yd a0) := (Prod.mk.inj hx).2
        rw [ea, K2 _ (hD.startSyms s hs a0 ha0)]; exact ha0
    · intro ha
      refine ⟨([], symName yd a, nameOf sd s), (ht _).mpr (mem_dumpRules.mpr (Or.inr (Or.inl ⟨s, a, hs, ha, rfl⟩))),
        rfl, ?_⟩
      simp only [K2 _ (hD.startSyms s hs a ha)]
      rfl
  · intro s hs hem a
    rw [hsy, mem_startsOf]
    constructor
    · rintro ⟨t, htm, ht1, hx⟩
      rcases N1 t htm ht1 with ⟨s0, hs0, _, rfl⟩ | ⟨s0, a0, hs0, ha0, rfl⟩
      · exact (Prod.mk.inj hx).2
      · have : s = s0 := hinj' s (start_mem_nfaStates hs) s0 (start_mem_nfaStates hs0) (Prod.mk.inj hx).1
        subst this; rw [hem] at ha0; cases ha0
    · rintro rfl
      exact ⟨([], "x", nameOf sd s), (ht _).mpr (mem_dumpRules.mpr (Or.inl ⟨s, hs, hem, rfl⟩)), rfl, rfl⟩

/-- … in particular the reloaded automaton accepts the same words -/
theorem reload_lang (rtl : Bool) (A : NFAS) (sd : StateDict) (yd : WSymDict) (hyd : yd.Ok) (hD : Dumpable A sd yd)
    (hinj : NamesInj A sd) (d : AutDesc) (hf : d.final ≈ A.final.map (nameOf sd))
    (ht : d.trans ≈ dumpRules false sd yd A) :
    ∃ A' sd' yd', loadNFA rtl d [] yd = .ok (A', sd', yd') ∧ sd'.Ok ∧ yd'.Ok ∧ Dict.Sub yd yd' ∧
      ∀ w, acceptsW A'.toNFA w = acceptsW A.toNFA w := by
  obtain ⟨A', sd', yd', l, o1, o2, sub, hi, h1, h2, h3, _⟩ := reload_spec rtl A sd yd hyd hD hinj d hf ht
  refine ⟨A', sd', yd', l, o1, o2, sub, fun w => ?_⟩
  rw [← nfaMap_inj_lang (reName sd sd') A.toNFA w hi]
  exact acceptsW_congr_sets h3 h1 h2 w

/-- an automaton that was loaded has injective names under the dictionary the load left -/
theorem namesInj_of_ok {A : NFAS} {sd : StateDict} {yd : WSymDict} (hD : Dumpable A sd yd) (h : sd.Ok) : NamesInj A sd := by
  intro q q' hq _ e
  obtain ⟨n, hn⟩ := hD.named q hq
  exact h.injective.2 q q' n hn (e ▸ hn)

end NfaLD

open NfaLD LoadDump Dict Timbuk W

/-- **dump, then load**: for an automaton with dictionaries that name its states injectively and its symbols (`Dumpable`,
`NamesInj`; the alphabet in the state its weak translator keeps, `yd.Ok`) the dump succeeds, and loading the dumped
description (fresh state dictionary, the same alphabet) gives an automaton with the same language and – up to the renaming of
the states – the same start states with the same start symbols; a start state without symbols comes back with the one symbol
named `x`. -/
theorem nfa_dump_load_lang (rtl : Bool) (A : NFAS) (sd : StateDict) (yd : WSymDict) (hyd : yd.Ok) (hD : Dumpable A sd yd)
    (hinj : NamesInj A sd) :
    ∃ d₁ A' sd' yd', dumpNFA A sd yd = .ok d₁ ∧ loadNFA rtl d₁ [] yd = .ok (A', sd', yd') ∧
      (∀ w, acceptsW A'.toNFA w = acceptsW A.toNFA w) ∧
      NfaInjOn (reName sd sd') (nfaStates A.toNFA) ∧
      (∀ q, q ∈ A'.start ↔ q ∈ A.start.map (reName sd sd')) ∧
      (∀ s, s ∈ A.start → A.symsOf s ≠ [] → ∀ a, a ∈ A'.symsOf (reName sd sd' s) ↔ a ∈ A.symsOf s) ∧
      (∀ s, s ∈ A.start → A.symsOf s = [] → ∀ a, a ∈ A'.symsOf (reName sd sd' s) ↔ a = yd'.get "x") := by
  obtain ⟨A', sd', yd', l, _, _, _, hi, h1, h2, h3, h4, h5⟩ :=
    reload_spec rtl A sd yd hyd hD hinj (dumpOf (A.final.map (nameOf sd)) (dumpRules false sd yd A))
      (normDesc_final _) (normDesc_trans _)
  refine ⟨_, A', sd', yd', dumpWith_dumpable false hD, l, fun w => ?_, hi, h3, h4, h5⟩
  rw [← nfaMap_inj_lang (reName sd sd') A.toNFA w hi]
  exact acceptsW_congr_sets h3 h1 h2 w

/-- the same through the text (`DumpToString`, then `LoadFromString`), when the names are good -/
theorem nfa_dump_load_text_lang (rtl : Bool) (A : NFAS) (sd : StateDict) (yd : WSymDict) (hyd : yd.Ok)
    (hD : Dumpable A sd yd) (hinj : NamesInj A sd)
    (hwf : (dumpOf (A.final.map (nameOf sd)) (dumpRules false sd yd A)).WellFormed) :
    ∃ txt A' sd' yd', dumpNFAString A sd yd = .ok txt ∧ loadNFAString rtl txt [] yd = .ok (A', sd', yd') ∧
      ∀ w, acceptsW A'.toNFA w = acceptsW A.toNFA w := by
  obtain ⟨d₂, hp, hf, ht⟩ := parse_serialize _ hwf
  obtain ⟨A', sd', yd', l, _, _, _, hl⟩ :=
    reload_lang rtl A sd yd hyd hD hinj d₂ (fun x => (hf x).trans (normDesc_final _ x))
      (fun x => (ht x).trans (normDesc_trans _ x))
  refine ⟨serialize (dumpOf (A.final.map (nameOf sd)) (dumpRules false sd yd A)), A', sd', yd', ?_, ?_, hl⟩
  · unfold dumpNFAString dumpNFA; rw [dumpWith_dumpable false hD]
  · unfold loadNFAString; rw [hp]; exact l

/-- the whole chain for a loaded automaton: load a word-shaped description, dump, load again: the same language -/
theorem nfa_load_dump_load_lang (rtl : Bool) (d : AutDesc) (yd : WSymDict) (hyd : yd.Ok) (hw : d.WordShaped) :
    ∃ A sd yd' d₁ A' sd' yd'', loadNFA rtl d [] yd = .ok (A, sd, yd') ∧ dumpNFA A sd yd' = .ok d₁ ∧
      loadNFA rtl d₁ [] yd' = .ok (A', sd', yd'') ∧ ∀ w, acceptsW A'.toNFA w = acceptsW A.toNFA w := by
  obtain ⟨A, s', e, h, hD, _, _⟩ := loadFrom_dump rtl ⟨[], 0, yd⟩ (NfaLD.init_ok hyd) d hw
  obtain ⟨d₁, A', sd', yd'', h1, h2, h3, _⟩ :=
    nfa_dump_load_lang rtl A s'.sd s'.yd h.ok.yd hD (namesInj_of_ok hD h.ok.sd)
  exact ⟨A, s'.sd, s'.yd, d₁, A', sd', yd'', by unfold loadNFA; rw [e], h1, h2, h3⟩

end Vata
