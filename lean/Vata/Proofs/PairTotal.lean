import Vata.Proofs.MultiTotal
/-!
# Totality of the two older pair engines: `inclRef` (tree automata) and `W.inclRef` (word automata)

Both have a fuel and the same loop shape as `msat` (`Vata/Proofs/SatTotal.lean`), over pairs of state sets:

* `sat A B` (`Vata/Basic.lean`) starts from `[]` and closes under the symbols of `A` only; invariant `Gen A B`
  (every stored pair is the profile of a tree); universe: pairs of subsets of the parent states; bound
  `fuelBoundM [A, B] = 2^|parents A| · 2^|parents B|` – the same number as for `inclM`.
* `W.sat A B` (`Vata/Nfa.lean`) starts from `[(A.start, B.start)]` and closes under the symbols of `A`; invariant
  `W.Gen A B` (every stored pair is the pair of state sets after some word); universe: pairs of subsets of
  "start states and transition targets"; bound `fuelBoundW [A, B]`.
-/
namespace Vata
open Vata.Total

namespace Total

/-! ### `sat` / `inclRef` -/

theorem profEqB_isEqv : IsEqv profEqB where
  refl := fun _ => profEqB_iff.mpr ⟨SetEq.refl _, SetEq.refl _⟩
  symm := fun _ _ h => profEqB_iff.mpr (ProfEq.symm (profEqB_iff.mp h))
  trans := fun _ _ _ h h' => profEqB_iff.mpr (ProfEq.trans (profEqB_iff.mp h) (profEqB_iff.mp h'))

theorem memP_eq (P : List Prof) (p : Prof) : memP P p = gmem profEqB P p := rfl

theorem addNew_eq : ∀ (N P : List Prof), addNew P N = gaddNew profEqB P N
  | [], _ => rfl
  | p :: ps, P => by
    simp only [addNew, gaddNew, memP_eq, addNew_eq ps]

theorem closedB_eq (A B : TA) (P : List Prof) : closedB A B P = gclosed profEqB (step A B) P := rfl

theorem sat_eq (A B : TA) : ∀ (fuel : Nat) (P : List Prof), sat A B fuel P = gsat profEqB (step A B) fuel P
  | 0, P => by
    rw [sat, gsat, closedB_eq]
  | n+1, P => by
    rw [sat, gsat, closedB_eq, addNew_eq, sat_eq A B n]

/-- all pairs of a subset of `U` and a subset of `V` -/
def subPairs (U V : List Nat) : List (List Nat × List Nat) :=
  (subs U).flatMap (fun s => (subs V).map (fun s' => (s, s')))

theorem length_subPairs (U V : List Nat) : (subPairs U V).length = 2 ^ U.length * 2 ^ V.length := by
  unfold subPairs
  rw [length_flatMap_map (fun s s' => (s, s')) (subs V) (subs U), length_subs, length_subs]

theorem subPairs_cover (U V s s' : List Nat) (h : ∀ x, x ∈ s → x ∈ U) (h' : ∀ x, x ∈ s' → x ∈ V) :
    ∃ u, u ∈ subPairs U V ∧ (∀ x, x ∈ u.1 ↔ x ∈ s) ∧ (∀ x, x ∈ u.2 ↔ x ∈ s') := by
  obtain ⟨a, ha, hae⟩ := subs_cover U s h
  obtain ⟨b, hb, hbe⟩ := subs_cover V s' h'
  refine ⟨(a, b), ?_, hae, hbe⟩
  simp only [subPairs, List.mem_flatMap, List.mem_map]
  exact ⟨a, ha, b, hb, rfl⟩

theorem fuelBoundM_pair (A B : TA) : fuelBoundM [A, B] = 2 ^ (parents A).length * 2 ^ (parents B).length := by
  simp only [fuelBoundM, Nat.mul_one]

theorem sat_isSome (A B : TA) (fuel : Nat) (h : fuelBoundM [A, B] ≤ fuel) : (sat A B fuel []).isSome = true := by
  rw [sat_eq]
  refine gsat_isSome profEqB_isEqv (step A B) (subPairs (parents A) (parents B)) (Gen A B) ?_ ?_ fuel [] ?_ ?_
  · intro Q hQ
    rw [← addNew_eq]
    exact gen_addNew A B Q _ hQ (gen_step A B Q hQ)
  · intro Q hQ p hp
    obtain ⟨t, ht⟩ := gen_step A B Q hQ p hp
    obtain ⟨u, hu, h1, h2⟩ := subPairs_cover (parents A) (parents B) (reach A t) (reach B t)
      (reach_sub_parents A t) (reach_sub_parents B t)
    have hut : ProfEq u (profOf A B t) := ⟨h1, h2⟩
    exact ⟨u, hu, profEqB_iff.mpr (hut.trans ht.symm)⟩
  · intro p hp; cases hp
  · apply Nat.le_trans (uncov_le_length _ _ _)
    rw [length_subPairs, ← fuelBoundM_pair]
    exact h

end Total

/-- totality of the pair engine of `Vata/Basic.lean`, with the bound of `inclM` -/
theorem inclRef_total (A B : TA) (fuel : Nat) (h : fuelBoundM [A, B] ≤ fuel) : (inclRef A B fuel).isSome = true := by
  unfold inclRef
  rw [Option.isSome_map]
  exact Total.sat_isSome A B fuel h

theorem inclRef_decides (A B : TA) (fuel : Nat) (h : fuelBoundM [A, B] ≤ fuel) :
    ∃ b, inclRef A B fuel = some b ∧ (b = true ↔ Incl A B) :=
  Total.decides (inclRef_total A B fuel h) (fun b hb => inclRef_iff A B fuel b hb)

/-- above the bound the two tree references return the same verdict -/
theorem inclRef_eq_inclM (A B : TA) (fuel fuel' : Nat) (h : fuelBoundM [A, B] ≤ fuel) (h' : fuelBoundM [A, B] ≤ fuel') :
    inclRef A B fuel = inclM A B fuel' := by
  obtain ⟨b, hb, hq⟩ := inclRef_decides A B fuel h
  obtain ⟨b', hb', hq'⟩ := inclM_decides A B fuel' h'
  rw [hb, hb']
  congr 1
  rw [Bool.eq_iff_iff, hq, hq']

/-! ### `W.sat` / `W.inclRef` -/
namespace W
open Vata.Total

theorem pairEqB_isEqv : IsEqv pairEqB where
  refl := fun _ => pairEqB_iff.mpr ⟨fun _ => Iff.rfl, fun _ => Iff.rfl⟩
  symm := fun _ _ h => by
    have := pairEqB_iff.mp h
    exact pairEqB_iff.mpr ⟨fun x => (this.1 x).symm, fun x => (this.2 x).symm⟩
  trans := fun _ _ _ h h' => by
    have h1 := pairEqB_iff.mp h
    have h2 := pairEqB_iff.mp h'
    exact pairEqB_iff.mpr ⟨fun x => (h1.1 x).trans (h2.1 x), fun x => (h1.2 x).trans (h2.2 x)⟩

theorem memP_eq (P : List Pair) (p : Pair) : memP P p = gmem pairEqB P p := rfl

theorem addNew_eq : ∀ (N P : List Pair), addNew P N = gaddNew pairEqB P N
  | [], _ => rfl
  | p :: ps, P => by
    simp only [addNew, gaddNew, memP_eq, addNew_eq ps]

theorem closedB_eq (A B : NFA) (P : List Pair) : closedB A B P = gclosed pairEqB (stepP A B) P := rfl

theorem sat_eq (A B : NFA) : ∀ (fuel : Nat) (P : List Pair), sat A B fuel P = gsat pairEqB (stepP A B) fuel P
  | 0, P => by
    rw [sat, gsat, closedB_eq]
  | n+1, P => by
    rw [sat, gsat, closedB_eq, addNew_eq, sat_eq A B n]

theorem stepW_sub_targets (N : NFA) (S : List Nat) (a : Nat) : ∀ q, q ∈ stepW N S a → q ∈ nfaTargets N := by
  intro q hq
  simp only [stepW, List.mem_map, List.mem_filter] at hq
  obtain ⟨e, ⟨he, _⟩, rfl⟩ := hq
  unfold nfaTargets
  rw [mem_dedupL, List.mem_append]
  exact Or.inr (List.mem_map.mpr ⟨e, he, rfl⟩)

theorem foldl_sub_targets (N : NFA) : ∀ (w : List Nat) (S : List Nat), (∀ q, q ∈ S → q ∈ nfaTargets N) →
    ∀ q, q ∈ w.foldl (stepW N) S → q ∈ nfaTargets N
  | [], _, h => h
  | a :: w, S, _ => by
    simp only [List.foldl_cons]
    exact foldl_sub_targets N w _ (stepW_sub_targets N S a)

theorem run_sub_targets (N : NFA) (w : List Nat) : ∀ q, q ∈ run N w → q ∈ nfaTargets N := by
  apply foldl_sub_targets
  intro q hq
  unfold nfaTargets
  rw [mem_dedupL, List.mem_append]
  exact Or.inl hq

theorem fuelBoundW_pair (A B : NFA) :
    fuelBoundW [A, B] = 2 ^ (nfaTargets A).length * 2 ^ (nfaTargets B).length := by
  simp only [fuelBoundW, List.map_cons, List.map_nil, fuelBoundM, Nat.mul_one, Total.parents_toTA]

theorem sat_isSome (A B : NFA) (fuel : Nat) (h : fuelBoundW [A, B] ≤ fuel) :
    (sat A B fuel [(A.start, B.start)]).isSome = true := by
  rw [sat_eq]
  refine gsat_isSome pairEqB_isEqv (stepP A B) (subPairs (nfaTargets A) (nfaTargets B))
    (fun P => Gen A B P ∧ HasInit A B P) ?_ ?_ fuel _ ?_ ?_
  · intro Q hQ
    rw [← addNew_eq]
    exact addNew_inv A B Q _ hQ.1 hQ.2 (gen_step A B Q hQ.1)
  · intro Q hQ p hp
    obtain ⟨w, hw⟩ := gen_step A B Q hQ.1 p hp
    obtain ⟨u, hu, h1, h2⟩ := subPairs_cover (nfaTargets A) (nfaTargets B) (run A w) (run B w)
      (run_sub_targets A w) (run_sub_targets B w)
    refine ⟨u, hu, pairEqB_iff.mpr ⟨?_, ?_⟩⟩
    · intro x; exact (h1 x).trans (hw.1 x).symm
    · intro x; exact (h2 x).trans (hw.2 x).symm
  · constructor
    · intro p hp
      simp only [List.mem_singleton] at hp
      subst hp
      exact ⟨[], ⟨fun _ => Iff.rfl, fun _ => Iff.rfl⟩⟩
    · exact ⟨_, List.mem_singleton.mpr rfl, ⟨fun _ => Iff.rfl, fun _ => Iff.rfl⟩⟩
  · apply Nat.le_trans (uncov_le_length _ _ _)
    rw [length_subPairs, ← fuelBoundW_pair]
    exact h

/-- totality of the pair engine of `Vata/Nfa.lean`, with the bound of `inclW` -/
theorem inclRef_total (A B : NFA) (fuel : Nat) (h : fuelBoundW [A, B] ≤ fuel) : (inclRef A B fuel).isSome = true := by
  unfold inclRef
  rw [Option.isSome_map]
  exact sat_isSome A B fuel h

theorem inclRef_decides (A B : NFA) (fuel : Nat) (h : fuelBoundW [A, B] ≤ fuel) :
    ∃ b, inclRef A B fuel = some b ∧ (b = true ↔ InclW A B) :=
  Total.decides (inclRef_total A B fuel h) (fun b hb => inclRef_iff A B fuel b hb)

/-- above the bound the two word references return the same verdict -/
theorem inclRef_eq_inclW (A B : NFA) (fuel fuel' : Nat) (h : fuelBoundW [A, B] ≤ fuel) (h' : fuelBoundW [A, B] ≤ fuel') :
    inclRef A B fuel = inclW A B fuel' := by
  obtain ⟨b, hb, hq⟩ := inclRef_decides A B fuel h
  obtain ⟨b', hb', hq'⟩ := inclW_decides A B fuel' h'
  rw [hb, hb']
  congr 1
  rw [Bool.eq_iff_iff, hq, hq']

end W

/-! ### non-vacuity -/
namespace PairTotalEx
open MultiTotalEx

example : fuelBoundM [exEven, exAll] ≤ 8 ∧ inclRef exEven exAll 8 = some true ∧ inclRef exAll exEven 8 = some false :=
  ⟨by decide, by decide, by decide⟩
example : ∃ b, inclRef exAll exEven 8 = some b ∧ (b = true ↔ Incl exAll exEven) :=
  inclRef_decides exAll exEven 8 (by decide)
/-- with too little fuel the pair engine does answer `none` -/
example : inclRef exAll exEven 0 = none := by decide
example : fuelBoundW [nAB, nAll] ≤ 8 ∧ W.inclRef nAB nAll 8 = some true ∧ W.inclRef nAll nAB 8 = some false :=
  ⟨by decide, by decide, by decide⟩
example : ∃ b, W.inclRef nAll nAB 8 = some b ∧ (b = true ↔ InclW nAll nAB) :=
  W.inclRef_decides nAll nAB 8 (by decide)
example : W.inclRef nAll nAB 0 = none := by decide

end PairTotalEx

end Vata
