import Vata.Proofs.FunctorCachesDownOptSim
import Vata.Proofs.FunctorCachesDownRun
/-!
# `CheckDownwardTreeInclusion<…, OptDownwardInclusionFunctor, …>` with its caches returns what the cache-free model returns

On top of `expandO_rel` (`Vata/Proofs/FunctorCachesDownOptSim.lean`): the loop over the final states of the smaller automaton
(`rootLoopO_rel`), the whole exploration (`runO_eq`: verdict, `nonIncl_` by value, the ghost set; `runO_incl_empty`: `incl_` is
empty at the end), the certify-then-trust models (`inclDownOpt_cached_eq`, `inclDownOptSim_cached_eq`,
`checkInclDownOpt_cached_eq`), the invariant of `lteCache` at the end (`runO_heap_sound`) – for EVERY allocator, with the
library's deleter – and the concrete automata of `FCDEx` on which the seeded deleter changes the verdict of this functor too.
-/
namespace Vata
namespace FCD
open Vata.InclDown Vata.CM
open Vata.FCU (Heap hval hLookup hCollect Live pickLeast)
open Vata.InclUp (normS prodWit Wit)

/-- the end of a run: same verdict; on `return true` the heap invariant holds, `nonIncl_` read through the heap and the ghost
set are those of the cache-free run and `incl_` is empty -/
def RFinO (o : Ord) : Option (Except Tree StO) → Option (Except Tree St) → Prop
  | none, none => True
  | some (.error t), some (.error t') => t = t'
  | some (.ok s), some (.ok s') =>
    HInvD o s.h ∧ (∀ x, x ∈ s.nonIncl → Live s.h x.2.1) ∧ s.nonIncl.map (derefN s.h) = s'.nonIncl ∧ s.trues = s'.trues ∧
      s.incl = []
  | _, _ => False

theorem rootLoopO_rel {o : Ord} (hr : ∀ q, o.leB q q = true) (pick : List Nat → Nat) (A B : TA) (wit : Wit) (fuel : Nat)
    (FB : List Nat) : ∀ (fs : List Nat) (fo : FO) (stC : StO) (cc : List Pair) (st : St), DRelO o [] fo stC cc st →
    RFinO o (rootLoopO o .lib pick A B wit fuel FB fs fo stC) (rootLoop o A B wit fuel FB fs cc st)
  | [], fo, stC, cc, st, h => by
    simp only [rootLoopO, rootLoop, RFinO]; exact ⟨h.hi, h.lni, h.eni, h.etr, h.eincl⟩
  | f :: fs, fo, stC, cc, st, h => by
    obtain ⟨l1, _, l3, l4⟩ := hLookupD_spec pick h.hi FB
    have h1 : DRelO o [] fo { stC with h := (hLookup pick stC.h FB).1 } cc st :=
      h.heap l1 (fun a _ ha => l4 a ha) (fun _ hx => hx)
    obtain ⟨g1, g2⟩ := hCollectD_spec l1 (rootsO [] fo stC)
    have h2 : DRelO o [] fo { stC with h := hCollect .lib (rootsO [] fo stC) (hLookup pick stC.h FB).1 } cc st := by
      refine h1.heap g1 (fun a ha hl => g2 a (mem_rootsO.mpr ?_) hl) (fun _ hx => hx)
      rcases ha with ⟨x, hx, _⟩ | hcc | hant | hni
      · cases hx
      · exact Or.inr (Or.inl hcc)
      · exact Or.inr (Or.inr (Or.inl hant))
      · exact Or.inr (Or.inr (Or.inr (Or.inr (Or.inl hni))))
    simp only [rootLoopO, rootLoop]
    rw [l3]
    by_cases hp : byPre o f FB = true
    · rw [if_pos hp, if_pos hp]; exact rootLoopO_rel hr pick A B wit fuel FB fs _ _ _ _ h2
    · rw [if_neg hp, if_neg hp]
      have hcall : CallRelG (DRelO o []) (wrapO o .lib pick [] (fun fr => expandO o .lib pick A B wit fuel [] fr))
          (expand o A B wit fuel []) := by
        apply wrapO_rel hr pick (fun x hx => by cases hx)
        intro q a Q fz
        apply expandO_rel hr pick A B wit fuel [] (fz.map (·.1)) [] ((a, Q) :: ([] ++ fz))
        · intro _ _; rfl
        · intro x hx; cases hx
        · exact List.mem_cons_self
        · intro x hx
          rcases List.mem_cons.mp hx with rfl | hx
          · exact Or.inl rfl
          · exact Or.inr (Or.inr (List.mem_map.mpr ⟨x, by simpa using hx, rfl⟩))
      rcases retRelG_elim (bodyG_rel hcall hcall A B wit normS f FB fo _ cc st h2) with ⟨e1, e2⟩ |
        ⟨v, fo1, st', cc1V, stV, e1, e2, hb⟩
      · rw [e1, e2]; simp [RFinO]
      · rw [e1, e2]
        cases v with
        | holds =>
          simp only []
          apply rootLoopO_rel hr pick A B wit fuel FB fs
          exact ⟨hb.hi, hb.ok, hb.lcc, hb.lant, hb.lni, hb.ecc, hb.eni, by show addTrue _ _ = addTrue _ _; rw [hb.etr],
            hb.econs, hb.eincl⟩
        | fails t => simp [RFinO]

theorem DRelO.init (o : Ord) : DRelO o [] ⟨[], [], []⟩ ⟨[], [], [], {}⟩ [] ⟨[], []⟩ :=
  ⟨HInvD.empty o, (fun _ hx => by cases hx), (fun _ hx => by cases hx), (fun _ hx => by cases hx),
    (fun _ hx => by cases hx), rfl, rfl, rfl, rfl, rfl⟩

theorem runO_rel {o : Ord} (hr : ∀ q, o.leB q q = true) (pick : List Nat → Nat) (A B : TA) (fuel : Nat) :
    RFinO o (runO o .lib pick A B fuel)
      (rootLoop o A B (prodWit A) fuel (normS B.final) (dedup A.final) [] ⟨[], []⟩) :=
  rootLoopO_rel hr pick A B (prodWit A) fuel (normS B.final) (dedup A.final) _ _ [] _ (DRelO.init o)

theorem viewO_of_RFinO {o : Ord} {rc : Option (Except Tree StO)} {r : Option (Except Tree St)} (h : RFinO o rc r) :
    viewO rc = r := by
  cases rc with
  | none => cases r with
    | none => rfl
    | some y => simp [RFinO] at h
  | some x =>
    cases r with
    | none => cases x <;> simp [RFinO] at h
    | some y =>
      cases x with
      | error t => cases y with
        | error t' => simp only [RFinO] at h; simp [viewO, h]
        | ok s' => simp [RFinO] at h
      | ok s => cases y with
        | error t' => simp [RFinO] at h
        | ok s' =>
          simp only [RFinO] at h
          obtain ⟨_, _, h3, h4, _⟩ := h
          cases s'
          simp only at h3 h4
          simp [viewO, h3, h4]

/-- **the `Opt` exploration with all its containers and caches = the cache-free exploration**: same `return true` /
`return false` (with the same ghost witness), `none` at the same fuel, and on `return true` the antichain `nonIncl_` read through
the heap and the ghost set are those of `InclDown.rootLoop`; for every allocator -/
theorem runO_eq {o : Ord} (hr : ∀ q, o.leB q q = true) (pick : List Nat → Nat) (A B : TA) (fuel : Nat) :
    viewO (runO o .lib pick A B fuel) =
      rootLoop o A B (prodWit A) fuel (normS B.final) (dedup A.final) [] ⟨[], []⟩ :=
  viewO_of_RFinO (runO_rel hr pick A B fuel)

theorem truesOfO_eq_view (rc : Option (Except Tree StO)) :
    truesOfO rc = match viewO rc with
      | none => none
      | some (.ok st) => some (.ok st.trues)
      | some (.error w) => some (.error w) := by
  cases rc with
  | none => rfl
  | some x => cases x <;> rfl

theorem truesOfO_runO_eq {o : Ord} (hr : ∀ q, o.leB q q = true) (pick : List Nat → Nat) (A B : TA) (fuel : Nat) :
    truesOfO (runO o .lib pick A B fuel) = InclDown.run o A B fuel := by
  rw [truesOfO_eq_view, runO_eq hr]; rfl

theorem rawVerdictO_runO_eq {o : Ord} (hr : ∀ q, o.leB q q = true) (pick : List Nat → Nat) (A B : TA) (fuel : Nat) :
    rawVerdictO (runO o .lib pick A B fuel) = (InclDown.run o A B fuel).map (fun r => match r with
      | .ok _ => true
      | .error _ => false) := by
  rw [← truesOfO_runO_eq hr pick]
  cases runO o .lib pick A B fuel with
  | none => rfl
  | some x => cases x <;> rfl

/-- the verdict of the `Opt` functor with caches is the verdict of the plain functor with caches -/
theorem rawVerdictO_eq_plain {o : Ord} (hr : ∀ q, o.leB q q = true) (pick pick' : List Nat → Nat) (A B : TA) (fuel : Nat) :
    rawVerdictO (runO o .lib pick A B fuel) = rawVerdictD (runC o .lib pick' A B fuel) := by
  rw [rawVerdictO_runO_eq hr, rawVerdictD_runC_eq hr]
  cases InclDown.run o A B fuel with
  | none => rfl
  | some x => cases x <;> rfl

/-- **`inclDownOpt_cached_eq`**: for every allocator `ANTICHAINS_DOWN_REC_OPT_NOSIM` with `biggerTypeCache`, `lteCache`, the
library's deleter and all containers of the `Opt` functor returns exactly what the cache-free model `inclDownOpt` returns -/
theorem inclDownOpt_cached_eq (pick : List Nat → Nat) (A B : TA) (fuel : Nat) :
    inclDownOptC .lib pick A B fuel = inclDownOpt A B fuel := by
  unfold inclDownOptC inclDownOpt inclDownRec
  rw [truesOfO_runO_eq idOrd_refl]

/-- … with the preorder parameter (`ANTICHAINS_DOWN_REC_OPT_SIM`) -/
theorem inclDownOptSim_cached_eq (pick : List Nat → Nat) (A B : TA) (R : Rel) (fuel : Nat) :
    inclDownOptSimC .lib pick A B R fuel = inclDownSim A B R fuel := by
  unfold inclDownOptSimC inclDownSim
  rw [truesOfO_runO_eq (ordOf_refl R A B)]

theorem checkInclDownOpt_cached_eq (pick : List Nat → Nat) (A B : TA) (fuel : Nat) :
    checkInclDownOptC .lib pick A B fuel = inclDownOpt (removeUseless A) (removeUseless B) fuel :=
  inclDownOpt_cached_eq pick _ _ fuel

/-- **the invariant at the end of a run** and **`incl_` is never filled** (library's deleter, every allocator) -/
theorem runO_heap_sound {o : Ord} (hr : ∀ q, o.leB q q = true) (pick : List Nat → Nat) (A B : TA) (fuel : Nat) {s : StO}
    (hf : runO o .lib pick A B fuel = some (.ok s)) : HInvD o s.h ∧ heapOKD o s.h = true ∧ s.incl = [] := by
  have hrel := runO_rel hr pick A B fuel
  rw [hf] at hrel
  cases hp : rootLoop o A B (prodWit A) fuel (normS B.final) (dedup A.final) [] ⟨[], []⟩ with
  | none => rw [hp] at hrel; simp [RFinO] at hrel
  | some y =>
    rw [hp] at hrel
    cases y with
    | error t => simp [RFinO] at hrel
    | ok s' =>
      simp only [RFinO] at hrel
      exact ⟨hrel.1, heapOKD_of_HInvD hrel.1, hrel.2.2.2.2⟩

end FCD
end Vata
