import Vata.BddShare
import Vata.Proofs.Rename
import Vata.Proofs.UnionModel
import Vata.Proofs.IsectModel
import Vata.Proofs.TrimModel
/-!
# The sharing model of the BDD automata (`Vata/BddShare.lean`): theorems

1. heap primitives, the reference-count invariant `Inv` (`use_count` = number of live handles, a table is allocated iff it
   has an owner, identifiers are fresh) and its preservation by every step;
2. language lemmas: the frame lemma `reach_frame`, fresh tables, the shared-table union under clause S, the in-place
   `UnionDisjointStates` under clauses T / A / H, `loadinto` under clause L;
3. `step_agree` / `run_agree`: for every history inside `pre`, every entry has the language the specification of the
   operations assigns to it (`specStep`) – the specified language of the result AND unchanged languages of all others;
4. necessity: for each clause a kernel-checked history that violates only this clause and in which a language is wrong.
-/
namespace Vata.BddShare
open Vata

/-! ## 1. primitives -/

section prim
variable (σ : St)

@[simp] theorem tabs_modCell (t t' : Nat) (f : Cell → Option Cell) :
    (σ.modCell t f).tabs t' = if t' = t then (σ.tabs t).bind f else σ.tabs t' := rfl
@[simp] theorem pool_modCell (t : Nat) (f : Cell → Option Cell) : (σ.modCell t f).pool = σ.pool := rfl
@[simp] theorem next_modCell (t : Nat) (f : Cell → Option Cell) : (σ.modCell t f).next = σ.next := rfl
@[simp] theorem tabs_alloc (rs : List Rule) (t' : Nat) :
    (σ.alloc rs).tabs t' = if t' = σ.next then some ⟨rs, 1⟩ else σ.tabs t' := rfl
@[simp] theorem pool_alloc (rs : List Rule) : (σ.alloc rs).pool = σ.pool := rfl
@[simp] theorem next_alloc (rs : List Rule) : (σ.alloc rs).next = σ.next + 1 := rfl
@[simp] theorem tabs_push (h : Hnd) : (σ.push h).tabs = σ.tabs := rfl
@[simp] theorem pool_push (h : Hnd) : (σ.push h).pool = σ.pool ++ [some h] := rfl
@[simp] theorem next_push (h : Hnd) : (σ.push h).next = σ.next := rfl
@[simp] theorem tabs_setH (k : Nat) (o : Option Hnd) : (σ.setH k o).tabs = σ.tabs := rfl
@[simp] theorem pool_setH (k : Nat) (o : Option Hnd) : (σ.setH k o).pool = σ.pool.set k o := rfl
@[simp] theorem next_setH (k : Nat) (o : Option Hnd) : (σ.setH k o).next = σ.next := rfl

/-! ### rules of a table -/

theorem trules_incr (t t' : Nat) : (σ.incr t).trules t' = σ.trules t' := by
  unfold St.trules St.incr
  rw [tabs_modCell]
  by_cases h : t' = t
  · subst h; rw [if_pos rfl]; cases σ.tabs t' <;> rfl
  · rw [if_neg h]

theorem trules_decr_ne (t t' : Nat) (h : t' ≠ t) : (σ.decr t).trules t' = σ.trules t' := by
  unfold St.trules St.decr
  rw [tabs_modCell, if_neg h]

theorem trules_decr_shared (t t' : Nat) (h : 1 < σ.rcOf t) : (σ.decr t).trules t' = σ.trules t' := by
  by_cases e : t' = t
  · subst e
    unfold St.trules St.decr St.rcOf at *
    rw [tabs_modCell, if_pos rfl]
    cases hc : σ.tabs t' with
    | none => rfl
    | some c =>
      rw [hc] at h
      have : ¬ c.rc ≤ 1 := by simp only at h; omega
      simp only [Option.bind_some, if_neg this]
  · exact trules_decr_ne σ t t' e

theorem trules_write (t t' : Nat) (rs : List Rule) :
    (σ.write t rs).trules t' = if t' = t ∧ (σ.tabs t).isSome then rs else σ.trules t' := by
  unfold St.trules St.write
  rw [tabs_modCell]
  by_cases h : t' = t
  · subst h; rw [if_pos rfl]
    cases σ.tabs t' <;> simp
  · rw [if_neg h, if_neg (fun hh => h hh.1)]

theorem trules_alloc (rs : List Rule) (t' : Nat) :
    (σ.alloc rs).trules t' = if t' = σ.next then rs else σ.trules t' := by
  unfold St.trules
  rw [tabs_alloc]
  by_cases h : t' = σ.next
  · rw [if_pos h, if_pos h]
  · rw [if_neg h, if_neg h]

@[simp] theorem trules_push (h : Hnd) (t : Nat) : (σ.push h).trules t = σ.trules t := rfl
@[simp] theorem trules_setH (k : Nat) (o : Option Hnd) (t : Nat) : (σ.setH k o).trules t = σ.trules t := rfl

/-! ### use counts -/

theorem rcOf_incr (t t' : Nat) :
    (σ.incr t).rcOf t' = if t' = t ∧ (σ.tabs t).isSome then σ.rcOf t' + 1 else σ.rcOf t' := by
  unfold St.rcOf St.incr
  rw [tabs_modCell]
  by_cases h : t' = t
  · subst h; rw [if_pos rfl]
    cases σ.tabs t' <;> simp
  · rw [if_neg h, if_neg (fun hh => h hh.1)]

theorem rcOf_decr (t t' : Nat) : (σ.decr t).rcOf t' = if t' = t then σ.rcOf t' - 1 else σ.rcOf t' := by
  unfold St.rcOf St.decr
  rw [tabs_modCell]
  by_cases h : t' = t
  · subst h; rw [if_pos rfl, if_pos rfl]
    cases hc : σ.tabs t' with
    | none => rfl
    | some c =>
      simp only [Option.bind_some]
      by_cases h1 : c.rc ≤ 1
      · rw [if_pos h1]; simp only; omega
      · rw [if_neg h1]
  · rw [if_neg h, if_neg h]

theorem rcOf_write (t t' : Nat) (rs : List Rule) : (σ.write t rs).rcOf t' = σ.rcOf t' := by
  unfold St.rcOf St.write
  rw [tabs_modCell]
  by_cases h : t' = t
  · subst h; rw [if_pos rfl]; cases σ.tabs t' <;> rfl
  · rw [if_neg h]

theorem rcOf_alloc (rs : List Rule) (t' : Nat) : (σ.alloc rs).rcOf t' = if t' = σ.next then 1 else σ.rcOf t' := by
  unfold St.rcOf
  rw [tabs_alloc]
  by_cases h : t' = σ.next
  · rw [if_pos h, if_pos h]
  · rw [if_neg h, if_neg h]

@[simp] theorem rcOf_push (h : Hnd) (t : Nat) : (σ.push h).rcOf t = σ.rcOf t := rfl
@[simp] theorem rcOf_setH (k : Nat) (o : Option Hnd) (t : Nat) : (σ.setH k o).rcOf t = σ.rcOf t := rfl

/-! ### handles -/

@[simp] theorem hnd_modCell (t : Nat) (f : Cell → Option Cell) (k : Nat) : (σ.modCell t f).hnd k = σ.hnd k := rfl
@[simp] theorem hnd_incr (t k : Nat) : (σ.incr t).hnd k = σ.hnd k := rfl
@[simp] theorem hnd_decr (t k : Nat) : (σ.decr t).hnd k = σ.hnd k := rfl
@[simp] theorem hnd_write (t : Nat) (rs : List Rule) (k : Nat) : (σ.write t rs).hnd k = σ.hnd k := rfl
@[simp] theorem hnd_alloc (rs : List Rule) (k : Nat) : (σ.alloc rs).hnd k = σ.hnd k := rfl

theorem hnd_lt {k : Nat} {h : Hnd} (hk : σ.hnd k = some h) : k < σ.pool.length := by
  unfold St.hnd at hk
  by_cases hl : k < σ.pool.length
  · exact hl
  · rw [List.getElem?_eq_none (by omega)] at hk; simp at hk

theorem hnd_ge {k : Nat} (hk : σ.pool.length ≤ k) : σ.hnd k = none := by
  unfold St.hnd
  rw [List.getElem?_eq_none hk]; rfl

theorem hnd_push (h : Hnd) (k : Nat) : (σ.push h).hnd k = if k = σ.pool.length then some h else σ.hnd k := by
  unfold St.hnd
  rw [pool_push]
  by_cases e : k = σ.pool.length
  · subst e; rw [if_pos rfl, List.getElem?_concat_length]; rfl
  · rw [if_neg e]
    by_cases hl : k < σ.pool.length
    · rw [List.getElem?_append_left hl]
    · rw [List.getElem?_eq_none (by simp; omega), List.getElem?_eq_none (by omega)]

theorem hnd_setH {i : Nat} {hi : Hnd} (hlive : σ.hnd i = some hi) (o : Option Hnd) (k : Nat) :
    (σ.setH i o).hnd k = if k = i then o else σ.hnd k := by
  have hl := hnd_lt σ hlive
  unfold St.hnd
  rw [pool_setH, List.getElem?_set]
  by_cases e : k = i
  · subst e; rw [if_pos rfl, if_pos rfl, if_pos hl]; rfl
  · rw [if_neg e, if_neg (fun hh => e hh.symm)]

/-! ### number of owners -/

/-- the predicate "a live handle on table `t`" -/
def onTab (t : Nat) (o : Option Hnd) : Bool := match o with | some h => h.tid == t | none => false

theorem refs_eq (t : Nat) : σ.refs t = σ.pool.countP (onTab t) := rfl

theorem countP_set_some {α : Type} (p : α → Bool) : ∀ (l : List α) (i : Nat) (a b : α), l[i]? = some a →
    (l.set i b).countP p + (if p a then 1 else 0) = l.countP p + (if p b then 1 else 0)
  | [], i, a, b, h => by simp at h
  | x :: l, 0, a, b, h => by
    simp only [List.getElem?_cons_zero, Option.some.injEq] at h
    subst h
    simp only [List.set_cons_zero, List.countP_cons]
    omega
  | x :: l, i + 1, a, b, h => by
    simp only [List.getElem?_cons_succ] at h
    have ih := countP_set_some p l i a b h
    simp only [List.set_cons_succ, List.countP_cons]
    omega

theorem pool_get_of_hnd {i : Nat} {hi : Hnd} (hlive : σ.hnd i = some hi) : σ.pool[i]? = some (some hi) := by
  unfold St.hnd at hlive
  cases h : σ.pool[i]? with
  | none => rw [h] at hlive; simp at hlive
  | some o => rw [h] at hlive; simp only [Option.join_some] at hlive; rw [hlive]

theorem refs_setH {i : Nat} {hi : Hnd} (hlive : σ.hnd i = some hi) (o : Option Hnd) (t : Nat) :
    (σ.setH i o).refs t + (if hi.tid = t then 1 else 0) = σ.refs t + (if onTab t o then 1 else 0) := by
  have := countP_set_some (onTab t) σ.pool i (some hi) o (pool_get_of_hnd σ hlive)
  simp only [onTab, beq_iff_eq] at this
  simpa [refs_eq, onTab] using this

theorem refs_push (h : Hnd) (t : Nat) : (σ.push h).refs t = σ.refs t + (if h.tid = t then 1 else 0) := by
  simp only [refs_eq, pool_push, List.countP_append, List.countP_cons, List.countP_nil, onTab, beq_iff_eq]
  omega

@[simp] theorem refs_modCell (t : Nat) (f : Cell → Option Cell) (t' : Nat) : (σ.modCell t f).refs t' = σ.refs t' := rfl
@[simp] theorem refs_incr (t t' : Nat) : (σ.incr t).refs t' = σ.refs t' := rfl
@[simp] theorem refs_decr (t t' : Nat) : (σ.decr t).refs t' = σ.refs t' := rfl
@[simp] theorem refs_write (t : Nat) (rs : List Rule) (t' : Nat) : (σ.write t rs).refs t' = σ.refs t' := rfl
@[simp] theorem refs_alloc (rs : List Rule) (t' : Nat) : (σ.alloc rs).refs t' = σ.refs t' := rfl

theorem refs_pos_of_hnd {k : Nat} {h : Hnd} (hk : σ.hnd k = some h) : 0 < σ.refs h.tid := by
  rw [refs_eq, List.countP_pos_iff]
  exact ⟨some h, List.mem_of_getElem? (pool_get_of_hnd σ hk), by simp [onTab]⟩

end prim

/-! ## 2. the reference-count invariant -/

/-- `use_count` of every table is the number of live handles on it; allocated tables have an owner; identifiers from
`next` on are unused -/
structure Inv (σ : St) : Prop where
  rc : ∀ t, σ.rcOf t = σ.refs t
  pos : ∀ t c, σ.tabs t = some c → 0 < c.rc
  unused : ∀ t, σ.next ≤ t → σ.tabs t = none

theorem inv_init : Inv init := ⟨fun _ => rfl, fun _ _ h => by simp [init] at h, fun _ _ => rfl⟩

theorem rcOf_eq_zero_of_none {σ : St} {t : Nat} (h : σ.tabs t = none) : σ.rcOf t = 0 := by
  unfold St.rcOf; rw [h]

theorem Inv.tabs_some {σ : St} (I : Inv σ) {k : Nat} {h : Hnd} (hk : σ.hnd k = some h) : (σ.tabs h.tid).isSome := by
  have h1 := refs_pos_of_hnd σ hk
  rw [← I.rc] at h1
  cases hc : σ.tabs h.tid with
  | none => rw [rcOf_eq_zero_of_none hc] at h1; omega
  | some c => rfl

theorem Inv.tid_lt {σ : St} (I : Inv σ) {k : Nat} {h : Hnd} (hk : σ.hnd k = some h) : h.tid < σ.next := by
  have h1 := I.tabs_some hk
  by_cases hl : h.tid < σ.next
  · exact hl
  · rw [I.unused _ (by omega)] at h1; simp at h1

theorem Inv.refs_next {σ : St} (I : Inv σ) : σ.refs σ.next = 0 := by
  rw [← I.rc, rcOf_eq_zero_of_none (I.unused _ (Nat.le_refl _))]

/-- the only owner: a table with `use_count ≤ 1` has no other live handle -/
theorem Inv.unique_owner {σ : St} (I : Inv σ) {i k : Nat} {hi hk : Hnd} (h1 : σ.hnd i = some hi) (h2 : σ.hnd k = some hk)
    (ht : hk.tid = hi.tid) (hrc : σ.rcOf hi.tid ≤ 1) : k = i := by
  by_cases e : k = i
  · exact e
  · exfalso
    have hs := refs_setH σ h1 none hi.tid
    simp only [onTab, if_true] at hs
    have h3 : (σ.setH i none).hnd k = some hk := by rw [hnd_setH σ h1, if_neg e]; exact h2
    have h4 := refs_pos_of_hnd _ h3
    rw [ht] at h4
    rw [I.rc] at hrc
    simp at hs
    omega

/-! ### `pos` and `unused` are kept by every primitive -/

theorem pos_modCell {σ : St} (hp : ∀ t c, σ.tabs t = some c → 0 < c.rc) (t : Nat) (f : Cell → Option Cell)
    (hf : ∀ c c', 0 < c.rc → f c = some c' → 0 < c'.rc) : ∀ t' c, (σ.modCell t f).tabs t' = some c → 0 < c.rc := by
  intro t' c h
  rw [tabs_modCell] at h
  by_cases e : t' = t
  · subst e; rw [if_pos rfl] at h
    cases hc : σ.tabs t' with
    | none => rw [hc] at h; simp at h
    | some c0 => rw [hc] at h; exact hf c0 c (hp _ _ hc) h
  · rw [if_neg e] at h; exact hp _ _ h

theorem unused_modCell {σ : St} (hu : ∀ t, σ.next ≤ t → σ.tabs t = none) (t : Nat) (f : Cell → Option Cell) :
    ∀ t', (σ.modCell t f).next ≤ t' → (σ.modCell t f).tabs t' = none := by
  intro t' h
  rw [tabs_modCell]
  by_cases e : t' = t
  · subst e; rw [if_pos rfl, hu _ h]; rfl
  · rw [if_neg e]; exact hu _ h

theorem pos_incr {σ : St} (hp : ∀ t c, σ.tabs t = some c → 0 < c.rc) (t : Nat) :
    ∀ t' c, (σ.incr t).tabs t' = some c → 0 < c.rc :=
  pos_modCell hp t _ (fun c c' _ h => by simp only [Option.some.injEq] at h; subst h; simp)

theorem pos_decr {σ : St} (hp : ∀ t c, σ.tabs t = some c → 0 < c.rc) (t : Nat) :
    ∀ t' c, (σ.decr t).tabs t' = some c → 0 < c.rc :=
  pos_modCell hp t _ (fun c c' _ h => by
    by_cases h1 : c.rc ≤ 1
    · rw [if_pos h1] at h; simp at h
    · rw [if_neg h1] at h; simp only [Option.some.injEq] at h; subst h; simp only; omega)

theorem pos_write {σ : St} (hp : ∀ t c, σ.tabs t = some c → 0 < c.rc) (t : Nat) (rs : List Rule) :
    ∀ t' c, (σ.write t rs).tabs t' = some c → 0 < c.rc :=
  pos_modCell hp t _ (fun c c' hc h => by simp only [Option.some.injEq] at h; subst h; exact hc)

theorem pos_alloc {σ : St} (hp : ∀ t c, σ.tabs t = some c → 0 < c.rc) (rs : List Rule) :
    ∀ t' c, (σ.alloc rs).tabs t' = some c → 0 < c.rc := by
  intro t' c h
  rw [tabs_alloc] at h
  by_cases e : t' = σ.next
  · rw [if_pos e] at h; simp only [Option.some.injEq] at h; subst h; simp
  · rw [if_neg e] at h; exact hp _ _ h

theorem unused_alloc {σ : St} (hu : ∀ t, σ.next ≤ t → σ.tabs t = none) (rs : List Rule) :
    ∀ t', (σ.alloc rs).next ≤ t' → (σ.alloc rs).tabs t' = none := by
  intro t' h
  rw [next_alloc] at h
  rw [tabs_alloc, if_neg (by omega)]
  exact hu _ (by omega)

/-! ### the invariant is kept by every step -/

theorem inv_fresh {σ : St} (I : Inv σ) (enc : Enc) (A : TA) : Inv (fresh enc σ A) := by
  refine ⟨fun t => ?_, pos_alloc I.pos _, unused_alloc I.unused _⟩
  unfold fresh
  rw [rcOf_push, rcOf_alloc, refs_push, refs_alloc]
  by_cases e : t = σ.next
  · subst e; rw [if_pos rfl, I.refs_next]; simp
  · rw [if_neg e, I.rc]
    have : ¬ σ.next = t := fun h => e h.symm
    simp [this]

theorem inv_share {σ : St} (I : Inv σ) {k : Nat} {h : Hnd} (hk : σ.hnd k = some h) (h' : Hnd) (ht : h'.tid = h.tid) :
    Inv ((σ.incr h.tid).push h') := by
  refine ⟨fun t => ?_, pos_incr I.pos _, unused_modCell I.unused _ _⟩
  rw [rcOf_push, rcOf_incr, refs_push, refs_incr, ht]
  by_cases e : t = h.tid
  · subst e; rw [if_pos ⟨rfl, I.tabs_some hk⟩, I.rc]; simp
  · rw [if_neg (fun hh => e hh.1), I.rc]
    have : ¬ h.tid = t := fun hh => e hh.symm
    simp [this]

theorem inv_assign {σ : St} (I : Inv σ) {i j : Nat} {hi hj : Hnd} (h1 : σ.hnd i = some hi) (h2 : σ.hnd j = some hj) :
    Inv (((σ.incr hj.tid).decr hi.tid).setH i (some hj)) := by
  refine ⟨fun t => ?_, pos_decr (pos_incr I.pos _) _, unused_modCell (unused_modCell I.unused _ _) _ _⟩
  have hs := refs_setH ((σ.incr hj.tid).decr hi.tid) (hi := hi) (by simpa using h1) (some hj) t
  simp only [onTab, beq_iff_eq, refs_decr, refs_incr] at hs
  rw [rcOf_setH, rcOf_decr, rcOf_incr]
  have hr := I.rc t
  have hsome := I.tabs_some h2
  have hpos := refs_pos_of_hnd σ h1
  by_cases e1 : t = hi.tid <;> by_cases e2 : t = hj.tid
  · have e3 : hi.tid = hj.tid := e1.symm.trans e2
    have e4 : hj.tid = t := e2.symm
    have e5 : hi.tid = t := e1.symm
    rw [if_pos e1, if_pos ⟨e2, hsome⟩]
    rw [if_pos e5, if_pos e4] at hs
    omega
  · have e4 : ¬ hj.tid = t := fun h => e2 h.symm
    have e5 : hi.tid = t := e1.symm
    rw [if_pos e1, if_neg (fun h => e2 h.1)]
    rw [if_pos e5, if_neg e4] at hs
    rw [← e5] at hr hs ⊢
    omega
  · have e4 : hj.tid = t := e2.symm
    have e5 : ¬ hi.tid = t := fun h => e1 h.symm
    rw [if_neg e1, if_pos ⟨e2, hsome⟩]
    rw [if_neg e5, if_pos e4] at hs
    omega
  · have e4 : ¬ hj.tid = t := fun h => e2 h.symm
    have e5 : ¬ hi.tid = t := fun h => e1 h.symm
    rw [if_neg e1, if_neg (fun h => e2 h.1)]
    rw [if_neg e5, if_neg e4] at hs
    omega

theorem inv_kill {σ : St} (I : Inv σ) {i : Nat} {hi : Hnd} (h1 : σ.hnd i = some hi) :
    Inv ((σ.decr hi.tid).setH i none) := by
  refine ⟨fun t => ?_, pos_decr I.pos _, unused_modCell I.unused _ _⟩
  have hs := refs_setH (σ.decr hi.tid) (hi := hi) (by simpa using h1) none t
  simp only [onTab, refs_decr] at hs
  rw [rcOf_setH, rcOf_decr]
  have hr := I.rc t
  have hpos := refs_pos_of_hnd σ h1
  by_cases e1 : t = hi.tid
  · have e5 : hi.tid = t := e1.symm
    rw [if_pos e1]
    rw [if_pos e5] at hs
    rw [← e5] at hr hs ⊢
    simp at hs
    omega
  · have e5 : ¬ hi.tid = t := fun h => e1 h.symm
    rw [if_neg e1]
    rw [if_neg e5] at hs
    simp at hs
    omega

/-- replacing a handle by one on the same table -/
theorem inv_setH_same {σ : St} (I : Inv σ) {i : Nat} {hi : Hnd} (h1 : σ.hnd i = some hi) (h' : Hnd) (ht : h'.tid = hi.tid) :
    Inv (σ.setH i (some h')) := by
  refine ⟨fun t => ?_, I.pos, I.unused⟩
  have hs := refs_setH σ h1 (some h') t
  simp only [onTab, beq_iff_eq, ht] at hs
  rw [rcOf_setH, I.rc]
  omega

theorem inv_write {σ : St} (I : Inv σ) (t : Nat) (rs : List Rule) : Inv (σ.write t rs) :=
  ⟨fun t' => by rw [rcOf_write, refs_write]; exact I.rc t', pos_write I.pos _ _, unused_modCell I.unused _ _⟩

/-- copy on write: the handle leaves a shared table for a fresh one -/
theorem inv_cow {σ : St} (I : Inv σ) {i : Nat} {hi : Hnd} (h1 : σ.hnd i = some hi) (rs : List Rule) (h' : Hnd)
    (ht : h'.tid = σ.next) : Inv (((σ.decr hi.tid).alloc rs).setH i (some h')) := by
  refine ⟨fun t => ?_, pos_alloc (pos_decr I.pos _) _, unused_alloc (unused_modCell I.unused _ _) _⟩
  have hs := refs_setH ((σ.decr hi.tid).alloc rs) (hi := hi) (by simpa using h1) (some h') t
  simp only [onTab, beq_iff_eq, refs_alloc, refs_decr, ht] at hs
  rw [rcOf_setH, rcOf_alloc, rcOf_decr]
  have hr := I.rc t
  have hpos := refs_pos_of_hnd σ h1
  have hlt := I.tid_lt h1
  have hn := I.refs_next
  have hnx : (σ.decr hi.tid).next = σ.next := rfl
  rw [hnx]
  by_cases e1 : t = σ.next
  · subst e1
    have e2 : ¬ hi.tid = σ.next := by omega
    rw [if_pos rfl]
    rw [if_neg e2, if_pos rfl] at hs
    omega
  · have e3 : ¬ σ.next = t := fun h => e1 h.symm
    rw [if_neg e1]
    rw [if_neg e3] at hs
    by_cases e2 : t = hi.tid
    · have e5 : hi.tid = t := e2.symm
      rw [if_pos e2]
      rw [if_pos e5] at hs
      rw [← e5] at hr hs ⊢
      omega
    · have e5 : ¬ hi.tid = t := fun h => e2 h.symm
      rw [if_neg e2]
      rw [if_neg e5] at hs
      omega

theorem step_inv {enc : Enc} {σ σ' : St} (I : Inv σ) (s : Step) (hs : step enc σ s = some σ') : Inv σ' := by
  cases s with
  | defn A => simp only [step, Option.some.injEq] at hs; subst hs; exact inv_fresh I enc A
  | copy i =>
    simp only [step, Option.bind_eq_bind] at hs
    cases h1 : σ.hnd i with
    | none => rw [h1] at hs; simp at hs
    | some h => rw [h1] at hs; simp only [Option.bind_some, Option.some.injEq] at hs; subst hs; exact inv_share I h1 h rfl
  | assign i j =>
    simp only [step, Option.bind_eq_bind] at hs
    cases h1 : σ.hnd i with
    | none => rw [h1] at hs; simp at hs
    | some hi =>
      cases h2 : σ.hnd j with
      | none => rw [h1, h2] at hs; simp at hs
      | some hj =>
        rw [h1, h2] at hs
        simp only [Option.bind_some] at hs
        by_cases e : i = j
        · rw [if_pos e] at hs; simp only [Option.some.injEq] at hs; subst hs; exact I
        · rw [if_neg e] at hs; simp only [Option.some.injEq] at hs; subst hs; exact inv_assign I h1 h2
  | kill i =>
    simp only [step, Option.bind_eq_bind] at hs
    cases h1 : σ.hnd i with
    | none => rw [h1] at hs; simp at hs
    | some h => rw [h1] at hs; simp only [Option.bind_some, Option.some.injEq] at hs; subst hs; exact inv_kill I h1
  | loadinto i B =>
    simp only [step, Option.bind_eq_bind] at hs
    cases h1 : σ.hnd i with
    | none => rw [h1] at hs; simp at hs
    | some h =>
      rw [h1] at hs
      simp only [Option.bind_some] at hs
      by_cases e1 : B.rules.isEmpty = true
      · rw [if_pos e1] at hs; simp only [Option.some.injEq] at hs; subst hs; exact inv_setH_same I h1 _ rfl
      · rw [if_neg e1] at hs
        by_cases e2 : 1 < σ.rcOf h.tid
        · rw [if_pos e2] at hs; simp only [Option.some.injEq] at hs; subst hs; exact inv_cow I h1 _ _ rfl
        · rw [if_neg e2] at hs; simp only [Option.some.injEq] at hs; subst hs
          exact inv_setH_same (inv_write I _ _) (hi := h) (by simpa using h1) _ rfl
  | final i q =>
    simp only [step, Option.bind_eq_bind] at hs
    cases h1 : σ.hnd i with
    | none => rw [h1] at hs; simp at hs
    | some h => rw [h1] at hs; simp only [Option.bind_some, Option.some.injEq] at hs; subst hs; exact inv_setH_same I h1 _ rfl
  | union i j =>
    simp only [step, Option.bind_eq_bind] at hs
    cases h1 : σ.hnd i with
    | none => rw [h1] at hs; simp at hs
    | some hi =>
      cases h2 : σ.hnd j with
      | none => rw [h1, h2] at hs; simp at hs
      | some hj =>
        rw [h1, h2] at hs
        simp only [Option.bind_some] at hs
        by_cases e : hi.tid = hj.tid
        · rw [if_pos e] at hs; simp only [Option.some.injEq] at hs; subst hs; exact inv_share I h1 _ rfl
        · rw [if_neg e] at hs; simp only [Option.some.injEq] at hs; subst hs; exact inv_fresh I enc _
  | uniondisj i j =>
    simp only [step, Option.bind_eq_bind] at hs
    cases h1 : σ.hnd i with
    | none => rw [h1] at hs; simp at hs
    | some hi =>
      cases h2 : σ.hnd j with
      | none => rw [h1, h2] at hs; simp at hs
      | some hj =>
        rw [h1, h2] at hs
        simp only [Option.bind_some] at hs
        by_cases e : hi.tid = hj.tid
        · rw [if_pos e] at hs; simp only [Option.some.injEq] at hs; subst hs; exact inv_share I h1 _ rfl
        · rw [if_neg e] at hs; simp only [Option.some.injEq] at hs; subst hs
          have I1 := inv_share I h1 (sharedRes hi hj) rfl
          refine ⟨fun t => ?_, pos_write (pos_incr I.pos _) _ _, unused_modCell (unused_modCell I.unused _ _) _ _⟩
          have := I1.rc t
          rw [rcOf_push] at this
          rw [rcOf_push, rcOf_write]
          exact this
  | isect i j =>
    simp only [step, Option.bind_eq_bind] at hs
    cases h1 : σ.hnd i with
    | none => rw [h1] at hs; simp at hs
    | some hi =>
      cases h2 : σ.hnd j with
      | none => rw [h1, h2] at hs; simp at hs
      | some hj =>
        rw [h1, h2] at hs
        simp only [Option.bind_some, Option.some.injEq] at hs; subst hs; exact inv_fresh I enc _
  | unreach i =>
    simp only [step, Option.bind_eq_bind] at hs
    cases h1 : σ.hnd i with
    | none => rw [h1] at hs; simp at hs
    | some h => rw [h1] at hs; simp only [Option.bind_some, Option.some.injEq] at hs; subst hs; exact inv_fresh I enc _
  | useless i =>
    simp only [step, Option.bind_eq_bind] at hs
    cases h1 : σ.hnd i with
    | none => rw [h1] at hs; simp at hs
    | some h => rw [h1] at hs; simp only [Option.bind_some, Option.some.injEq] at hs; subst hs; exact inv_fresh I enc _
  | rt i =>
    simp only [step, Option.bind_eq_bind] at hs
    cases h1 : σ.hnd i with
    | none => rw [h1] at hs; simp at hs
    | some h => rw [h1] at hs; simp only [Option.bind_some, Option.some.injEq] at hs; subst hs; exact I

/-! ## 3. language lemmas -/

-- **Frame lemma.**  `S` is a set of states such that every rule of `U` whose parent is in `S` is a rule of `V` and has
-- all its children in `S`.  Then the states of `S` label in `U` only trees they label in `V`.
mutual
theorem reach_frame (U V : TA) (S : Nat → Prop)
    (h : ∀ r, r ∈ U.rules → S r.parent → r ∈ V.rules ∧ ∀ k, k ∈ r.kids → S k) :
    ∀ (t : Tree) (q : Nat), S q → q ∈ reach U t → q ∈ reach V t
  | .node f ts, q, hq => by
    rw [reach, reach, mem_post', mem_post']
    rintro ⟨r, hr, hs, hm, hp⟩
    obtain ⟨hrV, hk⟩ := h r hr (by rw [hp]; exact hq)
    exact ⟨r, hrV, hs, matchKids_on S r.kids _ _ hk (reachL_frame U V S h ts) hm, hp⟩
theorem reachL_frame (U V : TA) (S : Nat → Prop)
    (h : ∀ r, r ∈ U.rules → S r.parent → r ∈ V.rules ∧ ∀ k, k ∈ r.kids → S k) :
    ∀ ts : List Tree, All2 (fun s' s => ∀ k, S k → k ∈ s' → k ∈ s) (reachL U ts) (reachL V ts)
  | [] => All2.nil
  | t :: ts => All2.cons (reach_frame U V S h t) (reachL_frame U V S h ts)
end

/-- the frame lemma for languages: `V ⊆ U` and the final states are in `S` -/
theorem accepts_frame (U V : TA) (S : Nat → Prop)
    (h : ∀ r, r ∈ U.rules → S r.parent → r ∈ V.rules ∧ ∀ k, k ∈ r.kids → S k)
    (hsub : ∀ r, r ∈ V.rules → r ∈ U.rules) (hf : U.final = V.final) (hS : ∀ q, q ∈ U.final → S q) (t : Tree) :
    accepts U t = accepts V t := by
  rw [Bool.eq_iff_iff]
  simp only [accepts, accepting, List.any_eq_true, List.contains_iff_mem]
  constructor
  · rintro ⟨q, hq, hfin⟩
    exact ⟨q, reach_frame U V S h t q (hS q hfin) hq, hf ▸ hfin⟩
  · rintro ⟨q, hq, hfin⟩
    exact ⟨q, reach_mono V U hsub t q hq, hf ▸ hfin⟩

theorem disj_iff {a b : List Nat} : disj a b = true ↔ ∀ x, x ∈ a → x ∉ b := by
  simp [disj]

theorem mem_rstates {rs : List Rule} {q : Nat} : q ∈ rstates rs ↔ ∃ r, r ∈ rs ∧ (q = r.parent ∨ q ∈ r.kids) := by
  simp only [rstates, List.mem_flatMap, Rule.states, List.mem_cons]

theorem mem_rstates_append {a b : List Rule} {q : Nat} : q ∈ rstates (a ++ b) ↔ q ∈ rstates a ∨ q ∈ rstates b := by
  simp only [rstates, List.flatMap_append, List.mem_append]

@[simp] theorem leafRule_kids (x : Nat × Nat) : (leafRule x).kids = [] := rfl
@[simp] theorem leafRule_parent (x : Nat × Nat) : (leafRule x).parent = x.2 := rfl

theorem mem_rstates_leaf {N : List (Nat × Nat)} {q : Nat} : q ∈ rstates (N.map leafRule) ↔ q ∈ N.map (·.2) := by
  simp only [mem_rstates, List.mem_map]
  constructor
  · rintro ⟨r, ⟨x, hx, rfl⟩, h⟩
    rcases h with h | h
    · exact ⟨x, hx, h.symm⟩
    · simp at h
  · rintro ⟨x, hx, rfl⟩
    exact ⟨leafRule x, ⟨x, hx, rfl⟩, Or.inl rfl⟩

/-- the states of the automaton an object denotes: those of its table, the parents of its leaf rules, its final states -/
theorem mem_aut_states {σ : St} {h : Hnd} {q : Nat} :
    q ∈ (σ.aut h).states ↔ q ∈ rstates (σ.trules h.tid) ∨ q ∈ h.nul.map (·.2) ∨ q ∈ h.fin := by
  rw [Rn.mem_states]
  show (∃ r, r ∈ σ.trules h.tid ++ h.nul.map leafRule ∧ _) ∨ q ∈ h.fin ↔ _
  rw [← mem_rstates, mem_rstates_append, mem_rstates_leaf, or_assoc]

theorem mem_ta_states {rs : List Rule} {F : List Nat} {q : Nat} : q ∈ (TA.mk rs F).states ↔ q ∈ rstates rs ∨ q ∈ F := by
  rw [Rn.mem_states, ← mem_rstates]

/-! ### splitting an automaton into table part and leaf part -/

theorem leaf_of_notInTable {enc : Enc} {r : Rule} (h : inTable enc r = false) : leafRule (r.sym, r.parent) = r := by
  cases enc with
  | td => simp [inTable] at h
  | bu =>
    simp only [inTable, Bool.not_eq_false', List.isEmpty_iff] at h
    cases r with
    | mk f ks p => simp only at h; subst h; rfl

theorem mem_nulPart {enc : Enc} {rs : List Rule} {r : Rule} :
    r ∈ (nulPart enc rs).map leafRule ↔ r ∈ rs ∧ inTable enc r = false := by
  simp only [nulPart, List.map_map, List.mem_map, List.mem_filter, Function.comp, Bool.not_eq_true']
  constructor
  · rintro ⟨r', ⟨h1, h2⟩, rfl⟩
    rw [leaf_of_notInTable h2]; exact ⟨h1, h2⟩
  · rintro ⟨h1, h2⟩
    exact ⟨r, ⟨h1, h2⟩, leaf_of_notInTable h2⟩

theorem mem_tblPart {enc : Enc} {rs : List Rule} {r : Rule} : r ∈ tblPart enc rs ↔ r ∈ rs ∧ inTable enc r = true := by
  simp only [tblPart, List.mem_filter]

theorem mem_split {enc : Enc} {rs : List Rule} {r : Rule} :
    r ∈ tblPart enc rs ++ (nulPart enc rs).map leafRule ↔ r ∈ rs := by
  rw [List.mem_append, mem_tblPart, mem_nulPart]
  constructor
  · rintro (h | h) <;> exact h.1
  · intro h
    cases e : inTable enc r
    · exact Or.inr ⟨h, rfl⟩
    · exact Or.inl ⟨h, rfl⟩

/-- the object created by `fresh` denotes `A` -/
theorem fresh_lang (enc : Enc) (σ : St) (A : TA) (t : Tree) :
    (fresh enc σ A).lang ⟨σ.next, nulPart enc A.rules, A.final⟩ t = accepts A t := by
  unfold St.lang
  apply Isx.accepts_congr_sets
  · intro r
    show r ∈ (fresh enc σ A).trules σ.next ++ (nulPart enc A.rules).map leafRule ↔ _
    unfold fresh
    rw [trules_push, trules_alloc, if_pos rfl]
    exact mem_split
  · intro q; exact Iff.rfl

/-! ### two objects on one table (clause S) -/

theorem upClosedB_iff {rs : List Rule} {C : List Nat} :
    upClosedB rs C = true ↔ ∀ r, r ∈ rs → (∃ k, k ∈ r.kids ∧ k ∈ C) → r.parent ∈ C := by
  simp only [upClosedB, List.all_eq_true, Bool.or_eq_true, Bool.not_eq_true', List.contains_iff_mem]
  constructor
  · intro h r hr ⟨k, hk, hkC⟩
    rcases h r hr with h1 | h1
    · rw [List.any_eq_false] at h1
      exact absurd (by simpa using hkC) (h1 k hk)
    · exact h1
  · intro h r hr
    by_cases e : ∃ k, k ∈ r.kids ∧ k ∈ C
    · exact Or.inr (h r hr e)
    · refine Or.inl ?_
      rw [List.any_eq_false]
      intro k hk hc
      exact e ⟨k, hk, by simpa using hc⟩

theorem sub_upStep (rs : List Rule) (C : List Nat) {x : Nat} (h : x ∈ C) : x ∈ upStep rs C := by
  unfold upStep; rw [Rn.mem_unionL]; exact Or.inl h

theorem sub_upClose (rs : List Rule) : ∀ (n : Nat) (C : List Nat) {x : Nat}, x ∈ C → x ∈ upClose rs n C
  | 0, _, _, h => h
  | n + 1, C, _, h => sub_upClose rs n (upStep rs C) (sub_upStep rs C h)

theorem mem_influence {R : List Rule} {n₁ n₂ : List (Nat × Nat)} {x : Nat × Nat} (h2 : x ∈ n₂) (h1 : x ∉ n₁) :
    x.2 ∈ influence R n₁ n₂ := by
  unfold influence
  apply sub_upClose
  rw [Rn.mem_dedupL, List.mem_map]
  exact ⟨x, List.mem_filter.mpr ⟨h2, by simpa using h1⟩, rfl⟩

/-- leaf rules that cannot influence a state can be dropped: outside an upward closed set `C` that contains the parents of
the leaf rules `N₂ \ N₁`, the rules `R ∪ N₁ ∪ N₂` label a tree only with states that `R ∪ N₁` labels it with -/
theorem shared_reach (R : List Rule) (N₁ N₂ : List (Nat × Nat)) (C : List Nat)
    (hc : upClosedB R C = true) (hp : ∀ x, x ∈ N₂ → x ∉ N₁ → x.2 ∈ C) (F F' : List Nat) (t : Tree) (q : Nat) (hq : q ∉ C) :
    q ∈ reach ⟨R ++ (N₁ ++ N₂).map leafRule, F⟩ t → q ∈ reach ⟨R ++ N₁.map leafRule, F'⟩ t := by
  rw [upClosedB_iff] at hc
  apply reach_frame _ _ (fun q => q ∉ C) _ t q hq
  intro r hr hpar
  rcases List.mem_append.mp hr with h | h
  · exact ⟨List.mem_append_left _ h, fun k hk hkC => hpar (hc r h ⟨k, hk, hkC⟩)⟩
  · obtain ⟨x, hx, rfl⟩ := List.mem_map.mp h
    refine ⟨?_, fun k hk => by simp at hk⟩
    rcases List.mem_append.mp hx with h1 | h2
    · exact List.mem_append_right _ (List.mem_map_of_mem h1)
    · by_cases e : x ∈ N₁
      · exact List.mem_append_right _ (List.mem_map_of_mem e)
      · exact absurd (hp x h2 e) hpar

/-- **shared table, clause S**: the object `(table, N₁ ∪ N₂, F₁ ∪ F₂)` accepts exactly the union -/
theorem shared_lang {σ : St} {hi hj : Hnd} (ht : hi.tid = hj.tid) (hS : clauseS σ hi hj = true) (t : Tree) :
    accepts ⟨σ.trules hi.tid ++ (hi.nul ++ hj.nul).map leafRule, hi.fin ++ hj.fin⟩ t = (σ.lang hi t || σ.lang hj t) := by
  simp only [clauseS, Bool.and_eq_true, List.all_eq_true, Bool.or_eq_true, Bool.not_eq_true',
    List.contains_eq_mem, decide_eq_false_iff_not, decide_eq_true_eq] at hS
  obtain ⟨⟨hc1, hc2⟩, hF⟩ := hS
  have hsub : ∀ (N : List (Nat × Nat)), (∀ x, x ∈ N → x ∈ hi.nul ++ hj.nul) → ∀ r,
      r ∈ σ.trules hi.tid ++ N.map leafRule → r ∈ σ.trules hi.tid ++ (hi.nul ++ hj.nul).map leafRule := by
    intro N hN r hr
    rcases List.mem_append.mp hr with h | h
    · exact List.mem_append_left _ h
    · obtain ⟨x, hx, rfl⟩ := List.mem_map.mp h
      exact List.mem_append_right _ (List.mem_map_of_mem (hN x hx))
  rw [Bool.eq_iff_iff]
  constructor
  · intro h
    simp only [accepts, accepting, List.any_eq_true, List.contains_iff_mem] at h
    obtain ⟨q, hq, hfin⟩ := h
    rcases hF q hfin with ⟨hqi, hqC⟩ | ⟨hqj, hqC⟩
    · have := shared_reach _ _ _ _ hc1 (fun x h2 h1 => mem_influence h2 h1) _ hi.fin t q hqC hq
      rw [Bool.or_eq_true]; left
      simp only [St.lang, accepts, accepting, List.any_eq_true, List.contains_iff_mem]
      exact ⟨q, this, hqi⟩
    · have hq' : q ∈ reach ⟨σ.trules hi.tid ++ (hj.nul ++ hi.nul).map leafRule, hj.fin⟩ t := by
        refine reach_mono _ _ ?_ t q hq
        intro r hr
        rcases List.mem_append.mp hr with h | h
        · exact List.mem_append_left _ h
        · obtain ⟨x, hx, rfl⟩ := List.mem_map.mp h
          refine List.mem_append_right _ (List.mem_map_of_mem ?_)
          rcases List.mem_append.mp hx with h | h
          · exact List.mem_append_right _ h
          · exact List.mem_append_left _ h
      have := shared_reach _ _ _ _ hc2 (fun x h2 h1 => mem_influence h2 h1) _ hj.fin t q hqC hq'
      rw [Bool.or_eq_true]; right
      simp only [St.lang, accepts, accepting, List.any_eq_true, List.contains_iff_mem]
      refine ⟨q, ?_, hqj⟩
      show q ∈ reach ⟨σ.trules hj.tid ++ hj.nul.map leafRule, hj.fin⟩ t
      rw [← ht]; exact this
  · intro h
    rw [Bool.or_eq_true] at h
    rcases h with h | h
    · refine Isx.accepts_sub (P := σ.aut hi) ?_ ?_ t h
      · exact hsub hi.nul (fun x hx => List.mem_append_left _ hx)
      · exact fun q hq => List.mem_append_left _ hq
    · refine Isx.accepts_sub (P := σ.aut hj) ?_ ?_ t h
      · intro r hr
        have hr' : r ∈ σ.trules hi.tid ++ hj.nul.map leafRule := by
          have : r ∈ σ.trules hj.tid ++ hj.nul.map leafRule := hr
          rw [← ht] at this; exact this
        exact hsub hj.nul (fun x hx => List.mem_append_right _ hx) r hr'
      · exact fun q hq => List.mem_append_right _ hq

/-! ### the in-place `UnionDisjointStates` (clauses T, A, H) -/

/-- two rules in one table entry share a state -/
theorem clash_state {enc : Enc} {r r' : Rule} (h : clash enc r r' = true) :
    ∃ q, (q = r.parent ∨ q ∈ r.kids) ∧ (q = r'.parent ∨ q ∈ r'.kids) := by
  cases enc with
  | td =>
    simp only [clash, beq_iff_eq] at h
    exact ⟨r.parent, Or.inl rfl, Or.inl h⟩
  | bu =>
    simp only [clash, Bool.and_eq_true, Bool.not_eq_true', beq_iff_eq] at h
    obtain ⟨hne, heq⟩ := h
    cases hk : r.kids with
    | nil => rw [hk] at hne; simp at hne
    | cons k ks =>
      refine ⟨k, Or.inr List.mem_cons_self, Or.inr ?_⟩
      rw [← heq, hk]; exact List.mem_cons_self

/-- when the tables have no state in common nothing is replaced: the write appends -/
theorem overwrite_eq_append (enc : Enc) (Ta Tb : List Rule) (h : ∀ q, q ∈ rstates Ta → q ∉ rstates Tb) :
    overwrite enc Ta Tb = Ta ++ Tb := by
  unfold overwrite
  congr 1
  rw [List.filter_eq_self]
  intro r hr
  rw [Bool.not_eq_true', List.any_eq_false]
  intro r' hr' hc
  obtain ⟨q, h1, h2⟩ := clash_state hc
  exact h q (mem_rstates.mpr ⟨r, hr, h1⟩) (mem_rstates.mpr ⟨r', hr', h2⟩)

theorem clauseT_iff {σ : St} {hi hj : Hnd} :
    clauseT σ hi hj = true ↔ ∀ q, q ∈ rstates (σ.trules hi.tid) → q ∉ (σ.aut hj).states := disj_iff

theorem clauseA_iff {σ : St} {hi hj : Hnd} :
    clauseA σ hi hj = true ↔ ∀ q, q ∈ hi.nul.map (·.2) ∨ q ∈ hi.fin → q ∉ (σ.aut hj).states := by
  unfold clauseA
  rw [disj_iff]
  simp only [List.mem_append]

theorem clauseT_overwrite {enc : Enc} {σ : St} {hi hj : Hnd} (hT : clauseT σ hi hj = true) :
    overwrite enc (σ.trules hi.tid) (σ.trules hj.tid) = σ.trules hi.tid ++ σ.trules hj.tid :=
  overwrite_eq_append enc _ _ (fun q h1 h2 => clauseT_iff.mp hT q h1 (mem_aut_states.mpr (Or.inl h2)))

/-- **the result of the in-place `UnionDisjointStates`** accepts exactly the union (clauses T and A) -/
theorem uniondisj_lang {σ : St} {hi hj : Hnd} (hT : clauseT σ hi hj = true) (hA : clauseA σ hi hj = true) (t : Tree) :
    accepts ⟨(σ.trules hi.tid ++ σ.trules hj.tid) ++ (hi.nul ++ hj.nul).map leafRule, hi.fin ++ hj.fin⟩ t =
      (σ.lang hi t || σ.lang hj t) := by
  have hdis : ∀ q, q ∈ (σ.aut hi).states → q ∉ (σ.aut hj).states := by
    intro q hq
    rcases mem_aut_states.mp hq with h | h | h
    · exact clauseT_iff.mp hT q h
    · exact clauseA_iff.mp hA q (Or.inl h)
    · exact clauseA_iff.mp hA q (Or.inr h)
  have e := unionDisjoint_lang (σ.aut hi) (σ.aut hj) hdis t
  unfold St.lang
  rw [← e]
  apply Isx.accepts_congr_sets
  · intro r
    simp only [unionDisjoint, St.aut, St.visible, List.mem_append, List.map_append]
    constructor
    · rintro ((h | h) | (h | h))
      · exact Or.inl (Or.inl h)
      · exact Or.inr (Or.inl h)
      · exact Or.inl (Or.inr h)
      · exact Or.inr (Or.inr h)
    · rintro ((h | h) | (h | h))
      · exact Or.inl (Or.inl h)
      · exact Or.inr (Or.inl h)
      · exact Or.inl (Or.inr h)
      · exact Or.inr (Or.inr h)
  · intro q; exact Iff.rfl

/-- **a bystander on the written table** keeps its language when the states of the written rules are in a set `Sb` that
does not meet the old table, and no final state of the bystander is the parent of a written rule (its own leaf rules do
not matter: they have no children) -/
theorem bystander_lang (Ta Tb : List Rule) (N : List (Nat × Nat)) (F Sb : List Nat)
    (hT : ∀ q, q ∈ rstates Ta → q ∉ Sb) (hb : ∀ q, q ∈ rstates Tb → q ∈ Sb)
    (hF : ∀ q, q ∈ F → q ∉ Tb.map (·.parent)) (t : Tree) :
    accepts ⟨(Ta ++ Tb) ++ N.map leafRule, F⟩ t = accepts ⟨Ta ++ N.map leafRule, F⟩ t := by
  apply accepts_frame _ _ (fun q => q ∉ Tb.map (·.parent))
  · intro r hr hpar
    rcases List.mem_append.mp hr with h | h
    · rcases List.mem_append.mp h with h | h
      · refine ⟨List.mem_append_left _ h, fun k hk hk' => ?_⟩
        obtain ⟨r', hr', e⟩ := List.mem_map.mp hk'
        exact hT k (mem_rstates.mpr ⟨r, h, Or.inr hk⟩) (hb k (mem_rstates.mpr ⟨r', hr', Or.inl e.symm⟩))
      · exact absurd (List.mem_map_of_mem h) hpar
    · obtain ⟨x, hx, rfl⟩ := List.mem_map.mp h
      exact ⟨List.mem_append_right _ h, fun k hk => by simp at hk⟩
  · intro r hr
    rcases List.mem_append.mp hr with h | h
    · exact List.mem_append_left _ (List.mem_append_left _ h)
    · exact List.mem_append_right _ h
  · rfl
  · exact hF

/-! ### `loadinto` (clause L) -/

theorem loadinto_lang (enc : Enc) (Ta : List Rule) (N : List (Nat × Nat)) (F : List Nat) (B : TA)
    (hd : ∀ q, q ∈ (TA.mk (Ta ++ N.map leafRule) F).states → q ∉ B.states) (t : Tree) :
    accepts ⟨(Ta ++ tblPart enc B.rules) ++ (N ++ nulPart enc B.rules).map leafRule, F ++ B.final⟩ t =
      (accepts ⟨Ta ++ N.map leafRule, F⟩ t || accepts B t) := by
  rw [← unionDisjoint_lang _ B hd t]
  apply Isx.accepts_congr_sets
  · intro r
    have hsplit := @mem_split enc B.rules r
    simp only [List.mem_append] at hsplit
    simp only [unionDisjoint, List.mem_append, List.map_append]
    constructor
    · rintro ((h | h) | (h | h))
      · exact Or.inl (Or.inl h)
      · exact Or.inr (hsplit.mp (Or.inl h))
      · exact Or.inl (Or.inr h)
      · exact Or.inr (hsplit.mp (Or.inr h))
    · rintro ((h | h) | h)
      · exact Or.inl (Or.inl h)
      · exact Or.inr (Or.inl h)
      · rcases hsplit.mpr h with h | h
        · exact Or.inl (Or.inr h)
        · exact Or.inr (Or.inr h)
  · intro q; exact Iff.rfl

theorem trimU_lang (enc : Enc) (A : TA) (t : Tree) : accepts (trimU enc A) t = accepts A t := by
  cases enc with
  | td => exact removeUnreachable_lang A t
  | bu => exact restrict_lang A _ (prodStates_closed A) t

/-! ## 4. every step inside `pre` meets its specification and disturbs nobody -/

/-- a language, as a predicate on trees -/
abbrev Sem := Tree → Bool

def getS (Ls : List (Option Sem)) (k : Nat) : Option Sem := (Ls[k]?).join

/-- **The specification of the steps**, on languages: from the languages `Ls` of the entries before the step the
languages after it.  Every entry that is not the result (or the target of `assign` / `kill` / `loadinto` / `final`)
KEEPS its language – this is the isolation claim –, a copy has the language of its source, `union` / `uniondisj` the union,
`isect` the intersection, the trimmings the language of the operand, `loadinto` the union with the loaded automaton;
`final i q` is specified structurally (the rules the object sees, one more final state). -/
def specStep (σ : St) (s : Step) (Ls : List (Option Sem)) : Option (List (Option Sem)) :=
  match s with
  | .defn A => some (Ls ++ [some (accepts A)])
  | .copy i => (getS Ls i).map (fun L => Ls ++ [some L])
  | .assign i j => (getS Ls i).bind (fun _ => (getS Ls j).map (fun L => Ls.set i (some L)))
  | .kill i => (getS Ls i).map (fun _ => Ls.set i none)
  | .loadinto i B => (getS Ls i).map (fun L => Ls.set i (some (fun t => L t || accepts B t)))
  | .final i q => (σ.hnd i).map (fun h => Ls.set i (some (accepts ⟨σ.visible h, h.fin ++ [q]⟩)))
  | .union i j => (getS Ls i).bind (fun Li => (getS Ls j).map (fun Lj => Ls ++ [some (fun t => Li t || Lj t)]))
  | .uniondisj i j => (getS Ls i).bind (fun Li => (getS Ls j).map (fun Lj => Ls ++ [some (fun t => Li t || Lj t)]))
  | .isect i j => (getS Ls i).bind (fun Li => (getS Ls j).map (fun Lj => Ls ++ [some (fun t => Li t && Lj t)]))
  | .unreach i => (getS Ls i).map (fun L => Ls ++ [some L])
  | .useless i => (getS Ls i).map (fun L => Ls ++ [some L])
  | .rt i => (getS Ls i).map (fun _ => Ls)

def OptRel {α β : Type} (R : α → β → Prop) : Option α → Option β → Prop
  | some a, some b => R a b
  | none, none => True
  | _, _ => False

/-- the pool denotes the languages `Ls`: same length, dead entries are dead, live entries have the listed language -/
def Agree (σ : St) (Ls : List (Option Sem)) : Prop :=
  σ.pool.length = Ls.length ∧ ∀ k, OptRel (fun h L => ∀ t, σ.lang h t = L t) (σ.hnd k) (getS Ls k)

theorem getS_push (Ls : List (Option Sem)) (x : Option Sem) (k : Nat) :
    getS (Ls ++ [x]) k = if k = Ls.length then x else getS Ls k := by
  unfold getS
  by_cases e : k = Ls.length
  · subst e; rw [if_pos rfl, List.getElem?_concat_length]; rfl
  · rw [if_neg e]
    by_cases hl : k < Ls.length
    · rw [List.getElem?_append_left hl]
    · rw [List.getElem?_eq_none (by simp; omega), List.getElem?_eq_none (by omega)]

theorem getS_set (Ls : List (Option Sem)) {i : Nat} (hi : i < Ls.length) (x : Option Sem) (k : Nat) :
    getS (Ls.set i x) k = if k = i then x else getS Ls k := by
  unfold getS
  rw [List.getElem?_set]
  by_cases e : k = i
  · subst e; rw [if_pos rfl, if_pos rfl, if_pos hi]; rfl
  · rw [if_neg e, if_neg (fun hh => e hh.symm)]

theorem hnd_of_pool {σ τ : St} (h : σ.pool = τ.pool) (k : Nat) : σ.hnd k = τ.hnd k := by
  unfold St.hnd; rw [h]

theorem Agree.get {σ : St} {Ls : List (Option Sem)} (A : Agree σ Ls) {i : Nat} {hi : Hnd} (h : σ.hnd i = some hi) :
    ∃ L, getS Ls i = some L ∧ ∀ t, σ.lang hi t = L t := by
  have := A.2 i
  rw [h] at this
  cases hL : getS Ls i with
  | none => rw [hL] at this; exact this.elim
  | some L => rw [hL] at this; exact ⟨L, rfl, this⟩

theorem lang_congr {σ σ' : St} {x : Hnd} (h : σ'.trules x.tid = σ.trules x.tid) (t : Tree) : σ'.lang x t = σ.lang x t := by
  unfold St.lang St.aut St.visible; rw [h]

/-- a step that appends an entry -/
theorem agree_push {σ σ' : St} {Ls : List (Option Sem)} (A : Agree σ Ls) (h' : Hnd) (L : Sem)
    (hp : σ'.pool = σ.pool ++ [some h'])
    (hframe : ∀ k h, σ.hnd k = some h → ∀ t, σ'.lang h t = σ.lang h t)
    (hnew : ∀ t, σ'.lang h' t = L t) : Agree σ' (Ls ++ [some L]) := by
  refine ⟨by rw [hp]; simp [A.1], fun k => ?_⟩
  have e : σ'.hnd k = (σ.push h').hnd k := hnd_of_pool (by rw [hp]; rfl) k
  rw [e, hnd_push, getS_push, ← A.1]
  by_cases ek : k = σ.pool.length
  · rw [if_pos ek, if_pos ek]; exact hnew
  · rw [if_neg ek, if_neg ek]
    have := A.2 k
    cases hk : σ.hnd k with
    | none =>
      rw [hk] at this
      cases hL : getS Ls k with
      | none => trivial
      | some _ => rw [hL] at this; exact this.elim
    | some h =>
      rw [hk] at this
      cases hL : getS Ls k with
      | none => rw [hL] at this; exact this.elim
      | some L' =>
        rw [hL] at this
        intro t; rw [hframe k h hk t]; exact this t

/-- a step that replaces entry `i` -/
theorem agree_set {σ σ' : St} {Ls : List (Option Sem)} (A : Agree σ Ls) {i : Nat} {hi : Hnd} (h1 : σ.hnd i = some hi)
    (o : Option Hnd) (oL : Option Sem) (hp : σ'.pool = σ.pool.set i o)
    (hframe : ∀ k h, k ≠ i → σ.hnd k = some h → ∀ t, σ'.lang h t = σ.lang h t)
    (hnew : OptRel (fun h L => ∀ t, σ'.lang h t = L t) o oL) : Agree σ' (Ls.set i oL) := by
  have hl : i < Ls.length := by rw [← A.1]; exact hnd_lt σ h1
  refine ⟨by rw [hp]; simp [A.1], fun k => ?_⟩
  have e : σ'.hnd k = (σ.setH i o).hnd k := hnd_of_pool (by rw [hp]; rfl) k
  rw [e, hnd_setH σ h1, getS_set Ls hl]
  by_cases ek : k = i
  · rw [if_pos ek, if_pos ek]; exact hnew
  · rw [if_neg ek, if_neg ek]
    have := A.2 k
    cases hk : σ.hnd k with
    | none =>
      rw [hk] at this
      cases hL : getS Ls k with
      | none => trivial
      | some _ => rw [hL] at this; exact this.elim
    | some h =>
      rw [hk] at this
      cases hL : getS Ls k with
      | none => rw [hL] at this; exact this.elim
      | some L' =>
        rw [hL] at this
        intro t; rw [hframe k h ek hk t]; exact this t

/-- fresh-table operations disturb nobody -/
theorem agree_fresh {enc : Enc} {σ : St} {Ls : List (Option Sem)} (I : Inv σ) (A : Agree σ Ls) (X : TA) (L : Sem)
    (hL : ∀ t, accepts X t = L t) : Agree (fresh enc σ X) (Ls ++ [some L]) := by
  refine agree_push A ⟨σ.next, nulPart enc X.rules, X.final⟩ L rfl (fun k h hk t => ?_) (fun t => ?_)
  · apply lang_congr
    unfold fresh
    rw [trules_push, trules_alloc, if_neg]
    have := I.tid_lt hk; omega
  · rw [fresh_lang]; exact hL t

/-- a new object on an existing table (copy, shared-table union) -/
theorem agree_share {σ : St} {Ls : List (Option Sem)} (A : Agree σ Ls) (x : Nat) (h' : Hnd) (L : Sem)
    (hL : ∀ t, σ.lang h' t = L t) : Agree ((σ.incr x).push h') (Ls ++ [some L]) := by
  refine agree_push A h' L rfl (fun k h _ t => ?_) (fun t => ?_)
  · exact lang_congr (by rw [trules_push, trules_incr]) t
  · rw [← hL t]; exact lang_congr (by rw [trules_push, trules_incr]) t

theorem clauseH_iff {σ : St} {i : Nat} {hi hj : Hnd} (hH : clauseH σ i hi hj = true) :
    ∀ k h, k ≠ i → σ.hnd k = some h → h.tid = hi.tid → ∀ q, q ∈ h.fin → q ∉ (σ.trules hj.tid).map (·.parent) := by
  intro k h hki hk ht
  unfold clauseH at hH
  rw [List.all_eq_true] at hH
  have := hH k (List.mem_range.mpr (hnd_lt σ hk))
  rw [hk] at this
  simp only [Bool.or_eq_true, beq_iff_eq, bne_iff_ne, ne_eq] at this
  rcases this with h1 | h1 | h1
  · exact absurd h1 hki
  · exact absurd ht h1
  · exact disj_iff.mp h1

/-- another live handle on the table of `hi`: the table is shared -/
theorem Inv.shared_of_other {σ : St} (I : Inv σ) {i k : Nat} {hi hk : Hnd} (h1 : σ.hnd i = some hi) (h2 : σ.hnd k = some hk)
    (hki : k ≠ i) (e : hk.tid = hi.tid) : 1 < σ.rcOf hi.tid := by
  by_cases hh : 1 < σ.rcOf hi.tid
  · exact hh
  · exact absurd (I.unique_owner h1 h2 e (by omega)) hki

/-- releasing `hi`'s reference does not change what another live handle sees (a shared table is not freed) -/
theorem trules_kill_other {σ : St} (I : Inv σ) {i k : Nat} {hi hk : Hnd} (h1 : σ.hnd i = some hi) (h2 : σ.hnd k = some hk)
    (hki : k ≠ i) : (σ.decr hi.tid).trules hk.tid = σ.trules hk.tid := by
  by_cases e : hk.tid = hi.tid
  · rw [e]; exact trules_decr_shared σ _ _ (I.shared_of_other h1 h2 hki e)
  · exact trules_decr_ne σ _ _ e

theorem trules_assign_other {σ : St} (I : Inv σ) {i k : Nat} {hi hk : Hnd} (h1 : σ.hnd i = some hi) (h2 : σ.hnd k = some hk)
    (hki : k ≠ i) (tj : Nat) : ((σ.incr tj).decr hi.tid).trules hk.tid = σ.trules hk.tid := by
  by_cases e : hk.tid = hi.tid
  · have h3 := I.shared_of_other h1 h2 hki e
    have h4 : σ.rcOf hi.tid ≤ (σ.incr tj).rcOf hi.tid := by
      rw [rcOf_incr]; split <;> omega
    rw [e, trules_decr_shared _ _ _ (by omega), trules_incr]
  · rw [trules_decr_ne _ _ _ e, trules_incr]

theorem agree_assign {σ : St} {Ls : List (Option Sem)} (I : Inv σ) (A : Agree σ Ls) {i j : Nat} {hi hj : Hnd}
    (h1 : σ.hnd i = some hi) (h2 : σ.hnd j = some hj) (hij : i ≠ j) (Lj : Sem) (hLj : ∀ t, σ.lang hj t = Lj t) :
    Agree (((σ.incr hj.tid).decr hi.tid).setH i (some hj)) (Ls.set i (some Lj)) := by
  refine agree_set A h1 (some hj) (some Lj) rfl (fun k h hki hk t => ?_) (fun t => ?_)
  · exact lang_congr (by rw [trules_setH]; exact trules_assign_other I h1 hk hki _) t
  · rw [← hLj t]
    exact lang_congr (by rw [trules_setH]; exact trules_assign_other I h1 h2 (fun e => hij e.symm) _) t

theorem agree_kill {σ : St} {Ls : List (Option Sem)} (I : Inv σ) (A : Agree σ Ls) {i : Nat} {hi : Hnd}
    (h1 : σ.hnd i = some hi) : Agree ((σ.decr hi.tid).setH i none) (Ls.set i none) := by
  refine agree_set A h1 none none rfl (fun k h hki hk t => ?_) trivial
  exact lang_congr (by rw [trules_setH]; exact trules_kill_other I h1 hk hki) t

theorem agree_self {σ : St} {Ls : List (Option Sem)} (A : Agree σ Ls) {i : Nat} {hi : Hnd} (h1 : σ.hnd i = some hi)
    (L : Sem) (hL : ∀ t, σ.lang hi t = L t) : Agree σ (Ls.set i (some L)) := by
  have hl : i < Ls.length := by rw [← A.1]; exact hnd_lt σ h1
  refine ⟨by simp [A.1], fun k => ?_⟩
  rw [getS_set Ls hl]
  by_cases ek : k = i
  · subst ek; rw [if_pos rfl, h1]; exact hL
  · rw [if_neg ek]; exact A.2 k

theorem agree_final {σ : St} {Ls : List (Option Sem)} (A : Agree σ Ls) {i : Nat} {h : Hnd} (h1 : σ.hnd i = some h) (q : Nat) :
    Agree (σ.setH i (some { h with fin := h.fin ++ [q] })) (Ls.set i (some (accepts ⟨σ.visible h, h.fin ++ [q]⟩))) := by
  refine agree_set A h1 _ _ rfl (fun k h' _ _ t => ?_) (fun t => ?_)
  · exact lang_congr rfl t
  · rfl

/-- `loadinto` : three branches of the code, one specification -/
theorem agree_loadinto {enc : Enc} {σ σ' : St} {Ls : List (Option Sem)} (I : Inv σ) (A : Agree σ Ls) {i : Nat} {h : Hnd}
    (h1 : σ.hnd i = some h) (B : TA) (hL : clauseL σ h B = true) (L : Sem) (hLi : ∀ t, σ.lang h t = L t)
    (hs : step enc σ (.loadinto i B) = some σ') : Agree σ' (Ls.set i (some (fun t => L t || accepts B t))) := by
  have hd : ∀ q, q ∈ (TA.mk (σ.trules h.tid ++ h.nul.map leafRule) h.fin).states → q ∉ B.states := disj_iff.mp hL
  have key := loadinto_lang enc (σ.trules h.tid) h.nul h.fin B hd
  simp only [step, Option.bind_eq_bind, h1, Option.bind_some] at hs
  by_cases e1 : B.rules.isEmpty = true
  · rw [if_pos e1] at hs; simp only [Option.some.injEq] at hs; subst hs
    refine agree_set A h1 _ _ rfl (fun k h' _ _ t => lang_congr rfl t) (fun t => ?_)
    have e2 : B.rules = [] := List.isEmpty_iff.mp e1
    have := key t
    rw [e2] at this
    simp only [tblPart, List.filter_nil, List.append_nil] at this
    show (_ : Bool) = (L t || accepts B t)
    rw [← hLi t, e2]
    exact this
  · rw [if_neg e1] at hs
    by_cases e2 : 1 < σ.rcOf h.tid
    · rw [if_pos e2] at hs; simp only [Option.some.injEq] at hs; subst hs
      refine agree_set A h1 _ _ rfl (fun k h' hki hk t => ?_) (fun t => ?_)
      · apply lang_congr
        rw [trules_setH, trules_alloc, if_neg, trules_decr_shared σ _ _ e2]
        have := I.tid_lt hk
        show ¬ h'.tid = σ.next
        omega
      · show (_ : Bool) = (L t || accepts B t)
        rw [← hLi t]
        show accepts ⟨(((σ.decr h.tid).alloc _).setH i _).trules σ.next ++ _, _⟩ t = _
        rw [trules_setH, trules_alloc, if_pos (show σ.next = (σ.decr h.tid).next from rfl)]
        exact key t
    · rw [if_neg e2] at hs; simp only [Option.some.injEq] at hs; subst hs
      refine agree_set A h1 _ _ rfl (fun k h' hki hk t => ?_) (fun t => ?_)
      · apply lang_congr
        rw [trules_setH, trules_write, if_neg]
        intro hh
        exact hki (I.unique_owner h1 hk hh.1 (by omega))
      · show (_ : Bool) = (L t || accepts B t)
        rw [← hLi t]
        show accepts ⟨((σ.write h.tid _).setH i _).trules h.tid ++ _, _⟩ t = _
        rw [trules_setH, trules_write, if_pos ⟨rfl, I.tabs_some h1⟩]
        exact key t

/-- the in-place `UnionDisjointStates` -/
theorem agree_uniondisj {enc : Enc} {σ : St} {Ls : List (Option Sem)} (I : Inv σ) (A : Agree σ Ls) {i : Nat} {hi hj : Hnd}
    (h1 : σ.hnd i = some hi) (hT : clauseT σ hi hj = true) (hA : clauseA σ hi hj = true)
    (hH : clauseH σ i hi hj = true) (L : Sem) (hL : ∀ t, (σ.lang hi t || σ.lang hj t) = L t) :
    Agree (((σ.incr hi.tid).write hi.tid (overwrite enc (σ.trules hi.tid) (σ.trules hj.tid))).push (sharedRes hi hj))
      (Ls ++ [some L]) := by
  have hsome : ((σ.incr hi.tid).tabs hi.tid).isSome := by
    have := I.tabs_some h1
    rw [St.incr, tabs_modCell, if_pos rfl]
    cases hc : σ.tabs hi.tid with
    | none => rw [hc] at this; simp at this
    | some c => rfl
  have htr : ∀ t', (((σ.incr hi.tid).write hi.tid (overwrite enc (σ.trules hi.tid) (σ.trules hj.tid))).push
      (sharedRes hi hj)).trules t' = if t' = hi.tid then σ.trules hi.tid ++ σ.trules hj.tid else σ.trules t' := by
    intro t'
    rw [trules_push, trules_write, clauseT_overwrite hT, trules_incr]
    by_cases e : t' = hi.tid
    · rw [if_pos ⟨e, hsome⟩, if_pos e]
    · rw [if_neg (fun hh => e hh.1), if_neg e]
  refine agree_push A (sharedRes hi hj) L rfl (fun k h hk t => ?_) (fun t => ?_)
  · by_cases e : h.tid = hi.tid
    · unfold St.lang St.aut St.visible
      rw [htr, if_pos e, e]
      apply bystander_lang _ _ _ _ (σ.aut hj).states (clauseT_iff.mp hT)
        (fun q hq => mem_aut_states.mpr (Or.inl hq))
      by_cases ek : k = i
      · subst ek
        rw [h1] at hk; simp only [Option.some.injEq] at hk; subst hk
        intro q hq hq'
        obtain ⟨r', hr', e⟩ := List.mem_map.mp hq'
        exact clauseA_iff.mp hA q (Or.inr hq) (mem_aut_states.mpr (Or.inl (mem_rstates.mpr ⟨r', hr', Or.inl e.symm⟩)))
      · exact clauseH_iff hH k h ek hk e
    · exact lang_congr (by rw [htr, if_neg e]) t
  · rw [← hL t, ← uniondisj_lang hT hA t]
    unfold St.lang St.aut St.visible
    rw [htr]
    show accepts ⟨(if hi.tid = hi.tid then _ else _) ++ _, _⟩ t = _
    rw [if_pos rfl]
    rfl

/-- **Main step theorem.**  In a state that satisfies the reference-count invariant and whose entries denote the languages
`Ls`, a step inside its precondition leads to a state whose entries denote the languages `specStep` assigns: the result has
the specified language and every other live entry keeps its language. -/
theorem step_agree {enc : Enc} {σ σ' : St} {Ls : List (Option Sem)} (I : Inv σ) (A : Agree σ Ls) (s : Step)
    (hpre : pre enc σ s = true) (hs : step enc σ s = some σ') :
    ∃ Ls', specStep σ s Ls = some Ls' ∧ Agree σ' Ls' := by
  cases s with
  | defn X =>
    simp only [step, Option.some.injEq] at hs; subst hs
    exact ⟨_, rfl, agree_fresh I A X _ (fun _ => rfl)⟩
  | copy i =>
    simp only [step, Option.bind_eq_bind, Option.bind_eq_some_iff, Option.some.injEq] at hs
    obtain ⟨h, h1, rfl⟩ := hs
    obtain ⟨L, hL, hLt⟩ := A.get h1
    exact ⟨_, by simp only [specStep, hL, Option.map_some], agree_share A _ h L hLt⟩
  | assign i j =>
    simp only [step, Option.bind_eq_bind, Option.bind_eq_some_iff] at hs
    obtain ⟨hi, h1, hj, h2, hs⟩ := hs
    obtain ⟨Li, hLi, hLit⟩ := A.get h1
    obtain ⟨Lj, hLj, hLjt⟩ := A.get h2
    refine ⟨_, (by simp only [specStep, hLi, hLj, Option.bind_some, Option.map_some]; rfl), ?_⟩
    by_cases e : i = j
    · rw [if_pos e] at hs; simp only [Option.some.injEq] at hs; subst hs
      subst e
      rw [h1] at h2; simp only [Option.some.injEq] at h2; subst h2
      exact agree_self A h1 Lj hLjt
    · rw [if_neg e] at hs; simp only [Option.some.injEq] at hs; subst hs
      exact agree_assign I A h1 h2 e Lj hLjt
  | kill i =>
    simp only [step, Option.bind_eq_bind, Option.bind_eq_some_iff, Option.some.injEq] at hs
    obtain ⟨h, h1, rfl⟩ := hs
    obtain ⟨L, hL, _⟩ := A.get h1
    exact ⟨_, by simp only [specStep, hL, Option.map_some], agree_kill I A h1⟩
  | loadinto i B =>
    have hs' := hs
    simp only [step, Option.bind_eq_bind, Option.bind_eq_some_iff] at hs
    obtain ⟨h, h1, _⟩ := hs
    obtain ⟨L, hL, hLt⟩ := A.get h1
    simp only [pre, h1] at hpre
    exact ⟨_, by simp only [specStep, hL, Option.map_some], agree_loadinto I A h1 B hpre L hLt hs'⟩
  | final i q =>
    simp only [step, Option.bind_eq_bind, Option.bind_eq_some_iff, Option.some.injEq] at hs
    obtain ⟨h, h1, rfl⟩ := hs
    exact ⟨_, by simp only [specStep, h1, Option.map_some], agree_final A h1 q⟩
  | union i j =>
    simp only [step, Option.bind_eq_bind, Option.bind_eq_some_iff] at hs
    obtain ⟨hi, h1, hj, h2, hs⟩ := hs
    obtain ⟨Li, hLi, hLit⟩ := A.get h1
    obtain ⟨Lj, hLj, hLjt⟩ := A.get h2
    refine ⟨_, (by simp only [specStep, hLi, hLj, Option.bind_some, Option.map_some]; rfl), ?_⟩
    simp only [pre, h1, h2] at hpre
    by_cases e : hi.tid = hj.tid
    · rw [if_pos e] at hs; simp only [Option.some.injEq] at hs; subst hs
      have hS : clauseS σ hi hj = true := by
        rcases Bool.or_eq_true _ _ |>.mp hpre with h | h
        · simp only [bne_iff_ne, ne_eq] at h; exact absurd e h
        · exact h
      exact agree_share A _ _ _ (fun t => by rw [← hLit t, ← hLjt t]; exact shared_lang e hS t)
    · rw [if_neg e] at hs; simp only [Option.some.injEq] at hs; subst hs
      exact agree_fresh I A _ _ (fun t => by rw [unionModel_lang_empty, ← hLit t, ← hLjt t]; rfl)
  | uniondisj i j =>
    simp only [step, Option.bind_eq_bind, Option.bind_eq_some_iff] at hs
    obtain ⟨hi, h1, hj, h2, hs⟩ := hs
    obtain ⟨Li, hLi, hLit⟩ := A.get h1
    obtain ⟨Lj, hLj, hLjt⟩ := A.get h2
    refine ⟨_, (by simp only [specStep, hLi, hLj, Option.bind_some, Option.map_some]; rfl), ?_⟩
    simp only [pre, h1, h2] at hpre
    by_cases e : hi.tid = hj.tid
    · rw [if_pos e] at hs hpre; simp only [Option.some.injEq] at hs; subst hs
      exact agree_share A _ _ _ (fun t => by rw [← hLit t, ← hLjt t]; exact shared_lang e hpre t)
    · rw [if_neg e] at hs hpre; simp only [Option.some.injEq] at hs; subst hs
      simp only [Bool.and_eq_true] at hpre
      exact agree_uniondisj I A h1 hpre.1.1 hpre.1.2 hpre.2 _ (fun t => by rw [← hLit t, ← hLjt t])
  | isect i j =>
    simp only [step, Option.bind_eq_bind, Option.bind_eq_some_iff, Option.some.injEq] at hs
    obtain ⟨hi, h1, hj, h2, rfl⟩ := hs
    obtain ⟨Li, hLi, hLit⟩ := A.get h1
    obtain ⟨Lj, hLj, hLjt⟩ := A.get h2
    refine ⟨_, (by simp only [specStep, hLi, hLj, Option.bind_some, Option.map_some]; rfl), ?_⟩
    exact agree_fresh I A _ _ (fun t => by rw [isectFull_lang, ← hLit t, ← hLjt t]; rfl)
  | unreach i =>
    simp only [step, Option.bind_eq_bind, Option.bind_eq_some_iff, Option.some.injEq] at hs
    obtain ⟨h, h1, rfl⟩ := hs
    obtain ⟨L, hL, hLt⟩ := A.get h1
    exact ⟨_, by simp only [specStep, hL, Option.map_some], agree_fresh I A _ L (fun t => by rw [trimU_lang]; exact hLt t)⟩
  | useless i =>
    simp only [step, Option.bind_eq_bind, Option.bind_eq_some_iff, Option.some.injEq] at hs
    obtain ⟨h, h1, rfl⟩ := hs
    obtain ⟨L, hL, hLt⟩ := A.get h1
    exact ⟨_, by simp only [specStep, hL, Option.map_some],
      agree_fresh I A _ L (fun t => by rw [removeUseless_lang]; exact hLt t)⟩
  | rt i =>
    simp only [step, Option.bind_eq_bind, Option.bind_eq_some_iff, Option.some.injEq] at hs
    obtain ⟨h, h1, rfl⟩ := hs
    obtain ⟨L, hL, _⟩ := A.get h1
    exact ⟨_, by simp only [specStep, hL, Option.map_some], A⟩

/-! ## 5. histories -/

/-- the specification run along a history (it consults the model state only for `final`, whose meaning is structural) -/
def specRun (enc : Enc) : St → List (Option Sem) → List Step → Option (List (Option Sem))
  | _, Ls, [] => some Ls
  | σ, Ls, s :: ss => (specStep σ s Ls).bind (fun Ls' => (step enc σ s).bind (fun σ' => specRun enc σ' Ls' ss))

theorem run_agree {enc : Enc} : ∀ (ss : List Step) {σ σ' : St} {Ls : List (Option Sem)}, Inv σ → Agree σ Ls →
    preRun enc σ ss = true → run enc σ ss = some σ' →
    Inv σ' ∧ ∃ Ls', specRun enc σ Ls ss = some Ls' ∧ Agree σ' Ls'
  | [], σ, σ', Ls, I, A, _, hr => by
    simp only [run, Option.some.injEq] at hr; subst hr
    exact ⟨I, Ls, rfl, A⟩
  | s :: ss, σ, σ', Ls, I, A, hp, hr => by
    simp only [run, Option.bind_eq_some_iff] at hr
    obtain ⟨σ1, hs, hr⟩ := hr
    simp only [preRun, hs, Bool.and_eq_true] at hp
    obtain ⟨Ls1, hspec, A1⟩ := step_agree I A s hp.1 hs
    obtain ⟨I', Ls', hrun, A'⟩ := run_agree ss (step_inv I s hs) A1 hp.2 hr
    exact ⟨I', Ls', by simp only [specRun, hspec, hs, Option.bind_some]; exact hrun, A'⟩

theorem agree_init : Agree init [] := ⟨rfl, fun k => by
  have : init.hnd k = none := hnd_ge init (Nat.zero_le _)
  rw [this]; trivial⟩

/-- a history inside the precondition is defined -/
theorem run_defined {enc : Enc} : ∀ (ss : List Step) (σ : St), preRun enc σ ss = true → ∃ σ', run enc σ ss = some σ'
  | [], σ, _ => ⟨σ, rfl⟩
  | s :: ss, σ, hp => by
    simp only [preRun, Bool.and_eq_true] at hp
    cases hs : step enc σ s with
    | none => rw [hs] at hp; simp at hp
    | some σ1 =>
      rw [hs] at hp
      obtain ⟨σ', h⟩ := run_defined ss σ1 hp.2
      exact ⟨σ', by simp only [run, hs, Option.bind_some]; exact h⟩

/-- **History theorem.**  For every history from the empty pool whose steps are inside the precondition: the history is
defined, the final state satisfies the reference-count invariant, and every entry denotes the language that the
specification of the operations assigns to it. -/
theorem history_correct (enc : Enc) (ss : List Step) (hp : preRun enc init ss = true) :
    ∃ σ Ls, run enc init ss = some σ ∧ Inv σ ∧ specRun enc init [] ss = some Ls ∧ Agree σ Ls := by
  obtain ⟨σ, hr⟩ := run_defined ss init hp
  obtain ⟨I, Ls, hspec, A⟩ := run_agree ss inv_init agree_init hp hr
  exact ⟨σ, Ls, hr, I, hspec, A⟩

/-- the invariant alone needs no precondition: reference counts are right after EVERY defined history -/
theorem run_inv {enc : Enc} : ∀ (ss : List Step) {σ σ' : St}, Inv σ → run enc σ ss = some σ' → Inv σ'
  | [], _, _, I, hr => by simp only [run, Option.some.injEq] at hr; subst hr; exact I
  | s :: ss, σ, σ', I, hr => by
    simp only [run, Option.bind_eq_some_iff] at hr
    obtain ⟨σ1, hs, hr⟩ := hr
    exact run_inv ss (step_inv I s hs) hr

/-! ### isolation, stated directly -/

/-- the entry a step writes to (results are NEW entries) -/
def target : Step → Option Nat
  | .assign i _ => some i
  | .kill i => some i
  | .loadinto i _ => some i
  | .final i _ => some i
  | _ => none

/-- the languages the pool denotes -/
def semOf (σ : St) : List (Option Sem) := σ.pool.map (fun o => o.map (fun h => σ.lang h))

theorem getS_semOf (σ : St) (k : Nat) : getS (semOf σ) k = (σ.hnd k).map (fun h => σ.lang h) := by
  unfold getS semOf St.hnd
  rw [List.getElem?_map]
  cases σ.pool[k]? with
  | none => rfl
  | some o => rfl

theorem agree_semOf (σ : St) : Agree σ (semOf σ) := by
  refine ⟨by simp [semOf], fun k => ?_⟩
  rw [getS_semOf]
  cases σ.hnd k with
  | none => trivial
  | some h => exact fun _ => rfl

/-- the specification changes only the target entry and appends -/
theorem specStep_frame {σ : St} {s : Step} {Ls Ls' : List (Option Sem)} (h : specStep σ s Ls = some Ls') {k : Nat}
    (hk : k < Ls.length) (ht : target s ≠ some k) : getS Ls' k = getS Ls k := by
  have push : ∀ x, getS (Ls ++ [x]) k = getS Ls k := fun x => by rw [getS_push, if_neg (by omega)]
  have set : ∀ i x, i ≠ k → getS (Ls.set i x) k = getS Ls k := fun i x hik => by
    by_cases hl : i < Ls.length
    · rw [getS_set Ls hl, if_neg (fun e => hik e.symm)]
    · rw [List.set_eq_of_length_le (by omega)]
  cases s with
  | defn A => simp only [specStep, Option.some.injEq] at h; subst h; exact push _
  | copy i => simp only [specStep, Option.map_eq_some_iff] at h; obtain ⟨L, _, rfl⟩ := h; exact push _
  | assign i j =>
    simp only [specStep, Option.bind_eq_some_iff, Option.map_eq_some_iff] at h
    obtain ⟨_, _, L, _, rfl⟩ := h
    exact set _ _ (fun e => ht (by rw [target, e]))
  | kill i =>
    simp only [specStep, Option.map_eq_some_iff] at h; obtain ⟨L, _, rfl⟩ := h
    exact set _ _ (fun e => ht (by rw [target, e]))
  | loadinto i B =>
    simp only [specStep, Option.map_eq_some_iff] at h; obtain ⟨L, _, rfl⟩ := h
    exact set _ _ (fun e => ht (by rw [target, e]))
  | final i q =>
    simp only [specStep, Option.map_eq_some_iff] at h; obtain ⟨L, _, rfl⟩ := h
    exact set _ _ (fun e => ht (by rw [target, e]))
  | union i j =>
    simp only [specStep, Option.bind_eq_some_iff, Option.map_eq_some_iff] at h
    obtain ⟨_, _, L, _, rfl⟩ := h; exact push _
  | uniondisj i j =>
    simp only [specStep, Option.bind_eq_some_iff, Option.map_eq_some_iff] at h
    obtain ⟨_, _, L, _, rfl⟩ := h; exact push _
  | isect i j =>
    simp only [specStep, Option.bind_eq_some_iff, Option.map_eq_some_iff] at h
    obtain ⟨_, _, L, _, rfl⟩ := h; exact push _
  | unreach i => simp only [specStep, Option.map_eq_some_iff] at h; obtain ⟨L, _, rfl⟩ := h; exact push _
  | useless i => simp only [specStep, Option.map_eq_some_iff] at h; obtain ⟨L, _, rfl⟩ := h; exact push _
  | rt i => simp only [specStep, Option.map_eq_some_iff] at h; obtain ⟨L, _, rfl⟩ := h; rfl

/-- **Isolation.**  A step inside its precondition leaves every live entry other than its target alive with the language
it had (its dump may change: after `uniondisj` all objects on the written table list the new rules). -/
theorem step_isolation {enc : Enc} {σ σ' : St} (I : Inv σ) (s : Step) (hpre : pre enc σ s = true)
    (hs : step enc σ s = some σ') {k : Nat} {h : Hnd} (hk : σ.hnd k = some h) (ht : target s ≠ some k) :
    ∃ h', σ'.hnd k = some h' ∧ ∀ t, σ'.lang h' t = σ.lang h t := by
  obtain ⟨Ls', hspec, A'⟩ := step_agree I (agree_semOf σ) s hpre hs
  have hl : k < (semOf σ).length := by simp only [semOf, List.length_map]; exact hnd_lt σ hk
  have e := specStep_frame hspec hl ht
  rw [getS_semOf, hk] at e
  have := A'.2 k
  rw [e] at this
  cases hk' : σ'.hnd k with
  | none => rw [hk'] at this; exact this.elim
  | some h' => rw [hk'] at this; exact ⟨h', rfl, this⟩

/-- **Results.**  After a step inside its precondition, entry `k` has the language `L` that the specification computes from the
languages the entries had before the step. -/
theorem step_result {enc : Enc} {σ σ' : St} (I : Inv σ) (s : Step) (hpre : pre enc σ s = true)
    (hs : step enc σ s = some σ') {Ls' : List (Option Sem)} (hspec : specStep σ s (semOf σ) = some Ls') {k : Nat} {L : Sem}
    (hL : getS Ls' k = some L) : ∃ h', σ'.hnd k = some h' ∧ ∀ t, σ'.lang h' t = L t := by
  obtain ⟨Ls'', hspec', A'⟩ := step_agree I (agree_semOf σ) s hpre hs
  rw [hspec] at hspec'; simp only [Option.some.injEq] at hspec'; subst hspec'
  have := A'.2 k
  rw [hL] at this
  cases hk' : σ'.hnd k with
  | none => rw [hk'] at this; exact this.elim
  | some h' => rw [hk'] at this; exact ⟨h', rfl, this⟩

/-- no leak: an allocated table has an owner -/
theorem no_leak {enc : Enc} {ss : List Step} {σ : St} (hr : run enc init ss = some σ) {t : Nat} {c : Cell}
    (hc : σ.tabs t = some c) : 0 < σ.refs t := by
  have I := run_inv ss inv_init hr
  have := I.rc t
  unfold St.rcOf at this; rw [hc] at this
  rw [← this]; exact I.pos _ _ hc

/-- no table is freed while a live handle points to it, and its `use_count` is the number of such handles -/
theorem live_table_allocated {enc : Enc} {ss : List Step} {σ : St} (hr : run enc init ss = some σ) {k : Nat} {h : Hnd}
    (hk : σ.hnd k = some h) : ∃ c, σ.tabs h.tid = some c ∧ c.rc = σ.refs h.tid ∧ 0 < c.rc := by
  have I := run_inv ss inv_init hr
  have h1 := I.tabs_some hk
  cases hc : σ.tabs h.tid with
  | none => rw [hc] at h1; simp at h1
  | some c =>
    refine ⟨c, rfl, ?_, I.pos _ _ hc⟩
    have := I.rc h.tid
    unfold St.rcOf at this; rw [hc] at this; exact this

end Vata.BddShare

/-! ## 6. necessity of the clauses: kernel-checked histories

Each history runs inside the precondition up to its last step; the last step violates exactly ONE clause (the others are
evaluated to `true`); afterwards a language is wrong: the result accepts a tree that neither operand accepted, or a
bystander accepts a tree it did not accept before.  All by `decide`. -/
namespace Vata.BddShareEx
open Vata Vata.BddShare

def lf (f : Nat) : Tree := .node f []
def un (f : Nat) (t : Tree) : Tree := .node f [t]

/-- the clauses T, A, H of the in-place `uniondisj i j` in the state after the history `ss` -/
def clausesAt (enc : Enc) (ss : List Step) (i j : Nat) : Option (Bool × Bool × Bool) :=
  (run enc init ss).bind fun σ => (σ.hnd i).bind fun hi => (σ.hnd j).map fun hj =>
    (clauseT σ hi hj, clauseA σ hi hj, clauseH σ i hi hj)

/-- `pre` of the step `s` in the state after the history `ss` -/
def preAt (enc : Enc) (ss : List Step) (s : Step) : Option Bool := (run enc init ss).map (fun σ => pre enc σ s)

def a : TA := ⟨[⟨1, [], 100⟩], [100]⟩

/-! ### clause T – the stale-rule scenario (both encodings)
`r = UnionDisjointStates(a, b)` writes `b`'s rules into `a`'s table; `r` dies; `UnionDisjointStates(a, b2)` with a `b2` that
reuses `b`'s numbers `0, 1` inherits the stale rule `3(0) → 1`: the result accepts `9(3(6))`, which neither `a` nor `b2`
accepts (`b2` alone has no rule into its state `1`).  Clauses A and H hold: only the TABLE of `a` knows the numbers. -/
def b : TA := ⟨[⟨2, [], 0⟩, ⟨3, [0], 1⟩], [1]⟩
def b2 : TA := ⟨[⟨6, [], 0⟩, ⟨9, [1], 2⟩], [2]⟩
def hT : List Step := [.defn a, .defn b, .uniondisj 0 1, .kill 2, .defn b2, .uniondisj 0 3]
def wT : Tree := un 9 (un 3 (lf 6))

theorem necessity_T (enc : Enc) :
    preRun enc init (hT.take 5) = true ∧ clausesAt enc (hT.take 5) 0 3 = some (false, true, true) ∧
    langAfter enc hT 4 wT = some true ∧ langAfter enc (hT.take 5) 0 wT = some false ∧
    langAfter enc (hT.take 5) 3 wT = some false := by
  cases enc <;> decide

/-! ### clause A, final states of the left operand (both encodings)
`a` got the final state `7` (`SetStateFinal`; unreachable in `a`); `b` uses the number `7`: the result accepts the leaf `2`. -/
def bA : TA := ⟨[⟨2, [], 7⟩, ⟨3, [7], 8⟩], [8]⟩
def hA : List Step := [.defn a, .final 0 7, .defn bA, .uniondisj 0 1]

theorem necessity_A_final (enc : Enc) :
    preRun enc init (hA.take 3) = true ∧ clausesAt enc (hA.take 3) 0 1 = some (true, false, true) ∧
    langAfter enc hA 2 (lf 2) = some true ∧ langAfter enc (hA.take 3) 0 (lf 2) = some false ∧
    langAfter enc (hA.take 3) 1 (lf 2) = some false := by
  cases enc <;> decide

/-- in the top-down encoding the same step also changes the language of the LEFT OPERAND itself (its table now has `2 → 7`) -/
theorem necessity_A_final_td_operand : langAfter .td hA 0 (lf 2) = some true ∧ langAfter .bu hA 0 (lf 2) = some false := by
  decide

/-! ### clause A, leaf rules of the left operand (bottom-up: the leaf rules are the object's own, not in the table)
`aN` has the leaf rule `5 → 7` into a state `7` that `b` uses: the result accepts `3(5)`. -/
def aN : TA := ⟨[⟨1, [], 100⟩, ⟨5, [], 7⟩], [100]⟩
def hAn : List Step := [.defn aN, .defn bA, .uniondisj 0 1]

theorem necessity_A_leaf :
    preRun .bu init (hAn.take 2) = true ∧ clausesAt .bu (hAn.take 2) 0 1 = some (true, false, true) ∧
    langAfter .bu hAn 2 (un 3 (lf 5)) = some true ∧ langAfter .bu (hAn.take 2) 0 (un 3 (lf 5)) = some false ∧
    langAfter .bu (hAn.take 2) 1 (un 3 (lf 5)) = some false := by
  decide

/-! ### clause H – a bystander changes its language
Top-down: entry 1 is a copy of `a` with the extra final state `7`; `UnionDisjointStates(a, bH)` writes `2 → 7` into the shared
table: entry 1 now accepts the leaf `2`. -/
def bH : TA := ⟨[⟨2, [], 7⟩], [7]⟩
def hH : List Step := [.defn a, .copy 0, .final 1 7, .defn bH, .uniondisj 0 2]

theorem necessity_H_td :
    preRun .td init (hH.take 4) = true ∧ clausesAt .td (hH.take 4) 0 2 = some (true, true, false) ∧
    langAfter .td (hH.take 4) 1 (lf 2) = some false ∧ langAfter .td hH 1 (lf 2) = some true := by
  decide

/-- Bottom-up: the bystander is an earlier result on `a`'s table (entry 2 = `a ∪ bH`, final state `7`, own leaf rule
`2 → 7`); `UnionDisjointStates(a, bH2)` writes `3(7) → 7`: entry 2 now accepts `3(2)`.  (In the bottom-up encoding the
same history with the bystander of `necessity_H_td` is harmless: the leaf rule `2 → 7` stays with the result.) -/
def bH2 : TA := ⟨[⟨4, [], 7⟩, ⟨3, [7], 7⟩], [7]⟩
def hHb : List Step := [.defn a, .defn bH, .uniondisj 0 1, .defn bH2, .uniondisj 0 3]

theorem necessity_H_bu :
    preRun .bu init (hHb.take 4) = true ∧ clausesAt .bu (hHb.take 4) 0 3 = some (true, true, false) ∧
    langAfter .bu (hHb.take 4) 2 (un 3 (lf 2)) = some false ∧ langAfter .bu hHb 2 (un 3 (lf 2)) = some true ∧
    langAfter .bu hH 1 (lf 2) = langAfter .bu (hH.take 4) 1 (lf 2) := by
  decide

/-! ### clause S – two objects on ONE table with different leaf rules (bottom-up only)
Entries 3 = `a ∪ b'` and 4 = `a ∪ c` share `a`'s table; entry 3 gets the final state `300` (a state of `c`, unreachable in entry 3,
which has no leaf rule into `c`'s states).  `Union(3, 4)` takes the shared-table branch and returns the table with the leaf
rules and final states of BOTH: the result accepts the leaf `3`, which neither operand accepts.  The generator's
block heuristic allows this history; the real library returns the same wrong automaton
(`bddh bu def!1:>0|0 def!2:>0|0 def!3:>0;4:0>1|1 uniondisj!0!1 uniondisj!0!2 final!3!300 union!3!4`). -/
def b' : TA := ⟨[⟨2, [], 200⟩], [200]⟩
def c : TA := ⟨[⟨3, [], 300⟩, ⟨4, [300], 301⟩], [301]⟩
def hS : List Step := [.defn a, .defn b', .defn c, .uniondisj 0 1, .uniondisj 0 2, .final 3 300, .union 3 4]

theorem necessity_S :
    preRun .bu init (hS.take 6) = true ∧ preAt .bu (hS.take 6) (.union 3 4) = some false ∧
    langAfter .bu hS 5 (lf 3) = some true ∧ langAfter .bu (hS.take 6) 3 (lf 3) = some false ∧
    langAfter .bu (hS.take 6) 4 (lf 3) = some false ∧
    -- the top-down encoding has no per-object leaf rules: the same history is inside the precondition
    preRun .td init hS = true := by
  decide

/-- without the stray final state the same union is inside the precondition (clause S is not "same leaf rules"); so is
the history with the stray final state `301`, which is a final state of the other operand as well -/
theorem clause_S_allows :
    preRun .bu init [.defn a, .defn b', .defn c, .uniondisj 0 1, .uniondisj 0 2, .union 3 4, .union 0 3] = true ∧
    preRun .bu init [.defn a, .defn b', .defn c, .uniondisj 0 1, .uniondisj 0 2, .final 3 301, .union 3 4] = true := by
  decide

/-- clause H looks at the rules that are WRITTEN: in the bottom-up encoding the history of `necessity_H_td` is inside the
precondition (the leaf rule `2 → 7` of `bH` is not in its table) -/
theorem clause_H_allows_bu : preRun .bu init hH = true := by decide

/-- **the generator's heuristic does not imply clause S**: `g_bddh` may emit the history `hS` (different families and
disjoint blocks at both `uniondisj`, `final` and same-family `union` are always emitted), but its last step is outside `pre`
and returns a wrong language (`necessity_S`).  The histories of the other necessity theorems are NOT emitted. -/
theorem heuristic_gap :
    heurRun ⟨[], []⟩ hS = true ∧ preRun .bu init hS = false ∧
    heurRun ⟨[], []⟩ hT = false ∧ heurRun ⟨[], []⟩ hA = false ∧ heurRun ⟨[], []⟩ hAn = false ∧
    heurRun ⟨[], []⟩ hH = false ∧ heurRun ⟨[], []⟩ hHb = false := by
  decide

/-! ### clause L – `loadinto` with numbers that occur in the object (both encodings) -/
def aL : TA := ⟨[⟨1, [], 0⟩, ⟨2, [0], 1⟩], [1]⟩
def bL : TA := ⟨[⟨3, [], 0⟩], []⟩
def hL : List Step := [.defn aL, .loadinto 0 bL]

theorem necessity_L (enc : Enc) :
    preAt enc (hL.take 1) (.loadinto 0 bL) = some false ∧ langAfter enc hL 0 (un 2 (lf 3)) = some true ∧
    langAfter enc (hL.take 1) 0 (un 2 (lf 3)) = some false ∧ accepts bL (un 2 (lf 3)) = false := by
  cases enc <;> decide

/-! ### a history inside the precondition that uses every step (non-vacuity of `history_correct`) -/
def a2 : TA := ⟨[⟨1, [], 100⟩, ⟨4, [100], 101⟩], [100, 101]⟩
def good : List Step :=
  [.defn a2, .defn b', .defn c, .copy 0, .uniondisj 0 1, .uniondisj 0 2, .union 4 5, .union 3 0, .final 3 100,
   .loadinto 3 ⟨[⟨7, [], 0⟩, ⟨4, [0], 1⟩], [1]⟩, .isect 0 2, .unreach 5, .useless 6, .assign 1 6, .kill 0, .union 1 2, .rt 3]

theorem good_pre (enc : Enc) : preRun enc init good = true := by
  cases enc <;> decide

/-- the sharing structure at the end of `good`: entry 0 is destroyed, but its table (id 0) lives on with five owners (the
results 4, 5 of the in-place unions, the shared-table unions 6, 7, and entry 1 after `assign!1!6`); the table of `b'` (id 1)
was freed when entry 1 was re-assigned; `loadinto!3` on the then shared table 0 copied it first (entry 3 owns table 3) -/
theorem good_sharing (enc : Enc) :
    (run enc init good).map (fun σ => σ.pool.map (fun o => o.map (·.tid))) =
      some [none, some 0, some 2, some 3, some 0, some 0, some 0, some 0, some 4, some 5, some 6, some 7] ∧
    (run enc init good).map (fun σ => (List.range σ.next).map σ.rcOf) = some [5, 0, 1, 1, 1, 1, 1, 1] := by
  cases enc <;> decide

end Vata.BddShareEx

