import Vata.BddTraverse
import Vata.Proofs.BddAbsTD
import Vata.Proofs.InclUpBdd
import Vata.Proofs.BddAbsLang
import Vata.Proofs.InclDownInv
/-!
# The symbolic traversals enumerate what the per-symbol loops of the abstract models enumerate (property C07)

Theorems about `Vata/BddTraverse.lean`.

* §1 callbacks with `stopProcessing` (`runL`), callbacks whose repetition has no effect (`Idem`), `runL_dup`
* §2 the traversal per path: `voidApply2P_map_snd` (= `M.voidApply2` with paths), `voidApply2P_sound` (a class that contains `ρ` comes
     with the two leaves `ρ` selects), `voidApply2P_partition` (every valuation is in exactly one class), ordered paths
     (`voidApply2P_pathBelow`), `voidApply2P_nonempty` / `reprSym_le` (`reprSym π` is in the class and is its smallest symbol)
* §3 the cache of `VoidApply2Functor` is transparent for idempotent callbacks: `voidApply2C_ok`, `voidApply2Calls_run`
* §4 `symLoop_eq_trav`: the loop over the `2 ^ n` symbols in numerical order = the traversal of the classes (idempotent callback,
     ordered reduced diagrams)
* §5 `mem_eval_unionAll`, `unionAll_wf`, `unionAll_congr` (the united MTBDD does not depend on the order of the tuple set),
     `mem_prodTuples`, `macroPost_abs` (the macro-state of the abstract model is the leaf of the united MTBDD)
* §6 `idem_actUp` (`UpwardInclusionFunctor::operator()` is idempotent), `foreachUp_abs_eq_symLoop`, `foreachUpT_eq_abs`
* §7 `runT_eq_run` (**`CheckUpwardTreeInclusion` on the tables = `InclUpBdd.run` on the dumped automata**), `inclUpTrav_eq`,
     `inclUpTrav_iff`; loaded tables: `keys_ofRules`, `inclUpTrav_ofRules`
* §8 `foreachUp_spec`, `foreachUp_class_nonempty`, `travUp_calls` (`voidApply2C_sub`, `voidApply2Calls_cover`);
     `foreachDown_spec`, `travDown_calls`, `foreachDownT_eq`, `foreachDown_ofRules`
* §9 examples
-/
namespace Vata
namespace BddTraverse
open M BddAbs BddAbsTD InclUp InclUpBdd

variable {α β : Type}

/-! ## 1. callbacks: runs, idempotent callbacks -/

section runs
variable {ι σ ε κ : Type}

theorem runL_append (act : ι → σ → Except ε σ) (l₁ l₂ : List ι) (s : σ) :
    runL act (l₁ ++ l₂) s = match runL act l₁ s with
      | .error e => .error e
      | .ok s' => runL act l₂ s' := by
  induction l₁ generalizing s with
  | nil => rfl
  | cons i l ih =>
    simp only [List.cons_append, runL]
    cases act i s with
    | error e => rfl
    | ok s' => exact ih s'

theorem runL_append_congr {act : ι → σ → Except ε σ} {l₁ l₁' l₂ l₂' : List ι}
    (h₁ : ∀ s, runL act l₁ s = runL act l₁' s) (h₂ : ∀ s, runL act l₂ s = runL act l₂' s) (s : σ) :
    runL act (l₁ ++ l₂) s = runL act (l₁' ++ l₂') s := by
  rw [runL_append, runL_append, h₁]
  cases runL act l₁' s with
  | error e => rfl
  | ok s' => exact h₂ s'

/-- a callback whose repetition has no effect: after a successful call with the key `k` the state satisfies `D k`, `D k` is kept
by all later successful calls, and a call with a key that satisfies `D` changes nothing -/
structure Idem (act : ι → σ → Except ε σ) (key : ι → κ) (D : κ → σ → Prop) : Prop where
  done : ∀ {i s s'}, act i s = .ok s' → D (key i) s'
  keep : ∀ {i k s s'}, D k s → act i s = .ok s' → D k s'
  skip : ∀ {i s}, D (key i) s → act i s = .ok s

variable {act : ι → σ → Except ε σ} {key : ι → κ} {D : κ → σ → Prop}

theorem runL_keep (hI : Idem act key D) {k : κ} : ∀ {l : List ι} {s s' : σ}, D k s → runL act l s = .ok s' → D k s'
  | [], s, s', hd, h => by simp only [runL, Except.ok.injEq] at h; exact h ▸ hd
  | i :: l, s, s', hd, h => by
    simp only [runL] at h
    cases hi : act i s with
    | error e => rw [hi] at h; cases h
    | ok s₁ => rw [hi] at h; exact runL_keep hI (hI.keep hd hi) h

theorem runL_done (hI : Idem act key D) : ∀ {l : List ι} {s s' : σ}, runL act l s = .ok s' → ∀ i, i ∈ l → D (key i) s'
  | [], _, _, _, i, hi => by cases hi
  | j :: l, s, s', h, i, hi => by
    simp only [runL] at h
    cases hj : act j s with
    | error e => rw [hj] at h; cases h
    | ok s₁ =>
      rw [hj] at h
      rcases List.mem_cons.mp hi with rfl | hi
      · exact runL_keep hI (hI.done hj) h
      · exact runL_done hI h i hi

theorem runL_skip (hI : Idem act key D) : ∀ {l : List ι} {s : σ}, (∀ i, i ∈ l → D (key i) s) → runL act l s = .ok s
  | [], _, _ => rfl
  | j :: l, s, h => by
    simp only [runL, hI.skip (h j (List.mem_cons_self ..))]
    exact runL_skip hI (fun i hi => h i (List.mem_cons_of_mem _ hi))

/-- calls whose keys were all seen before have no effect -/
theorem runL_dup (hI : Idem act key D) {l₁ l₂ : List ι} (h : ∀ i, i ∈ l₂ → ∃ j, j ∈ l₁ ∧ key j = key i) (s : σ) :
    runL act (l₁ ++ l₂) s = runL act l₁ s := by
  rw [runL_append]
  cases h₁ : runL act l₁ s with
  | error e => rfl
  | ok s' =>
    refine runL_skip hI (fun i hi => ?_)
    obtain ⟨j, hj, hk⟩ := h i hi
    exact hk ▸ runL_done hI h₁ j hj

end runs

/-! ## 2. the traversal per path: what the callback receives, the partition into symbol classes -/

theorem mem_branchL {x : Nat} {l₀ l₁ : List (Path × α × β)} {c : Path × α × β} :
    c ∈ branchL x l₀ l₁ ↔ (∃ c₀, c₀ ∈ l₀ ∧ c = pcons (x, false) c₀) ∨ (∃ c₁, c₁ ∈ l₁ ∧ c = pcons (x, true) c₁) := by
  simp only [branchL, List.mem_append, List.mem_map]
  constructor
  · rintro (⟨c₀, h, rfl⟩ | ⟨c₁, h, rfl⟩)
    · exact Or.inl ⟨c₀, h, rfl⟩
    · exact Or.inr ⟨c₁, h, rfl⟩
  · rintro (⟨c₀, h, rfl⟩ | ⟨c₁, h, rfl⟩)
    · exact Or.inl ⟨c₀, h, rfl⟩
    · exact Or.inr ⟨c₁, h, rfl⟩

theorem branchL_map_snd (x : Nat) (l₀ l₁ : List (Path × α × β)) :
    (branchL x l₀ l₁).map (·.2) = l₀.map (·.2) ++ l₁.map (·.2) := by
  simp [branchL, pcons, Function.comp_def]

/-- forgetting the paths gives `Vata.M.voidApply2` -/
theorem voidApply2P_map_snd (a : Node α) (b : Node β) : (voidApply2P a b).map (·.2) = voidApply2 a b := by
  induction a, b using voidApply2P.induct with
  | case1 v w => simp [voidApply2P, voidApply2]
  | case2 x lo hi w ih1 ih2 => rw [voidApply2P, voidApply2, branchL_map_snd, ih1, ih2]
  | case3 v y lo hi ih1 ih2 => rw [voidApply2P, voidApply2, branchL_map_snd, ih1, ih2]
  | case4 alo ahi x blo bhi ih1 ih2 =>
    rw [voidApply2P, voidApply2]; simp only [if_true]; rw [branchL_map_snd, ih1, ih2]
  | case5 x alo ahi y blo bhi hne hlt ih1 ih2 =>
    rw [voidApply2P, voidApply2]; simp only [hne, hlt, if_false, if_true]; rw [branchL_map_snd, ih1, ih2]
  | case6 x alo ahi y blo bhi hne hlt ih1 ih2 =>
    rw [voidApply2P, voidApply2]; simp only [hne, hlt, if_false]; rw [branchL_map_snd, ih1, ih2]

theorem inPath_cons (ρ : Nat → Bool) (x : Nat) (b : Bool) (π : Path) :
    inPath ρ ((x, b) :: π) = ((ρ x == b) && inPath ρ π) := by
  simp [inPath]

/-- the calls below a branching, for a valuation `ρ`: those of the successor `ρ` selects -/
theorem countP_branchL (ρ : Nat → Bool) (x : Nat) (l₀ l₁ : List (Path × α × β)) :
    (branchL x l₀ l₁).countP (fun c => inPath ρ c.1) =
      if ρ x then l₁.countP (fun c => inPath ρ c.1) else l₀.countP (fun c => inPath ρ c.1) := by
  simp only [branchL, List.countP_append, List.countP_map, Function.comp_def, pcons, inPath_cons]
  cases ρ x <;> simp

/-- a class of the traversal of `a`, `b` that contains `ρ` comes with the two leaves `ρ` selects -/
theorem voidApply2P_sound (ρ : Nat → Bool) (a : Node α) (b : Node β) :
    ∀ c, c ∈ voidApply2P a b → inPath ρ c.1 = true → c.2.1 = eval a ρ ∧ c.2.2 = eval b ρ := by
  have key : ∀ {x : Nat} {l₀ l₁ : List (Path × α × β)} {u₀ u₁ : α} {v₀ v₁ : β},
      (∀ c, c ∈ l₀ → inPath ρ c.1 = true → c.2.1 = u₀ ∧ c.2.2 = v₀) →
      (∀ c, c ∈ l₁ → inPath ρ c.1 = true → c.2.1 = u₁ ∧ c.2.2 = v₁) →
      ∀ c, c ∈ branchL x l₀ l₁ → inPath ρ c.1 = true →
        c.2.1 = (if ρ x then u₁ else u₀) ∧ c.2.2 = (if ρ x then v₁ else v₀) := by
    intro x l₀ l₁ u₀ u₁ v₀ v₁ h0 h1 c hc hp
    rcases mem_branchL.mp hc with ⟨c₀, hm, rfl⟩ | ⟨c₁, hm, rfl⟩
    · simp only [pcons, inPath_cons, Bool.and_eq_true, beq_iff_eq] at hp
      simp only [pcons, hp.1, Bool.false_eq_true, if_false]; exact h0 c₀ hm hp.2
    · simp only [pcons, inPath_cons, Bool.and_eq_true, beq_iff_eq] at hp
      simp only [pcons, hp.1, if_true]; exact h1 c₁ hm hp.2
  induction a, b using voidApply2P.induct with
  | case1 v w => intro c hc _; simp only [voidApply2P, List.mem_singleton] at hc; subst hc; exact ⟨rfl, rfl⟩
  | case2 x lo hi w ih1 ih2 =>
    intro c hc hp; rw [voidApply2P] at hc
    have := key ih1 ih2 c hc hp
    simp only [eval] at this ⊢; rw [this.1, this.2]; constructor <;> split <;> rfl
  | case3 v y lo hi ih1 ih2 =>
    intro c hc hp; rw [voidApply2P] at hc
    have := key ih1 ih2 c hc hp
    simp only [eval] at this ⊢; rw [this.1, this.2]; constructor <;> split <;> rfl
  | case4 alo ahi x blo bhi ih1 ih2 =>
    intro c hc hp; rw [voidApply2P] at hc; simp only [if_true] at hc
    have := key ih1 ih2 c hc hp
    simp only [eval]; exact this
  | case5 x alo ahi y blo bhi hne hlt ih1 ih2 =>
    intro c hc hp; rw [voidApply2P] at hc; simp only [hne, hlt, if_false, if_true] at hc
    have := key ih1 ih2 c hc hp
    rw [this.1, this.2]; simp [eval]
  | case6 x alo ahi y blo bhi hne hlt ih1 ih2 =>
    intro c hc hp; rw [voidApply2P] at hc; simp only [hne, hlt, if_false] at hc
    have := key ih1 ih2 c hc hp
    rw [this.1, this.2]; simp [eval]

/-- every valuation is in exactly one class of the traversal: the paths partition the valuations -/
theorem voidApply2P_partition (ρ : Nat → Bool) (a : Node α) (b : Node β) :
    (voidApply2P a b).countP (fun c => inPath ρ c.1) = 1 := by
  induction a, b using voidApply2P.induct with
  | case1 v w => simp [voidApply2P, inPath]
  | case2 x lo hi w ih1 ih2 => rw [voidApply2P, countP_branchL]; split <;> assumption
  | case3 v y lo hi ih1 ih2 => rw [voidApply2P, countP_branchL]; split <;> assumption
  | case4 alo ahi x blo bhi ih1 ih2 =>
    rw [voidApply2P]; simp only [if_true]; rw [countP_branchL]; split <;> assumption
  | case5 x alo ahi y blo bhi hne hlt ih1 ih2 =>
    rw [voidApply2P]; simp only [hne, hlt, if_false, if_true]; rw [countP_branchL]; split <;> assumption
  | case6 x alo ahi y blo bhi hne hlt ih1 ih2 =>
    rw [voidApply2P]; simp only [hne, hlt, if_false]; rw [countP_branchL]; split <;> assumption

/-! ### ordered paths: no class is empty -/

/-- the variables of the path decrease and are below `n` -/
def PathBelow : Nat → Path → Prop
  | _, [] => True
  | n, (x, _) :: π => x < n ∧ PathBelow x π

theorem PathBelow.mono {n m : Nat} (h : n ≤ m) : ∀ {π : Path}, PathBelow n π → PathBelow m π
  | [], _ => trivial
  | (_, _) :: _, ⟨h1, h2⟩ => ⟨Nat.lt_of_lt_of_le h1 h, h2⟩

theorem reprSym_lt : ∀ {n : Nat} {π : Path}, PathBelow n π → reprSym π < 2 ^ n
  | n, [], _ => Nat.two_pow_pos n
  | n, (x, b) :: π, ⟨hx, hπ⟩ => by
    have := reprSym_lt hπ
    have h2 : 2 ^ (x + 1) ≤ 2 ^ n := Nat.pow_le_pow_right (by decide) hx
    rw [Nat.pow_succ] at h2
    simp only [reprSym]; split <;> omega

theorem two_pow_split {n x : Nat} (h : x < n) : 2 ^ n = 2 ^ x * (2 * 2 ^ (n - x - 1)) := by
  rw [← Nat.pow_succ', ← Nat.pow_add]; congr 1; omega

/-- the symbol `reprSym π` (with any higher bits) is in the class `π` -/
theorem inPath_reprSym : ∀ {n : Nat} {π : Path}, PathBelow n π → ∀ m, inPath (bits (2 ^ n * m + reprSym π)) π = true
  | _, [], _, _ => rfl
  | n, (x, b) :: π, ⟨hx, hπ⟩, m => by
    have hr := reprSym_lt hπ
    have e := two_pow_split hx
    have key : 2 ^ n * m + reprSym ((x, b) :: π) =
        2 ^ x * (2 * (2 ^ (n - x - 1) * m) + (if b then 1 else 0)) + reprSym π := by
      simp only [reprSym]; rw [e]; cases b <;> grind
    rw [key, inPath_cons, inPath_reprSym hπ, Bool.and_true]
    simp only [bits, Nat.testBit_two_pow_mul_add _ hr, Nat.lt_irrefl, if_false, Nat.sub_self, Nat.testBit_zero]
    cases b <;> simp <;> omega

theorem inPath_congr {ρ ρ' : Nat → Bool} : ∀ {n : Nat} {π : Path}, PathBelow n π → (∀ j, j < n → ρ j = ρ' j) →
    inPath ρ π = inPath ρ' π
  | _, [], _, _ => rfl
  | n, (x, b) :: π, ⟨hx, hπ⟩, h => by
    rw [inPath_cons, inPath_cons, h x hx, inPath_congr hπ (fun j hj => h j (by omega))]

/-- `reprSym π` is the smallest symbol of the class `π` -/
theorem reprSym_le : ∀ {n : Nat} {π : Path}, PathBelow n π → ∀ f, inPath (bits f) π = true → reprSym π ≤ f
  | _, [], _, _, _ => Nat.zero_le _
  | n, (x, b) :: π, ⟨hx, hπ⟩, f, h => by
    rw [inPath_cons, Bool.and_eq_true, beq_iff_eq] at h
    have hlo : inPath (bits (f % 2 ^ x)) π = true := by
      rw [← h.2]; exact inPath_congr hπ (fun j hj => by simp [bits, Nat.testBit_mod_two_pow, hj])
    have ih := reprSym_le hπ _ hlo
    have hf : 2 ^ x * (f / 2 ^ x) + f % 2 ^ x = f := Nat.div_add_mod f (2 ^ x)
    simp only [reprSym]
    cases b with
    | false => simp only [Bool.false_eq_true, if_false, Nat.zero_add]; omega
    | true =>
      simp only [if_true]
      have hb : f / 2 ^ x % 2 = 1 := by
        have := h.1; simpa [bits, Nat.testBit_eq_decide_div_mod_eq] using this
      have : 2 ^ x ≤ 2 ^ x * (f / 2 ^ x) :=
        Nat.le_mul_of_pos_right _ (Nat.pos_of_ne_zero (fun h0 => by rw [h0] at hb; simp at hb))
      omega

theorem pathBelow_branchL {n x : Nat} {l₀ l₁ : List (Path × α × β)} (hx : x < n)
    (h0 : ∀ c, c ∈ l₀ → PathBelow x c.1) (h1 : ∀ c, c ∈ l₁ → PathBelow x c.1) :
    ∀ c, c ∈ branchL x l₀ l₁ → PathBelow n c.1 := by
  intro c hc
  rcases mem_branchL.mp hc with ⟨c₀, hm, rfl⟩ | ⟨c₁, hm, rfl⟩
  · exact ⟨hx, h0 c₀ hm⟩
  · exact ⟨hx, h1 c₁ hm⟩

/-- on ordered diagrams over the variables `< n` the variables of every path decrease and are `< n` -/
theorem voidApply2P_pathBelow (a : Node α) (b : Node β) : ∀ (n : Nat), WF a → WF b → Below n a → Below n b →
    ∀ c, c ∈ voidApply2P a b → PathBelow n c.1 := by
  induction a, b using voidApply2P.induct with
  | case1 v w => intro n _ _ _ _ c hc; simp only [voidApply2P, List.mem_singleton] at hc; subst hc; trivial
  | case2 x lo hi w ih1 ih2 =>
    intro n ⟨_, bl, bh, wl, wh⟩ wb ⟨hx, _, _⟩ _ c hc; rw [voidApply2P] at hc
    exact pathBelow_branchL hx (ih1 x wl wb bl trivial) (ih2 x wh wb bh trivial) c hc
  | case3 v y lo hi ih1 ih2 =>
    intro n wa ⟨_, bl, bh, wl, wh⟩ _ ⟨hy, _, _⟩ c hc; rw [voidApply2P] at hc
    exact pathBelow_branchL hy (ih1 y wa wl trivial bl) (ih2 y wa wh trivial bh) c hc
  | case4 alo ahi x blo bhi ih1 ih2 =>
    intro n ⟨_, al, ah, wal, wah⟩ ⟨_, bl, bh, wbl, wbh⟩ ⟨hx, _, _⟩ _ c hc
    rw [voidApply2P] at hc; simp only [if_true] at hc
    exact pathBelow_branchL hx (ih1 x wal wbl al bl) (ih2 x wah wbh ah bh) c hc
  | case5 x alo ahi y blo bhi hne hlt ih1 ih2 =>
    intro n ⟨_, al, ah, wal, wah⟩ wb ⟨hx, _, _⟩ _ c hc
    have bb : Below x (Node.node y blo bhi) := below_of_wf_varLt wb hlt
    rw [voidApply2P] at hc; simp only [hne, hlt, if_false, if_true] at hc
    exact pathBelow_branchL hx (ih1 x wal wb al bb) (ih2 x wah wb ah bb) c hc
  | case6 x alo ahi y blo bhi hne hlt ih1 ih2 =>
    intro n wa ⟨_, bl, bh, wbl, wbh⟩ _ ⟨hy, _, _⟩ c hc
    have hxy : x < y := by omega
    have ba : Below y (Node.node x alo ahi) := below_of_wf_varLt wa hxy
    rw [voidApply2P] at hc; simp only [hne, hlt, if_false] at hc
    exact pathBelow_branchL hy (ih1 y wa wbl ba bl) (ih2 y wa wbh ba bh) c hc

/-- no class of the traversal of ordered diagrams over `n` variables is empty: it contains the symbol `reprSym π < 2 ^ n`, which
is its smallest symbol -/
theorem voidApply2P_nonempty {n : Nat} {a : Node α} {b : Node β} (wa : WF a) (wb : WF b) (ba : Below n a) (bb : Below n b)
    {c : Path × α × β} (hc : c ∈ voidApply2P a b) :
    reprSym c.1 < 2 ^ n ∧ inPath (bits (reprSym c.1)) c.1 = true ∧ ∀ f, inPath (bits f) c.1 = true → reprSym c.1 ≤ f := by
  have h := voidApply2P_pathBelow a b n wa wb ba bb c hc
  refine ⟨reprSym_lt h, ?_, reprSym_le h⟩
  have := inPath_reprSym h 0
  simpa using this

/-! ## 3. the cache of `VoidApply2Functor`: for an idempotent callback it changes nothing -/

section cache
variable {σ ε : Type} {act : Nat × α × β → σ → Except ε σ} {D : α × β → σ → Prop}

/-- the item of a call: a symbol computed from the (ghost) path, the two leaves -/
def itemOf (g : Path → Nat) (c : Path × α × β) : Nat × α × β := (g c.1, c.2)

theorem symItem_eq : (symItem : Path × α × β → Nat × α × β) = itemOf reprSym := rfl

theorem map_itemOf_branchL (g : Path → Nat) (x : Nat) (l₀ l₁ : List (Path × α × β)) :
    (branchL x l₀ l₁).map (itemOf g) =
      l₀.map (itemOf (fun π => g ((x, false) :: π))) ++ l₁.map (itemOf (fun π => g ((x, true) :: π))) := by
  simp only [branchL, List.map_append, List.map_map]; rfl

/-- every pair of nodes in the cache has been traversed: all its calls are without effect -/
def CacheDone (D : α × β → σ → Prop) (ht : Cache α β) (s : σ) : Prop :=
  ∀ a b, (a, b) ∈ ht → ∀ c, c ∈ voidApply2P a b → D c.2 s

/-- the statement proved for every pair of nodes: from a state in which the cache is `CacheDone` the calls of the cached
traversal act like those of the traversal per path, and the new cache is `CacheDone` afterwards -/
def CacheOK (act : Nat × α × β → σ → Except ε σ) (D : α × β → σ → Prop) (a : Node α) (b : Node β) (ht : Cache α β)
    (r : List (Path × α × β) × Cache α β) : Prop :=
  ∀ (g : Path → Nat) (s : σ), CacheDone D ht s →
    runL act (r.1.map (itemOf g)) s = runL act ((voidApply2P a b).map (itemOf g)) s ∧
    ∀ s', runL act ((voidApply2P a b).map (itemOf g)) s = .ok s' → CacheDone D r.2 s'

theorem cacheDone_keep (hI : Idem act (fun i => i.2) D) {ht : Cache α β} {l : List (Nat × α × β)} {s s' : σ}
    (h : CacheDone D ht s) (hr : runL act l s = .ok s') : CacheDone D ht s' :=
  fun a b hab c hc => runL_keep hI (h a b hab c hc) hr

theorem cache_hit (hI : Idem act (fun i => i.2) D) {a : Node α} {b : Node β} {ht : Cache α β} (hm : (a, b) ∈ ht) :
    CacheOK act D a b ht ([], ht) := by
  intro g s hd
  have : runL act ((voidApply2P a b).map (itemOf g)) s = .ok s := by
    refine runL_skip hI (fun i hi => ?_)
    obtain ⟨c, hc, rfl⟩ := List.mem_map.mp hi
    exact hd a b hm c hc
  rw [this]
  exact ⟨rfl, fun s' h => by simp only [Except.ok.injEq] at h; exact h ▸ hd⟩

theorem cache_step (hI : Idem act (fun i => i.2) D) {a a₀ a₁ : Node α} {b b₀ b₁ : Node β} {x : Nat}
    (hP : voidApply2P a b = branchL x (voidApply2P a₀ b₀) (voidApply2P a₁ b₁)) {ht : Cache α β}
    {r₁ r₂ : List (Path × α × β) × Cache α β} (ih1 : CacheOK act D a₀ b₀ ht r₁) (ih2 : CacheOK act D a₁ b₁ r₁.2 r₂) :
    CacheOK act D a b ht (branchL x r₁.1 r₂.1, (a, b) :: r₂.2) := by
  intro g s hd
  obtain ⟨e1, d1⟩ := ih1 (fun π => g ((x, false) :: π)) s hd
  have main : runL act ((branchL x r₁.1 r₂.1).map (itemOf g)) s = runL act ((voidApply2P a b).map (itemOf g)) s ∧
      ∀ s', runL act ((voidApply2P a b).map (itemOf g)) s = .ok s' → CacheDone D r₂.2 s' := by
    rw [hP, map_itemOf_branchL, map_itemOf_branchL, runL_append, runL_append, e1]
    cases h1 : runL act ((voidApply2P a₀ b₀).map (itemOf fun π => g ((x, false) :: π))) s with
    | error e => exact ⟨rfl, fun s' h => by cases h⟩
    | ok s₁ => exact ih2 (fun π => g ((x, true) :: π)) s₁ (d1 s₁ h1)
  refine ⟨main.1, fun s' h => ?_⟩
  intro a' b' hab c hc
  rcases List.mem_cons.mp hab with heq | hab
  · cases heq
    exact runL_done hI h (itemOf g c) (List.mem_map_of_mem hc)
  · exact main.2 s' h a' b' hab c hc

variable [DecidableEq α] [DecidableEq β]

theorem voidApply2C_ok (hI : Idem act (fun i => i.2) D) (a : Node α) (b : Node β) :
    ∀ ht : Cache α β, CacheOK act D a b ht (voidApply2C a b ht) := by
  induction a, b using voidApply2P.induct with
  | case1 v w =>
    intro ht
    rw [voidApply2C]
    split
    · rename_i h; exact cache_hit hI (by simpa using h)
    · intro g s hd
      refine ⟨by rw [voidApply2P], fun s' h => ?_⟩
      intro a' b' hab c hc
      rcases List.mem_cons.mp hab with heq | hab
      · cases heq
        exact runL_done hI h (itemOf g c) (List.mem_map_of_mem hc)
      · exact cacheDone_keep hI hd h a' b' hab c hc
  | case2 x lo hi w ih1 ih2 =>
    intro ht
    rw [voidApply2C]
    split
    · rename_i h; exact cache_hit hI (by simpa using h)
    · exact cache_step hI (by rw [voidApply2P]) (ih1 ht) (ih2 _)
  | case3 v y lo hi ih1 ih2 =>
    intro ht
    rw [voidApply2C]
    split
    · rename_i h; exact cache_hit hI (by simpa using h)
    · exact cache_step hI (by rw [voidApply2P]) (ih1 ht) (ih2 _)
  | case4 alo ahi x blo bhi ih1 ih2 =>
    intro ht
    rw [voidApply2C]
    split
    · rename_i h; exact cache_hit hI (by simpa using h)
    · simp only [if_true]
      exact cache_step hI (by rw [voidApply2P]; simp only [if_true]) (ih1 ht) (ih2 _)
  | case5 x alo ahi y blo bhi hne hlt ih1 ih2 =>
    intro ht
    rw [voidApply2C]
    split
    · rename_i h; exact cache_hit hI (by simpa using h)
    · exact cache_step hI (by rw [voidApply2P]; simp only [hne, hlt, if_false, if_true]) (ih1 ht) (ih2 _)
  | case6 x alo ahi y blo bhi hne hlt ih1 ih2 =>
    intro ht
    rw [voidApply2C]
    split
    · rename_i h; exact cache_hit hI (by simpa using h)
    · exact cache_step hI (by rw [voidApply2P]; simp only [hne, hlt, if_false]) (ih1 ht) (ih2 _)

/-- **the cache of `VoidApply2Functor` is transparent** for a callback whose repetition has no effect: the calls of
`operator()` (cache cleared, node pairs visited once) act like one call per path of the combined diagram -/
theorem voidApply2Calls_run (hI : Idem act (fun i => i.2) D) (a : Node α) (b : Node β) (g : Path → Nat) (s : σ) :
    runL act ((voidApply2Calls a b).map (itemOf g)) s = runL act ((voidApply2P a b).map (itemOf g)) s :=
  (voidApply2C_ok hI a b [] g s (fun _ _ h => by cases h)).1

end cache

/-! ## 4. the loop over the `2 ^ n` symbols in numerical order = the traversal of the classes

The abstract models call the callback for every SYMBOL (with the two leaves the symbol selects); the code calls it for every
class.  For a callback whose repetition has no effect the two are the same run: the classes are met in the order of their
smallest symbols, and a symbol that is not the smallest of its class repeats a call. -/

/-- the cofactors with respect to the variable `n` of a diagram whose root variable is at most `n` -/
def cofLo (n : Nat) : Node α → Node α
  | .leaf v => .leaf v
  | .node x lo hi => if x = n then lo else .node x lo hi

def cofHi (n : Nat) : Node α → Node α
  | .leaf v => .leaf v
  | .node x lo hi => if x = n then hi else .node x lo hi

theorem eval_cofLo {n : Nat} {ρ : Nat → Bool} (h : ρ n = false) : ∀ a : Node α, eval a ρ = eval (cofLo n a) ρ
  | .leaf _ => rfl
  | .node x lo hi => by
    simp only [cofLo]; split
    · rename_i hx; subst hx; simp [eval, h]
    · rfl

theorem eval_cofHi {n : Nat} {ρ : Nat → Bool} (h : ρ n = true) : ∀ a : Node α, eval a ρ = eval (cofHi n a) ρ
  | .leaf _ => rfl
  | .node x lo hi => by
    simp only [cofHi]; split
    · rename_i hx; subst hx; simp [eval, h]
    · rfl

theorem cofLo_ok {n : Nat} : ∀ {a : Node α}, WF a → Below (n + 1) a → WF (cofLo n a) ∧ Below n (cofLo n a)
  | .leaf _, _, _ => ⟨trivial, trivial⟩
  | .node x lo hi, w, ⟨hx, _, _⟩ => by
    simp only [cofLo]; split
    · rename_i h; subst h; exact ⟨w.2.2.2.1, w.2.1⟩
    · rename_i h; exact ⟨w, below_of_wf_varLt w (show x < n by omega)⟩

theorem cofHi_ok {n : Nat} : ∀ {a : Node α}, WF a → Below (n + 1) a → WF (cofHi n a) ∧ Below n (cofHi n a)
  | .leaf _, _, _ => ⟨trivial, trivial⟩
  | .node x lo hi, w, ⟨hx, _, _⟩ => by
    simp only [cofHi]; split
    · rename_i h; subst h; exact ⟨w.2.2.2.2, w.2.2.1⟩
    · rename_i h; exact ⟨w, below_of_wf_varLt w (show x < n by omega)⟩

/-- the root variable is `n` -/
def IsTop (n : Nat) : Node α → Prop
  | .leaf _ => False
  | .node x _ _ => x = n

theorem below_or_top {n : Nat} : ∀ {a : Node α}, WF a → Below (n + 1) a → Below n a ∨ IsTop n a
  | .leaf _, _, _ => Or.inl trivial
  | .node x lo hi, w, ⟨hx, _, _⟩ => by
    by_cases h : x = n
    · exact Or.inr h
    · exact Or.inl (below_of_wf_varLt w (show x < n by omega))

/-- one step of the traversal, when `n` is the larger root variable -/
theorem voidApply2P_cof {n : Nat} : ∀ {a : Node α} {b : Node β}, Below (n + 1) a → Below (n + 1) b → IsTop n a ∨ IsTop n b →
    voidApply2P a b = branchL n (voidApply2P (cofLo n a) (cofLo n b)) (voidApply2P (cofHi n a) (cofHi n b))
  | .leaf _, .leaf _, _, _, h => by rcases h with h | h <;> exact absurd h id
  | .node x lo hi, .leaf w, _, _, h => by
    rcases h with h | h
    · cases h; rw [voidApply2P]; simp [cofLo, cofHi]
    · exact absurd h id
  | .leaf v, .node y lo hi, _, _, h => by
    rcases h with h | h
    · exact absurd h id
    · cases h; rw [voidApply2P]; simp [cofLo, cofHi]
  | .node x alo ahi, .node y blo bhi, ⟨hx, _, _⟩, ⟨hy, _, _⟩, h => by
    rw [voidApply2P]
    by_cases hxy : x = y
    · subst hxy
      have hxn : x = n := by rcases h with h | h <;> exact h
      subst hxn; simp [cofLo, cofHi]
    · rcases h with h | h
      · have hxn : x = n := h
        have hlt : y < n := by omega
        have hne : ¬ y = n := by omega
        have hne' : ¬ n = y := by omega
        simp [cofLo, cofHi, hxn, hlt, hne, hne']
      · have hyn : y = n := h
        have h1 : ¬ x = n := by omega
        have h2 : ¬ n < x := by omega
        simp [cofLo, cofHi, hyn, h1, h2]

/-- the calls of the loop over the symbols `base, …, base + cnt - 1` -/
def symItems (a : Node α) (b : Node β) (base cnt : Nat) : List (Nat × α × β) :=
  (List.range cnt).map (fun g => (base + g, eval a (bits (base + g)), eval b (bits (base + g))))

/-- the calls of the traversal of the classes, each with the symbol `base + reprSym π` -/
def travItems (a : Node α) (b : Node β) (base : Nat) : List (Nat × α × β) :=
  (voidApply2P a b).map (itemOf (fun π => base + reprSym π))

theorem symItems_split (a : Node α) (b : Node β) (n m : Nat) :
    symItems a b (2 ^ (n + 1) * m) (2 ^ (n + 1)) =
      symItems a b (2 ^ n * (2 * m)) (2 ^ n) ++ symItems a b (2 ^ n * (2 * m + 1)) (2 ^ n) := by
  have e1 : 2 ^ (n + 1) * m = 2 ^ n * (2 * m) := by rw [Nat.pow_succ, Nat.mul_assoc]
  have e2 : 2 ^ (n + 1) = 2 ^ n + 2 ^ n := by rw [Nat.pow_succ]; omega
  have e3 : ∀ g, 2 ^ n * (2 * m) + (2 ^ n + g) = 2 ^ n * (2 * m + 1) + g := by
    intro g; rw [Nat.mul_add, Nat.mul_one]; omega
  simp only [symItems]
  rw [e1, e2, List.range_add, List.map_append, List.map_map]
  simp only [Function.comp_def, e3]

theorem testBit_base_lt {n m g i : Nat} (hg : g < 2 ^ n) (hi : i < n) : (2 ^ n * m + g).testBit i = g.testBit i := by
  rw [Nat.testBit_two_pow_mul_add _ hg]; simp [hi]

theorem testBit_base_top {n m g : Nat} (hg : g < 2 ^ n) : (2 ^ n * m + g).testBit n = decide (m % 2 = 1) := by
  rw [Nat.testBit_two_pow_mul_add _ hg]; simp [Nat.testBit_zero]

theorem symItems_congr {a a' : Node α} {b b' : Node β} {base cnt : Nat}
    (h : ∀ g, g < cnt → eval a (bits (base + g)) = eval a' (bits (base + g)) ∧
      eval b (bits (base + g)) = eval b' (bits (base + g))) :
    symItems a b base cnt = symItems a' b' base cnt := by
  simp only [symItems]
  apply List.map_congr_left
  intro g hg
  rw [(h g (List.mem_range.mp hg)).1, (h g (List.mem_range.mp hg)).2]

section loop
variable {σ ε : Type} {act : Nat × α × β → σ → Except ε σ} {D : α × β → σ → Prop}

/-- **the per-symbol loop and the per-class traversal are the same run**, for a callback whose repetition has no effect,
on ordered reduced diagrams over the variables `< n`; the symbols are `2 ^ n * m + g`, `g < 2 ^ n` -/
theorem symLoop_eq_trav (hI : Idem act (fun i => i.2) D) : ∀ (n : Nat) (a : Node α) (b : Node β) (m : Nat),
    WF a → WF b → Below n a → Below n b → ∀ s,
      runL act (symItems a b (2 ^ n * m) (2 ^ n)) s = runL act (travItems a b (2 ^ n * m)) s := by
  intro n
  induction n with
  | zero =>
    intro a b m _ _ ba bb s
    cases a with
    | node x lo hi => exact absurd ba.1 (Nat.not_lt_zero _)
    | leaf v =>
      cases b with
      | node y lo hi => exact absurd bb.1 (Nat.not_lt_zero _)
      | leaf w => simp [symItems, travItems, voidApply2P, itemOf, reprSym, eval, List.range_succ]
  | succ n ih =>
    intro a b m wa wb ba bb s
    rw [symItems_split]
    have e1 : 2 ^ (n + 1) * m = 2 ^ n * (2 * m) := by rw [Nat.pow_succ, Nat.mul_assoc]
    by_cases htop : IsTop n a ∨ IsTop n b
    · -- a branching on `n`: the lower half of the symbols goes to the low successors, the upper half to the high ones
      have hl : symItems a b (2 ^ n * (2 * m)) (2 ^ n) = symItems (cofLo n a) (cofLo n b) (2 ^ n * (2 * m)) (2 ^ n) :=
        symItems_congr (fun g hg => by
          have hb : bits (2 ^ n * (2 * m) + g) n = false := by
            simp only [bits, testBit_base_top hg]; simp
          exact ⟨eval_cofLo hb a, eval_cofLo hb b⟩)
      have hh : symItems a b (2 ^ n * (2 * m + 1)) (2 ^ n) =
          symItems (cofHi n a) (cofHi n b) (2 ^ n * (2 * m + 1)) (2 ^ n) :=
        symItems_congr (fun g hg => by
          have hb : bits (2 ^ n * (2 * m + 1) + g) n = true := by
            simp only [bits, testBit_base_top hg]; simp
          exact ⟨eval_cofHi hb a, eval_cofHi hb b⟩)
      have ht : travItems a b (2 ^ (n + 1) * m) =
          travItems (cofLo n a) (cofLo n b) (2 ^ n * (2 * m)) ++ travItems (cofHi n a) (cofHi n b) (2 ^ n * (2 * m + 1)) := by
        simp only [travItems]
        rw [voidApply2P_cof ba bb htop, map_itemOf_branchL, e1]
        have e3 : ∀ r, 2 ^ n * (2 * m) + (2 ^ n + r) = 2 ^ n * (2 * m + 1) + r := by
          intro r; rw [Nat.mul_add, Nat.mul_one]; omega
        simp only [reprSym, if_true, Bool.false_eq_true, if_false, Nat.zero_add, e3]
      rw [hl, hh, ht]
      exact runL_append_congr
        (ih _ _ _ (cofLo_ok wa ba).1 (cofLo_ok wb bb).1 (cofLo_ok wa ba).2 (cofLo_ok wb bb).2)
        (ih _ _ _ (cofHi_ok wa ba).1 (cofHi_ok wb bb).1 (cofHi_ok wa ba).2 (cofHi_ok wb bb).2) s
    · -- no branching on `n`: the upper half of the symbols repeats the calls of the lower half
      have ba' : Below n a := (below_or_top wa ba).resolve_right (fun h => htop (Or.inl h))
      have bb' : Below n b := (below_or_top wb bb).resolve_right (fun h => htop (Or.inr h))
      rw [runL_dup hI, e1]
      · exact ih a b (2 * m) wa wb ba' bb' s
      · intro i hi
        simp only [symItems, List.mem_map, List.mem_range] at hi ⊢
        obtain ⟨g, hg, rfl⟩ := hi
        refine ⟨_, ⟨g, hg, rfl⟩, ?_⟩
        have hc : ∀ j, j < n → bits (2 ^ n * (2 * m) + g) j = bits (2 ^ n * (2 * m + 1) + g) j := by
          intro j hj; simp only [bits, testBit_base_lt hg hj]
        simp only [eval_congr_below hc ba', eval_congr_below hc bb']

end loop

/-! ## 5. the united MTBDD of the right-hand side, the tuple set -/

theorem sorted_ext : ∀ {l₁ l₂ : List Nat}, l₁.Pairwise (· < ·) → l₂.Pairwise (· < ·) → (∀ x, x ∈ l₁ ↔ x ∈ l₂) → l₁ = l₂
  | [], [], _, _, _ => rfl
  | [], b :: _, _, _, h => absurd ((h b).mpr List.mem_cons_self) (by simp)
  | a :: _, [], _, _, h => absurd ((h a).mp List.mem_cons_self) (by simp)
  | a :: t, b :: u, h1, h2, h => by
    rw [List.pairwise_cons] at h1 h2
    have hab : a = b := by
      rcases List.mem_cons.mp ((h a).mp List.mem_cons_self) with e | ha
      · exact e
      · rcases List.mem_cons.mp ((h b).mpr List.mem_cons_self) with e | hb
        · exact e.symm
        · have := h2.1 a ha; have := h1.1 b hb; omega
    subst hab
    congr 1
    refine sorted_ext h1.2 h2.2 (fun x => ⟨fun hx => ?_, fun hx => ?_⟩)
    · rcases List.mem_cons.mp ((h x).mp (List.mem_cons_of_mem _ hx)) with e | hx'
      · have := h1.1 x hx; omega
      · exact hx'
    · rcases List.mem_cons.mp ((h x).mpr (List.mem_cons_of_mem _ hx)) with e | hx'
      · have := h2.1 x hx; omega
      · exact hx'

theorem unionS_sorted (a b : List Nat) : (unionS a b).Pairwise (· < ·) := normS_sorted _

theorem eval_foldl_apply2 {γ κ : Type} [DecidableEq γ] (u : List γ → List γ → List γ) (get : κ → Node (List γ))
    (ρ : Nat → Bool) : ∀ (l : List κ) (m : Node (List γ)),
    eval (l.foldl (fun m k => apply2 u m (get k)) m) ρ = l.foldl (fun S k => u S (eval (get k) ρ)) (eval m ρ)
  | [], _ => rfl
  | k :: ks, m => by
    simp only [List.foldl_cons]
    rw [eval_foldl_apply2 u get ρ ks, apply2_eval]

theorem mem_foldl_u {γ κ : Type} (u : List γ → List γ → List γ) (hu : ∀ a b x, x ∈ u a b ↔ x ∈ a ∨ x ∈ b)
    (g : κ → List γ) (q : γ) : ∀ (l : List κ) (S : List γ),
    q ∈ l.foldl (fun S k => u S (g k)) S ↔ q ∈ S ∨ ∃ k, k ∈ l ∧ q ∈ g k
  | [], S => by simp
  | k :: l, S => by
    simp only [List.foldl_cons]
    rw [mem_foldl_u u hu g q l, hu]
    simp only [List.mem_cons]
    constructor
    · rintro ((h | h) | ⟨k', h1, h2⟩)
      · exact Or.inl h
      · exact Or.inr ⟨k, Or.inl rfl, h⟩
      · exact Or.inr ⟨k', Or.inr h1, h2⟩
    · rintro (h | ⟨k', rfl | h1, h2⟩)
      · exact Or.inl (Or.inl h)
      · exact Or.inl (Or.inr h2)
      · exact Or.inr ⟨k', h1, h2⟩

theorem sorted_foldl_unionS {κ : Type} (g : κ → List Nat) : ∀ (l : List κ) (S : List Nat), S.Pairwise (· < ·) →
    (l.foldl (fun S k => unionS S (g k)) S).Pairwise (· < ·)
  | [], _, h => h
  | _ :: l, _, _ => sorted_foldl_unionS g l _ (unionS_sorted _ _)

/-- the leaf of `rhsUnionMtbdd` a valuation selects: the parents of the `ρ`-rules of the tuples -/
theorem mem_eval_unionAll (T : Table) (ρ : Nat → Bool) (tuples : List (List Nat)) (q : Nat) :
    q ∈ eval (unionAll T tuples) ρ ↔ ∃ k, k ∈ tuples ∧ HasRule T ρ k q := by
  unfold unionAll
  rw [eval_foldl_apply2 unionS T.get, mem_foldl_u unionS (fun _ _ _ => mem_unionS)]
  simp [eval, HasRule]

theorem sorted_eval_unionAll (T : Table) (ρ : Nat → Bool) (tuples : List (List Nat)) :
    (eval (unionAll T tuples) ρ).Pairwise (· < ·) := by
  unfold unionAll
  rw [eval_foldl_apply2 unionS T.get]
  exact sorted_foldl_unionS _ _ _ (by simp [eval])

/-- a table whose MTBDDs are ordered, reduced and over the variables `< n` (`TableWF` is the case `n = 16`) -/
def TableWFn (n : Nat) (T : Table) : Prop := ∀ ks, WF (T.get ks) ∧ Below n (T.get ks)

theorem tableWFn_16 {T : Table} : TableWFn 16 T ↔ TableWF T := Iff.rfl

theorem unionAll_wf {n : Nat} {T : Table} (hT : TableWFn n T) (tuples : List (List Nat)) :
    WF (unionAll T tuples) ∧ Below n (unionAll T tuples) := by
  unfold unionAll
  suffices h : ∀ (l : List (List Nat)) (m : MT), WF m ∧ Below n m →
      WF (l.foldl (fun m k => apply2 unionS m (T.get k)) m) ∧ Below n (l.foldl (fun m k => apply2 unionS m (T.get k)) m) from
    h tuples _ ⟨trivial, trivial⟩
  intro l
  induction l with
  | nil => intro m h; exact h
  | cons k l ih =>
    intro m h
    exact ih _ ⟨apply2_wf _ _ _ h.1 (hT k).1, apply2_below _ _ _ h.2 (hT k).2⟩

/-- the united MTBDD does not depend on the order (or the multiplicity) of the tuples: `std::set` order or any other -/
theorem unionAll_congr {n : Nat} {T : Table} (hT : TableWFn n T) {l₁ l₂ : List (List Nat)} (h : ∀ k, k ∈ l₁ ↔ k ∈ l₂) :
    unionAll T l₁ = unionAll T l₂ := by
  refine (eq_iff_sem (unionAll_wf hT l₁).1 (unionAll_wf hT l₂).1).mpr (fun ρ => ?_)
  refine sorted_ext (sorted_eval_unionAll T ρ l₁) (sorted_eval_unionAll T ρ l₂) (fun q => ?_)
  simp only [mem_eval_unionAll, h]

theorem mem_prodTuples : ∀ {Ss : List (List Nat)} {k : List Nat}, k ∈ prodTuples Ss ↔ matchKids k Ss = true
  | [], k => by cases k <;> simp [prodTuples, matchKids]
  | S :: Ss, [] => by simp [prodTuples, matchKids]
  | S :: Ss, x :: k => by
    simp only [prodTuples, List.mem_flatMap, List.mem_map, matchKids, Bool.and_eq_true, List.contains_iff_mem]
    constructor
    · rintro ⟨y, hy, k', hk', e⟩
      cases e
      exact ⟨hy, mem_prodTuples.mp hk'⟩
    · rintro ⟨hx, hk⟩
      exact ⟨x, hx, k, mem_prodTuples.mpr hk, rfl⟩

/-- the macro-state of the abstract model is the leaf of `rhsUnionMtbdd` (equal as sorted vectors) -/
theorem macroPost_abs {syms : List Nat} (TB : Table) (FB : List Nat) {f : Nat} (hf : f ∈ syms) (Ss : List (List Nat)) :
    macroPost (absBU syms TB FB) f Ss = eval (unionAll TB (prodTuples Ss)) (bits f) := by
  refine sorted_ext (normS_sorted _) (sorted_eval_unionAll _ _ _) (fun q => ?_)
  rw [mem_macroPost, mem_post', mem_eval_unionAll]
  constructor
  · rintro ⟨r, hr, rfl, hm, rfl⟩
    exact ⟨r.kids, mem_prodTuples.mpr hm, (mem_absRules.mp hr).2⟩
  · rintro ⟨k, hk, hq⟩
    exact ⟨⟨f, k, q⟩, mem_absRules.mpr ⟨hf, hq⟩, rfl, mem_prodTuples.mp hk, rfl⟩

/-! ## 6. the callback of the upward algorithm; the abstract per-symbol loop -/

theorem fctor_congr {A B A' B' : TA} (hA : A.final = A'.final) (hB : B.final = B'.final) (st : InclUpBdd.St) (it : Item) :
    fctor A B st it = fctor A' B' st it := by
  unfold fctor accepting
  rw [hA, hB]

theorem fctor_subsumed {A B : TA} {st st' : InclUpBdd.St} {it : Item} (h : fctor A B st it = .ok st') :
    Subsumed st'.antichain it.q it.S ∧ ∀ q S, Subsumed st.antichain q S → Subsumed st'.antichain q S := by
  unfold fctor at h
  split at h
  · rename_i hs
    cases h
    exact ⟨subsumed_iff.mp hs, fun _ _ h => h⟩
  · split at h
    · cases h
    · cases h
      exact ⟨addTmp_self _ _, fun _ _ h => addTmp_mono h⟩

theorem fctor_skip {A B : TA} {st : InclUpBdd.St} {it : Item} (h : Subsumed st.antichain it.q it.S) :
    fctor A B st it = .ok st := by
  unfold fctor
  rw [if_pos (subsumed_iff.mpr h)]

/-- a call of the functor for one state of the left leaf: its repetition has no effect -/
theorem idem_fctor (A B : TA) (R : List Nat) (t : Tree) :
    Idem (fun (p : Nat) (st : InclUpBdd.St) => fctor A B st ⟨p, R, t⟩) (fun p => (p, R))
      (fun (k : Nat × List Nat) (st : InclUpBdd.St) => Subsumed st.antichain k.1 k.2) :=
  ⟨fun h => (fctor_subsumed h).1, fun hd h => (fctor_subsumed h).2 _ _ hd, fun hd => fctor_skip hd⟩

/-- `UpwardInclusionFunctor::operator()`: its repetition (with the same two leaves, whatever the symbol) has no effect -/
theorem idem_actUp (FA FB : List Nat) (ts : List Tree) :
    Idem (actUp FA FB ts) (fun i => i.2)
      (fun (k : List Nat × List Nat) (st : InclUpBdd.St) => ∀ p, p ∈ k.1 → Subsumed st.antichain p k.2) := by
  refine ⟨?_, ?_, ?_⟩
  · intro i s s' h p hp
    exact runL_done (idem_fctor _ _ i.2.2 _) h p hp
  · intro i k s s' hd h p hp
    exact runL_keep (idem_fctor _ _ i.2.2 _) (k := (p, k.2)) (hd p hp) h
  · intro i s hd
    exact runL_skip (idem_fctor _ _ i.2.2 _) hd

theorem foreachUp_append (A B : TA) (ks : List Nat) (Ss : List (List Nat)) (ts : List Tree) (r₁ r₂ : List Rule)
    (st : InclUpBdd.St) :
    foreachUp A B ks Ss ts (r₁ ++ r₂) st = match foreachUp A B ks Ss ts r₁ st with
      | .error e => .error e
      | .ok st' => foreachUp A B ks Ss ts r₂ st' := by
  induction r₁ generalizing st with
  | nil => rfl
  | cons ρ r₁ ih =>
    simp only [List.cons_append, foreachUp]
    split
    · cases fctor A B st ⟨ρ.parent, macroPost B ρ.sym Ss, .node ρ.sym ts⟩ with
      | error e => rfl
      | ok st' => exact ih st'
    · exact ih st

theorem foreachUp_skip (A B : TA) (ks : List Nat) (Ss : List (List Nat)) (ts : List Tree) :
    ∀ (rs : List Rule) (st : InclUpBdd.St), (∀ ρ, ρ ∈ rs → ρ.kids ≠ ks) → foreachUp A B ks Ss ts rs st = .ok st
  | [], _, _ => rfl
  | ρ :: rs, st, h => by
    have : (ρ.kids == ks) = false := by simpa using h ρ List.mem_cons_self
    simp only [foreachUp, this, Bool.false_eq_true, if_false]
    exact foreachUp_skip A B ks Ss ts rs st (fun ρ' h' => h ρ' (List.mem_cons_of_mem _ h'))

/-- the rules of one symbol and one tuple: the functor for every parent -/
theorem foreachUp_leaf (A B : TA) (ks : List Nat) (Ss : List (List Nat)) (ts : List Tree) (f : Nat) :
    ∀ (L : List Nat) (st : InclUpBdd.St),
      foreachUp A B ks Ss ts (L.map (fun p => (⟨f, ks, p⟩ : Rule))) st =
        runL (fun p st => fctor A B st ⟨p, macroPost B f Ss, .node f ts⟩) L st
  | [], _ => rfl
  | p :: L, st => by
    simp only [List.map_cons, foreachUp, beq_self_eq_true, if_true, runL]
    cases fctor A B st ⟨p, macroPost B f Ss, .node f ts⟩ with
    | error e => rfl
    | ok st' => exact foreachUp_leaf A B ks Ss ts f L st'

/-- the rules `absRules` lists for the tuple `ks` -/
def rulesAt (syms : List Nat) (T : Table) (ks : List Nat) : List Rule :=
  syms.flatMap (fun f => (eval (T.get ks) (bits f)).map (fun p => (⟨f, ks, p⟩ : Rule)))

theorem absRules_eq (syms : List Nat) (T : Table) : absRules syms T = T.keys.flatMap (rulesAt syms T) := rfl

theorem kids_rulesAt {syms : List Nat} {T : Table} {ks : List Nat} {ρ : Rule} (h : ρ ∈ rulesAt syms T ks) : ρ.kids = ks := by
  simp only [rulesAt, List.mem_flatMap, List.mem_map] at h
  obtain ⟨_, _, _, _, rfl⟩ := h
  rfl

/-- the abstract loop over the rules of one tuple is the loop over the symbols, calling `UpwardInclusionFunctor::operator()`
with the two leaves the symbol selects -/
theorem foreachUp_rulesAt (TA TB : Table) (FA FB : List Nat) (syms₀ : List Nat) (ks : List Nat) (Ss : List (List Nat))
    (ts : List Tree) : ∀ (syms : List Nat), (∀ f, f ∈ syms → f ∈ syms₀) → ∀ (st : InclUpBdd.St),
      foreachUp (absBU syms₀ TA FA) (absBU syms₀ TB FB) ks Ss ts (rulesAt syms TA ks) st =
        runL (actUp FA FB ts)
          (syms.map (fun f => (f, eval (TA.get ks) (bits f), eval (unionAll TB (prodTuples Ss)) (bits f)))) st
  | [], _, _ => rfl
  | f :: syms, h, st => by
    have hf : f ∈ syms₀ := h f List.mem_cons_self
    simp only [rulesAt, List.flatMap_cons, List.map_cons, runL]
    rw [foreachUp_append, foreachUp_leaf, macroPost_abs TB FB hf]
    have e : runL (fun p st => fctor (absBU syms₀ TA FA) (absBU syms₀ TB FB) st
          ⟨p, eval (unionAll TB (prodTuples Ss)) (bits f), .node f ts⟩) (eval (TA.get ks) (bits f)) st =
        actUp FA FB ts (f, eval (TA.get ks) (bits f), eval (unionAll TB (prodTuples Ss)) (bits f)) st := by
      unfold actUp
      exact congrArg (fun g => runL g _ st) (funext fun p => funext fun st => fctor_congr rfl rfl st _)
    rw [e]
    cases actUp FA FB ts (f, eval (TA.get ks) (bits f), eval (unionAll TB (prodTuples Ss)) (bits f)) st with
    | error e => rfl
    | ok st' => exact foreachUp_rulesAt TA TB FA FB syms₀ ks Ss ts syms (fun g hg => h g (List.mem_cons_of_mem _ hg)) st'

theorem get_not_key {T : Table} {ks : List Nat} (h : ks ∉ T.keys) : T.get ks = .leaf [] := by
  unfold Table.keys at h
  simp only [List.mem_cons, not_or] at h
  unfold Table.get
  rw [if_neg h.1]
  exact getE_not_key h.2

/-- the abstract traversal on the dumped automaton, for a table whose tuples are listed once: only the rules of the tuple count -/
theorem foreachUp_keys (A B : TA) (ks : List Nat) (Ss : List (List Nat)) (ts : List Tree) (G : List Nat → List Rule)
    (hG : ∀ k ρ, ρ ∈ G k → ρ.kids = k) : ∀ (keys : List (List Nat)), keys.Nodup → ∀ (st : InclUpBdd.St),
      foreachUp A B ks Ss ts (keys.flatMap G) st =
        if ks ∈ keys then foreachUp A B ks Ss ts (G ks) st else .ok st
  | [], _, _ => rfl
  | k :: keys, hn, st => by
    rw [List.nodup_cons] at hn
    simp only [List.flatMap_cons]
    rw [foreachUp_append]
    by_cases hk : k = ks
    · subst hk
      simp only [List.mem_cons, true_or, if_true]
      cases foreachUp A B k Ss ts (G k) st with
      | error e => rfl
      | ok st' =>
        simp only
        rw [foreachUp_keys A B k Ss ts G hG keys hn.2 st', if_neg hn.1]
    · rw [foreachUp_skip A B ks Ss ts (G k) st (fun ρ hρ e => hk ((hG k ρ hρ).symm.trans e))]
      simp only
      rw [foreachUp_keys A B ks Ss ts G hG keys hn.2 st]
      have : (ks ∈ k :: keys) ↔ ks ∈ keys := by
        simp only [List.mem_cons]; exact ⟨fun h => h.resolve_left (fun e => hk e.symm), Or.inr⟩
      simp only [this]

theorem actUp_nil (FA FB : List Nat) (ts : List Tree) (f : Nat) (R : List Nat) (st : InclUpBdd.St) :
    actUp FA FB ts (f, [], R) st = .ok st := rfl

/-- **the abstract model's traversal on the dump = the loop over all `2 ^ n` symbols** -/
theorem foreachUp_abs_eq_symLoop (n : Nat) (TA TB : Table) (FA FB : List Nat) (hk : TA.keys.Nodup) (ks : List Nat)
    (Ss : List (List Nat)) (ts : List Tree) (st : InclUpBdd.St) :
    foreachUp (absBU (List.range (2 ^ n)) TA FA) (absBU (List.range (2 ^ n)) TB FB) ks Ss ts
        (absBU (List.range (2 ^ n)) TA FA).rules st =
      runL (actUp FA FB ts) (symItems (TA.get ks) (unionAll TB (prodTuples Ss)) (2 ^ n * 0) (2 ^ n)) st := by
  have hs : symItems (TA.get ks) (unionAll TB (prodTuples Ss)) (2 ^ n * 0) (2 ^ n) =
      (List.range (2 ^ n)).map
        (fun f => (f, eval (TA.get ks) (bits f), eval (unionAll TB (prodTuples Ss)) (bits f))) := by
    simp [symItems]
  rw [hs]
  show foreachUp _ _ ks Ss ts (absRules (List.range (2 ^ n)) TA) st = _
  rw [absRules_eq, foreachUp_keys _ _ ks Ss ts _ (fun k ρ h => kids_rulesAt h) _ hk]
  split
  · exact foreachUp_rulesAt TA TB FA FB _ ks Ss ts _ (fun _ h => h) st
  · rename_i hnk
    rw [get_not_key hnk]
    symm
    refine runL_skip (idem_actUp FA FB ts) (fun i hi => ?_)
    simp only [List.mem_map] at hi
    obtain ⟨f, _, rfl⟩ := hi
    intro p hp
    simp [eval] at hp

/-- **refinement of the traversal**: on tables with ordered reduced MTBDDs over `n` symbol bits, the tuples listed once,
`ForeachUpSymbolFromTupleAndTupleSetDo` as coded (united MTBDD, `VoidApply2Functor` with its cache, one call per class) acts on
the state of the upward algorithm exactly like the abstract model's loop over the rules of the dumped automata, whose
symbols are all the `2 ^ n` numbers in increasing order -/
theorem foreachUpT_eq_abs (n : Nat) (TA TB : Table) (FA FB : List Nat) (hA : TableWFn n TA) (hB : TableWFn n TB)
    (hk : TA.keys.Nodup) (ks : List Nat) (Ss : List (List Nat)) (ts : List Tree) (st : InclUpBdd.St) :
    foreachUpT TA TB FA FB ks Ss ts st =
      foreachUp (absBU (List.range (2 ^ n)) TA FA) (absBU (List.range (2 ^ n)) TB FB) ks Ss ts
        (absBU (List.range (2 ^ n)) TA FA).rules st := by
  rw [foreachUp_abs_eq_symLoop n TA TB FA FB hk,
    symLoop_eq_trav (idem_actUp FA FB ts) n _ _ 0 (hA ks).1 (unionAll_wf hB _).1 (hA ks).2 (unionAll_wf hB _).2]
  unfold foreachUpT travUp
  rw [symItem_eq, voidApply2Calls_run (idem_actUp FA FB ts)]
  simp [travItems]

/-- the cache of the traversal is transparent for the upward functor (no hypothesis on the tables) -/
theorem foreachUpP_eq_T (TA TB : Table) (FA FB : List Nat) (ks : List Nat) (Ss : List (List Nat)) (ts : List Tree)
    (st : InclUpBdd.St) :
    foreachUpP TA TB FA FB ks Ss ts st = foreachUpT TA TB FA FB ks Ss ts st := by
  unfold foreachUpP foreachUpT travUp travUpP
  rw [symItem_eq, voidApply2Calls_run (idem_actUp FA FB ts)]

/-! ## 7. `CheckUpwardTreeInclusion` on the tables = the abstract model on the dumped automata -/

/-- the traversal of the abstract model -/
def feAbs (A B : TA) : Foreach := fun ks Ss ts st => foreachUp A B ks Ss ts A.rules st

theorem procCombos_eq (A B : TA) (ks : List Nat) : ∀ (iss : List (List Item)) (st : InclUpBdd.St),
    procCombos A B ks iss st = procCombosG (feAbs A B) ks iss st
  | [], _ => rfl
  | is :: iss, st => by
    simp only [procCombos, procCombosG, feAbs]
    cases foreachUp A B ks (is.map (·.S)) (is.map (·.t)) A.rules st with
    | error e => rfl
    | ok st' => exact procCombos_eq A B ks iss st'

theorem procTuple_eq (A B : TA) : procTuple A B = procTupleG (feAbs A B) := by
  funext it ks st
  simp only [procTuple, procTupleG, procCombos_eq]

/-- the abstract model is the generic algorithm with the abstract traversal, over the tuples that have a rule -/
theorem run_eq_runG (A B : TA) (fuel : Nat) : InclUpBdd.run A B fuel = runG (feAbs A B) (tuplesOf A) fuel := by
  unfold InclUpBdd.run runWith runG
  rw [procTuple_eq]
  rfl

theorem procTuples_filter (proc : Item → List Nat → InclUpBdd.St → Res InclUpBdd.St) (it : Item) (keep : List Nat → Bool) :
    ∀ (T : List (List Nat)) (st : InclUpBdd.St), (∀ ks, ks ∈ T → keep ks = false → ∀ st, proc it ks st = .ok st) →
      procTuples proc it T st = procTuples proc it (T.filter keep) st
  | [], _, _ => rfl
  | ks :: T, st, h => by
    have ih := fun st => procTuples_filter proc it keep T st (fun k hk => h k (List.mem_cons_of_mem _ hk))
    cases hkeep : keep ks with
    | false =>
      rw [List.filter_cons_of_neg (by simp [hkeep])]
      simp only [procTuples, h ks List.mem_cons_self hkeep st]
      exact ih st
    | true =>
      rw [List.filter_cons_of_pos hkeep]
      simp only [procTuples]
      cases proc it ks st with
      | error e => rfl
      | ok st' => exact ih st'

theorem loop_congr (proc : Item → List Nat → InclUpBdd.St → Res InclUpBdd.St) {T T' : List (List Nat)}
    (h : ∀ it st, procTuples proc it T st = procTuples proc it T' st) :
    ∀ (fuel : Nat) (st : InclUpBdd.St), InclUpBdd.loop proc T fuel st = InclUpBdd.loop proc T' fuel st
  | 0, _ => rfl
  | fuel + 1, st => by
    simp only [InclUpBdd.loop]
    cases st.workset with
    | nil => rfl
    | cons it rest =>
      simp only [h]
      cases procTuples proc it T' ⟨st.antichain, rest⟩ with
      | error e => rfl
      | ok st' => exact loop_congr proc h fuel st'

/-- the step of `tuplesOf` -/
def tupStep (acc : List (List Nat)) (ρ : Rule) : List (List Nat) := if acc.contains ρ.kids then acc else acc ++ [ρ.kids]

theorem tupStep_same {k : List Nat} : ∀ (rs : List Rule) (acc : List (List Nat)), (∀ ρ, ρ ∈ rs → ρ.kids = k) → k ∈ acc →
    rs.foldl tupStep acc = acc
  | [], _, _, _ => rfl
  | ρ :: rs, acc, h, hk => by
    have : tupStep acc ρ = acc := by
      unfold tupStep; rw [h ρ List.mem_cons_self, if_pos (by simpa using hk)]
    rw [List.foldl_cons, this]
    exact tupStep_same rs acc (fun ρ' h' => h ρ' (List.mem_cons_of_mem _ h')) hk

theorem tupStep_new {k : List Nat} (rs : List Rule) (acc : List (List Nat)) (h : ∀ ρ, ρ ∈ rs → ρ.kids = k) (hk : k ∉ acc) :
    rs.foldl tupStep acc = if rs.isEmpty then acc else acc ++ [k] := by
  cases rs with
  | nil => rfl
  | cons ρ rs =>
    have : tupStep acc ρ = acc ++ [k] := by
      unfold tupStep; rw [h ρ List.mem_cons_self, if_neg (by simpa using hk)]
    rw [List.foldl_cons, this]
    simp only [List.isEmpty_cons, Bool.false_eq_true, if_false]
    exact tupStep_same rs _ (fun ρ' h' => h ρ' (List.mem_cons_of_mem _ h')) (by simp)

theorem tupStep_flatMap (G : List Nat → List Rule) (hG : ∀ k ρ, ρ ∈ G k → ρ.kids = k) :
    ∀ (keys : List (List Nat)) (acc : List (List Nat)), keys.Nodup → (∀ k, k ∈ keys → k ∉ acc) →
      (keys.flatMap G).foldl tupStep acc = acc ++ keys.filter (fun k => !(G k).isEmpty)
  | [], acc, _, _ => by simp
  | k :: keys, acc, hn, hd => by
    rw [List.nodup_cons] at hn
    rw [List.flatMap_cons, List.foldl_append, tupStep_new (G k) acc (hG k) (hd k List.mem_cons_self)]
    cases hG0 : (G k).isEmpty with
    | true =>
      simp only [if_true]
      rw [tupStep_flatMap G hG keys acc hn.2 (fun k' h' => hd k' (List.mem_cons_of_mem _ h'))]
      rw [List.filter_cons_of_neg (by simp [hG0])]
    | false =>
      simp only [Bool.false_eq_true, if_false]
      rw [tupStep_flatMap G hG keys _ hn.2 (fun k' h' => by
        simp only [List.mem_append, List.mem_singleton, not_or]
        exact ⟨hd k' (List.mem_cons_of_mem _ h'), fun e => hn.1 (e ▸ h')⟩)]
      rw [List.filter_cons_of_pos (by simp [hG0]), List.append_assoc]
      rfl

/-- the tuples of the dumped automaton: those tuples of the table that have a rule for one of the symbols -/
theorem tuplesOf_abs (syms : List Nat) (T : Table) (F : List Nat) (hk : T.keys.Nodup) :
    tuplesOf (absBU syms T F) = T.keys.filter (fun k => !(rulesAt syms T k).isEmpty) := by
  have := tupStep_flatMap (rulesAt syms T) (fun k ρ h => kids_rulesAt h) T.keys [] hk (fun _ _ h => by cases h)
  rw [List.nil_append] at this
  exact this

theorem procCombosG_noop {fe : Foreach} {ks : List Nat} (h : ∀ Ss ts st, fe ks Ss ts st = .ok st) :
    ∀ (iss : List (List Item)) (st : InclUpBdd.St), procCombosG fe ks iss st = .ok st
  | [], _ => rfl
  | is :: iss, st => by
    simp only [procCombosG, h]
    exact procCombosG_noop h iss st

/-- a tuple of the table without any rule is passed over -/
theorem procTupleG_noRules (syms : List Nat) (TA TB : Table) (FA FB : List Nat) {ks : List Nat}
    (h : (rulesAt syms TA ks).isEmpty = true) (it : Item) (st : InclUpBdd.St) :
    procTupleG (feAbs (absBU syms TA FA) (absBU syms TB FB)) it ks st = .ok st := by
  unfold procTupleG
  split
  · refine procCombosG_noop (fun Ss ts st => ?_) _ st
    refine foreachUp_skip _ _ ks Ss ts _ st (fun ρ hρ e => ?_)
    have hρ' : ρ ∈ absRules syms TA := hρ
    rw [absRules_eq] at hρ'
    obtain ⟨k, _, hk⟩ := List.mem_flatMap.mp hρ'
    have : k = ks := (kids_rulesAt hk).symm.trans e
    subst this
    rw [List.isEmpty_iff.mp h] at hk
    cases hk
  · rfl

/-- **refinement of the algorithm**: `CheckUpwardTreeInclusion` run on the transition tables through the symbolic traversals
(`runT`: united MTBDDs, `VoidApply2Functor` with its cache, one callback per symbol class, all tuples of the table of the
smaller automaton) IS the run of the abstract model `InclUpBdd.run` (which iterates over the rules, i.e. over symbols) on the
automata the tables denote over all `2 ^ n` symbols: the same antichain with the same ghost trees, the same counterexample,
the same fuel.  Hypotheses: the MTBDDs are ordered, reduced and over `n` symbol bits; a tuple is listed once in the table of
the smaller automaton -/
theorem runT_eq_run (n : Nat) (TA TB : Table) (FA FB : List Nat) (hA : TableWFn n TA) (hB : TableWFn n TB)
    (hk : TA.keys.Nodup) (fuel : Nat) :
    runT TA FA TB FB fuel =
      InclUpBdd.run (absBU (List.range (2 ^ n)) TA FA) (absBU (List.range (2 ^ n)) TB FB) fuel := by
  rw [run_eq_runG]
  have hfe : foreachUpT TA TB FA FB = feAbs (absBU (List.range (2 ^ n)) TA FA) (absBU (List.range (2 ^ n)) TB FB) := by
    funext ks Ss ts st
    exact foreachUpT_eq_abs n TA TB FA FB hA hB hk ks Ss ts st
  unfold runT runG
  rw [hfe, tuplesOf_abs _ _ _ hk]
  cases feAbs (absBU (List.range (2 ^ n)) TA FA) (absBU (List.range (2 ^ n)) TB FB) [] [] [] ⟨[], []⟩ with
  | error e => rfl
  | ok st =>
    simp only
    refine loop_congr _ (fun it st => procTuples_filter _ it _ _ st (fun ks _ hks st => ?_)) fuel st
    exact procTupleG_noRules _ TA TB FA FB (by simpa using hks) it st

/-- the verdict of the traversal-based algorithm is the verdict of the certifying abstract model on the dumped automata
(`none` on both sides exactly when the fuel is exhausted) -/
theorem inclUpTrav_eq (n : Nat) (TA TB : Table) (FA FB : List Nat) (hA : TableWFn n TA) (hB : TableWFn n TB)
    (hk : TA.keys.Nodup) (fuel : Nat) :
    inclUpTrav TA FA TB FB fuel =
      (inclUpBdd (absBU (List.range (2 ^ n)) TA FA) (absBU (List.range (2 ^ n)) TB FB) fuel).map (·.1) := by
  unfold inclUpTrav
  rw [runT_eq_run n TA TB FA FB hA hB hk]
  cases h : InclUpBdd.run (absBU (List.range (2 ^ n)) TA FA) (absBU (List.range (2 ^ n)) TB FB) fuel with
  | none => rw [inclUpBdd_eq_none.mpr h]; rfl
  | some r =>
    cases r with
    | ok P => rw [inclUpBdd_of_run_ok h]; rfl
    | error e => obtain ⟨q, w⟩ := e; rw [inclUpBdd_of_run_error h]; rfl

/-- every verdict of the traversal-based algorithm is exact for the automata the tables denote -/
theorem inclUpTrav_iff (n : Nat) (TA TB : Table) (FA FB : List Nat) (hA : TableWFn n TA) (hB : TableWFn n TB)
    (hk : TA.keys.Nodup) {fuel : Nat} {b : Bool} (h : inclUpTrav TA FA TB FB fuel = some b) :
    b = true ↔ Incl (absBU (List.range (2 ^ n)) TA FA) (absBU (List.range (2 ^ n)) TB FB) := by
  rw [inclUpTrav_eq n TA TB FA FB hA hB hk] at h
  cases h' : inclUpBdd (absBU (List.range (2 ^ n)) TA FA) (absBU (List.range (2 ^ n)) TB FB) fuel with
  | none => rw [h'] at h; cases h
  | some bc =>
    obtain ⟨b', c⟩ := bc
    rw [h'] at h
    cases h
    exact inclUpBdd_iff h'

/-! ### the hypotheses hold for loaded tables -/

theorem keys_set (T : Table) (ks : List Nat) (m : MT) (h : T.keys.Nodup) : (T.set ks m).keys.Nodup := by
  unfold Table.set
  split
  · exact h
  · rename_i hks
    simp only [Table.keys, List.nodup_cons, setE, List.map_cons, List.mem_cons, not_or] at h ⊢
    have hsub : ((T.entries.filter (fun e => e.1 != ks)).map (·.1)).Sublist (T.entries.map (·.1)) :=
      List.Sublist.map _ List.filter_sublist
    refine ⟨⟨fun e => hks e.symm, fun hm => h.1 (hsub.subset hm)⟩, ?_, hsub.nodup h.2⟩
    intro hm
    obtain ⟨e, he, hek⟩ := List.mem_map.mp hm
    have := (List.mem_filter.mp he).2
    simp [hek] at this

theorem keys_ofRules (rs : List Rule) : (ofRules rs).keys.Nodup := by
  unfold ofRules
  suffices h : ∀ (rs : List Rule) (T : Table), T.keys.Nodup →
      (rs.foldl (fun T r => addTransition T r.kids r.sym r.parent) T).keys.Nodup from
    h rs _ (by simp [Table.keys, Table.empty])
  intro rs
  induction rs with
  | nil => intro T h; exact h
  | cons r rs ih => intro T h; exact ih _ (keys_set _ _ _ h)

/-- the refinement for LOADED automata (`AddTransition` for every rule, 16-bit symbols): the verdict of the
traversal-based algorithm on the tables is exact for the automata that were loaded -/
theorem inclUpTrav_ofRules (A B : TA) (hA : ∀ r, r ∈ A.rules → r.sym < 2 ^ 16) (hB : ∀ r, r ∈ B.rules → r.sym < 2 ^ 16)
    {fuel : Nat} {b : Bool} (h : inclUpTrav (ofRules A.rules) A.final (ofRules B.rules) B.final fuel = some b) :
    b = true ↔ Incl A B := by
  rw [inclUpTrav_iff 16 _ _ _ _ (tableWF_ofRules _) (tableWF_ofRules _) (keys_ofRules _) h]
  have hs : ∀ f, f ∈ List.range (2 ^ 16) → f < 2 ^ 16 := fun f hf => List.mem_range.mp hf
  have eA := ofRules_lang A (List.range (2 ^ 16)) hA hs (fun r hr => List.mem_range.mpr (hA r hr))
  have eB := ofRules_lang B (List.range (2 ^ 16)) hB hs (fun r hr => List.mem_range.mpr (hB r hr))
  unfold Incl
  simp only [eA, eB]

/-! ## 8. what the callbacks receive: `foreachUp_spec`, `foreachDown_spec` -/

/-- **`foreachUp_spec`**: `ForeachUpSymbolFromTupleAndTupleSetDo(A, B, ks, tuples, ·)` calls `ApplyOperation` once for every
path of the combined diagram (= class of symbols); every valuation `ρ` of the symbol variables is in exactly one class, and
the call of that class hands over exactly what the per-symbol loop of the abstract model computes for `ρ`: the set
`{p | ρ(ks) → p in A}` and the set `{q | ρ(k) → q in B for a tuple k of the tuple set}`.  (No hypothesis on the tables.) -/
theorem foreachUp_spec (TA TB : Table) (ks : List Nat) (tuples : List (List Nat)) (ρ : Nat → Bool) :
    (travUpP TA TB ks tuples).countP (fun c => inPath ρ c.1) = 1 ∧
    ∀ c, c ∈ travUpP TA TB ks tuples → inPath ρ c.1 = true →
      c.2.1 = eval (TA.get ks) ρ ∧ (∀ p, p ∈ c.2.1 ↔ HasRule TA ρ ks p) ∧
      (∀ q, q ∈ c.2.2 ↔ ∃ k, k ∈ tuples ∧ HasRule TB ρ k q) := by
  refine ⟨voidApply2P_partition ρ _ _, fun c hc hp => ?_⟩
  obtain ⟨h1, h2⟩ := voidApply2P_sound ρ _ _ c hc hp
  refine ⟨h1, fun p => by rw [h1]; exact Iff.rfl, fun q => ?_⟩
  rw [h2, mem_eval_unionAll]

/-- on ordered reduced tables over `n` symbol bits no class is empty: it contains the symbol `reprSym π < 2 ^ n` (the
untested bits 0), so every call of the callback stands for at least one concrete symbol -/
theorem foreachUp_class_nonempty {n : Nat} {TA TB : Table} (hA : TableWFn n TA) (hB : TableWFn n TB) (ks : List Nat)
    (tuples : List (List Nat)) {c : Path × List Nat × List Nat} (hc : c ∈ travUpP TA TB ks tuples) :
    reprSym c.1 < 2 ^ n ∧ inPath (bits (reprSym c.1)) c.1 = true ∧ ∀ f, inPath (bits f) c.1 = true → reprSym c.1 ≤ f :=
  voidApply2P_nonempty (hA ks).1 (unionAll_wf hB tuples).1 (hA ks).2 (unionAll_wf hB tuples).2 hc

/-! ### the calls with the cache: a sub-list of the calls per path that delivers every pair of leaves -/

theorem mem_branchL_mono {x : Nat} {l₀ l₁ l₀' l₁' : List (Path × α × β)} (h0 : ∀ c, c ∈ l₀ → c ∈ l₀')
    (h1 : ∀ c, c ∈ l₁ → c ∈ l₁') : ∀ c, c ∈ branchL x l₀ l₁ → c ∈ branchL x l₀' l₁' := by
  intro c hc
  rcases mem_branchL.mp hc with ⟨c₀, hm, rfl⟩ | ⟨c₁, hm, rfl⟩
  · exact mem_branchL.mpr (Or.inl ⟨c₀, h0 c₀ hm, rfl⟩)
  · exact mem_branchL.mpr (Or.inr ⟨c₁, h1 c₁ hm, rfl⟩)

section cacheList
variable [DecidableEq α] [DecidableEq β]

/-- every call of the cached traversal is a call of the traversal per path (with its class) -/
theorem voidApply2C_sub (a : Node α) (b : Node β) : ∀ (ht : Cache α β) c, c ∈ (voidApply2C a b ht).1 → c ∈ voidApply2P a b := by
  induction a, b using voidApply2P.induct with
  | case1 v w =>
    intro ht c hc; rw [voidApply2C] at hc; rw [voidApply2P]
    split at hc
    · cases hc
    · exact hc
  | case2 x lo hi w ih1 ih2 =>
    intro ht c hc; rw [voidApply2C] at hc; rw [voidApply2P]
    split at hc
    · cases hc
    · exact mem_branchL_mono (ih1 _) (ih2 _) c hc
  | case3 v y lo hi ih1 ih2 =>
    intro ht c hc; rw [voidApply2C] at hc; rw [voidApply2P]
    split at hc
    · cases hc
    · exact mem_branchL_mono (ih1 _) (ih2 _) c hc
  | case4 alo ahi x blo bhi ih1 ih2 =>
    intro ht c hc; rw [voidApply2C] at hc; rw [voidApply2P]
    simp only [if_true] at hc ⊢
    split at hc
    · cases hc
    · exact mem_branchL_mono (ih1 _) (ih2 _) c hc
  | case5 x alo ahi y blo bhi hne hlt ih1 ih2 =>
    intro ht c hc; rw [voidApply2C] at hc; rw [voidApply2P]
    simp only [hne, hlt, if_false, if_true] at hc ⊢
    split at hc
    · cases hc
    · exact mem_branchL_mono (ih1 _) (ih2 _) c hc
  | case6 x alo ahi y blo bhi hne hlt ih1 ih2 =>
    intro ht c hc; rw [voidApply2C] at hc; rw [voidApply2P]
    simp only [hne, hlt, if_false] at hc ⊢
    split at hc
    · cases hc
    · exact mem_branchL_mono (ih1 _) (ih2 _) c hc

/-- the callback that logs the pairs of leaves it has not seen yet -/
def logAct (i : Nat × α × β) (s : List (α × β)) : Except Unit (List (α × β)) :=
  .ok (if s.contains i.2 then s else s ++ [i.2])

theorem idem_logAct : Idem (logAct (α := α) (β := β)) (fun i => i.2) (fun k s => k ∈ s) := by
  refine ⟨?_, ?_, ?_⟩
  · intro i s s' h
    simp only [logAct, Except.ok.injEq] at h
    subst h
    split
    · rename_i hc; simpa using hc
    · simp
  · intro i k s s' hd h
    simp only [logAct, Except.ok.injEq] at h
    subst h
    split
    · exact hd
    · exact List.mem_append_left _ hd
  · intro i s hd
    simp only [logAct]
    rw [if_pos (by simpa using hd)]

theorem logAct_mem : ∀ (l : List (Nat × α × β)) (s s' : List (α × β)), runL logAct l s = .ok s' →
    ∀ k, k ∈ s' → k ∈ s ∨ ∃ i, i ∈ l ∧ i.2 = k
  | [], s, s', h, k, hk => by simp only [runL, Except.ok.injEq] at h; exact Or.inl (h ▸ hk)
  | i :: l, s, s', h, k, hk => by
    simp only [runL, logAct] at h
    rcases logAct_mem l _ s' h k hk with h1 | ⟨j, hj, e⟩
    · split at h1
      · exact Or.inl h1
      · rcases List.mem_append.mp h1 with h2 | h2
        · exact Or.inl h2
        · exact Or.inr ⟨i, List.mem_cons_self, (List.mem_singleton.mp h2).symm⟩
    · exact Or.inr ⟨j, List.mem_cons_of_mem _ hj, e⟩

theorem runL_logAct_ok : ∀ (l : List (Nat × α × β)) (s : List (α × β)), ∃ s', runL logAct l s = .ok s'
  | [], s => ⟨s, rfl⟩
  | i :: l, s => by simp only [runL, logAct]; exact runL_logAct_ok l _

/-- every pair of leaves the traversal per path meets is delivered by a call of the cached traversal -/
theorem voidApply2Calls_cover (a : Node α) (b : Node β) {c : Path × α × β} (hc : c ∈ voidApply2P a b) :
    ∃ c', c' ∈ voidApply2Calls a b ∧ c'.2 = c.2 := by
  have e := voidApply2Calls_run idem_logAct a b (fun _ => 0) []
  obtain ⟨s', hs'⟩ := runL_logAct_ok ((voidApply2P a b).map (itemOf fun _ => 0)) []
  have hin : c.2 ∈ s' := runL_done idem_logAct hs' (itemOf (fun _ => 0) c) (List.mem_map_of_mem hc)
  rw [hs'] at e
  rcases logAct_mem _ _ _ e c.2 hin with h | ⟨i, hi, hk⟩
  · cases h
  · obtain ⟨c', hc', rfl⟩ := List.mem_map.mp hi
    exact ⟨c', hc', hk⟩

end cacheList

/-- the calls `ForeachUpSymbolFromTupleAndTupleSetDo` really makes (`VoidApply2Functor` with its cache): each is the call of a
class of `foreachUp_spec`, and the pair of leaves of every class is delivered -/
theorem travUp_calls (TA TB : Table) (ks : List Nat) (tuples : List (List Nat)) :
    (∀ c, c ∈ travUp TA TB ks tuples → c ∈ travUpP TA TB ks tuples) ∧
    (∀ c, c ∈ travUpP TA TB ks tuples → ∃ c', c' ∈ travUp TA TB ks tuples ∧ c'.2 = c.2) :=
  ⟨fun c hc => voidApply2C_sub _ _ [] c hc, fun _ hc => voidApply2Calls_cover _ _ hc⟩

/-! ### the downward traversal -/

theorem mem_eval_unionAllTD (T : TableTD) (ρ : Nat → Bool) (P : List Nat) (k : List Nat) :
    k ∈ eval (unionAllTD T P) ρ ↔ ∃ q, q ∈ P ∧ HasRuleTD T ρ q k := by
  unfold unionAllTD
  rw [eval_foldl_apply2 unionTS (getTD T), mem_foldl_u unionTS (fun _ _ _ => mem_unionTS)]
  simp [eval, HasRuleTD]

/-- **`foreachDown_spec`**: `ForeachDownSymbolFromStateAndStateSetDo(A, B, p, P, ·)` calls `ApplyOperation` once for every path of
the combined diagram (= class of valuations of the 16 symbol and 6 arity variables); every valuation `ρ` is in exactly one
class, and the call of that class hands over the set of the children tuples `{ks | ρ(ks) → p in A}` and the set
`{ks | ρ(ks) → q in B for a state q ∈ P}`.  (No hypothesis on the tables.) -/
theorem foreachDown_spec (TA TB : TableTD) (p : Nat) (P : List Nat) (ρ : Nat → Bool) :
    (travDownP TA TB p P).countP (fun c => inPath ρ c.1) = 1 ∧
    ∀ c, c ∈ travDownP TA TB p P → inPath ρ c.1 = true →
      c.2.1 = eval (getTD TA p) ρ ∧ (∀ ks, ks ∈ c.2.1 ↔ HasRuleTD TA ρ p ks) ∧
      (∀ ks, ks ∈ c.2.2 ↔ ∃ q, q ∈ P ∧ HasRuleTD TB ρ q ks) := by
  refine ⟨voidApply2P_partition ρ _ _, fun c hc hp => ?_⟩
  obtain ⟨h1, h2⟩ := voidApply2P_sound ρ _ _ c hc hp
  refine ⟨h1, fun ks => by rw [h1]; exact Iff.rfl, fun ks => ?_⟩
  rw [h2, mem_eval_unionAllTD]

theorem travDown_calls (TA TB : TableTD) (p : Nat) (P : List Nat) :
    (∀ c, c ∈ travDown TA TB p P → c ∈ travDownP TA TB p P) ∧
    (∀ c, c ∈ travDownP TA TB p P → ∃ c', c' ∈ travDown TA TB p P ∧ c'.2 = c.2) :=
  ⟨fun c hc => voidApply2C_sub _ _ [] c hc, fun _ hc => voidApply2Calls_cover _ _ hc⟩

/-- the cache is transparent for every callback whose repetition has no effect -/
theorem foreachDownT_eq {σ ε : Type} {act : List (List Nat) × List (List Nat) → σ → Except ε σ}
    {D : List (List Nat) × List (List Nat) → σ → Prop} (hI : Idem act (fun i => i) D) (TA TB : TableTD) (p : Nat)
    (P : List Nat) (s : σ) :
    foreachDownT TA TB p P act s = runL act ((travDownP TA TB p P).map (·.2)) s := by
  have hI' : Idem (fun (i : Nat × List (List Nat) × List (List Nat)) s => act i.2 s) (fun i => i.2) D :=
    ⟨fun h => hI.done h, fun hd h => hI.keep hd h, fun hd => hI.skip hd⟩
  have key : ∀ (l : List (Path × List (List Nat) × List (List Nat))) (s : σ),
      runL act (l.map (·.2)) s = runL (fun (i : Nat × List (List Nat) × List (List Nat)) s => act i.2 s)
        (l.map (itemOf fun _ => 0)) s := by
    intro l
    induction l with
    | nil => intro s; rfl
    | cons c l ih =>
      intro s
      simp only [List.map_cons, runL, itemOf]
      cases act c.2 s with
      | error e => rfl
      | ok s' => exact ih s'
  unfold foreachDownT travDown travDownP
  rw [key, key, voidApply2Calls_run hI']

/-- the link to the abstract downward model (`InclDown.body` iterates over the groups `(f, n)` of `lhsGroups` with the tuple
sets `lhsTuples`, `rhsTuples`), for LOADED top-down tables: the class of the symbol `f` with arity `n` delivers exactly the
`f`-tuples of length `n` of `p` and of the states of `P`; the left set is empty (the callback returns at once) exactly when
`(f, n)` is not a group of `p` -/
theorem foreachDown_ofRules (A B : TA) (hA : ∀ r, r ∈ A.rules → r.sym < 2 ^ 16 ∧ r.kids.length < 64)
    (hB : ∀ r, r ∈ B.rules → r.sym < 2 ^ 16 ∧ r.kids.length < 64) (p : Nat) (P : List Nat) {f n : Nat} (hf : f < 2 ^ 16)
    (hn : n < 64) {c : Path × List (List Nat) × List (List Nat)}
    (hc : c ∈ travDownP (ofRulesTD A.rules) (ofRulesTD B.rules) p P) (hp : inPath (bitsAr f n) c.1 = true) :
    (∀ ks, ks ∈ c.2.1 ↔ ks ∈ InclDown.lhsTuples A p f n) ∧ (∀ ks, ks ∈ c.2.2 ↔ ks ∈ InclDown.rhsTuples B P f n) ∧
    (c.2.1 ≠ [] ↔ (f, n) ∈ InclDown.lhsGroups A p) := by
  obtain ⟨_, h1, h2⟩ := (foreachDown_spec _ _ p P (bitsAr f n)).2 c hc hp
  have l1 : ∀ ks, ks ∈ c.2.1 ↔ ks ∈ InclDown.lhsTuples A p f n := by
    intro ks
    rw [h1, absTD_ofRules A.rules hA f hf n hn, InclDown.mem_lhsTuples]
    constructor
    · rintro ⟨hr, rfl⟩; exact ⟨_, hr, rfl, rfl, rfl, rfl⟩
    · rintro ⟨r, hr, rfl, rfl, rfl, rfl⟩; exact ⟨hr, rfl⟩
  refine ⟨l1, fun ks => ?_, ?_⟩
  · rw [h2, InclDown.mem_rhsTuples]
    constructor
    · rintro ⟨q, hq, hr⟩
      rw [absTD_ofRules B.rules hB f hf n hn] at hr
      exact ⟨_, InclDown.mem_rulesOf.mpr ⟨hr.1, hq, rfl, hr.2.symm⟩, rfl⟩
    · rintro ⟨r, hr, rfl⟩
      obtain ⟨g1, g2, rfl, rfl⟩ := InclDown.mem_rulesOf.mp hr
      exact ⟨r.parent, g2, (absTD_ofRules B.rules hB _ hf _ hn _ _).mpr ⟨g1, rfl⟩⟩
  · rw [InclDown.mem_lhsGroups]
    constructor
    · intro hne
      obtain ⟨ks, hks⟩ := List.exists_mem_of_ne_nil _ hne
      obtain ⟨r, hr, e1, e2, e3, _⟩ := InclDown.mem_lhsTuples.mp ((l1 ks).mp hks)
      exact ⟨r, hr, e1, e2, e3⟩
    · rintro ⟨r, hr, e1, e2, e3⟩ he
      have : r.kids ∈ c.2.1 := (l1 _).mpr (InclDown.mem_lhsTuples.mpr ⟨r, hr, e1, e2, e3, rfl⟩)
      rw [he] at this
      cases this

theorem tableWFn_of_entries {n : Nat} {T : Table} (h0 : WF T.nullary ∧ Below n T.nullary)
    (h : ∀ e, e ∈ T.entries → WF e.2 ∧ Below n e.2) : TableWFn n T := by
  intro ks
  unfold Table.get
  split
  · exact h0
  · suffices hh : ∀ es : List (List Nat × MT), (∀ e, e ∈ es → WF e.2 ∧ Below n e.2) →
        WF (getE es ks) ∧ Below n (getE es ks) from hh _ h
    intro es
    induction es with
    | nil => intro _; exact ⟨trivial, trivial⟩
    | cons e es ih =>
      intro he
      obtain ⟨k, m⟩ := e
      simp only [getE]
      split
      · exact he _ List.mem_cons_self
      · exact ih (fun e' h' => he e' (List.mem_cons_of_mem _ h'))

/-! ## 9. examples (non-vacuity of the hypotheses, the theorems on concrete tables) -/
namespace TravEx
open BddAbs.BddAbsEx

/-- two symbol bits.  `A`: the symbols 0, 1, 2 have the leaf rule `→ 1` (one class `{0, 1}` and the class `{2}`), the odd
symbols the rule `(1, 1) → 2` -/
def TA2 : Table :=
  ⟨.node 1 (.leaf [1]) (.node 0 (.leaf [1]) (.leaf [])), [([1, 1], .node 0 (.leaf []) (.leaf [2]))]⟩
/-- `B`: the even symbols have the leaf rule `→ 3`, the odd ones `→ 4`; `(3, 3) → 9`, `(3, 4) → 9`, `(4, 3) → 9` for all symbols,
`(4, 4) → 9` for the odd symbols, `(4, 3) → 8` for the symbols 2 and 3 -/
def TB2 : Table :=
  ⟨.node 0 (.leaf [3]) (.leaf [4]), [([3, 3], .leaf [9]), ([4, 4], .node 0 (.leaf []) (.leaf [9])), ([3, 4], .leaf [9]),
    ([4, 3], .node 1 (.leaf [9]) (.leaf [8, 9]))]⟩

theorem TA2_wf : TableWFn 2 TA2 := tableWFn_of_entries (by simp [TA2, WF, Below]) (by simp [TA2, WF, Below])
theorem TB2_wf : TableWFn 2 TB2 := tableWFn_of_entries (by simp [TB2, WF, Below]) (by simp [TB2, WF, Below])
theorem TA2_keys : TA2.keys.Nodup := by decide

mutual
def treeCode : Tree → List Nat
  | .node f ts => f :: treeCodeL ts ++ [1000]
def treeCodeL : List Tree → List Nat
  | [] => []
  | t :: ts => treeCode t ++ treeCodeL ts
end

/-- a printable form of a run: the antichain with the trees, or the counterexample -/
def showRun : Option (Res (List Item)) → Option (Bool × List (Nat × List Nat × List Nat))
  | none => none
  | some (.error e) => some (false, [(e.1, [], treeCode e.2)])
  | some (.ok P) => some (true, P.map (fun i => (i.q, i.S, treeCode i.t)))

-- the calls for the empty tuple: three classes (`{0, 1}`, `{2}`, `{3}` would be four paths: the class of bit 1 = 0 splits on bit 0
-- because `B` does)
#guard (travUpP TA2 TB2 [] [[]]).map symItem == [(0, [1], [3]), (1, [1], [4]), (2, [1], [3]), (3, [], [4])]
-- … the cache drops the second visit of the pair of leaves `([1], [3])`
#guard (travUp TA2 TB2 [] [[]]).map symItem == [(0, [1], [3]), (1, [1], [4]), (3, [], [4])]
-- the per-symbol loop of the abstract model on the dump meets the same pairs
#guard (List.range 4).map (fun f => (eval (TA2.get []) (bits f), macroPost (absBU (List.range 4) TB2 [9]) f [])) ==
  [([1], [3]), ([1], [4]), ([1], [3]), ([], [4])]
-- the tuple `(1, 1)` against `{3, 4} × {3, 4}`: the united MTBDD of `(3,3)`, `(3,4)`, `(4,3)`, `(4,4)`
#guard (travUp TA2 TB2 [1, 1] (prodTuples [[3, 4], [3, 4]])).map symItem ==
  [(0, [], [9]), (1, [2], [9]), (2, [], [8, 9]), (3, [2], [8, 9])]
#guard prodTuples [[3, 4], [3, 4]] == [[3, 3], [3, 4], [4, 3], [4, 4]]
#guard prodTuples [[3, 4], []] == [] && prodTuples [] == [[]]

-- `runT_eq_run` on the example, evaluated on both sides (the run, with the ghost trees)
#guard showRun (runT TA2 [2] TB2 [9] 10) ==
  showRun (InclUpBdd.run (absBU (List.range 4) TA2 [2]) (absBU (List.range 4) TB2 [9]) 10)
#guard showRun (runT TB2 [9] TA2 [2] 10) ==
  showRun (InclUpBdd.run (absBU (List.range 4) TB2 [9]) (absBU (List.range 4) TA2 [2]) 10)
#guard showRun (runT TA2 [2] TB2 [9] 10) ==
  some (true, [(1, [3], [0, 1000]), (1, [4], [1, 1000]), (2, [9], [1, 0, 1000, 0, 1000, 1000])])
#guard inclUpTrav TA2 [2] TB2 [9] 10 == some true && inclUpTrav TB2 [9] TA2 [2] 10 == some false

example : runT TA2 [2] TB2 [9] 10 =
    InclUpBdd.run (absBU (List.range (2 ^ 2)) TA2 [2]) (absBU (List.range (2 ^ 2)) TB2 [9]) 10 :=
  runT_eq_run 2 TA2 TB2 [2] [9] TA2_wf TB2_wf TA2_keys 10

example (ks : List Nat) (tuples : List (List Nat)) (c : Path × List Nat × List Nat) (hc : c ∈ travUpP TA2 TB2 ks tuples) :
    reprSym c.1 < 2 ^ 2 ∧ inPath (bits (reprSym c.1)) c.1 = true :=
  ⟨(foreachUp_class_nonempty TA2_wf TB2_wf ks tuples hc).1, (foreachUp_class_nonempty TA2_wf TB2_wf ks tuples hc).2.1⟩

-- loaded tables (16 symbol bits): the automata of defect D9 and the converse inclusion
#guard inclUpTrav (ofRules rsA) [2] (ofRules rsB) [9] 10 == some false
#guard inclUpTrav (ofRules rsB) [9] (ofRules rsA) [2] 10 == some true
#guard (travUp (ofRules rsA) (ofRules rsB) [1, 1] (prodTuples [[3, 4], [3, 4]])).map symItem == [(0, [], []), (2, [2], [9])]
-- 17 paths, 2 calls
#guard (travUpP (ofRules rsA) (ofRules rsB) [1, 1] (prodTuples [[3, 4], [3, 4]])).length == 17

example : TableWFn 16 (ofRules rsA) ∧ TableWFn 16 (ofRules rsB) ∧ (ofRules rsA).keys.Nodup :=
  ⟨tableWF_ofRules _, tableWF_ofRules _, keys_ofRules _⟩

example (b : Bool) (h : inclUpTrav (ofRules rsA) [2] (ofRules rsB) [9] 10 = some b) :
    b = true ↔ Incl ⟨rsA, [2]⟩ ⟨rsB, [9]⟩ :=
  inclUpTrav_ofRules ⟨rsA, [2]⟩ ⟨rsB, [9]⟩ (by decide) (by decide) h

-- the downward traversal on loaded top-down tables: state 9 of `B` against `{2}` of `A` … the class of `g/2`
#guard (travDown (ofRulesTD rsB) (ofRulesTD rsA) 9 [2]).map (·.2) == [([], []), ([[3, 3], [4, 4]], [[1, 1]])]
#guard (travDown (ofRulesTD rsA) (ofRulesTD rsB) 1 [3, 4]).map (·.2) == [([[]], [[]]), ([], [])]
#guard InclDown.lhsTuples ⟨rsB, [9]⟩ 9 2 2 == [[3, 3], [4, 4]] && InclDown.rhsTuples ⟨rsA, [2]⟩ [2] 2 2 == [[1, 1]]

example : (∀ r, r ∈ rsA → r.sym < 2 ^ 16 ∧ r.kids.length < 64) ∧ (∀ r, r ∈ rsB → r.sym < 2 ^ 16 ∧ r.kids.length < 64) :=
  ⟨by decide, by decide⟩

end TravEx

end BddTraverse
end Vata
