import Vata.Proofs.Rename
import Vata.Proofs.IsectModel
import Vata.Proofs.TrimModel
import Vata.Proofs.SimModel
import Vata.NfaEmbed
/-!
# Small helper lemmas used only by the property files `Vata/Properties/Cxx.lean`
-/
namespace Vata
namespace PropAux

/-- the states of the plain union are the states of the operands -/
theorem mem_states_unionDisjoint {A B : TA} {q : Nat} :
    q ∈ (unionDisjoint A B).states ↔ q ∈ A.states ∨ q ∈ B.states := by
  simp only [Rn.mem_states, unionDisjoint, List.mem_append]
  constructor
  · rintro (⟨r, hr | hr, hc⟩ | hf | hf)
    · exact Or.inl (Or.inl ⟨r, hr, hc⟩)
    · exact Or.inr (Or.inl ⟨r, hr, hc⟩)
    · exact Or.inl (Or.inr hf)
    · exact Or.inr (Or.inr hf)
  · rintro ((⟨r, hr, hc⟩ | hf) | (⟨r, hr, hc⟩ | hf))
    · exact Or.inl ⟨r, Or.inl hr, hc⟩
    · exact Or.inr (Or.inl hf)
    · exact Or.inl ⟨r, Or.inr hr, hc⟩
    · exact Or.inr (Or.inr hf)

/-- every state of the model of `Union` is named by one of the two translation maps -/
theorem mem_states_unionWith {fA fB : Nat → Nat} {A B : TA} {q : Nat} :
    q ∈ (unionWith fA fB A B).states ↔ (∃ p, p ∈ A.states ∧ q = fA p) ∨ (∃ p, p ∈ B.states ∧ q = fB p) := by
  rw [unionWith_eq, mem_states_unionDisjoint, mem_states_reindex, mem_states_reindex]

/-- every state of the product on a closed domain that contains the pairs of final states is the number of a pair of
the domain -/
theorem mem_states_prodOn {A B : TA} {D : List (Nat × Nat)} {m : Nat × Nat → Nat} (hc : Closed A B D)
    (hF : ∀ p, p ∈ A.final → ∀ p', p' ∈ B.final → (p, p') ∈ D) {P : TA}
    (hr : ∀ ρ, ρ ∈ P.rules ↔ ρ ∈ (prodOn A B D m).rules) (hf : ∀ x, x ∈ P.final ↔ x ∈ (prodOn A B D m).final)
    {q : Nat} (hq : q ∈ P.states) : ∃ p, p ∈ D ∧ q = m p := by
  rcases Rn.mem_states.mp hq with ⟨ρ, hρ, hcase⟩ | hfin
  · obtain ⟨r, hr1, r', hr2, hs, hl, hd, he⟩ := mem_prodRules.mp ((hr ρ).mp hρ)
    rw [he] at hcase
    rcases hcase with hcase | hcase
    · exact ⟨_, hd, hcase⟩
    · obtain ⟨pr, hpr, hpr'⟩ := List.mem_map.mp hcase
      exact ⟨pr, hc r hr1 r' hr2 hs hl hd pr hpr, hpr'.symm⟩
  · obtain ⟨pr, hpr, he⟩ := List.mem_map.mp (Isx.mem_prodFinal.mp ((hf q).mp hfin))
    obtain ⟨h1, h2⟩ := Isx.mem_finalPairs.mp hpr
    exact ⟨pr, hF pr.1 h1 pr.2 h2, he.symm⟩

/-- every state of the result of the model of `Intersection` is the number the reported map gives to a pair of its
domain -/
theorem isectTD_states {A B : TA} {fuel : Nat} {P : TA} {m : PMap} (h : isectTD A B fuel = some (P, m)) {q : Nat}
    (hq : q ∈ P.states) : ∃ p, p ∈ m.dom ∧ q = lookupF m p := by
  obtain ⟨_, hcl, hF, hr, hf⟩ := Isx.isectTD_spec h
  exact mem_states_prodOn hcl hF hr hf hq

/-- `IsLangEmpty` is "no final state survives `RemoveUselessStates`": in the model this is the reference test -/
theorem removeUseless_final_nil (A : TA) : ((removeUseless A).final = []) ↔ isEmptyRef A = true := by
  have h : (removeUseless A).final = A.final.filter (fun q => (prodStates A).contains q) := rfl
  rw [h, List.filter_eq_nil_iff]
  simp only [isEmptyRef, Bool.not_eq_true', List.any_eq_false]

/-! ### sizes (C05) -/

theorem nodup_ins (x : Nat) {l : List Nat} (h : l.Nodup) : (ins x l).Nodup := by
  unfold ins
  split
  · exact h
  · rename_i hc
    rw [List.nodup_append]
    refine ⟨h, by simp, ?_⟩
    intro a ha b hb hab
    rw [List.mem_singleton] at hb
    rw [hab, hb] at ha
    exact hc (List.contains_iff_mem.mpr ha)

theorem nodup_unionL : ∀ (l₂ l₁ : List Nat), l₁.Nodup → (unionL l₁ l₂).Nodup
  | [], _, h => h
  | x :: l₂, l₁, h => by rw [Rn.unionL_cons]; exact nodup_unionL l₂ _ (nodup_ins x h)

/-- `A.states` lists every state once, so its length is the number of states -/
theorem nodup_states (A : TA) : A.states.Nodup := nodup_unionL _ [] List.nodup_nil

/-- removing unreachable states introduces no state -/
theorem states_removeUnreachable_sub {A : TA} {q : Nat} (h : q ∈ (removeUnreachable A).states) : q ∈ A.states := by
  rcases Rn.mem_states.mp h with ⟨r, hr, hc⟩ | hf
  · exact Rn.mem_states.mpr (Or.inl ⟨r, (List.mem_filter.mp hr).1, hc⟩)
  · exact Rn.mem_states.mpr (Or.inr hf)

/-- every state of the model of `Reduce` is the image of a state of the input -/
theorem states_reduce {h : Nat → Nat} {A : TA} {q' : Nat} (hq : q' ∈ (removeUnreachable (reindex h A)).states) :
    ∃ q, q ∈ A.states ∧ q' = h q := mem_states_reindex.mp (states_removeUnreachable_sub hq)

theorem states_reduce_length (h : Nat → Nat) (A : TA) :
    (removeUnreachable (reindex h A)).states.length ≤ A.states.length := by
  have hsub : (removeUnreachable (reindex h A)).states ⊆ A.states.map h := by
    intro q' hq'
    obtain ⟨q, hq, he⟩ := states_reduce hq'
    exact List.mem_map.mpr ⟨q, hq, he.symm⟩
  have := (nodup_states _).length_le_of_subset hsub
  rwa [List.length_map] at this

theorem rules_reduce_length (h : Nat → Nat) (A : TA) :
    (removeUnreachable (reindex h A)).rules.length ≤ A.rules.length := by
  have : (removeUnreachable (reindex h A)).rules.length ≤ (reindex h A).rules.length := List.length_filter_le _ _
  rwa [reindex_rules_length] at this

end PropAux

/-! ### invariance under renaming and the laws of language inclusion (C19; moved here from `Vata/Properties/C19.lean`,
the names are unchanged) -/

theorem incl_refl (A : TA) : Incl A A := fun _ h => h

theorem incl_trans {A B C : TA} (h₁ : Incl A B) (h₂ : Incl B C) : Incl A C := fun t h => h₂ t (h₁ t h)

theorem langEq_incl {A B : TA} (h : LangEq A B) : Incl A B ∧ Incl B A :=
  ⟨fun t ha => by rw [← h t]; exact ha, fun t hb => by rw [h t]; exact hb⟩

/-- renaming both operands by injective maps does not change the inclusion verdict -/
theorem incl_equivariant (f g : Nat → Nat) (A B : TA) (hf : InjOnStates f A) (hg : InjOnStates g B) :
    Incl (reindex f A) (reindex g B) ↔ Incl A B := by
  constructor
  · intro h t ha
    have := h t (by rw [reindex_inj_lang f A hf t]; exact ha)
    rw [reindex_inj_lang g B hg t] at this; exact this
  · intro h t ha
    rw [reindex_inj_lang f A hf t] at ha
    rw [reindex_inj_lang g B hg t]; exact h t ha

/-- … nor the emptiness verdict -/
theorem empty_equivariant (f : Nat → Nat) (A : TA) (hf : InjOnStates f A) :
    LangEmpty (reindex f A) ↔ LangEmpty A := by
  constructor
  · intro h t; rw [← reindex_inj_lang f A hf t]; exact h t
  · intro h t; rw [reindex_inj_lang f A hf t]; exact h t

/-- insertion order and duplicates do not matter: automata with the same rule and final *sets* have the same language -/
theorem lang_perm_invariant (A B : TA) (hr : ∀ r, r ∈ A.rules ↔ r ∈ B.rules) (hf : ∀ q, q ∈ A.final ↔ q ∈ B.final)
    (t : Tree) : accepts A t = accepts B t := by
  rw [Bool.eq_iff_iff]
  simp only [accepts, accepting, List.any_eq_true, List.contains_iff_mem]
  constructor
  · rintro ⟨q, hq, hfq⟩
    exact ⟨q, reach_mono A B (fun r h => (hr r).1 h) t q hq, (hf q).1 hfq⟩
  · rintro ⟨q, hq, hfq⟩
    exact ⟨q, reach_mono B A (fun r h => (hr r).2 h) t q hq, (hf q).2 hfq⟩

theorem incl_union_left (A B : TA) (hdis : ∀ q, q ∈ A.states → q ∉ B.states) : Incl A (unionDisjoint A B) := by
  intro t h; rw [unionDisjoint_lang A B hdis t, h]; rfl

theorem incl_union_right (A B : TA) (hdis : ∀ q, q ∈ A.states → q ∉ B.states) : Incl B (unionDisjoint A B) := by
  intro t h; rw [unionDisjoint_lang A B hdis t, h]; simp

theorem union_least (A B C : TA) (hdis : ∀ q, q ∈ A.states → q ∉ B.states) (ha : Incl A C) (hb : Incl B C) :
    Incl (unionDisjoint A B) C := by
  intro t h
  rw [unionDisjoint_lang A B hdis t, Bool.or_eq_true] at h
  rcases h with h | h
  · exact ha t h
  · exact hb t h

theorem isect_incl_left (A B : TA) : Incl (isectFull A B) A := by
  intro t h; rw [isectFull_lang, Bool.and_eq_true] at h; exact h.1

theorem isect_incl_right (A B : TA) : Incl (isectFull A B) B := by
  intro t h; rw [isectFull_lang, Bool.and_eq_true] at h; exact h.2

theorem isect_greatest (A B C : TA) (ha : Incl C A) (hb : Incl C B) : Incl C (isectFull A B) := by
  intro t h; rw [isectFull_lang, ha t h, hb t h]; rfl

/-- `A ⊆ A ∩ B` exactly when `A ⊆ B` (law instance 7 of the check) -/
theorem incl_isect_iff (A B : TA) : Incl A (isectFull A B) ↔ Incl A B :=
  ⟨fun h => incl_trans h (isect_incl_right A B), fun h => isect_greatest A B A (incl_refl A) h⟩

/-- `A ∪ B ⊆ B` exactly when `A ⊆ B` (law instance 8 of the check) -/
theorem union_incl_iff (A B : TA) (hdis : ∀ q, q ∈ A.states → q ∉ B.states) :
    Incl (unionDisjoint A B) B ↔ Incl A B :=
  ⟨fun h => incl_trans (incl_union_left A B hdis) h, fun h => union_least A B B hdis h (incl_refl B)⟩

theorem equiv_trim (A : TA) : LangEq (removeUseless A) A := fun t => removeUseless_lang A t
theorem equiv_unreach (A : TA) : LangEq (removeUnreachable A) A := fun t => removeUnreachable_lang A t
theorem equiv_reindex (f : Nat → Nat) (A : TA) (hf : InjOnStates f A) : LangEq (reindex f A) A :=
  fun t => reindex_inj_lang f A hf t

/-- trimming commutes with injective renaming up to the renaming, hence the sizes agree -/
theorem rules_length_equivariant (f : Nat → Nat) (A : TA) : (reindex f A).rules.length = A.rules.length :=
  reindex_rules_length f A

end Vata

/-! ### finite automata (C09): the soundness half of `W.inclRef_iff` (`Vata/Nfa.lean`) isolated as a certificate
principle – it is stated there only for the set of pairs computed by `W.sat`, but the argument (`W.cov`) works for every
closed set of pairs -/
namespace Vata.PropAux
open Vata Vata.W

/-- a set `P` of pairs (macro-state of `A`, macro-state of `B`) that contains the pair of the start sets (up to set
equality), is closed under the simultaneous step on every symbol of `A` (`closedB`, up to set equality) and contains no
bad pair (accepting in `A`, not accepting in `B`) proves `L(A) ⊆ L(B)` -/
theorem nfa_closed_pairs_incl (A B : NFA) (P : List W.Pair) (hI : W.HasInit A B P) (hc : W.closedB A B P = true)
    (hb : ∀ p, p ∈ P → W.bad A B p = false) : InclW A B := by
  intro w hA
  have hne : run A w ≠ [] := by intro e; simp [acceptsW, W.accepting, e] at hA
  obtain ⟨p, hp, he⟩ := W.cov A B P hI hc w hne
  have h1 : W.accepting A p.1 = true := by rw [W.accepting_congr A he.1]; exact hA
  have h2 := hb p hp
  simp only [W.bad, h1, Bool.true_and, Bool.not_eq_false'] at h2
  rw [W.accepting_congr B he.2] at h2
  exact h2

end Vata.PropAux
