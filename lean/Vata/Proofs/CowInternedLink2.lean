import Vata.CowInterned2
import Vata.Proofs.CowInternedStep
import Vata.Proofs.CowInternedLink2a
import Vata.Proofs.CowInternedLink3
/-!
# Named automata over one tuple cache, part 2 – one call of `stepC2`, histories

`stepC2_lib` : a call of the library (the calls of `Vata/CowInterned.lean`, move construction / assignment, the three
storage-sharing results, `ContainsTransition`) keeps `Inv'` and acts on the automaton values (`absV`) like the value-level
specification `CowHeapX.specStepX`; `runFrom2_lib` : histories; `stepC2_isSome` : a call fails only on an impossible allocator
choice.
-/
namespace Vata.CowI
open Vata.Store (upsert insN insTuple TupleSet addToMap addToCluster)
open Vata.CowHeap (upd upd_same upd_other)
open Vata.CowHeap3 (Heap valM valC mout cout hmap_mem)
open Vata.CowHeapX (HeapX stepX absX specStepX specInitX InvX ValX HOpX absX_of_mem absX_of_not_mem)
open Vata.StoreI (CacheSt lookupC acquireC releaseC derefC CInv)

/-! ### the heap component of a call is the call of `CowHeapX.stepX` -/

theorem move_eq (s : Sys) {src dst : Nat} (hg : src ∈ s.hx.core.hl ∧ dst ∉ s.hx.core.hl) :
    withCore s (moveI (s.hx.core, s.cache) src dst) (upd s.hx.fin dst (s.hx.fin src)) =
    ⟨stepX s.hx (.move src dst), (moveI (s.hx.core, s.cache) src dst).2, s.ext⟩ := by
  simp only [withCore, stepX]
  rw [if_pos hg]
  rfl

theorem moveAssign_eq (s : Sys) {src dst : Nat} (hg : src ∈ s.hx.core.hl ∧ dst ∈ s.hx.core.hl ∧ src ≠ dst) :
    withCore s (moveAssignI (s.hx.core, s.cache) src dst) (upd s.hx.fin dst (s.hx.fin src)) =
    ⟨stepX s.hx (.moveAssign src dst), (moveAssignI (s.hx.core, s.cache) src dst).2, s.ext⟩ := by
  simp only [withCore, stepX]
  rw [if_pos hg, moveAssignI_fst]

theorem shareAll_eq (s : Sys) {src dst : Nat} (keepF : Nat → Bool) (hg : src ∈ s.hx.core.hl ∧ dst ∉ s.hx.core.hl) :
    withCore s (shareAllI (s.hx.core, s.cache) src dst) (upd s.hx.fin dst ((s.hx.fin src).filter keepF)) =
    ⟨stepX s.hx (.shareAll src dst keepF), (shareAllI (s.hx.core, s.cache) src dst).2, s.ext⟩ := by
  simp only [withCore, stepX]
  rw [if_pos hg, shareAllI_fst]

theorem shareClusters_eq (s : Sys) {src dst : Nat} (keep : Nat → Bool)
    (hg : src ∈ s.hx.core.hl ∧ dst ∉ s.hx.core.hl) :
    withCore s (shareClustersI (s.hx.core, s.cache) src dst keep) (upd s.hx.fin dst (s.hx.fin src)) =
    ⟨stepX s.hx (.shareClusters src dst keep), (shareClustersI (s.hx.core, s.cache) src dst keep).2, s.ext⟩ := by
  simp only [withCore, stepX]
  rw [if_pos hg, shareClustersI_fst]

theorem unionDisj_eq (s : Sys) {a b dst : Nat} (hg : a ∈ s.hx.core.hl ∧ b ∈ s.hx.core.hl ∧ dst ∉ s.hx.core.hl) :
    withCore s (unionDisjI (s.hx.core, s.cache) a b dst)
      (upd s.hx.fin dst ((s.hx.fin b).foldl (fun acc q => insN q acc) (s.hx.fin a))) =
    ⟨stepX s.hx (.unionDisj a b dst), (unionDisjI (s.hx.core, s.cache) a b dst).2, s.ext⟩ := by
  simp only [withCore, stepX]
  rw [if_pos hg, unionDisjI_fst]

/-! ### one call -/

/-- a call that acts on the heap as `stepX … op'` (a call that does not look at tuples) and on the cache by release steps -/
theorem step2_core {s : Sys} (h : Inv' s) {op' : HOpX} (hop : simpleOp2 op') {c' : CacheSt}
    (hci : CI ((stepX s.hx op').core, c') s.ext) (hsub : Sub c' s.cache) :
    Inv' ⟨stepX s.hx op', c', s.ext⟩ ∧ absV ⟨stepX s.hx op', c', s.ext⟩ = specStepX (absV s) op' := by
  have hc : CInv s.cache (refsT s.hx.core ++ s.ext) := h.cache
  obtain ⟨f1, f2⟩ := frame2 h.heap h.cells hc (simpleOp2_cellOp2 hop) hci hsub
  refine ⟨f1, ?_⟩
  rw [absV_eq s, ← specStepX_map_simple2 s.cache (absX s.hx) hop]
  exact f2

/-- a call whose guard fails is invisible at the value level too -/
theorem noop2 {s : Sys} (h : Inv' s) {op' : HOpX} (hop : simpleOp2 op') (e : stepX s.hx op' = s.hx) :
    specStepX (absV s) op' = absV s := by
  have hci : CI ((stepX s.hx op').core, s.cache) s.ext := by rw [e]; exact h.cache
  have := (step2_core h hop hci (Sub.refl _)).2
  rw [e] at this
  exact this.symm

theorem stepC2_lib {s s' : Sys} {op : Op2} (h : Inv' s) (hs : stepC2 .lib s op = some s') :
    Inv' s' ∧ absV s' = specV (absV s) (valOp2 s op) := by
  have hc : CI (s.hx.core, s.cache) s.ext := h.cache
  have hI : CowHeap3.Inv s.hx.core := h.heap
  cases op with
  | base op =>
    simp only [stepC2] at hs
    exact stepC_lib h hs
  | move src dst =>
    simp only [stepC2] at hs
    simp only [valOp2, specV]
    by_cases hg : src ∈ s.hx.core.hl ∧ dst ∉ s.hx.core.hl
    · rw [if_pos hg, Option.some.injEq] at hs
      subst hs
      rw [move_eq s hg]
      obtain ⟨a1, a2⟩ := moveI_ok (S := (s.hx.core, s.cache)) (E := s.ext) hI hg.1 hg.2 hc
      refine step2_core h (op' := .move src dst) trivial ?_ a2
      simp only [stepX]
      rw [if_pos hg]
      exact a1
    · rw [if_neg hg, Option.some.injEq] at hs
      subst hs
      refine ⟨h, (noop2 h (op' := .move src dst) trivial ?_).symm⟩
      simp only [stepX]
      rw [if_neg hg]
  | moveAssign src dst =>
    simp only [stepC2] at hs
    simp only [valOp2, specV]
    by_cases hg : src ∈ s.hx.core.hl ∧ dst ∈ s.hx.core.hl ∧ src ≠ dst
    · rw [if_pos hg, Option.some.injEq] at hs
      subst hs
      rw [moveAssign_eq s hg]
      obtain ⟨a1, a2⟩ := moveAssignI_ok (S := (s.hx.core, s.cache)) (E := s.ext) hI hg.1 hg.2.1 hg.2.2 hc
      refine step2_core h (op' := .moveAssign src dst) trivial ?_ a2
      simp only [stepX]
      rw [if_pos hg, ← moveAssignI_fst (s.hx.core, s.cache) src dst]
      exact a1
    · rw [if_neg hg, Option.some.injEq] at hs
      subst hs
      refine ⟨h, (noop2 h (op' := .moveAssign src dst) trivial ?_).symm⟩
      simp only [stepX]
      rw [if_neg hg]
  | shareAll src dst keepF =>
    simp only [stepC2] at hs
    simp only [valOp2, specV]
    by_cases hg : src ∈ s.hx.core.hl ∧ dst ∉ s.hx.core.hl
    · rw [if_pos hg, Option.some.injEq] at hs
      subst hs
      rw [shareAll_eq s keepF hg]
      obtain ⟨a1, a2⟩ := shareAllI_ok (S := (s.hx.core, s.cache)) (E := s.ext) hI hg.1 hg.2 hc
      refine step2_core h (op' := .shareAll src dst keepF) trivial ?_ a2
      simp only [stepX]
      rw [if_pos hg, ← shareAllI_fst (s.hx.core, s.cache) src dst]
      exact a1
    · rw [if_neg hg, Option.some.injEq] at hs
      subst hs
      refine ⟨h, (noop2 h (op' := .shareAll src dst keepF) trivial ?_).symm⟩
      simp only [stepX]
      rw [if_neg hg]
  | shareClusters src dst keep =>
    simp only [stepC2] at hs
    simp only [valOp2, specV]
    by_cases hg : src ∈ s.hx.core.hl ∧ dst ∉ s.hx.core.hl
    · rw [if_pos hg, Option.some.injEq] at hs
      subst hs
      rw [shareClusters_eq s keep hg]
      obtain ⟨a1, a2⟩ := shareClustersI_ok (S := (s.hx.core, s.cache)) (E := s.ext) hI hg.1 hg.2 keep hc
      refine step2_core h (op' := .shareClusters src dst keep) trivial ?_ a2
      simp only [stepX]
      rw [if_pos hg, ← shareClustersI_fst (s.hx.core, s.cache) src dst keep]
      exact a1
    · rw [if_neg hg, Option.some.injEq] at hs
      subst hs
      refine ⟨h, (noop2 h (op' := .shareClusters src dst keep) trivial ?_).symm⟩
      simp only [stepX]
      rw [if_neg hg]
  | unionDisj a b dst =>
    simp only [stepC2] at hs
    simp only [valOp2, specV]
    by_cases hg : a ∈ s.hx.core.hl ∧ b ∈ s.hx.core.hl ∧ dst ∉ s.hx.core.hl
    · rw [if_pos hg, Option.some.injEq] at hs
      subst hs
      rw [unionDisj_eq s hg]
      obtain ⟨a1, a2⟩ := unionDisjI_ok (S := (s.hx.core, s.cache)) (E := s.ext) hI hg.1 hg.2.1 hg.2.2 hc
      refine step2_core h (op' := .unionDisj a b dst) trivial ?_ a2
      simp only [stepX]
      rw [if_pos hg, ← unionDisjI_fst (s.hx.core, s.cache) a b dst]
      exact a1
    · rw [if_neg hg, Option.some.injEq] at hs
      subst hs
      refine ⟨h, (noop2 h (op' := .unionDisj a b dst) trivial ?_).symm⟩
      simp only [stepX]
      rw [if_neg hg]
  | query hd r ch =>
    simp only [stepC2] at hs
    simp only [valOp2, specV]
    cases hq : containsMI s hd r ch with
    | none => simp [hq] at hs
    | some x =>
      obtain ⟨s₁, b⟩ := x
      simp only [hq, Option.map_some, Option.some.injEq] at hs
      subst hs
      obtain ⟨i1, i2, _⟩ := containsMI_lib h hq
      exact ⟨i1, i2⟩

/-! ### histories -/

theorem runFrom2_lib {s s' : Sys} {ops : List Op2} (h : Inv' s) (hs : runFrom2 .lib s ops = some s') :
    Inv' s' ∧ absV s' = (valOps2 s ops).foldl specStepX (absV s) := by
  induction ops generalizing s with
  | nil =>
    simp only [runFrom2, Option.some.injEq] at hs
    subst hs
    exact ⟨h, rfl⟩
  | cons op ops ih =>
    simp only [runFrom2] at hs
    cases h1 : stepC2 .lib s op with
    | none => simp [h1] at hs
    | some s₁ =>
      simp only [h1] at hs
      obtain ⟨hi, ha⟩ := stepC2_lib h h1
      obtain ⟨hi', ha'⟩ := ih hi hs
      refine ⟨hi', ?_⟩
      rw [ha', ha]
      simp only [valOps2, h1, List.foldl_append]
      cases valOp2 s op <;> rfl

/-- a history from the empty process -/
theorem run2_lib {s' : Sys} {ops : List Op2} (hs : run2 .lib ops = some s') :
    Inv' s' ∧ absV s' = (valOps2 init ops).foldl specStepX (absV init) :=
  runFrom2_lib inv_init hs

theorem opChoice2_base (op : Op) : opChoice2 (.base op) = opChoice op := by
  cases op <;> rfl

theorem stepC2_isSome (md : Mode) (s : Sys) (op : Op2)
    (h : ∀ ch, opChoice2 op = some ch → ch ∉ StoreI.liveIds s.cache) : (stepC2 md s op).isSome = true := by
  cases op with
  | base op =>
    simp only [stepC2]
    exact stepC_isSome md s op (fun ch hch => h ch (by rw [opChoice2_base]; exact hch))
  | query hd r ch =>
    have := StoreI.lookupC_isSome (t := r.kids) (h ch rfl)
    simp only [stepC2, Option.isSome_map]
    unfold containsMI
    split
    · cases hq : (s.hx.core.ment (s.hx.core.hmap hd)).lookup r.parent with
      | none => rfl
      | some c =>
        simp only
        cases hf : (s.hx.core.cent c).lookup r.sym with
        | none => rfl
        | some ts =>
          simp only
          cases hl : lookupC s.cache r.kids ch with
          | none => simp [hl] at this
          | some x => rfl
    · rfl
  | move src dst => simp only [stepC2]; split <;> rfl
  | moveAssign src dst => simp only [stepC2]; split <;> rfl
  | shareAll src dst keepF => simp only [stepC2]; split <;> rfl
  | shareClusters src dst keep => simp only [stepC2]; split <;> rfl
  | unionDisj a b dst => simp only [stepC2]; split <;> rfl

end Vata.CowI
