import Vata.Proofs.CowInternedLink
import Vata.Proofs.CowInternedLink3
/-!
# `ContainsTransition` in the copy-on-write world and in the eager-copy model give the same answer
-/
namespace Vata.CowI
open Vata.CowHeapX (absX absX_of_mem absX_of_not_mem)
open Vata.StoreI (CacheSt lookupC derefC CInv)

/-- the two caches have the same live addresses: what the allocator may not offer is the same in both models -/
theorem liveIds_eager {s : Sys} (hi : Inv' s) {ch : Nat} :
    ch ∈ StoreI.liveIds (eagerCache s) ↔ ch ∈ StoreI.liveIds s.cache := by
  have hc : CInv s.cache (refsT s.hx.core ++ s.ext) := hi.cache
  rw [hc.liveIds_eq, (eager_cinv hi).liveIds_eq, StoreI.mem_ids', StoreI.mem_ids']
  constructor
  · rintro ⟨v, n, hm⟩
    obtain ⟨_, rc0, hm0⟩ := mem_eagerCache.1 hm
    exact ⟨v, rc0, hm0⟩
  · rintro ⟨v, n, hm⟩
    exact ⟨v, _, mem_eagerCache.2 ⟨rfl, n, hm⟩⟩

theorem containsMI_isSome (s : Sys) (h : Nat) (r : Rule) {ch : Nat} (hch : ch ∉ StoreI.liveIds s.cache) :
    (containsMI s h r ch).isSome = true := by
  have := StoreI.lookupC_isSome (t := r.kids) hch
  unfold containsMI
  split
  · split
    · rfl
    · split
      · rfl
      · cases hl : lookupC s.cache r.kids ch with
        | none => rw [hl] at this; cases this
        | some x => rfl
  · rfl

/-- `ContainsTransition(r)` on automaton `h` of the copy-on-write world and on its eager-copy projection, with the same
    (possible) allocator offer: both calls succeed, give the SAME answer, and leave the values unchanged -/
theorem agree_contains {s : Sys} {h : Nat} (r : Rule) {ch : Nat} {t : StoreI.Sys} (hi : Inv' s)
    (ht : projI s h = some t) (hch : ch ∉ StoreI.liveIds s.cache) :
    ∃ s' t' b, containsMI s h r ch = some (s', b) ∧ StoreI.containsI .lib t r ch = some (t', b) ∧
      Inv' s' ∧ absV s' = absV s ∧ StoreI.Inv t' ∧ StoreI.abs t' = StoreI.abs t ∧ b = Store.contains (StoreI.abs t) r := by
  obtain ⟨x, hx⟩ := Option.isSome_iff_exists.1 (containsMI_isSome s h r hch)
  obtain ⟨s', b⟩ := x
  have hq : (StoreI.stepI .lib t (.query r ch)).isSome = true := by
    apply StoreI.stepI_isSome
    intro ch' e
    simp only [StoreI.opChoice, Option.some.injEq] at e
    subst e
    rw [projI_cache ht, liveIds_eager hi]
    exact hch
  have hq' : (StoreI.containsI .lib t r ch).isSome = true := by
    simp only [StoreI.stepI, Option.isSome_map] at hq
    exact hq
  obtain ⟨y, hy⟩ := Option.isSome_iff_exists.1 hq'
  obtain ⟨t', b'⟩ := y
  obtain ⟨a1, a2, a3⟩ := containsMI_lib hi hx
  obtain ⟨c1, c2, c3⟩ := StoreI.containsI_lib (projI_inv hi ht) hy
  rw [projI_abs hi ht] at a3
  simp only at a3
  have e : b' = b := by rw [a3, c3]
  subst e
  exact ⟨s', t', b', hx, hy, a1, a2, c1, c2, c3⟩

/-- the holders of the projection are the eager holders of the whole world -/
theorem count_refs_projI {s : Sys} {h : Nat} {t : StoreI.Sys} (ht : projI s h = some t) (id : Nat) :
    (StoreI.refs t).count id = (eagerRefs s).count id := by
  have hh := mem_of_projI ht
  rw [projI_of_mem hh] at ht
  rw [← Option.some.inj ht]
  unfold StoreI.refs eagerRefs
  simp only [List.count_append]
  rw [allIds_toI, ← heldBy_of_mem hh, count_flatMap_erase (heldBy s) hh id]
  omega

/-- every children tuple that occurs in the value of a live automaton is an entry of the cache, held by a live
    tuple-set node -/
theorem tuple_live {s : Sys} (hi : Inv' s) {h : Nat} {v : Store.Store} (hv : absV s h = some v) {tup : List Nat}
    (ht : tup ∈ tuplesOf v) : ∃ id rc, (tup, id, rc) ∈ s.cache ∧ id ∈ refsT s.hx.core := by
  have hc : CInv s.cache (refsT s.hx.core ++ s.ext) := hi.cache
  have hh := mem_of_absV hv
  have e : absV s h = some (derefS s.cache ⟨CowHeap3.valM s.hx.core (s.hx.core.hmap h), s.hx.fin h⟩) := by
    show (absX s.hx h).map _ = _
    rw [absX_of_mem hh]
    rfl
  rw [e] at hv
  rw [← Option.some.inj hv] at ht
  unfold tuplesOf derefS at ht
  simp only [List.mem_flatMap, List.mem_map] at ht
  obtain ⟨qc', ⟨qc, hqc, e1⟩, ft', hft', htup⟩ := ht
  subst e1
  simp only [List.mem_map] at hft'
  obtain ⟨ft, hft, e2⟩ := hft'
  subst e2
  simp only [List.mem_map] at htup
  obtain ⟨l, hl, e3⟩ := htup
  obtain ⟨a, ea⟩ := hi.cells h _ (absX_of_mem hh) qc hqc ft hft l hl
  subst ea
  have ha : a ∈ refsT s.hx.core := mentions_live hi.heap hh qc hqc ft hft _ hl a (by simp [cell])
  obtain ⟨w, rc, hm⟩ := hc.live a (List.mem_append_left _ ha)
  rw [derefCell_cell, hc.derefC_eq hm] at e3
  subst e3
  exact ⟨a, rc, hm, ha⟩

end Vata.CowI
