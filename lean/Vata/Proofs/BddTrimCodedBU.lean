import Vata.BddTrimCodedBU
import Vata.Proofs.BddAbsTD
/-!
# The bottom-up `RemoveUnreachableStates` as coded: every answer is correct (property C08)

`buUnreachCoded` (`Vata/BddTrimCodedBU.lean`) mirrors the work-list of `src/bdd_bu_tree_aut_unreach.cc`.  Here: for every
`some` answer the set `reachable` is the set `prodStates (skelBU T F)` of the abstract model `removeUnreachableBU`, the result
table has the same rules (`HasRule`) and the final states are the same list (`bu_unreach_coded_spec`); the language corollary
`bu_unreach_coded_lang`.  Hypothesis `TableOk T` (`Vata/Proofs/BddAbsTD.lean`: the keys of `T.entries` are non-empty and every
entry is the one `GetMtbdd` finds for its key, i.e. `T.entries` is a map; it holds of every table built by `SetMtbdd`,
`tableOk_ofRules`).  Totality: `Vata/Proofs/BddTrimCodedBU5.lean` (`bu_unreach_coded_total`).
-/
namespace Vata
namespace BddTrimCoded
open M BddAbs BddAbsTD

/-! ### the skeleton -/

theorem skel_rule_nullary {T : Table} {F : List Nat} {p : Nat} (h : p ∈ leafParents T.nullary) :
    (⟨0, [], p⟩ : Rule) ∈ (skelBU T F).rules := by
  simp only [skelBU, List.mem_flatMap, List.mem_map]
  exact ⟨[], by simp [Table.keys], p, by simpa [Table.get] using h, rfl⟩

theorem skel_rule_entry {T : Table} (hT : TableOk T) {F : List Nat} {e : List Nat × MT} (he : e ∈ T.entries) {p : Nat}
    (h : p ∈ leafParents e.2) : (⟨0, e.1, p⟩ : Rule) ∈ (skelBU T F).rules := by
  simp only [skelBU, List.mem_flatMap, List.mem_map]
  refine ⟨e.1, ?_, p, ?_, rfl⟩
  · simp only [Table.keys, List.mem_cons, List.mem_map]; exact Or.inr ⟨e, he, rfl⟩
  · simp only [Table.get, if_neg (hT e he).1, (hT e he).2]; exact h

theorem skel_rule_inv {T : Table} {F : List Nat} {r : Rule} (h : r ∈ (skelBU T F).rules) :
    r.kids ∈ T.keys ∧ r.parent ∈ leafParents (T.get r.kids) := by
  simp only [skelBU, List.mem_flatMap, List.mem_map] at h
  obtain ⟨ks, hks, p, hp, rfl⟩ := h
  exact ⟨hks, hp⟩

/-- a set of states that is closed under the rules contains the productive states -/
theorem prodStates_sub_closed {A : TA} {S : List Nat} (h : ProdClosed A S) : ∀ q, q ∈ prodStates A → q ∈ S := by
  intro q hq
  obtain ⟨t, ht⟩ := (prodStates_iff A q).mp hq
  exact reach_sub_closed A S h t q ht

/-! ### the functor -/

theorem collectStep_spec (s : List Nat × List Nat) (q : Nat) :
    (∀ x, x ∈ (collectStep s q).1 ↔ x ∈ s.1 ∨ x = q) ∧ (∀ x, x ∈ s.2 → x ∈ (collectStep s q).2) ∧
    (∀ x, x ∈ (collectStep s q).2 → x ∈ s.2 ∨ x = q) ∧ (q ∈ s.1 ∨ q ∈ (collectStep s q).2) := by
  unfold collectStep
  split
  · next h =>
    have h' : q ∈ s.1 := by simpa using h
    refine ⟨fun x => ⟨Or.inl, fun hx => hx.elim id (fun e => e ▸ h')⟩, fun _ => id, fun _ => Or.inl, Or.inl h'⟩
  · refine ⟨fun x => by simp, fun x hx => mem_ins.mpr (Or.inl hx), fun x hx => mem_ins.mp hx, Or.inr (mem_ins.mpr (Or.inr rfl))⟩

theorem collect_fold : ∀ (L : List Nat) (s : List Nat × List Nat),
    (∀ x, x ∈ (L.foldl collectStep s).1 ↔ x ∈ s.1 ∨ x ∈ L) ∧ (∀ x, x ∈ s.2 → x ∈ (L.foldl collectStep s).2) ∧
    (∀ x, x ∈ (L.foldl collectStep s).2 → x ∈ s.2 ∨ x ∈ L) ∧ (∀ x, x ∈ L → x ∈ s.1 ∨ x ∈ (L.foldl collectStep s).2)
  | [], s => by simp
  | q :: L, s => by
    obtain ⟨a1, a2, a3, a4⟩ := collectStep_spec s q
    obtain ⟨b1, b2, b3, b4⟩ := collect_fold L (collectStep s q)
    simp only [List.foldl_cons, List.mem_cons]
    refine ⟨fun x => ?_, fun x hx => b2 x (a2 x hx), fun x hx => ?_, fun x hx => ?_⟩
    · rw [b1, a1]; simp only [or_assoc]
    · rcases b3 x hx with h | h
      · rcases a3 x h with h | h
        · exact Or.inl h
        · exact Or.inr (Or.inl h)
      · exact Or.inr (Or.inr h)
    · have hq : q ∈ s.1 ∨ q ∈ (L.foldl collectStep (collectStep s q)).2 := a4.elim Or.inl (fun h => Or.inr (b2 q h))
      rcases hx with rfl | hx
      · exact hq
      · rcases b4 x hx with h | h
        · rcases (a1 x).mp h with h | rfl
          · exact Or.inl h
          · exact hq
        · exact Or.inr h

theorem collect_spec (s : List Nat × List Nat) (m : MT) :
    (∀ x, x ∈ (collect s m).1 ↔ x ∈ s.1 ∨ x ∈ leafParents m) ∧ (∀ x, x ∈ s.2 → x ∈ (collect s m).2) ∧
    (∀ x, x ∈ (collect s m).2 → x ∈ s.2 ∨ x ∈ leafParents m) ∧ (∀ x, x ∈ leafParents m → x ∈ s.1 ∨ x ∈ (collect s m).2) :=
  collect_fold _ s

/-! ### the scan -/

/-- the tuple was processed: its states and the states in its leaves are reachable, the result has an MTBDD for it -/
def Processed (st : BuSt) (e : List Nat × MT) : Prop :=
  (∀ q, q ∈ e.1 → q ∈ st.reach) ∧ (∀ q, q ∈ leafParents e.2 → q ∈ st.reach) ∧ e.1 ∈ st.result.entries.map (·.1)

/-- what a part of the scan for the popped `s` over the tuples `l` does -/
structure ScanOK (T : Table) (F : List Nat) (s : Nat) (st st' : BuSt) (l : List (List Nat × MT)) : Prop where
  reach_mono : ∀ x, x ∈ st.reach → x ∈ st'.reach
  ws_mono : ∀ x, x ∈ st.ws → x ∈ st'.ws
  new_ws : ∀ x, x ∈ st'.reach → x ∈ st.reach ∨ x ∈ st'.ws
  sound : (∀ x, x ∈ st.reach → x ∈ prodStates (skelBU T F)) → ∀ x, x ∈ st'.reach → x ∈ prodStates (skelBU T F)
  tup_mono : ∀ e, e ∈ st.tuples → e ∈ st'.tuples
  done : ∀ e, e ∈ l → e ∈ st'.tuples ∨ Processed st' e
  kept : ∀ e, e ∈ st'.tuples → e ∈ st.tuples ∨ (e ∈ l ∧ (s ∈ e.1 → ∃ q, q ∈ e.1 ∧ q ∉ st.reach))
  nullary : st'.result.nullary = st.result.nullary
  keys_mono : ∀ k, k ∈ st.result.entries.map (·.1) → k ∈ st'.result.entries.map (·.1)
  res : ∀ e, e ∈ st'.result.entries → e ∈ st.result.entries ∨ (e ∈ l ∧ ∀ q, q ∈ e.1 → q ∈ st'.reach)

theorem scanOK_nil (T : Table) (F : List Nat) (s : Nat) (st : BuSt) : ScanOK T F s st st [] :=
  ⟨fun _ => id, fun _ => id, fun _ => Or.inl, fun h => h, fun _ => id, fun _ h => (nomatch h), fun _ => Or.inl, rfl,
    fun _ => id, fun _ => Or.inl⟩

theorem Processed.mono {st st' : BuSt} {e : List Nat × MT} (h : Processed st e)
    (hr : ∀ x, x ∈ st.reach → x ∈ st'.reach)
    (hk : ∀ k, k ∈ st.result.entries.map (·.1) → k ∈ st'.result.entries.map (·.1)) : Processed st' e :=
  ⟨fun q hq => hr q (h.1 q hq), fun q hq => hr q (h.2.1 q hq), hk _ h.2.2⟩

theorem scanOK_trans {T : Table} {F : List Nat} {s : Nat} {st st1 st2 : BuSt} {l1 l2 : List (List Nat × MT)}
    (h1 : ScanOK T F s st st1 l1) (h2 : ScanOK T F s st1 st2 l2) : ScanOK T F s st st2 (l1 ++ l2) where
  reach_mono x hx := h2.reach_mono x (h1.reach_mono x hx)
  ws_mono x hx := h2.ws_mono x (h1.ws_mono x hx)
  new_ws x hx := by
    rcases h2.new_ws x hx with h | h
    · rcases h1.new_ws x h with h | h
      · exact Or.inl h
      · exact Or.inr (h2.ws_mono x h)
    · exact Or.inr h
  sound h := h2.sound (h1.sound h)
  tup_mono e he := h2.tup_mono e (h1.tup_mono e he)
  done e he := by
    rcases List.mem_append.mp he with he | he
    · rcases h1.done e he with h | h
      · exact Or.inl (h2.tup_mono e h)
      · exact Or.inr (h.mono h2.reach_mono h2.keys_mono)
    · exact h2.done e he
  kept e he := by
    rcases h2.kept e he with h | ⟨h, h'⟩
    · rcases h1.kept e h with h | ⟨h, h'⟩
      · exact Or.inl h
      · exact Or.inr ⟨List.mem_append.mpr (Or.inl h), h'⟩
    · refine Or.inr ⟨List.mem_append.mpr (Or.inr h), fun hs => ?_⟩
      obtain ⟨q, hq, hn⟩ := h' hs
      exact ⟨q, hq, fun hr => hn (h1.reach_mono q hr)⟩
  nullary := h2.nullary.trans h1.nullary
  keys_mono k hk := h2.keys_mono k (h1.keys_mono k hk)
  res e he := by
    rcases h2.res e he with h | ⟨h, h'⟩
    · rcases h1.res e h with h | ⟨h, h'⟩
      · exact Or.inl h
      · exact Or.inr ⟨List.mem_append.mpr (Or.inl h), fun q hq => h2.reach_mono q (h' q hq)⟩
    · exact Or.inr ⟨List.mem_append.mpr (Or.inr h), h'⟩

theorem mem_setE {es : List (List Nat × MT)} {ks : List Nat} {m : MT} {e : List Nat × MT} (h : e ∈ setE es ks m) :
    e = (ks, m) ∨ e ∈ es := by
  simp only [setE, List.mem_cons, List.mem_filter] at h
  exact h.elim Or.inl (fun h => Or.inr h.1)

theorem mem_keys_setE {es : List (List Nat × MT)} {ks : List Nat} {m : MT} {k : List Nat} :
    k ∈ (setE es ks m).map (·.1) ↔ k = ks ∨ k ∈ es.map (·.1) := by
  simp only [setE, List.map_cons, List.mem_cons, List.mem_map, List.mem_filter]
  constructor
  · rintro (h | ⟨e, ⟨he, _⟩, rfl⟩)
    · exact Or.inl h
    · exact Or.inr ⟨e, he, rfl⟩
  · rintro (h | ⟨e, he, rfl⟩)
    · exact Or.inl h
    · by_cases hk : e.1 = ks
      · exact Or.inl hk
      · exact Or.inr ⟨e, ⟨he, by simpa using hk⟩, rfl⟩

theorem scanOK_step {T : Table} (hT : TableOk T) (F : List Nat) (s : Nat) (st : BuSt) {e : List Nat × MT}
    (he : e ∈ T.entries) : ScanOK T F s st (scanStep s st e) [e] := by
  have hne : e.1 ≠ [] := (hT e he).1
  unfold scanStep
  split
  · next hc =>
    simp only [Bool.and_eq_true, List.contains_iff_mem, List.all_eq_true] at hc
    obtain ⟨c1, c2, c3, c4⟩ := collect_spec (st.reach, st.ws) e.2
    have hres : (st.result.set e.1 e.2) = ⟨st.result.nullary, setE st.result.entries e.1 e.2⟩ := by
      simp [Table.set, hne]
    refine ⟨fun x hx => (c1 x).mpr (Or.inl hx), c2, fun x hx => ?_, fun h x hx => ?_, fun _ => id, fun e' he' => ?_,
      fun _ => Or.inl, ?_, fun k hk => ?_, fun e' he' => ?_⟩
    · rcases (c1 x).mp hx with h | h
      · exact Or.inl h
      · exact c4 x h
    · rcases (c1 x).mp hx with h' | h'
      · exact h x h'
      · exact prodStates_closed _ _ (skel_rule_entry hT he h') (fun k hk => h k (hc.2 k hk))
    · rw [List.mem_singleton] at he'
      subst he'
      refine Or.inr ⟨fun q hq => (c1 q).mpr (Or.inl (hc.2 q hq)), fun q hq => (c1 q).mpr (Or.inr hq), ?_⟩
      show _ ∈ (st.result.set e'.1 e'.2).entries.map (·.1)
      rw [hres]; exact mem_keys_setE.mpr (Or.inl rfl)
    · show (st.result.set e.1 e.2).nullary = _
      rw [hres]
    · show _ ∈ (st.result.set e.1 e.2).entries.map (·.1)
      rw [hres]; exact mem_keys_setE.mpr (Or.inr hk)
    · have he'' : e' ∈ (st.result.set e.1 e.2).entries := he'
      rw [hres] at he''
      rcases mem_setE he'' with h | h
      · refine Or.inr ⟨List.mem_singleton.mpr h, fun q hq => (c1 q).mpr (Or.inl (hc.2 q ?_))⟩
        rw [h] at hq; exact hq
      · exact Or.inl h
  · next hc =>
    simp only [Bool.and_eq_true, List.contains_iff_mem, List.all_eq_true, not_and] at hc
    refine ⟨fun _ => id, fun _ => id, fun _ => Or.inl, fun h => h, fun e' he' => List.mem_append.mpr (Or.inl he'),
      fun e' he' => Or.inl (List.mem_append.mpr (Or.inr he')), fun e' he' => ?_, rfl, fun _ => id, fun _ => Or.inl⟩
    rcases List.mem_append.mp he' with h | h
    · exact Or.inl h
    · refine Or.inr ⟨h, fun hs => ?_⟩
      rw [List.mem_singleton] at h
      subst h
      apply Classical.byContradiction
      intro hn
      exact hc hs (fun q hq => Classical.byContradiction (fun hq' => hn ⟨q, hq, hq'⟩))

theorem scanOK_fold {T : Table} (hT : TableOk T) (F : List Nat) (s : Nat) : ∀ (l : List (List Nat × MT)) (st : BuSt),
    (∀ e, e ∈ l → e ∈ T.entries) → ScanOK T F s st (l.foldl (scanStep s) st) l
  | [], st, _ => scanOK_nil T F s st
  | e :: l, st, h =>
    scanOK_trans (l1 := [e]) (scanOK_step hT F s st (h e List.mem_cons_self))
      (scanOK_fold hT F s l (scanStep s st e) (fun e' he' => h e' (List.mem_cons_of_mem _ he')))

/-! ### the main loop -/

structure BuInv (T : Table) (F : List Nat) (st : BuSt) : Prop where
  sound : ∀ x, x ∈ st.reach → x ∈ prodStates (skelBU T F)
  null : ∀ x, x ∈ leafParents T.nullary → x ∈ st.reach
  tup_sub : ∀ e, e ∈ st.tuples → e ∈ T.entries
  cover : ∀ e, e ∈ T.entries → e ∈ st.tuples ∨ Processed st e
  pending : ∀ e, e ∈ st.tuples → (∀ q, q ∈ e.1 → q ∈ st.reach) → ∃ q, q ∈ e.1 ∧ q ∈ st.ws
  nullary : st.result.nullary = T.nullary
  res : ∀ e, e ∈ st.result.entries → e ∈ T.entries ∧ ∀ q, q ∈ e.1 → q ∈ st.reach

theorem buInv_init {T : Table} (hT : TableOk T) (F : List Nat) : BuInv T F (buUnreachInit T) := by
  obtain ⟨c1, c2, c3, c4⟩ := collect_spec ([], []) T.nullary
  have hf : ∀ e, e ∈ T.entries.filter (fun e => e.1 != []) ↔ e ∈ T.entries := by
    intro e
    simp only [List.mem_filter, bne_iff_ne, ne_eq, and_iff_left_iff_imp]
    exact fun he => (hT e he).1
  refine ⟨fun x hx => ?_, fun x hx => (c1 x).mpr (Or.inr hx), fun e he => (hf e).mp he, fun e he => Or.inl ((hf e).mpr he),
    fun e he hr => ?_, ?_, fun e he => ?_⟩
  · rcases (c1 x).mp hx with h | h
    · cases h
    · exact prodStates_closed _ _ (skel_rule_nullary h) (fun k hk => by cases hk)
  · have hne := (hT e ((hf e).mp he)).1
    obtain ⟨q, hq⟩ := List.exists_mem_of_ne_nil _ hne
    refine ⟨q, hq, ?_⟩
    rcases (c1 q).mp (hr q hq) with h | h
    · cases h
    · exact (c4 q h).elim (fun h => by cases h) id
  · simp [buUnreachInit, Table.set]
  · simp [buUnreachInit, Table.set, Table.empty] at he

theorem buInv_step {T : Table} (hT : TableOk T) {F : List Nat} {r ws : List Nat} {s : Nat} {tu : List (List Nat × MT)}
    {R : Table} (h : BuInv T F ⟨r, s :: ws, tu, R⟩) : BuInv T F (tu.foldl (scanStep s) ⟨r, ws, [], R⟩) := by
  have hs := scanOK_fold hT F s tu ⟨r, ws, [], R⟩ h.tup_sub
  refine ⟨hs.sound h.sound, fun x hx => hs.reach_mono x (h.null x hx), fun e he => ?_, fun e he => ?_, fun e he hr => ?_,
    hs.nullary.trans h.nullary, fun e he => ?_⟩
  · rcases hs.kept e he with h' | h'
    · cases h'
    · exact h.tup_sub e h'.1
  · rcases h.cover e he with h' | h'
    · exact hs.done e h'
    · exact Or.inr (Processed.mono (st := ⟨r, s :: ws, tu, R⟩) h' hs.reach_mono hs.keys_mono)
  · rcases hs.kept e he with h' | ⟨h1, h2⟩
    · cases h'
    · by_cases hall : ∀ q, q ∈ e.1 → q ∈ r
      · have hse : s ∉ e.1 := by
          intro hse
          obtain ⟨q, hq, hn⟩ := h2 hse
          exact hn (hall q hq)
        obtain ⟨q, hq, hw⟩ := h.pending e h1 hall
        rcases List.mem_cons.mp hw with rfl | hw
        · exact absurd hq hse
        · exact ⟨q, hq, hs.ws_mono q hw⟩
      · have : ∃ q, q ∈ e.1 ∧ q ∉ r := Classical.byContradiction (fun hn =>
          hall (fun q hq => Classical.byContradiction (fun hq' => hn ⟨q, hq, hq'⟩)))
        obtain ⟨q, hq, hn⟩ := this
        exact ⟨q, hq, (hs.new_ws q (hr q hq)).elim (fun h' => absurd h' hn) id⟩
  · rcases hs.res e he with h' | ⟨h1, h2⟩
    · exact ⟨(h.res e h').1, fun q hq => hs.reach_mono q ((h.res e h').2 q hq)⟩
    · exact ⟨h.tup_sub e h1, h2⟩

theorem buUnreachLoop_inv {T : Table} (hT : TableOk T) {F : List Nat} : ∀ (fuel : Nat) (st st' : BuSt), BuInv T F st →
    buUnreachLoop fuel st = some st' → BuInv T F st' ∧ st'.ws = []
  | fuel, ⟨r, [], tu, R⟩, st', h, e => by
    have : buUnreachLoop fuel ⟨r, [], tu, R⟩ = some ⟨r, [], tu, R⟩ := by cases fuel <;> simp [buUnreachLoop]
    rw [this] at e
    cases e
    exact ⟨h, rfl⟩
  | 0, ⟨r, s :: ws, tu, R⟩, st', _, e => by simp [buUnreachLoop] at e
  | fuel + 1, ⟨r, s :: ws, tu, R⟩, st', h, e => by
    simp only [buUnreachLoop] at e
    exact buUnreachLoop_inv hT fuel _ st' (buInv_step hT h) e

/-- at the end `reachable` is closed under the rules of the skeleton -/
theorem buInv_closed {T : Table} {F : List Nat} {st : BuSt} (h : BuInv T F st) (hw : st.ws = []) :
    ProdClosed (skelBU T F) st.reach := by
  intro r hr hk
  obtain ⟨h1, h2⟩ := skel_rule_inv hr
  by_cases hks : r.kids = []
  · rw [hks] at h2
    exact h.null _ (by simpa [Table.get] using h2)
  · simp only [Table.keys, List.mem_cons, hks, false_or] at h1
    have hm := getE_mem h1
    simp only [Table.get, if_neg hks] at h2
    rcases h.cover _ hm with h' | h'
    · obtain ⟨q, _, hq⟩ := h.pending _ h' hk
      rw [hw] at hq; cases hq
    · exact h'.2.1 _ h2

theorem buInv_reach {T : Table} {F : List Nat} {st : BuSt} (h : BuInv T F st) (hw : st.ws = []) (q : Nat) :
    q ∈ st.reach ↔ q ∈ prodStates (skelBU T F) :=
  ⟨h.sound q, prodStates_sub_closed (buInv_closed h hw) q⟩

theorem buInv_hasRule {T : Table} (hT : TableOk T) {F : List Nat} {st : BuSt} (h : BuInv T F st) (hw : st.ws = [])
    (ρ : Nat → Bool) (ks : List Nat) (p : Nat) :
    HasRule st.result ρ ks p ↔ HasRule T ρ ks p ∧ ∀ k, k ∈ ks → k ∈ st.reach := by
  unfold HasRule Table.get
  by_cases hks : ks = []
  · subst hks; simp [h.nullary]
  · simp only [if_neg hks]
    by_cases hm : ks ∈ st.result.entries.map (·.1)
    · obtain ⟨h1, h2⟩ := h.res _ (getE_mem hm)
      have := (hT _ h1).2
      simp only at this
      rw [this]
      exact ⟨fun h' => ⟨h', h2⟩, fun h' => h'.1⟩
    · rw [getE_not_key hm]
      simp only [eval, List.not_mem_nil, false_iff, not_and]
      intro h1 h2
      apply hm
      have hk : ks ∈ T.entries.map (·.1) := by
        apply Classical.byContradiction
        intro hn
        rw [getE_not_key hn] at h1
        simp [eval] at h1
      rcases h.cover _ (getE_mem hk) with h' | h'
      · obtain ⟨q, _, hq⟩ := h.pending _ h' h2
        rw [hw] at hq; cases hq
      · exact h'.2.2

/-! ### the theorems -/

/-- **`RemoveUnreachableStates` (bottom-up) as coded, the states.**  At the end of the work-list loop `reachable` is the
set of the bottom-up reachable (= productive) states of the leaf-visit skeleton, the work-list is empty, and no remaining
tuple has all its states reachable. -/
theorem bu_unreach_coded_reach {T : Table} (hT : TableOk T) (F : List Nat) {fuel : Nat} {st : BuSt}
    (h : buUnreachSt T fuel = some st) :
    (∀ q, q ∈ st.reach ↔ q ∈ prodStates (skelBU T F)) ∧ st.ws = [] ∧
    (∀ e, e ∈ st.tuples → ∃ q, q ∈ e.1 ∧ q ∉ st.reach) := by
  obtain ⟨hi, hw⟩ := buUnreachLoop_inv hT fuel _ st (buInv_init hT F) h
  refine ⟨buInv_reach hi hw, hw, fun e he => ?_⟩
  apply Classical.byContradiction
  intro hn
  obtain ⟨q, _, hq⟩ := hi.pending e he (fun q hq => Classical.byContradiction (fun hq' => hn ⟨q, hq, hq'⟩))
  rw [hw] at hq; cases hq

theorem filter_congr_mem {l : List Nat} {S S' : List Nat} (h : ∀ q, q ∈ S ↔ q ∈ S') :
    l.filter (fun q => S.contains q) = l.filter (fun q => S'.contains q) := by
  apply List.filter_congr
  intro q _
  rw [Bool.eq_iff_iff]
  simp only [List.contains_iff_mem]
  exact h q

/-- **`RemoveUnreachableStates` (bottom-up) as coded: every answer is the answer of the abstract model**
`removeUnreachableBU`: the same rules, the same list of final states. -/
theorem bu_unreach_coded_spec {T : Table} (hT : TableOk T) (F : List Nat) {fuel : Nat} {R : Table × List Nat}
    (h : buUnreachCoded T F fuel = some R) :
    (∀ ρ ks p, HasRule R.1 ρ ks p ↔ HasRule (removeUnreachableBU T F).1 ρ ks p) ∧ R.2 = (removeUnreachableBU T F).2 := by
  unfold buUnreachCoded at h
  cases hst : buUnreachSt T fuel with
  | none => rw [hst] at h; cases h
  | some st =>
    rw [hst] at h
    simp only [Option.map_some, Option.some.injEq] at h
    subst h
    obtain ⟨hi, hw⟩ := buUnreachLoop_inv hT fuel _ st (buInv_init hT F) hst
    have hr := buInv_reach hi hw
    refine ⟨fun ρ ks p => ?_, ?_⟩
    · rw [hasRule_removeUnreachableBU, buInv_hasRule hT hi hw]
      simp only [hr]
    · exact filter_congr_mem hr

/-- the abstractions of two answers with the same rules and the same final states -/
theorem setEqTA_of_hasRule {syms : List Nat} {T T' : Table} {F F' : List Nat}
    (h : ∀ ρ ks p, HasRule T ρ ks p ↔ HasRule T' ρ ks p) (hF : F = F') : SetEqTA (absBU syms T F) (absBU syms T' F') := by
  subst hF
  refine ⟨fun r => ?_, fun q => Iff.rfl⟩
  show r ∈ absRules syms T ↔ r ∈ absRules syms T'
  rw [mem_absRules, mem_absRules, h]

/-- **`RemoveUnreachableStates` (bottom-up) as coded keeps the language.**  (The C++ prunes the bottom-up unreachable,
i.e. unproductive, states only: the top-down unreachable ones stay.) -/
theorem bu_unreach_coded_lang {syms : List Nat} {T : Table} (hO : TableOk T) (hT : TableWF T)
    (hc : SymsCompleteBU syms T) (F : List Nat) {fuel : Nat} {R : Table × List Nat}
    (h : buUnreachCoded T F fuel = some R) (t : Tree) :
    accepts (absBU syms R.1 R.2) t = accepts (absBU syms T F) t := by
  obtain ⟨h1, h2⟩ := bu_unreach_coded_spec hO F h
  rw [(setEqTA_of_hasRule h1 h2).lang, removeUnreachableBU_lang F hT hc]

/-- the abstraction of the coded answer is the restriction of the automaton to its productive states -/
theorem bu_unreach_coded_abs {syms : List Nat} {T : Table} (hO : TableOk T) (hT : TableWF T)
    (hc : SymsCompleteBU syms T) (F : List Nat) {fuel : Nat} {R : Table × List Nat}
    (h : buUnreachCoded T F fuel = some R) :
    SetEqTA (absBU syms R.1 R.2) (restrict (absBU syms T F) (prodStates (absBU syms T F))) := by
  obtain ⟨h1, h2⟩ := bu_unreach_coded_spec hO F h
  exact (setEqTA_of_hasRule h1 h2).trans (absBU_removeUnreachable F hT hc)

end BddTrimCoded
end Vata
