import Vata.Proofs.CowHeapFADenote4
/-!
# `GetCandidateTree` in the finite-automaton heap model: the witness is non-empty whenever the language of the object is

`Vata/Proofs/CowHeapFADenote4.lean` proves that the local `res` of `GetCandidateTree` (`vCandRaw`) is a sub-automaton of
the object.  This file proves the other half of the specification of `C10_coded_candidate_spec` for the value-level search
`candStart` / `candLoop` / `candInner` of `Vata/CowHeapFA.lean` (FIFO queue, `reachableStates`, the two early `return`s,
the keys handed to `transitions_->insert`), DIRECTLY on that search (no detour through a scan order):

* `candLoop_end`: run on its fuel, the loop ends by a `return` (`done`) or with `newStates.empty()` – totality;
* `candSearch_inv`: the invariants of the breadth-first search at that point;
* `vCandRaw_nonempty`: for a value with one cluster per state, `res` accepts a word when the object does;
* `vCandidate_nonempty_iff`: the same for the result after `RemoveUselessStates`.
-/
namespace Vata.CowHeapFA

open Vata Vata.W Vata.NfaS
open Vata.Store (KeysNodup)
open Vata.CowHeapX (missing mem_missing)

/-! ### `if (reachableStates.insert(q).second) newStates.push_back(q);` -/

/-- the first statement of both loop bodies -/
def see (s : CandSt) (q : Nat) : CandSt :=
  if s.reach.contains q then s else { s with reach := s.reach ++ [q], queue := s.queue ++ [q] }

theorem see_mem (s : CandSt) (q : Nat) : (see s q).mem = s.mem := by unfold see; split <;> rfl
theorem see_keys (s : CandSt) (q : Nat) : (see s q).keys = s.keys := by unfold see; split <;> rfl
theorem see_done (s : CandSt) (q : Nat) : (see s q).done = s.done := by unfold see; split <;> rfl

theorem mem_see_reach {s : CandSt} {x q : Nat} : q ∈ (see s x).reach ↔ q ∈ s.reach ∨ q = x := by
  unfold see
  split
  · rename_i h
    have := List.contains_iff_mem.mp h
    exact ⟨Or.inl, fun h' => h'.elim id (fun e => e ▸ this)⟩
  · simp

theorem mem_see_queue {s : CandSt} {x q : Nat} :
    q ∈ (see s x).queue ↔ q ∈ s.queue ∨ (q = x ∧ x ∉ s.reach) := by
  unfold see
  split
  · rename_i h
    have := List.contains_iff_mem.mp h
    exact ⟨Or.inl, fun h' => h'.elim id (fun e => absurd this e.2)⟩
  · rename_i h
    have hx : x ∉ s.reach := fun h' => h (List.contains_iff_mem.mpr h')
    simp only [List.mem_append, List.mem_singleton]
    exact ⟨fun h' => h'.elim Or.inl (fun e => Or.inr ⟨e, hx⟩), fun h' => h'.elim Or.inl (fun e => Or.inr e.1)⟩

theorem candInner_cons (v : FAVal) (act q : Nat) (rest : List Nat) (s : CandSt) :
    candInner v act (q :: rest) s =
      if v.mem.final.contains q then
        { see s q with mem := { (see s q).mem with final := Vata.insN (see s q).mem.final q },
                       keys := (see s q).keys ++ [act], done := true }
      else candInner v act rest { see s q with keys := (see s q).keys ++ [act] } := rfl

theorem candStart_cons (v : FAVal) (q : Nat) (rest : List Nat) (s : CandSt) :
    candStart v (q :: rest) s =
      if v.mem.final.contains q then
        { see s q with mem := { start := Vata.insN (see s q).mem.start q,
                                ssym := smInsert (see s q).mem.ssym q (smGet v.mem.ssym q),
                                final := Vata.insN (see s q).mem.final q }, done := true }
      else candStart v rest ⟨(see s q).reach, (see s q).queue,
        ⟨(see s q).mem.final, Vata.insN (see s q).mem.start q, smInsert (see s q).mem.ssym q (smGet v.mem.ssym q)⟩,
        (see s q).keys, (see s q).done⟩ := rfl

/-! ### termination -/

/-- **totality**: with fuel at least `queue length + targets not yet reached` the loop of `GetCandidateTree` ends by a
    `return` or with an empty queue (never by running out of fuel) -/
theorem candLoop_end (v : FAVal) (U : List Nat)
    (hU : ∀ act c, v.trans.lookup act = some c → ∀ q, q ∈ targets c → q ∈ U) :
    ∀ (n : Nat) (s : CandSt), s.queue.length + unreached U s.reach ≤ n →
      (candLoop v n s).done = true ∨ (candLoop v n s).queue = [] := by
  intro n
  induction n with
  | zero =>
    intro s h
    exact Or.inr (List.eq_nil_of_length_eq_zero (by simp only [candLoop]; omega))
  | succ n ih =>
    intro s h
    simp only [candLoop]
    split
    · rename_i hd; exact Or.inl hd
    · split
      · rename_i hq; exact Or.inr hq
      · rename_i act q hq
        rw [hq] at h
        simp only [List.length_cons] at h
        split
        · exact ih _ (by simp only; omega)
        · rename_i c hl
          have hm := candInner_measure v U act (targets c) (hU act c hl) { s with queue := q }
          simp only at hm
          exact ih _ (by omega)

/-- `candSearch` ends by a `return` or with `newStates.empty()` -/
theorem candSearch_end (v : FAVal) : (candSearch v).done = true ∨ (candSearch v).queue = [] := by
  unfold candSearch
  simp only
  apply candLoop_end v ((transOf v.trans).map (fun e => e.2.2)) (targets_in_trans v.trans)
  have h1 := candStart_queue v v.mem.start ⟨[], [], ⟨[], [], []⟩, [], false⟩
  have h2 := unreached_le ((transOf v.trans).map (fun e => e.2.2))
    (candStart v v.mem.start ⟨[], [], ⟨[], [], []⟩, [], false⟩).reach
  simp only [List.length_map, List.length_nil, Nat.zero_add] at h1 h2 ⊢
  omega

/-! ### the invariants of the search -/

/-- the transitions of `res` when the keys `keys` have been handed to `transitions_->insert` -/
abbrev KT (v : FAVal) (keys : List Nat) : NFA := ⟨[], [], transOf (missing [] (pick v.trans keys))⟩

theorem KT_mono {v : FAVal} (hk : KeysNodup v.trans) {keys : List Nat} (act : Nat) {p q : Nat} {w : List Nat}
    (h : Path (KT v keys) p w q) : Path (KT v (keys ++ [act])) p w q := by
  refine h.mono (fun e he => ?_)
  have := (mem_transOf_missing_pick hk keys e).mp he
  exact (mem_transOf_missing_pick hk _ e).mpr ⟨this.1, List.mem_append_left _ this.2⟩

/-- holds at every point of the search: every state of `reachableStates` is reached from a start state of `res` inside
    `res`; after a `return` a final state of `res` is among them -/
structure CI (v : FAVal) (s : CandSt) : Prop where
  hreach : ∀ q, q ∈ s.reach → ∃ s0, s0 ∈ s.mem.start ∧ ∃ w, Path (KT v s.keys) s0 w q
  hdone : s.done = true → ∃ q, q ∈ s.mem.final ∧ q ∈ s.reach

/-- between two turns of the `while` loop (no `return` yet) -/
structure CL (v : FAVal) (s : CandSt) : Prop where
  hq : ∀ q, q ∈ s.queue → q ∈ s.reach
  hnf : ∀ q, q ∈ s.reach → q ∉ v.mem.final
  hst : ∀ q, q ∈ v.mem.start → q ∈ s.reach
  hexp : ∀ p, p ∈ s.reach → p ∈ s.queue ∨ ∀ a q, (p, a, q) ∈ transOf v.trans → q ∈ s.reach

/-- inside a turn: `act` is being expanded, the targets `xs` are still to come -/
structure CM (v : FAVal) (act : Nat) (xs : List Nat) (s : CandSt) : Prop where
  nd : s.done = false
  hq : ∀ q, q ∈ s.queue → q ∈ s.reach
  hnf : ∀ q, q ∈ s.reach → q ∉ v.mem.final
  hst : ∀ q, q ∈ v.mem.start → q ∈ s.reach
  hexp : ∀ p, p ∈ s.reach → p ∈ s.queue ∨
    (p = act ∧ ∀ a q, (act, a, q) ∈ transOf v.trans → q ∈ s.reach ∨ q ∈ xs) ∨
    ∀ a q, (p, a, q) ∈ transOf v.trans → q ∈ s.reach
  hact : act ∈ s.reach
  hxs : ∀ x, x ∈ xs → ∃ a, (act, a, x) ∈ transOf v.trans

theorem CL_of_CM {v : FAVal} {act : Nat} {s : CandSt} (h : CM v act [] s) : CL v s := by
  refine ⟨h.hq, h.hnf, h.hst, fun p hp => ?_⟩
  rcases h.hexp p hp with h' | ⟨_, h'⟩ | h'
  · exact Or.inl h'
  · rename_i hpa
    exact Or.inr (fun a q he => (h' a q (hpa ▸ he)).elim id (fun h'' => nomatch h''))
  · exact Or.inr h'

/-- one step of the inner loops keeps `reachableStates` reached inside `res` (the cluster of `act` is inserted in the same
    step) -/
theorem reach_step {v : FAVal} (hk : KeysNodup v.trans) {s : CandSt} {act a x : Nat}
    (hr : ∀ q, q ∈ s.reach → ∃ s0, s0 ∈ s.mem.start ∧ ∃ w, Path (KT v s.keys) s0 w q)
    (hact : act ∈ s.reach) (he : (act, a, x) ∈ transOf v.trans) :
    ∀ q, q ∈ (see s x).reach → ∃ s0, s0 ∈ s.mem.start ∧ ∃ w, Path (KT v (s.keys ++ [act])) s0 w q := by
  intro q hq
  rcases mem_see_reach.mp hq with h | h
  · obtain ⟨s0, h0, w, hp⟩ := hr q h
    exact ⟨s0, h0, w, KT_mono hk act hp⟩
  · obtain ⟨s0, h0, w, hp⟩ := hr act hact
    refine ⟨s0, h0, w ++ [a], ?_⟩
    rw [h]
    apply Path.snoc (KT_mono hk act hp)
    exact (mem_transOf_missing_pick hk _ _).mpr ⟨he, List.mem_append_right _ (List.mem_singleton.mpr rfl)⟩

/-- the inner loops: the general invariant is kept; without a `return` the turn ends with the loop invariant -/
theorem candInner_spec {v : FAVal} (hk : KeysNodup v.trans) (act : Nat) :
    ∀ (xs : List Nat) (s : CandSt), CI v s → CM v act xs s →
      CI v (candInner v act xs s) ∧ ((candInner v act xs s).done = false → CL v (candInner v act xs s))
  | [], s, hi, hm => ⟨hi, fun _ => CL_of_CM hm⟩
  | x :: xs, s, hi, hm => by
    obtain ⟨a, hax⟩ := hm.hxs x List.mem_cons_self
    have hr := reach_step hk hi.hreach hm.hact hax
    rw [candInner_cons]
    by_cases hf : v.mem.final.contains x = true
    · rw [if_pos hf]
      refine ⟨⟨?_, fun _ => ⟨x, ?_, ?_⟩⟩, fun h => by simp at h⟩
      · intro q hq
        obtain ⟨s0, h0, w, hp⟩ := hr q hq
        refine ⟨s0, ?_, w, ?_⟩
        · show s0 ∈ (see s x).mem.start
          rw [see_mem]; exact h0
        · show Path (KT v ((see s x).keys ++ [act])) s0 w q
          rw [see_keys]; exact hp
      · show x ∈ Vata.insN (see s x).mem.final x
        exact NfaS.mem_insN.mpr (Or.inr rfl)
      · exact mem_see_reach.mpr (Or.inr rfl)
    · rw [if_neg hf]
      have hxf : x ∉ v.mem.final := fun h' => hf (List.contains_iff_mem.mpr h')
      apply candInner_spec hk act xs
      · refine ⟨?_, fun h => ?_⟩
        · intro q hq
          obtain ⟨s0, h0, w, hp⟩ := hr q hq
          refine ⟨s0, ?_, w, ?_⟩
          · show s0 ∈ (see s x).mem.start
            rw [see_mem]; exact h0
          · show Path (KT v ((see s x).keys ++ [act])) s0 w q
            rw [see_keys]; exact hp
        · have : (see s x).done = true := h
          rw [see_done, hm.nd] at this; cases this
      · refine ⟨?_, ?_, ?_, ?_, ?_, ?_, ?_⟩
        · show (see s x).done = false
          rw [see_done]; exact hm.nd
        · intro q hq
          rcases mem_see_queue.mp hq with h' | ⟨h', _⟩
          · exact mem_see_reach.mpr (Or.inl (hm.hq q h'))
          · exact mem_see_reach.mpr (Or.inr h')
        · intro q hq
          rcases mem_see_reach.mp hq with h' | h'
          · exact hm.hnf q h'
          · rw [h']; exact hxf
        · intro q hq; exact mem_see_reach.mpr (Or.inl (hm.hst q hq))
        · intro p hp
          have old : ∀ p, p ∈ s.reach → p ∈ (see s x).queue ∨
              (p = act ∧ ∀ a q, (act, a, q) ∈ transOf v.trans → q ∈ (see s x).reach ∨ q ∈ xs) ∨
              ∀ a q, (p, a, q) ∈ transOf v.trans → q ∈ (see s x).reach := by
            intro p h'
            rcases hm.hexp p h' with h'' | ⟨h1, h2⟩ | h''
            · exact Or.inl (mem_see_queue.mpr (Or.inl h''))
            · refine Or.inr (Or.inl ⟨h1, fun b q he => ?_⟩)
              rcases h2 b q he with h3 | h3
              · exact Or.inl (mem_see_reach.mpr (Or.inl h3))
              · rcases List.mem_cons.mp h3 with h4 | h4
                · exact Or.inl (mem_see_reach.mpr (Or.inr h4))
                · exact Or.inr h4
            · exact Or.inr (Or.inr (fun b q he => mem_see_reach.mpr (Or.inl (h'' b q he))))
          rcases mem_see_reach.mp hp with h' | h'
          · exact old p h'
          · by_cases hxs : x ∈ s.reach
            · rw [h']; exact old x hxs
            · exact Or.inl (mem_see_queue.mpr (Or.inr ⟨h', hxs⟩))
        · exact mem_see_reach.mpr (Or.inl hm.hact)
        · intro y hy; exact hm.hxs y (List.mem_cons_of_mem _ hy)

/-- the `while` loop: whatever the fuel, the general invariant is kept, and the loop invariant as long as no `return` was
    reached -/
theorem candLoop_spec {v : FAVal} (hk : KeysNodup v.trans) :
    ∀ (n : Nat) (s : CandSt), CI v s → (s.done = false → CL v s) →
      CI v (candLoop v n s) ∧ ((candLoop v n s).done = false → CL v (candLoop v n s))
  | 0, s, hi, hl => ⟨hi, hl⟩
  | n + 1, s, hi, hl => by
    simp only [candLoop]
    split
    · exact ⟨hi, hl⟩
    · rename_i hd
      have hd' : s.done = false := by cases h : s.done <;> simp_all
      have L := hl hd'
      split
      · exact ⟨hi, hl⟩
      · rename_i act q hq
        have hact : act ∈ s.reach := L.hq act (by rw [hq]; exact List.mem_cons_self)
        split
        · rename_i hnone
          apply candLoop_spec hk n
          · exact ⟨hi.hreach, hi.hdone⟩
          · intro _
            refine ⟨fun x hx => L.hq x (by rw [hq]; exact List.mem_cons_of_mem _ hx), L.hnf, L.hst, fun p hp => ?_⟩
            rcases L.hexp p hp with h' | h'
            · rw [hq] at h'
              rcases List.mem_cons.mp h' with h'' | h''
              · refine Or.inr (fun a x he => ?_)
                rw [h''] at he
                obtain ⟨c, hc, _⟩ := (succ_iff hk).mpr ⟨a, he⟩
                rw [hnone] at hc; cases hc
              · exact Or.inl h''
            · exact Or.inr h'
        · rename_i c hsome
          have hsp := candInner_spec hk act (targets c) { s with queue := q } ⟨hi.hreach, hi.hdone⟩
            ⟨hd', fun x hx => L.hq x (by rw [hq]; exact List.mem_cons_of_mem _ hx), L.hnf, L.hst, fun p hp => by
              rcases L.hexp p hp with h' | h'
              · rw [hq] at h'
                rcases List.mem_cons.mp h' with h'' | h''
                · refine Or.inr (Or.inl ⟨h'', fun a x he => Or.inr ?_⟩)
                  obtain ⟨c', hc', hx⟩ := (succ_iff hk).mpr ⟨a, he⟩
                  rw [hsome] at hc'; cases hc'; exact hx
                · exact Or.inl h''
              · exact Or.inr (Or.inr h'), hact,
              fun x hx => (succ_iff hk).mp ⟨c, hsome, hx⟩⟩
          exact candLoop_spec hk n _ hsp.1 hsp.2

/-- the scan of the start states -/
theorem candStart_spec (v : FAVal) :
    ∀ (l : List Nat) (s : CandSt), s.done = false → (∀ q, q ∈ s.reach ↔ q ∈ s.queue) →
      (∀ q, q ∈ s.reach → q ∉ v.mem.final) → (∀ q, q ∈ s.reach → q ∈ s.mem.start) →
      (∀ q, q ∈ (candStart v l s).reach → q ∈ (candStart v l s).mem.start) ∧
      ((candStart v l s).done = true → ∃ q, q ∈ (candStart v l s).mem.final ∧ q ∈ (candStart v l s).reach) ∧
      (candStart v l s).keys = s.keys ∧
      ((candStart v l s).done = false →
        (∀ q, q ∈ (candStart v l s).reach ↔ q ∈ (candStart v l s).queue) ∧
        (∀ q, q ∈ (candStart v l s).reach → q ∉ v.mem.final) ∧
        (∀ q, q ∈ s.reach → q ∈ (candStart v l s).reach) ∧ (∀ q, q ∈ l → q ∈ (candStart v l s).reach))
  | [], s, hd, hq, hnf, hs =>
    ⟨hs, fun h => absurd (show s.done = true from h) (by rw [hd]; exact Bool.false_ne_true), rfl,
      fun _ => ⟨hq, hnf, fun _ h => h, fun _ h => nomatch h⟩⟩
  | x :: l, s, hd, hq, hnf, hs => by
    rw [candStart_cons]
    by_cases hf : v.mem.final.contains x = true
    · rw [if_pos hf]
      refine ⟨?_, fun _ => ⟨x, NfaS.mem_insN.mpr (Or.inr rfl), mem_see_reach.mpr (Or.inr rfl)⟩, see_keys s x,
        fun h => by simp at h⟩
      intro q hq'
      show q ∈ Vata.insN (see s x).mem.start x
      rw [see_mem]
      rcases mem_see_reach.mp hq' with h | h
      · exact NfaS.mem_insN.mpr (Or.inl (hs q h))
      · exact NfaS.mem_insN.mpr (Or.inr h)
    · rw [if_neg hf]
      have hxf : x ∉ v.mem.final := fun h' => hf (List.contains_iff_mem.mpr h')
      have ih := candStart_spec v l ⟨(see s x).reach, (see s x).queue,
          ⟨(see s x).mem.final, Vata.insN (see s x).mem.start x, smInsert (see s x).mem.ssym x (smGet v.mem.ssym x)⟩,
          (see s x).keys, (see s x).done⟩
        (by show (see s x).done = false; rw [see_done]; exact hd)
        (by
          intro q
          show q ∈ (see s x).reach ↔ q ∈ (see s x).queue
          rw [mem_see_reach, mem_see_queue, hq q]
          constructor
          · rintro (h | h)
            · exact Or.inl h
            · by_cases hx : x ∈ s.reach
              · exact Or.inl ((hq q).mp (h ▸ hx))
              · exact Or.inr ⟨h, hx⟩
          · rintro (h | ⟨h, _⟩)
            · exact Or.inl h
            · exact Or.inr h)
        (by
          intro q hq'
          rcases mem_see_reach.mp hq' with h | h
          · exact hnf q h
          · rw [h]; exact hxf)
        (by
          intro q hq'
          show q ∈ Vata.insN (see s x).mem.start x
          rw [see_mem]
          rcases mem_see_reach.mp hq' with h | h
          · exact NfaS.mem_insN.mpr (Or.inl (hs q h))
          · exact NfaS.mem_insN.mpr (Or.inr h))
      refine ⟨ih.1, ih.2.1, ih.2.2.1.trans (see_keys s x), fun h => ?_⟩
      obtain ⟨h1, h2, h3, h4⟩ := ih.2.2.2 h
      refine ⟨h1, h2, fun q hq' => h3 q (mem_see_reach.mpr (Or.inl hq')), fun q hq' => ?_⟩
      rcases List.mem_cons.mp hq' with h' | h'
      · exact h3 q (mem_see_reach.mpr (Or.inr h'))
      · exact h4 q h'

/-- **the state of `GetCandidateTree` at its `return`**, for a value with one cluster per state: every reached state is
    reached inside `res`; either a `return` inside a loop was taken and a final state of `res` is reached, or the queue is
    empty, no reached state is final and the reached states are closed under the transitions of the object -/
theorem candSearch_inv (v : FAVal) (hk : KeysNodup v.trans) :
    CI v (candSearch v) ∧ ((candSearch v).done = false → CL v (candSearch v) ∧ (candSearch v).queue = []) := by
  have h0 := candStart_spec v v.mem.start ⟨[], [], ⟨[], [], []⟩, [], false⟩ rfl (fun _ => Iff.rfl)
    (fun _ h => nomatch h) (fun _ h => nomatch h)
  have hsp := candLoop_spec hk (v.mem.start.length + (transOf v.trans).length + 1)
    (candStart v v.mem.start ⟨[], [], ⟨[], [], []⟩, [], false⟩)
    ⟨fun q hq => ⟨q, h0.1 q hq, [], .nil q⟩, h0.2.1⟩
    (fun hd => by
      obtain ⟨h1, h2, _, h4⟩ := h0.2.2.2 hd
      exact ⟨fun q hq => (h1 q).mpr hq, h2, h4, fun p hp => Or.inl ((h1 p).mp hp)⟩)
  refine ⟨hsp.1, fun hd => ⟨hsp.2 hd, ?_⟩⟩
  rcases candSearch_end v with h | h
  · rw [hd] at h; cases h
  · exact h

/-- **`GetCandidateTree` before its final `RemoveUselessStates`**: for a value with one cluster per state the local `res`
    accepts some word whenever the object does -/
theorem vCandRaw_nonempty (v : FAVal) (hk : KeysNodup v.trans) (hne : ∃ w, acceptsW v.toNFA w = true) :
    ∃ w, acceptsW (vCandRaw v).toNFA w = true := by
  obtain ⟨hi, hl⟩ := candSearch_inv v hk
  cases hd : (candSearch v).done with
  | true =>
    obtain ⟨q, hqf, hqr⟩ := hi.hdone hd
    obtain ⟨s0, h0, w, hp⟩ := hi.hreach q hqr
    exact ⟨w, (acceptsW_iff _ _).mpr ⟨s0, h0, q, hqf, Path.mono (N := KT v (candSearch v).keys) (M := (vCandRaw v).toNFA) (fun _ h => h) hp⟩⟩
  | false =>
    exfalso
    obtain ⟨L, hq⟩ := hl hd
    obtain ⟨w, hw⟩ := hne
    obtain ⟨s, hs, q, hqf, hp⟩ := (acceptsW_iff _ w).mp hw
    have hstep : ∀ p a q, (p, a, q) ∈ v.toNFA.trans → p ∈ (candSearch v).reach →
        (p, a, q) ∈ v.toNFA.trans ∧ q ∈ (candSearch v).reach := by
      intro p a q he hps
      rcases L.hexp p hps with h' | h'
      · rw [hq] at h'; exact nomatch h'
      · exact ⟨he, h' a q he⟩
    exact L.hnf q (Path.restrict (U := v.toNFA) (A := v.toNFA) (fun x => x ∈ (candSearch v).reach) hstep hp
      (L.hst s hs)).2 hqf

/-- the language of `GetCandidateTree()` is the language of its local `res` -/
theorem vCandidate_lang_raw (v : FAVal) (w : List Nat) :
    acceptsW (vCandidate v).toNFA w = acceptsW (vCandRaw v).toNFA w := by
  have := (vCandidate_denote_useless v).lang w
  rw [nfasRemoveUseless_lang] at this
  exact this

/-- **`GetCandidateTree()`**: non-empty exactly when the language of the object is -/
theorem vCandidate_nonempty_iff (v : FAVal) (hk : KeysNodup v.trans) :
    (∃ w, acceptsW (vCandidate v).toNFA w = true) ↔ ∃ w, acceptsW v.toNFA w = true := by
  constructor
  · rintro ⟨w, hw⟩; exact ⟨w, vCandidate_sub_lang v w hw⟩
  · intro hne
    obtain ⟨w, hw⟩ := vCandRaw_nonempty v hk hne
    exact ⟨w, by rw [vCandidate_lang_raw]; exact hw⟩

end Vata.CowHeapFA
