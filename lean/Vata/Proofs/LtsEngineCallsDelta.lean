import Vata.Proofs.LtsEngineCallsRun2
/-!
# The instrumented LTS engine: the `SmartSet` calls of `ExplicitLTS::buildDelta1` are inside the discipline, for every LTS

`deltaOK_of_ltsOK : ltsOKB L = true → DeltaOK L`.

```
delta1.resize(this->data_.size(), Util::SmartSet(this->states_));
for (a …) for (q = 0; q < data_[a].first.size(); ++q) delta1[a].init(q, delta1[a].count(q) + data_[a].first[q].size());
```
Every `q` is visited once and in increasing order, so `init(q, c)` never meets a member: with `c > 0` it appends `(q, c)` behind an
intact `last_`; with `c = 0` it erases nothing (and the last key, being smaller than `q`, is not `q`: `last_` stays intact).
The set `delta1[a]` ends as the states `< data_[a].first.size()` with a positive number of `a`-successors, which is `dItems L a`
(`data_[a].first.size()` = `srcBound L a` is at most `L.n` and above every source of an `a`-edge).
-/
namespace Vata.LEC
open Vata.L Vata.LE Vata.LU

/-! ### `srcBound` -/

theorem srcBound_fold_le (a N : Nat) : ∀ (l : List (Nat × Nat × Nat)) (m : Nat), m ≤ N → (∀ e, e ∈ l → e.1 < N) →
    l.foldl (fun m e => if e.2.1 == a then max m (e.1 + 1) else m) m ≤ N
  | [], _, hm, _ => hm
  | e :: l, m, hm, hl => by
    simp only [List.foldl_cons]
    apply srcBound_fold_le a N l _ _ (fun x hx => hl x (List.mem_cons_of_mem _ hx))
    have := hl e List.mem_cons_self
    split <;> omega

theorem srcBound_fold_ge (a : Nat) : ∀ (l : List (Nat × Nat × Nat)) (m : Nat),
    m ≤ l.foldl (fun m e => if e.2.1 == a then max m (e.1 + 1) else m) m ∧
    ∀ e, e ∈ l → e.2.1 = a → e.1 < l.foldl (fun m e => if e.2.1 == a then max m (e.1 + 1) else m) m
  | [], m => ⟨Nat.le_refl _, fun _ h => by cases h⟩
  | e :: l, m => by
    simp only [List.foldl_cons]
    obtain ⟨h1, h2⟩ := srcBound_fold_ge a l (if e.2.1 == a then max m (e.1 + 1) else m)
    refine ⟨?_, ?_⟩
    · refine Nat.le_trans ?_ h1
      split <;> omega
    · intro x hx hxa
      rcases List.mem_cons.1 hx with hx | hx
      · subst hx
        have : (x.2.1 == a) = true := by simpa using hxa
        simp only [this, if_true] at h1 ⊢
        omega
      · exact h2 x hx hxa

theorem srcBound_le {L : LTS} (hL : LtsOK L) (a : Nat) : srcBound L a ≤ L.n :=
  srcBound_fold_le a L.n L.edges 0 (Nat.zero_le _) (fun e he => (hL e he).1)

theorem lt_srcBound {L : LTS} {q a r : Nat} (h : (q, a, r) ∈ L.edges) : q < srcBound L a :=
  (srcBound_fold_ge a L.edges 0).2 _ h rfl

theorem post_pos_iff (L : LTS) (a q : Nat) : decide (0 < (post L a q).length) = hasOut L a q := by
  rw [Bool.eq_iff_iff, decide_eq_true_eq, hasOut_iff]
  constructor
  · intro h
    cases hp : post L a q with
    | nil => rw [hp] at h; cases h
    | cons r _ => exact ⟨r, (mem_post L a q r).1 (by rw [hp]; exact List.mem_cons_self)⟩
  · rintro ⟨r, hr⟩
    exact List.length_pos_of_mem ((mem_post L a q r).2 hr)

/-- the items `buildDelta1` leaves in `delta1[a]` -/
def dBuilt (f : Nat → Nat) (m : Nat) : List (Nat × Nat) := ((List.range m).filter (fun q => decide (0 < f q))).map (fun q => (q, f q))

theorem filter_range_add (p : Nat → Bool) (m : Nat) : ∀ k, (∀ q, m ≤ q → q < m + k → p q = false) →
    (List.range (m + k)).filter p = (List.range m).filter p
  | 0, _ => rfl
  | k + 1, h => by
    rw [← Nat.add_assoc, List.range_succ, List.filter_append, filter_range_add p m k (fun q h1 h2 => h q h1 (by omega))]
    simp [h (m + k) (by omega) (by omega)]

theorem dBuilt_eq {L : LTS} (hL : LtsOK L) (a : Nat) :
    dBuilt (fun q => (post L a q).length) (srcBound L a) = dItems L a := by
  unfold dBuilt dItems delta1
  have hle := srcBound_le hL a
  have e : L.n = srcBound L a + (L.n - srcBound L a) := by omega
  rw [e, filter_range_add]
  · congr 1
    apply List.filter_congr
    intro q _
    exact post_pos_iff L a q
  · intro q h1 _
    apply Bool.eq_false_iff.2
    intro hq
    obtain ⟨r, hr⟩ := (hasOut_iff L a q).1 hq
    have := lt_srcBound hr
    omega

/-! ### the `init(q, c)` calls on one set, `q = 0, 1, …` -/

theorem aSet_fresh : ∀ (l : List (Nat × Nat)) (a n : Nat), (∀ kc, kc ∈ l → kc.1 ≠ a) → SS.aSet l a n = l ++ [(a, n)]
  | [], _, _, _ => rfl
  | (b, c) :: l, a, n, h => by
    have hb : ¬ (b == a) = true := by simpa using h (b, c) List.mem_cons_self
    simp only [SS.aSet, hb, if_false, Bool.false_eq_true, List.cons_append]
    rw [aSet_fresh l a n (fun kc hkc => h kc (List.mem_cons_of_mem _ hkc))]

theorem aErase_fresh (l : List (Nat × Nat)) (a : Nat) (h : ∀ kc, kc ∈ l → kc.1 ≠ a) : SS.aErase l a = l := by
  unfold SS.aErase
  rw [List.filter_eq_self]
  intro kc hkc
  simpa using h kc hkc

theorem dBuilt_key_lt {f : Nat → Nat} {m : Nat} {kc : Nat × Nat} (h : kc ∈ dBuilt f m) : kc.1 < m := by
  unfold dBuilt at h
  obtain ⟨q, hq, rfl⟩ := List.mem_map.1 h
  exact List.mem_range.1 (List.mem_filter.1 hq).1

theorem dBuilt_succ (f : Nat → Nat) (m : Nat) :
    dBuilt f (m + 1) = if 0 < f m then dBuilt f m ++ [(m, f m)] else dBuilt f m := by
  unfold dBuilt
  rw [List.range_succ, List.filter_append, List.map_append]
  by_cases h : 0 < f m <;> simp [h]

theorem inits_ok (o R : Nat) (f : Nat → Nat) : ∀ (m : Nat) (aw : SS.AWorld), m ≤ R → aw[o]? = some ⟨[], R, false⟩ →
    SS.okAll aw ((List.range m).map (fun q => SS.Op.init o q (f q))) = true ∧
      SS.aRun aw ((List.range m).map (fun q => SS.Op.init o q (f q))) = aw.set o ⟨dBuilt f m, R, false⟩
  | 0, aw, _, h => ⟨rfl, (set_of_get h).symm⟩
  | m + 1, aw, hm, h => by
    obtain ⟨h1, h2⟩ := inits_ok o R f m aw (by omega) h
    have hlo := lt_of_get h
    have hget : (aw.set o ⟨dBuilt f m, R, false⟩)[o]? = some ⟨dBuilt f m, R, false⟩ := List.getElem?_set_self hlo
    have hfresh : ∀ kc, kc ∈ dBuilt f m → kc.1 ≠ m := fun kc hkc => Nat.ne_of_lt (dBuilt_key_lt hkc)
    have hok : SS.ok (aw.set o ⟨dBuilt f m, R, false⟩) (SS.Op.init o m (f m)) = true := by
      simp only [SS.ok, hget, Bool.not_false, Bool.or_true, Bool.and_true, decide_eq_true_eq]
      omega
    have hst : SS.aStep (aw.set o ⟨dBuilt f m, R, false⟩) (SS.Op.init o m (f m)) = aw.set o ⟨dBuilt f (m + 1), R, false⟩ := by
      simp only [SS.aStep, hget, dBuilt_succ]
      by_cases hc : 0 < f m
      · have hc' : f m > 0 := hc
        rw [if_pos hc', if_pos hc, aSet_fresh _ _ _ hfresh, List.set_set]
      · have hc' : ¬ f m > 0 := hc
        rw [if_neg hc', if_neg hc, aErase_fresh _ _ hfresh, List.set_set]
        cases hl : (dBuilt f m).getLast? with
        | none => rfl
        | some bc =>
          obtain ⟨b, c⟩ := bc
          have hb : (b == m) = false := by simpa using hfresh (b, c) (List.mem_of_getLast? hl)
          simp only [hb]; rfl
    rw [List.range_succ, List.map_append, okAll_append, aRun_append, h1, h2]
    refine ⟨?_, ?_⟩
    · simp only [List.map_cons, List.map_nil, SS.okAll, hok, Bool.and_self]
    · simp only [List.map_cons, List.map_nil, SS.aRun, hst]

/-! ### the copies of the temporary -/

theorem copies_ok (R : Nat) : ∀ (k : Nat) (aw : SS.AWorld), aw[0]? = some ⟨[], R, false⟩ →
    SS.okAll aw ((List.range k).map (fun _ => SS.Op.copy 0)) = true ∧
      SS.aRun aw ((List.range k).map (fun _ => SS.Op.copy 0)) = aw ++ List.replicate k ⟨[], R, false⟩
  | 0, aw, _ => ⟨rfl, by simp [SS.aRun]⟩
  | k + 1, aw, h => by
    obtain ⟨h1, h2⟩ := copies_ok R k aw h
    have h0 : (aw ++ List.replicate k (⟨[], R, false⟩ : SS.A))[0]? = some ⟨[], R, false⟩ := by
      rw [List.getElem?_append_left (lt_of_get h)]; exact h
    rw [List.range_succ, List.map_append, okAll_append, aRun_append, h1, h2]
    refine ⟨?_, ?_⟩
    · have := lt_of_get h
      simp [SS.okAll, SS.ok]; omega
    · simp only [List.map_cons, List.map_nil, SS.aRun, SS.aStep, h0, List.append_assoc]
      rw [List.replicate_succ']

/-! ### the loop over the labels -/

/-- the world while `buildDelta1` fills the sets: `delta1[a]` is complete for `a < k` -/
def dWorld (L : LTS) (k : Nat) : SS.AWorld :=
  ⟨[], L.n, false⟩ :: (List.range (labels L)).map (fun a => if a < k then ⟨dItems L a, L.n, false⟩ else ⟨[], L.n, false⟩)

theorem dWorld_get (L : LTS) (k : Nat) {a : Nat} (ha : a < labels L) :
    (dWorld L k)[a + 1]? = some (if a < k then ⟨dItems L a, L.n, false⟩ else ⟨[], L.n, false⟩) := by
  simp [dWorld, ha]

theorem dWorld_step (L : LTS) {k : Nat} (hk : k < labels L) :
    (dWorld L k).set (k + 1) ⟨dItems L k, L.n, false⟩ = dWorld L (k + 1) := by
  apply List.ext_getElem?
  intro j
  rw [List.getElem?_set]
  cases j with
  | zero => simp [dWorld]
  | succ j =>
    by_cases hj : j < labels L
    · rw [dWorld_get L _ hj, dWorld_get L _ hj]
      by_cases hjk : k = j
      · subst hjk
        simp [dWorld, hj]
      · have : ¬ k + 1 = j + 1 := by omega
        rw [if_neg this]
        by_cases h1 : j < k
        · rw [if_pos h1, if_pos (by omega)]
        · rw [if_neg h1, if_neg (by omega)]
    · have hl : ∀ k', (dWorld L k').length = labels L + 1 := fun k' => by simp [dWorld]
      have h1 : (dWorld L (k + 1))[j + 1]? = none := List.getElem?_eq_none (by rw [hl]; omega)
      have h2 : (dWorld L k)[j + 1]? = none := List.getElem?_eq_none (by rw [hl]; omega)
      rw [h1, h2]
      split
      · rw [if_neg (by rw [hl]; omega)]
      · rfl

theorem labels_loop {L : LTS} (hL : LtsOK L) : ∀ k, k ≤ labels L →
    SS.okAll (dWorld L 0) ((List.range k).flatMap (fun a =>
        (List.range (srcBound L a)).map (fun q => SS.Op.init (a + 1) q (post L a q).length))) = true ∧
      SS.aRun (dWorld L 0) ((List.range k).flatMap (fun a =>
        (List.range (srcBound L a)).map (fun q => SS.Op.init (a + 1) q (post L a q).length))) = dWorld L k
  | 0, _ => ⟨rfl, rfl⟩
  | k + 1, hk => by
    obtain ⟨h1, h2⟩ := labels_loop hL k (by omega)
    have hget : (dWorld L k)[k + 1]? = some ⟨[], L.n, false⟩ := by
      rw [dWorld_get L k (by omega), if_neg (Nat.lt_irrefl k)]
    obtain ⟨g1, g2⟩ := inits_ok (k + 1) L.n (fun q => (post L k q).length) (srcBound L k) (dWorld L k) (srcBound_le hL k) hget
    rw [dBuilt_eq hL k, dWorld_step L (by omega)] at g2
    rw [List.range_succ, List.flatMap_append, okAll_append, aRun_append, h1, h2]
    simp only [List.flatMap_cons, List.flatMap_nil, List.append_nil, g1, g2, Bool.and_self, and_self]

theorem dWorld_zero (L : LTS) : dWorld L 0 = [⟨[], L.n, false⟩] ++ List.replicate (labels L) ⟨[], L.n, false⟩ := by
  apply List.ext_getElem?
  intro j
  cases j with
  | zero => simp [dWorld]
  | succ j =>
    by_cases hj : j < labels L
    · rw [dWorld_get L 0 hj]; simp [hj]
    · rw [List.getElem?_eq_none (by simp [dWorld]; omega), List.getElem?_eq_none (by simp; omega)]

theorem dWorld_full (L : LTS) : dWorld L (labels L) = aDelta L := by
  unfold dWorld aDelta
  congr 1
  apply List.map_congr_left
  intro a ha
  rw [if_pos (List.mem_range.1 ha)]

/-- **`buildDelta1` is inside the `SmartSet` discipline and builds the sets `delta1[a]`, for every LTS whose edges are in
range** -/
theorem deltaOK_of_LtsOK {L : LTS} (hL : LtsOK L) : DeltaOK L := by
  obtain ⟨c1, c2⟩ := copies_ok L.n (labels L) [⟨[], L.n, false⟩] rfl
  obtain ⟨l1, l2⟩ := labels_loop hL (labels L) (Nat.le_refl _)
  rw [← dWorld_zero] at c2
  unfold DeltaOK delta1T
  refine ⟨?_, ?_⟩
  · show (SS.ok [] (SS.Op.new L.n) && SS.okAll [SS.aMk L.n] _) = true
    rw [okAll_append]
    show (true && (SS.okAll [⟨[], L.n, false⟩] _ && SS.okAll (SS.aRun [⟨[], L.n, false⟩] _) _)) = true
    rw [c1, c2, l1]; rfl
  · show SS.aRun [SS.aMk L.n] _ = _
    rw [aRun_append]
    show SS.aRun (SS.aRun [⟨[], L.n, false⟩] _) _ = _
    rw [c2, l2, dWorld_full]

theorem deltaOK_of_ltsOK {L : LTS} (h : ltsOKB L = true) : DeltaOK L := deltaOK_of_LtsOK (ltsOK_of_B h)

end Vata.LEC
