import Vata.LtsEngine
/-!
# Self-test of the engine model against the reference `ltsSimOut`

Pseudo-random systems (linear congruential generator, fixed seeds): 1–6 states, 1–3 labels, 0–3n edges (parallel edges
and self-loops occur), a random partition into ≤ 4 blocks with a random reflexive relation closed under transitivity,
output sizes `0..n`; and the two overloads without partition.  `checkRange lo hi` returns
(cases whose result equals the reference as a set, cases with result `none`, cases).
-/
namespace Vata.LE.EngTest
open Vata.L Vata.LE

def relEqB (a b : Rel) : Bool := a.all b.contains && b.all a.contains

def nxt (s : Nat) : Nat := (s * 6364136223846793005 + 1442695040888963407) % (2^64)
def rnd (s : Nat) (k : Nat) : Nat × Nat := let s' := nxt s; ((s' / 2^33) % k, s')

def genEdges : Nat → Nat → Nat → Nat → List (Nat × Nat × Nat) × Nat
  | 0, _, _, s => ([], s)
  | k+1, n, m, s =>
    let (a, s) := rnd s n; let (b, s) := rnd s m; let (c, s) := rnd s n
    let (r, s) := genEdges k n m s
    ((a, b, c) :: r, s)

def genNums : Nat → Nat → Nat → List Nat × Nat
  | 0, _, s => ([], s)
  | k+1, nb, s => let (b, s) := rnd s nb; let (r, s) := genNums k nb s; (b :: r, s)

def genPairs : Nat → Nat → Nat → List (Nat × Nat) × Nat
  | 0, _, s => ([], s)
  | k+1, nb, s => let (a, s) := rnd s nb; let (b, s) := rnd s nb; let (r, s) := genPairs k nb s; ((a, b) :: r, s)

def transClose (r : Rel) : Nat → Rel
  | 0 => r
  | k+1 =>
    let r' := r ++ (r.flatMap (fun p => r.filterMap (fun p' =>
      if p.2 == p'.1 && !(r.contains (p.1, p'.2)) then some (p.1, p'.2) else none))).eraseDups
    if r'.length == r.length then r else transClose r' k

structure Case where
  L : LTS
  part : List (List Nat)
  rel : Rel
  k : Nat
  overload : Nat

def genCase (seed : Nat) (trans : Bool) : Case :=
  let s := nxt (nxt seed)
  let (n, s) := rnd s 6; let n := n + 1
  let (m, s) := rnd s 3; let m := m + 1
  let (ne, s) := rnd s (3 * n + 1)
  let (es, s) := genEdges ne n m s
  let (nb, s) := rnd s (min n 4); let nb := nb + 1
  let (asg, s) := genNums n nb s
  let blocks := (List.range nb).map (fun b => (List.range n).filter (fun q => asg.getD q 0 == b))
  let blocks := blocks.filter (fun b => !b.isEmpty)
  let nb := blocks.length
  let (np, s) := rnd s (nb * nb + 1)
  let (ps, s) := genPairs np nb s
  let r := ((List.range nb).map (fun i => (i, i)) ++ ps).eraseDups
  let r := if trans then transClose r 20 else r
  let (kk, s) := rnd s (2 * n + 1)
  let k := if kk > n then n else kk
  let (ov, _) := rnd s 5
  ⟨⟨n, es⟩, blocks, r, k, if ov ≥ 3 then ov - 2 else 0⟩

/-- (equal to the reference, result is `none`) -/
def runCase (c : Case) : Bool × Bool :=
  let (res, ref) :=
    if c.overload == 0 then (computeSimulation c.L c.part c.rel c.k, ltsSimOut c.L (initRel c.part c.rel) c.k)
    else if c.overload == 1 then (computeSimulation1 c.L c.k, ltsSimOut c.L (fullRel c.L.n) c.k)
    else (computeSimulation0 c.L, ltsSimOut c.L (fullRel c.L.n) c.L.n)
  match res with
  | none => (false, true)
  | some R => (relEqB R ref, false)

def checkRange (lo hi : Nat) (trans : Bool) : Nat × Nat × Nat :=
  (List.range (hi - lo)).foldl (fun (acc : Nat × Nat × Nat) i =>
    let (ok, non) := runCase (genCase (lo + i) trans)
    (acc.1 + (if ok then 1 else 0), acc.2.1 + (if non then 1 else 0), acc.2.2 + 1)) (0, 0, 0)

/-- distribution: (cases with partition, overload 1, overload 2, output size < n, systems with ≥ 2 blocks,
cases in which `run` had work to do) -/
def distribution (lo hi : Nat) : Nat × Nat × Nat × Nat × Nat × Nat :=
  (List.range (hi - lo)).foldl (fun acc i =>
    let c := genCase (lo + i) true
    let busy := !(engineInit c.L c.part c.rel).queue.isEmpty
    (acc.1 + (if c.overload == 0 then 1 else 0), acc.2.1 + (if c.overload == 1 then 1 else 0),
      acc.2.2.1 + (if c.overload == 2 then 1 else 0), acc.2.2.2.1 + (if c.k < c.L.n then 1 else 0),
      acc.2.2.2.2.1 + (if c.part.length ≥ 2 then 1 else 0), acc.2.2.2.2.2 + (if busy then 1 else 0)))
    (0, 0, 0, 0, 0, 0)

-- 600 systems, preorders on the blocks: all equal to the reference, no `none`
#guard checkRange 0 600 true == (600, 0, 600)
#guard distribution 0 600 == (373, 127, 100, 266, 288, 230)

-- a few fixed ones
#guard computeSimulation0 exL == some [(2, 2), (2, 0), (2, 1), (0, 0), (0, 1), (1, 1)]
#guard computeSimulation exL [[0, 1], [2]] [(0, 0), (0, 1), (1, 1)] 3 == some [(0, 0), (0, 1), (2, 2), (1, 1)]
#guard computeSimulation1 exL 2 == some [(0, 0), (0, 1), (1, 1)]
#guard computeSimulation1 exL 0 == some []
-- parallel edges, a label-1 loop, a state without outgoing and one without incoming edges
#guard (computeSimulation0 ⟨4, [(0, 0, 1), (0, 0, 1), (0, 1, 0), (2, 0, 1), (2, 0, 3)]⟩).map
    (relEqB (ltsSimRef ⟨4, [(0, 0, 1), (0, 0, 1), (0, 1, 0), (2, 0, 1), (2, 0, 3)]⟩ (fullRel 4))) == some true

end Vata.LE.EngTest
