import Vata.Proofs.RcStoreW
/-!
# Counters of nodes that are not allocated are 0 (auxiliary invariant of the unbounded store `RcS`)

`RcS.Store.rc` is a total function; the invariant `RcS.Inv` speaks about the counters of allocated nodes only.  For the
*equality* of the `w`-bit store and the unbounded store (and not only equality on the allocated nodes) the stale counters
matter: a node is deleted only when its counter is 0, a fresh node gets counter 0, and only allocated nodes are ever
incremented – so after every history every node that is not allocated has counter 0 (`runF_Zr`).
-/
namespace Vata.RcSW
open Vata.R (Data)
open Vata.RcS

/-- every node that is not allocated has counter 0 -/
def Zr (s : Store) : Prop := ∀ n, n ∉ s.ids → s.rc n = 0

theorem Zr_incRef {s : Store} {n : Nat} (h : Zr s) (hn : n ∈ s.ids) : Zr (RcS.incRef s n) := by
  intro x hx
  have hx' : x ∉ s.ids := hx
  have : x ≠ n := fun e => hx' (e ▸ hn)
  simp only [RcS.incRef, RcS.incrRc, this, if_false]
  exact h x hx'

theorem Zr_allocLeaf {s : Store} {v : Nat} (h : Zr s) : Zr (allocLeaf s v) := by
  intro x hx
  have hx' : x ∉ s.next :: s.ids := hx
  simp only [List.mem_cons, not_or] at hx'
  simp only [allocLeaf, setF, hx'.1, if_false]
  exact h x hx'.2

theorem Zr_spawnLeaf {s : Store} {v : Nat} (h : Zr s) : Zr (spawnLeaf s v).1 := by
  unfold spawnLeaf; split
  · exact h
  · exact Zr_allocLeaf h

theorem Zr_allocInt {s : Store} {lo hi var : Nat} (h : Zr s) (hlo : lo ∈ s.ids) (hhi : hi ∈ s.ids) :
    Zr (RcS.allocInt s lo hi var) := by
  unfold RcS.allocInt
  apply Zr_incRef
  · apply Zr_incRef
    · intro x hx
      have hx' : x ∉ s.next :: s.ids := hx
      simp only [List.mem_cons, not_or] at hx'
      simp only [setF, hx'.1, if_false]
      exact h x hx'.2
    · exact List.mem_cons_of_mem _ hlo
  · exact List.mem_cons_of_mem _ hhi

theorem Zr_spawnInternal {s : Store} {lo hi var : Nat} (h : Zr s) (hlo : lo ∈ s.ids) (hhi : hi ∈ s.ids) :
    Zr (RcS.spawnInternal s lo hi var).1 := by
  unfold RcS.spawnInternal; split
  · exact h
  · exact Zr_allocInt h hlo hhi

theorem Zr_buildCube (sink : Nat) : ∀ (as : List (Option Bool)) (s : Store) (proc i : Nat), WInv s [] → sink ∈ s.ids →
    proc ∈ s.ids → Zr s → Zr (RcS.buildCube sink s proc i as).1
  | [], _, _, _, _, _, _, hz => hz
  | none :: as, s, proc, i, hw, hs, hp, hz => by
    simp only [RcS.buildCube]; exact Zr_buildCube sink as s proc (i+1) hw hs hp hz
  | some true :: as, s, proc, i, hw, hs, hp, hz => by
    simp only [RcS.buildCube]
    obtain ⟨w1, e1, m1, -, -⟩ := spawnInternal_inv (var := i) hw hs hp
    exact Zr_buildCube sink as _ _ (i+1) w1 (e1.ids _ hs) m1 (Zr_spawnInternal hz hs hp)
  | some false :: as, s, proc, i, hw, hs, hp, hz => by
    simp only [RcS.buildCube]
    obtain ⟨w1, e1, m1, -, -⟩ := spawnInternal_inv (var := i) hw hp hs
    exact Zr_buildCube sink as _ _ (i+1) w1 (e1.ids _ hs) m1 (Zr_spawnInternal hz hp hs)

theorem Zr_recDescend (f : Nat → Nat → Nat) : ∀ (fuel : Nat) (s : Store) (n1 n2 : Nat), WInv s [] → n1 ∈ s.ids →
    n2 ∈ s.ids → n1 + n2 < fuel → Zr s → Zr (RcS.recDescend f fuel s n1 n2).1
  | 0, _, _, _, _, _, _, hf, _ => by omega
  | fuel+1, s, n1, n2, h, h1, h2, hf, hz => by
    simp only [RcS.recDescend]
    split
    · exact Zr_spawnLeaf hz
    · rename_i hb
      obtain ⟨k11, k12, k21, k22, l1, l2⟩ := kids_ok h h1 h2 hb
      obtain ⟨w1, e1, m1, -⟩ := recDescend_inv f fuel s _ _ h k11 k21 (by omega)
      have z1 := Zr_recDescend f fuel s _ _ h k11 k21 (by omega) hz
      obtain ⟨w2, e2, m2, -⟩ := recDescend_inv f fuel _ _ _ w1 (e1.ids _ k12) (e1.ids _ k22) (by omega)
      have z2 := Zr_recDescend f fuel _ _ _ w1 (e1.ids _ k12) (e1.ids _ k22) (by omega) z1
      split
      · exact z2
      · exact Zr_spawnInternal z2 (e2.ids _ m1) m2

theorem Zr_decRef {s : Store} {n : Nat} (h : Zr s) : Zr (RcS.decRef s n) := by
  intro x hx
  have hx' : x ∉ s.ids := hx
  have := h x hx'
  simp only [RcS.decRef, Vata.R.decrRc]
  split
  · rename_i e; subst e; omega
  · exact this

theorem Zr_erase {s s' : Store} {n : Nat} (h : Zr s) (hz : s.rc n = 0) (hids : s'.ids = s.ids.erase n)
    (hrc : s'.rc = s.rc) : Zr s' := by
  intro x hx
  rw [hrc]
  by_cases e : x = n
  · rw [e]; exact hz
  · apply h x
    intro hm
    apply hx
    rw [hids]
    exact (List.mem_erase_of_ne e).mpr hm

theorem Zr_release : ∀ (fuel : Nat) (s : Store) (n : Nat), Zr s → Zr (RcS.release fuel s n)
  | 0, _, _, h => h
  | fuel+1, s, n, h => by
    simp only [RcS.release]
    split
    · rename_i hz
      split
      · exact Zr_erase (Zr_decRef h) hz rfl rfl
      · apply Zr_release fuel
        apply Zr_release fuel
        exact Zr_erase (Zr_decRef h) hz rfl rfl
    · exact Zr_decRef h

theorem Zr_addHandle {s : Store} {h r : Nat} (hz : Zr s) (hr : r ∈ s.ids) : Zr (RcS.addHandle s h r) :=
  Zr_incRef hz hr

theorem Zr_copy {s : Store} {src dst : Nat} (hi : Inv s) (hz : Zr s) : Zr (RcS.copy s src dst) := by
  unfold RcS.copy
  split
  · rename_i r hf _
    exact Zr_addHandle hz (hi.1.rin r (root_mem hf))
  · exact hz

theorem Zr_destroy {s : Store} {h : Nat} (hz : Zr s) : Zr (RcS.destroy s h) := by
  unfold RcS.destroy
  split
  · exact hz
  · exact Zr_release _ _ _ hz

theorem Zr_assign {s : Store} {src dst : Nat} (hi : Inv s) (hz : Zr s) : Zr (RcS.assign s src dst) := by
  unfold RcS.assign
  split
  · exact hz
  · split
    · exact Zr_copy (destroy_inv hi).1 (Zr_destroy hz)
    · exact hz

theorem Zr_apply2 (f : Nat → Nat → Nat) {s : Store} {a b dst : Nat} (hi : Inv s) (hz : Zr s) :
    Zr (RcS.apply2 f s a b dst) := by
  unfold RcS.apply2
  split
  · rename_i ra rb hfa hfb hfd
    have hra : ra ∈ s.ids := hi.1.rin ra (root_mem hfa)
    have hrb : rb ∈ s.ids := hi.1.rin rb (root_mem hfb)
    obtain ⟨-, -, m, -⟩ := recDescend_inv f (ra + rb + 1) s ra rb hi.1 hra hrb (Nat.lt_succ_self _)
    exact Zr_addHandle (Zr_recDescend f _ s ra rb hi.1 hra hrb (Nat.lt_succ_self _) hz) m
  · exact hz

theorem Zr_construct {s : Store} {h v d : Nat} {asgn : List (Option Bool)} (hi : Inv s) (hz : Zr s) :
    Zr (RcS.construct s h asgn v d) := by
  simp only [RcS.construct]
  split
  · exact hz
  · obtain ⟨w1, e1, m1, d1, -⟩ := spawnLeaf_inv (v := v) hi.1
    have z1 : Zr (spawnLeaf s v).1 := Zr_spawnLeaf hz
    split
    · exact Zr_addHandle z1 m1
    · rename_i hvd
      obtain ⟨w2, e2, m2, d2, -⟩ := spawnLeaf_inv (v := d) w1
      have z2 : Zr (spawnLeaf (spawnLeaf s v).1 d).1 := Zr_spawnLeaf z1
      obtain ⟨-, e3, m3, -⟩ := buildCube_inv (spawnLeaf (spawnLeaf s v).1 d).2 asgn (spawnLeaf (spawnLeaf s v).1 d).1
        (spawnLeaf s v).2 0 w2 m2 (e2.ids _ m1)
      have z3 := Zr_buildCube (spawnLeaf (spawnLeaf s v).1 d).2 asgn _ _ 0 w2 m2 (e2.ids _ m1) z2
      split
      · rename_i heq
        split
        · rename_i hz0
          refine Zr_addHandle (s := disposeLeaf _ _ d) (Zr_erase z3 hz0 rfl rfl) ?_
          -- the root `r3.2 = r1.2` (a leaf `v`) is a different node than the sink `r2.2` (a leaf `d ≠ v`)
          have hne : (spawnLeaf s v).2 ≠ (spawnLeaf (spawnLeaf s v).1 d).2 := by
            intro e
            have h1 := e2.dat _ (w1.fresh _ m1)
            rw [d1, e, d2] at h1
            cases h1
            exact hvd rfl
          show _ ∈ List.erase _ _
          rw [heq]
          exact (List.mem_erase_of_ne hne).mpr (e3.ids _ (e2.ids _ m1))
        · exact Zr_addHandle z3 m3
      · exact Zr_addHandle z3 m3

theorem Zr_stepF (f : Nat → Nat → Nat) {s : Store} (op : Op) (hi : Inv s) (hz : Zr s) : Zr (RcS.stepF f s op) := by
  cases op with
  | construct h asgn v d => exact Zr_construct hi hz
  | copy src dst => exact Zr_copy hi hz
  | assign src dst => exact Zr_assign hi hz
  | apply a b dst => exact Zr_apply2 f hi hz
  | destroy h => exact Zr_destroy hz

theorem Zr_foldl (f : Nat → Nat → Nat) : ∀ (ops : List Op) (s : Store), Inv s → Zr s → Zr (ops.foldl (RcS.stepF f) s)
  | [], _, _, hz => hz
  | op :: ops, _, hi, hz => Zr_foldl f ops _ (stepF_inv f op hi).1 (Zr_stepF f op hi hz)

/-- after every history every node that is not allocated has counter 0 -/
theorem runF_Zr (f : Nat → Nat → Nat) (ops : List Op) : Zr (RcS.runF f ops) :=
  Zr_foldl f ops empty inv_empty (fun _ _ => rfl)

/-- a store whose allocated nodes have fewer than `2^w` referrers and whose other counters are 0 is not changed by
    reducing the counters modulo `2^w` -/
theorem wr_eq_self {w : Nat} {s : Store} (hb : Bd w s) (hz : Zr s) : wr w s = s := by
  cases s with
  | mk ids dat rc leafT intT hs next freed err =>
    simp only [wr, Store.mk.injEq, true_and, and_true]
    funext n
    by_cases hn : n ∈ ids
    · exact Nat.mod_eq_of_lt (hb n hn)
    · have : rc n = 0 := hz n hn
      simp [this]

/-! ## prefixes of a bounded history are bounded -/

theorem histBoundedFrom_head {w : Nat} {f : Nat → Nat → Nat} : ∀ {ops : List Op} {s : Store},
    histBoundedFrom w f s ops = true → bounded w s = true
  | [], _, h => h
  | _ :: _, _, h => by simp only [histBoundedFrom, Bool.and_eq_true] at h; exact h.1

theorem histBoundedFrom_take {w : Nat} {f : Nat → Nat → Nat} : ∀ (ops : List Op) (s : Store) (k : Nat),
    histBoundedFrom w f s ops = true → histBoundedFrom w f s (ops.take k) = true
  | [], _, _, h => by simpa using h
  | op :: ops, s, 0, h => by simpa [histBoundedFrom] using histBoundedFrom_head h
  | op :: ops, s, k+1, h => by
    simp only [histBoundedFrom, Bool.and_eq_true, List.take_succ_cons] at h ⊢
    exact ⟨h.1, histBoundedFrom_take ops _ k h.2⟩

theorem histBoundedFrom_last {w : Nat} {f : Nat → Nat → Nat} : ∀ (ops : List Op) (s : Store),
    histBoundedFrom w f s ops = true → bounded w (ops.foldl (RcS.stepF f) s) = true
  | [], _, h => h
  | op :: ops, s, h => by
    simp only [histBoundedFrom, Bool.and_eq_true] at h
    exact histBoundedFrom_last ops _ h.2

/-- the main simulation theorem: on a bounded history the `w`-bit store is *equal* to the unbounded store -/
theorem runF_eq (w : Nat) (f : Nat → Nat → Nat) (ops : List Op) (hb : histBounded w f ops = true) :
    runF w f ops = RcS.runF f ops := by
  rw [runF_wr w f ops hb]
  exact wr_eq_self (Bd_of_bounded (histBoundedFrom_last ops empty hb)) (runF_Zr f ops)

end Vata.RcSW
