import Vata.Proofs.LtsContainerViews
/-!
# `ExplicitLTS` container: the abstraction `abs` (edge multiset), histories "built in one go", `buildDelta1` (C16)
-/
namespace Vata.LC
open Vata.L

/-! ### the edge multiset -/

theorem count_flatMap_range_single {α : Type} [BEq α] [LawfulBEq α] (x : α) (f : Nat → List α) (i : Nat)
    (h : ∀ j, j ≠ i → List.count x (f j) = 0) (n : Nat) :
    List.count x ((List.range n).flatMap f) = if i < n then List.count x (f i) else 0 := by
  induction n with
  | zero => simp
  | succ n ih =>
    rw [List.range_succ, List.flatMap_append, List.count_append, ih]
    simp only [List.flatMap_cons, List.flatMap_nil, List.append_nil]
    by_cases e : n = i
    · subst e; simp
    · rw [h n e]
      by_cases l : i < n
      · have : i < n + 1 := by omega
        simp [l, this]
      · have : ¬ i < n + 1 := by omega
        simp [l, this]

theorem count_map_edge (q a r : Nat) (l : List Nat) :
    List.count (q, a, r) (l.map (fun r' => (q, a, r'))) = List.count r l := by
  induction l with
  | nil => rfl
  | cons x l ih =>
    simp only [List.map_cons, List.count_cons, ih]
    by_cases e : x = r
    · simp [e]
    · have : ¬ ((q, a, x) = (q, a, r)) := by intro h; injection h with _ h; injection h with _ h; exact e h
      simp [e, this]

theorem count_spec_edges (L : LTS) (q a r : Nat) : List.count (q, a, r) L.edges = List.count r (LE.post L a q) := by
  unfold LE.post
  induction L.edges with
  | nil => rfl
  | cons e es ih =>
    obtain ⟨q', a', r'⟩ := e
    rw [List.count_cons, List.filter_cons]
    by_cases h : q' = q ∧ a' = a
    · obtain ⟨rfl, rfl⟩ := h
      simp only [beq_self_eq_true, Bool.and_self, if_true, List.map_cons, List.count_cons, ih]
      by_cases e : r' = r
      · simp [e]
      · have : ¬ ((q', a', r') = (q', a', r)) := by intro h; injection h with _ h; injection h with _ h; exact e h
        simp [e, this]
    · have h1 : ((q' == q) && (a' == a)) = false := by
        simp only [Bool.and_eq_false_iff, beq_eq_false_iff_ne]
        by_cases e : q' = q
        · right; intro e'; exact h ⟨e, e'⟩
        · left; exact e
      have h2 : ¬ ((q', a', r') = (q, a, r)) := by
        intro e; injection e with e1 e; injection e with e2 e; exact h ⟨e1, e2⟩
      simp [h1, h2, ih]

theorem count_zero_of_forall_ne {α : Type} [BEq α] [LawfulBEq α] (x : α) (l : List α) (h : ∀ y ∈ l, y ≠ x) :
    List.count x l = 0 := by
  rw [List.count_eq_zero]; intro hm; exact h x hm rfl

theorem post_nil_of_ge (c : LtsC) (a q : Nat) (h : c.data.length ≤ a) : c.post a q = [] := by
  simp [LtsC.post, List.getD_eq_getElem?_getD, List.getElem?_eq_none h]

theorem post_nil_of_state_ge (c : LtsC) (a q : Nat) (hl : (c.data.getD a ([], [])).1.length ≤ c.states) (h : c.states ≤ q) :
    c.post a q = [] := by
  unfold LtsC.post
  rw [List.getD_eq_getElem?_getD, List.getElem?_eq_none (by omega)]; rfl

/-- the abstraction has exactly the edges of the history, as a multiset -/
theorem abs_perm (L : LTS) (c : LtsC) (d : DInv L c) : (abs c).n = L.n ∧ (abs c).edges.Perm L.edges := by
  refine ⟨d.states, List.perm_iff_count.2 (fun e => ?_)⟩
  obtain ⟨q, a, r⟩ := e
  rw [count_spec_edges L, ← d.post]
  unfold abs
  simp only
  rw [count_flatMap_range_single (q, a, r) _ a]
  · by_cases la : a < c.data.length
    · rw [if_pos la, count_flatMap_range_single (q, a, r) _ q]
      · by_cases lq : q < c.states
        · rw [if_pos lq, count_map_edge]
        · rw [if_neg lq, post_nil_of_state_ge c a q (d.lens a).1 (by omega)]; rfl
      · intro j hj
        apply count_zero_of_forall_ne
        intro y hy
        obtain ⟨r', _, rfl⟩ := List.mem_map.1 hy
        intro e; injection e with e _; exact hj e
    · rw [if_neg la, post_nil_of_ge c a q (by omega)]; rfl
  · intro j hj
    apply count_zero_of_forall_ne
    intro y hy
    obtain ⟨q', _, hy⟩ := List.mem_flatMap.1 hy
    obtain ⟨r', _, rfl⟩ := List.mem_map.1 hy
    intro e; injection e with _ e; injection e with e _; exact hj e

/-! ### histories built in one go: `construct`, `addTransition`*, `init` -/

/-- the calls `addTransition(e)` for a list of edges -/
def adds (es : List (Nat × Nat × Nat)) : List Op := es.map (fun e => .add e.1 e.2.1 e.2.2)

theorem foldl_adds_bw (es : List (Nat × Nat × Nat)) : ∀ c : LtsC,
    ((adds es).foldl step c).bw = c.bw ∧ ((adds es).foldl step c).ub = c.ub := by
  induction es with
  | nil => intro c; exact ⟨rfl, rfl⟩
  | cons e es ih => intro c; exact ih (step c (.add e.1 e.2.1 e.2.2))

theorem foldl_adds_spec (es : List (Nat × Nat × Nat)) : ∀ L : LTS,
    ((adds es).foldl specStep L).edges = L.edges ++ es := by
  induction es with
  | nil => intro L; simp [adds]
  | cons e es ih =>
    intro L
    have := ih (specStep L (.add e.1 e.2.1 e.2.2))
    simp only [adds, List.map_cons, List.foldl_cons] at this ⊢
    rw [this]; simp [specStep]

/-- additions are the same calls on the class before and after the repair -/
theorem foldl_adds_old (es : List (Nat × Nat × Nat)) : ∀ c : LtsC, (adds es).foldl stepOld c = (adds es).foldl step c := by
  induction es with
  | nil => intro c; rfl
  | cons e es ih => intro c; exact ih (step c (.add e.1 e.2.1 e.2.2))

/-- on an object without an index (`bwLabels_` empty: fresh or cleared) `resize` and `assign` build the same vector: the
repair changes nothing there -/
theorem initOld_eq_init (c : LtsC) (h : c.bw = []) : initOld c = init c := by
  unfold initOld init resizeL
  rw [h]; simp

/-! ### `buildDelta1` -/

/-- the loop of `buildDelta1` for one label after `j` rounds, on the fresh set -/
theorem delta1_fold (st : Nat) (fst : List (List Nat)) (j : Nat) (hj : j ≤ st) :
    let s := (List.range j).foldl (fun (s : SSet) q => s.init q (s.count q + (fst.getD q []).length)) (SSet.new st)
    s.range = st ∧ s.bad = false ∧ s.keys = (List.range j).filter (fun q => decide (0 < (fst.getD q []).length)) := by
  induction j with
  | zero => simp [SSet.new, SSet.keys]
  | succ j ih =>
    have ih' := ih (by omega)
    simp only [List.range_succ, List.foldl_append, List.foldl_cons, List.foldl_nil, List.filter_append]
    simp only at ih'
    generalize (List.range j).foldl (fun (s : SSet) q => s.init q (s.count q + (fst.getD q []).length)) (SSet.new st) = s at *
    obtain ⟨h1, h2, h3⟩ := ih'
    have hnm : j ∉ s.keys := by rw [h3]; simp [List.mem_filter]
    rw [count_of_not_mem s j hnm, Nat.zero_add]
    unfold SSet.init
    rw [if_pos (by omega)]
    by_cases hc : 0 < (fst.getD j []).length
    · simp only [hc, if_true]
      refine ⟨h1, h2, ?_⟩
      show (ssPut _ _ _).map (·.1) = _
      rw [keys_ssPut]
      change (if j ∈ s.keys then s.keys else s.keys ++ [j]) = _
      have hd : decide (0 < (fst.getD j []).length) = true := decide_eq_true hc
      rw [if_neg hnm, h3, List.filter_cons, hd]; rfl
    · simp only [hc, if_false]
      refine ⟨h1, h2, ?_⟩
      show (s.elems.filter _).map (·.1) = _
      have : s.elems.filter (fun e => e.1 != j) = s.elems := by
        rw [List.filter_eq_self]
        intro e he
        have : e.1 ∈ s.keys := List.mem_map.2 ⟨e, he, rfl⟩
        simp only [bne_iff_ne]
        intro e'; rw [e'] at this; exact hnm this
      rw [this]
      change s.keys = _
      have hd : decide (0 < (fst.getD j []).length) = false := decide_eq_false hc
      rw [h3, List.filter_cons, hd]; simp

theorem hasOut_iff (L : LTS) (a q : Nat) : LE.hasOut L a q = decide (0 < (LE.post L a q).length) := by
  unfold LE.hasOut LE.post
  induction L.edges with
  | nil => rfl
  | cons e es ih =>
    rw [List.any_cons, List.filter_cons]
    by_cases h : (e.1 == q && e.2.1 == a) = true
    · simp [h]
    · simp only [Bool.not_eq_true] at h
      simp only [h, Bool.false_or, ih]; rfl

/-- `buildDelta1` of an object whose `post` vectors have length `states_` (as after `init()`) is the abstract `delta1` -/
theorem buildDelta1_eq (L : LTS) (c : LtsC) (d : DInv L c)
    (hlen : ∀ a, a < c.data.length → (c.data.getD a ([], [])).1.length = c.states) :
    c.buildDelta1.length = LE.labels L ∧
    ∀ a, a < LE.labels L → (c.buildDelta1.getD a default).keys = LE.delta1 L a ∧
      (c.buildDelta1.getD a default).bad = false ∧ (c.buildDelta1.getD a default).range = L.n := by
  refine ⟨by simp [LtsC.buildDelta1, d.labels], fun a ha => ?_⟩
  rw [← d.labels] at ha
  have e : c.buildDelta1.getD a default =
      (List.range (c.data.getD a ([], [])).1.length).foldl
        (fun (s : SSet) q => s.init q (s.count q + ((c.data.getD a ([], [])).1.getD q []).length)) (SSet.new c.states) := by
    simp [LtsC.buildDelta1, List.getD_eq_getElem?_getD, ha]
  have f := delta1_fold c.states (c.data.getD a ([], [])).1 (c.data.getD a ([], [])).1.length (by rw [hlen a ha]; exact Nat.le_refl _)
  simp only at f
  rw [e]
  refine ⟨?_, f.2.1, by rw [f.1, d.states]⟩
  rw [f.2.2, hlen a ha, LE.delta1, d.states]
  apply List.filter_congr
  intro q _
  rw [hasOut_iff, ← d.post]; rfl

end Vata.LC
