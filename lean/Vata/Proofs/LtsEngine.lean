import Vata.Proofs.LtsEngineInit
/-!
# The partition–relation LTS simulation engine computes the greatest simulation inside the initial relation

Main results about the executable model `Vata/LtsEngine.lean` of `src/explicit_lts_sim.cc`:

* `engine_result_eq`  whatever `computeSimulation` returns is exactly `ltsSimOut` (the reference: greatest simulation
  inside the relation induced by partition and block relation, restricted to the output size);
* `engine_total`      with the internal fuel `fuelBound` it always returns (`none` never occurs);
* `engine_spec`       both together, in terms of the specification `IsSim`;
* the two convenience overloads (`computeSimulation1`, `computeSimulation0`).

Preconditions: the edges connect states `< n` (`LtsOK`), `isPartition`, `isConsistent` (the two things `init` asserts)
**and transitivity of the block relation** (`RelTrans`), which the C++ does not assert but needs: see the
counterexample at the end (the model agrees there with the real library, which returns a relation that is not the
greatest simulation).
-/
namespace Vata.LE
open Vata.L

section run
variable {L : LTS} {S I : Nat → Nat → Prop}

/-- `run` keeps the invariant; with enough fuel it ends with an empty queue -/
theorem engineRun_inv (hL : LtsOK L) (hS : IsSim L S) (hSn : ∀ y z, S y z → y < L.n ∧ z < L.n) :
    ∀ (fuel : Nat) (e : Eng), Inv L S I e →
      (∀ e', engineRun L fuel e = some e' → Inv L S I e' ∧ e'.queue = []) ∧
      (pot L e ≤ fuel → ∃ e', engineRun L fuel e = some e')
  | 0, e, inv => by
    constructor
    · intro e' h
      simp only [engineRun] at h
      split at h
      · rename_i hq
        injection h with h
        rw [← h]
        exact ⟨inv, List.isEmpty_iff.mp hq⟩
      · cases h
    · intro hp
      have : e.queue.length = 0 := by unfold pot at hp; omega
      have hq : e.queue = [] := List.eq_nil_of_length_eq_zero this
      exact ⟨e, by simp [engineRun, hq]⟩
  | fuel + 1, e, inv => by
    cases hq : e.queue with
    | nil =>
      constructor
      · intro e' h
        simp only [engineRun, hq] at h
        injection h with h
        rw [← h]; exact ⟨inv, hq⟩
      · intro _; exact ⟨e, by simp [engineRun, hq]⟩
    | cons k rest =>
      obtain ⟨b, a⟩ := k
      obtain ⟨inv', hpot⟩ := processRemove_inv hL hS hSn inv hq
      obtain ⟨ih1, ih2⟩ := engineRun_inv hL hS hSn fuel _ inv'
      constructor
      · intro e' h
        simp only [engineRun, hq] at h
        exact ih1 e' h
      · intro hp
        obtain ⟨e', he'⟩ := ih2 (by omega)
        exact ⟨e', by simp only [engineRun, hq]; exact he'⟩

end run

/-! ### the result -/

theorem mem_buildResult {L : LTS} {e : Eng} (w : WF L e) (size q r : Nat) :
    (q, r) ∈ buildResult e size ↔ q < size ∧ r < size ∧ q < L.n ∧ r < L.n ∧ e.R q r := by
  simp only [buildResult, List.mem_flatMap, List.mem_map, List.mem_filter, List.mem_range, decide_eq_true_eq,
    Prod.mk.injEq]
  constructor
  · rintro ⟨i, _, j, hj, q', ⟨hq', hqs⟩, r', ⟨hr', hrs⟩, h1, h2⟩
    subst h1; subst h2
    refine ⟨hqs, hrs, w.lt_of_mem hq', w.lt_of_mem hr', ?_⟩
    show blockOf e.part r' ∈ e.row (blockOf e.part q')
    rw [w.blockOf_eq hq', w.blockOf_eq hr']
    exact hj
  · rintro ⟨hqs, hrs, hqn, hrn, hR⟩
    obtain ⟨hql, hqm⟩ := w.blockOf_mem hqn
    obtain ⟨_, hrm⟩ := w.blockOf_mem hrn
    exact ⟨blockOf e.part q, by rw [w.hrel]; exact hql, blockOf e.part r, hR, q, ⟨hqm, hqs⟩, r, ⟨hrm, hrs⟩, rfl, rfl⟩

/-- when the queue is empty the induced relation is the greatest simulation inside `I` -/
theorem final_rel {L : LTS} {I : Rel} {e : Eng} (hL : LtsOK L) (hIn : ∀ y z, (y, z) ∈ I → y < L.n ∧ z < L.n)
    (inv : Inv L (RelOf (ltsSimRef L I)) (RelOf I) e) (hq : e.queue = []) (q r : Nat) :
    (q < L.n ∧ r < L.n ∧ e.R q r) ↔ (q, r) ∈ ltsSimRef L I := by
  have hslot : ∀ i a, slotL e i a = [] := by
    intro i a
    cases h : e.remv i a with
    | none => exact slotL_none h
    | some rl =>
      have := (inv.qk.hiff i a).mp (by rw [h]; rfl)
      rw [hq] at this; cases this
  constructor
  · rintro ⟨hqn, hrn, hR⟩
    refine ltsSimRef_contains L I (fun x y => x < L.n ∧ y < L.n ∧ e.R x y) ?_ ?_ q r ⟨hqn, hrn, hR⟩
    · rintro x y ⟨hx, hy, hxy⟩ a x' hed
      rcases inv.sem.hE x a x' y hed hxy hy with ⟨y', hy', hR'⟩ | h | h
      · exact ⟨y', hy', (hL _ hed).2, (hL _ hy').2, hR'⟩
      · rw [hslot] at h; cases h
      · exact absurd h id
    · rintro x y ⟨hx, hy, hxy⟩
      exact inv.hI x y hx hy hxy
  · intro h
    obtain ⟨hqn, hrn⟩ := hIn q r (ltsSimRef_sub L I _ h)
    refine ⟨hqn, hrn, inv.hA q q r hqn ?_ h⟩
    obtain ⟨hlt, _⟩ := inv.wf.blockOf_mem hqn
    exact inv.wf.hrefl _ hlt

/-! ### the main theorems -/

section main
variable {L : LTS} {part : List (List Nat)} {rel : Rel}

theorem initRel_lt (hp : isPartition part L.n = true) (y z : Nat) (h : (y, z) ∈ initRel part rel) :
    y < L.n ∧ z < L.n := by
  obtain ⟨_, hcov, _⟩ := isPartition_spec hp
  obtain ⟨h1, h2, _⟩ := (mem_initRel part rel y z).mp h
  exact ⟨(hcov y).mp h1, (hcov z).mp h2⟩

/-- the invariant holds after `init`, for the reference simulation -/
theorem init_inv_ref (hL : LtsOK L) (hp : isPartition part L.n = true) (hc : isConsistent part rel = true)
    (htr : RelTrans part rel) :
    Inv L (RelOf (ltsSimRef L (initRel part rel))) (RelOf (initRel part rel)) (engineInit L part rel) ∧
      pot L (engineInit L part rel) ≤ L.n * (labels L + labels L * L.n) :=
  init_inv hL hp hc htr (ltsSimRef_sim L _) (fun y z h => ltsSimRef_sub L _ (y, z) h)

/-- **Output = reference.**  Whatever `computeSimulation` returns is, as a set of pairs, `ltsSimOut` for the relation
on states induced by the partition and the block relation. -/
theorem engine_result_eq (hL : LtsOK L) (hp : isPartition part L.n = true) (hc : isConsistent part rel = true)
    (htr : RelTrans part rel) (k : Nat) (R : Rel) (h : computeSimulation L part rel k = some R) :
    ∀ q r, (q, r) ∈ R ↔ (q, r) ∈ ltsSimOut L (initRel part rel) k := by
  intro q r
  rw [restrict_output]
  unfold computeSimulation at h
  split at h
  · rename_i hk
    have hk0 : k = 0 := by simpa using hk
    injection h with h
    rw [← h, hk0]
    simp
  · obtain ⟨inv0, _⟩ := init_inv_ref hL hp hc htr
    have hSn : ∀ y z, RelOf (ltsSimRef L (initRel part rel)) y z → y < L.n ∧ z < L.n :=
      fun y z hyz => initRel_lt hp y z (ltsSimRef_sub L _ _ hyz)
    cases hrun : engineRun L (fuelBound L) (engineInit L part rel) with
    | none => rw [hrun] at h; cases h
    | some e' =>
      rw [hrun] at h
      simp only [Option.map_some] at h
      injection h with h
      obtain ⟨inv', hq'⟩ := (engineRun_inv hL (ltsSimRef_sim L _) hSn _ _ inv0).1 e' hrun
      rw [← h, mem_buildResult inv'.wf, ← final_rel hL (initRel_lt hp) inv' hq' q r]

/-- **Termination.**  The internal fuel `fuelBound L = n·(m + m·n) + 1` is enough: `none` never occurs. -/
theorem engine_total (hL : LtsOK L) (hp : isPartition part L.n = true) (hc : isConsistent part rel = true)
    (htr : RelTrans part rel) (k : Nat) : ∃ R, computeSimulation L part rel k = some R := by
  unfold computeSimulation
  split
  · exact ⟨[], rfl⟩
  · obtain ⟨inv0, hpot⟩ := init_inv_ref hL hp hc htr
    have hSn : ∀ y z, RelOf (ltsSimRef L (initRel part rel)) y z → y < L.n ∧ z < L.n :=
      fun y z hyz => initRel_lt hp y z (ltsSimRef_sub L _ _ hyz)
    obtain ⟨e', he'⟩ := (engineRun_inv hL (ltsSimRef_sim L _) hSn (fuelBound L) _ inv0).2
      (by unfold fuelBound; omega)
    exact ⟨buildResult e' k, by rw [he']; rfl⟩

/-- both, against the specification: the engine returns a relation, and it contains `(q, r)` exactly when `q, r < k` and
some simulation inside the initial relation relates them -/
theorem engine_spec (hL : LtsOK L) (hp : isPartition part L.n = true) (hc : isConsistent part rel = true)
    (htr : RelTrans part rel) (k : Nat) :
    ∃ R, computeSimulation L part rel k = some R ∧ ∀ q r, (q, r) ∈ R ↔
      q < k ∧ r < k ∧ ∃ S : Nat → Nat → Prop, IsSim L S ∧ (∀ a b, S a b → (a, b) ∈ initRel part rel) ∧ S q r := by
  obtain ⟨R, hR⟩ := engine_total hL hp hc htr k
  refine ⟨R, hR, fun q r => ?_⟩
  rw [engine_result_eq hL hp hc htr k R hR q r, restrict_output_spec]

end main

/-! ### decidable forms of the preconditions -/

def ltsOKB (L : LTS) : Bool := L.edges.all (fun e => decide (e.1 < L.n) && decide (e.2.2 < L.n))

theorem ltsOK_of_B {L : LTS} (h : ltsOKB L = true) : LtsOK L := by
  intro ed hed
  simp only [ltsOKB, List.all_eq_true, Bool.and_eq_true, decide_eq_true_eq] at h
  exact h ed hed

/-- transitivity of the block relation as a list of pairs (the driver's test) -/
def isTransB (rel : Rel) : Bool :=
  rel.all (fun p => rel.all (fun p' => p.2 != p'.1 || rel.contains (p.1, p'.2)))

theorem relTrans_of_B {part : List (List Nat)} {rel : Rel} (h : isTransB rel = true) : RelTrans part rel := by
  intro i j k _ _ _ h1 h2
  simp only [isTransB, List.all_eq_true, Bool.or_eq_true, bne_iff_ne, ne_eq, List.contains_iff_mem] at h
  rcases h (i, j) h1 (j, k) h2 with h3 | h3
  · exact absurd rfl h3
  · exact h3

/-! ### the convenience overloads -/

theorem ltsSimOut_congr (L : LTS) {I I' : Rel} (h : ∀ p, p ∈ I ↔ p ∈ I') (k q r : Nat) :
    (q, r) ∈ ltsSimOut L I k ↔ (q, r) ∈ ltsSimOut L I' k := by
  rw [restrict_output_spec, restrict_output_spec]
  constructor
  · rintro ⟨h1, h2, S, hS, hSI, hqr⟩
    exact ⟨h1, h2, S, hS, fun a b hab => (h _).mp (hSI a b hab), hqr⟩
  · rintro ⟨h1, h2, S, hS, hSI, hqr⟩
    exact ⟨h1, h2, S, hS, fun a b hab => (h _).mpr (hSI a b hab), hqr⟩

theorem isPartition_single {n : Nat} (hn : 0 < n) : isPartition [List.range n] n = true := by
  simp only [isPartition, List.all_cons, List.all_nil, Bool.and_true, List.flatten_cons, List.flatten_nil,
    List.append_nil, Bool.and_eq_true, Bool.not_eq_true', List.all_eq_true, List.mem_range, decide_eq_true_eq,
    beq_iff_eq]
  refine ⟨⟨?_, fun x hx => hx⟩, ?_⟩
  · cases n with
    | zero => omega
    | succ m => simp [List.range_succ]
  · intro q hq
    have h1 : (List.range n).count q ≤ 1 := List.nodup_iff_count.mp List.nodup_range q
    have h2 : 0 < (List.range n).count q := List.count_pos_iff.mpr (List.mem_range.mpr hq)
    omega

theorem blockOf_single {n x : Nat} (hx : x < n) : blockOf [List.range n] x = 0 := by
  simp [blockOf, List.findIdx_cons, hx]

theorem mem_initRel_single {n : Nat} (p : Nat × Nat) :
    p ∈ initRel [List.range n] [(0, 0)] ↔ p ∈ fullRel n := by
  obtain ⟨x, y⟩ := p
  rw [mem_initRel, mem_fullRel]
  simp only [List.flatten_cons, List.flatten_nil, List.append_nil, List.mem_range, List.mem_cons, Prod.mk.injEq,
    List.not_mem_nil, or_false]
  constructor
  · rintro ⟨h1, h2, _⟩; exact ⟨h1, h2⟩
  · rintro ⟨h1, h2⟩; exact ⟨h1, h2, blockOf_single h1, blockOf_single h2⟩

/-- `computeSimulation(outputSize)`: the greatest simulation of the system, restricted to the output size -/
theorem engine1_result_eq {L : LTS} (hL : LtsOK L) (hn : 0 < L.n) (k : Nat) (R : Rel)
    (h : computeSimulation1 L k = some R) : ∀ q r, (q, r) ∈ R ↔ (q, r) ∈ ltsSimOut L (fullRel L.n) k := by
  intro q r
  have hc : isConsistent [List.range L.n] [(0, 0)] = true := by simp [isConsistent]
  have htr : RelTrans [List.range L.n] [(0, 0)] := relTrans_of_B (by decide)
  rw [engine_result_eq hL (isPartition_single hn) hc htr k R h q r]
  exact ltsSimOut_congr L mem_initRel_single k q r

theorem engine1_total {L : LTS} (hL : LtsOK L) (hn : 0 < L.n) (k : Nat) : ∃ R, computeSimulation1 L k = some R :=
  engine_total hL (isPartition_single hn) (by simp [isConsistent]) (relTrans_of_B (by decide)) k

/-- `computeSimulation()` -/
theorem engine0_result_eq {L : LTS} (hL : LtsOK L) (hn : 0 < L.n) (R : Rel) (h : computeSimulation0 L = some R) :
    ∀ q r, (q, r) ∈ R ↔ (q, r) ∈ ltsSimRef L (fullRel L.n) := by
  intro q r
  rw [engine1_result_eq hL hn L.n R h q r, restrict_output]
  constructor
  · exact fun h => h.2.2
  · intro h
    have := mem_fullRel.mp (ltsSimRef_sub L _ _ h)
    exact ⟨this.1, this.2, h⟩

theorem engine0_total {L : LTS} (hL : LtsOK L) (hn : 0 < L.n) : ∃ R, computeSimulation0 L = some R :=
  engine1_total hL hn L.n

/-! ### the invariant along the whole run -/

/-- one iteration of the loop of `run` (nothing when the queue is empty) -/
def stepOnce (L : LTS) (e : Eng) : Eng :=
  match e.queue with
  | [] => e
  | (b, a) :: rest => processRemove L { e with queue := rest } b a

/-- the state after `k` iterations -/
def stateAfter (L : LTS) (part : List (List Nat)) (rel : Rel) : Nat → Eng
  | 0 => engineInit L part rel
  | k + 1 => stepOnce L (stateAfter L part rel k)

theorem engineRun_succ (L : LTS) (fuel : Nat) (e : Eng) (h : e.queue ≠ []) :
    engineRun L (fuel + 1) e = engineRun L fuel (stepOnce L e) := by
  unfold stepOnce
  cases hq : e.queue with
  | nil => exact absurd hq h
  | cons k rest =>
    obtain ⟨b, a⟩ := k
    simp only [engineRun, hq]

/-- **Nothing that must stay is ever removed, nothing outside the initial relation ever appears**: after `init` and
after every iteration of `run` the relation induced by partition and block relation contains the greatest simulation
inside the initial relation and is contained in the initial relation; moreover it is a simulation *up to the pending
remove lists* (for `p -a→ p'` and `q` related to `p`: `q` has a matching `a`-successor or `q` is on the remove list
of `(block of p', a)`), every counter counts the successors inside the row, and the states on a remove list have no
successor inside the row. -/
theorem engine_invariant_always {L : LTS} {part : List (List Nat)} {rel : Rel} (hL : LtsOK L)
    (hp : isPartition part L.n = true) (hc : isConsistent part rel = true) (htr : RelTrans part rel) (k : Nat) :
    Inv L (RelOf (ltsSimRef L (initRel part rel))) (RelOf (initRel part rel)) (stateAfter L part rel k) := by
  have hSn : ∀ y z, RelOf (ltsSimRef L (initRel part rel)) y z → y < L.n ∧ z < L.n :=
    fun y z hyz => initRel_lt hp y z (ltsSimRef_sub L _ _ hyz)
  induction k with
  | zero => exact (init_inv_ref hL hp hc htr).1
  | succ k ih =>
    show Inv L _ _ (stepOnce L (stateAfter L part rel k))
    unfold stepOnce
    cases hq : (stateAfter L part rel k).queue with
    | nil => exact ih
    | cons x rest =>
      obtain ⟨b, a⟩ := x
      exact (processRemove_inv hL (ltsSimRef_sim L _) hSn ih hq).1

/-- what the invariant says about the induced relation -/
theorem Inv.between {L : LTS} {I : Rel} {e : Eng} (hIn : ∀ y z, (y, z) ∈ I → y < L.n ∧ z < L.n)
    (inv : Inv L (RelOf (ltsSimRef L I)) (RelOf I) e) :
    (∀ q r, (q, r) ∈ ltsSimRef L I → e.R q r) ∧ (∀ q r, q < L.n → r < L.n → e.R q r → (q, r) ∈ I) := by
  refine ⟨?_, inv.hI⟩
  intro q r h
  obtain ⟨hqn, _⟩ := hIn q r (ltsSimRef_sub L I _ h)
  refine inv.hA q q r hqn ?_ h
  exact inv.wf.hrefl _ (inv.wf.blockOf_mem hqn).1

/-! ### the initial relation on states -/

/-- `initRel` is the relation the driver computes from partition and block relation -/
theorem initRel_eq_filter {part : List (List Nat)} {rel : Rel} {n : Nat} (hp : isPartition part n = true)
    (p : Nat × Nat) :
    p ∈ initRel part rel ↔
      p ∈ (fullRel n).filter (fun p => rel.contains (blockOf part p.1, blockOf part p.2)) := by
  obtain ⟨_, hcov, _⟩ := isPartition_spec hp
  obtain ⟨x, y⟩ := p
  rw [mem_initRel, List.mem_filter, mem_fullRel, hcov, hcov]
  simp only [List.contains_iff_mem]
  constructor
  · rintro ⟨h1, h2, h3⟩; exact ⟨⟨h1, h2⟩, h3⟩
  · rintro ⟨⟨h1, h2⟩, h3⟩; exact ⟨h1, h2, h3⟩

/-- it is reflexive on `0..n-1` when the block relation is reflexive … -/
theorem initRel_refl {part : List (List Nat)} {rel : Rel} {n : Nat} (hp : isPartition part n = true)
    (hc : isConsistent part rel = true) (q : Nat) (hq : q < n) : (q, q) ∈ initRel part rel := by
  obtain ⟨_, hcov, hnd⟩ := isPartition_spec hp
  obtain ⟨hdisj, _⟩ := disjoint_of_flatten_nodup part hnd
  have hm := (hcov q).mpr hq
  refine (mem_initRel part rel q q).mpr ⟨hm, hm, ?_⟩
  obtain ⟨b, hb, hqb⟩ := List.mem_flatten.mp hm
  obtain ⟨i, hi, he⟩ := (mem_iff_getD [] part b).mp hb
  have hlt := (blockOf_lt part q ⟨i, by rw [he]; exact hqb⟩).1
  simp only [isConsistent, List.all_eq_true, List.mem_range, List.contains_iff_mem] at hc
  exact hc _ hlt

/-- … and transitive when the block relation is -/
theorem initRel_trans {part : List (List Nat)} {rel : Rel} (htr : RelTrans part rel) (a b c : Nat) (h1 : (a, b) ∈ initRel part rel) (h2 : (b, c) ∈ initRel part rel) :
    (a, c) ∈ initRel part rel := by
  obtain ⟨ha, hb, hab⟩ := (mem_initRel part rel a b).mp h1
  obtain ⟨_, hc, hbc⟩ := (mem_initRel part rel b c).mp h2
  have hlt : ∀ x, x ∈ part.flatten → blockOf part x < part.length := by
    intro x hx
    obtain ⟨bl, hbl, hxb⟩ := List.mem_flatten.mp hx
    obtain ⟨i, hi, he⟩ := (mem_iff_getD [] part bl).mp hbl
    exact (blockOf_lt part x ⟨i, by rw [he]; exact hxb⟩).1
  exact (mem_initRel part rel a c).mpr ⟨ha, hc, htr _ _ _ (hlt a ha) (hlt b hb) (hlt c hc) hab hbc⟩

/-! ### non-vacuity, and the counterexample for a non-transitive block relation -/

namespace EngEx

/-- `0 -a→ 2`, `1 -a→ 2`, `1 -b→ 2`, blocks `{0,1}`, `{2}`, block relation `{(0,0),(0,1),(1,1)}` -/
def L1 : LTS := exL
def part1 : List (List Nat) := [[0, 1], [2]]
def rel1 : Rel := [(0, 0), (0, 1), (1, 1)]

example : ltsOKB L1 = true ∧ isPartition part1 L1.n = true ∧ isConsistent part1 rel1 = true ∧ isTransB rel1 = true := by
  decide

example : computeSimulation L1 part1 rel1 3 = some [(0, 0), (0, 1), (2, 2), (1, 1)] := by decide

example : computeSimulation0 L1 = some [(2, 2), (2, 0), (2, 1), (0, 0), (0, 1), (1, 1)] := by decide

/-- a chain `0 -a→ 1 -a→ 2` and a loop `3 -a→ 3`: `run` iterates twice and splits a block in each iteration -/
def L3 : LTS := ⟨4, [(0, 0, 1), (1, 0, 2), (3, 0, 3)]⟩

example : (stateAfter L3 [[0, 1, 2, 3]] [(0, 0)] 0).part = [[2], [3, 0, 1]] ∧
    (stateAfter L3 [[0, 1, 2, 3]] [(0, 0)] 0).queue = [(1, 0)] ∧
    (stateAfter L3 [[0, 1, 2, 3]] [(0, 0)] 1).part = [[2], [3, 0], [1]] ∧
    (stateAfter L3 [[0, 1, 2, 3]] [(0, 0)] 1).rel = [[0, 1, 2], [1], [1, 2]] ∧
    (stateAfter L3 [[0, 1, 2, 3]] [(0, 0)] 2).part = [[2], [3], [1], [0]] ∧
    (stateAfter L3 [[0, 1, 2, 3]] [(0, 0)] 2).rel = [[0, 1, 2, 3], [1], [1, 2, 3], [1, 3]] ∧
    (stateAfter L3 [[0, 1, 2, 3]] [(0, 0)] 2).queue = [] ∧
    computeSimulation0 L3 = some [(2, 2), (2, 3), (2, 1), (2, 0), (3, 3), (1, 3), (1, 1), (1, 0), (0, 3), (0, 0)] := by
  decide

/-- the system of the counterexample: blocks `{0}`, `{2,4}`, `{1,3}`; the block relation is reflexive but not transitive
(`1 → 2 → 0` without `1 → 0`) -/
def L2 : LTS := ⟨5, [(4, 0, 4), (4, 0, 0), (3, 0, 4), (4, 0, 2), (2, 0, 1), (2, 0, 0)]⟩
def part2 : List (List Nat) := [[0], [2, 4], [1, 3]]
def rel2 : Rel := [(0, 0), (1, 1), (2, 2), (0, 1), (0, 2), (1, 2), (2, 0)]

/-- everything `init` asserts holds, the relation is not transitive, and the engine loses the pair `(4, 3)` of the
greatest simulation inside the initial relation (the real library returns the same 12 pairs on this input) -/
theorem nontransitive_counterexample :
    ltsOKB L2 = true ∧ isPartition part2 L2.n = true ∧ isConsistent part2 rel2 = true ∧ isTransB rel2 = false ∧
    computeSimulation L2 part2 rel2 5 =
      some [(0, 0), (0, 4), (0, 1), (0, 3), (0, 2), (4, 4), (1, 0), (1, 1), (1, 3), (3, 3), (2, 4), (2, 2)] ∧
    (4, 3) ∈ ltsSimOut L2 (initRel part2 rel2) 5 := by decide

end EngEx

end Vata.LE
