import Vata.BddAbsTD
import Vata.Proofs.BddAbs
import Vata.Proofs.TrimModel
import Vata.Proofs.IsectModel
/-!
# Symbolic top-down tables: abstraction to rule sets, `GetTopDownAut`, symbolic trimming (property C08)

Model: `Vata/BddAbsTD.lean`.  With `HasRuleTD T ρ p ks` (`ks ∈ eval (GetMtbdd p) ρ`: the rule `ρ(ks) → p` is in the
top-down table `T`; `ρ` = 16 symbol bits, then the arity bits) and `HasRule` of `Vata/BddAbs.lean` for bottom-up tables:

1. the top-down table
   * `absTD_add`, `absTD_addTransition` : `AddTransition` adds exactly the rules of the cube / the one rule (symbol `f`,
     arity `|ks|` in the arity bits); `absTD_ofRules`, `absRulesTD_ofRules`, `absTD_ofRulesTD_setEq` : loading is the
     identity on the abstraction; `hasRuleTD_ofRulesTD_gen` for every valuation;
   * `absTD_union`, `absRulesTD_union`, `absTD_union_setEq` (table-wise `apply2 ∪`), `getTD_unionDisjTD`,
     `absTD_unionDisj`, `absTD_unionDisj_setEq` (`UnionDisjointStates` overwrites: union only for disjoint key sets);
   * `mem_collectTD`, `mem_collectTD_iff`, `collectTD_absRulesTD` : the dump (through `mem_voidApply2`) lists the rules of
     the executable abstraction `absRulesTD` (`ofB`, `testBit_ofB` : a number from the arity bits);
2. `GetTopDownAut`
   * `TableOk`, `TableWF` (+ `tableOk_ofRules`, `tableWF_ofRules`, `tableOk_set`, `tableOk_unionDisj`, …): the hypotheses
     on the bottom-up table; `invert_inner`, `invert_outer` : the two loops;
   * `absTD_invert_gen` (every valuation), `absTD_invert`, `absTD_invert_arity` (the bound `|ks| < 64`),
     `absRulesTD_getTopDownAut` (the abstract rule sets: the rules whose parent is final or a child somewhere),
     `getTopDownAut_lang`, `getTopDownAut_dropped`; `tableTD_getTopDownAut`, `symsCompleteTD_getTopDownAut`;
3. symbolic trimming
   * TA level: `SameSkel`, `mem_tdReach_skel`, `mem_prodStates_skel`, `SetEqTA`, `removeUseless_alt`,
     `mem_prodStates_removeUnreachable`, `removeUseless_rules_iff`, `valid_mono`, `SetEqTA.allUseful`;
   * leaf visits (`mem_voidApply1`): `mem_leafTuples`, `mem_skelTD`, `sameSkel_skelTD`, `mem_leafParents`, `mem_skelBU`,
     `sameSkel_skelBU`;
   * top-down: `hasRuleTD_removeUnreachableTD`, `absTD_removeUnreachable`, `removeUnreachableTD_lang`, `mem_usefulTD`,
     `hasRuleTD_restrictTD`, `absTD_restrictTD`, `absTD_removeUseless`, `removeUselessTD_lang`, `removeUselessTD_useful`;
   * bottom-up: `hasRule_removeUnreachableBU`, `absBU_removeUnreachable`, `removeUnreachableBU_lang`,
     `hasRule_removeUselessBU`, `absBU_removeUseless`, `removeUselessBU_lang`, `removeUselessBU_useful`;
   * the work-list of the top-down `RemoveUnreachableStates`: `WlInv`, `wlInv_step`, `tdUnreachWL_correct`,
     `tdUnreachWL_abs`, `tdUnreachWL_total`, `tdUnreachWL_spec`;
4. examples (`BddAbsTDEx`).
-/
namespace Vata
namespace BddAbsTD
open M BddAbs

/-! ### leaves -/

theorem mem_insT {x y : List Nat} : ∀ {l : List (List Nat)}, y ∈ insT x l ↔ y = x ∨ y ∈ l
  | [] => by simp [insT]
  | z :: l => by
    unfold insT
    split
    · simp
    · split
      · next h =>
        have hx : x = z := by simpa using h
        subst hx; simp
      · rw [List.mem_cons, mem_insT (l := l), List.mem_cons]
        constructor
        · rintro (h | h | h)
          · exact Or.inr (Or.inl h)
          · exact Or.inl h
          · exact Or.inr (Or.inr h)
        · rintro (h | h | h)
          · exact Or.inr (Or.inl h)
          · exact Or.inl h
          · exact Or.inr (Or.inr h)

theorem mem_normT {l : List (List Nat)} {y : List Nat} : y ∈ normT l ↔ y ∈ l := by
  induction l with
  | nil => simp [normT]
  | cons x l ih =>
    have : normT (x :: l) = insT x (normT l) := rfl
    rw [this, mem_insT, ih, List.mem_cons]

theorem mem_unionTS {a b : List (List Nat)} {x : List Nat} : x ∈ unionTS a b ↔ x ∈ a ∨ x ∈ b := by
  simp only [unionTS, mem_normT, List.mem_append]

/-! ### the table -/

theorem getTD_filter_ne (p p' : Nat) (hne : p ≠ p') : ∀ T : TableTD,
    getTD (T.filter (fun e => e.1 != p)) p' = getTD T p'
  | [] => rfl
  | (q, m) :: T => by
    by_cases hq : q = p
    · subst hq
      have : (List.filter (fun e => e.1 != q) ((q, m) :: T)) = List.filter (fun e => e.1 != q) T := by simp
      rw [this, getTD_filter_ne q p' hne T]
      simp only [getTD, hne, if_false]
    · have : (List.filter (fun e => e.1 != p) ((q, m) :: T)) = (q, m) :: List.filter (fun e => e.1 != p) T := by
        simp [hq]
      rw [this]
      simp only [getTD]
      rw [getTD_filter_ne p p' hne T]

/-- `GetMtbdd` after `SetMtbdd` -/
theorem getTD_setTD (T : TableTD) (p p' : Nat) (m : MTD) :
    getTD (setTD T p m) p' = if p = p' then m else getTD T p' := by
  simp only [setTD, getTD]
  split
  · rfl
  · next h => exact getTD_filter_ne p p' h T

theorem getTD_not_key {T : TableTD} {p : Nat} (h : p ∉ keysTD T) : getTD T p = .leaf [] := by
  induction T with
  | nil => rfl
  | cons e T ih =>
    obtain ⟨q, m⟩ := e
    simp only [keysTD, List.map_cons, List.mem_cons, not_or] at h
    simp only [getTD]
    rw [if_neg (fun e => h.1 e.symm)]
    exact ih h.2

theorem getTD_mapKeys (L : List Nat) (g : Nat → MTD) (p : Nat) :
    getTD (L.map (fun k => (k, g k))) p = if p ∈ L then g p else .leaf [] := by
  induction L with
  | nil => simp [getTD]
  | cons k L ih =>
    simp only [List.map_cons, getTD, List.mem_cons]
    by_cases hk : k = p
    · subst hk; simp
    · have : ¬ p = k := fun e => hk e.symm
      simp only [hk, this, if_false, false_or]
      exact ih

theorem keysTD_setTD (T : TableTD) (p : Nat) (m : MTD) (q : Nat) : q ∈ keysTD (setTD T p m) ↔ q = p ∨ q ∈ keysTD T := by
  simp only [keysTD, setTD, List.map_cons, List.mem_cons, List.mem_map, List.mem_filter, bne_iff_ne]
  constructor
  · rintro (h | ⟨e, ⟨he, _⟩, rfl⟩)
    · exact Or.inl h
    · exact Or.inr ⟨e, he, rfl⟩
  · rintro (h | ⟨e, he, rfl⟩)
    · exact Or.inl h
    · by_cases h : e.1 = p
      · exact Or.inl h
      · exact Or.inr ⟨e, ⟨he, h⟩, rfl⟩

/-! ### the abstraction -/

theorem hasRuleTD_nil (ρ : Nat → Bool) (p : Nat) (ks : List Nat) : ¬ HasRuleTD [] ρ p ks := by
  simp [HasRuleTD, getTD, eval]

/-- a state without an MTBDD has no rule -/
theorem hasRuleTD_key {T : TableTD} {ρ : Nat → Bool} {p : Nat} {ks : List Nat} (h : HasRuleTD T ρ p ks) :
    p ∈ keysTD T := by
  apply Classical.byContradiction
  intro hn
  unfold HasRuleTD at h
  rw [getTD_not_key hn] at h
  simp [eval] at h

theorem mem_absRulesTD {syms : List Nat} {T : TableTD} {r : Rule} :
    r ∈ absRulesTD syms T ↔ r.sym ∈ syms ∧ ∃ n, n < 64 ∧ HasRuleTD T (bitsAr r.sym n) r.parent r.kids := by
  simp only [absRulesTD, List.mem_flatMap, List.mem_map, List.mem_range]
  constructor
  · rintro ⟨p, _, f, hf, n, hn, ks, hks, rfl⟩
    exact ⟨hf, n, hn, hks⟩
  · rintro ⟨hf, n, hn, hks⟩
    exact ⟨r.parent, hasRuleTD_key hks, r.sym, hf, n, hn, r.kids, hks, rfl⟩

/-! ### valuations with arity bits -/

theorem agrees_append (ρ : Nat → Bool) : ∀ (as bs : List (Option Bool)) (i : Nat),
    agrees ρ (as ++ bs) i = (agrees ρ as i && agrees ρ bs (i + as.length))
  | [], bs, i => by simp [agrees]
  | none :: as, bs, i => by
    simp only [List.cons_append, agrees, List.length_cons]
    rw [agrees_append ρ as bs (i + 1), show i + 1 + as.length = i + (as.length + 1) by omega]
  | some b :: as, bs, i => by
    simp only [List.cons_append, agrees, List.length_cons]
    rw [agrees_append ρ as bs (i + 1), show i + 1 + as.length = i + (as.length + 1) by omega, Bool.and_assoc]

theorem agrees_shift (ρ : Nat → Bool) (k : Nat) : ∀ (as : List (Option Bool)) (i : Nat),
    agrees ρ as (i + k) = agrees (fun j => ρ (j + k)) as i
  | [], i => rfl
  | none :: as, i => by
    simp only [agrees]
    rw [show i + k + 1 = i + 1 + k by omega, agrees_shift ρ k as (i + 1)]
  | some b :: as, i => by
    simp only [agrees]
    rw [show i + k + 1 = i + 1 + k by omega, agrees_shift ρ k as (i + 1)]

theorem symAsgn_length (f : Nat) : (symAsgn f).length = 16 := by simp [symAsgn]
theorem arAsgn_length (n : Nat) : (arAsgn n).length = 6 := by simp [arAsgn]

/-- a valuation is in the cube `asgn ++ arity bits` iff its symbol part is in `asgn` and its arity part is the arity -/
theorem agrees_withAr (ρ : Nat → Bool) (asgn : List (Option Bool)) (h : asgn.length = 16) (n : Nat) :
    agrees ρ (asgn ++ arAsgn n) 0 = (agrees ρ asgn 0 && arOK ρ n) := by
  rw [agrees_append, h, arOK, ← agrees_shift]

theorem arOK_iff (ρ : Nat → Bool) (n : Nat) : arOK ρ n = true ↔ ∀ j, j < 6 → ρ (j + 16) = n.testBit j := by
  have := agrees_go (fun j => ρ (j + 16)) n 6 0
  simp only [Nat.zero_add, Nat.zero_le, true_implies] at this
  rw [arOK, arAsgn, List.range_eq_range']
  exact this

theorem withArity_hi (ρ : Nat → Bool) (n j : Nat) : withArity ρ n (j + 16) = n.testBit j := by
  unfold withArity
  rw [if_neg (by omega), Nat.add_sub_cancel]

theorem arOK_withArity (ρ : Nat → Bool) (n m : Nat) :
    arOK (withArity ρ n) m = true ↔ ∀ j, j < 6 → n.testBit j = m.testBit j := by
  rw [arOK_iff]
  simp only [withArity_hi]

theorem arOK_withArity_self (ρ : Nat → Bool) (n : Nat) : arOK (withArity ρ n) n = true :=
  (arOK_withArity ρ n n).mpr (fun _ _ => rfl)

theorem arOK_withArity_lt (ρ : Nat → Bool) {n m : Nat} (hn : n < 64) (hm : m < 64) :
    arOK (withArity ρ n) m = true ↔ n = m := by
  rw [arOK_withArity]
  constructor
  · intro h
    apply Nat.eq_of_testBit_eq
    intro i
    by_cases hi : i < 6
    · exact h i hi
    · have hp : 2 ^ 6 ≤ 2 ^ i := Nat.pow_le_pow_right (by decide) (by omega)
      rw [Nat.testBit_lt_two_pow (Nat.lt_of_lt_of_le hn hp), Nat.testBit_lt_two_pow (Nat.lt_of_lt_of_le hm hp)]
  · rintro rfl j _; rfl

/-- the arity bits only hold the arity modulo 64 -/
theorem arOK_withArity_mod (ρ : Nat → Bool) (n : Nat) : arOK (withArity ρ (n % 64)) n = true := by
  rw [arOK_withArity]
  intro j hj
  rw [show (64 : Nat) = 2 ^ 6 by rfl, Nat.testBit_mod_two_pow]
  simp [hj]

theorem agrees_withArity (ρ : Nat → Bool) (n : Nat) (asgn : List (Option Bool)) (h : asgn.length ≤ 16) :
    agrees (withArity ρ n) asgn 0 = agrees ρ asgn 0 := by
  rw [Bool.eq_iff_iff, agrees_iff, agrees_iff]
  have key : ∀ j b, asgn[j]? = some (some b) → withArity ρ n (0 + j) = ρ (0 + j) := by
    intro j b hj
    have : j < asgn.length := by
      apply Classical.byContradiction
      intro hn
      rw [List.getElem?_eq_none (by omega)] at hj
      cases hj
    simp only [withArity, Nat.zero_add]
    rw [if_pos (by omega)]
  constructor
  · intro hh j b hj; rw [← key j b hj]; exact hh j b hj
  · intro hh j b hj; rw [key j b hj]; exact hh j b hj

/-- an MTBDD over the symbol variables does not see the arity bits -/
theorem eval_congr_below {α : Type} {x : Nat} {ρ ρ' : Nat → Bool} (h : ∀ i, i < x → ρ i = ρ' i) :
    ∀ {a : Node α}, Below x a → eval a ρ = eval a ρ'
  | .leaf _, _ => rfl
  | .node y lo hi, ⟨hy, bl, bh⟩ => by
    simp only [eval, h y hy, eval_congr_below h bl, eval_congr_below h bh]

theorem eval_withArity {α : Type} (ρ : Nat → Bool) (n : Nat) {a : Node α} (ha : Below 16 a) :
    eval a (withArity ρ n) = eval a ρ :=
  eval_congr_below (fun i hi => by simp [withArity, hi]) ha

/-! ### `AddTransition` -/

/-- `AddTransition` with a cube of symbols adds the rules `ρ(ks) → p` for the valuations `ρ` whose symbol part is in the
cube and whose arity part is `|ks|` -/
theorem absTD_add (T : TableTD) (p : Nat) (asgn : List (Option Bool)) (hl : asgn.length = 16) (ks : List Nat)
    (ρ : Nat → Bool) (p' : Nat) (ks' : List Nat) :
    HasRuleTD (addCubeTD T p asgn ks) ρ p' ks' ↔
      HasRuleTD T ρ p' ks' ∨ (p' = p ∧ ks' = ks ∧ agrees ρ asgn 0 = true ∧ arOK ρ ks.length = true) := by
  unfold HasRuleTD addCubeTD
  rw [getTD_setTD]
  by_cases h : p = p'
  · subst h
    rw [if_pos rfl, apply2_eval, mem_unionTS, construct_eval_agrees, agrees_withAr ρ asgn hl]
    by_cases ha : (agrees ρ asgn 0 && arOK ρ ks.length) = true
    · rw [if_pos ha]
      simp only [Bool.and_eq_true] at ha
      simp [ha.1, ha.2]
    · rw [if_neg ha]
      simp only [Bool.and_eq_true] at ha
      constructor
      · rintro (h | h)
        · exact Or.inl h
        · cases h
      · rintro (h | ⟨_, _, h1, h2⟩)
        · exact Or.inl h
        · exact absurd ⟨h1, h2⟩ ha
  · rw [if_neg h]
    have : ¬ p' = p := fun e => h e.symm
    simp [this]

/-- `AddTransition(ks, f, p)` adds exactly the rule `f(ks) → p` (16-bit symbols, arity < 64) -/
theorem absTD_addTransition (T : TableTD) (ks : List Nat) (f p : Nat) (hf : f < 2 ^ 16) (hk : ks.length < 64)
    (g : Nat) (hg : g < 2 ^ 16) (n : Nat) (hn : n < 64) (p' : Nat) (ks' : List Nat) :
    HasRuleTD (addTransitionTD T ks f p) (bitsAr g n) p' ks' ↔
      HasRuleTD T (bitsAr g n) p' ks' ∨ (g = f ∧ n = ks.length ∧ ks' = ks ∧ p' = p) := by
  unfold addTransitionTD
  rw [absTD_add T p (symAsgn f) (symAsgn_length f), bitsAr, agrees_withArity _ _ _ (by rw [symAsgn_length]; omega),
    agrees_symAsgn_lt hg hf, arOK_withArity_lt _ hn hk]
  constructor
  · rintro (h | ⟨h1, h2, h3, h4⟩)
    · exact Or.inl h
    · exact Or.inr ⟨h3, h4, h2, h1⟩
  · rintro (h | ⟨h1, h2, h3, h4⟩)
    · exact Or.inl h
    · exact Or.inr ⟨h4, h3, h1, h2⟩

theorem absTD_foldl (g : Nat) (hg : g < 2 ^ 16) (n : Nat) (hn : n < 64) (p : Nat) (ks : List Nat) :
    ∀ (rs : List Rule) (T : TableTD), (∀ r, r ∈ rs → r.sym < 2 ^ 16 ∧ r.kids.length < 64) →
      (HasRuleTD (rs.foldl (fun T r => addTransitionTD T r.kids r.sym r.parent) T) (bitsAr g n) p ks ↔
        HasRuleTD T (bitsAr g n) p ks ∨ ((⟨g, ks, p⟩ : Rule) ∈ rs ∧ n = ks.length))
  | [], T, _ => by simp
  | r :: rs, T, h => by
    rw [List.foldl_cons, absTD_foldl g hg n hn p ks rs _ (fun r' hr' => h r' (List.mem_cons_of_mem _ hr')),
      absTD_addTransition T r.kids r.sym r.parent (h r List.mem_cons_self).1 (h r List.mem_cons_self).2 g hg n hn,
      List.mem_cons]
    have : (⟨g, ks, p⟩ : Rule) = r ↔ (g = r.sym ∧ ks = r.kids ∧ p = r.parent) := by
      cases r; simp
    rw [this]
    constructor
    · rintro ((h | ⟨h1, h2, h3, h4⟩) | h)
      · exact Or.inl h
      · exact Or.inr ⟨Or.inl ⟨h1, h3, h4⟩, by rw [h2, h3]⟩
      · exact Or.inr ⟨Or.inr h.1, h.2⟩
    · rintro (h | ⟨⟨h1, h2, h3⟩ | h, h'⟩)
      · exact Or.inl (Or.inl h)
      · exact Or.inl (Or.inr ⟨h1, by rw [h', h2], h2, h3⟩)
      · exact Or.inr ⟨h, h'⟩

/-- the abstraction of the encoding of a rule list is the rule list (with the arity in the arity bits) -/
theorem absTD_ofRules (rs : List Rule) (hrs : ∀ r, r ∈ rs → r.sym < 2 ^ 16 ∧ r.kids.length < 64) (g : Nat) (hg : g < 2 ^ 16)
    (n : Nat) (hn : n < 64) (p : Nat) (ks : List Nat) :
    HasRuleTD (ofRulesTD rs) (bitsAr g n) p ks ↔ (⟨g, ks, p⟩ : Rule) ∈ rs ∧ n = ks.length := by
  unfold ofRulesTD
  rw [absTD_foldl g hg n hn p ks rs _ hrs]
  simp [hasRuleTD_nil]

/-- … for the executable abstraction: the same rules, as sets -/
theorem absRulesTD_ofRules (rs : List Rule) (syms : List Nat) (hrs : ∀ r, r ∈ rs → r.sym < 2 ^ 16 ∧ r.kids.length < 64)
    (hs : ∀ f, f ∈ syms → f < 2 ^ 16) (r : Rule) : r ∈ absRulesTD syms (ofRulesTD rs) ↔ r.sym ∈ syms ∧ r ∈ rs := by
  rw [mem_absRulesTD]
  constructor
  · rintro ⟨h1, n, hn, h2⟩
    exact ⟨h1, ((absTD_ofRules rs hrs r.sym (hs _ h1) n hn r.parent r.kids).mp h2).1⟩
  · rintro ⟨h1, h2⟩
    exact ⟨h1, r.kids.length, (hrs r h2).2,
      (absTD_ofRules rs hrs r.sym (hs _ h1) _ (hrs r h2).2 r.parent r.kids).mpr ⟨h2, rfl⟩⟩

/-! ### union -/

/-- table-wise `apply2 (· ∪ ·)` gives the union of the rule sets -/
theorem absTD_union (T₁ T₂ : TableTD) (ρ : Nat → Bool) (p : Nat) (ks : List Nat) :
    HasRuleTD (unionTD T₁ T₂) ρ p ks ↔ HasRuleTD T₁ ρ p ks ∨ HasRuleTD T₂ ρ p ks := by
  unfold HasRuleTD unionTD
  rw [getTD_mapKeys]
  split
  · rw [apply2_eval, mem_unionTS]
  · next hn =>
    simp only [List.mem_append, not_or] at hn
    rw [getTD_not_key hn.1, getTD_not_key hn.2]
    simp [eval]

theorem getTD_unionDisj (T₂ : TableTD) (p : Nat) : ∀ (L : TableTD) (T₁ : TableTD),
    getTD (L.foldl (fun R e => setTD R e.1 (getTD T₂ e.1)) T₁) p = if p ∈ keysTD L then getTD T₂ p else getTD T₁ p
  | [], T₁ => by simp [keysTD]
  | e :: L, T₁ => by
    rw [List.foldl_cons, getTD_unionDisj T₂ p L]
    have hk : p ∈ keysTD (e :: L) ↔ p = e.1 ∨ p ∈ keysTD L := by simp [keysTD]
    by_cases h : p ∈ keysTD L
    · rw [if_pos h, if_pos (hk.mpr (Or.inr h))]
    · rw [if_neg h, getTD_setTD]
      by_cases h' : e.1 = p
      · rw [if_pos h', if_pos (hk.mpr (Or.inl h'.symm)), h']
      · rw [if_neg h', if_neg (fun hh => (hk.mp hh).elim (fun e' => h' e'.symm) h)]

/-- `UnionDisjointStates`: the MTBDDs of the right operand overwrite those of the left one … -/
theorem getTD_unionDisjTD (T₁ T₂ : TableTD) (p : Nat) :
    getTD (unionDisjTD T₁ T₂) p = if p ∈ keysTD T₂ then getTD T₂ p else getTD T₁ p :=
  getTD_unionDisj T₂ p T₂ T₁

/-- … so the result has the union of the rule sets when no state has an MTBDD in both tables -/
theorem absTD_unionDisj (T₁ T₂ : TableTD) (hd : ∀ p, p ∈ keysTD T₁ → p ∉ keysTD T₂) (ρ : Nat → Bool) (p : Nat)
    (ks : List Nat) : HasRuleTD (unionDisjTD T₁ T₂) ρ p ks ↔ HasRuleTD T₁ ρ p ks ∨ HasRuleTD T₂ ρ p ks := by
  unfold HasRuleTD
  rw [getTD_unionDisjTD]
  split
  · next h2 =>
    have h1 : p ∉ keysTD T₁ := fun h1 => hd p h1 h2
    rw [getTD_not_key h1]; simp [eval]
  · next h2 => rw [getTD_not_key h2]; simp [eval]

theorem absRulesTD_union (syms : List Nat) (T₁ T₂ : TableTD) (r : Rule) :
    r ∈ absRulesTD syms (unionTD T₁ T₂) ↔ r ∈ absRulesTD syms T₁ ∨ r ∈ absRulesTD syms T₂ := by
  simp only [mem_absRulesTD, absTD_union]
  constructor
  · rintro ⟨h, n, hn, h1 | h2⟩
    · exact Or.inl ⟨h, n, hn, h1⟩
    · exact Or.inr ⟨h, n, hn, h2⟩
  · rintro (⟨h, n, hn, h1⟩ | ⟨h, n, hn, h2⟩)
    · exact ⟨h, n, hn, Or.inl h1⟩
    · exact ⟨h, n, hn, Or.inr h2⟩

/-! ### `GetTopDownAut` -/

/-- the entries of the bottom-up table are what `GetMtbdd` returns (true for the hash map of the C++; in the model: no
duplicate tuple and no entry for the empty tuple, which has its own field) -/
def TableOk (T : Table) : Prop := ∀ e, e ∈ T.entries → e.1 ≠ [] ∧ getE T.entries e.1 = e.2

/-- the MTBDDs of the bottom-up table are ordered, reduced and only use the 16 symbol variables -/
def TableWF (T : Table) : Prop := ∀ ks, WF (T.get ks) ∧ Below 16 (T.get ks)

theorem tableOk_empty : TableOk Table.empty := by intro e he; cases he

theorem tableOk_set {T : Table} (h : TableOk T) (ks : List Nat) (m : MT) : TableOk (T.set ks m) := by
  unfold Table.set
  split
  · exact h
  · next hks =>
    intro e he
    simp only [setE, List.mem_cons, List.mem_filter, bne_iff_ne] at he
    rcases he with rfl | ⟨he, hne⟩
    · exact ⟨hks, by simp [setE, getE]⟩
    · refine ⟨(h e he).1, ?_⟩
      show getE (setE T.entries ks m) e.1 = e.2
      rw [getE_setE, if_neg (fun e' => hne e'.symm)]
      exact (h e he).2

theorem tableOk_addCube {T : Table} (h : TableOk T) (ks : List Nat) (asgn : List (Option Bool)) (p : Nat) :
    TableOk (addCube T ks asgn p) := tableOk_set h _ _

theorem tableOk_foldl : ∀ (rs : List Rule) (T : Table), TableOk T →
    TableOk (rs.foldl (fun T r => addTransition T r.kids r.sym r.parent) T)
  | [], _, h => h
  | r :: rs, T, h => by
    rw [List.foldl_cons]
    exact tableOk_foldl rs _ (tableOk_addCube h _ _ _)

theorem tableOk_ofRules (rs : List Rule) : TableOk (ofRules rs) := tableOk_foldl rs _ tableOk_empty

theorem tableOk_unionDisj {T₁ T₂ : Table} (h1 : TableOk T₁) (h2 : TableOk T₂)
    (hd : ∀ k, k ∈ T₁.entries.map (·.1) → k ∉ T₂.entries.map (·.1)) : TableOk (unionDisj T₁ T₂) := by
  intro e he
  simp only [unionDisj, List.mem_append] at he ⊢
  rw [getE_append]
  rcases he with he | he
  · rw [if_pos (List.mem_map_of_mem he)]
    exact h2 e he
  · rw [if_neg (hd e.1 (List.mem_map_of_mem he))]
    exact h1 e he

theorem tableWF_empty : TableWF Table.empty := by
  intro ks
  unfold Table.get Table.empty
  split <;> exact ⟨trivial, trivial⟩

theorem tableWF_set {T : Table} (h : TableWF T) (ks : List Nat) (m : MT) (hm : WF m ∧ Below 16 m) :
    TableWF (T.set ks m) := by
  intro ks'
  rw [get_set]
  split
  · exact hm
  · exact h ks'

theorem tableWF_addCube {T : Table} (h : TableWF T) (ks : List Nat) (asgn : List (Option Bool)) (hl : asgn.length = 16)
    (p : Nat) : TableWF (addCube T ks asgn p) :=
  tableWF_set h _ _ ⟨apply2_wf _ _ _ (h ks).1 (construct_wf _ _ _),
    apply2_below _ _ _ (h ks).2 (by have := construct_below asgn [p] ([] : List Nat); rwa [hl] at this)⟩

theorem tableWF_foldl : ∀ (rs : List Rule) (T : Table), TableWF T →
    TableWF (rs.foldl (fun T r => addTransition T r.kids r.sym r.parent) T)
  | [], _, h => h
  | r :: rs, T, h => by
    rw [List.foldl_cons]
    exact tableWF_foldl rs _ (tableWF_addCube h _ _ (symAsgn_length _) _)

theorem tableWF_ofRules (rs : List Rule) : TableWF (ofRules rs) := tableWF_foldl rs _ tableWF_empty

theorem getE_mem {es : List (List Nat × MT)} {ks : List Nat} (h : ks ∈ es.map (·.1)) : (ks, getE es ks) ∈ es := by
  induction es with
  | nil => cases h
  | cons e es ih =>
    obtain ⟨k, m⟩ := e
    simp only [getE]
    by_cases hk : k = ks
    · subst hk; simp
    · rw [if_neg hk]
      simp only [List.map_cons, List.mem_cons] at h
      rcases h with h | h
      · exact absurd h.symm hk
      · exact List.mem_cons_of_mem _ (ih h)

/-- the pairs the iterator yields against `GetMtbdd` -/
theorem pairs_hasRule {T : Table} (hT : TableOk T) (ρ : Nat → Bool) (ks : List Nat) (p : Nat) :
    (∃ e, e ∈ pairs T ∧ e.1 = ks ∧ p ∈ eval e.2 ρ) ↔ HasRule T ρ ks p := by
  unfold HasRule Table.get pairs
  constructor
  · rintro ⟨e, he, rfl, hp⟩
    rcases List.mem_cons.mp he with rfl | he
    · simpa using hp
    · rw [if_neg (hT e he).1, (hT e he).2]; exact hp
  · intro h
    by_cases hk : ks = []
    · rw [if_pos hk] at h
      exact ⟨([], T.nullary), List.mem_cons_self, hk.symm, h⟩
    · rw [if_neg hk] at h
      have hkey : ks ∈ T.entries.map (·.1) := by
        apply Classical.byContradiction
        intro hn
        rw [getE_not_key hn] at h
        simp [eval] at h
      exact ⟨(ks, getE T.entries ks), List.mem_cons_of_mem _ (getE_mem hkey), rfl, h⟩

theorem mem_invertLeaf {p : Nat} {ks : List Nat} {lhs : List Nat} {rhs : List (List Nat)} {x : List Nat} :
    x ∈ invertLeaf p ks lhs rhs ↔ x ∈ rhs ∨ (x = ks ∧ p ∈ lhs) := by
  unfold invertLeaf
  split
  · next h =>
    rw [mem_insT]
    have : p ∈ lhs := by simpa using h
    constructor
    · rintro (h | h)
      · exact Or.inr ⟨h, this⟩
      · exact Or.inl h
    · rintro (h | ⟨h, _⟩)
      · exact Or.inr h
      · exact Or.inl h
  · next h =>
    have : p ∉ lhs := by simpa using h
    constructor
    · exact Or.inl
    · rintro (h | ⟨_, h⟩)
      · exact h
      · exact absurd h this

/-- the inner loop of `GetTopDownAut` for the state `p` -/
theorem invert_inner (p : Nat) (ρ : Nat → Bool) (ks : List Nat) : ∀ (es : List (List Nat × MT)) (acc : MTD),
    ks ∈ eval (es.foldl (invertStep p) acc) ρ ↔
      ks ∈ eval acc ρ ∨ ∃ e, e ∈ es ∧ e.1 = ks ∧ arOK ρ ks.length = true ∧ p ∈ eval e.2 ρ
  | [], acc => by simp
  | e :: es, acc => by
    rw [List.foldl_cons, invert_inner p ρ ks es]
    unfold invertStep
    rw [apply2_eval, mem_invertLeaf, extendWith_eval]
    constructor
    · rintro ((h | ⟨h1, h2⟩) | ⟨e', he', h⟩)
      · exact Or.inl h
      · refine Or.inr ⟨e, List.mem_cons_self, h1.symm, ?_⟩
        have : arOK ρ e.1.length = true := by
          apply Classical.byContradiction
          intro hn
          unfold arOK at hn
          rw [if_neg hn] at h2
          cases h2
        rw [h1]
        refine ⟨this, ?_⟩
        unfold arOK at this
        rwa [if_pos this] at h2
      · exact Or.inr ⟨e', List.mem_cons_of_mem _ he', h⟩
    · rintro (h | ⟨e', he', h1, h2, h3⟩)
      · exact Or.inl (Or.inl h)
      · rcases List.mem_cons.mp he' with rfl | he'
        · refine Or.inl (Or.inr ⟨h1.symm, ?_⟩)
          rw [h1]
          unfold arOK at h2
          rw [if_pos h2]
          exact h3
        · exact Or.inr ⟨e', he', h1, h2, h3⟩

/-- the outer loop of `GetTopDownAut` -/
theorem invert_outer (T : Table) (ρ : Nat → Bool) (p : Nat) (ks : List Nat) : ∀ (L : List Nat) (R : TableTD),
    ks ∈ eval (getTD (L.foldl (fun R p => setTD R p ((pairs T).foldl (invertStep p) (getTD R p))) R) p) ρ ↔
      ks ∈ eval (getTD R p) ρ ∨
        (p ∈ L ∧ ∃ e, e ∈ pairs T ∧ e.1 = ks ∧ arOK ρ ks.length = true ∧ p ∈ eval e.2 ρ)
  | [], R => by simp
  | q :: L, R => by
    rw [List.foldl_cons, invert_outer T ρ p ks L, getTD_setTD]
    by_cases hq : q = p
    · subst hq
      rw [if_pos rfl, invert_inner]
      constructor
      · rintro ((h | h) | ⟨_, h⟩)
        · exact Or.inl h
        · exact Or.inr ⟨List.mem_cons_self, h⟩
        · exact Or.inr ⟨List.mem_cons_self, h⟩
      · rintro (h | ⟨_, h⟩)
        · exact Or.inl (Or.inl h)
        · exact Or.inl (Or.inr h)
    · rw [if_neg hq]
      have : p ∈ q :: L ↔ p ∈ L := by
        rw [List.mem_cons]
        exact ⟨fun h => h.elim (fun e => absurd e.symm hq) id, Or.inr⟩
      rw [this]

theorem mem_tdStates {T : Table} {F : List Nat} {p : Nat} :
    p ∈ tdStates T F ↔ p ∈ F ∨ ∃ ks, ks ∈ T.keys ∧ p ∈ ks := by
  simp only [tdStates, mem_dedupL, List.mem_append, List.mem_flatMap, Table.keys, List.mem_cons, List.mem_map]
  constructor
  · rintro (h | ⟨e, he, hp⟩)
    · exact Or.inl h
    · exact Or.inr ⟨e.1, Or.inr ⟨e, he, rfl⟩, hp⟩
  · rintro (h | ⟨ks, (rfl | ⟨e, he, rfl⟩), hp⟩)
    · exact Or.inl h
    · cases hp
    · exact Or.inr ⟨e, he, hp⟩

/-- **the inversion, for every valuation of the 22 variables**: the top-down table has the rule `ρ(ks) → p` iff `p` is one
of the states collected by `GetTopDownAut` (a final state or a state occurring in a tuple of the table), the arity bits
of `ρ` hold `|ks|` (modulo 64) and the bottom-up table has the rule -/
theorem absTD_invert_gen {T : Table} (hT : TableOk T) (F : List Nat) (ρ : Nat → Bool) (p : Nat) (ks : List Nat) :
    HasRuleTD (getTopDownAut T F) ρ p ks ↔ p ∈ tdStates T F ∧ arOK ρ ks.length = true ∧ HasRule T ρ ks p := by
  unfold HasRuleTD getTopDownAut
  rw [invert_outer, ← pairs_hasRule hT]
  constructor
  · rintro (h | ⟨h1, e, he, h2, h3, h4⟩)
    · simp [getTD, eval] at h
    · exact ⟨h1, h3, e, he, h2, h4⟩
  · rintro ⟨h1, h3, e, he, h2, h4⟩
    exact Or.inr ⟨h1, e, he, h2, h3, h4⟩

/-- **the inversion**: for a state `p` collected by `GetTopDownAut` and a tuple shorter than 64, the top-down table has the
rule for the arity-prefixed valuation iff the bottom-up table has the rule -/
theorem absTD_invert {T : Table} (hT : TableOk T) (hW : TableWF T) (F : List Nat) (ρ : Nat → Bool) (p : Nat)
    (ks : List Nat) (hp : p ∈ tdStates T F) :
    HasRuleTD (getTopDownAut T F) (withArity ρ ks.length) p ks ↔ HasRule T ρ ks p := by
  rw [absTD_invert_gen hT, arOK_withArity_self]
  unfold HasRule
  rw [eval_withArity ρ _ (hW ks).2]
  exact ⟨fun h => h.2.2, fun h => ⟨hp, rfl, h⟩⟩

/-- … and for another value `n < 64` of the arity bits there is no rule (the bound: `|ks| < 64 = 2^6`) -/
theorem absTD_invert_arity {T : Table} (hT : TableOk T) (F : List Nat) (ρ : Nat → Bool) (p : Nat) (ks : List Nat)
    (n : Nat) (hn : n < 64) (hk : ks.length < 64) (h : HasRuleTD (getTopDownAut T F) (withArity ρ n) p ks) :
    n = ks.length :=
  (arOK_withArity_lt ρ hn hk).mp ((absTD_invert_gen hT F _ p ks).mp h).2.1

/-- the abstract rule sets: those of the bottom-up automaton whose parent was collected -/
theorem absRulesTD_getTopDownAut {T : Table} (hT : TableOk T) (hW : TableWF T) (F syms : List Nat) (r : Rule) :
    r ∈ absRulesTD syms (getTopDownAut T F) ↔ r ∈ absRules syms T ∧ r.parent ∈ tdStates T F := by
  rw [mem_absRulesTD, mem_absRules]
  unfold bitsAr
  constructor
  · rintro ⟨hs, n, _, h⟩
    obtain ⟨h1, _, h3⟩ := (absTD_invert_gen hT F _ _ _).mp h
    unfold HasRule at h3
    rw [eval_withArity _ _ (hW _).2] at h3
    exact ⟨⟨hs, h3⟩, h1⟩
  · rintro ⟨⟨hs, h3⟩, h1⟩
    refine ⟨hs, r.kids.length % 64, Nat.mod_lt _ (by decide), (absTD_invert_gen hT F _ _ _).mpr ⟨h1, ?_, ?_⟩⟩
    · exact arOK_withArity_mod _ _
    · unfold HasRule
      rw [eval_withArity _ _ (hW _).2]
      exact h3

/-- the children of the rules of the bottom-up automaton are collected by `GetTopDownAut` -/
theorem tdStates_closed (syms : List Nat) (T : Table) (F : List Nat) : TdClosed (absRules syms T) (tdStates T F) := by
  intro r hr _ k hk
  exact mem_tdStates.mpr (Or.inr ⟨r.kids, hasRule_key (mem_absRules.mp hr).2, hk⟩)

/-- **`GetTopDownAut` keeps the language** -/
theorem getTopDownAut_lang {T : Table} (hT : TableOk T) (hW : TableWF T) (F syms : List Nat) (t : Tree) :
    accepts (absTD syms (getTopDownAut T F) F) t = accepts (absBU syms T F) t := by
  rw [← keepParents_lang (absBU syms T F) (tdStates T F) (fun q hq => mem_tdStates.mpr (Or.inl hq))
    (tdStates_closed syms T F) t]
  apply Isx.accepts_congr_sets
  · intro r
    show r ∈ absRulesTD syms (getTopDownAut T F) ↔ _
    rw [absRulesTD_getTopDownAut hT hW]
    simp only [keepParents, absBU, List.mem_filter, List.contains_iff_mem]
  · intro q; exact Iff.rfl

/-- the rules that `GetTopDownAut` drops: the parent is neither final nor a child anywhere, so it is unreachable top-down -/
theorem getTopDownAut_dropped (T : Table) (syms F : List Nat) {p : Nat} (hp : p ∉ tdStates T F) :
    ¬ TdReachable (absBU syms T F) p := by
  intro h
  exact hp (tdReachable_sub_closed (A := absBU syms T F) (fun q hq => mem_tdStates.mpr (Or.inl hq))
    (tdStates_closed syms T F) _ h)

/-! ### symbolic trimming, 1: reachability and productivity only depend on the (parent, children) pairs -/

/-- the two automata have the same rules up to the symbols -/
def SameSkel (A B : TA) : Prop :=
  ∀ p ks, (∃ r, r ∈ A.rules ∧ r.parent = p ∧ r.kids = ks) ↔ (∃ r, r ∈ B.rules ∧ r.parent = p ∧ r.kids = ks)

theorem SameSkel.symm {A B : TA} (h : SameSkel A B) : SameSkel B A := fun p ks => (h p ks).symm

theorem tdReachable_skel {A B : TA} (h : SameSkel A B) (hf : ∀ q, q ∈ A.final → q ∈ B.final) {q : Nat}
    (hq : TdReachable A q) : TdReachable B q := by
  induction hq with
  | final hq => exact TdReachable.final (hf _ hq)
  | @step r k hr _ hk ih =>
    obtain ⟨r', hr', e1, e2⟩ := (h r.parent r.kids).mp ⟨r, hr, rfl, rfl⟩
    exact TdReachable.step hr' (by rw [e1]; exact ih) (by rw [e2]; exact hk)

theorem prodClosed_skel {A B : TA} (h : SameSkel A B) {P : List Nat} (hP : ProdClosed A P) : ProdClosed B P := by
  intro r hr hk
  obtain ⟨r', hr', e1, e2⟩ := (h r.parent r.kids).mpr ⟨r, hr, rfl, rfl⟩
  rw [← e1]
  exact hP r' hr' (by rw [e2]; exact hk)

theorem productive_skel {A B : TA} (h : SameSkel A B) {q : Nat} : Productive A q → Productive B q :=
  fun ⟨t, ht⟩ => (prodStates_iff B q).mp
    (reach_sub_closed A (prodStates B) (prodClosed_skel h.symm (prodStates_closed B)) t q ht)

theorem mem_tdReach_skel {A B : TA} (h : SameSkel A B) (hf : ∀ q, q ∈ A.final ↔ q ∈ B.final) (q : Nat) :
    q ∈ tdReach A ↔ q ∈ tdReach B := by
  rw [tdReach_iff, tdReach_iff]
  exact ⟨tdReachable_skel h (fun q => (hf q).mp), tdReachable_skel h.symm (fun q => (hf q).mpr)⟩

theorem mem_prodStates_skel {A B : TA} (h : SameSkel A B) (q : Nat) : q ∈ prodStates A ↔ q ∈ prodStates B := by
  rw [prodStates_iff, prodStates_iff]
  exact ⟨productive_skel h, productive_skel h.symm⟩

theorem mem_restrict_rules {A : TA} {P : List Nat} {r : Rule} :
    r ∈ (restrict A P).rules ↔ r ∈ A.rules ∧ r.parent ∈ P ∧ ∀ k, k ∈ r.kids → k ∈ P := by
  simp only [restrict, List.mem_filter, Bool.and_eq_true, List.contains_iff_mem, List.all_eq_true]

theorem mem_restrict_final {A : TA} {P : List Nat} {q : Nat} : q ∈ (restrict A P).final ↔ q ∈ A.final ∧ q ∈ P := by
  simp only [restrict, List.mem_filter, List.contains_iff_mem]

theorem mem_removeUnreachable_rules {A : TA} {r : Rule} :
    r ∈ (removeUnreachable A).rules ↔ r ∈ A.rules ∧ r.parent ∈ tdReach A := by
  simp only [removeUnreachable, List.mem_filter, List.contains_iff_mem]

theorem sameSkel_restrict {A B : TA} (h : SameSkel A B) {P P' : List Nat} (hP : ∀ q, q ∈ P ↔ q ∈ P') :
    SameSkel (restrict A P) (restrict B P') := by
  intro p ks
  simp only [mem_restrict_rules]
  constructor
  · rintro ⟨r, ⟨hr, h1, h2⟩, rfl, rfl⟩
    obtain ⟨r', hr', e1, e2⟩ := (h r.parent r.kids).mp ⟨r, hr, rfl, rfl⟩
    exact ⟨r', ⟨hr', by rw [e1]; exact (hP _).mp h1, by rw [e2]; exact fun k hk => (hP _).mp (h2 k hk)⟩, e1, e2⟩
  · rintro ⟨r, ⟨hr, h1, h2⟩, rfl, rfl⟩
    obtain ⟨r', hr', e1, e2⟩ := (h r.parent r.kids).mpr ⟨r, hr, rfl, rfl⟩
    exact ⟨r', ⟨hr', by rw [e1]; exact (hP _).mpr h1, by rw [e2]; exact fun k hk => (hP _).mpr (h2 k hk)⟩, e1, e2⟩

theorem sameSkel_removeUnreachable {A B : TA} (h : SameSkel A B) (hf : ∀ q, q ∈ A.final ↔ q ∈ B.final) :
    SameSkel (removeUnreachable A) (removeUnreachable B) := by
  intro p ks
  simp only [mem_removeUnreachable_rules]
  constructor
  · rintro ⟨r, ⟨hr, h1⟩, rfl, rfl⟩
    obtain ⟨r', hr', e1, e2⟩ := (h r.parent r.kids).mp ⟨r, hr, rfl, rfl⟩
    exact ⟨r', ⟨hr', by rw [e1]; exact (mem_tdReach_skel h hf _).mp h1⟩, e1, e2⟩
  · rintro ⟨r, ⟨hr, h1⟩, rfl, rfl⟩
    obtain ⟨r', hr', e1, e2⟩ := (h r.parent r.kids).mpr ⟨r, hr, rfl, rfl⟩
    exact ⟨r', ⟨hr', by rw [e1]; exact (mem_tdReach_skel h hf _).mpr h1⟩, e1, e2⟩

/-- automata with the same sets of rules and final states -/
def SetEqTA (A B : TA) : Prop := (∀ r, r ∈ A.rules ↔ r ∈ B.rules) ∧ (∀ q, q ∈ A.final ↔ q ∈ B.final)

theorem SetEqTA.lang {A B : TA} (h : SetEqTA A B) (t : Tree) : accepts A t = accepts B t :=
  Isx.accepts_congr_sets h.1 h.2 t

theorem SetEqTA.skel {A B : TA} (h : SetEqTA A B) : SameSkel A B := by
  intro p ks
  constructor
  · rintro ⟨r, hr, e⟩; exact ⟨r, (h.1 r).mp hr, e⟩
  · rintro ⟨r, hr, e⟩; exact ⟨r, (h.1 r).mpr hr, e⟩

theorem SetEqTA.trans {A B C : TA} (h : SetEqTA A B) (h' : SetEqTA B C) : SetEqTA A C :=
  ⟨fun r => (h.1 r).trans (h'.1 r), fun q => (h.2 q).trans (h'.2 q)⟩

theorem SetEqTA.symm {A B : TA} (h : SetEqTA A B) : SetEqTA B A := ⟨fun r => (h.1 r).symm, fun q => (h.2 q).symm⟩

theorem setEqTA_removeUnreachable {A B : TA} (h : SetEqTA A B) : SetEqTA (removeUnreachable A) (removeUnreachable B) := by
  refine ⟨fun r => ?_, h.2⟩
  rw [mem_removeUnreachable_rules, mem_removeUnreachable_rules, h.1 r, mem_tdReach_skel h.skel h.2]

/-- the top-down `RemoveUselessStates` restricts to the useful states among the REACHABLE ones before removing the
unreachable states; the result is the same as with all productive states -/
theorem removeUseless_alt (A : TA) (U : List Nat) (hU : ∀ q, q ∈ U ↔ q ∈ prodStates A ∧ q ∈ tdReach A) :
    SetEqTA (removeUnreachable (restrict A U)) (removeUseless A) := by
  rw [removeUseless_eq]
  have mono : ∀ q, TdReachable (restrict A U) q → TdReachable (restrict A (prodStates A)) q := by
    intro q hq
    induction hq with
    | final hq => exact TdReachable.final (mem_restrict_final.mpr
        ⟨(mem_restrict_final.mp hq).1, ((hU _).mp (mem_restrict_final.mp hq).2).1⟩)
    | @step r k hr _ hk ih =>
      obtain ⟨h0, h1, h2⟩ := mem_restrict_rules.mp hr
      exact TdReachable.step (mem_restrict_rules.mpr ⟨h0, ((hU _).mp h1).1, fun k hk => ((hU _).mp (h2 k hk)).1⟩) ih hk
  have back : ∀ q, TdReachable (restrict A (prodStates A)) q → TdReachable (restrict A U) q := by
    intro q hq
    induction hq with
    | final hq =>
      obtain ⟨h1, h2⟩ := mem_restrict_final.mp hq
      exact TdReachable.final (mem_restrict_final.mpr ⟨h1, (hU _).mpr ⟨h2, tdReach_final A _ h1⟩⟩)
    | @step r k hr _ hk ih =>
      obtain ⟨h0, h1, h2⟩ := mem_restrict_rules.mp hr
      have hpU : r.parent ∈ U := tdReachable_restrict_mem ih
      have hpR : r.parent ∈ tdReach A := ((hU _).mp hpU).2
      exact TdReachable.step (mem_restrict_rules.mpr
        ⟨h0, hpU, fun k hk => (hU _).mpr ⟨h2 k hk, tdReach_closed A r h0 hpR k hk⟩⟩) ih hk
  refine ⟨fun r => ?_, fun q => ?_⟩
  · rw [mem_removeUnreachable_rules, mem_removeUnreachable_rules, tdReach_iff, tdReach_iff]
    constructor
    · rintro ⟨hr, hp⟩
      obtain ⟨h0, h1, h2⟩ := mem_restrict_rules.mp hr
      exact ⟨mem_restrict_rules.mpr ⟨h0, ((hU _).mp h1).1, fun k hk => ((hU _).mp (h2 k hk)).1⟩, mono _ hp⟩
    · rintro ⟨hr, hp⟩
      obtain ⟨h0, _, _⟩ := mem_restrict_rules.mp hr
      have hp' := back _ hp
      refine ⟨mem_restrict_rules.mpr ⟨h0, tdReachable_restrict_mem hp', fun k hk => ?_⟩, hp'⟩
      exact tdReachable_restrict_mem (back _ (TdReachable.step hr hp hk))
  · show q ∈ (restrict A U).final ↔ q ∈ (restrict A (prodStates A)).final
    rw [mem_restrict_final, mem_restrict_final]
    constructor
    · rintro ⟨h1, h2⟩; exact ⟨h1, ((hU _).mp h2).1⟩
    · rintro ⟨h1, h2⟩; exact ⟨h1, (hU _).mpr ⟨h2, tdReach_final A _ h1⟩⟩

/-- the productive states of the reachable part are the productive reachable states -/
theorem mem_prodStates_removeUnreachable (A : TA) (q : Nat) :
    q ∈ prodStates (removeUnreachable A) ↔ q ∈ prodStates A ∧ q ∈ tdReach A := by
  rw [prodStates_iff, prodStates_iff, tdReach_iff]
  constructor
  · rintro ⟨t, ht⟩
    refine ⟨⟨t, reach_mono _ A (fun r hr => (mem_removeUnreachable_rules.mp hr).1) t q ht⟩, ?_⟩
    cases t with
    | node f ts =>
      rw [reach, mem_post'] at ht
      obtain ⟨r, hr, _, _, e⟩ := ht
      rw [← e]
      exact (tdReach_iff A _).mp (mem_removeUnreachable_rules.mp hr).2
  · rintro ⟨hp, hr⟩
    exact productive_removeUnreachable hp hr

/-- the bottom-up `RemoveUselessStates` keeps the rules all of whose states are useful -/
theorem removeUseless_rules_iff (A : TA) (r : Rule) :
    r ∈ (removeUseless A).rules ↔
      r ∈ A.rules ∧ r.parent ∈ usefulStates A ∧ ∀ k, k ∈ r.kids → k ∈ usefulStates A := by
  rw [removeUseless_eq, mem_removeUnreachable_rules, usefulStates_eq]
  constructor
  · rintro ⟨hr, hp⟩
    exact ⟨(mem_restrict_rules.mp hr).1, hp, fun k hk => tdReach_closed _ r hr hp k hk⟩
  · rintro ⟨hr, hp, hk⟩
    refine ⟨mem_restrict_rules.mpr ⟨hr, ?_, fun k hk' => ?_⟩, hp⟩
    · exact tdReachable_restrict_mem ((tdReach_iff _ _).mp hp)
    · exact tdReachable_restrict_mem ((tdReach_iff _ _).mp (hk k hk'))

/-! ### symbolic trimming, 2: the top-down operations -/

/-- the MTBDDs of the top-down table are ordered and reduced -/
def TableTDWF (T : TableTD) : Prop := ∀ p, WF (getTD T p)

/-- the symbols `syms` cover the table: every valuation that has a rule is (as far as the rule goes) one of the
valuations of a symbol of `syms` with some arity below 64 -/
def SymsCompleteTD (syms : List Nat) (T : TableTD) : Prop :=
  ∀ ρ p ks, HasRuleTD T ρ p ks → ∃ f, f ∈ syms ∧ ∃ n, n < 64 ∧ HasRuleTD T (bitsAr f n) p ks

/-- the leaf visits: the tuples in the leaves are those of the rules for ALL valuations -/
theorem mem_leafTuples {m : MTD} (hm : WF m) {ks : List Nat} : ks ∈ leafTuples m ↔ ∃ ρ, ks ∈ eval m ρ := by
  simp only [leafTuples, List.mem_flatMap, id]
  constructor
  · rintro ⟨l, hl, hks⟩
    obtain ⟨ρ, e⟩ := (mem_voidApply1 hm).mp hl
    exact ⟨ρ, by rw [e]; exact hks⟩
  · rintro ⟨ρ, h⟩
    exact ⟨eval m ρ, (mem_voidApply1 hm).mpr ⟨ρ, rfl⟩, h⟩

theorem mem_skelTD {T : TableTD} {F : List Nat} (hT : TableTDWF T) {r : Rule} :
    r ∈ (skelTD T F).rules ↔ r.sym = 0 ∧ ∃ ρ, HasRuleTD T ρ r.parent r.kids := by
  simp only [skelTD, List.mem_flatMap, List.mem_map]
  constructor
  · rintro ⟨p, _, ks, hks, rfl⟩
    exact ⟨rfl, (mem_leafTuples (hT p)).mp hks⟩
  · rintro ⟨h0, ρ, h⟩
    refine ⟨r.parent, hasRuleTD_key h, r.kids, (mem_leafTuples (hT _)).mpr ⟨ρ, h⟩, ?_⟩
    cases r; simp only at h0; subst h0; rfl

/-- the skeleton seen through the leaves is the skeleton of the abstraction -/
theorem sameSkel_skelTD {syms : List Nat} {T : TableTD} (F : List Nat) (hT : TableTDWF T) (hc : SymsCompleteTD syms T) :
    SameSkel (skelTD T F) (absTD syms T F) := by
  intro p ks
  constructor
  · rintro ⟨r, hr, rfl, rfl⟩
    obtain ⟨_, ρ, h⟩ := (mem_skelTD hT).mp hr
    obtain ⟨f, hf, n, hn, h'⟩ := hc ρ _ _ h
    exact ⟨⟨f, r.kids, r.parent⟩, mem_absRulesTD.mpr ⟨hf, n, hn, h'⟩, rfl, rfl⟩
  · rintro ⟨r, hr, rfl, rfl⟩
    obtain ⟨_, n, _, h⟩ := mem_absRulesTD.mp hr
    exact ⟨⟨0, r.kids, r.parent⟩, (mem_skelTD hT).mpr ⟨rfl, _, h⟩, rfl, rfl⟩

theorem apply1_id_eval {α : Type} [DecidableEq α] (m : Node α) (ρ : Nat → Bool) : eval (apply1 id m) ρ = eval m ρ := by
  rw [apply1_eval]; rfl

/-- `RemoveUnreachableStates` (top-down) keeps exactly the rules of the reached states, for every valuation -/
theorem hasRuleTD_removeUnreachableTD (T : TableTD) (F : List Nat) (ρ : Nat → Bool) (p : Nat) (ks : List Nat) :
    HasRuleTD (removeUnreachableTD T F) ρ p ks ↔ HasRuleTD T ρ p ks ∧ p ∈ tdReach (skelTD T F) := by
  unfold HasRuleTD removeUnreachableTD
  rw [getTD_mapKeys (tdReach (skelTD T F)) (fun p => apply1 id (getTD T p))]
  split
  · next h => rw [apply1_id_eval]; exact ⟨fun h' => ⟨h', h⟩, fun h' => h'.1⟩
  · next h => simp [eval, h]

theorem tableTDWF_removeUnreachableTD {T : TableTD} (hT : TableTDWF T) (F : List Nat) :
    TableTDWF (removeUnreachableTD T F) := by
  intro p
  unfold removeUnreachableTD
  rw [getTD_mapKeys (tdReach (skelTD T F)) (fun p => apply1 id (getTD T p))]
  split
  · exact apply1_wf _ (hT p)
  · trivial

theorem symsCompleteTD_sub {syms : List Nat} {T T' : TableTD} (C : Nat → List Nat → Prop)
    (h : ∀ ρ p ks, HasRuleTD T' ρ p ks ↔ HasRuleTD T ρ p ks ∧ C p ks) (hc : SymsCompleteTD syms T) :
    SymsCompleteTD syms T' := by
  intro ρ p ks hr
  obtain ⟨h1, h2⟩ := (h ρ p ks).mp hr
  obtain ⟨f, hf, n, hn, h'⟩ := hc ρ p ks h1
  exact ⟨f, hf, n, hn, (h _ p ks).mpr ⟨h', h2⟩⟩

/-- **`RemoveUnreachableStates` (top-down) on the abstraction** is `removeUnreachable` -/
theorem absTD_removeUnreachable {syms : List Nat} {T : TableTD} (F : List Nat) (hT : TableTDWF T)
    (hc : SymsCompleteTD syms T) :
    SetEqTA (absTD syms (removeUnreachableTD T F) F) (removeUnreachable (absTD syms T F)) := by
  refine ⟨fun r => ?_, fun q => Iff.rfl⟩
  rw [mem_removeUnreachable_rules, ← mem_tdReach_skel (sameSkel_skelTD F hT hc) (fun q => Iff.rfl)]
  show r ∈ absRulesTD syms _ ↔ r ∈ absRulesTD syms T ∧ _
  rw [mem_absRulesTD, mem_absRulesTD]
  simp only [hasRuleTD_removeUnreachableTD]
  constructor
  · rintro ⟨hs, n, hn, h1, h2⟩; exact ⟨⟨hs, n, hn, h1⟩, h2⟩
  · rintro ⟨⟨hs, n, hn, h1⟩, h2⟩; exact ⟨hs, n, hn, h1, h2⟩

theorem removeUnreachableTD_lang {syms : List Nat} {T : TableTD} (F : List Nat) (hT : TableTDWF T)
    (hc : SymsCompleteTD syms T) (t : Tree) :
    accepts (absTD syms (removeUnreachableTD T F) F) t = accepts (absTD syms T F) t := by
  rw [(absTD_removeUnreachable F hT hc).lang, removeUnreachable_lang]

/-- the set `usefulStates` of the top-down `RemoveUselessStates` -/
theorem mem_usefulTD {syms : List Nat} {T : TableTD} (F : List Nat) (hT : TableTDWF T) (hc : SymsCompleteTD syms T)
    (q : Nat) : q ∈ usefulTD T F ↔ q ∈ prodStates (absTD syms T F) ∧ q ∈ tdReach (absTD syms T F) := by
  unfold usefulTD
  rw [mem_prodStates_skel (sameSkel_removeUnreachable (sameSkel_skelTD F hT hc) (fun q => Iff.rfl)),
    mem_prodStates_removeUnreachable]

theorem mem_restrictLeaf {U : List Nat} {l : List (List Nat)} {ks : List Nat} :
    ks ∈ restrictLeaf U l ↔ ks ∈ l ∧ ∀ k, k ∈ ks → k ∈ U := by
  simp only [restrictLeaf, mem_normT, List.mem_filter, List.all_eq_true, List.contains_iff_mem]

theorem hasRuleTD_restrictTD (T : TableTD) (U : List Nat) (ρ : Nat → Bool) (p : Nat) (ks : List Nat) :
    HasRuleTD (restrictTD T U) ρ p ks ↔ HasRuleTD T ρ p ks ∧ p ∈ U ∧ ∀ k, k ∈ ks → k ∈ U := by
  unfold restrictTD
  constructor
  · intro h
    have hk := hasRuleTD_key h
    unfold HasRuleTD at h
    rw [getTD_mapKeys _ (fun p => apply1 (restrictLeaf U) (getTD T p))] at h
    simp only [keysTD, List.map_map, List.mem_map, List.mem_filter, List.contains_iff_mem] at hk
    obtain ⟨p', ⟨_, hpU⟩, e⟩ := hk
    have e' : p' = p := e
    subst e'
    split at h
    · rw [apply1_eval, mem_restrictLeaf] at h
      exact ⟨h.1, hpU, h.2⟩
    · simp [eval] at h
  · rintro ⟨h, hpU, hks⟩
    have hk := hasRuleTD_key h
    unfold HasRuleTD
    rw [getTD_mapKeys _ (fun p => apply1 (restrictLeaf U) (getTD T p)),
      if_pos (by simp only [List.mem_filter, List.contains_iff_mem]; exact ⟨hk, hpU⟩), apply1_eval, mem_restrictLeaf]
    exact ⟨h, hks⟩

theorem tableTDWF_restrictTD {T : TableTD} (hT : TableTDWF T) (U : List Nat) : TableTDWF (restrictTD T U) := by
  intro p
  unfold restrictTD
  rw [getTD_mapKeys _ (fun p => apply1 (restrictLeaf U) (getTD T p))]
  split
  · exact apply1_wf _ (hT p)
  · trivial

/-- the restriction of the table is the restriction of the abstraction -/
theorem absTD_restrictTD (syms : List Nat) (T : TableTD) (F U : List Nat) :
    SetEqTA (absTD syms (restrictTD T U) (F.filter (fun q => U.contains q))) (restrict (absTD syms T F) U) := by
  refine ⟨fun r => ?_, fun q => Iff.rfl⟩
  rw [mem_restrict_rules]
  show r ∈ absRulesTD syms _ ↔ r ∈ absRulesTD syms T ∧ _
  rw [mem_absRulesTD, mem_absRulesTD]
  simp only [hasRuleTD_restrictTD]
  constructor
  · rintro ⟨hs, n, hn, h1, h2⟩; exact ⟨⟨hs, n, hn, h1⟩, h2⟩
  · rintro ⟨⟨hs, n, hn, h1⟩, h2⟩; exact ⟨hs, n, hn, h1, h2⟩

/-- **`RemoveUselessStates` (top-down) on the abstraction** is `removeUseless` -/
theorem absTD_removeUseless {syms : List Nat} {T : TableTD} (F : List Nat) (hT : TableTDWF T)
    (hc : SymsCompleteTD syms T) :
    SetEqTA (absTD syms (removeUselessTD T F).1 (removeUselessTD T F).2) (removeUseless (absTD syms T F)) := by
  show SetEqTA (absTD syms (removeUnreachableTD (restrictTD T (usefulTD T F)) _) _) _
  refine (absTD_removeUnreachable _ (tableTDWF_restrictTD hT _)
    (symsCompleteTD_sub _ (hasRuleTD_restrictTD T (usefulTD T F)) hc)).trans ?_
  refine (setEqTA_removeUnreachable (absTD_restrictTD syms T F (usefulTD T F))).trans ?_
  exact removeUseless_alt _ _ (mem_usefulTD F hT hc)

theorem removeUselessTD_lang {syms : List Nat} {T : TableTD} (F : List Nat) (hT : TableTDWF T)
    (hc : SymsCompleteTD syms T) (t : Tree) :
    accepts (absTD syms (removeUselessTD T F).1 (removeUselessTD T F).2) t = accepts (absTD syms T F) t := by
  rw [(absTD_removeUseless F hT hc).lang, removeUseless_lang]

/-! ### "no useless state" only depends on the sets of rules and final states -/

mutual
theorem valid_mono (A B : TA) (h : ∀ r, r ∈ A.rules → r ∈ B.rules) : ∀ (ρ : RunT), ρ.valid A = true → ρ.valid B = true
  | .node r ks => by
    simp only [RunT.valid, Bool.and_eq_true, List.contains_iff_mem]
    intro ⟨h1, h2⟩
    exact ⟨h r h1, validL_mono A B h ks r.kids h2⟩
theorem validL_mono (A B : TA) (h : ∀ r, r ∈ A.rules → r ∈ B.rules) :
    ∀ (ρs : List RunT) (qs : List Nat), RunT.validL A ρs qs = true → RunT.validL B ρs qs = true
  | [], [] => by simp [RunT.validL]
  | [], _ :: _ => by simp [RunT.validL]
  | _ :: _, [] => by simp [RunT.validL]
  | ρ :: ρs, q :: qs => by
    simp only [RunT.validL, Bool.and_eq_true]
    intro ⟨⟨h1, h2⟩, h3⟩
    exact ⟨⟨h1, valid_mono A B h ρ h2⟩, validL_mono A B h ρs qs h3⟩
end

theorem SetEqTA.acceptingRun {A B : TA} (h : SetEqTA A B) {ρ : RunT} (hρ : AcceptingRun A ρ) : AcceptingRun B ρ :=
  ⟨valid_mono A B (fun r => (h.1 r).mp) ρ hρ.1, (h.2 _).mp hρ.2⟩

/-- if every state and rule of `B` is useful, the same holds of an automaton with the same sets of rules and final states -/
theorem SetEqTA.allUseful {A B : TA} (h : SetEqTA A B)
    (hB : (∀ q, Occurs B q → UsefulState B q) ∧ (∀ r, r ∈ B.rules → UsefulRule B r)) :
    (∀ q, Occurs A q → UsefulState A q) ∧ (∀ r, r ∈ A.rules → UsefulRule A r) := by
  constructor
  · intro q hq
    have : Occurs B q := by
      rcases hq with hq | ⟨r, hr, hq⟩
      · exact Or.inl ((h.2 q).mp hq)
      · exact Or.inr ⟨r, (h.1 r).mp hr, hq⟩
    obtain ⟨ρ, h1, h2⟩ := hB.1 q this
    exact ⟨ρ, h.symm.acceptingRun h1, h2⟩
  · intro r hr
    obtain ⟨ρ, h1, h2⟩ := hB.2 r ((h.1 r).mp hr)
    exact ⟨ρ, h.symm.acceptingRun h1, h2⟩

/-- **"leaving no useless state"** (top-down): every state and every rule of the abstraction of the result of
`RemoveUselessStates` takes part in an accepting run -/
theorem removeUselessTD_useful {syms : List Nat} {T : TableTD} (F : List Nat) (hT : TableTDWF T)
    (hc : SymsCompleteTD syms T) :
    (∀ q, Occurs (absTD syms (removeUselessTD T F).1 (removeUselessTD T F).2) q →
      UsefulState (absTD syms (removeUselessTD T F).1 (removeUselessTD T F).2) q) ∧
    (∀ r, r ∈ (absTD syms (removeUselessTD T F).1 (removeUselessTD T F).2).rules →
      UsefulRule (absTD syms (removeUselessTD T F).1 (removeUselessTD T F).2) r) :=
  (absTD_removeUseless F hT hc).allUseful ⟨removeUseless_post_state _, removeUseless_post_rule _⟩

/-! ### symbolic trimming, 3: the bottom-up operations -/

def SymsCompleteBU (syms : List Nat) (T : Table) : Prop :=
  ∀ ρ ks p, HasRule T ρ ks p → ∃ f, f ∈ syms ∧ HasRule T (bits f) ks p

theorem mem_leafParents {m : MT} (hm : WF m) {p : Nat} : p ∈ leafParents m ↔ ∃ ρ, p ∈ eval m ρ := by
  simp only [leafParents, List.mem_flatMap, id]
  constructor
  · rintro ⟨l, hl, hp⟩
    obtain ⟨ρ, e⟩ := (mem_voidApply1 hm).mp hl
    exact ⟨ρ, by rw [e]; exact hp⟩
  · rintro ⟨ρ, h⟩
    exact ⟨eval m ρ, (mem_voidApply1 hm).mpr ⟨ρ, rfl⟩, h⟩

theorem mem_skelBU {T : Table} {F : List Nat} (hT : TableWF T) {r : Rule} :
    r ∈ (skelBU T F).rules ↔ r.sym = 0 ∧ ∃ ρ, HasRule T ρ r.kids r.parent := by
  simp only [skelBU, List.mem_flatMap, List.mem_map]
  constructor
  · rintro ⟨ks, _, p, hp, rfl⟩
    exact ⟨rfl, (mem_leafParents (hT ks).1).mp hp⟩
  · rintro ⟨h0, ρ, h⟩
    refine ⟨r.kids, hasRule_key h, r.parent, (mem_leafParents (hT _).1).mpr ⟨ρ, h⟩, ?_⟩
    cases r; simp only at h0; subst h0; rfl

theorem sameSkel_skelBU {syms : List Nat} {T : Table} (F : List Nat) (hT : TableWF T) (hc : SymsCompleteBU syms T) :
    SameSkel (skelBU T F) (absBU syms T F) := by
  intro p ks
  constructor
  · rintro ⟨r, hr, rfl, rfl⟩
    obtain ⟨_, ρ, h⟩ := (mem_skelBU hT).mp hr
    obtain ⟨f, hf, h'⟩ := hc ρ _ _ h
    exact ⟨⟨f, r.kids, r.parent⟩, mem_absRules.mpr ⟨hf, h'⟩, rfl, rfl⟩
  · rintro ⟨r, hr, rfl, rfl⟩
    obtain ⟨_, h⟩ := mem_absRules.mp hr
    exact ⟨⟨0, r.kids, r.parent⟩, (mem_skelBU hT).mpr ⟨rfl, _, h⟩, rfl, rfl⟩

theorem getE_filter_keys (pred : List Nat → Bool) (ks : List Nat) : ∀ es : List (List Nat × MT),
    getE (es.filter (fun e => pred e.1)) ks = if pred ks = true then getE es ks else .leaf []
  | [] => by simp [getE]
  | (k, m) :: es => by
    have ih := getE_filter_keys pred ks es
    by_cases hp : pred k = true
    · rw [List.filter_cons_of_pos (by simpa using hp)]
      simp only [getE]
      by_cases hk : k = ks
      · subst hk; simp [hp]
      · rw [if_neg hk, if_neg hk]; exact ih
    · rw [List.filter_cons_of_neg (by simpa using hp), ih]
      simp only [getE]
      by_cases hk : k = ks
      · subst hk; simp [hp]
      · rw [if_neg hk]

/-- `RemoveUnreachableStates` (bottom-up) keeps exactly the rules on tuples of bottom-up reachable states -/
theorem hasRule_removeUnreachableBU (T : Table) (F : List Nat) (ρ : Nat → Bool) (ks : List Nat) (p : Nat) :
    HasRule (removeUnreachableBU T F).1 ρ ks p ↔
      HasRule T ρ ks p ∧ ∀ k, k ∈ ks → k ∈ prodStates (skelBU T F) := by
  unfold HasRule removeUnreachableBU Table.get
  by_cases hk : ks = []
  · subst hk; simp
  · simp only [hk, if_false]
    rw [getE_filter_keys (fun ks => ks.all (fun q => (prodStates (skelBU T F)).contains q))]
    split
    · next h =>
      simp only [List.all_eq_true, List.contains_iff_mem] at h
      exact ⟨fun h' => ⟨h', h⟩, fun h' => h'.1⟩
    · next h =>
      simp only [List.all_eq_true, List.contains_iff_mem] at h
      simp only [eval, List.not_mem_nil, false_iff]
      exact fun h' => h h'.2

/-- **`RemoveUnreachableStates` (bottom-up) on the abstraction** is the restriction to the productive states -/
theorem absBU_removeUnreachable {syms : List Nat} {T : Table} (F : List Nat) (hT : TableWF T)
    (hc : SymsCompleteBU syms T) :
    SetEqTA (absBU syms (removeUnreachableBU T F).1 (removeUnreachableBU T F).2)
      (restrict (absBU syms T F) (prodStates (absBU syms T F))) := by
  have hP := mem_prodStates_skel (sameSkel_skelBU F hT hc)
  refine ⟨fun r => ?_, fun q => ?_⟩
  · rw [mem_restrict_rules]
    show r ∈ absRules syms _ ↔ r ∈ absRules syms T ∧ _
    rw [mem_absRules, mem_absRules, hasRule_removeUnreachableBU]
    constructor
    · rintro ⟨hs, h1, h2⟩
      have hk : ∀ k, k ∈ r.kids → k ∈ prodStates (absBU syms T F) := fun k hk => (hP k).mp (h2 k hk)
      exact ⟨⟨hs, h1⟩, prodStates_closed (absBU syms T F) r (mem_absRules.mpr ⟨hs, h1⟩) hk, hk⟩
    · rintro ⟨⟨hs, h1⟩, _, h2⟩
      exact ⟨hs, h1, fun k hk => (hP k).mpr (h2 k hk)⟩
  · show q ∈ F.filter _ ↔ q ∈ (restrict (absBU syms T F) _).final
    rw [mem_restrict_final]
    simp only [List.mem_filter, List.contains_iff_mem, hP]
    exact Iff.rfl

theorem removeUnreachableBU_lang {syms : List Nat} {T : Table} (F : List Nat) (hT : TableWF T)
    (hc : SymsCompleteBU syms T) (t : Tree) :
    accepts (absBU syms (removeUnreachableBU T F).1 (removeUnreachableBU T F).2) t = accepts (absBU syms T F) t := by
  rw [(absBU_removeUnreachable F hT hc).lang, restrict_lang _ _ (prodStates_closed _)]

theorem getE_map_filter (pred : List Nat → Bool) (g : MT → MT) (ks : List Nat) : ∀ es : List (List Nat × MT),
    getE ((es.filter (fun e => pred e.1)).map (fun e => (e.1, g e.2))) ks =
      if pred ks = true ∧ ks ∈ es.map (·.1) then g (getE es ks) else .leaf []
  | [] => by simp [getE]
  | (k, m) :: es => by
    have ih := getE_map_filter pred g ks es
    by_cases hk : k = ks
    · subst hk
      by_cases hp : pred k = true
      · rw [List.filter_cons_of_pos (by simpa using hp)]
        simp [getE, hp]
      · rw [List.filter_cons_of_neg (by simpa using hp), ih]
        simp [hp]
    · have hmem : ks ∈ ((k, m) :: es).map (·.1) ↔ ks ∈ es.map (·.1) := by
        simp only [List.map_cons, List.mem_cons]
        exact ⟨fun h => h.elim (fun e => absurd e.symm hk) id, Or.inr⟩
      have hget : getE ((k, m) :: es) ks = getE es ks := by simp [getE, hk]
      rw [hget]
      simp only [hmem]
      by_cases hp : pred k = true
      · rw [List.filter_cons_of_pos (by simpa using hp)]
        simp only [List.map_cons, getE, if_neg hk]
        exact ih
      · rw [List.filter_cons_of_neg (by simpa using hp)]
        exact ih

theorem mem_usefulLeaf {U l : List Nat} {p : Nat} : p ∈ usefulLeaf U l ↔ p ∈ l ∧ p ∈ U := by
  simp only [usefulLeaf, List.mem_filter, List.contains_iff_mem]

/-- `RemoveUselessStates` (bottom-up) keeps exactly the rules all of whose states are in `useful` -/
theorem hasRule_removeUselessBU (T : Table) (F : List Nat) (ρ : Nat → Bool) (ks : List Nat) (p : Nat) :
    HasRule (removeUselessBU T F).1 ρ ks p ↔
      HasRule T ρ ks p ∧ p ∈ tdReach (restrict (skelBU T F) (prodStates (skelBU T F))) ∧
        ∀ k, k ∈ ks → k ∈ tdReach (restrict (skelBU T F) (prodStates (skelBU T F))) := by
  unfold HasRule removeUselessBU Table.get
  by_cases hk : ks = []
  · subst hk
    simp only [if_true, apply1_eval, mem_usefulLeaf, List.not_mem_nil, false_implies, implies_true, and_true]
  · simp only [hk, if_false]
    rw [getE_map_filter (fun ks => ks.all (fun q =>
      (tdReach (restrict (skelBU T F) (prodStates (skelBU T F)))).contains q))]
    split
    · next h =>
      simp only [List.all_eq_true, List.contains_iff_mem] at h
      rw [apply1_eval, mem_usefulLeaf]
      exact ⟨fun h' => ⟨h'.1, h'.2, h.1⟩, fun h' => ⟨h'.1, h'.2.1⟩⟩
    · next h =>
      simp only [List.all_eq_true, List.contains_iff_mem] at h
      simp only [eval, List.not_mem_nil, false_iff]
      intro h'
      apply h
      refine ⟨h'.2.2, ?_⟩
      apply Classical.byContradiction
      intro hn
      rw [getE_not_key hn] at h'
      simp [eval] at h'

/-- **`RemoveUselessStates` (bottom-up) on the abstraction** is `removeUseless` -/
theorem absBU_removeUseless {syms : List Nat} {T : Table} (F : List Nat) (hT : TableWF T)
    (hc : SymsCompleteBU syms T) :
    SetEqTA (absBU syms (removeUselessBU T F).1 (removeUselessBU T F).2) (removeUseless (absBU syms T F)) := by
  have hS := sameSkel_skelBU F hT hc
  have hP := mem_prodStates_skel hS
  have hU : ∀ q, q ∈ tdReach (restrict (skelBU T F) (prodStates (skelBU T F))) ↔ q ∈ usefulStates (absBU syms T F) := by
    intro q
    rw [usefulStates_eq]
    refine mem_tdReach_skel (sameSkel_restrict hS hP) (fun q => ?_) q
    rw [mem_restrict_final, mem_restrict_final, hP]
    exact Iff.rfl
  refine ⟨fun r => ?_, fun q => ?_⟩
  · rw [removeUseless_rules_iff]
    show r ∈ absRules syms _ ↔ r ∈ absRules syms T ∧ _
    rw [mem_absRules, mem_absRules, hasRule_removeUselessBU]
    simp only [hU]
    constructor
    · rintro ⟨hs, h1, h2⟩; exact ⟨⟨hs, h1⟩, h2⟩
    · rintro ⟨⟨hs, h1⟩, h2⟩; exact ⟨hs, h1, h2⟩
  · rw [removeUseless_eq]
    show q ∈ F.filter _ ↔ q ∈ (restrict (absBU syms T F) _).final
    rw [mem_restrict_final]
    simp only [List.mem_filter, List.contains_iff_mem, hP]
    exact Iff.rfl

theorem removeUselessBU_lang {syms : List Nat} {T : Table} (F : List Nat) (hT : TableWF T)
    (hc : SymsCompleteBU syms T) (t : Tree) :
    accepts (absBU syms (removeUselessBU T F).1 (removeUselessBU T F).2) t = accepts (absBU syms T F) t := by
  rw [(absBU_removeUseless F hT hc).lang, removeUseless_lang]

/-- **"leaving no useless state"** (bottom-up) -/
theorem removeUselessBU_useful {syms : List Nat} {T : Table} (F : List Nat) (hT : TableWF T)
    (hc : SymsCompleteBU syms T) :
    (∀ q, Occurs (absBU syms (removeUselessBU T F).1 (removeUselessBU T F).2) q →
      UsefulState (absBU syms (removeUselessBU T F).1 (removeUselessBU T F).2) q) ∧
    (∀ r, r ∈ (absBU syms (removeUselessBU T F).1 (removeUselessBU T F).2).rules →
      UsefulRule (absBU syms (removeUselessBU T F).1 (removeUselessBU T F).2) r) :=
  (absBU_removeUseless F hT hc).allUseful ⟨removeUseless_post_state _, removeUseless_post_rule _⟩

/-! ### the hypotheses hold of the tables built by `AddTransition` and by `GetTopDownAut` -/

theorem hasRule_foldl_gen (ρ : Nat → Bool) (ks : List Nat) (p : Nat) : ∀ (rs : List Rule) (T : Table),
    HasRule (rs.foldl (fun T r => addTransition T r.kids r.sym r.parent) T) ρ ks p ↔
      HasRule T ρ ks p ∨ ∃ r, r ∈ rs ∧ r.kids = ks ∧ r.parent = p ∧ agrees ρ (symAsgn r.sym) 0 = true
  | [], T => by simp
  | r :: rs, T => by
    rw [List.foldl_cons, hasRule_foldl_gen ρ ks p rs]
    unfold addTransition
    rw [absBU_add]
    constructor
    · rintro ((h | ⟨h1, h2, h3⟩) | ⟨r', hr', h⟩)
      · exact Or.inl h
      · exact Or.inr ⟨r, List.mem_cons_self, h1.symm, h2.symm, h3⟩
      · exact Or.inr ⟨r', List.mem_cons_of_mem _ hr', h⟩
    · rintro (h | ⟨r', hr', h1, h2, h3⟩)
      · exact Or.inl (Or.inl h)
      · rcases List.mem_cons.mp hr' with rfl | hr'
        · exact Or.inl (Or.inr ⟨h1.symm, h2.symm, h3⟩)
        · exact Or.inr ⟨r', hr', h1, h2, h3⟩

/-- the rules of the encoding of a rule list, for every valuation -/
theorem hasRule_ofRules_gen (rs : List Rule) (ρ : Nat → Bool) (ks : List Nat) (p : Nat) :
    HasRule (ofRules rs) ρ ks p ↔
      ∃ r, r ∈ rs ∧ r.kids = ks ∧ r.parent = p ∧ agrees ρ (symAsgn r.sym) 0 = true := by
  unfold ofRules
  rw [hasRule_foldl_gen]
  simp [hasRule_empty]

theorem agrees_bits_self (f : Nat) : agrees (bits f) (symAsgn f) 0 = true :=
  (agrees_symAsgn f f).mpr (fun _ _ => rfl)

theorem symsCompleteBU_ofRules {syms : List Nat} {rs : List Rule} (hs : ∀ r, r ∈ rs → r.sym ∈ syms) :
    SymsCompleteBU syms (ofRules rs) := by
  intro ρ ks p h
  obtain ⟨r, hr, h1, h2, _⟩ := (hasRule_ofRules_gen rs ρ ks p).mp h
  exact ⟨r.sym, hs r hr, (hasRule_ofRules_gen rs _ ks p).mpr ⟨r, hr, h1, h2, agrees_bits_self _⟩⟩

theorem hasRuleTD_foldl_gen (ρ : Nat → Bool) (p : Nat) (ks : List Nat) : ∀ (rs : List Rule) (T : TableTD),
    HasRuleTD (rs.foldl (fun T r => addTransitionTD T r.kids r.sym r.parent) T) ρ p ks ↔
      HasRuleTD T ρ p ks ∨ ∃ r, r ∈ rs ∧ r.kids = ks ∧ r.parent = p ∧ agrees ρ (symAsgn r.sym) 0 = true ∧
        arOK ρ ks.length = true
  | [], T => by simp
  | r :: rs, T => by
    rw [List.foldl_cons, hasRuleTD_foldl_gen ρ p ks rs]
    unfold addTransitionTD
    rw [absTD_add _ _ _ (symAsgn_length _)]
    constructor
    · rintro ((h | ⟨h1, h2, h3, h4⟩) | ⟨r', hr', h⟩)
      · exact Or.inl h
      · exact Or.inr ⟨r, List.mem_cons_self, h2.symm, h1.symm, h3, by rw [h2]; exact h4⟩
      · exact Or.inr ⟨r', List.mem_cons_of_mem _ hr', h⟩
    · rintro (h | ⟨r', hr', h1, h2, h3, h4⟩)
      · exact Or.inl (Or.inl h)
      · rcases List.mem_cons.mp hr' with rfl | hr'
        · exact Or.inl (Or.inr ⟨h2.symm, h1.symm, h3, by rw [h1]; exact h4⟩)
        · exact Or.inr ⟨r', hr', h1, h2, h3, h4⟩

/-- the rules of the top-down encoding of a rule list, for every valuation -/
theorem hasRuleTD_ofRulesTD_gen (rs : List Rule) (ρ : Nat → Bool) (p : Nat) (ks : List Nat) :
    HasRuleTD (ofRulesTD rs) ρ p ks ↔
      ∃ r, r ∈ rs ∧ r.kids = ks ∧ r.parent = p ∧ agrees ρ (symAsgn r.sym) 0 = true ∧ arOK ρ ks.length = true := by
  unfold ofRulesTD
  rw [hasRuleTD_foldl_gen]
  simp [hasRuleTD_nil]

theorem symsCompleteTD_ofRulesTD {syms : List Nat} {rs : List Rule} (hs : ∀ r, r ∈ rs → r.sym ∈ syms) :
    SymsCompleteTD syms (ofRulesTD rs) := by
  intro ρ p ks h
  obtain ⟨r, hr, h1, h2, _, _⟩ := (hasRuleTD_ofRulesTD_gen rs ρ p ks).mp h
  refine ⟨r.sym, hs r hr, ks.length % 64, Nat.mod_lt _ (by decide),
    (hasRuleTD_ofRulesTD_gen rs _ p ks).mpr ⟨r, hr, h1, h2, ?_, ?_⟩⟩
  · unfold bitsAr
    rw [agrees_withArity _ _ _ (by rw [symAsgn_length]; omega)]
    exact agrees_bits_self _
  · exact arOK_withArity_mod _ _

/-- the MTBDDs of the top-down table only use the 22 variables -/
def TableTDBelow (T : TableTD) : Prop := ∀ p, Below 22 (getTD T p)

theorem tableTD_nil : TableTDWF [] ∧ TableTDBelow [] := ⟨fun _ => trivial, fun _ => trivial⟩

theorem tableTD_set {T : TableTD} (h : TableTDWF T ∧ TableTDBelow T) (p : Nat) (m : MTD) (hm : WF m ∧ Below 22 m) :
    TableTDWF (setTD T p m) ∧ TableTDBelow (setTD T p m) := by
  constructor
  · intro p'; rw [getTD_setTD]; split
    · exact hm.1
    · exact h.1 p'
  · intro p'; rw [getTD_setTD]; split
    · exact hm.2
    · exact h.2 p'

theorem tableTD_addCube {T : TableTD} (h : TableTDWF T ∧ TableTDBelow T) (p : Nat) (asgn : List (Option Bool))
    (hl : asgn.length = 16) (ks : List Nat) :
    TableTDWF (addCubeTD T p asgn ks) ∧ TableTDBelow (addCubeTD T p asgn ks) :=
  tableTD_set h _ _ ⟨apply2_wf _ _ _ (h.1 p) (construct_wf _ _ _),
    apply2_below _ _ _ (h.2 p) (by
      have := construct_below (asgn ++ arAsgn ks.length) [ks] ([] : List (List Nat))
      rwa [List.length_append, hl, arAsgn_length] at this)⟩

theorem tableTD_foldl : ∀ (rs : List Rule) (T : TableTD), TableTDWF T ∧ TableTDBelow T →
    TableTDWF (rs.foldl (fun T r => addTransitionTD T r.kids r.sym r.parent) T) ∧
    TableTDBelow (rs.foldl (fun T r => addTransitionTD T r.kids r.sym r.parent) T)
  | [], _, h => h
  | r :: rs, T, h => by
    rw [List.foldl_cons]
    exact tableTD_foldl rs _ (tableTD_addCube h _ _ (symAsgn_length _) _)

theorem tableTD_ofRulesTD (rs : List Rule) : TableTDWF (ofRulesTD rs) ∧ TableTDBelow (ofRulesTD rs) :=
  tableTD_foldl rs _ tableTD_nil

theorem pairs_wf {T : Table} (hT : TableOk T) (hW : TableWF T) : ∀ e, e ∈ pairs T → WF e.2 ∧ Below 16 e.2 := by
  intro e he
  rcases List.mem_cons.mp he with rfl | he
  · have := hW []; simpa [Table.get] using this
  · have := hW e.1
    unfold Table.get at this
    rwa [if_neg (hT e he).1, (hT e he).2] at this

theorem invertStep_wf (p : Nat) {acc : MTD} {e : List Nat × MT} (ha : WF acc ∧ Below 22 acc)
    (he : WF e.2 ∧ Below 16 e.2) : WF (invertStep p acc e) ∧ Below 22 (invertStep p acc e) := by
  unfold invertStep
  have h := constructOn_wf (fun x => x + 16) (fun i => by omega) (arAsgn e.1.length) e.2 ([] : List Nat) he.1
    (by simpa using he.2)
  rw [arAsgn_length] at h
  exact ⟨apply2_wf _ _ _ h.1 ha.1, apply2_below _ _ _ h.2 ha.2⟩

theorem invert_inner_wf (p : Nat) : ∀ (es : List (List Nat × MT)) (acc : MTD), WF acc ∧ Below 22 acc →
    (∀ e, e ∈ es → WF e.2 ∧ Below 16 e.2) →
    WF (es.foldl (invertStep p) acc) ∧ Below 22 (es.foldl (invertStep p) acc)
  | [], _, ha, _ => ha
  | e :: es, acc, ha, he => by
    rw [List.foldl_cons]
    exact invert_inner_wf p es _ (invertStep_wf p ha (he e List.mem_cons_self))
      (fun e' he' => he e' (List.mem_cons_of_mem _ he'))

theorem invert_outer_wf {T : Table} (hT : TableOk T) (hW : TableWF T) : ∀ (L : List Nat) (R : TableTD),
    TableTDWF R ∧ TableTDBelow R →
    TableTDWF (L.foldl (fun R p => setTD R p ((pairs T).foldl (invertStep p) (getTD R p))) R) ∧
    TableTDBelow (L.foldl (fun R p => setTD R p ((pairs T).foldl (invertStep p) (getTD R p))) R)
  | [], _, h => h
  | q :: L, R, h => by
    rw [List.foldl_cons]
    exact invert_outer_wf hT hW L _ (tableTD_set h _ _ (invert_inner_wf q _ _ ⟨h.1 q, h.2 q⟩ (pairs_wf hT hW)))

/-- `GetTopDownAut` yields ordered reduced MTBDDs over the 22 variables -/
theorem tableTD_getTopDownAut {T : Table} (hT : TableOk T) (hW : TableWF T) (F : List Nat) :
    TableTDWF (getTopDownAut T F) ∧ TableTDBelow (getTopDownAut T F) :=
  invert_outer_wf hT hW _ _ tableTD_nil

theorem symsCompleteTD_getTopDownAut {syms : List Nat} {T : Table} (hT : TableOk T) (hW : TableWF T)
    (hc : SymsCompleteBU syms T) (F : List Nat) : SymsCompleteTD syms (getTopDownAut T F) := by
  intro ρ p ks h
  obtain ⟨h1, _, h3⟩ := (absTD_invert_gen hT F ρ p ks).mp h
  obtain ⟨f, hf, h'⟩ := hc ρ ks p h3
  refine ⟨f, hf, ks.length % 64, Nat.mod_lt _ (by decide), (absTD_invert_gen hT F _ p ks).mpr ⟨h1, ?_, ?_⟩⟩
  · exact arOK_withArity_mod _ _
  · unfold HasRule bitsAr
    rw [eval_withArity _ _ (hW _).2]
    exact h'

theorem symsCompleteBU_sub {syms : List Nat} {T T' : Table} (C : List Nat → Nat → Prop)
    (h : ∀ ρ ks p, HasRule T' ρ ks p ↔ HasRule T ρ ks p ∧ C ks p) (hc : SymsCompleteBU syms T) :
    SymsCompleteBU syms T' := by
  intro ρ ks p hr
  obtain ⟨h1, h2⟩ := (h ρ ks p).mp hr
  obtain ⟨f, hf, h'⟩ := hc ρ ks p h1
  exact ⟨f, hf, (h _ ks p).mpr ⟨h', h2⟩⟩

/-! ### the dump of a top-down automaton -/

/-- the number with the bits `g 0 … g (k-1)` -/
def ofB (g : Nat → Bool) : Nat → Nat
  | 0 => 0
  | k + 1 => 2 * ofB (fun j => g (j + 1)) k + (g 0).toNat

theorem testBit_ofB : ∀ (k : Nat) (g : Nat → Bool) (j : Nat), (ofB g k).testBit j = (decide (j < k) && g j)
  | 0, g, j => by simp [ofB]
  | k + 1, g, 0 => by
    rw [ofB, Nat.testBit_zero]
    cases g 0 <;> simp <;> omega
  | k + 1, g, j + 1 => by
    rw [ofB, Nat.testBit_succ]
    have : (2 * ofB (fun j => g (j + 1)) k + (g 0).toNat) / 2 = ofB (fun j => g (j + 1)) k := by
      cases g 0 <;> simp <;> omega
    rw [this, testBit_ofB k]
    simp

theorem ofB_lt : ∀ (k : Nat) (g : Nat → Bool), ofB g k < 2 ^ k
  | 0, _ => by simp [ofB]
  | k + 1, g => by
    have := ofB_lt k (fun j => g (j + 1))
    rw [ofB, Nat.pow_succ]
    cases g 0 <;> simp <;> omega

/-- the accumulator of `CondColApplyFunctor` after the traversal of the MTBDD of a state and the BDD of the symbol `f`:
the tuples of the rules for the valuations whose symbol part is `f`, for any value of the arity bits -/
theorem mem_collectTD {m : MTD} (hm : WF m) (f : Nat) (ks : List Nat) :
    ks ∈ collectTD m f ↔ ∃ ρ, agrees ρ (symAsgn f) 0 = true ∧ ks ∈ eval m ρ := by
  simp only [collectTD, List.mem_flatMap]
  constructor
  · rintro ⟨⟨l, b⟩, hlb, hks⟩
    cases b with
    | false => simp at hks
    | true =>
      obtain ⟨ρ, h1, h2⟩ := (mem_voidApply2 l true m _ hm (construct_wf _ _ _)).mp hlb
      rw [construct_eval_agrees] at h2
      refine ⟨ρ, ?_, by rw [h1]; simpa using hks⟩
      apply Classical.byContradiction
      intro hn
      rw [if_neg hn] at h2
      cases h2
  · rintro ⟨ρ, h1, h2⟩
    refine ⟨(eval m ρ, true), (mem_voidApply2 _ true m _ hm (construct_wf _ _ _)).mpr ⟨ρ, rfl, ?_⟩, by simpa using h2⟩
    rw [construct_eval_agrees, if_pos h1]

/-- … which are the rules of the executable abstraction `absRulesTD` when the MTBDD only uses the 22 variables -/
theorem mem_collectTD_iff {m : MTD} (hm : WF m) (hb : Below 22 m) (f : Nat) (ks : List Nat) :
    ks ∈ collectTD m f ↔ ∃ n, n < 64 ∧ ks ∈ eval m (bitsAr f n) := by
  rw [mem_collectTD hm]
  constructor
  · rintro ⟨ρ, h1, h2⟩
    refine ⟨ofB (fun j => ρ (j + 16)) 6, ofB_lt 6 _, ?_⟩
    have h16 := (agrees_go ρ f 16 0).mp (by rw [← List.range_eq_range']; exact h1)
    rw [eval_congr_below (x := 22) (ρ' := ρ) ?_ hb]
    · exact h2
    · intro i hi
      unfold bitsAr withArity bits
      by_cases h : i < 16
      · rw [if_pos h]; exact (h16 i (by omega) (by omega)).symm
      · rw [if_neg h, testBit_ofB]
        have : i - 16 < 6 := by omega
        simp only [this, decide_true, Bool.true_and]
        congr 1; omega
  · rintro ⟨n, _, h⟩
    refine ⟨bitsAr f n, ?_, h⟩
    unfold bitsAr
    rw [agrees_withArity _ _ _ (by rw [symAsgn_length]; omega)]
    exact agrees_bits_self f

/-- the dump of the state `p` for the symbol `f` lists the rules of `absRulesTD` -/
theorem collectTD_absRulesTD {T : TableTD} (hT : TableTDWF T) (hb : TableTDBelow T) (f p : Nat) (ks : List Nat) :
    ks ∈ collectTD (getTD T p) f ↔ (⟨f, ks, p⟩ : Rule) ∈ absRulesTD [f] T := by
  rw [mem_collectTD_iff (hT p) (hb p), mem_absRulesTD]
  simp [HasRuleTD]

/-! ### the work-list of the top-down `RemoveUnreachableStates` -/

theorem skelTD_rule {T : TableTD} {F : List Nat} {p : Nat} {ks : List Nat} (h : ks ∈ leafTuples (getTD T p)) :
    (⟨0, ks, p⟩ : Rule) ∈ (skelTD T F).rules := by
  simp only [skelTD, List.mem_flatMap, List.mem_map]
  refine ⟨p, ?_, ks, h, rfl⟩
  apply Classical.byContradiction
  intro hn
  rw [getTD_not_key hn] at h
  simp [leafTuples, voidApply1] at h

theorem skelTD_rule_inv {T : TableTD} {F : List Nat} {r : Rule} (h : r ∈ (skelTD T F).rules) :
    r.kids ∈ leafTuples (getTD T r.parent) := by
  simp only [skelTD, List.mem_flatMap, List.mem_map] at h
  obtain ⟨p, _, ks, hks, rfl⟩ := h
  exact hks

/-- the invariant of the loop: `ws` the stack, `processed` the hash set of the functor, `R` the result so far -/
structure WlInv (T : TableTD) (F ws processed : List Nat) (R : TableTD) : Prop where
  ws_reach : ∀ q, q ∈ ws → TdReachable (skelTD T F) q
  done : ∀ p, p ∈ keysTD R → TdReachable (skelTD T F) p ∧ getTD R p = apply1 id (getTD T p)
  fin : ∀ q, q ∈ F → q ∈ ws ∨ q ∈ keysTD R
  kids : ∀ p, p ∈ keysTD R → ∀ ks, ks ∈ leafTuples (getTD T p) → ∀ k, k ∈ ks → k ∈ processed
  proc : ∀ q, q ∈ processed → q ∈ ws ∨ q ∈ keysTD R

theorem wlInv_init (T : TableTD) (F : List Nat) : WlInv T F F.reverse [] [] where
  ws_reach := fun q hq => TdReachable.final (List.mem_reverse.mp hq)
  done := fun p hp => by cases hp
  fin := fun q hq => Or.inl (List.mem_reverse.mpr hq)
  kids := fun p hp => by cases hp
  proc := fun q hq => by cases hq

theorem mem_wlNew {T : TableTD} {p : Nat} {processed : List Nat} {q : Nat} :
    q ∈ dedupL (((leafTuples (getTD T p)).flatMap id).filter (fun q => !processed.contains q)) ↔
      (∃ ks, ks ∈ leafTuples (getTD T p) ∧ q ∈ ks) ∧ q ∉ processed := by
  simp only [mem_dedupL, List.mem_filter, List.mem_flatMap, id, Bool.not_eq_true']
  constructor
  · rintro ⟨h1, h2⟩
    exact ⟨h1, fun hm => by rw [List.contains_iff_mem.mpr hm] at h2; cases h2⟩
  · rintro ⟨h1, h2⟩
    refine ⟨h1, ?_⟩
    cases hc : processed.contains q with
    | false => rfl
    | true => exact absurd (List.contains_iff_mem.mp hc) h2

theorem wlInv_step {T : TableTD} {F ws processed : List Nat} {R : TableTD} {p : Nat}
    (h : WlInv T F (p :: ws) processed R) :
    WlInv T F
      ((dedupL (((leafTuples (getTD T p)).flatMap id).filter (fun q => !processed.contains q))).reverse ++ ws)
      (processed ++ dedupL (((leafTuples (getTD T p)).flatMap id).filter (fun q => !processed.contains q)))
      (setTD R p (apply1 id (getTD T p))) := by
  have hp : TdReachable (skelTD T F) p := h.ws_reach p List.mem_cons_self
  constructor
  · intro q hq
    rcases List.mem_append.mp hq with hq | hq
    · obtain ⟨⟨ks, hks, hq⟩, _⟩ := mem_wlNew.mp (List.mem_reverse.mp hq)
      exact TdReachable.step (r := ⟨0, ks, p⟩) (skelTD_rule hks) hp hq
    · exact h.ws_reach q (List.mem_cons_of_mem _ hq)
  · intro p' hp'
    rw [getTD_setTD]
    rcases (keysTD_setTD _ _ _ _).mp hp' with rfl | hp'
    · exact ⟨hp, by rw [if_pos rfl]⟩
    · split
      · next e => subst e; exact ⟨hp, rfl⟩
      · exact h.done p' hp'
  · intro q hq
    rcases h.fin q hq with hq | hq
    · rcases List.mem_cons.mp hq with rfl | hq
      · exact Or.inr ((keysTD_setTD _ _ _ _).mpr (Or.inl rfl))
      · exact Or.inl (List.mem_append.mpr (Or.inr hq))
    · exact Or.inr ((keysTD_setTD _ _ _ _).mpr (Or.inr hq))
  · intro p' hp' ks hks k hk
    rcases (keysTD_setTD _ _ _ _).mp hp' with rfl | hp'
    · by_cases hpr : k ∈ processed
      · exact List.mem_append.mpr (Or.inl hpr)
      · exact List.mem_append.mpr (Or.inr (mem_wlNew.mpr ⟨⟨ks, hks, hk⟩, hpr⟩))
    · exact List.mem_append.mpr (Or.inl (h.kids p' hp' ks hks k hk))
  · intro q hq
    rcases List.mem_append.mp hq with hq | hq
    · rcases h.proc q hq with hq | hq
      · rcases List.mem_cons.mp hq with rfl | hq
        · exact Or.inr ((keysTD_setTD _ _ _ _).mpr (Or.inl rfl))
        · exact Or.inl (List.mem_append.mpr (Or.inr hq))
      · exact Or.inr ((keysTD_setTD _ _ _ _).mpr (Or.inr hq))
    · exact Or.inl (List.mem_append.mpr (Or.inl (List.mem_reverse.mpr hq)))

theorem tdUnreachLoop_inv {T : TableTD} {F : List Nat} {R' : TableTD} : ∀ (fuel : Nat) (ws processed : List Nat)
    (R : TableTD), WlInv T F ws processed R → tdUnreachLoop T fuel ws processed R = some R' →
    ∃ pr, WlInv T F [] pr R'
  | fuel, [], processed, R, h, e => by
    cases fuel <;> (simp only [tdUnreachLoop, Option.some.injEq] at e; subst e; exact ⟨processed, h⟩)
  | 0, _ :: _, _, _, _, e => by simp [tdUnreachLoop] at e
  | fuel + 1, p :: ws, processed, R, h, e => by
    simp only [tdUnreachLoop] at e
    exact tdUnreachLoop_inv fuel _ _ _ (wlInv_step h) e

/-- when the work-list is empty, every reachable state has been given its MTBDD -/
theorem wlInv_complete {T : TableTD} {F pr : List Nat} {R : TableTD} (h : WlInv T F [] pr R) {q : Nat}
    (hq : TdReachable (skelTD T F) q) : q ∈ keysTD R := by
  induction hq with
  | final hq => exact (h.fin _ hq).elim (fun h' => by cases h') id
  | @step r k hr _ hk ih =>
    exact (h.proc k (h.kids r.parent ih r.kids (skelTD_rule_inv hr) k hk)).elim (fun h' => by cases h') id

/-- **the work-list of `RemoveUnreachableStates` computes `removeUnreachableTD`** (whenever the fuel suffices) -/
theorem tdUnreachWL_correct {T : TableTD} {F : List Nat} {fuel : Nat} {R : TableTD}
    (h : tdUnreachWL T F fuel = some R) (p : Nat) : getTD R p = getTD (removeUnreachableTD T F) p := by
  obtain ⟨pr, hI⟩ := tdUnreachLoop_inv fuel _ _ _ (wlInv_init T F) h
  unfold removeUnreachableTD
  rw [getTD_mapKeys (tdReach (skelTD T F)) (fun p => apply1 id (getTD T p))]
  by_cases hk : p ∈ keysTD R
  · rw [if_pos ((tdReach_iff _ _).mpr (hI.done p hk).1)]; exact (hI.done p hk).2
  · rw [if_neg (fun hr => hk (wlInv_complete hI ((tdReach_iff _ _).mp hr))), getTD_not_key hk]

theorem tdUnreachWL_abs {syms : List Nat} {T : TableTD} {F : List Nat} {fuel : Nat} {R : TableTD}
    (h : tdUnreachWL T F fuel = some R) : SetEqTA (absTD syms R F) (absTD syms (removeUnreachableTD T F) F) := by
  refine ⟨fun r => ?_, fun q => Iff.rfl⟩
  show r ∈ absRulesTD syms R ↔ r ∈ absRulesTD syms _
  rw [mem_absRulesTD, mem_absRulesTD]
  unfold HasRuleTD
  simp only [tdUnreachWL_correct h]

/-! ### the work-list terminates: at most `|F| + |all states in the leaves|` iterations -/

/-- all the states in the leaves of the table -/
def allKids (T : TableTD) : List Nat := (keysTD T).flatMap (fun p => (leafTuples (getTD T p)).flatMap id)

/-- the number of entries of `U` not yet in `S` -/
def cntNot (U S : List Nat) : Nat := U.countP (fun q => !S.contains q)

theorem cntNot_congr (U : List Nat) {S S' : List Nat} (h : ∀ q, q ∈ S ↔ q ∈ S') : cntNot U S = cntNot U S' := by
  unfold cntNot
  apply List.countP_congr
  intro q _
  have : S.contains q = S'.contains q := by
    rw [Bool.eq_iff_iff, List.contains_iff_mem, List.contains_iff_mem]; exact h q
  rw [this]

theorem cntNot_add {U S : List Nat} {x : Nat} (hx : x ∈ U) (hS : x ∉ S) : cntNot U (S ++ [x]) + 1 ≤ cntNot U S := by
  unfold cntNot
  apply countP_lt_of_new
  · intro q _ hq
    simp only [Bool.not_eq_true'] at hq ⊢
    cases hc : S.contains q with
    | false => rfl
    | true =>
      have hm : (S ++ [x]).contains q = true :=
        List.contains_iff_mem.mpr (List.mem_append.mpr (Or.inl (List.contains_iff_mem.mp hc)))
      rw [hm] at hq; cases hq
  · refine ⟨x, hx, ?_, ?_⟩
    · cases hc : S.contains x with
      | false => rfl
      | true => exact absurd (List.contains_iff_mem.mp hc) hS
    · have hm : (S ++ [x]).contains x = true := List.contains_iff_mem.mpr (List.mem_append.mpr (Or.inr (by simp)))
      rw [hm]; simp

theorem cntNot_append {U : List Nat} : ∀ (new S : List Nat), new.Nodup → (∀ q, q ∈ new → q ∈ U ∧ q ∉ S) →
    cntNot U (S ++ new) + new.length ≤ cntNot U S
  | [], S, _, _ => by simp
  | x :: rest, S, hn, h => by
    have hn' := List.nodup_cons.mp hn
    have ih := cntNot_append rest (S ++ [x]) hn'.2 (fun q hq => ⟨(h q (List.mem_cons_of_mem _ hq)).1, fun hm => by
      rcases List.mem_append.mp hm with hm | hm
      · exact (h q (List.mem_cons_of_mem _ hq)).2 hm
      · simp only [List.mem_singleton] at hm; subst hm; exact hn'.1 hq⟩)
    have h1 := cntNot_add (h x List.mem_cons_self).1 (h x List.mem_cons_self).2
    have e : cntNot U (S ++ x :: rest) = cntNot U (S ++ [x] ++ rest) := by
      apply cntNot_congr; intro q; simp
    rw [e, List.length_cons]
    omega

theorem nodup_ins {x : Nat} {l : List Nat} (h : l.Nodup) : (ins x l).Nodup := by
  unfold ins
  split
  · exact h
  · next hc =>
    have : x ∉ l := fun hm => hc (List.contains_iff_mem.mpr hm)
    rw [List.nodup_append]
    refine ⟨h, by simp, ?_⟩
    intro a ha b hb
    simp only [List.mem_singleton] at hb
    subst hb
    exact fun e => this (e ▸ ha)

theorem nodup_unionL : ∀ (l S : List Nat), S.Nodup → (unionL S l).Nodup
  | [], _, h => h
  | x :: l, S, h => by rw [unionL_cons]; exact nodup_unionL l _ (nodup_ins h)

theorem nodup_dedupL (l : List Nat) : (dedupL l).Nodup := nodup_unionL l [] List.nodup_nil

theorem tdUnreachLoop_total (T : TableTD) : ∀ (fuel : Nat) (ws processed : List Nat) (R : TableTD),
    ws.length + cntNot (allKids T) processed ≤ fuel → ∃ R', tdUnreachLoop T fuel ws processed R = some R'
  | fuel, [], processed, R, _ => by cases fuel <;> exact ⟨R, by simp [tdUnreachLoop]⟩
  | 0, _ :: _, _, _, h => by simp at h
  | fuel + 1, p :: ws, processed, R, h => by
    simp only [tdUnreachLoop]
    apply tdUnreachLoop_total T fuel
    have hc := cntNot_append (U := allKids T)
      (dedupL (((leafTuples (getTD T p)).flatMap id).filter (fun q => !processed.contains q))) processed
      (nodup_dedupL _) (fun q hq => by
        obtain ⟨⟨ks, hks, hq'⟩, hnp⟩ := mem_wlNew.mp hq
        refine ⟨?_, hnp⟩
        simp only [allKids, List.mem_flatMap, id]
        refine ⟨p, ?_, ks, hks, hq'⟩
        apply Classical.byContradiction
        intro hn
        rw [getTD_not_key hn] at hks
        simp [leafTuples, voidApply1] at hks)
    simp only [List.length_append, List.length_reverse, List.length_cons] at h ⊢
    omega

/-- **the work-list of `RemoveUnreachableStates` terminates** within `|F| + |states in the leaves|` iterations -/
theorem tdUnreachWL_total (T : TableTD) (F : List Nat) :
    ∃ R, tdUnreachWL T F (F.length + (allKids T).length) = some R := by
  unfold tdUnreachWL
  apply tdUnreachLoop_total
  have : cntNot (allKids T) [] = (allKids T).length := by
    unfold cntNot
    rw [List.countP_eq_length]
    intro q _; rfl
  rw [this, List.length_reverse]
  exact Nat.le_refl _

/-- … and returns the table of `removeUnreachableTD` -/
theorem tdUnreachWL_spec (T : TableTD) (F : List Nat) :
    ∃ R, tdUnreachWL T F (F.length + (allKids T).length) = some R ∧
      ∀ p, getTD R p = getTD (removeUnreachableTD T F) p := by
  obtain ⟨R, h⟩ := tdUnreachWL_total T F
  exact ⟨R, h, tdUnreachWL_correct h⟩

theorem SetEqTA.occurs {A B : TA} (h : SetEqTA A B) (q : Nat) : Occurs A q ↔ Occurs B q := by
  unfold Occurs
  constructor
  · rintro (hq | ⟨r, hr, hq⟩)
    · exact Or.inl ((h.2 q).mp hq)
    · exact Or.inr ⟨r, (h.1 r).mp hr, hq⟩
  · rintro (hq | ⟨r, hr, hq⟩)
    · exact Or.inl ((h.2 q).mpr hq)
    · exact Or.inr ⟨r, (h.1 r).mpr hr, hq⟩

theorem SetEqTA.mem_states {A B : TA} (h : SetEqTA A B) (q : Nat) : q ∈ A.states ↔ q ∈ B.states := by
  rw [Vata.mem_states, Vata.mem_states, h.occurs]

/-! ### loading, union: the abstract automata -/

/-- loading a rule list into the top-down encoding (`AddTransition` for each rule) is the identity on the abstraction -/
theorem absTD_ofRulesTD_setEq (rs : List Rule) (syms F : List Nat)
    (hrs : ∀ r, r ∈ rs → r.sym < 2 ^ 16 ∧ r.kids.length < 64 ∧ r.sym ∈ syms) (hs : ∀ f, f ∈ syms → f < 2 ^ 16) :
    SetEqTA (absTD syms (ofRulesTD rs) F) ⟨rs, F⟩ := by
  refine ⟨fun r => ?_, fun q => Iff.rfl⟩
  show r ∈ absRulesTD syms (ofRulesTD rs) ↔ r ∈ rs
  rw [absRulesTD_ofRules rs syms (fun r hr => ⟨(hrs r hr).1, (hrs r hr).2.1⟩) hs]
  exact ⟨fun h => h.2, fun h => ⟨(hrs r h).2.2, h⟩⟩

/-- … and into the bottom-up encoding -/
theorem absBU_ofRules_setEq (rs : List Rule) (syms F : List Nat)
    (hrs : ∀ r, r ∈ rs → r.sym < 2 ^ 16 ∧ r.sym ∈ syms) (hs : ∀ f, f ∈ syms → f < 2 ^ 16) :
    SetEqTA (absBU syms (ofRules rs) F) ⟨rs, F⟩ := by
  refine ⟨fun r => ?_, fun q => Iff.rfl⟩
  show r ∈ absRules syms (ofRules rs) ↔ r ∈ rs
  rw [absRules_ofRules rs syms (fun r hr => (hrs r hr).1) hs]
  exact ⟨fun h => h.2, fun h => ⟨(hrs r h).2, h⟩⟩

/-- `UnionDisjointStates` (top-down) on the abstraction: the union of the rule sets and of the final states -/
theorem absTD_unionDisj_setEq (syms : List Nat) (T₁ T₂ : TableTD) (F₁ F₂ : List Nat)
    (hd : ∀ p, p ∈ keysTD T₁ → p ∉ keysTD T₂) :
    SetEqTA (absTD syms (unionDisjTD T₁ T₂) (F₁ ++ F₂)) (unionDisjoint (absTD syms T₁ F₁) (absTD syms T₂ F₂)) := by
  refine ⟨fun r => ?_, fun q => Iff.rfl⟩
  show r ∈ absRulesTD syms _ ↔ r ∈ absRulesTD syms T₁ ++ absRulesTD syms T₂
  rw [List.mem_append, mem_absRulesTD, mem_absRulesTD, mem_absRulesTD]
  simp only [absTD_unionDisj T₁ T₂ hd]
  constructor
  · rintro ⟨h, n, hn, h1 | h2⟩
    · exact Or.inl ⟨h, n, hn, h1⟩
    · exact Or.inr ⟨h, n, hn, h2⟩
  · rintro (⟨h, n, hn, h1⟩ | ⟨h, n, hn, h2⟩)
    · exact ⟨h, n, hn, Or.inl h1⟩
    · exact ⟨h, n, hn, Or.inr h2⟩

theorem absTD_union_setEq (syms : List Nat) (T₁ T₂ : TableTD) (F₁ F₂ : List Nat) :
    SetEqTA (absTD syms (unionTD T₁ T₂) (F₁ ++ F₂)) (unionDisjoint (absTD syms T₁ F₁) (absTD syms T₂ F₂)) := by
  refine ⟨fun r => ?_, fun q => Iff.rfl⟩
  show r ∈ absRulesTD syms _ ↔ r ∈ absRulesTD syms T₁ ++ absRulesTD syms T₂
  rw [List.mem_append, absRulesTD_union]

/-! ### examples (non-vacuity) -/
namespace BddAbsTDEx

/-- `a → 1`, `b → 1`, `g(1,1) → 2`, `a → 3` (3 is neither final nor a child), `g(4,1) → 2` (4 has no rule), `b → 5`,
`h(5) → 6` (6 is neither final nor a child); the final state is 2 -/
def rsA : List Rule := [⟨0, [], 1⟩, ⟨1, [], 1⟩, ⟨2, [1, 1], 2⟩, ⟨0, [], 3⟩, ⟨2, [4, 1], 2⟩, ⟨1, [], 5⟩, ⟨3, [5], 6⟩]
def finA : List Nat := [2]
def syms : List Nat := [0, 1, 2, 3]

def showRules (rs : List Rule) : List (Nat × List Nat × Nat) := rs.map (fun r => (r.sym, r.kids, r.parent))

def tdA : TableTD := getTopDownAut (ofRules rsA) finA

-- the top-down encoding and its abstraction
#guard showRules (absRulesTD syms (ofRulesTD rsA)) ==
  [(3, [5], 6), (1, [], 5), (2, [1, 1], 2), (2, [4, 1], 2), (0, [], 3), (0, [], 1), (1, [], 1)]
-- the arity is in the variables 16 … 21: the MTBDD of the state 2 has the tuples under arity 2 only
#guard eval (getTD (ofRulesTD rsA) 2) (bitsAr 2 2) == [[1, 1], [4, 1]]
#guard eval (getTD (ofRulesTD rsA) 2) (bitsAr 2 0) == []
#guard eval (getTD (ofRulesTD rsA) 1) (bitsAr 1 0) == [[]]
-- the dump of a state for a symbol
#guard collectTD (getTD (ofRulesTD rsA) 2) 2 == [[1, 1], [4, 1]]
#guard collectTD (getTD (ofRulesTD rsA) 2) 0 == []
-- `GetTopDownAut`: the states 3 and 6 are not collected, their rules are dropped
#guard tdStates (ofRules rsA) finA == [2, 5, 4, 1]
#guard showRules (absRulesTD syms tdA) == [(0, [], 1), (1, [], 1), (1, [], 5), (2, [1, 1], 2), (2, [4, 1], 2)]
#guard !(absRulesTD syms tdA).contains ⟨0, [], 3⟩ && (absRules syms (ofRules rsA)).contains ⟨0, [], 3⟩
-- union
#guard showRules (absRulesTD syms (unionTD (ofRulesTD [⟨0, [], 1⟩]) (ofRulesTD [⟨1, [], 1⟩, ⟨2, [1], 7⟩]))) ==
  [(0, [], 1), (1, [], 1), (2, [1], 7), (0, [], 1), (1, [], 1)]
#guard showRules (absRulesTD syms (unionDisjTD (ofRulesTD [⟨0, [], 1⟩]) (ofRulesTD [⟨1, [], 8⟩, ⟨2, [8], 7⟩]))) ==
  [(1, [], 8), (2, [8], 7), (0, [], 1)]
-- `UnionDisjointStates` on tables that are NOT disjoint: the rule `a → 1` of the left operand is lost
#guard showRules (absRulesTD syms (unionDisjTD (ofRulesTD [⟨0, [], 1⟩]) (ofRulesTD [⟨1, [], 1⟩]))) == [(1, [], 1)]
-- trimming (top-down): against the reference procedures on the abstraction
#guard taEq (absTD syms (removeUnreachableTD tdA finA) finA) (removeUnreachable (absTD syms tdA finA))
#guard showRules (absRulesTD syms (removeUnreachableTD tdA finA)) ==
  [(2, [1, 1], 2), (2, [4, 1], 2), (0, [], 1), (1, [], 1)]
#guard (tdUnreachWL tdA finA 10).map (fun R => showRules (absRulesTD syms R)) ==
  some [(0, [], 1), (1, [], 1), (2, [1, 1], 2), (2, [4, 1], 2)]
#guard (tdUnreachWL tdA finA 2).isNone
#guard usefulTD tdA finA == [1, 2]
#guard taEq (absTD syms (removeUselessTD tdA finA).1 (removeUselessTD tdA finA).2) (removeUseless (absTD syms tdA finA))
#guard showRules (absRulesTD syms (removeUselessTD tdA finA).1) == [(2, [1, 1], 2), (0, [], 1), (1, [], 1)]
-- trimming (bottom-up)
#guard showRules (absRules syms (removeUnreachableBU (ofRules rsA) finA).1) ==
  [(0, [], 1), (0, [], 3), (1, [], 1), (1, [], 5), (3, [5], 6), (2, [1, 1], 2)]
#guard taEq (absBU syms (removeUnreachableBU (ofRules rsA) finA).1 (removeUnreachableBU (ofRules rsA) finA).2)
  (restrict (absBU syms (ofRules rsA) finA) (prodStates (absBU syms (ofRules rsA) finA)))
#guard showRules (absRules syms (removeUselessBU (ofRules rsA) finA).1) == [(0, [], 1), (1, [], 1), (2, [1, 1], 2)]
#guard taEq (absBU syms (removeUselessBU (ofRules rsA) finA).1 (removeUselessBU (ofRules rsA) finA).2)
  (removeUseless (absBU syms (ofRules rsA) finA))

theorem okA : TableOk (ofRules rsA) := tableOk_ofRules _
theorem wfA : TableWF (ofRules rsA) := tableWF_ofRules _
theorem completeA : SymsCompleteBU syms (ofRules rsA) := symsCompleteBU_ofRules (by decide)
theorem wfTdA : TableTDWF tdA := (tableTD_getTopDownAut okA wfA finA).1
theorem completeTdA : SymsCompleteTD syms tdA := symsCompleteTD_getTopDownAut okA wfA completeA finA

-- `absTD_addTransition`, `absTD_ofRules`
example : HasRuleTD (ofRulesTD rsA) (bitsAr 2 2) 2 [4, 1] :=
  (absTD_ofRules rsA (by decide) 2 (by decide) 2 (by decide) 2 [4, 1]).mpr (by decide)
example : ¬ HasRuleTD (ofRulesTD rsA) (bitsAr 2 3) 2 [4, 1] :=
  fun h => absurd ((absTD_ofRules rsA (by decide) 2 (by decide) 3 (by decide) 2 [4, 1]).mp h).2 (by decide)
example : HasRuleTD (addTransitionTD (ofRulesTD rsA) [2] 3 7) (bitsAr 3 1) 7 [2] :=
  (absTD_addTransition _ [2] 3 7 (by decide) (by decide) 3 (by decide) 1 (by decide) 7 [2]).mpr
    (Or.inr ⟨rfl, rfl, rfl, rfl⟩)
-- `absTD_union`, `absTD_unionDisj` (with its hypothesis)
example : HasRuleTD (unionTD (ofRulesTD [⟨0, [], 1⟩]) (ofRulesTD rsA)) (bitsAr 2 2) 2 [1, 1] :=
  (absTD_union _ _ _ _ _).mpr (Or.inr ((absTD_ofRules rsA (by decide) 2 (by decide) 2 (by decide) 2 [1, 1]).mpr (by decide)))
example : ∀ p, p ∈ keysTD (ofRulesTD [⟨0, [], 1⟩]) → p ∉ keysTD (ofRulesTD [⟨1, [], 8⟩, ⟨2, [8], 7⟩]) := by decide
-- `absTD_invert`: the state 2 is collected, the tuple is shorter than 64
example : HasRuleTD tdA (withArity (bits 2) 2) 2 [1, 1] :=
  (absTD_invert okA wfA finA (bits 2) 2 [1, 1] (by decide)).mpr
    ((absBU_ofRules rsA (by decide) 2 (by decide) [1, 1] 2).mpr (by decide))
-- the rule of the state 3 is dropped although the bottom-up table has it
example : ¬ HasRuleTD tdA (withArity (bits 0) 0) 3 [] ∧ HasRule (ofRules rsA) (bits 0) [] 3 :=
  ⟨fun h => absurd ((absTD_invert_gen okA finA _ 3 []).mp h).1 (by decide),
   (absBU_ofRules rsA (by decide) 0 (by decide) [] 3).mpr (by decide)⟩
-- the languages agree; trimming keeps them
example (t : Tree) : accepts (absTD syms tdA finA) t = accepts (absBU syms (ofRules rsA) finA) t :=
  getTopDownAut_lang okA wfA finA syms t
example (t : Tree) : accepts (absTD syms (removeUselessTD tdA finA).1 (removeUselessTD tdA finA).2) t =
    accepts (absBU syms (ofRules rsA) finA) t := by
  rw [removeUselessTD_lang finA wfTdA completeTdA]; exact getTopDownAut_lang okA wfA finA syms t
example : SetEqTA (absBU syms (removeUselessBU (ofRules rsA) finA).1 (removeUselessBU (ofRules rsA) finA).2)
    (removeUseless (absBU syms (ofRules rsA) finA)) := absBU_removeUseless finA wfA completeA
-- the work-list: it terminates on the example (`#guard` above); whatever it returns is `removeUnreachable` of the abstraction
example (R : TableTD) (h : tdUnreachWL tdA finA 10 = some R) :
    SetEqTA (absTD syms R finA) (removeUnreachable (absTD syms tdA finA)) :=
  (tdUnreachWL_abs h).trans (absTD_removeUnreachable finA wfTdA completeTdA)
/-- a hand-made table: `2 → (1,1)` under the arity bit 17, `1 → ()` -/
def tdB : TableTD := [(2, .node 17 (.leaf []) (.leaf [[1, 1]])), (1, .leaf [[]]), (7, .leaf [[]])]
example : tdUnreachWL tdB [2] 5 = some [(1, .leaf [[]]), (2, .node 17 (.leaf []) (.leaf [[1, 1]]))] := by decide
example : ∀ p, getTD [(1, Node.leaf [[]]), (2, .node 17 (.leaf []) (.leaf [[1, 1]]))] p =
    getTD (removeUnreachableTD tdB [2]) p := tdUnreachWL_correct (fuel := 5) (by decide)

end BddAbsTDEx

end BddAbsTD
end Vata
