import Vata.Proofs.RcStoreW
/-!
# A counter of `w` bits wraps after `2^w` copies: the node is released while handles are alive (properties C18 / C20)

The history `narrowHist w v` = "construct the constant `v` (handle 0, one leaf, node 0); copy handle 0 to the handles
`1 … 2^w`; destroy handle 0".  The leaf then has `2^w + 1` referrers; its `w`-bit counter holds `(2^w + 1) mod 2^w`, the
destructor of handle 0 decrements it to 0 and `recursivelyDeleteMTBDDNode` deletes the leaf although the `2^w` copies are
alive.  Proved for every `w` by induction on the number of copies.
-/
namespace Vata.RcSW
open Vata.R (Data)
open Vata.RcS

/-- the handle table after `construct 0`, `copy 0 1`, …, `copy 0 k` -/
def hsK : Nat → List (Nat × Nat)
  | 0 => [(0, 0)]
  | k+1 => (k+1, 0) :: hsK k

theorem find_hsK_zero : ∀ k, find 0 (hsK k) = some 0
  | 0 => rfl
  | k+1 => by simp only [hsK, find]; rw [if_neg (by omega)]; exact find_hsK_zero k

theorem find_hsK_fresh : ∀ k j, k < j → find j (hsK k) = none
  | 0, j, h => by simp only [hsK, find]; rw [if_neg (by omega)]
  | k+1, j, h => by simp only [hsK, find]; rw [if_neg (by omega)]; exact find_hsK_fresh k j (by omega)

theorem mem_hsK : ∀ k j, j ≤ k → (j, 0) ∈ hsK k
  | 0, j, h => by have : j = 0 := by omega
                  subst this; simp [hsK]
  | k+1, j, h => by
    by_cases e : j = k+1
    · subst e; simp [hsK]
    · exact List.mem_cons_of_mem _ (mem_hsK k j (by omega))

/-- the store after `construct 0 [] v v` and `k` copies: one leaf (node 0) whose `w`-bit counter holds `(1+k) mod 2^w` -/
structure NS (w v k : Nat) (s : Store) : Prop where
  ids   : s.ids = [0]
  dat   : s.dat 0 = .leaf v
  rc    : s.rc 0 = (1 + k) % 2^w
  leafT : s.leafT = [(v, 0)]
  intT  : s.intT = []
  hs    : s.hs = hsK k
  freed : s.freed = []

theorem NS_construct (w : Nat) (f : Nat → Nat → Nat) (v : Nat) : NS w v 0 (stepF w f empty (.construct 0 [] v v)) := by
  constructor <;>
    simp [stepF, construct, empty, find, spawnLeaf, allocLeaf, addHandle, incRef, setF, incrRc, hsK]

theorem NS_copy (w : Nat) (f : Nat → Nat → Nat) (v k : Nat) {s : Store} (h : NS w v k s) :
    NS w v (k+1) (stepF w f s (.copy 0 (k+1))) := by
  have h1 : find 0 s.hs = some 0 := by rw [h.hs]; exact find_hsK_zero k
  have h2 : find (k+1) s.hs = none := by rw [h.hs]; exact find_hsK_fresh k (k+1) (by omega)
  simp only [stepF, copy, h1, h2]
  refine ⟨h.ids, h.dat, ?_, h.leafT, h.intT, ?_, h.freed⟩
  · simp only [addHandle, incRef, incrRc, if_true, h.rc]
    rw [Nat.mod_add_mod, Nat.add_assoc]
  · simp only [addHandle, h.hs, hsK]

theorem foldl_copies (w : Nat) (f : Nat → Nat → Nat) (v : Nat) : ∀ k,
    NS w v k ((copies k).foldl (stepF w f) (stepF w f empty (.construct 0 [] v v)))
  | 0 => NS_construct w f v
  | k+1 => by
    simp only [copies, List.foldl_append, List.foldl_cons, List.foldl_nil]
    exact NS_copy w f v k (foldl_copies w f v k)

theorem wrap_dec (p : Nat) (hp : 0 < p) : ((1 + p) % p + p - 1) % p = 0 := by
  rw [Nat.add_mod_right]
  by_cases h1 : p = 1
  · subst h1; rfl
  · have : 1 % p = 1 := Nat.mod_eq_of_lt (by omega)
    rw [this]
    have : 1 + p - 1 = p := by omega
    rw [this, Nat.mod_self]

theorem release_leaf (w fuel : Nat) (s : Store) (n v : Nat) (ht : (decRef w s n).rc n = 0) (hd : s.dat n = .leaf v) :
    release w (fuel+1) s n = disposeLeaf (decRef w s n) n v := by
  simp only [release, if_pos ht, hd]

/-- destroying handle 0 in a store in which the counter of the leaf has wrapped to `1 mod 2^w` deletes the leaf and leaves
    every other handle in place -/
theorem destroy_wrapped (w : Nat) (f : Nat → Nat → Nat) (v : Nat) {s : Store} (h : NS w v (2^w) s) :
    (stepF w f s (.destroy 0)).ids = [] ∧ (stepF w f s (.destroy 0)).freed = [0] ∧
    (stepF w f s (.destroy 0)).hs = (hsK (2^w)).erase (0, 0) ∧
    tableSizes (stepF w f s (.destroy 0)) = (0, 0) ∧ (stepF w f s (.destroy 0)).dat 0 = .leaf v := by
  have h1 : find 0 s.hs = some 0 := by rw [h.hs]; exact find_hsK_zero _
  have hz : (s.rc 0 + 2^w - 1) % 2^w = 0 := by rw [h.rc]; exact wrap_dec _ (two_pow_pos' w)
  have e : stepF w f s (.destroy 0) = disposeLeaf (decRef w { s with hs := s.hs.erase (0, 0) } 0) 0 v := by
    simp only [stepF, destroy, h1]
    exact release_leaf w _ _ 0 v (by simp only [decRef, decrRc, if_true]; exact hz) h.dat
  rw [e]
  refine ⟨?_, ?_, ?_, ?_, ?_⟩
  · simp [disposeLeaf, decRef, h.ids]
  · simp [disposeLeaf, decRef, h.freed]
  · simp [disposeLeaf, decRef, h.hs]
  · simp [tableSizes, disposeLeaf, decRef, h.leafT, h.intT, eraseKey]
  · simp [disposeLeaf, decRef, h.dat]

end Vata.RcSW
