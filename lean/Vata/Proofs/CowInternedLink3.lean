import Vata.CowInterned2
import Vata.Proofs.CowInternedStep
/-!
# Named automata over one tuple cache – `ContainsTransition` (`containsMI`)

`containsMI_lib` : in a state that satisfies `Inv'` the call – two `find`s through the (possibly shared) map and cluster
nodes, `tupleLookup` of the asked tuple (a temporary), comparison of POINTERS, death of the temporary – answers what
`Store.contains` answers on the VALUE of the automaton, and leaves a state with the same values that satisfies `Inv'`.
-/
namespace Vata.CowI
open Vata.Store (upsert insN insTuple TupleSet)
open Vata.CowHeap (upd upd_same upd_other mem_of_lookup_snd)
open Vata.CowHeap3 (Heap valM valC mout cout hmap_mem)
open Vata.CowHeapX (HeapX stepX absX specStepX specInitX InvX ValX HOpX absX_of_mem absX_of_not_mem)
open Vata.StoreI (CacheSt lookupC acquireC releaseC derefC CInv lookup_map_snd)

/-- the tuple set the two `find`s of `ContainsTransition` arrive at, at the level of values -/
theorem contains_derefS (c : CacheSt) (H : Heap) (m : Nat) (fin : List Nat) (r : Rule) :
    Store.contains (derefS c ⟨valM H m, fin⟩) r =
      (match (H.ment m).lookup r.parent with
       | none => false
       | some cn =>
         match (H.cent cn).lookup r.sym with
         | none => false
         | some ts => ((H.tdat ts).map (derefCell c)).contains r.kids) := by
  unfold Store.contains derefS valM
  simp only [lookup_map_snd]
  cases hq : (H.ment m).lookup r.parent with
  | none => rfl
  | some cn =>
    simp only [Option.map_some]
    unfold valC
    simp only [lookup_map_snd]
    cases hf : (H.cent cn).lookup r.sym with
    | none => rfl
    | some ts => rfl

theorem containsMI_lib {s s' : Sys} {h : Nat} {r : Rule} {ch : Nat} {b : Bool} (hi : Inv' s)
    (hc : containsMI s h r ch = some (s', b)) :
    Inv' s' ∧ absV s' = absV s ∧
      b = (match absV s h with
           | some v => Store.contains v r
           | none => false) := by
  have hcv : CInv s.cache (refsT s.hx.core ++ s.ext) := hi.cache
  unfold containsMI at hc
  by_cases hh : h ∈ s.hx.core.hl
  · simp only [hh, if_true] at hc
    have hav : absV s h = some (derefS s.cache ⟨valM s.hx.core (s.hx.core.hmap h), s.hx.fin h⟩) := by
      show (absX s.hx h).map _ = _
      rw [absX_of_mem hh]
      rfl
    rw [hav]
    simp only
    rw [contains_derefS]
    cases hq : (s.hx.core.ment (s.hx.core.hmap h)).lookup r.parent with
    | none =>
      simp only [hq, Option.some.injEq, Prod.mk.injEq] at hc
      obtain ⟨e1, e2⟩ := hc
      subst e1; subst e2
      exact ⟨hi, rfl, rfl⟩
    | some cn =>
      simp only [hq] at hc ⊢
      cases hf : (s.hx.core.cent cn).lookup r.sym with
      | none =>
        simp only [hf, Option.some.injEq, Prod.mk.injEq] at hc
        obtain ⟨e1, e2⟩ := hc
        subst e1; subst e2
        exact ⟨hi, rfl, rfl⟩
      | some ts =>
        simp only [hf] at hc ⊢
        cases hl : lookupC s.cache r.kids ch with
        | none => simp [hl] at hc
        | some x =>
          obtain ⟨c₁, p⟩ := x
          simp only [hl, Option.some.injEq, Prod.mk.injEq] at hc
          obtain ⟨e1, e2⟩ := hc
          subst e1; subst e2
          obtain ⟨h1, ⟨rc1, hp1⟩, k1⟩ := CInv.lookupC hcv hl
          have h3 := CInv.releaseC h1
          -- the nodes the two `find`s go through are allocated
          have hm := hmap_mem hi.heap hh
          have hcn : cn ∈ s.hx.core.cl := hi.heap.mc.pt _ hm cn (mem_of_lookup_snd hq)
          have hts : ts ∈ s.hx.core.tl := hi.heap.ct.pt _ hcn ts (mem_of_lookup_snd hf)
          -- the elements of the tuple set are cells
          have hcells : CellsT (s.hx.core.tdat ts) := by
            have := hi.cells h _ (absX_of_mem hh)
            refine this (r.parent, valC s.hx.core cn) ?_ (r.sym, s.hx.core.tdat ts) ?_
            · exact List.mem_map.2 ⟨(r.parent, cn), Store.mem_of_lookup hq, rfl⟩
            · exact List.mem_map.2 ⟨(r.sym, ts), Store.mem_of_lookup hf, rfl⟩
          have hheld : ∀ a, cell a ∈ s.hx.core.tdat ts → a ∈ refsT s.hx.core ++ s.ext := fun a ha =>
            List.mem_append_left _ (mem_refsT hts (List.mem_flatten.2 ⟨cell a, ha, by simp [cell]⟩))
          have hd : ∀ id, id ∈ refsT s.hx.core → derefC (releaseC .lib c₁ p) id = derefC s.cache id := by
            intro a ha
            have haR : a ∈ refsT s.hx.core ++ s.ext := List.mem_append_left _ ha
            obtain ⟨v, rc, hm⟩ := hcv.live a haR
            obtain ⟨r1, hr1⟩ := k1 v a rc hm
            obtain ⟨r2, hr2⟩ := h3.2 v a r1 haR hr1
            rw [hcv.derefC_eq hm, h3.1.derefC_eq hr2]
          obtain ⟨g1, g2⟩ := same_heap hi (c' := releaseC .lib c₁ p) (E' := s.ext) h3.1 hd
          refine ⟨g1, g2, ?_⟩
          rw [Bool.eq_iff_iff]
          simp only [List.contains_iff_mem, List.mem_map]
          constructor
          · intro hp
            refine ⟨cell p, hp, ?_⟩
            rw [derefCell_cell]
            obtain ⟨v, rc, hm⟩ := hcv.live p (hheld p hp)
            obtain ⟨r1, hr1⟩ := k1 v p rc hm
            have := h1.fid _ _ _ _ _ hr1 hp1
            subst this
            exact hcv.derefC_eq hm
          · rintro ⟨l, hl', e⟩
            obtain ⟨a, ea⟩ := hcells l hl'
            subst ea
            rw [derefCell_cell] at e
            obtain ⟨v, rc, hm⟩ := hcv.live a (hheld a hl')
            rw [hcv.derefC_eq hm] at e
            subst e
            obtain ⟨r1, hr1⟩ := k1 _ a rc hm
            have := h1.fk _ _ _ hr1 hp1
            simp only [Prod.mk.injEq] at this
            rw [← this.1]
            exact hl'
  · simp only [hh, if_false, Option.some.injEq, Prod.mk.injEq] at hc
    obtain ⟨e1, e2⟩ := hc
    subst e1; subst e2
    refine ⟨hi, rfl, ?_⟩
    have : absV s h = none := by
      show (absX s.hx h).map _ = _
      rw [absX_of_not_mem hh]
      rfl
    rw [this]

end Vata.CowI
